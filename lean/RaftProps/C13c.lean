import RaftProofs.ClusterFlowM
import RaftProofs.ClusterFlowI
import RaftProofs.ClusterFlowD
import RaftProofs.ClusterFlowX
import RaftProps.C18

/-!
# C13 (ClusterSem) — replication flow control and advertised commit indexes, in every state of every history

`RaftProps/C13b.lean` proves the node-local, single-call half of C13 on the executable model.  This
file lifts it to `ClusterSem` (`RaftModel/Cluster.lean`): statements about **every state of every
history** of a cluster of node models with the monotone transport.

* `C13_cluster_inflights_invariant` — in every state of every history (plain `History`, no further
  hypothesis) every progress of every node's tracker has a well-formed in-flight window
  (`Inflights.Inv`, the ring invariant of C18) that holds at most `cap` indexes; with the initial-state
  clause `C13_boot_inflights` and the per-call preservation `C13_call_inflights_preserved` (all
  `NodeOp`s, `adjust_max_inflight_msgs` and `maybe_free_inflight_buffers` included);
* `C13_cluster_advertised_commit_le` — every `MsgAppend` / `MsgHeartbeat` in the transport or in a
  node's queue carries a commit index that its sender had reached as leader of the message's term at
  some earlier point of the history (hypotheses: `Hyp`, the weakest bundle of the commit layer);
* `C13_cluster_heartbeat_commit_le_matched` — a `MsgHeartbeat` to `j` carries a commit index that is at
  most the `matched` index its sender held for `j` when the queueing step ended (hypotheses: `Hyp`);
* `C13_cluster_heartbeat_commit_acknowledged` — … and `commit ≤ c0` (the common initial commit index)
  or a commit index covered by an accepting `MsgAppendResponse` of `j` for the leader's term that was in
  the transport when the heartbeat was queued; and when `j` queued that acknowledgement its log agreed,
  up to the acknowledged index, with a log of that term's leader (hypotheses: `Hyp3w`).
-/
namespace RaftProps.C13
open RaftModel RaftModel.Cluster RaftModel.Node RaftModel.Raft RaftModel.Raft.CC
open RaftModel.Cluster.Flow RaftModel.Raft.FL

/-! ## 1. the in-flight windows -/

/-- **initial-state clause**: every progress of a node just built by `RawNode::new` (`Node.boot`,
from any storage under any `Config`) has a well-formed in-flight window. -/
theorem C13_boot_inflights (c : Config) (store : MemStorage) (rnd : Option Nat) (st : NState)
    (hb : Node.boot c store rnd = .ok (.ok st)) :
    ∀ q ∈ st.raft.prs.progress, q.2.ins.Inv ∧ q.2.ins.count ≤ q.2.ins.cap :=
  fun q hq => ⟨boot_tok hb q hq, (boot_tok hb q hq).count_le⟩

/-- **per-call preservation, for ALL `NodeOp`s** (the 35 constructors of `RaftModel/NodeOps.lean`:
`tick`, `step`, `Raft::step`, proposals, `read_index`, `transfer_leader`, `campaign`, `ping`,
`request_snapshot`, the reports, `apply_conf_change`, the persistence / apply / compaction steps of the
emulated application, draining, the run-time knobs, **`adjust_max_inflight_msgs`**,
**`maybe_free_inflight_buffers`**, the group-commit calls, `on_entries_fetched`): a call that returns
(does not panic) takes a node all of whose in-flight windows are well-formed to such a node.  The bound
is stated with the capacity the window itself carries (`Inflights.cap`: `max_inflight_msgs` at creation,
whatever `adjust_max_inflight_msgs` set since — a reduction below the current count is deferred,
`incoming_cap`, and `Inflights.Inv` says it only exists while the window is non-empty). -/
theorem C13_call_inflights_preserved (st st' : NState) (rnd : Option Nat) (op : NodeOp) (res : OpRes)
    (h : ∀ q ∈ st.raft.prs.progress, q.2.ins.Inv)
    (hc : Node.call st rnd op = .ok (res, st')) :
    ∀ q ∈ st'.raft.prs.progress, q.2.ins.Inv ∧ q.2.ins.count ≤ q.2.ins.cap :=
  fun q hq => ⟨call_tok h hc q hq, (call_tok h hc q hq).count_le⟩

/-- **C13 `inflights_invariant` (ClusterSem).**  In every state `h[n]` of **every history** of
`ClusterSem` (no hypothesis besides `History h`: any configuration, any application behaviour, loss /
duplication / reordering, crashes and restarts), for every node `i` and every progress `p` its tracker
holds for a peer `id`:

* the in-flight window is well-formed — `p.ins.Inv`, the ring-buffer invariant of
  `RaftProofs/Inflights.lean` under which the window *is* the bounded FIFO of C18
  (`C18_observables`: `count`, `full` and the contents are those of the FIFO);
* it holds at most `cap` indexes: `p.ins.count ≤ p.ins.cap`, and the FIFO contents have exactly
  `count` elements.

Together with `C13_no_send_when_paused` / `C13_isPaused_char` (a replicating follower whose window is
full is paused and gets nothing) this is "at most `cap` unacknowledged entry-carrying appends while
replicating". -/
theorem C13_cluster_inflights_invariant (h : List Sys) (hh : History h) (n : Nat) (s : Sys)
    (hn : h[n]? = some s) (i : Nat) (st : NState) (hi : s.node i = some st) (id : Nat)
    (p : Progress) (hp : (id, p) ∈ st.raft.prs.progress) :
    p.ins.Inv ∧ p.ins.count ≤ p.ins.cap ∧ p.ins.contents.length = p.ins.count := by
  have hI : p.ins.Inv := flow_inv hh s (mem_of_get hn) i st hi (id, p) hp
  refine ⟨hI, hI.count_le, ?_⟩
  simp [Inflights.contents]

/-- … in the form `prs.get id = some p` -/
theorem C13_cluster_inflights_invariant_get (h : List Sys) (hh : History h) (n : Nat) (s : Sys)
    (hn : h[n]? = some s) (i : Nat) (st : NState) (hi : s.node i = some st) (id : Nat)
    (p : Progress) (hp : st.raft.prs.get id = some p) :
    p.ins.Inv ∧ p.ins.count ≤ p.ins.cap :=
  have := C13_cluster_inflights_invariant h hh n s hn i st hi id p (CP.mem_of_lookup hp)
  ⟨this.1, this.2.1⟩

/-! ## 2 and 3. advertised commit indexes -/

/-- **C13 `advertised_commit_le` (ClusterSem).**  In every state `h[n]` of every history (under the
Ready contract `Hyp`: fixed non-empty duplicate-free voter configuration, `InitOk`, `KStep`, no
batching, no `MsgSnapshot` in the transport), every `MsgAppend` and every `MsgHeartbeat` `x` that is in
the transport or queued at any node was queued by node `x.frm` in a step that ended in a state
`h[n0]`, `n0 ≤ n`, in which `x.frm` was **leader of term `x.term`** with a commit index **at least
`x.commit`**.  (Stated with the existential point: the sender may have moved on, stepped down or
restarted since.) -/
theorem C13_cluster_advertised_commit_le (cfg : JointConfig) (h : List Sys) (H : Hyp cfg h)
    (n : Nat) (s : Sys) (hn : h[n]? = some s) (x : Message)
    (hx : x ∈ s.net ∨ ∃ i st, s.node i = some st ∧ x ∈ st.raft.msgs)
    (hty : x.msgType = .msgAppend ∨ x.msgType = .msgHeartbeat) :
    ∃ n0 s0 st0, n0 ≤ n ∧ h[n0]? = some s0 ∧ s0.node x.frm = some st0 ∧
      st0.raft.state = .leader ∧ st0.raft.term = x.term ∧
      x.commit ≤ st0.raft.raftLog.committed := by
  obtain ⟨n0, s0, st0, h1, h2, h3, h4, h5, h6, _⟩ := flow_point H hn hx hty
  exact ⟨n0, s0, st0, h1, h2, h3, h4, h5, h6⟩

/-- **C13 `heartbeat_commit ≤ matched` (ClusterSem)** — the first half of
`heartbeat_commit_acknowledged`; `Hyp` suffices.  A `MsgHeartbeat` `x` in the transport or in a queue
of `h[n]` was queued by a step that ended in a state `h[n0]`, `n0 ≤ n`, in which its sender `x.frm` led
`x.term`, had commit index `≥ x.commit`, and **held for the addressee `x.to` a progress `pr` with
`x.commit ≤ pr.matched`** (node level: `C13_heartbeat_commit_le`, `min(matched, committed)`); moreover
`x.commit = 0` or the transport of `h[n0]` held an accepting `MsgAppendResponse` of `x.to` for that term
(or without term) with an index `≥ x.commit`. -/
theorem C13_cluster_heartbeat_commit_le_matched (cfg : JointConfig) (h : List Sys)
    (H : Hyp cfg h) (n : Nat) (s : Sys) (hn : h[n]? = some s) (x : Message)
    (hx : x ∈ s.net ∨ ∃ i st, s.node i = some st ∧ x ∈ st.raft.msgs)
    (hty : x.msgType = .msgHeartbeat) :
    ∃ n0 s0 stL pr, n0 ≤ n ∧ h[n0]? = some s0 ∧ s0.node x.frm = some stL ∧
      stL.raft.state = .leader ∧ stL.raft.term = x.term ∧ x.commit ≤ stL.raft.raftLog.committed ∧
      stL.raft.prs.get x.to = some pr ∧ x.commit ≤ pr.matched ∧
      (x.commit = 0 ∨ ∃ a ∈ s0.net, a.msgType = .msgAppendResponse ∧ a.reject = false ∧
        a.frm = x.to ∧ (a.term = x.term ∨ a.term = 0) ∧ x.commit ≤ a.index) := by
  obtain ⟨n0, s0, st0, pr, h1, h2, h3, h4, h5, h6, h7, h8, h9⟩ := hbm_point H hn hx hty
  refine ⟨n0, s0, st0, pr, h1, h2, h3, h4, h5, h6, h7, h8, ?_⟩
  rcases h9 with c | ⟨a, a1, a2, a3, a4, a5⟩
  · exact .inl c
  · exact .inr ⟨a, a1, a2.1, a2.2, a3, a4, a5⟩

/-- **C13 `heartbeat_commit_acknowledged` (ClusterSem)** under `Hyp3w` (the hypotheses of the commit
layer: `Hyp` + no joint quorum inside one node + no pending snapshot / constant first index `c0 + 1` +
initial commit indexes `c0` + the initial snapshot-point term bound).  A `MsgHeartbeat` `x` to follower
`j = x.to`, in the transport or in a queue of `h[n]`, carries `commit ≤ c0`, or

* at a point `h[n0]`, `n0 ≤ n`, its sender led `x.term` with commit index `≥ x.commit` and **held
  `matched ≥ x.commit` for `j`**, and the transport held an accepting `MsgAppendResponse` `a` of `j`
  for term `x.term` with `x.commit ≤ a.index` (**the follower's acknowledged index**), and
* `j` queued `a` in a state `h[n1]`, `n1 ≤ n0`, being in term `x.term`, in which its logical log
  **agreed up to `a.index` (hence up to `x.commit`) with a log `L` that the leader of `x.term` held at
  a point `≤ n1`**, `L` reaching `a.index`.

So the commit index a heartbeat advertises never exceeds the follower's acknowledged index, which is
an index up to which the follower's log matched the leader's.  (The agreement is stated for the
follower's log when it acknowledged, not for its storage at a later time: an acknowledged suffix may be
truncated by a later leader — cf. `RaftProps/C01c.REPORT.md`.) -/
theorem C13_cluster_heartbeat_commit_acknowledged (cfg : JointConfig) (c0 : Nat) (h : List Sys)
    (H : Hyp3w cfg c0 h) (n : Nat) (s : Sys) (hn : h[n]? = some s) (x : Message)
    (hx : x ∈ s.net ∨ ∃ i st, s.node i = some st ∧ x ∈ st.raft.msgs)
    (hty : x.msgType = .msgHeartbeat) :
    x.commit ≤ c0 ∨
    ∃ n0 s0 stL pr a, n0 ≤ n ∧ h[n0]? = some s0 ∧ s0.node x.frm = some stL ∧
      stL.raft.state = .leader ∧ stL.raft.term = x.term ∧ x.commit ≤ stL.raft.raftLog.committed ∧
      stL.raft.prs.get x.to = some pr ∧ x.commit ≤ pr.matched ∧
      a ∈ s0.net ∧ a.msgType = .msgAppendResponse ∧ a.reject = false ∧ a.frm = x.to ∧
      a.term = x.term ∧ x.commit ≤ a.index ∧
      ∃ n1 s1 stj L, n1 ≤ n0 ∧ h[n1]? = some s1 ∧ s1.node x.to = some stj ∧ a ∈ stj.raft.msgs ∧
        stj.raft.term = x.term ∧ LeaderLog h n1 x.term L ∧ a.index ≤ L.lastIndex ∧
        EqUpTo stj.raft.raftLog.abs L a.index ∧ EqUpTo stj.raft.raftLog.abs L x.commit := by
  by_cases hc : x.commit ≤ c0
  · exact .inl hc
  right
  have H1 : Hyp cfg h := H.toHyp2w.toHyp
  obtain ⟨n0, s0, st0, pr, h1, h2, h3, h4, h5, h6, p1, p2, h7⟩ := hbm_point H1 hn hx hty
  rcases h7 with c | ⟨a, a1, a2, a3, a4, a5⟩
  · omega
  · have hidx : c0 < a.index := by omega
    have hx0 : a.index ≠ 0 := by omega
    have htnz := ((ack_inv H.toHyp2w n0 s0 h2).2 a a1 a2 hx0).2
    have hterm : a.term = x.term := by
      rcases a4 with c | c
      · exact c
      · exact absurd c htnz
    obtain ⟨n1, s1, stj, L, b1, b2, b3, b4, b5, b6, b7, b8⟩ := ack_promise H h2 a1 a2 hidx
    rw [a3] at b3
    rw [hterm] at b5 b6
    exact ⟨n0, s0, st0, pr, a, h1, h2, h3, h4, h5, h6, p1, p2, a1, a2.1, a2.2, a3, hterm, a5,
      n1, s1, stj, L, b1, b2, b3, b4, b5, b6, b7, b8, b8.mono a5⟩

/-! ## 4. non-vacuity (kernel-evaluated) -/

section Examples
open RaftProps.C02 RaftProps.C05

/-- **non-vacuity**: there is a history of `ClusterSem` (`RaftProofs/ClusterFlowX.lean`: the 15-state
history of `C01_cluster_nonvacuous` continued by a proposal at the leader, a `ping` and the hand-over of
the leader's queue; voters `{1, 2, 3}`, `c0 = 0`) that satisfies the premises of every theorem of this
file (`History`, `Hyp`, `Hyp3w`) and in which

* the transport holds an entry-carrying `MsgAppend` of node 1 for term 1, and the queue of node 1 holds
  an entry-carrying `MsgAppend` to node 2 advertising commit index 1;
* the transport of the last state holds a `MsgHeartbeat` of node 1 (term 1) to node 2 advertising
  commit index `1 > c0`;
* node 1, leader, keeps a **non-empty in-flight window** for the replicating follower 2:
  `count = 1 ≤ cap = 256`, contents `[2]`. -/
theorem C13_cluster_nonvacuous :
    ∃ h : List Sys, History h ∧ Hyp c02x_cfg h ∧ Hyp3w c02x_cfg 0 h ∧
      (∃ (n : Nat) (s : Sys) (x : Message), h[n]? = some s ∧ x ∈ s.net ∧ x.msgType = .msgAppend ∧
        x.entries ≠ [] ∧ x.frm = 1 ∧ x.term = 1) ∧
      (∃ (n : Nat) (s : Sys) (st : NState) (x : Message), h[n]? = some s ∧ s.node 1 = some st ∧
        x ∈ st.raft.msgs ∧ x.msgType = .msgAppend ∧ x.entries ≠ [] ∧ x.to = 2 ∧ x.commit = 1) ∧
      (∃ (n : Nat) (s : Sys) (x : Message), h[n]? = some s ∧ x ∈ s.net ∧
        x.msgType = .msgHeartbeat ∧ x.frm = 1 ∧ x.to = 2 ∧ x.term = 1 ∧ x.commit = 1) ∧
      (∃ (n : Nat) (s : Sys) (st : NState) (p : Progress), h[n]? = some s ∧ s.node 1 = some st ∧
        st.raft.state = .leader ∧ st.raft.prs.get 2 = some p ∧ p.state = .replicate ∧
        p.ins.count = 1 ∧ p.ins.cap = 256 ∧ p.ins.contents = [2]) := by
  obtain ⟨w1, w2, w3, w4, w5, w6, w7, w8⟩ := c13x_window
  obtain ⟨⟨a1, a2, a3, a4, a5⟩, x, b1, b2, b3, b4, b5⟩ := c13x_appends
  obtain ⟨e1, e2, e3, e4, e5, e6, e7⟩ := c13x_heartbeat
  exact ⟨c13x_hist, c13x_history, c13x_hyp3.toHyp3w.toHyp2w.toHyp, c13x_hyp3.toHyp3w,
    ⟨15, c13x_s15, c05x_app, w1, a1, a2, a3, a4, a5⟩,
    ⟨15, c13x_s15, c13x_a9, x, w1, w2, b1, b2, b3, b4, b5⟩,
    ⟨17, c13x_s17, c13x_hb, e1, e2, e3, e4, e5, e6, e7⟩,
    ⟨15, c13x_s15, c13x_a9, c13x_pr2, w1, w2, w3, w4, w5, w6, w7, w8⟩⟩

/-- … and the theorems apply to it: the window invariant in any of its states, -/
example (i : Nat) (st : NState) (hi : c13x_s15.node i = some st) (id : Nat) (p : Progress)
    (hp : (id, p) ∈ st.raft.prs.progress) : p.ins.Inv ∧ p.ins.count ≤ p.ins.cap :=
  have := C13_cluster_inflights_invariant c13x_hist c13x_history 15 c13x_s15 c13x_window.1 i st hi
    id p hp
  ⟨this.1, this.2.1⟩

/-- the advertised commit index of the acknowledged `MsgAppend` in the transport, -/
example : ∃ n0 s0 st0, n0 ≤ 15 ∧ c13x_hist[n0]? = some s0 ∧ s0.node c05x_app.frm = some st0 ∧
    st0.raft.state = .leader ∧ st0.raft.term = c05x_app.term ∧
    c05x_app.commit ≤ st0.raft.raftLog.committed :=
  C13_cluster_advertised_commit_le c02x_cfg c13x_hist c13x_hyp3.toHyp3w.toHyp2w.toHyp 15 c13x_s15
    c13x_window.1 c05x_app (.inl c13x_appends.1.1) (.inl c13x_appends.1.2.1)

/-- and, for the heartbeat of the last state (commit index `1 > c0 = 0`), the non-trivial alternative
of `C13_cluster_heartbeat_commit_acknowledged`: the leader held `matched ≥ 1` for node 2, node 2's
acknowledgement was in the transport, and node 2's log agreed with the leader's up to it. -/
example : ∃ n0 s0 stL pr a, n0 ≤ 17 ∧ c13x_hist[n0]? = some s0 ∧ s0.node c13x_hb.frm = some stL ∧
      stL.raft.state = .leader ∧ stL.raft.term = c13x_hb.term ∧
      c13x_hb.commit ≤ stL.raft.raftLog.committed ∧
      stL.raft.prs.get c13x_hb.to = some pr ∧ c13x_hb.commit ≤ pr.matched ∧
      a ∈ s0.net ∧ a.msgType = .msgAppendResponse ∧ a.reject = false ∧ a.frm = c13x_hb.to ∧
      a.term = c13x_hb.term ∧ c13x_hb.commit ≤ a.index ∧
      ∃ n1 s1 stj L, n1 ≤ n0 ∧ c13x_hist[n1]? = some s1 ∧ s1.node c13x_hb.to = some stj ∧
        a ∈ stj.raft.msgs ∧ stj.raft.term = c13x_hb.term ∧ LeaderLog c13x_hist n1 c13x_hb.term L ∧
        a.index ≤ L.lastIndex ∧ EqUpTo stj.raft.raftLog.abs L a.index ∧
        EqUpTo stj.raft.raftLog.abs L c13x_hb.commit := by
  obtain ⟨e1, e2, e3, _, _, _, e7⟩ := c13x_heartbeat
  rcases C13_cluster_heartbeat_commit_acknowledged c02x_cfg 0 c13x_hist c13x_hyp3.toHyp3w 17
    c13x_s17 e1 c13x_hb (.inl e2) e3 with c | c
  · omega
  · exact c

end Examples

end RaftProps.C13
