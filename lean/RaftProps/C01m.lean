import RaftProofs.ClusterCommit8B
import RaftProps.C01l

/-!
# C01 / C03 / C04 (and C05), cluster level, with `batch_append` allowed and **nothing assumed about queues** — unconditional

`RaftProps/C01l.lean` showed that the hypothesis `mute` of C01k (`SaneQ`: the *mute* nodes — a `MsgSnapshot`
is queued, so under `nosnap` they never send again before a restart — queue no `MsgAppend` anchored in the
void) is **not derivable** from the rest of the bundle (`C01l_saneQ_not_derivable`, the 44-state history
`c01l_hist`), and stated the six theorems conditionally.  This file proves them under

    ClusterB.Hyp3wL cfg c0 h        -- C01d's `Hyp3w` without `NoBatch`, plus `c0 = 0`; no `mute` / `SaneQ` / `nosq`

by **route (1)** of `RaftProps/C01l.REPORT.md`: the Log Matching layer (C05 / C05d: `Cluster.At`, `InvL`,
`Prov`, `Trans`, `SaneAnchors`, …) is restated so that *"every list of entries in the state"* **skips the
message queues of mute nodes** (`Cluster.M.At`, `RaftProofs/ClusterCommit8_LogI.lean`), re-proved, and the 36
dependent modules are copied over the new definitions (`RaftProofs/ClusterCommit8_*.lean`, scripted copy +
documented hand-made diffs; namespaces `….M`).  The one new per-call fact — *a queued `MsgSnapshot` stays
queued within a call* (`Cluster.M.MonoQ` / `MonoS`) — is a hypothesis of the copied Log Matching layer and is
**derived** in the copied commit-layer induction (`ClusterB.M.ci_callK`, from `Raft.CP.PWb.sn`), together
with `SaneAnchors` at the non-mute nodes (`CI.qa`), exactly as `anch` / `rirs` were in C01f.

* the six theorems of C01f / C01k / C01l, statements verbatim, under `Hyp3wL` alone;
* `C05_cluster_log_matching_batch_unconditional` (+ `C01m_chains_agree`): Log Matching for logs, storages,
  transport and the queues of non-mute nodes, batching on, **no anchor hypothesis** (C05d's `BatchOk` /
  `SaneAnchors` is gone; the commit-layer contract `Hyp3wL` replaces it);
* `C01m_queued_snapshot_stays`, `C01m_sane_anchors`: the two derived facts;
* comparison: `C01m_subsumes_C01l`, `C01m_subsumes_C01k`, `C01m_subsumes_C01d`, `C01m_strictly_more`;
* non-vacuity **beyond C01k / C01l**: State-Machine Safety applied to `c01l_hist`, which violates `SaneQ` and
  `NoBatch` (`C01m_counterexample_history_covered`, and the `example` after it).
-/
namespace RaftProps.C01m
open RaftModel RaftModel.Cluster RaftModel.ClusterB RaftModel.Node RaftModel.Raft RaftModel.Raft.CC
  RaftModel.Raft.CP RaftProps.C02

/-- **C01l's conditional theorems are special cases**: their hypotheses `Hyp3wL` + `mute` contain `Hyp3wL` -/
theorem C01m_subsumes_C01l {cfg : JointConfig} {c0 : Nat} {h : List Sys} (H : Hyp3wL cfg c0 h)
    (_hmute : (∀ s ∈ h, NoBatch s) ∨ (∀ s ∈ h, SaneQ s)) : Hyp3wL cfg c0 h := H

/-- **C01k is a special case** (forget `mute`) -/
theorem C01m_subsumes_C01k {cfg : JointConfig} {c0 : Nat} {h : List Sys} (H : Hyp3wK cfg c0 h) :
    Hyp3wL cfg c0 h := H.toHyp3wL

/-- **C01d with `c0 = 0` is a special case** -/
theorem C01m_subsumes_C01d {cfg : JointConfig} {h : List Sys} (H : Hyp3w cfg 0 h) :
    Hyp3wL cfg 0 h := Hyp3wL.of_hyp3w H

/-- the bundle of the copied layer is `Hyp3wL` -/
theorem C01m_bundle_iff {cfg : JointConfig} {c0 : Nat} {h : List Sys} :
    Hyp3wL cfg c0 h ↔ ClusterB.M.Hyp3wQ cfg c0 h :=
  ⟨Hyp3wL.toHyp3wQM, Hyp3wL.of_hyp3wQM⟩

/-- **strictly more histories than C01k / C01l's conditional theorems**: a history under `Hyp3wL` that is
not under `Hyp3wK` (a state violates `SaneQ`, a state violates `NoBatch`) -/
theorem C01m_strictly_more :
    ∃ h : List Sys, Hyp3wL c02x_cfg 0 h ∧ ¬ Hyp3wK c02x_cfg 0 h ∧
      (∃ s ∈ h, ¬ SaneQ s) ∧ (∃ s ∈ h, ¬ NoBatch s) :=
  ⟨c01l_hist, c01l_hyp3wL, c01l_not_hyp3wK, ⟨_, c01l_s40_mem, c01l_not_saneQ⟩,
    ⟨_, c01l_s43_mem, c01l_not_noBatch⟩⟩

/-! ## the two derived facts -/

/-- **a queued `MsgSnapshot` stays queued until the queue is emptied** (`send`, restart): for every step
`h[n] → h[n+1]` and every node, if a `MsgSnapshot` is queued before the step, one is queued after it or the
queue is empty -/
theorem C01m_queued_snapshot_stays (cfg : JointConfig) (c0 : Nat) (h : List Sys) (H : Hyp3wL cfg c0 h)
    (n : Nat) (a b : Sys) (ha : h[n]? = some a) (hb : h[n + 1]? = some b)
    (i : Nat) (st st' : NState) (hi : a.node i = some st) (hi' : b.node i = some st')
    (hq : ∃ x ∈ st.raft.msgs, x.msgType = .msgSnapshot) :
    (∃ x ∈ st'.raft.msgs, x.msgType = .msgSnapshot) ∨ st'.raft.msgs = [] :=
  H.mono n a b ha hb i st st' hi hi' hq

/-- **no `MsgAppend` queued at a non-mute node (and none in the transport) is anchored in the void** -/
theorem C01m_sane_anchors (cfg : JointConfig) (c0 : Nat) (h : List Sys) (H : Hyp3wL cfg c0 h)
    (s : Sys) (hs : s ∈ h) (i : Nat) (st : NState) (hi : s.node i = some st)
    (hnq : ¬ ∃ y ∈ st.raft.msgs, y.msgType = .msgSnapshot)
    (x : Message) (hx : x ∈ st.raft.msgs) (hty : x.msgType = .msgAppend) (hz : x.logTerm = 0) :
    x.index = 0 :=
  H.sane s hs i st hi hnq x hx hty hz

/-! ## Log Matching with batching, no anchor hypothesis -/

/-- **all chains agree**: in every state of a history under `Hyp3wL`, any two lists of entries of the state
— logical logs, stored logs, transported `MsgAppend`s, and the `MsgAppend`s queued **at nodes without a
queued `MsgSnapshot`** (`Cluster.M.At`) — agree: same index and term ⇒ same entry and same predecessor term.
(At the queue of a mute node this is false: `C01l_saneQ_not_derivable`.) -/
theorem C01m_chains_agree (cfg : JointConfig) (c0 : Nat) (h : List Sys) (H : Hyp3wL cfg c0 h)
    (s : Sys) (hs : s ∈ h) (l1 l2 : Loc) (g1 g2 : LLog)
    (h1 : Cluster.M.At s l1 g1) (h2 : Cluster.M.At s l2 g2) : Agree g1 g2 := by
  obtain ⟨s0, _, hall⟩ := H.invLB
  exact (hall s hs).1.agree l1 g1 l2 g2 h1 h2

/-- **C05 `cluster_log_matching`, batching allowed, unconditional** — the statement of
`C05_cluster_log_matching_batch` (`RaftProps/C05d.lean`) under the commit-layer contract `Hyp3wL` instead
of `BatchOk` (no `SaneAnchors`): in every state of the history and for any two nodes `i`, `j`: if their
logical logs hold entries with the same term at index `k`, then at every index `k' ≤ k` at which BOTH still
hold an entry, the two entries are equal. -/
theorem C05_cluster_log_matching_batch_unconditional (cfg : JointConfig) (c0 : Nat) (h : List Sys)
    (H : Hyp3wL cfg c0 h)
    (s : Sys) (hs : s ∈ h) (i j : Nat) (sti stj : NState)
    (hi : s.node i = some sti) (hj : s.node j = some stj)
    (k : Nat) (e e' : Entry) (he : sti.raft.raftLog.abs.entryAt k = some e)
    (he' : stj.raft.raftLog.abs.entryAt k = some e') (ht : e.term = e'.term)
    (k' : Nat) (hk : k' ≤ k) (a b : Entry) (ha : sti.raft.raftLog.abs.entryAt k' = some a)
    (hb' : stj.raft.raftLog.abs.entryAt k' = some b) : a = b := by
  have hag := C01m_chains_agree cfg c0 h H s hs (.log i) (.log j) _ _ ⟨sti, hi, rfl⟩ ⟨stj, hj, rfl⟩
  exact agree_matching hag (k - k') k e e' he he' ht k' a b (by omega) ha hb'

/-- … and a transported `MsgAppend` is, entry by entry, consistent with every log: if the message and the
log of node `j` hold entries with the same term at index `k`, they are the same entry -/
theorem C05_cluster_transport_matches_log_unconditional (cfg : JointConfig) (c0 : Nat) (h : List Sys)
    (H : Hyp3wL cfg c0 h) (s : Sys) (hs : s ∈ h) (x : Message) (hx : x ∈ s.net)
    (hty : x.msgType = .msgAppend) (j : Nat) (stj : NState) (hj : s.node j = some stj)
    (k : Nat) (e e' : Entry) (he : (msgLog x).entryAt k = some e)
    (he' : stj.raft.raftLog.abs.entryAt k = some e') (ht : e.term = e'.term) : e = e' :=
  (C01m_chains_agree cfg c0 h H s hs .net (.log j) _ _ ⟨x, hx, hty, rfl⟩ ⟨stj, hj, rfl⟩ k e e' he he'
    ht).1

end RaftProps.C01m

namespace RaftModel.ClusterB
open RaftModel RaftModel.Cluster RaftModel.Node RaftModel.Raft RaftModel.Raft.CC

/-! ## the six theorems of C01f / C01k / C01l under `Hyp3wL` alone — **no `mute`, `SaneQ`, `nosq` hypothesis** -/

/-- **C04 `cluster_leader_commit_rule`** — the commit rule with **durable acknowledgements**: whenever
a step `h[n] → h[n+1]` takes the commit index of a node `l` that is leader of term `t` after the step
from `c` to `c' > c`, the entry at `c'` in its log carries term `t`, and there is a joint quorum `Q` of
`cfg` such that every `j ∈ Q` is

* `l` itself, with `persisted ≥ c'` — and its storage holds its log up to `c'`; or
* the sender of an accepting `MsgAppendResponse` `x` for term `t` with `index ≥ c'` that is in the
  transport before the step, **and in every state of the history whose transport holds `x` — from the
  moment `x` entered the transport on — the storage of `j` holds `l`'s log up to `c'`**. -/
theorem _root_.RaftProps.C01m.C04_cluster_leader_commit_rule (cfg : JointConfig) (c0 : Nat) (h : List Sys)
    (H : Hyp3wL cfg c0 h)
    (n : Nat) (a b : Sys) (ha : h[n]? = some a) (hb : h[n + 1]? = some b)
    (l : Nat) (sta stb : NState) (hla : a.node l = some sta) (hlb : b.node l = some stb)
    (t : Nat) (hs : stb.raft.state = .leader) (ht : stb.raft.term = t)
    (hc : sta.raft.raftLog.committed < stb.raft.raftLog.committed) :
    stb.raft.raftLog.term stb.raft.raftLog.committed = .ok t ∧
    ∃ Q, IsJointQuorum cfg Q ∧ ∀ j ∈ Q,
      (j = l ∧ stb.raft.raftLog.committed ≤ stb.raft.raftLog.persisted ∧
        ∀ k, k ≤ stb.raft.raftLog.committed →
          (storeLog stb.raft.raftLog.store).entryAt k = stb.raft.raftLog.abs.entryAt k) ∨
      ∃ x ∈ a.net, x.msgType = .msgAppendResponse ∧ x.reject = false ∧ x.frm = j ∧ x.term = t ∧
        stb.raft.raftLog.committed ≤ x.index ∧
        ∀ (m : Nat) (s : Sys) (stj : NState), h[m]? = some s → x ∈ s.net → s.node j = some stj →
          ∀ k, k ≤ stb.raft.raftLog.committed →
            (storeLog stj.raft.raftLog.store).entryAt k = stb.raft.raftLog.abs.entryAt k :=
  RaftProps.C01k.M.C04_cluster_leader_commit_rule_a cfg c0 h H.toHyp3aM n a b ha hb l sta stb hla hlb t hs ht hc

/-- **C03 `cluster_leader_completeness`** — every entry a leader has committed is in the log of every
leader of a later term: if a step `h[n] → h[n+1]` takes the commit index of `l`, leader of term `t`
after the step, to `c'`, then any node that leads a term `t' > t` in any state `h[m]` of the history
holds, at every index up to `c'`, the entry `l` held there. -/
theorem _root_.RaftProps.C01m.C03_cluster_leader_completeness (cfg : JointConfig) (c0 : Nat) (h : List Sys)
    (H : Hyp3wL cfg c0 h)
    (n : Nat) (a b : Sys) (ha : h[n]? = some a) (hb : h[n + 1]? = some b)
    (l : Nat) (sta stb : NState) (hla : a.node l = some sta) (hlb : b.node l = some stb)
    (hs : stb.raft.state = .leader)
    (hc : sta.raft.raftLog.committed < stb.raft.raftLog.committed)
    (m : Nat) (s : Sys) (hm : h[m]? = some s) (l' : Nat) (st' : NState)
    (hl' : s.node l' = some st') (hs' : st'.raft.state = .leader)
    (ht : stb.raft.term < st'.raft.term) :
    ∀ k, k ≤ stb.raft.raftLog.committed →
      st'.raft.raftLog.abs.entryAt k = stb.raft.raftLog.abs.entryAt k :=
  RaftProps.C01k.M.C03_cluster_leader_completeness_a cfg c0 h H.toHyp3aM n a b ha hb l sta stb hla hlb hs hc m s hm l' st' hl' hs' ht

/-- **C04 `cluster_follower_commit_sound`** — *every* commit index is sound: in every state `h[m]`,
what a node `v` has marked committed is at most the common snapshot point `c0`, or it was committed by
a leader: there is an earlier step `h[n] → h[n+1]` (`n < m`) that took the commit index of a node `l`,
leader of a term `t ≤ term(v)` after the step, to some `c' ≥ committed(v)`, and the log of `v` equals
the log `l` had then up to `committed(v)`. -/
theorem _root_.RaftProps.C01m.C04_cluster_follower_commit_sound (cfg : JointConfig) (c0 : Nat) (h : List Sys)
    (H : Hyp3wL cfg c0 h) (m : Nat) (s : Sys) (hm : h[m]? = some s) (v : Nat) (st : NState)
    (hv : s.node v = some st) :
    st.raft.raftLog.committed ≤ c0 ∨
    ∃ (n : Nat) (a b : Sys) (l : Nat) (sta stb : NState), n < m ∧ h[n]? = some a ∧
      h[n + 1]? = some b ∧ a.node l = some sta ∧ b.node l = some stb ∧
      stb.raft.state = .leader ∧ sta.raft.raftLog.committed < stb.raft.raftLog.committed ∧
      st.raft.raftLog.committed ≤ stb.raft.raftLog.committed ∧ stb.raft.term ≤ st.raft.term ∧
      ∀ k, k ≤ st.raft.raftLog.committed →
        st.raft.raftLog.abs.entryAt k = stb.raft.raftLog.abs.entryAt k :=
  RaftProps.C01k.M.C04_cluster_follower_commit_sound_a cfg c0 h H.toHyp3aM m s hm v st hv

/-- … and so is every **stored** commit index (what a restarted node starts from): it is not ahead of
the commit index, and it is covered by a leader's commit of a term not above the stored term, with the
stored entries. -/
theorem _root_.RaftProps.C01m.C04_cluster_stored_commit_sound (cfg : JointConfig) (c0 : Nat) (h : List Sys)
    (H : Hyp3wL cfg c0 h) (m : Nat) (s : Sys) (hm : h[m]? = some s) (v : Nat) (st : NState)
    (hv : s.node v = some st) :
    st.raft.raftLog.store.hardState.commit ≤ st.raft.raftLog.committed ∧
    (st.raft.raftLog.store.hardState.commit ≤ c0 ∨
     ∃ (n : Nat) (a b : Sys) (l : Nat) (sta stb : NState), n < m ∧ h[n]? = some a ∧
      h[n + 1]? = some b ∧ a.node l = some sta ∧ b.node l = some stb ∧
      stb.raft.state = .leader ∧ sta.raft.raftLog.committed < stb.raft.raftLog.committed ∧
      st.raft.raftLog.store.hardState.commit ≤ stb.raft.raftLog.committed ∧
      stb.raft.term ≤ st.raft.raftLog.store.hardState.term ∧
      ∀ k, k ≤ st.raft.raftLog.store.hardState.commit →
        (storeLog st.raft.raftLog.store).entryAt k = stb.raft.raftLog.abs.entryAt k) :=
  RaftProps.C01k.M.C04_cluster_stored_commit_sound_a cfg c0 h H.toHyp3aM m s hm v st hv

/-- **C01 `cluster_state_machine_safety`** — any two nodes, in any two states of the history (the same
node before and after a restart included), hold the same entry at every index both have marked
committed. -/
theorem _root_.RaftProps.C01m.C01_cluster_state_machine_safety (cfg : JointConfig) (c0 : Nat) (h : List Sys)
    (H : Hyp3wL cfg c0 h)
    (m1 : Nat) (s1 : Sys) (hm1 : h[m1]? = some s1) (v1 : Nat) (st1 : NState)
    (hv1 : s1.node v1 = some st1)
    (m2 : Nat) (s2 : Sys) (hm2 : h[m2]? = some s2) (v2 : Nat) (st2 : NState)
    (hv2 : s2.node v2 = some st2)
    (k : Nat) (hk1 : k ≤ st1.raft.raftLog.committed) (hk2 : k ≤ st2.raft.raftLog.committed) :
    st1.raft.raftLog.abs.entryAt k = st2.raft.raftLog.abs.entryAt k :=
  RaftProps.C01k.M.C01_cluster_state_machine_safety_a cfg c0 h H.toHyp3aM m1 s1 hm1 v1 st1 hv1 m2 s2 hm2 v2 st2 hv2 k hk1 hk2

/-- … in particular for the **applied** entries of two nodes whose applied index is within their
commit index (`AppliedOk`, which holds outside the restart window — `raft_log.rs:44-46`). -/
theorem _root_.RaftProps.C01m.C01_cluster_state_machine_safety_applied (cfg : JointConfig) (c0 : Nat)
    (h : List Sys) (H : Hyp3wL cfg c0 h)
    (m1 : Nat) (s1 : Sys) (hm1 : h[m1]? = some s1) (v1 : Nat) (st1 : NState)
    (hv1 : s1.node v1 = some st1) (ha1 : st1.raft.raftLog.AppliedOk)
    (m2 : Nat) (s2 : Sys) (hm2 : h[m2]? = some s2) (v2 : Nat) (st2 : NState)
    (hv2 : s2.node v2 = some st2) (ha2 : st2.raft.raftLog.AppliedOk)
    (k : Nat) (hk1 : k ≤ st1.raft.raftLog.applied) (hk2 : k ≤ st2.raft.raftLog.applied) :
    st1.raft.raftLog.abs.entryAt k = st2.raft.raftLog.abs.entryAt k :=
  RaftProps.C01m.C01_cluster_state_machine_safety cfg c0 h H m1 s1 hm1 v1 st1 hv1 m2 s2 hm2 v2 st2 hv2
    k (Nat.le_trans hk1 ha1) (Nat.le_trans hk2 ha2)

end RaftModel.ClusterB

namespace RaftProps.C01m
open RaftModel RaftModel.Cluster RaftModel.ClusterB RaftModel.Node RaftModel.Raft RaftProps.C02

/-! ## Non-vacuity beyond C01k / C01l -/

/-- **State-Machine Safety holds in the history `c01l_hist`** of `RaftProofs/ClusterCommit7B.lean` (44
states; node 1 ends as a mute leader whose queue holds a `MsgAppend` anchored in the void with entry 4 glued
onto it) — a history that violates `SaneQ` and `NoBatch`, so neither C01k nor the conditional theorems of
C01l apply to it -/
theorem C01m_counterexample_history_covered :
    (¬ Hyp3wK c02x_cfg 0 c01l_hist) ∧
    ∀ (m1 : Nat) (s1 : Sys), c01l_hist[m1]? = some s1 → ∀ (v1 : Nat) (st1 : NState),
      s1.node v1 = some st1 → ∀ (m2 : Nat) (s2 : Sys), c01l_hist[m2]? = some s2 →
      ∀ (v2 : Nat) (st2 : NState), s2.node v2 = some st2 →
      ∀ k, k ≤ st1.raft.raftLog.committed → k ≤ st2.raft.raftLog.committed →
        st1.raft.raftLog.abs.entryAt k = st2.raft.raftLog.abs.entryAt k :=
  ⟨c01l_not_hyp3wK, fun m1 s1 hm1 v1 st1 hv1 m2 s2 hm2 v2 st2 hv2 k hk1 hk2 =>
    C01_cluster_state_machine_safety c02x_cfg 0 c01l_hist c01l_hyp3wL m1 s1 hm1 v1 st1 hv1 m2 s2 hm2
      v2 st2 hv2 k hk1 hk2⟩

/-- the same, as an `example`: State-Machine Safety between the last state of `c01l_hist` (state 43, where
`SaneQ`, `NoBatch` and C05d's `InvL` fail) and any other state of it -/
example (v1 : Nat) (st1 : NState) (hv1 : c01l_s43.node v1 = some st1)
    (m2 : Nat) (s2 : Sys) (hm2 : c01l_hist[m2]? = some s2) (v2 : Nat) (st2 : NState)
    (hv2 : s2.node v2 = some st2) (k : Nat) (hk1 : k ≤ st1.raft.raftLog.committed)
    (hk2 : k ≤ st2.raft.raftLog.committed) :
    st1.raft.raftLog.abs.entryAt k = st2.raft.raftLog.abs.entryAt k := by
  obtain ⟨m1, hm1⟩ := List.mem_iff_getElem?.1 c01l_s43_mem
  exact C01_cluster_state_machine_safety c02x_cfg 0 c01l_hist c01l_hyp3wL m1 _ hm1 v1 st1 hv1 m2 s2 hm2
    v2 st2 hv2 k hk1 hk2

/-- … and Log Matching (logs) holds in that last state although its queue at node 1 is not a slice of the
log -/
example (i j : Nat) (sti stj : NState) (hi : c01l_s43.node i = some sti)
    (hj : c01l_s43.node j = some stj) (k : Nat) (e e' : Entry)
    (he : sti.raft.raftLog.abs.entryAt k = some e) (he' : stj.raft.raftLog.abs.entryAt k = some e')
    (ht : e.term = e'.term) : e = e' :=
  C05_cluster_log_matching_batch_unconditional c02x_cfg 0 c01l_hist c01l_hyp3wL c01l_s43 c01l_s43_mem
    i j sti stj hi hj k e e' he he' ht k (Nat.le_refl k) e e' he he'

end RaftProps.C01m
