import RaftProofs.Storage

/-!
# C19 — `MemStorage` honours the `Storage` contract

Property theorems only (helper lemmas live in `RaftProofs/Storage.lean`).  The model
`RaftModel.MemStorage` mirrors `MemStorageCore` / `impl Storage for MemStorage` (src/storage.rs:164-518)
method by method; `RaftModel.LogSpec` is the specification: a snapshot point `(snapIdx, snapTerm)`,
the first available index `firstIdx` (which `compact` moves while the snapshot point stays), the
contiguous entries from `firstIdx` on, the stored hard state and configuration.  The specification
selects by *log index* (`filter` / `find?` on the `index` field); the code computes vector positions.

All theorems quantify over every history of calls of every length (`StorageOp`: `set_hardstate`,
`set_conf_state`, `commit_to`, `apply_snapshot`, `compact`, `append`, the two triggers, and
`snapshot`, which consumes a trigger) whose calls satisfy the documented preconditions
(`LogSpec.pre`, and `LogSpec.preC` where the stored commit index matters), and over all query
arguments.  What happens outside the preconditions is settled separately (`…_panics`, and the
recorded quirks at the end).
-/
namespace RaftProps.C19
open RaftModel

/-! ## Histories: the invariant, absence of panics, refinement -/

/-- **Main refinement theorem.**  From any storage satisfying the representation invariant, every
history whose calls meet their documented preconditions runs without panic, re-establishes the
invariant, and ends in a storage whose meaning is the state the specification reaches. -/
theorem C19_refines_from (s : MemStorage) (h : s.Inv) (ops : List StorageOp)
    (hl : s.abs.legal ops = true) :
    ∃ s', s.run ops = .ok s' ∧ s'.Inv ∧ s'.abs = s.abs.run ops := by
  induction ops generalizing s with
  | nil => exact ⟨s, rfl, h, rfl⟩
  | cons op ops ih =>
    simp only [LogSpec.legal, Bool.and_eq_true] at hl
    obtain ⟨s1, e1, i1, a1⟩ := MemStorage.step_refines s h op hl.1
    obtain ⟨s2, e2, i2, a2⟩ := ih s1 i1 (by rw [a1]; exact hl.2)
    refine ⟨s2, ?_, i2, ?_⟩
    · simp only [MemStorage.run, e1]; exact e2
    · rw [a2, a1]; rfl

/-- every reachable storage: from `MemStorage::new()` -/
theorem C19_refines (ops : List StorageOp) (hl : MemStorage.new.abs.legal ops = true) :
    ∃ s', MemStorage.new.run ops = .ok s' ∧ s'.Inv ∧ s'.abs = MemStorage.new.abs.run ops :=
  C19_refines_from _ MemStorage.inv_new ops hl

/-- the specification stays well-formed and, under `preC`, the stored commit index keeps pointing at
the snapshot point or at a stored entry (what `snapshot()` needs) -/
theorem C19_commit_meaningful (s : MemStorage) (h : s.Inv) (hc : s.abs.commitOk = true)
    (ops : List StorageOp) (hl : s.abs.legalC ops = true) :
    ∃ s', s.run ops = .ok s' ∧ s'.Inv ∧ s'.abs = s.abs.run ops ∧ s'.abs.commitOk = true := by
  induction ops generalizing s with
  | nil => exact ⟨s, rfl, h, rfl, hc⟩
  | cons op ops ih =>
    simp only [LogSpec.legalC, Bool.and_eq_true] at hl
    obtain ⟨s1, e1, i1, a1⟩ := MemStorage.step_refines s h op (LogSpec.pre_of_preC _ _ hl.1)
    have c1 : s1.abs.commitOk = true := by
      rw [a1]; exact LogSpec.commitOk_step s.abs h hc op hl.1
    obtain ⟨s2, e2, i2, a2, c2⟩ := ih s1 i1 c1 (by rw [a1]; exact hl.2)
    refine ⟨s2, ?_, i2, ?_, c2⟩
    · simp only [MemStorage.run, e1]; exact e2
    · rw [a2, a1]; rfl

/-! ## Queries answer like the specification -/

/-- **first / last index and the shape of the log**: `first_index()` and `last_index()` are the
specification's, the snapshot point lies before `first_index()`, `last_index() + 1 = first_index() +
number of entries` (so an empty log answers `last = first - 1`), and the `i`-th stored entry carries
index `first_index() + i`. -/
theorem C19_index_spec (s : MemStorage) (h : s.Inv) :
    s.firstIndex = s.abs.firstIdx ∧ s.lastIndex = s.abs.lastIdx ∧
    s.abs.snapIdx < s.firstIndex ∧
    s.lastIndex + 1 = s.firstIndex + s.entries.length ∧
    (∀ i (hi : i < s.entries.length), s.entries[i].index = s.firstIndex + i) := by
  refine ⟨rfl, h.lastIdx.symm, h.1, h.lastIndex_succ, ?_⟩
  intro i hi
  exact contigFrom_getElem ((MemStorage.inv_iff s).1 h).2 i hi

/-- **term** answers exactly like the specification … -/
theorem C19_term_spec (s : MemStorage) (h : s.Inv) (idx : Nat) : s.term idx = s.abs.term idx :=
  MemStorage.term_refines s h idx

/-- … which means: the snapshot point answers its term; `Compacted` exactly below `first_index`
(snapshot point excepted); `Unavailable` exactly above `last_index`; in between, the term of *the*
stored entry with that index; never a panic. -/
theorem C19_term_cases (s : MemStorage) (h : s.Inv) (idx : Nat) :
    (idx = s.snapshotMetadata.index → s.term idx = .ok s.snapshotMetadata.term) ∧
    (s.term idx = .err .compacted ↔ idx ≠ s.snapshotMetadata.index ∧ idx < s.firstIndex) ∧
    (s.term idx = .err .unavailable ↔ s.lastIndex < idx) ∧
    (s.firstIndex ≤ idx → idx ≤ s.lastIndex →
      ∃ e, e ∈ s.entries ∧ e.index = idx ∧ s.term idx = .ok e.term ∧
        ∀ e', e' ∈ s.entries → e'.index = idx → e' = e) ∧
    (∀ site, s.term idx ≠ .panic site) := by
  have hlast := h.lastIndex_succ
  obtain ⟨h1, h2⟩ := (MemStorage.inv_iff s).1 h
  have key : ∀ (P : Res Nat → Prop),
      (idx = s.snapshotMetadata.index → P (.ok s.snapshotMetadata.term)) →
      (idx ≠ s.snapshotMetadata.index → idx < s.firstIndex → P (.err .compacted)) →
      (s.lastIndex < idx → P (.err .unavailable)) →
      (∀ e, idx ≠ s.snapshotMetadata.index → s.firstIndex ≤ idx → idx ≤ s.lastIndex →
        s.entries[idx - s.firstIndex]? = some e → P (.ok e.term)) → P (s.term idx) := by
    intro P p1 p2 p3 p4
    unfold MemStorage.term
    by_cases hs : idx = s.snapshotMetadata.index
    · rw [if_pos hs]; exact p1 hs
    · rw [if_neg hs]
      by_cases hc : idx < s.firstIndex
      · rw [if_pos hc]; exact p2 hs hc
      · rw [if_neg hc]
        by_cases hu : s.lastIndex < idx
        · rw [if_pos hu]; exact p3 hu
        · rw [if_neg hu]
          obtain ⟨e, hge, _⟩ := h.getElem? (idx - s.firstIndex) (by omega)
          rw [hge]; exact p4 e hs (by omega) (by omega) hge
  refine ⟨?_, ?_, ?_, ?_, ?_⟩
  · intro hs
    unfold MemStorage.term
    rw [if_pos hs]
  · refine key (fun r => r = .err .compacted ↔ idx ≠ s.snapshotMetadata.index ∧ idx < s.firstIndex)
      ?_ ?_ ?_ ?_
    · intro hs; constructor
      · intro hh; cases hh
      · intro hh; exact absurd hs hh.1
    · intro hs hc; exact ⟨fun _ => ⟨hs, hc⟩, fun _ => rfl⟩
    · intro hu; constructor
      · intro hh; cases hh
      · intro hh; omega
    · intro e hs hf hl _; constructor
      · intro hh; cases hh
      · intro hh; omega
  · refine key (fun r => r = .err .unavailable ↔ s.lastIndex < idx) ?_ ?_ ?_ ?_
    · intro hs; constructor
      · intro hh; cases hh
      · intro hh; omega
    · intro hs hc; constructor
      · intro hh; cases hh
      · intro hh; omega
    · intro hu; exact ⟨fun _ => hu, fun _ => rfl⟩
    · intro e hs hf hl _; constructor
      · intro hh; cases hh
      · intro hh; omega
  · intro hf hl
    have hs : idx ≠ s.snapshotMetadata.index := by omega
    obtain ⟨e, hge, hie⟩ := h.getElem? (idx - s.firstIndex) (by omega)
    refine ⟨e, List.mem_of_getElem? hge, by omega, ?_, ?_⟩
    · unfold MemStorage.term
      rw [if_neg hs, if_neg (by omega), if_neg (by omega), hge]
    · intro e' he' hi'
      obtain ⟨j, hj, rfl⟩ := List.getElem_of_mem he'
      have := contigFrom_getElem h2 j hj
      have hj' : j = idx - s.firstIndex := by omega
      subst hj'
      rw [List.getElem?_eq_getElem hj] at hge
      exact Option.some.inj hge
  · intro site
    refine key (fun r => r ≠ .panic site) ?_ ?_ ?_ ?_ <;> intros <;> intro hh <;> cases hh

/-- **entries** on an available range `first_index ≤ low ≤ high ≤ last_index + 1` (with a non-empty
range, or at least a non-empty log — see `quirk_empty_range_on_empty_log`) returns exactly the stored
entries with `low ≤ index < high`, in log order, cut by `limit_size`. -/
theorem C19_entries_spec (s : MemStorage) (h : s.Inv) (low high : Nat) (maxSize : Option Nat)
    (canAsync : Bool) (hl : s.firstIndex ≤ low) (hlh : low ≤ high) (hh : high ≤ s.lastIndex + 1)
    (hne : low < high ∨ s.entries ≠ [])
    (ht : (s.triggerLogUnavailable && canAsync) = false) :
    s.entriesQ low high maxSize canAsync =
      .ok (limitSize (s.entries.filter (fun e => decide (low ≤ e.index) && decide (e.index < high)))
        maxSize) := by
  have hne' : s.entries ≠ [] := by
    rcases hne with hlt | hne
    · intro hn
      have := h.lastIndex_succ
      rw [hn] at this; simp at this; omega
    · exact hne
  exact MemStorage.entries_refines s h low high maxSize canAsync hl hlh hh hne' ht

/-- **`util::limit_size`** (see `RaftModel.limitSize_spec`): a prefix; non-empty when the input is;
everything when unlimited; within `m` unless all before its last entry has size 0; maximal. -/
theorem C19_limitSize_spec (ents : List Entry) (max : Option Nat) :
    (∃ k, limitSize ents max = ents.take k) ∧
    (ents ≠ [] → limitSize ents max ≠ []) ∧
    (max = none ∨ max = some NO_LIMIT → limitSize ents max = ents) ∧
    (∀ m, max = some m → m ≠ NO_LIMIT →
      totalSize (limitSize ents max) ≤ m ∨ totalSize (limitSize ents max).dropLast = 0) ∧
    (∀ m, max = some m → ∀ e rest, ents = limitSize ents max ++ e :: rest →
      totalSize (limitSize ents max) ≠ 0 ∧ m < totalSize (limitSize ents max) + e.computeSize) :=
  limitSize_spec ents max

/-- **range reads honour the size limit while returning at least one entry**: for a non-empty
available range and a finite limit `m`, the answer is a non-empty prefix of the exact range, its
total protobuf size is within `m` unless it is a single entry, and the next entry of the range (if
any) would exceed `m`.  (Stored entries have index ≥ 1, hence non-zero size, so the size-0 clause of
`limit_size` collapses to "a single entry".) -/
theorem C19_entries_limit (s : MemStorage) (h : s.Inv) (low high m : Nat) (canAsync : Bool)
    (hl : s.firstIndex ≤ low) (hlh : low < high) (hh : high ≤ s.lastIndex + 1)
    (ht : (s.triggerLogUnavailable && canAsync) = false) (hm : m ≠ NO_LIMIT) :
    ∃ r, s.entriesQ low high (some m) canAsync = .ok r ∧ r ≠ [] ∧
      (∃ k, r = (s.abs.range low high).take k) ∧
      (totalSize r ≤ m ∨ r.length = 1) ∧
      (∀ e rest, s.abs.range low high = r ++ e :: rest → m < totalSize r + e.computeSize) := by
  have hlast := h.lastIndex_succ
  obtain ⟨h1, h2⟩ := (MemStorage.inv_iff s).1 h
  have hq := C19_entries_spec s h low high (some m) canAsync hl (by omega) hh (Or.inl hlh) ht
  have hrange : s.abs.range low high =
      s.entries.filter (fun e => decide (low ≤ e.index) && decide (e.index < high)) := rfl
  rw [← hrange] at hq
  have hne : s.abs.range low high ≠ [] := by
    rw [hrange, contigFrom_range h2 low high hl]
    intro hn
    have := congrArg List.length hn
    simp only [List.length_take, List.length_drop, List.length_nil] at this
    omega
  obtain ⟨hpre, hnon, _, hwithin, hmaxi⟩ := limitSize_spec (s.abs.range low high) (some m)
  have hpos : ∀ e ∈ limitSize (s.abs.range low high) (some m), 0 < e.computeSize := by
    intro e he
    obtain ⟨k, hk⟩ := hpre
    rw [hk] at he
    have he2 : e ∈ s.entries := (List.mem_filter.1 (List.mem_of_mem_take he)).1
    have := contigFrom_mem h2 e he2
    exact computeSize_pos e (by omega)
  refine ⟨_, hq, hnon hne, hpre, ?_, ?_⟩
  · rcases hwithin m rfl hm with hw | hw
    · exact Or.inl hw
    · right
      have hd := totalSize_eq_zero _ (fun e he => hpos e ((List.dropLast_sublist _).subset he)) hw
      have hlen := congrArg List.length hd
      simp only [List.length_dropLast, List.length_nil] at hlen
      have : (limitSize (s.abs.range low high) (some m)).length ≠ 0 := by
        intro h0; exact hnon hne (List.length_eq_zero_iff.1 h0)
      omega
  · intro e rest he
    exact (hmaxi m rfl e rest he).2

/-- without a limit the whole range is returned -/
theorem C19_entries_unlimited (s : MemStorage) (h : s.Inv) (low high : Nat) (maxSize : Option Nat)
    (canAsync : Bool) (hl : s.firstIndex ≤ low) (hlh : low < high) (hh : high ≤ s.lastIndex + 1)
    (ht : (s.triggerLogUnavailable && canAsync) = false)
    (hm : maxSize = none ∨ maxSize = some NO_LIMIT) :
    s.entriesQ low high maxSize canAsync = .ok (s.abs.range low high) := by
  have hq := C19_entries_spec s h low high maxSize canAsync hl (by omega) hh (Or.inl hlh) ht
  rw [hq, (limitSize_spec _ maxSize).2.2.1 hm]; rfl

/-- **documented errors of `entries`, in every state**: below `first_index` ⇒ `Compacted`; beyond
`last_index + 1` ⇒ the documented panic; otherwise, with the async trigger set and an async-capable
caller ⇒ `LogTemporarilyUnavailable`. -/
theorem C19_entries_errors (s : MemStorage) (low high : Nat) (maxSize : Option Nat) (canAsync : Bool) :
    (low < s.firstIndex → s.entriesQ low high maxSize canAsync = .err .compacted) ∧
    (s.firstIndex ≤ low → s.lastIndex + 1 < high →
      s.entriesQ low high maxSize canAsync = .panic "storage.entries.out_of_bound") ∧
    (s.firstIndex ≤ low → high ≤ s.lastIndex + 1 → (s.triggerLogUnavailable && canAsync) = true →
      s.entriesQ low high maxSize canAsync = .err .logTemporarilyUnavailable) := by
  refine ⟨?_, ?_, ?_⟩
  · intro hc; simp only [MemStorage.entriesQ, if_pos hc]
  · intro hc hb
    simp only [MemStorage.entriesQ]
    rw [if_neg (by omega), if_pos hb]
  · intro hc hb ht
    simp only [MemStorage.entriesQ]
    rw [if_neg (by omega), if_neg (by omega), ht, if_pos rfl]

/-! ## Mutations change the meaning as specified -/

/-- **append** of a contiguous batch starting at `first_index ≤ b₀.index ≤ last_index + 1`: the
entries with index below `b₀.index` are kept, everything from the first overwritten index on is
replaced by the batch; `first_index` is unchanged and `last_index` is the batch's last index. -/
theorem C19_append_spec (s : MemStorage) (h : s.Inv) (b0 : Entry) (b : List Entry)
    (hc : contigFrom b0.index (b0 :: b) = true) (hf : s.firstIndex ≤ b0.index)
    (hl : b0.index ≤ s.lastIndex + 1) :
    ∃ s', s.append (b0 :: b) = .ok s' ∧ s'.Inv ∧
      s'.entries = s.entries.filter (fun e => decide (e.index < b0.index)) ++ b0 :: b ∧
      s'.firstIndex = s.firstIndex ∧ s'.lastIndex = b0.index + b.length ∧
      s'.snapshotMetadata = s.snapshotMetadata ∧ s'.hardState = s.hardState ∧
      s'.confState = s.confState := by
  have hp : s.abs.pre (.append (b0 :: b)) = true := by
    simp only [LogSpec.pre, Bool.and_eq_true, decide_eq_true_eq, h.lastIdx]
    exact ⟨⟨hc, hf⟩, hl⟩
  obtain ⟨s', e, i, a, f, l⟩ := MemStorage.append_refines s h b0 b hp
  have a' := congrArg LogSpec.ents a
  refine ⟨s', e, i, a', f, l, ?_⟩
  simp only [MemStorage.append] at e
  rw [if_neg (by omega), if_neg (by omega)] at e
  split at e
  · cases e
  · cases e; exact ⟨rfl, rfl, rfl⟩

/-- a batch reaching below `first_index` ("compacted entries") or leaving a gap after `last_index`
panics, in every state; an empty batch is a no-op -/
theorem C19_append_panics (s : MemStorage) (b0 : Entry) (b : List Entry) :
    (b0.index < s.firstIndex → s.append (b0 :: b) = .panic "storage.append.compacted") ∧
    (s.firstIndex ≤ b0.index → s.lastIndex + 1 < b0.index →
      s.append (b0 :: b) = .panic "storage.append.gap") ∧
    s.append [] = .ok s := by
  refine ⟨?_, ?_, rfl⟩
  · intro hc; simp only [MemStorage.append, if_pos hc]
  · intro hc hg
    simp only [MemStorage.append]
    rw [if_neg (by omega), if_pos hg]

/-- **compact** up to `compact_index ≤ last_index`: exactly the entries with index `≥ compact_index`
remain, `first_index` becomes `max first_index compact_index`, `last_index`, the snapshot point, the
hard state and the configuration are unchanged; `compact_index ≤ first_index` is a no-op. -/
theorem C19_compact_spec (s : MemStorage) (h : s.Inv) (ci : Nat) (hci : ci ≤ s.lastIndex) :
    ∃ s', s.compact ci = .ok s' ∧ s'.Inv ∧
      s'.entries = s.entries.filter (fun e => decide (ci ≤ e.index)) ∧
      s'.firstIndex = max s.firstIndex ci ∧ s'.lastIndex = s.lastIndex ∧
      s'.snapshotMetadata = s.snapshotMetadata ∧ s'.hardState = s.hardState ∧
      s'.confState = s.confState := by
  have hp : s.abs.pre (.compact ci) = true := by
    simp only [LogSpec.pre, Bool.or_eq_true, decide_eq_true_eq, h.lastIdx]
    exact Or.inr hci
  obtain ⟨s', e, i, a, f, l⟩ := MemStorage.compact_refines s h ci hp
  obtain ⟨h1, h2⟩ := (MemStorage.inv_iff s).1 h
  have hents : s'.entries = s.entries.filter (fun e => decide (ci ≤ e.index)) := by
    have a' := congrArg LogSpec.ents a
    simp only [LogSpec.step] at a'
    by_cases hle : ci ≤ s.firstIndex
    · rw [if_pos (show ci ≤ s.abs.firstIdx from hle)] at a'
      rw [contigFrom_filter_ge h2, show ci - s.firstIndex = 0 by omega]
      exact a'
    · rw [if_neg (show ¬ ci ≤ s.abs.firstIdx from hle)] at a'
      exact a'
  refine ⟨s', e, i, hents, f, l, ?_⟩
  simp only [MemStorage.compact] at e
  split at e
  · cases e; exact ⟨rfl, rfl, rfl⟩
  · split at e
    · cases e
    · split at e
      · cases e; exact ⟨rfl, rfl, rfl⟩
      · split at e
        · cases e
        · split at e
          · cases e
          · cases e; exact ⟨rfl, rfl, rfl⟩

/-- compacting beyond `last_index + 1` is the documented panic, in every state -/
theorem C19_compact_panics (s : MemStorage) (ci : Nat) (h1 : s.firstIndex < ci)
    (h2 : s.lastIndex + 1 < ci) : s.compact ci = .panic "storage.compact.not_received" := by
  simp only [MemStorage.compact]
  rw [if_neg (by omega), if_pos h2]

/-- **apply_snapshot**: a snapshot older than `first_index` is refused with `SnapshotOutOfDate` and
the storage is untouched; otherwise the snapshot point becomes the snapshot's `(index, term)`, the
log is emptied (`first_index = index + 1`, `last_index = index`), the commit index is the snapshot
index, the hard-state term does not decrease, and the configuration is the snapshot's. -/
theorem C19_applySnapshot_spec (s : MemStorage) (snap : Snapshot) :
    (snap.metadata.index < s.firstIndex →
      s.applySnapshot snap = .err .snapshotOutOfDate ∧ s.step (.applySnapshot snap) = .ok s) ∧
    (s.firstIndex ≤ snap.metadata.index →
      ∃ s', s.applySnapshot snap = .ok s' ∧ s.step (.applySnapshot snap) = .ok s' ∧ s'.Inv ∧
        s'.snapshotMetadata = snap.metadata ∧ s'.entries = [] ∧
        s'.firstIndex = snap.metadata.index + 1 ∧ s'.lastIndex = snap.metadata.index ∧
        s'.term snap.metadata.index = .ok snap.metadata.term ∧
        s'.hardState.commit = snap.metadata.index ∧
        s'.hardState.term = max s.hardState.term snap.metadata.term ∧
        s'.hardState.vote = s.hardState.vote ∧
        s'.confState = snap.metadata.confState) := by
  constructor
  · intro hlt
    simp only [MemStorage.step, MemStorage.applySnapshot, if_pos hlt, and_self]
  · intro hge
    have hlt : ¬ snap.metadata.index < s.firstIndex := by omega
    refine ⟨{ s with
      snapshotMetadata := snap.metadata,
      hardState := { s.hardState with term := max s.hardState.term snap.metadata.term,
                                      commit := snap.metadata.index },
      entries := [],
      confState := snap.metadata.confState }, ?_, ?_, ?_, rfl, rfl, rfl, rfl, ?_, rfl, rfl, rfl, rfl⟩
    · simp only [MemStorage.applySnapshot, if_neg hlt]
    · simp only [MemStorage.step, MemStorage.applySnapshot, if_neg hlt]
    · rw [MemStorage.inv_iff]; simp [MemStorage.firstIndex, contigFrom]
    · simp [MemStorage.term]

/-- **snapshot**: when the stored commit index is meaningful (`C19_commit_meaningful`) and the
unavailability trigger is not set, `snapshot(request_index)` succeeds; its index is
`max commit request_index` — never below the requested one —, its term is the log's term at the
commit index (what `term(commit)` answers), it carries the stored configuration and no data, and
the storage is unchanged.  With the trigger set it answers `SnapshotTemporarilyUnavailable` once
and clears the trigger. -/
theorem C19_snapshot_spec (s : MemStorage) (h : s.Inv) (hc : s.abs.commitOk = true) (req : Nat) :
    (s.triggerSnapUnavailable = false →
      ∃ snap, s.snapshot req = (s, .ok snap) ∧
        snap.metadata.index = max s.hardState.commit req ∧ req ≤ snap.metadata.index ∧
        s.term s.hardState.commit = .ok snap.metadata.term ∧
        snap.metadata.confState = s.confState ∧ snap.data = []) ∧
    (s.triggerSnapUnavailable = true →
      s.snapshot req = ({ s with triggerSnapUnavailable := false },
        .err .snapshotTemporarilyUnavailable)) := by
  constructor
  · intro hns
    obtain ⟨snap, hsp, hsn⟩ := MemStorage.snapshot_refines s h hc req hns
    refine ⟨snap, hsn, ?_⟩
    simp only [LogSpec.snapshot] at hsp
    cases ht : s.abs.termAt s.abs.hs.commit with
    | none => rw [ht] at hsp; cases hsp
    | some t =>
      rw [ht] at hsp
      simp only [Option.map_some, Option.some.injEq] at hsp
      subst hsp
      refine ⟨rfl, Nat.le_max_right _ _, ?_, rfl, rfl⟩
      rw [MemStorage.term_refines s h]
      simp only [LogSpec.term]
      rw [show s.hardState.commit = s.abs.hs.commit from rfl, ht]
  · intro hs
    simp only [MemStorage.snapshot, hs, if_true]

/-- `commit_to` an existing entry records that index and the entry's term in the hard state;
`commit_to` anything else is the documented panic, in every state satisfying the invariant -/
theorem C19_commitTo_spec (s : MemStorage) (h : s.Inv) (i : Nat) :
    (s.firstIndex ≤ i → i ≤ s.lastIndex →
      ∃ s' e, s.commitTo i = .ok s' ∧ e ∈ s.entries ∧ e.index = i ∧
        s'.hardState = { s.hardState with commit := i, term := e.term } ∧
        s'.entries = s.entries ∧ s'.snapshotMetadata = s.snapshotMetadata ∧
        s'.confState = s.confState) ∧
    ((i < s.firstIndex ∨ s.lastIndex < i) → s.commitTo i = .panic "storage.commit_to.assert") := by
  have hlast := h.lastIndex_succ
  obtain ⟨h1, h2⟩ := (MemStorage.inv_iff s).1 h
  constructor
  · intro hf hl
    have hlen : 0 < s.entries.length := by omega
    obtain ⟨e0, he0, hi0⟩ := h.head? hlen
    obtain ⟨e, hge, hie⟩ := h.getElem? (i - s.firstIndex) (by omega)
    have hne : s.entries.isEmpty = false := by
      cases hs : s.entries with
      | nil => rw [hs] at hlen; simp at hlen
      | cons a t => rfl
    refine ⟨{ s with hardState := { s.hardState with commit := i, term := e.term } }, e, ?_,
      List.mem_of_getElem? hge, by omega, rfl, rfl, rfl, rfl⟩
    simp only [MemStorage.commitTo, MemStorage.hasEntryAt, hne, he0, hi0]
    have c1 : decide (s.firstIndex ≤ i) = true := by simp; omega
    have c2 : decide (i ≤ s.lastIndex) = true := by simp; omega
    simp only [c1, c2, Bool.not_false, Bool.and_self, Bool.not_true, Bool.false_eq_true, if_false]
    rw [if_neg (by omega), hge]
  · intro hout
    have : s.hasEntryAt i = false := by
      simp only [MemStorage.hasEntryAt, Bool.and_eq_false_iff, decide_eq_false_iff_not]
      rcases hout with ho | ho
      · exact Or.inl (Or.inr (by omega))
      · exact Or.inr (by omega)
    simp only [MemStorage.commitTo, this, Bool.not_false, if_true]

/-! ## Non-vacuity: a concrete history meets the hypotheses

Entries of different kinds and sizes (a 130-byte payload crosses the varint boundary), an overwriting
append, a compaction below the commit index, a snapshot query, then a snapshot application. -/

def ent (i t : Nat) (d : Nat := 0) : Entry :=
  { index := i, term := t, data := List.replicate d 7 }

def history : List StorageOp :=
  [ .setConfState { voters := [1, 2, 3] },
    .append [ent 1 1, ent 2 1 130, { ent 3 1 with etype := 1, context := [1, 2] }, ent 4 2, ent 5 2],
    .setHardState { term := 2, vote := 1, commit := 3 },
    .append [ent 4 3 5, ent 5 3, ent 6 3],
    .commitTo 4,
    .compact 3,
    .triggerSnapUnavailable,
    .snapshot 0,
    .snapshot 9 ]

def witness : MemStorage :=
  { hardState := { term := 3, vote := 1, commit := 4 },
    confState := { voters := [1, 2, 3] },
    entries := [{ ent 3 1 with etype := 1, context := [1, 2] }, ent 4 3 5, ent 5 3, ent 6 3],
    snapshotMetadata := {} }

example : MemStorage.new.abs.legalC history = true := by decide
example : MemStorage.new.abs.legal history = true := by decide
example : MemStorage.new.run history = .ok witness := by decide
example : witness.Inv ∧ witness.abs.commitOk = true := by decide
example : witness.firstIndex = 3 ∧ witness.lastIndex = 6 ∧ witness.snapshotMetadata.index = 0 := by
  decide
/-- after compaction the entry before `first_index` is `Compacted`, the old snapshot point still
answers -/
example : witness.term 2 = .err .compacted ∧ witness.term 0 = .ok 0 ∧ witness.term 7 = .err .unavailable
    ∧ witness.term 4 = .ok 3 := by decide
example : (witness.snapshot 9).2 =
    .ok { data := [], metadata := { index := 9, term := 3, confState := { voters := [1, 2, 3] } } } := by
  decide
/-- a size limit in the middle: entries 3 and 4 have sizes 10 and 11 -/
example : witness.entriesQ 3 7 (some 21) false = .ok [{ ent 3 1 with etype := 1, context := [1, 2] }, ent 4 3 5]
    ∧ witness.entriesQ 3 7 (some 20) false = .ok [{ ent 3 1 with etype := 1, context := [1, 2] }]
    ∧ witness.entriesQ 3 7 (some 0) false = .ok [{ ent 3 1 with etype := 1, context := [1, 2] }] := by
  decide
example : (ent 2 1 130).computeSize = 137 := by
  simp [ent, Entry.computeSize, varintLen]

/-! ## Recorded quirks outside the documented preconditions (the model mirrors the code) -/

/-- **F5**: `compact(last_index + 1)` is accepted, drains every entry, and `first_index` /
`last_index` fall back to the *old* snapshot point: here a log `1..3` compacted at 4 answers
`first_index = 1`, `last_index = 0` again, and would accept a fresh append at index 1.  Excluded from
the theorems by the documented precondition `compact_index ≤ applied ≤ last_index`. -/
example :
    ∃ s s', MemStorage.new.run [.append [ent 1 1, ent 2 1, ent 3 1]] = .ok s ∧
      s.firstIndex = 1 ∧ s.lastIndex = 3 ∧
      s.compact 4 = .ok s' ∧ s'.entries = [] ∧ s'.firstIndex = 1 ∧ s'.lastIndex = 0 ∧
      (∃ s'', s'.append [ent 1 9] = .ok s'') :=
  ⟨_, _, rfl, by decide, by decide, rfl, rfl, by decide, by decide, _, rfl⟩

/-- the empty range `[first_index, first_index)` is answered `Ok([])` on a non-empty log but hits
`core.entries[0]` (index out of bounds) on an empty one (storage.rs:469) -/
example : MemStorage.new.entriesQ 1 1 none false = .panic "storage.entries.index" ∧
    witness.entriesQ 3 3 none false = .ok [] := by decide

/-- after `compact`, `term(first_index - 1)` is `Compacted` although the `Storage` trait documents
`term` for `[first_index()-1, last_index()]` (storage.rs:136-140): the snapshot point stays behind -/
example : witness.firstIndex - 1 = 2 ∧ witness.term 2 = .err .compacted := by decide

end RaftProps.C19
