import RaftProofs.ClusterConfJ
import RaftProps.PDGuards
import RaftProps.C02c
import RaftProps.C05c

/-!
# C09 at the cluster level (plain `History`, membership free to change)

Property text (C09): *"A leader's log never holds more than one membership-change entry beyond its
applied index […]; and no node starts an election while a committed membership change is still
unapplied locally.  Every node's active configuration (voters, outgoing voters, learners, staged
learners, auto-leave) is determined by the initial configuration and the membership entries it has
applied or received by snapshot […].  A node that is not a voter of its own active configuration never
starts an election on its own, whether by timeout or on a transfer request."*

Everything here is about `ClusterSem` (`RaftModel/Cluster.lean`): clusters of node models moving by
`call` / `deliver` / `send` / `restart`, for **plain** histories — no `FixedCfg`, no commit-layer
bundle.  The facts are per step (or node-local invariants), lifted from the node-level theorems of
`RaftProps/C09.lean`, `RaftProps/C09b.lean`, `RaftProps/PDGuards.lean` to EVERY `NodeOp`
(`RaftProofs/ClusterConf{A..F}.lean`).

* **tracker view.**  `r.prs.toCC : Tracker` is the changer's view of a node's tracker: the
  configuration `prs.conf` (voters, outgoing voters, learners, staged learners, auto-leave) and the
  key set of the progress map — exactly what `confchange::Changer` reads and `C09.configOf` folds over.
* **labels.**  `Cluster.LStep s l s'` is `Cluster.Step s s'` with the constructor and its arguments
  named by `l : Label` (`step_iff_lstep`); `Cluster.Trace` is a labelled run; any two states of a
  history are joined by one (`hist_trace`).
-/
namespace RaftProps.C09c
open RaftModel RaftModel.Cluster RaftModel.Node RaftModel.Raft RaftProps.C09

/-! ## 2. the configuration changes only by `apply_conf_change`, a snapshot restore, or a restart -/

/-- **C09 `cluster_conf_changes_only_by_apply`** — one labelled step `s → s'` of the cluster, any
node `k` present before and after.  Its tracker view (configuration + progress key set) is unchanged
unless the step is
* the application's call `apply_conf_change cc` on `k`: then the new view is `C12.step` of the old one
  and the changer's method for `cc` (`C09_apply_conf_change_is_changer`: run `leave_joint` /
  `enter_joint` / `simple`; on success `apply_conf`, on error nothing);
* the delivery to `k` of a `MsgSnapshot` whose snapshot is restored: then the view is
  `confchange::restore` of the snapshot's `ConfState` on the empty tracker (`C09_restore_is_restore`);
* a restart of `k`: then the view is `confchange::restore` of the stored `ConfState` on the empty
  tracker.
Every other `NodeOp` (tick, propose, campaign, every other delivered message, persistence and apply
steps, `persist_snap`, compaction, knobs, …), `send`, and every step of another node leave it as it
was.  (`StepConf` spells these cases out by the label.) -/
theorem C09_cluster_conf_changes_only_by_apply {s s' : Sys} {l : Label} (h : LStep s l s')
    (k : Nat) (st st' : NState) (h1 : s.node k = some st) (h2 : s'.node k = some st') :
    StepConf l k st st' :=
  lstep_conf h k st st' h1 h2

/-- the same, readable without `StepConf`: for an unlabelled `Step`, the three ways the view of a
node can change -/
theorem C09_cluster_conf_changes_only_by_apply_step {s s' : Sys} (h : Step s s')
    (k : Nat) (st st' : NState) (h1 : s.node k = some st) (h2 : s'.node k = some st') :
    st'.raft.prs.toCC = st.raft.prs.toCC ∨
    (∃ cc rnd, LStep s (.call k rnd (.applyConfChange cc)) s' ∧
      st'.raft.prs.toCC = RaftProps.C12.step st.raft.prs.toCC (opOf cc)) ∨
    (∃ m rnd, LStep s (.deliver k rnd m) s' ∧ m.msgType = .msgSnapshot ∧
      RaftModel.restore Tracker.empty m.snapshot.metadata.confState = .ok st'.raft.prs.toCC) ∨
    (∃ c rnd, LStep s (.restart k c rnd) s' ∧
      RaftModel.restore Tracker.empty st.raft.raftLog.store.confState = .ok st'.raft.prs.toCC) := by
  obtain ⟨l, hl⟩ := step_iff_lstep.1 h
  have hc := lstep_conf hl k st st' h1 h2
  cases l with
  | call i rnd op =>
    cases op with
    | applyConfChange cc =>
      simp only [StepConf] at hc
      by_cases hi : i = k
      · subst hi
        rw [if_pos rfl] at hc
        exact .inr (.inl ⟨cc, rnd, hl, hc⟩)
      · rw [if_neg hi] at hc
        exact .inl hc
    | _ => exact .inl hc
  | deliver i rnd m =>
    rcases hc with hc | ⟨hi, hm, hc⟩
    · exact .inl hc
    · subst hi
      exact .inr (.inr (.inl ⟨m, rnd, hl, hm, hc⟩))
  | send i => exact .inl hc
  | restart i c rnd =>
    simp only [StepConf] at hc
    by_cases hi : i = k
    · subst hi
      rw [if_pos rfl] at hc
      exact .inr (.inr (.inr ⟨c, rnd, hl, hc⟩))
    · rw [if_neg hi] at hc
      exact .inl hc

/-- in the property's words: voters, outgoing voters, learners, staged learners and auto-leave
(`prs.conf`) of a node change in a step of a history only if the step is one of the three above -/
theorem C09_cluster_conf_fields_change_only_by_apply (h : List Sys) (hh : History h) (n : Nat)
    (s s' : Sys) (hn : h[n]? = some s) (hn' : h[n + 1]? = some s')
    (k : Nat) (st st' : NState) (h1 : s.node k = some st) (h2 : s'.node k = some st')
    (hne : st'.raft.prs.conf ≠ st.raft.prs.conf) :
    (∃ cc rnd, LStep s (.call k rnd (.applyConfChange cc)) s') ∨
    (∃ m rnd, LStep s (.deliver k rnd m) s' ∧ m.msgType = .msgSnapshot) ∨
    (∃ c rnd, LStep s (.restart k c rnd) s') := by
  rcases C09_cluster_conf_changes_only_by_apply_step (hist_step_at hh n s s' hn hn') k st st' h1 h2
    with g | ⟨cc, rnd, g, _⟩ | ⟨m, rnd, g, hm, _⟩ | ⟨c, rnd, g, _⟩
  · exact absurd (congrArg Tracker.conf g) hne
  · exact .inl ⟨cc, rnd, g⟩
  · exact .inr (.inl ⟨m, rnd, g, hm⟩)
  · exact .inr (.inr ⟨c, rnd, g⟩)

/-- **C09 `cluster_config_is_function_of_applied_changes`** — along any labelled run of the cluster
on which node `i` is neither restarted nor delivered a `MsgSnapshot`, the node's tracker view at the
end is `configOf` (the fold of the changer, `C09_node_config_is_configOf`) of its view at the start
and the list of changes it applied (`apply_conf_change` calls, accepted or rejected — a rejected one
is the identity of the fold), in order. -/
theorem C09_cluster_config_is_function_of_applied_changes {s s' : Sys} {ls : List Label}
    (ht : Trace s ls s') (i : Nat) (hfree : ReconfFree i ls) (st st' : NState)
    (h1 : s.node i = some st) (h2 : s'.node i = some st') :
    st'.raft.prs.toCC = configOf st.raft.prs.toCC ((appliedBy i ls).map opOf) :=
  trace_conf ht i hfree st st' h1 h2

/-- … between any two states of a history -/
theorem C09_cluster_config_is_function_of_applied_changes_hist (h : List Sys) (hh : History h)
    (a b : Nat) (hab : a ≤ b) (s s' : Sys) (ha : h[a]? = some s) (hb : h[b]? = some s') :
    ∃ ls, Trace s ls s' ∧ ∀ i, ReconfFree i ls → ∀ st st', s.node i = some st →
      s'.node i = some st' →
      st'.raft.prs.toCC = configOf st.raft.prs.toCC ((appliedBy i ls).map opOf) := by
  obtain ⟨ls, ht⟩ := hist_trace hh a b s s' hab ha hb
  exact ⟨ls, ht, fun i hf st st' h1 h2 => trace_conf ht i hf st st' h1 h2⟩

/-- **two nodes (of the same or of different clusters / runs) that start from the same tracker view
and apply the same changes hold identical configurations** — voters, outgoing voters, learners, staged
learners, auto-leave and progress key set -/
theorem C09_cluster_same_changes_same_config {s1 s1' s2 s2' : Sys} {ls1 ls2 : List Label}
    (ht1 : Trace s1 ls1 s1') (ht2 : Trace s2 ls2 s2') (i j : Nat)
    (hf1 : ReconfFree i ls1) (hf2 : ReconfFree j ls2)
    (sti sti' stj stj' : NState) (hi : s1.node i = some sti) (hi' : s1'.node i = some sti')
    (hj : s2.node j = some stj) (hj' : s2'.node j = some stj')
    (hstart : sti.raft.prs.toCC = stj.raft.prs.toCC)
    (hsame : appliedBy i ls1 = appliedBy j ls2) :
    sti'.raft.prs.toCC = stj'.raft.prs.toCC ∧ sti'.raft.prs.conf = stj'.raft.prs.conf := by
  have e1 := trace_conf ht1 i hf1 sti sti' hi hi'
  have e2 := trace_conf ht2 j hf2 stj stj' hj hj'
  have e : sti'.raft.prs.toCC = stj'.raft.prs.toCC := by rw [e1, e2, hstart, hsame]
  exact ⟨e, congrArg Tracker.conf e⟩

/-- a node and its restarted self: after a restart the view is `restore` of the stored `ConfState`;
from there on the fold of the applied changes again -/
theorem C09_cluster_config_after_restart {s s1 s' : Sys} {ls : List Label} {c : Config}
    {rnd : Option Nat} (i : Nat) (h0 : LStep s (.restart i c rnd) s1) (ht : Trace s1 ls s')
    (hfree : ReconfFree i ls) (st st' : NState) (h1 : s.node i = some st)
    (h2 : s'.node i = some st') :
    ∃ t, RaftModel.restore Tracker.empty st.raft.raftLog.store.confState = .ok t ∧
      st'.raft.prs.toCC = configOf t ((appliedBy i ls).map opOf) := by
  cases h0 with
  | restart _ stx stx' _ _ g1 g2 g3 =>
    rw [h1] at g1; cases g1
    have hb : ConfRestored st.raft.raftLog.store.confState stx'.raft := boot_conf c _ rnd stx' g3
    exact ⟨_, hb, trace_conf ht i hfree stx' st' (node_setNode_self _ _ _) h2⟩

/-! ## 1. the campaign guard -/

/-- the steps that can start an election on node `i`: the application's `tick` (election timeout) or
`campaign`, or the delivery of a `MsgTimeoutNow` (leader transfer).  (`MsgHup` is a local message:
`RawNode::step` refuses it, and the application's `campaign` is the only way to step one.) -/
def ElectLabel (i : Nat) : Label → Prop
  | .call j _ .tick => j = i
  | .call j _ .campaign => j = i
  | .deliver j _ m => j = i ∧ m.msgType = .msgTimeoutNow
  | _ => False

/-- **C09 `cluster_campaign_guard`, one step.**  If a labelled step takes node `i` into a
(pre-)candidacy it was not in (`Elected`: it ends up candidate or pre-candidate, and role or term
differ from before; the one exception is a pre-candidate that wins its pre-vote and goes on to the
real election of the same campaign — that campaign was guarded when the node became pre-candidate),
then in the state BEFORE the step
* the node is promotable (`promotable = true`: the flag `post_conf_change` sets to "voter of my own
  configuration"), and
* its own scan `has_unapplied_conf_changes` over `(applied, committed]` answers `false`;
and the step is `tick`, `campaign`, or the delivery of a `MsgTimeoutNow` on `i` — no other `NodeOp`,
no `send`, no `restart`, no step of another node makes `i` a candidate.  No log invariant is needed. -/
theorem C09_cluster_campaign_guard_step {s s' : Sys} {l : Label} (h : LStep s l s') (i : Nat)
    (st st' : NState) (h1 : s.node i = some st) (h2 : s'.node i = some st')
    (hel : Elected st.raft st'.raft) : HupGuard st.raft ∧ ElectLabel i l := by
  by_cases hk : i = l.node
  · cases h with
    | call j stx stx' rnd op res g1 g2 g3 =>
      have hk' : i = j := hk
      subst hk'
      rw [node_setNode_self] at h2
      cases h2
      rw [h1] at g1; cases g1
      obtain ⟨hg, ho⟩ := call_elected st st' rnd op res g3 hel
      refine ⟨hg, ?_⟩
      cases op <;> first
        | exact rfl
        | exact ho.elim
        | (cases g2; done)
    | deliver j stx stx' rnd m res g1 g2 g3 g4 =>
      have hk' : i = j := hk
      subst hk'
      rw [node_setNode_self] at h2
      cases h2
      rw [h1] at g1; cases g1
      obtain ⟨hg, ho⟩ := call_elected st st' rnd (.step m) res g4 hel
      exact ⟨hg, rfl, ho⟩
    | send j stx stx' g1 g2 g3 =>
      have hk' : i = j := hk
      subst hk'
      have h2' : (s.setNode i stx').node i = some st' := h2
      rw [node_setNode_self] at h2'
      cases h2'
      rw [h1] at g1; cases g1
      exact (call_elected st st' none .drain _ g3 hel).2.elim
    | restart j stx stx' c rnd g1 g2 g3 =>
      have hk' : i = j := hk
      subst hk'
      rw [node_setNode_self] at h2
      cases h2
      exact absurd hel (boot_not_elected st.raft g3)
  · have := lstep_other h i hk
    rw [this, h1] at h2
    cases h2
    exact absurd hel (not_elected_same rfl rfl)

/-- **C09 `cluster_campaign_guard`** — for every step `h[n] → h[n+1]` of a history and every node `i`
that the step takes into a (pre-)candidacy: in `h[n]` the node is promotable and its scan for an
unapplied membership change in `(applied, committed]` is negative, and the step is an election timeout
(`tick`), a `campaign` call or a delivered `MsgTimeoutNow` on `i`. -/
theorem C09_cluster_campaign_guard (h : List Sys) (hh : History h) (n : Nat) (s s' : Sys)
    (hn : h[n]? = some s) (hn' : h[n + 1]? = some s') (i : Nat) (st st' : NState)
    (h1 : s.node i = some st) (h2 : s'.node i = some st') (hel : Elected st.raft st'.raft) :
    st.raft.promotable = true ∧
    st.raft.hasUnappliedConfChanges st.raft.hupScanLow (st.raft.raftLog.committed + 1) = .ok false ∧
    ∃ l, LStep s l s' ∧ ElectLabel i l := by
  obtain ⟨l, hl⟩ := step_iff_lstep.1 (hist_step_at hh n s s' hn hn')
  obtain ⟨⟨g1, g2⟩, g3⟩ := C09_cluster_campaign_guard_step hl i st st' h1 h2 hel
  exact ⟨g1, g2, l, hl, g3⟩

/-- **every route into a candidacy, one step** (completeness of the case analysis): if after a labelled
step node `i` is candidate or pre-candidate and its (role, term) changed, then EITHER the guard held
before the step and the step is `tick` / `campaign` / a delivered `MsgTimeoutNow` on `i`, OR `i` was a
pre-candidate, is now candidate, and the step delivered a `MsgRequestPreVoteResponse` to it — it won
its pre-vote and went on to the real election (`campaign_after_pre_vote`), the one continuation that
raft-rs (and the model) does not guard a second time. -/
theorem C09_cluster_every_route_into_candidacy_step {s s' : Sys} {l : Label} (h : LStep s l s')
    (i : Nat) (st st' : NState) (h1 : s.node i = some st) (h2 : s'.node i = some st')
    (hc : st'.raft.state = .candidate ∨ st'.raft.state = .preCandidate)
    (hne : ¬ (st'.raft.state = st.raft.state ∧ st'.raft.term = st.raft.term)) :
    (HupGuard st.raft ∧ ElectLabel i l) ∨
    (st.raft.state = .preCandidate ∧ st'.raft.state = .candidate ∧
      ∃ m rnd, l = .deliver i rnd m ∧ m.msgType = .msgRequestPreVoteResponse) := by
  have hel : Elected0 st.raft st'.raft := ⟨hc, hne⟩
  by_cases hk : i = l.node
  · cases h with
    | call j stx stx' rnd op res g1 g2 g3 =>
      have hk' : i = j := hk
      subst hk'
      rw [node_setNode_self] at h2
      cases h2
      rw [h1] at g1; cases g1
      rcases call_cand_routes st st' rnd op res g3 hel with ⟨hg, ho⟩ | ⟨_, _, m, hm, _⟩
      · refine .inl ⟨hg, ?_⟩
        cases op <;> first
          | exact rfl
          | exact ho.elim
          | (cases g2; done)
      · exfalso
        rcases hm with hm | hm <;> (subst hm; cases g2)
    | deliver j stx stx' rnd m res g1 g2 g3 g4 =>
      have hk' : i = j := hk
      subst hk'
      rw [node_setNode_self] at h2
      cases h2
      rw [h1] at g1; cases g1
      rcases call_cand_routes st st' rnd (.step m) res g4 hel with ⟨hg, ho⟩ | ⟨a1, a2, m', hm, a3⟩
      · exact .inl ⟨hg, rfl, ho⟩
      · refine .inr ⟨a1, a2, m, rnd, rfl, ?_⟩
        rcases hm with hm | hm
        · cases hm; exact a3
        · cases hm
    | send j stx stx' g1 g2 g3 =>
      have hk' : i = j := hk
      subst hk'
      have h2' : (s.setNode i stx').node i = some st' := h2
      rw [node_setNode_self] at h2'
      cases h2'
      rw [h1] at g1; cases g1
      rcases call_cand_routes st st' none .drain _ g3 hel with ⟨_, ho⟩ | ⟨_, _, m, hm, _⟩
      · exact ho.elim
      · rcases hm with hm | hm <;> cases hm
    | restart j stx stx' c rnd g1 g2 g3 =>
      have hk' : i = j := hk
      subst hk'
      rw [node_setNode_self] at h2
      cases h2
      exact absurd hel (ne0_follower (CV.boot_booted c _ rnd st' g3).state)
  · have := lstep_other h i hk
    rw [this, h1] at h2
    cases h2
    exact absurd hel (ne0_same rfl rfl)

/-- … for every step `h[n] → h[n+1]` of a history -/
theorem C09_cluster_every_route_into_candidacy (h : List Sys) (hh : History h) (n : Nat) (s s' : Sys)
    (hn : h[n]? = some s) (hn' : h[n + 1]? = some s') (i : Nat) (st st' : NState)
    (h1 : s.node i = some st) (h2 : s'.node i = some st')
    (hc : st'.raft.state = .candidate ∨ st'.raft.state = .preCandidate)
    (hne : ¬ (st'.raft.state = st.raft.state ∧ st'.raft.term = st.raft.term)) :
    ∃ l, LStep s l s' ∧
      ((HupGuard st.raft ∧ ElectLabel i l) ∨
       (st.raft.state = .preCandidate ∧ st'.raft.state = .candidate ∧
        ∃ m rnd, l = .deliver i rnd m ∧ m.msgType = .msgRequestPreVoteResponse)) := by
  obtain ⟨l, hl⟩ := step_iff_lstep.1 (hist_step_at hh n s s' hn hn')
  exact ⟨l, hl, C09_cluster_every_route_into_candidacy_step hl i st st' h1 h2 hc hne⟩

/-- the role changes `Elected` covers, spelled out: from follower or leader to candidate or
pre-candidate; between candidate and pre-candidate towards pre-candidate; or staying candidate with a
new term -/
theorem C09_elected_of {r r' : Raft}
    (h : ((r.state = .follower ∨ r.state = .leader) ∧
          (r'.state = .candidate ∨ r'.state = .preCandidate)) ∨
        (r.state = .candidate ∧ r'.state = .preCandidate) ∨
        (r.state = .candidate ∧ r'.state = .candidate ∧ r.term < r'.term)) : Elected r r' := by
  rcases h with ⟨h1, h2⟩ | ⟨h1, h2⟩ | ⟨h1, h2, h3⟩
  · refine ⟨h2, fun hc => ?_, fun hc => ?_⟩
    · rcases h1 with g | g <;> rcases h2 with q | q <;> (rw [hc.1, g] at q; cases q)
    · rcases h1 with g | g <;> (rw [g] at hc; cases hc.1)
  · refine ⟨.inr h2, fun hc => ?_, fun hc => ?_⟩
    · rw [hc.1, h1] at h2; cases h2
    · rw [h1] at hc; cases hc.1
  · refine ⟨.inl h2, fun hc => ?_, fun hc => ?_⟩
    · omega
    · rw [h1] at hc; cases hc.1

/-- **the entry-level reading** (conditional — `_partial`): if moreover the node's log in `h[n]`
satisfies the representation invariant `RaftLogInv` (`PD_hasUnappliedConfChanges_spec` needs it to
read the scan), then **no membership-change entry lies at any index in `(applied, committed]` of its
log** when it starts the election.  What is missing for an unconditional statement: `RaftLogInv` of
every node along plain histories — the cluster-level log invariant (`RaftProps.C05.cluster_inv`) is
proved only for `FixedCfg` histories with `InitOk` / `CStep` / `NoBatch`. -/
theorem C09_cluster_campaign_guard_entries_partial (h : List Sys) (hh : History h) (n : Nat)
    (s s' : Sys) (hn : h[n]? = some s) (hn' : h[n + 1]? = some s') (i : Nat) (st st' : NState)
    (h1 : s.node i = some st) (h2 : s'.node i = some st') (hel : Elected st.raft st'.raft)
    (hinv : RaftProps.C14.RaftLogInv st.raft.raftLog) :
    st.raft.promotable = true ∧
    ∀ k e, st.raft.raftLog.applied < k → k ≤ st.raft.raftLog.committed →
      st.raft.raftLog.abs.entryAt k = some e → ¬ isConf e := by
  obtain ⟨g1, g2, _⟩ := C09_cluster_campaign_guard h hh n s s' hn hn' i st st' h1 h2 hel
  refine ⟨g1, fun k e hk1 hk2 he hc => ?_⟩
  obtain ⟨b, hb, hiff⟩ := RaftProps.PDGuards.PD_campaign_scan st.raft hinv
  rw [g2] at hb
  cases hb
  have : false = true := hiff.2 ⟨k, e, hk1, hk2, he, hc⟩
  cases this

/-- **`promotable` is "voter of my own active configuration"** — in every state of every history
(no hypothesis): node `i` carries id `i`, and its `promotable` flag equals `i ∈ voters ∪
outgoing voters` of its own tracker.  (`post_conf_change` sets the flag whenever the configuration is
replaced — `apply_conf_change`, `restore`, `RawNode::new` —, and nothing else touches configuration, id
or flag: `C09_cluster_conf_changes_only_by_apply`.) -/
theorem C09_cluster_promotable_is_voter (h : List Sys) (hh : History h) (s : Sys) (hs : s ∈ h)
    (i : Nat) (st : NState) (hi : s.node i = some st) :
    st.raft.id = i ∧ st.raft.promotable = Joint.contains st.raft.prs.voters i := by
  obtain ⟨g1, g2⟩ := prom_hist hh s hs i st hi
  refine ⟨g1, ?_⟩
  have : st.raft.promotable = Joint.contains st.raft.prs.voters st.raft.id := g2
  rw [g1] at this
  exact this

/-- **C09 `cluster_campaign_guard`, in the property's words**: a node that starts an election in a
step of a history IS a voter (incoming or outgoing) of its own active configuration in the state before
the step, and its scan for an unapplied committed membership change is negative -/
theorem C09_cluster_campaign_guard_voter (h : List Sys) (hh : History h) (n : Nat) (s s' : Sys)
    (hn : h[n]? = some s) (hn' : h[n + 1]? = some s') (i : Nat) (st st' : NState)
    (h1 : s.node i = some st) (h2 : s'.node i = some st') (hel : Elected st.raft st'.raft) :
    Joint.contains st.raft.prs.voters i = true ∧
    st.raft.hasUnappliedConfChanges st.raft.hupScanLow (st.raft.raftLog.committed + 1) = .ok false ∧
    ∃ l, LStep s l s' ∧ ElectLabel i l := by
  obtain ⟨g1, g2, g3⟩ := C09_cluster_campaign_guard h hh n s s' hn hn' i st st' h1 h2 hel
  have hs : s ∈ h := List.mem_of_getElem? hn
  exact ⟨by rw [← (C09_cluster_promotable_is_voter h hh s hs i st h1).2]; exact g1, g2, g3⟩

/-- **a node that is not a voter of its own active configuration never starts an election on its
own** — not by timeout, not by `campaign`, not on a transfer request (`MsgTimeoutNow`), not by any
other step of the cluster -/
theorem C09_cluster_non_voter_never_campaigns (h : List Sys) (hh : History h) (n : Nat) (s s' : Sys)
    (hn : h[n]? = some s) (hn' : h[n + 1]? = some s') (i : Nat) (st st' : NState)
    (h1 : s.node i = some st) (h2 : s'.node i = some st')
    (hnv : Joint.contains st.raft.prs.voters i = false) : ¬ Elected st.raft st'.raft := by
  intro hel
  have := (C09_cluster_campaign_guard_voter h hh n s s' hn hn' i st st' h1 h2 hel).1
  rw [hnv] at this
  cases this

/-- the headline case: **a node whose role goes from follower (or leader) to candidate or pre-candidate
in a step of a history** is, in the state before the step, a voter of its own active configuration
whose scan for an unapplied committed membership change is negative; the step is an election timeout, a
`campaign` call or a delivered `MsgTimeoutNow` -/
theorem C09_cluster_campaign_guard_from_non_candidate (h : List Sys) (hh : History h) (n : Nat)
    (s s' : Sys) (hn : h[n]? = some s) (hn' : h[n + 1]? = some s') (i : Nat) (st st' : NState)
    (h1 : s.node i = some st) (h2 : s'.node i = some st')
    (hfrom : st.raft.state = .follower ∨ st.raft.state = .leader)
    (hto : st'.raft.state = .candidate ∨ st'.raft.state = .preCandidate) :
    Joint.contains st.raft.prs.voters i = true ∧
    st.raft.hasUnappliedConfChanges st.raft.hupScanLow (st.raft.raftLog.committed + 1) = .ok false ∧
    ∃ l, LStep s l s' ∧ ElectLabel i l :=
  C09_cluster_campaign_guard_voter h hh n s s' hn hn' i st st' h1 h2
    (C09_elected_of (.inl ⟨hfrom, hto⟩))

/-- … and **a node that ends up candidate with a higher term**: guarded as above, or it was a
pre-candidate that has just won its pre-vote (a delivered `MsgRequestPreVoteResponse`) -/
theorem C09_cluster_campaign_guard_term_increase (h : List Sys) (hh : History h) (n : Nat)
    (s s' : Sys) (hn : h[n]? = some s) (hn' : h[n + 1]? = some s') (i : Nat) (st st' : NState)
    (h1 : s.node i = some st) (h2 : s'.node i = some st')
    (hto : st'.raft.state = .candidate) (hterm : st.raft.term < st'.raft.term) :
    ∃ l, LStep s l s' ∧
      ((HupGuard st.raft ∧ ElectLabel i l) ∨
       (st.raft.state = .preCandidate ∧
        ∃ m rnd, l = .deliver i rnd m ∧ m.msgType = .msgRequestPreVoteResponse)) := by
  obtain ⟨l, hl, hr⟩ := C09_cluster_every_route_into_candidacy h hh n s s' hn hn' i st st' h1 h2
    (.inl hto) (fun hc => by omega)
  refine ⟨l, hl, ?_⟩
  rcases hr with g | ⟨g1, _, g3⟩
  · exact .inl g
  · exact .inr ⟨g1, g3⟩

/-! ## 3. one pending change

The strongest statement that is an invariant of a leader's log is `C09.ConfBounded`: *every
membership-change entry beyond the apply cursor is at or below `pending_conf_index`*.  The literal
"at most one membership-change entry beyond the applied index" (`C09.AtMostOneUnapplied`) is true of the
entries a leader APPENDS but not of those it INHERITS (a follower that has received two changes and
applied neither may win an election: last example of `RaftProps/C09b.lean`); what protects the
configuration then is `become_leader` setting `pending_conf_index` to the inherited last index, so that
`ConfBounded` holds at once and every membership proposal is refused until all of it is applied.

Both results are conditional (`_partial`): `C09b`'s per-function lemmas read the logical log
(`raftLog.abs`), which needs the representation invariant `RaftLogInv` of the node's log (and the apply
cursor within the log); along plain histories that invariant is not available — the cluster-level log
invariant `RaftProps.C05.cluster_inv` is proved only for `FixedCfg` histories with `InitOk` / `NoBatch`
— so it is a hypothesis here (`LogOk` of every state), together with the compaction contract
(`CStep`: `compact k` only with `k ≤ committed, persisted`), which the storage-side frame lemma for
`compact` needs.  No `FixedCfg`, no commit-layer bundle. -/

/-- **C09 `cluster_one_pending_change`** (conditional on the log invariant) — in every state of a
history, every node in the leader role has `ConfBounded`: every membership-change entry of its log
beyond its apply cursor is at or below its `pending_conf_index`.  Established by `become_leader`
(whatever the inherited log), kept by the proposal filter (`MsgPropose`, any batch, any outcome), by
`commit_apply` (auto-leave appends the leave-joint entry only when the cursor has reached
`pending_conf_index`), by every other message in every role, by `tick`, by `apply_conf_change`, by the
storage-side steps (`stabilize`, `persist_snap`, `compact`, …) and every remaining `NodeOp`; a
`restart` yields a follower. -/
theorem C09_cluster_one_pending_change_partial (h : List Sys) (hh : History h)
    (hlog : ∀ s ∈ h, LogOk s)
    (hcon : ∀ (n : Nat) (a b : Sys), h[n]? = some a → h[n + 1]? = some b → CStep a b)
    (s : Sys) (hs : s ∈ h) (i : Nat) (st : NState) (hi : s.node i = some st)
    (hl : st.raft.state = .leader) : ConfBounded st.raft := by
  obtain ⟨n, hn⟩ := List.mem_iff_getElem?.1 hs
  exact lb_hist hh hlog hcon n s hn i st hi hl

/-- … hence **whenever no change is pending on a leader (`pending_conf_index ≤ applied`, the only
situation in which the filter lets a membership entry through), its log holds no unapplied
membership-change entry at all** -/
theorem C09_cluster_no_unapplied_change_when_not_pending_partial (h : List Sys) (hh : History h)
    (hlog : ∀ s ∈ h, LogOk s)
    (hcon : ∀ (n : Nat) (a b : Sys), h[n]? = some a → h[n + 1]? = some b → CStep a b)
    (s : Sys) (hs : s ∈ h) (i : Nat) (st : NState) (hi : s.node i = some st)
    (hl : st.raft.state = .leader) (hnp : ¬ st.raft.raftLog.applied < st.raft.pendingConfIndex) :
    ∀ k e, st.raft.raftLog.abs.entryAt k = some e → isConf e → k ≤ st.raft.raftLog.applied :=
  C09_no_unapplied_change_when_not_pending st.raft
    (C09_cluster_one_pending_change_partial h hh hlog hcon s hs i st hi hl) hnp

/-- **in the property's words** (conditional on the log invariant): whenever a leader's `propose` /
`propose_conf_change` call appends a membership-change entry — an entry at an index beyond the old last
index that is still a membership change after the filter — there was NO membership-change entry above
its applied index in its log before the call.  (A proposal that would add a second one is replaced by
an empty normal entry: `C09_proposal_filter_*`.) -/
theorem C09_cluster_conf_proposal_only_when_none_pending_partial (h : List Sys) (hh : History h)
    (hlog : ∀ s ∈ h, LogOk s)
    (hcon : ∀ (n : Nat) (a b : Sys), h[n]? = some a → h[n + 1]? = some b → CStep a b)
    (s s' : Sys) (hs : s ∈ h) (i : Nat) (rnd : Option Nat) (op : NodeOp)
    (hop : (∃ c d, op = .propose c d) ∨ (∃ t c d, op = .proposeCc t c d))
    (hstep : LStep s (.call i rnd op) s') (st st' : NState)
    (h1 : s.node i = some st) (h2 : s'.node i = some st') (hlead : st.raft.state = .leader)
    (x : Nat) (e' : Entry) (hx : st.raft.raftLog.lastIndex < x)
    (hx' : st'.raft.raftLog.abs.entryAt x = some e') (hc' : isConf e') :
    ∀ k e0, st.raft.raftLog.abs.entryAt k = some e0 → isConf e0 → k ≤ st.raft.raftLog.applied := by
  have hb := C09_cluster_one_pending_change_partial h hh hlog hcon s hs i st h1 hlead
  obtain ⟨hinv, hap⟩ := hlog s hs i st h1
  cases hstep with
  | call _ stx stx' _ _ res g1 g2 g3 =>
    rw [h1] at g1; cases g1
    rw [node_setNode_self] at h2
    cases h2
    unfold Node.call at g3
    rcases hop with ⟨c, d, rfl⟩ | ⟨t, c, d, rfl⟩
    · simp only [applyOp] at g3
      obtain ⟨raft, e, hxx, hr⟩ := CV.unitRes_ok g3
      rw [hr] at hx'
      exact step_propose_appends_conf (r := { st.raft with nextRand := rnd }) hinv hap hlead rfl rfl hb
        hxx x e' hx hx' hc'
    · simp only [applyOp] at g3
      obtain ⟨raft, e, hxx, hr⟩ := CV.unitRes_ok g3
      rw [hr] at hx'
      exact step_propose_appends_conf (r := { st.raft with nextRand := rnd }) hinv hap hlead rfl rfl hb
        hxx x e' hx hx' hc'

/-- the same for ONE call, with the hypotheses on that one state only: a leader with `ConfBounded`
whose log satisfies the invariant -/
theorem C09_conf_proposal_only_when_none_pending_node (r r' : Raft) (m : Message)
    (e : Option RaftError) (hinv : RaftProps.C14.RaftLogInv r.raftLog)
    (hap : r.raftLog.applied ≤ r.raftLog.lastIndex) (hs : r.state = .leader)
    (hm : m.msgType = .msgPropose) (h0 : m.term = 0) (hb : ConfBounded r)
    (h : r.step m = .ok (r', e)) (x : Nat) (e' : Entry) (hx : r.raftLog.lastIndex < x)
    (hx' : r'.raftLog.abs.entryAt x = some e') (hc' : isConf e') :
    ∀ i e0, r.raftLog.abs.entryAt i = some e0 → isConf e0 → i ≤ r.raftLog.applied :=
  step_propose_appends_conf hinv hap hs hm h0 hb h x e' hx hx' hc'

/-! ## 4. non-vacuity: a kernel-evaluated history with a membership change

The history `c02x_hist` of `RaftProps/C02c.lean` (three nodes `{1, 2, 3}`; node 1 campaigns, node 2
grants, node 1 is leader of term 1 in `c02x_s7`) is continued: the leader's application proposes the
membership change "add voter 4" (`propose_conf_change`), persists, hands its queue to the transport,
node 2 receives the leader's first `MsgAppend`, and the leader's application applies the change
(`apply_conf_change`). -/

open RaftProps.C02

/-- `ConfChangeV2 { changes: [AddNode 4] }` and its protobuf encoding -/
def c09x_cc : ConfChangeV2 := { changes := [{ ctype := .addNode, nodeId := 4 }] }
def c09x_data : Bytes := [0x12, 0x02, 0x10, 0x04]

example : decodeConfChangeV2 c09x_data = some c09x_cc := by decide

def c09x_a5 := c02x_st (Node.call c02x_a4 none (.proposeCc 2 [] c09x_data))
def c09x_a6 := c02x_st (Node.call c09x_a5 none .stabilize)
def c09x_a7 := c02x_st (Node.call c09x_a6 none .drain)
def c09x_app := c09x_a6.raft.msgs.head!
def c09x_b4 := c02x_st (Node.call c02x_b3 none (.step c09x_app))
def c09x_a8 := c02x_st (Node.call c09x_a7 none (.applyConfChange c09x_cc))

def c09x_s8 : Sys := c02x_s7.setNode 1 c09x_a5
def c09x_s9 : Sys := c09x_s8.setNode 1 c09x_a6
def c09x_s10 : Sys := { (c09x_s9.setNode 1 c09x_a7) with net := c09x_s9.net ++ c09x_a6.raft.msgs }
def c09x_s11 : Sys := c09x_s10.setNode 2 c09x_b4
def c09x_s12 : Sys := c09x_s11.setNode 1 c09x_a8

/-- the labels of the continuation -/
def c09x_labels : List Label :=
  [.call 1 none (.proposeCc 2 [] c09x_data), .call 1 none .stabilize, .send 1,
   .deliver 2 none c09x_app, .call 1 none (.applyConfChange c09x_cc)]

set_option maxRecDepth 100000 in
theorem c09x_lsteps :
    LStep c02x_s7 (.call 1 none (.proposeCc 2 [] c09x_data)) c09x_s8 ∧
    LStep c09x_s8 (.call 1 none .stabilize) c09x_s9 ∧
    LStep c09x_s9 (.send 1) c09x_s10 ∧
    LStep c09x_s10 (.deliver 2 none c09x_app) c09x_s11 ∧
    LStep c09x_s11 (.call 1 none (.applyConfChange c09x_cc)) c09x_s12 := by
  refine ⟨?_, ?_, ?_, ?_, ?_⟩
  · exact LStep.call _ 1 c02x_a4 c09x_a5 none _ _ rfl rfl (c02x_out _ (by decide))
  · exact LStep.call _ 1 c09x_a5 c09x_a6 none .stabilize _ rfl rfl (c02x_out _ (by decide))
  · exact LStep.send _ 1 c09x_a6 c09x_a7 rfl ⟨by decide, by decide⟩ rfl
  · exact LStep.deliver _ 2 c02x_b3 c09x_b4 none c09x_app _ rfl
      (List.mem_append_right _ (c02x_head_mem _ (by decide))) (by decide) (c02x_out _ (by decide))
  · exact LStep.call _ 1 c09x_a7 c09x_a8 none _ _ rfl rfl (c02x_out _ (by decide))

theorem c09x_trace : Trace c02x_s7 c09x_labels c09x_s12 := by
  obtain ⟨k1, k2, k3, k4, k5⟩ := c09x_lsteps
  exact Trace.tail _ _ _ _ _ (Trace.tail _ _ _ _ _ (Trace.tail _ _ _ _ _ (Trace.tail _ _ _ _ _
    (Trace.tail _ _ _ [] _ (Trace.refl _) k1) k2) k3) k4) k5

/-- the continued history -/
def c09x_hist : List Sys := c02x_hist ++ [c09x_s8, c09x_s9, c09x_s10, c09x_s11, c09x_s12]

theorem c09x_history : History c09x_hist := by
  obtain ⟨k1, k2, k3, k4, k5⟩ := c09x_lsteps
  have s1 := step_iff_lstep.2 ⟨_, k1⟩
  have s2 := step_iff_lstep.2 ⟨_, k2⟩
  have s3 := step_iff_lstep.2 ⟨_, k3⟩
  have s4 := step_iff_lstep.2 ⟨_, k4⟩
  have s5 := step_iff_lstep.2 ⟨_, k5⟩
  have h7 : History ([c02x_s0, c02x_s1, c02x_s2, c02x_s3, c02x_s4, c02x_s5, c02x_s6] ++ [c02x_s7]) :=
    c02x_history
  have h8 := History.step _ _ _ h7 s1
  have h9 := History.step ([c02x_s0, c02x_s1, c02x_s2, c02x_s3, c02x_s4, c02x_s5, c02x_s6, c02x_s7])
    c09x_s8 c09x_s9 (by simpa using h8) s2
  have h10 := History.step ([c02x_s0, c02x_s1, c02x_s2, c02x_s3, c02x_s4, c02x_s5, c02x_s6, c02x_s7,
    c09x_s8]) c09x_s9 c09x_s10 (by simpa using h9) s3
  have h11 := History.step ([c02x_s0, c02x_s1, c02x_s2, c02x_s3, c02x_s4, c02x_s5, c02x_s6, c02x_s7,
    c09x_s8, c09x_s9]) c09x_s10 c09x_s11 (by simpa using h10) s4
  have h12 := History.step ([c02x_s0, c02x_s1, c02x_s2, c02x_s3, c02x_s4, c02x_s5, c02x_s6, c02x_s7,
    c09x_s8, c09x_s9, c09x_s10]) c09x_s11 c09x_s12 (by simpa using h11) s5
  simpa [c09x_hist, c02x_hist] using h12

theorem c09x_free : ReconfFree 1 c09x_labels := by
  intro l hl
  simp only [c09x_labels, List.mem_cons, List.not_mem_nil, or_false] at hl
  rcases hl with rfl | rfl | rfl | rfl | rfl
  · exact ⟨fun _ _ h => (by cases h), fun _ _ h => (by cases h)⟩
  · exact ⟨fun _ _ h => (by cases h), fun _ _ h => (by cases h)⟩
  · exact ⟨fun _ _ h => (by cases h), fun _ _ h => (by cases h)⟩
  · exact ⟨fun _ _ h => (by cases h), fun _ _ h => (by cases h)⟩
  · exact ⟨fun _ _ h => (by cases h), fun _ _ h => (by cases h)⟩

/-- **non-vacuity of `C09_cluster_config_is_function_of_applied_changes`**: on the continuation the
theorem applies to the leader (node 1): its tracker view in the last state is the fold of the changer
over the one change it applied … -/
example : c09x_a8.raft.prs.toCC = configOf c02x_a4.raft.prs.toCC [opOf c09x_cc] :=
  C09_cluster_config_is_function_of_applied_changes c09x_trace 1 c09x_free c02x_a4 c09x_a8 rfl rfl

set_option maxRecDepth 100000 in
/-- … the change was accepted and the configuration really moved: voters `{1, 2, 3}` before,
`{1, 2, 3, 4}` after, on a leader whose log holds the membership entry at index 2, unapplied and
uncommitted; node 2 has received the leader's first `MsgAppend` (the empty entry of term 1; the
leader probes, one message in flight) and, having applied nothing, still has `{1, 2, 3}` -/
example :
    c02x_a4.raft.prs.conf.incoming = [1, 2, 3] ∧ c09x_a8.raft.prs.conf.incoming = [1, 2, 3, 4] ∧
    c09x_a8.raft.state = .leader ∧ c09x_a8.raft.pendingConfIndex = 2 ∧
    (c09x_a8.raft.raftLog.abs.entryAt 2).map (·.etype) = some 2 ∧
    (c09x_b4.raft.raftLog.abs.entryAt 1).map (·.etype) = some 0 ∧
    c09x_b4.raft.prs.conf.incoming = [1, 2, 3] := by decide

set_option maxRecDepth 100000 in
/-- the history is a history, the step `c02x_s0 → c02x_s1` is an election start in the sense of
`Elected` (node 1: follower → candidate by `campaign`), and `C09_cluster_campaign_guard` applies to
it -/
example : History c09x_hist ∧ Elected (c02x_boot 1).raft c02x_a1.raft ∧
    HupGuard (c02x_boot 1).raft := by
  have hel : Elected (c02x_boot 1).raft c02x_a1.raft :=
    C09_elected_of (.inl ⟨.inl (by decide), .inl (by decide)⟩)
  obtain ⟨g1, g2, _⟩ := C09_cluster_campaign_guard c09x_hist c09x_history 0 c02x_s0 c02x_s1 rfl rfl 1
    (c02x_boot 1) c02x_a1 rfl rfl hel
  exact ⟨c09x_history, hel, g1, g2⟩

/-! ### the hypotheses of section 3 are satisfiable, and its theorems say something

On the prefix of the history up to the proposal (`c02x_hist ++ [c09x_s8]`: all states still have the
voter configuration `{1, 2, 3}`) the C05 cluster invariant gives `RaftLogInv` of every node's log;
the apply cursors are within the logs and no step is a `compact` (kernel-evaluated). -/

open RaftProps.C05

def c09x_pre : List Sys := c02x_hist ++ [c09x_s8]

set_option maxRecDepth 100000 in
theorem c09x_pre_csteps : Chained CStep c09x_pre := by
  refine ⟨?_, ?_, ?_, ?_, ?_, ?_, ?_, ?_, trivial⟩
  · exact CStep.call _ 1 (c02x_boot 1) c02x_a1 none .campaign _ rfl rfl
      (fun k hc => by cases hc) (c02x_out _ (by decide))
  · exact CStep.call _ 1 c02x_a1 c02x_a2 none .stabilize _ rfl rfl
      (fun k hc => by cases hc) (c02x_out _ (by decide))
  · exact CStep.send _ 1 c02x_a2 c02x_a3 rfl ⟨by decide, by decide⟩ rfl
  · exact CStep.deliver _ 2 (c02x_boot 2) c02x_b1 none c02x_req _ rfl
      (c02x_head_mem _ (by decide)) (by decide) (c02x_out _ (by decide))
  · exact CStep.call _ 2 c02x_b1 c02x_b2 none .stabilize _ rfl rfl
      (fun k hc => by cases hc) (c02x_out _ (by decide))
  · exact CStep.send _ 2 c02x_b2 c02x_b3 rfl ⟨by decide, by decide⟩ rfl
  · exact CStep.deliver _ 1 c02x_a3 c02x_a4 none c02x_resp _ rfl
      (List.mem_append_right _ (c02x_head_mem _ (by decide))) (by decide) (c02x_out _ (by decide))
  · exact CStep.call _ 1 c02x_a4 c09x_a5 none (.proposeCc 2 [] c09x_data) _ rfl rfl
      (fun k hc => by cases hc) (c02x_out _ (by decide))

theorem c09x_pre_history : History c09x_pre := by
  have := chained_history [] c02x_s0 (History.init _ c02x_init) _
    (Chained.mono (fun _ _ hc => hc.step) _ c09x_pre_csteps)
  simpa [c09x_pre, c02x_hist] using this

def c09x_appOk (s : Sys) : Bool :=
  s.nodes.all (fun p => decide (p.2.raft.raftLog.applied ≤ p.2.raft.raftLog.lastIndex))

theorem c09x_appOk_ok (s : Sys) (h : c09x_appOk s = true) :
    ∀ i st, s.node i = some st → st.raft.raftLog.applied ≤ st.raft.raftLog.lastIndex := by
  intro i st hn
  have hm := c02_lookup_mem s.nodes i st hn
  unfold c09x_appOk at h
  rw [List.all_eq_true] at h
  simpa using h _ hm

set_option maxRecDepth 100000 in
theorem c09x_pre_side : ∀ s ∈ c09x_pre, FixedCfg c02x_cfg s ∧ NoBatch s ∧
    ∀ i st, s.node i = some st → st.raft.raftLog.applied ≤ st.raft.raftLog.lastIndex := by
  intro s hs
  simp only [c09x_pre, c02x_hist, List.cons_append, List.nil_append, List.mem_cons,
    List.not_mem_nil, or_false] at hs
  rcases hs with rfl | rfl | rfl | rfl | rfl | rfl | rfl | rfl | rfl <;>
    exact ⟨c02x_fixed_ok _ (by decide), c05x_nobatch_ok _ (by decide), c09x_appOk_ok _ (by decide)⟩

/-- every state of the prefix satisfies `LogOk` (from the C05 cluster invariant) -/
theorem c09x_pre_logOk : ∀ s ∈ c09x_pre, LogOk s := by
  have hcon := chained_at c09x_pre c09x_pre_csteps
  obtain ⟨s0, _, hall⟩ := cluster_inv c02x_cfg (by decide) (by decide) (by decide) c09x_pre
    c09x_pre_history (fun s hs => (c09x_pre_side s hs).1)
    (fun s hs => by
      have : s = c02x_s0 := by
        simp only [c09x_pre, c02x_hist, List.cons_append, List.getElem?_cons_zero,
          Option.some.injEq] at hs
        exact hs.symm
      rw [this]; exact c05x_initOk)
    hcon (fun s hs => (c09x_pre_side s hs).2.1)
  intro s hs i st hi
  exact ⟨(hall s hs).inv i st hi, (c09x_pre_side s hs).2.2 i st hi⟩

set_option maxRecDepth 100000 in
/-- **non-vacuity of `C09_cluster_conf_proposal_only_when_none_pending_partial`** (and of
`C09_cluster_one_pending_change_partial`): every hypothesis holds on the prefix; the leader's
`propose_conf_change` call `c02x_s7 → c09x_s8` appends the membership-change entry at index 2 (beyond
the old last index 1), and the theorem yields that the leader's log held no unapplied membership-change
entry before; after the call the leader has `ConfBounded` with `pending_conf_index = 2`. -/
example :
    (∀ k e0, c02x_a4.raft.raftLog.abs.entryAt k = some e0 → isConf e0 →
      k ≤ c02x_a4.raft.raftLog.applied) ∧
    ConfBounded c09x_a5.raft ∧ c09x_a5.raft.pendingConfIndex = 2 ∧
    c09x_a5.raft.raftLog.applied = 0 := by
  have hcon := chained_at c09x_pre c09x_pre_csteps
  have hs7 : c02x_s7 ∈ c09x_pre := by simp [c09x_pre, c02x_hist]
  have hs8 : c09x_s8 ∈ c09x_pre := by simp [c09x_pre, c02x_hist]
  refine ⟨?_, ?_, by decide, by decide⟩
  · exact C09_cluster_conf_proposal_only_when_none_pending_partial c09x_pre c09x_pre_history
      c09x_pre_logOk hcon c02x_s7 c09x_s8 hs7 1 none (.proposeCc 2 [] c09x_data)
      (.inr ⟨2, [], c09x_data, rfl⟩) c09x_lsteps.1 c02x_a4 c09x_a5 rfl rfl (by decide) 2
      { etype := 2, data := c09x_data, term := 1, index := 2 } (by decide) (by decide) (.inr rfl)
  · exact C09_cluster_one_pending_change_partial c09x_pre c09x_pre_history c09x_pre_logOk hcon
      c09x_s8 hs8 1 c09x_a5 rfl (by decide)

/-- **a campaign REFUSED because of an unapplied committed change** (node level; the state of
`PD_campaign_example`): a promotable follower whose log holds the membership entry 3, committed but
not applied, is told to campaign — the call succeeds and the node is still a follower of the same
term; so is it after an election timeout.  Once the entry is applied the same call makes it a
candidate (here: the single voter, so leader). -/
def c09x_stuckStore : MemStorage :=
  { hardState := { term := 1, commit := 3 }, confState := { voters := [1] },
    snapshotMetadata := { index := 2, term := 1, confState := { voters := [1] } },
    entries := [{ etype := 2, term := 1, index := 3 }, { term := 1, index := 4 }] }

def c09x_stuckRaft : Raft :=
  { raftLog := { store := c09x_stuckStore, unstable := Unstable.new 5, committed := 3,
                 persisted := 4, applied := 2, maxApplyUnpersistedLogLimit := 0 },
    id := 1, term := 1, promotable := true, maxCommittedSizePerReady := NO_LIMIT,
    electionElapsed := 100, randomizedElectionTimeout := 10,
    prs := { conf := { incoming := [1] }, progress := [(1, Progress.new 5 8)] } }

def c09x_stuck : NState := { raft := c09x_stuckRaft, appCs := { voters := [1] } }

set_option maxRecDepth 100000 in
example :
    (c02x_st (Node.call c09x_stuck none .campaign)).raft.state = .follower ∧
    (c02x_st (Node.call c09x_stuck none .campaign)).raft.term = 1 ∧
    c02x_ok (Node.call c09x_stuck none .campaign) = true ∧
    (c02x_st (Node.call c09x_stuck none .tick)).raft.state = .follower ∧
    c02x_ok (Node.call c09x_stuck none .tick) = true ∧
    (c02x_st (Node.call (c02x_st (Node.call c09x_stuck none (.commitApply 3))) none .campaign)).raft.state
      = .leader := by decide

end RaftProps.C09c
