import RaftProps.C01i
import RaftProofs.ClusterSnap6D

/-!
# C01 / C03 / C04, cluster level, with compaction, snapshots between nodes and `request_snapshot` — `reqok` derived

The statements of `RaftProps/C01i.lean` (= those of `RaftProps/C01h.lean`) **without the `_partial`
suffix**, under the bundle **`Snap5.Hyp3r`** (`RaftProofs/ClusterSnap6D.lean`) = `Snap5.Hyp3r_partial`
of C01i *minus* its invariant-shaped hypothesis

    reqok : ∀ s ∈ h, ∀ i st, s.node i = some st →
      st.raft.pendingRequestSnapshot ≠ 0 → st.raft.raftLog.lastIndex ≤ st.raft.pendingRequestSnapshot

= the bundle of C01h (`Snap2.Hyp3w`) minus the gap `noreq`: **`request_snapshot` may be used freely**
(`C01j_bundle` spells the bundle out; `C01j_subsumes_C01i`, `C01j_subsumes_C01h`).  No field was added:
initial states are freshly booted nodes (`Cluster.Init`, part of `History`), and a booted node has no
pending request (`C01j_boot_no_request`).

**How `reqok` is derived** (`C01j_request_index_bounds_log`, the invariant itself, for every state of
a history).  The inductive form is `RQ.ReqInv`: *a node with a pending snapshot request is not leader,
and its log ends at or before the requested index*.  `RaftProofs/ClusterSnap6A–6C` prove that **every
`NodeOp`, every outcome of `Node.call`, keeps it** (`C01j_call_keeps_request_invariant`):

* `RQ.FrameP` (6A): the sending / replication helpers (`send`, `maybe_send_append`, `bcast_append`,
  `bcast_heartbeat`, `maybe_commit`, the response handlers of the leader, …) touch neither the request,
  nor the role, nor the unstable log / stored entries / snapshot metadata (hence not `last_index`);
* `RQ.Q r r'` (6B): "the request was dropped, or it is unchanged and a node that is not leader is still
  not leader and its log has not grown" — a transitive relation satisfied by all of `Raft::step` and
  `Raft::tick` (`step_q`, `tick_q`): `reset` (`become_candidate`, `become_leader`) clears the request,
  `become_follower` keeps it (role follower, log untouched), `become_pre_candidate` keeps it (role
  pre-candidate), `handle_append_entries` with a pending request only answers, without one it leaves
  no request, `handle_heartbeat` only moves the commit index, `restore` clears the request when it
  replaces the log and otherwise only moves the commit index or steps down, `append_entry` is reached
  only in the leader role (`step_leader`, `become_leader`, the auto-leave entry of `commit_apply`);
* 6C: the other entry points (`ping`, `apply_conf_change`, `on_persist_entries`, `on_persist_snap`,
  `commit_apply`, group commit, `on_entries_fetched`, knobs) satisfy `Q`; `stabilize`, `persist_snap`
  and `compact` keep `last_index` (by the representation invariant `RaftLog.Inv`, which
  `RaftProps.C05.cluster_inv` provides without any hypothesis on requests; `compact` under the storage
  contract `CompactOk` of `KStep`); `request_snapshot` — the only call that sets a request — sets it to
  `last_index` on a node that is not leader (`C01i_request_snapshot_call`); `Node.boot` starts with 0.

The cluster step (6D) is local: `call` / `deliver` / `send` are one `Node.call` of the stepping node,
`restart` is a boot; other nodes are untouched.
-/
namespace RaftProps.C01j
open RaftModel RaftModel.Cluster RaftModel.Node RaftModel.Raft RaftModel.Raft.CC

/-- **the ghost logs**: in every state of a history, the logical log and the stored log of every node
have uncompacted versions `FL` / `FS` (`Snap.Full`), which hold the same entries up to the node's
snapshot point unless a snapshot is pending (restored, not yet installed in the storage); any two
uncompacted versions of one log hold the same entries. -/
theorem C01j_ghost_log (cfg : JointConfig) (c0 : Nat) (h : List Sys) (H : Snap5.Hyp3r cfg c0 h)
    (m : Nat) (s : Sys) (hm : h[m]? = some s) (v : Nat) (st : NState) (hv : s.node v = some st) :
    Snap.Full (Snap.HistChain h) c0 st.raft.raftLog.abs (Snap.FL h c0 st) ∧
    Snap.Full (Snap.HistChain h) c0 (storeLog st.raft.raftLog.store) (Snap.FS h c0 st) ∧
    (st.raft.raftLog.unstable.snapshot = none → ∀ k, k ≤ st.raft.raftLog.abs.snapIdx →
      (Snap.FL h c0 st).entryAt k = (Snap.FS h c0 st).entryAt k) ∧
    (∀ g F F', Snap.Full (Snap.HistChain h) c0 g F → Snap.Full (Snap.HistChain h) c0 g F' →
      ∀ k, F.entryAt k = F'.entryAt k) :=
  RaftProps.C01i.Aux.C01i_ghost_log cfg c0 h H.toHyp3w.toHyp3a m s hm v st hv

/-- **C04 `cluster_leader_commit_rule`** with compaction and snapshots — the commit rule with **durable
acknowledgements**: whenever a step `h[n] → h[n+1]` takes the commit index of a node `l` that is leader
of term `t` after the step from `c` to `c' > c`, the entry at `c'` in its log carries term `t`, and
there is a joint quorum `Q` of `cfg` such that every `j ∈ Q` is

* `l` itself, with `persisted ≥ c'` — and its storage holds its log up to `c'`; or
* the sender of an accepting `MsgAppendResponse` `x` for term `t` with `index ≥ c'` that is in the
  transport before the step, **and in every state of the history whose transport holds `x` the
  storage of `j` reaches `c'` and holds `l`'s log up to `c'`** — the uncompacted versions are equal up
  to `c'`, hence so are the logs at every index both still retain. -/
theorem C04_cluster_leader_commit_rule (cfg : JointConfig) (c0 : Nat) (h : List Sys)
    (H : Snap5.Hyp3r cfg c0 h)
    (n : Nat) (a b : Sys) (ha : h[n]? = some a) (hb : h[n + 1]? = some b)
    (l : Nat) (sta stb : NState) (hla : a.node l = some sta) (hlb : b.node l = some stb)
    (t : Nat) (hs : stb.raft.state = .leader) (ht : stb.raft.term = t)
    (hc : sta.raft.raftLog.committed < stb.raft.raftLog.committed) :
    stb.raft.raftLog.term stb.raft.raftLog.committed = .ok t ∧
    ∃ Q, IsJointQuorum cfg Q ∧ ∀ j ∈ Q,
      (j = l ∧ stb.raft.raftLog.committed ≤ stb.raft.raftLog.persisted ∧
        ∀ k, k ≤ stb.raft.raftLog.committed →
          (storeLog stb.raft.raftLog.store).entryAt k = stb.raft.raftLog.abs.entryAt k) ∨
      ∃ x ∈ a.net, x.msgType = .msgAppendResponse ∧ x.reject = false ∧ x.frm = j ∧ x.term = t ∧
        stb.raft.raftLog.committed ≤ x.index ∧
        ∀ (m : Nat) (s : Sys) (stj : NState), h[m]? = some s → x ∈ s.net → s.node j = some stj →
          stb.raft.raftLog.committed ≤ (storeLog stj.raft.raftLog.store).lastIndex ∧
          (∀ k, k ≤ stb.raft.raftLog.committed →
            (Snap.FS h c0 stj).entryAt k = (Snap.FL h c0 stb).entryAt k) ∧
          ∀ k, k ≤ stb.raft.raftLog.committed →
            (storeLog stj.raft.raftLog.store).snapIdx < k → stb.raft.raftLog.abs.snapIdx < k →
            (storeLog stj.raft.raftLog.store).entryAt k = stb.raft.raftLog.abs.entryAt k :=
  RaftProps.C01i.Aux.C04_cluster_leader_commit_rule cfg c0 h H.toHyp3w.toHyp3a n a b ha hb l sta stb hla hlb t hs ht hc

/-- **C03 `cluster_leader_completeness`** with compaction and snapshots — every entry a leader has committed is in
the log of every leader of a later term: if a step `h[n] → h[n+1]` takes the commit index of `l`, leader
of term `t` after the step, to `c'`, then the log of any node that leads a term `t' > t` in any state
`h[m]` of the history reaches `c'` and holds, at every index up to `c'`, the entry `l` held there — in
the uncompacted versions, hence wherever both logs retain the index. -/
theorem C03_cluster_leader_completeness (cfg : JointConfig) (c0 : Nat) (h : List Sys)
    (H : Snap5.Hyp3r cfg c0 h)
    (n : Nat) (a b : Sys) (ha : h[n]? = some a) (hb : h[n + 1]? = some b)
    (l : Nat) (sta stb : NState) (hla : a.node l = some sta) (hlb : b.node l = some stb)
    (hs : stb.raft.state = .leader)
    (hc : sta.raft.raftLog.committed < stb.raft.raftLog.committed)
    (m : Nat) (s : Sys) (hm : h[m]? = some s) (l' : Nat) (st' : NState)
    (hl' : s.node l' = some st') (hs' : st'.raft.state = .leader)
    (ht : stb.raft.term < st'.raft.term) :
    stb.raft.raftLog.committed ≤ st'.raft.raftLog.abs.lastIndex ∧
    (∀ k, k ≤ stb.raft.raftLog.committed →
      (Snap.FL h c0 st').entryAt k = (Snap.FL h c0 stb).entryAt k) ∧
    ∀ k, k ≤ stb.raft.raftLog.committed →
      st'.raft.raftLog.abs.snapIdx < k → stb.raft.raftLog.abs.snapIdx < k →
      st'.raft.raftLog.abs.entryAt k = stb.raft.raftLog.abs.entryAt k :=
  RaftProps.C01i.Aux.C03_cluster_leader_completeness cfg c0 h H.toHyp3w.toHyp3a n a b ha hb l sta stb hla hlb hs hc m s hm l' st' hl' hs' ht

/-- **C04 `cluster_follower_commit_sound`** with compaction and snapshots — *every* commit index is sound: in every
state `h[m]`, what a node `v` has marked committed is at most the common initial snapshot point `c0`,
or it was committed by a leader: there is an earlier step `h[n] → h[n+1]` (`n < m`) that took the commit
index of a node `l`, leader of a term `t ≤ term(v)` after the step, to some `c' ≥ committed(v)`, and the
log of `v` equals the log `l` had then up to `committed(v)` — in the uncompacted versions, hence
wherever both retain the index. -/
theorem C04_cluster_follower_commit_sound (cfg : JointConfig) (c0 : Nat) (h : List Sys)
    (H : Snap5.Hyp3r cfg c0 h) (m : Nat) (s : Sys) (hm : h[m]? = some s) (v : Nat) (st : NState)
    (hv : s.node v = some st) :
    st.raft.raftLog.committed ≤ c0 ∨
    ∃ (n : Nat) (a b : Sys) (l : Nat) (sta stb : NState), n < m ∧ h[n]? = some a ∧
      h[n + 1]? = some b ∧ a.node l = some sta ∧ b.node l = some stb ∧
      stb.raft.state = .leader ∧ sta.raft.raftLog.committed < stb.raft.raftLog.committed ∧
      st.raft.raftLog.committed ≤ stb.raft.raftLog.committed ∧ stb.raft.term ≤ st.raft.term ∧
      (∀ k, k ≤ st.raft.raftLog.committed →
        (Snap.FL h c0 st).entryAt k = (Snap.FL h c0 stb).entryAt k) ∧
      ∀ k, k ≤ st.raft.raftLog.committed →
        st.raft.raftLog.abs.snapIdx < k → stb.raft.raftLog.abs.snapIdx < k →
        st.raft.raftLog.abs.entryAt k = stb.raft.raftLog.abs.entryAt k :=
  RaftProps.C01i.Aux.C04_cluster_follower_commit_sound cfg c0 h H.toHyp3w.toHyp3a m s hm v st hv

/-- … and so is every **stored** commit index (what a restarted node starts from): it is not ahead of
the commit index, and it is covered by a leader's commit of a term not above the stored term, with the
stored entries. -/
theorem C04_cluster_stored_commit_sound (cfg : JointConfig) (c0 : Nat) (h : List Sys)
    (H : Snap5.Hyp3r cfg c0 h) (m : Nat) (s : Sys) (hm : h[m]? = some s) (v : Nat) (st : NState)
    (hv : s.node v = some st) :
    st.raft.raftLog.store.hardState.commit ≤ st.raft.raftLog.committed ∧
    (st.raft.raftLog.store.hardState.commit ≤ c0 ∨
     ∃ (n : Nat) (a b : Sys) (l : Nat) (sta stb : NState), n < m ∧ h[n]? = some a ∧
      h[n + 1]? = some b ∧ a.node l = some sta ∧ b.node l = some stb ∧
      stb.raft.state = .leader ∧ sta.raft.raftLog.committed < stb.raft.raftLog.committed ∧
      st.raft.raftLog.store.hardState.commit ≤ stb.raft.raftLog.committed ∧
      stb.raft.term ≤ st.raft.raftLog.store.hardState.term ∧
      (∀ k, k ≤ st.raft.raftLog.store.hardState.commit →
        (Snap.FS h c0 st).entryAt k = (Snap.FL h c0 stb).entryAt k) ∧
      ∀ k, k ≤ st.raft.raftLog.store.hardState.commit →
        (storeLog st.raft.raftLog.store).snapIdx < k → stb.raft.raftLog.abs.snapIdx < k →
        (storeLog st.raft.raftLog.store).entryAt k = stb.raft.raftLog.abs.entryAt k) :=
  RaftProps.C01i.Aux.C04_cluster_stored_commit_sound cfg c0 h H.toHyp3w.toHyp3a m s hm v st hv

/-- **C01 `cluster_state_machine_safety`, ghost form** — the uncompacted logs of any two nodes, in any
two states of the history (the same node before and after a restart or a compaction included), hold the
same entry at every index both have marked committed. -/
theorem C01_cluster_state_machine_safety_ghost (cfg : JointConfig) (c0 : Nat) (h : List Sys)
    (H : Snap5.Hyp3r cfg c0 h)
    (m1 : Nat) (s1 : Sys) (hm1 : h[m1]? = some s1) (v1 : Nat) (st1 : NState)
    (hv1 : s1.node v1 = some st1)
    (m2 : Nat) (s2 : Sys) (hm2 : h[m2]? = some s2) (v2 : Nat) (st2 : NState)
    (hv2 : s2.node v2 = some st2)
    (k : Nat) (hk1 : k ≤ st1.raft.raftLog.committed) (hk2 : k ≤ st2.raft.raftLog.committed) :
    (Snap.FL h c0 st1).entryAt k = (Snap.FL h c0 st2).entryAt k :=
  RaftProps.C01i.Aux.C01_cluster_state_machine_safety_ghost cfg c0 h H.toHyp3w.toHyp3a m1 s1 hm1 v1 st1 hv1 m2 s2 hm2 v2 st2 hv2 k hk1 hk2

/-- **C01 `cluster_state_machine_safety`** with compaction and snapshots — any two nodes, in any two
states of the history (the same node before and after a restart or a compaction included), hold the same entry at
every index both have marked committed **and both still retain** (`snapIdx < k`; a compacted log
answers `none` below its snapshot point). -/
theorem C01_cluster_state_machine_safety (cfg : JointConfig) (c0 : Nat) (h : List Sys)
    (H : Snap5.Hyp3r cfg c0 h)
    (m1 : Nat) (s1 : Sys) (hm1 : h[m1]? = some s1) (v1 : Nat) (st1 : NState)
    (hv1 : s1.node v1 = some st1)
    (m2 : Nat) (s2 : Sys) (hm2 : h[m2]? = some s2) (v2 : Nat) (st2 : NState)
    (hv2 : s2.node v2 = some st2)
    (k : Nat) (hk1 : k ≤ st1.raft.raftLog.committed) (hk2 : k ≤ st2.raft.raftLog.committed)
    (hr1 : st1.raft.raftLog.abs.snapIdx < k) (hr2 : st2.raft.raftLog.abs.snapIdx < k) :
    st1.raft.raftLog.abs.entryAt k = st2.raft.raftLog.abs.entryAt k :=
  RaftProps.C01i.Aux.C01_cluster_state_machine_safety cfg c0 h H.toHyp3w.toHyp3a m1 s1 hm1 v1 st1 hv1 m2 s2 hm2 v2 st2 hv2 k hk1 hk2 hr1 hr2

/-- … in particular for the **applied** entries of two nodes whose applied index is within their
commit index (`AppliedOk`, which holds outside the restart window — `raft_log.rs:44-46`). -/
theorem C01_cluster_state_machine_safety_applied (cfg : JointConfig) (c0 : Nat) (h : List Sys)
    (H : Snap5.Hyp3r cfg c0 h)
    (m1 : Nat) (s1 : Sys) (hm1 : h[m1]? = some s1) (v1 : Nat) (st1 : NState)
    (hv1 : s1.node v1 = some st1) (ha1 : st1.raft.raftLog.AppliedOk)
    (m2 : Nat) (s2 : Sys) (hm2 : h[m2]? = some s2) (v2 : Nat) (st2 : NState)
    (hv2 : s2.node v2 = some st2) (ha2 : st2.raft.raftLog.AppliedOk)
    (k : Nat) (hk1 : k ≤ st1.raft.raftLog.applied) (hk2 : k ≤ st2.raft.raftLog.applied)
    (hr1 : st1.raft.raftLog.abs.snapIdx < k) (hr2 : st2.raft.raftLog.abs.snapIdx < k) :
    st1.raft.raftLog.abs.entryAt k = st2.raft.raftLog.abs.entryAt k :=
  RaftProps.C01i.Aux.C01_cluster_state_machine_safety_applied cfg c0 h H.toHyp3w.toHyp3a m1 s1 hm1 v1 st1 hv1 ha1 m2 s2 hm2 v2 st2 hv2 ha2 k hk1 hk2 hr1 hr2

/-- **a compacted prefix is a committed prefix** (`C15`-style, for compaction points): in every state,
the snapshot point of every node — of its logical log and of its storage, which coincide unless a
snapshot is pending — is not below the common initial snapshot point `c0` and not above the node's
commit index; and every other
node, in any state, whose commit index reaches an index `k` up to that snapshot point holds, in its
uncompacted log, exactly the entry the compacting node's uncompacted log holds at `k`. -/
theorem C01_cluster_compacted_prefix_committed (cfg : JointConfig) (c0 : Nat) (h : List Sys)
    (H : Snap5.Hyp3r cfg c0 h)
    (m1 : Nat) (s1 : Sys) (hm1 : h[m1]? = some s1) (v1 : Nat) (st1 : NState)
    (hv1 : s1.node v1 = some st1) :
    c0 ≤ st1.raft.raftLog.abs.snapIdx ∧
    (st1.raft.raftLog.unstable.snapshot = none →
      (storeLog st1.raft.raftLog.store).snapIdx = st1.raft.raftLog.abs.snapIdx) ∧
    st1.raft.raftLog.abs.snapIdx ≤ st1.raft.raftLog.committed ∧
    ∀ (m2 : Nat) (s2 : Sys) (v2 : Nat) (st2 : NState), h[m2]? = some s2 → s2.node v2 = some st2 →
      ∀ k, k ≤ st1.raft.raftLog.abs.snapIdx → k ≤ st2.raft.raftLog.committed →
        (Snap.FL h c0 st1).entryAt k = (Snap.FL h c0 st2).entryAt k :=
  RaftProps.C01i.Aux.C01_cluster_compacted_prefix_committed cfg c0 h H.toHyp3w.toHyp3a m1 s1 hm1 v1 st1 hv1

/-- **a released snapshot is a committed prefix**: every `MsgSnapshot` `x` in the transport of a state
`h[m]` names an index `i > c0` and a term `t` such that there is an earlier step `h[n] → h[n+1]`
(`n < m`) that took the commit index of a node `l`, leader of a term `≤ x.term` after the step, to some
`c' ≥ i`, and the uncompacted log of `l` after that step holds an entry of term `t` at `i` — in its real
log, if that still retains `i`. -/
theorem C01_cluster_snapshot_committed_prefix (cfg : JointConfig) (c0 : Nat) (h : List Sys)
    (H : Snap5.Hyp3r cfg c0 h) (m : Nat) (s : Sys) (hm : h[m]? = some s) (x : Message)
    (hx : x ∈ s.net) (hty : x.msgType = .msgSnapshot) :
    c0 < x.snapshot.metadata.index ∧
    ∃ (n : Nat) (a b : Sys) (l : Nat) (sta stb : NState), n < m ∧ h[n]? = some a ∧
      h[n + 1]? = some b ∧ a.node l = some sta ∧ b.node l = some stb ∧
      stb.raft.state = .leader ∧ sta.raft.raftLog.committed < stb.raft.raftLog.committed ∧
      x.snapshot.metadata.index ≤ stb.raft.raftLog.committed ∧ stb.raft.term ≤ x.term ∧
      Has (Snap.FL h c0 stb) x.snapshot.metadata.index x.snapshot.metadata.term ∧
      (stb.raft.raftLog.abs.snapIdx < x.snapshot.metadata.index →
        Has stb.raft.raftLog.abs x.snapshot.metadata.index x.snapshot.metadata.term) :=
  RaftProps.C01i.Aux.C01_cluster_snapshot_committed_prefix cfg c0 h H.toHyp3w.toHyp3a m s hm x hx hty

/-- **snapshot-point term agreement**: if the log of a node `v1` (in any state) starts at a snapshot
point `i > c0` whose term `t` it knows — after it restored a snapshot (pending or installed), or after
a restart —, then `i` is within `v1`'s commit index, and every node `v2`, in any state, whose commit
index reaches `i` holds an entry of term `t` at `i` in its uncompacted log: in its real log if that
retains `i`, and as the term of its own snapshot point if that is `i` and it knows the term.  (With
`C01_cluster_state_machine_safety_ghost`: the prefix a snapshot stands for is the committed prefix of
every node.) -/
theorem C01_cluster_snapshot_point_agreement (cfg : JointConfig) (c0 : Nat) (h : List Sys)
    (H : Snap5.Hyp3r cfg c0 h)
    (m1 : Nat) (s1 : Sys) (hm1 : h[m1]? = some s1) (v1 : Nat) (st1 : NState)
    (hv1 : s1.node v1 = some st1) (t : Nat) (ht : st1.raft.raftLog.abs.snapTerm = some t)
    (hi : c0 < st1.raft.raftLog.abs.snapIdx) :
    st1.raft.raftLog.abs.snapIdx ≤ st1.raft.raftLog.committed ∧
    ∀ (m2 : Nat) (s2 : Sys) (v2 : Nat) (st2 : NState), h[m2]? = some s2 → s2.node v2 = some st2 →
      st1.raft.raftLog.abs.snapIdx ≤ st2.raft.raftLog.committed →
      Has (Snap.FL h c0 st2) st1.raft.raftLog.abs.snapIdx t ∧
      (st2.raft.raftLog.abs.snapIdx < st1.raft.raftLog.abs.snapIdx →
        Has st2.raft.raftLog.abs st1.raft.raftLog.abs.snapIdx t) ∧
      (st2.raft.raftLog.abs.snapIdx = st1.raft.raftLog.abs.snapIdx →
        ∀ t', st2.raft.raftLog.abs.snapTerm = some t' → t' = t) :=
  RaftProps.C01i.Aux.C01_cluster_snapshot_point_agreement cfg c0 h H.toHyp3w.toHyp3a m1 s1 hm1 v1 st1 hv1 t ht hi

/-- **a restored snapshot never drops a committed entry, and installs a committed prefix**: in every
state, a node with a pending snapshot `sn` (restored from a `MsgSnapshot`, not yet installed in its
storage) has commit index `sn.index > c0`, an empty unstable log, and nothing persisted beyond
`sn.index`; and its stored commit index never exceeds its commit index. -/
theorem C01_cluster_pending_snapshot (cfg : JointConfig) (c0 : Nat) (h : List Sys)
    (H : Snap5.Hyp3r cfg c0 h) (m : Nat) (s : Sys) (hm : h[m]? = some s) (v : Nat) (st : NState)
    (hv : s.node v = some st) (sn : Snapshot) (hp : st.raft.raftLog.unstable.snapshot = some sn) :
    st.raft.raftLog.unstable.entries = [] ∧ st.raft.raftLog.committed = sn.metadata.index ∧
    c0 < sn.metadata.index ∧ st.raft.raftLog.persisted ≤ sn.metadata.index ∧
    st.raft.raftLog.store.hardState.commit ≤ st.raft.raftLog.committed :=
  RaftProps.C01i.Aux.C01_cluster_pending_snapshot cfg c0 h H.toHyp3w.toHyp3a m s hm v st hv sn hp

/-- **every `MsgAppend` is anchored inside its sender's log** (the former gap `anch`): in every state
of a history, every `MsgAppend` in the transport, and every one queued at a node, has `log_term ≠ 0` or
`index ≤ c0` -/
theorem C01j_appends_anchored (cfg : JointConfig) (c0 : Nat) (h : List Sys)
    (H : Snap5.Hyp3r cfg c0 h) (n : Nat) (s : Sys) (hn : h[n]? = some s) :
    (∀ x ∈ s.net, x.msgType = .msgAppend → x.logTerm ≠ 0 ∨ x.index ≤ c0) ∧
    (∀ i st, s.node i = some st → ∀ x ∈ st.raft.msgs, x.msgType = .msgAppend →
      x.logTerm ≠ 0 ∨ x.index ≤ c0) :=
  ⟨(Snap5.ci_all H.toHyp3w n s hn).na, (Snap5.ci_all H.toHyp3w n s hn).qa⟩

/-- **a leader's progress lies within its log, the `Snapshot` state included**: in every state of a
history, every progress of a leader has `matched ≤ last_index`, `next_idx ≤ last_index + 1`, and — in
the `Snapshot` state — `pending_snapshot ≤ last_index`; and every `MsgSnapshot` a node has queued names
an index within that node's commit index -/
theorem C01j_progress_within_log (cfg : JointConfig) (c0 : Nat) (h : List Sys)
    (H : Snap5.Hyp3r cfg c0 h) (n : Nat) (s : Sys) (hn : h[n]? = some s) (i : Nat) (st : NState)
    (hi : s.node i = some st) :
    (st.raft.state = .leader → ∀ p ∈ st.raft.prs.progress,
      p.2.matched ≤ st.raft.raftLog.lastIndex ∧ p.2.nextIdx ≤ st.raft.raftLog.lastIndex + 1 ∧
      (p.2.state = .snapshot → p.2.pendingSnapshot ≤ st.raft.raftLog.lastIndex)) ∧
    (∀ x ∈ st.raft.msgs, x.msgType = .msgSnapshot →
      x.snapshot.metadata.index ≤ st.raft.raftLog.committed) :=
  ⟨((Snap5.ci_all H.toHyp3w n s hn).node i st hi).po, ((Snap5.ci_all H.toHyp3w n s hn).node i st hi).qs⟩

/-- **where a `MsgReadIndexResp` comes from** (the former gap `norir` / `rirs`): in every state `h[n]`,
every `MsgReadIndexResp` in the transport or queued at a node carries the term of a node that led that
term in some state `h[n0]`, `n0 ≤ n`, with `committed ≥ index`; and every pending read index of a
leader is at most its commit index -/
theorem C01j_read_index_resp_source (cfg : JointConfig) (c0 : Nat) (h : List Sys)
    (H : Snap5.Hyp3r cfg c0 h) (n : Nat) (s : Sys) (hn : h[n]? = some s) :
    (∀ x, (x ∈ s.net ∨ ∃ i st, s.node i = some st ∧ x ∈ st.raft.msgs) →
      x.msgType = .msgReadIndexResp →
      ∃ n0 s0 w stw, n0 ≤ n ∧ h[n0]? = some s0 ∧ s0.node w = some stw ∧
        stw.raft.state = .leader ∧ stw.raft.term = x.term ∧ x.index ≤ stw.raft.raftLog.committed) ∧
    (∀ i st, s.node i = some st → st.raft.state = .leader →
      ∀ p ∈ st.raft.readOnly.pendingReadIndex, p.2.index ≤ st.raft.raftLog.committed) := by
  have c := Snap5.ci_all H.toHyp3w n s hn
  refine ⟨fun x hx hty => ?_, fun i st hi => (c.node i st hi).rd⟩
  rcases hx with d | ⟨i, st, hi, d⟩
  · exact c.nr x d hty
  · exact c.qr i st hi x d hty


/-- the hypotheses of this file imply those of `RaftProps/C01g2.lean` for the development `Snap5`:
`anch` and `rirs` are theorems -/
theorem C01j_derives_anch_rirs (cfg : JointConfig) (c0 : Nat) (h : List Sys)
    (H : Snap5.Hyp3r cfg c0 h) : Snap5.Hyp3a cfg c0 h := Snap5.Hyp3w.toHyp3a H.toHyp3w

/-- **the derived invariant** (the former hypothesis `reqok`, strengthened): in every state of a
history, a node with a pending snapshot request (`pending_request_snapshot ≠ 0`) is not leader and its
log ends at or before the requested index -/
theorem C01j_request_index_bounds_log (cfg : JointConfig) (c0 : Nat) (h : List Sys)
    (H : Snap5.Hyp3r cfg c0 h) (n : Nat) (s : Sys) (hn : h[n]? = some s) (i : Nat) (st : NState)
    (hi : s.node i = some st) (hp : st.raft.pendingRequestSnapshot ≠ 0) :
    st.raft.raftLog.lastIndex ≤ st.raft.pendingRequestSnapshot ∧ st.raft.state ≠ .leader :=
  ⟨(H.reqInv n s hn i st hi hp).2, (H.reqInv n s hn i st hi hp).1⟩

/-- … in the form of the field `reqok` of `Snap5.Hyp3r_partial` -/
theorem C01j_reqok (cfg : JointConfig) (c0 : Nat) (h : List Sys) (H : Snap5.Hyp3r cfg c0 h) :
    ∀ s ∈ h, ∀ i st, s.node i = some st →
      st.raft.pendingRequestSnapshot ≠ 0 → st.raft.raftLog.lastIndex ≤ st.raft.pendingRequestSnapshot :=
  H.reqok

/-- **one call of a node — every `NodeOp`, every outcome — keeps the invariant** "a node with a
pending snapshot request is not leader and its log ends at or before the requested index", for a node
whose log satisfies the representation invariant; `compact` obeys the storage contract and is not
called while a snapshot is pending -/
theorem C01j_call_keeps_request_invariant (st st' : NState) (rnd : Option Nat) (op : NodeOp)
    (res : OpRes) (hinv : st.raft.raftLog.Inv)
    (hco : ∀ k, op = .compact k →
      CompactOk st.raft.raftLog k ∧ st.raft.raftLog.unstable.snapshot = none)
    (hi : st.raft.pendingRequestSnapshot ≠ 0 →
      st.raft.state ≠ .leader ∧ st.raft.raftLog.lastIndex ≤ st.raft.pendingRequestSnapshot)
    (h : Node.call st rnd op = .ok (res, st')) :
    st'.raft.pendingRequestSnapshot ≠ 0 →
      st'.raft.state ≠ .leader ∧ st'.raft.raftLog.lastIndex ≤ st'.raft.pendingRequestSnapshot :=
  RQ.call_reqI st st' rnd op res hinv hco hi h

/-- **`Raft::step`, any state, any message**: the pending request is dropped, or it is unchanged and a
node that is not leader is still not leader and its log has not grown -/
theorem C01j_step_request (r r' : Raft) (m : Message) (e : Option RaftError)
    (h : r.step m = .ok (r', e)) :
    r'.pendingRequestSnapshot = 0 ∨
    (r'.pendingRequestSnapshot = r.pendingRequestSnapshot ∧
      (r.state ≠ .leader → r'.state ≠ .leader ∧ r'.raftLog.lastIndex ≤ r.raftLog.lastIndex)) :=
  RQ.post_fst_rq (P := fun x => RQ.Q r x) (RQ.step_q r m) h

/-- a freshly booted node (`RawNode::new`: initial states and restarts) has no pending request -/
theorem C01j_boot_no_request (c : Config) (store : MemStorage) (rnd : Option Nat) (st : NState)
    (h : Node.boot c store rnd = .ok (.ok st)) : st.raft.pendingRequestSnapshot = 0 :=
  RQ.boot_pend c store rnd st h

/-- **the bundle of `RaftProps/C01i.lean` implies the bundle of this file** (forget `reqok`) … -/
theorem C01j_subsumes_C01i (cfg : JointConfig) (c0 : Nat) (h : List Sys)
    (H : Snap5.Hyp3r_partial cfg c0 h) : Snap5.Hyp3r cfg c0 h := Snap5.Hyp3w.toHyp3r H

/-- … **and conversely: `reqok` is a theorem** -/
theorem C01j_implies_C01i (cfg : JointConfig) (c0 : Nat) (h : List Sys)
    (H : Snap5.Hyp3r cfg c0 h) : Snap5.Hyp3r_partial cfg c0 h := H.toHyp3w

/-- the hypotheses of `RaftProps/C01h.lean` (with the gap `noreq`) imply those of this file -/
theorem C01j_subsumes_C01h (cfg : JointConfig) (c0 : Nat) (h : List Sys)
    (H : Snap2.Hyp3w cfg c0 h) : Snap5.Hyp3r cfg c0 h := (Snap5.Hyp3w.of_snap2 H).toHyp3r

/-- the bundle, field by field: the hypotheses of C01h **without `noreq`** (and nothing in its place) -/
theorem C01j_bundle (cfg : JointConfig) (c0 : Nat) (h : List Sys) :
    Snap5.Hyp3r cfg c0 h ↔
    (History h ∧ (∀ s ∈ h, FixedCfg cfg s) ∧ cfg.incoming ≠ [] ∧ cfg.incoming.Nodup ∧
      cfg.outgoing.Nodup ∧ (∀ s : Sys, h[0]? = some s → InitOk s) ∧
      (∀ (n : Nat) (a b : Sys), h[n]? = some a → h[n + 1]? = some b → Snap2.KStep a b) ∧
      (∀ s ∈ h, NoBatch s)) ∧
    (∀ i Q, IsJointQuorum cfg Q → ∃ k ∈ Q, k ≠ i) ∧
    (∀ s : Sys, h[0]? = some s → ∀ i st, s.node i = some st →
      st.raft.raftLog.store.firstIndex = c0 + 1) ∧
    (∀ s : Sys, h[0]? = some s → ∀ i st, s.node i = some st → st.raft.raftLog.committed = c0) ∧
    (∀ s : Sys, h[0]? = some s → ∀ i st, s.node i = some st →
      st.raft.raftLog.unstable.snapshot = none) ∧
    (∀ s0, h[0]? = some s0 → ∀ i sti, s0.node i = some sti → ∀ t0,
      sti.raft.raftLog.abs.snapTerm = some t0 → ∀ j stj, s0.node j = some stj → t0 ≤ stj.raft.term) ∧
    (∀ s ∈ h, ∀ x ∈ s.net, x.msgType = .msgSnapshot → c0 < x.snapshot.metadata.index) := by
  constructor
  · intro H
    exact ⟨⟨H.hist, H.fix, H.ne, H.nd1, H.nd2, H.init,
      fun n a b ha hb => (H.steps n a b ha hb).to_snap2, H.nb⟩,
      H.nolone, H.first0, H.initc, H.pend0, H.snapt0, H.snapidx⟩
  · rintro ⟨⟨h1, h2, h3, h4, h5, h6, h7, h8⟩, g1, g2, g3, g4, g5, g6⟩
    exact { hist := h1, fix := h2, ne := h3, nd1 := h4, nd2 := h5, init := h6,
            steps := fun n a b ha hb => Snap5.KStep.of_snap2 (h7 n a b ha hb), nb := h8,
            nolone := g1, first0 := g2, initc := g3, pend0 := g4, snapt0 := g5, snapidx := g6 }

/-- non-vacuity: the 42-state history `Snap5.rx_hist` of `RaftProps/C01i.lean` — follower 2 **calls
`request_snapshot`**, the leader serves the request with a `MsgSnapshot`, follower 2 restores it although
its log holds the snapshot's last entry — satisfies the bundle (`C01i_request_snapshot_exercised` shows
what it exercises) -/
theorem C01j_request_snapshot_nonvacuous :
    Snap5.Hyp3r RaftProps.C02.c02x_cfg 0 Snap5.rx_hist := Snap5.rx_hyp3r

/-- … and in that history a node does have a pending request (so the derived invariant is not
vacuous): in the state `rx_t2` node 2 has `pending_request_snapshot = 2 = last_index` and is a
follower -/
theorem C01j_request_pending_in_example :
    Snap5.rx_t2 ∈ Snap5.rx_hist ∧ Snap5.rx_t2.node 2 = some Snap5.rx_b11 ∧
    Snap5.rx_b11.raft.pendingRequestSnapshot = 2 ∧ Snap5.rx_b11.raft.raftLog.lastIndex = 2 ∧
    Snap5.rx_b11.raft.state = .follower := by
  refine ⟨?_, node_setNode_self Snap5.rx_t1 2 Snap5.rx_b11, ?_, ?_, ?_⟩
  · unfold Snap5.rx_hist Snap5.rx_tail
    exact List.mem_append_right _ (List.mem_cons_of_mem _ List.mem_cons_self)
  · decide
  · decide
  · decide

end RaftProps.C01j
