import RaftProofs.ProtoCfg
import RaftProps.C01
import RaftProps.C02
import RaftProps.C03
import RaftProps.C04
import RaftProps.C08
import RaftProps.C15

/-!
# The configuration-aware layer PC: the headline theorems without any assumption on configurations

P (`RaftModel/Proto.lean`) takes the voter configuration of every election and of every leader commit
as a parameter of the event and *demands* that configurations which have to agree are adjacent
(`adjOk`) or that the agreement is exhibited.  PC (`RaftModel/ProtoCfg.lean`) checks instead what
raft-rs enforces locally: the configuration is the one of the membership-change entries the node has
*applied*, and at most one further membership-change entry sits in the winner's log / in the prefix
a leader commits.  `RaftProofs/ProtoCfg.lean` proves that on every reachable state of PC the
cross-history demands of P are implied (`win_adj_redundant`, `commit_adj_redundant`), so PC's
`win` / `commitLeader` are refused only for local reasons (`winC_accepts_iff`,
`commitC_accepts_iff`); every PC history is a P history (`reach_base`).

The same for the read-index events: PC's `resp` / leader-local `rstate` check locally that the
configuration is the one of the applied membership changes and that the leader's version did not go
backwards (`verMono`); P's cross-history demand `rdCfgOk` is implied (`read_adj_redundant`,
`respC_accepts_iff`, `rstateC_accepts_iff`).

Here: the headline theorems (C01 state-machine safety, C02 election safety, C03 leader completeness,
C04 durability of commits, C08 read index, C15 snapshots) restated over PC — one-line corollaries —
and concrete PC histories (a membership change carried through, reads answered under the new
version, and the local guards refusing).
-/
namespace RaftProps.CfgLayer
open RaftModel.P RaftProps.C01

/-! ### PC histories are P histories -/

/-- continuations of a PC history -/
inductive StepsC : CSys → CSys → Prop where
  | refl (S : CSys) : StepsC S S
  | tail {S S' S'' : CSys} (e : CEvent) : StepsC S S' → applyEventC S' e = .ok S'' → StepsC S S''

theorem reachPC_of_stepsC {S S' : CSys} (hr : ReachPC S) (h : StepsC S S') : ReachPC S' := by
  induction h with
  | refl => exact hr
  | tail e _ hs ih => exact .step e ih hs

theorem steps_base {S S' : CSys} (h : StepsC S S') : Steps S.base S'.base := by
  induction h with
  | refl => exact .refl _
  | tail e _ hs ih =>
    rcases stepC_base hs with h1 | ⟨e', h1⟩
    · rw [h1]; exact ih
    · exact .tail e' ih h1

/-- a run of PC projects to a run of P -/
theorem runC_base : ∀ (es : List CEvent) (S S' : CSys), runC S es = .ok S' →
    ∃ es', run S.base es' = .ok S'.base := by
  intro es
  induction es with
  | nil => intro S S' h; simp only [runC] at h; cases h; exact ⟨[], rfl⟩
  | cons e es ih =>
    intro S S' h
    simp only [runC] at h
    split at h
    · rename_i S1 h1
      obtain ⟨es1, hes1⟩ := ih S1 S' h
      rcases stepC_base h1 with hb | ⟨e', hb⟩
      · rw [hb] at hes1; exact ⟨es1, hes1⟩
      · refine ⟨e' :: es1, ?_⟩
        simp only [run, hb]; exact hes1
    · cases h

theorem reachPC_runC : ∀ (es : List CEvent) (S S' : CSys), ReachPC S → runC S es = .ok S' → ReachPC S' := by
  intro es
  induction es with
  | nil => intro S S' hr h; simp only [runC] at h; cases h; exact hr
  | cons e es ih =>
    intro S S' hr h
    simp only [runC] at h
    split at h
    · rename_i S1 h1; exact ih S1 S' (.step e hr h1) h
    · cases h

/-! ### C01 — state-machine safety -/

/-- **State Machine Safety** in every reachable state of PC -/
theorem C01_state_machine_safety (S : CSys) (hr : ReachPC S) (i j k : Nat) (hk : 0 < k)
    (hi : k ≤ (S.base.nodes i).commit) (hj : k ≤ (S.base.nodes j).commit) :
    (S.base.nodes i).log[k - 1]? = (S.base.nodes j).log[k - 1]? :=
  RaftProps.C01.C01_state_machine_safety S.base (reach_base hr) i j k hk hi hj

theorem C01_committed_prefixes_agree (S : CSys) (hr : ReachPC S) (i j : Nat) :
    (S.base.nodes i).log.take (min (S.base.nodes i).commit (S.base.nodes j).commit) =
      (S.base.nodes j).log.take (min (S.base.nodes i).commit (S.base.nodes j).commit) :=
  RaftProps.C01.C01_committed_prefixes_agree S.base (reach_base hr) i j

theorem C01_agree_durable (S : CSys) (hr : ReachPC S) (i j k : Nat)
    (hi : k ≤ (S.base.nodes i).commit) (hj : k ≤ (S.base.nodes j).dcommit) :
    (S.base.nodes i).log.take k = (S.base.nodes j).dlog.take k :=
  RaftProps.C01.C01_agree_durable S.base (reach_base hr) i j k hi hj

/-- **No index is ever reported with two different entries**, along PC steps -/
theorem C01_never_reports_differently (S S' : CSys) (hr : ReachPC S) (hs : StepsC S S') (k : Nat)
    (e e' : LEntry) (h : Reports S.base k e) (h' : Reports S'.base k e') : e = e' :=
  RaftProps.C01.C01_never_reports_differently S.base S'.base (reach_base hr) (steps_base hs) k e e' h h'

/-- the full statement of C01 over PC runs -/
theorem C01_full : ∀ (S S' : CSys), ReachPC S → (∃ es, runC S es = .ok S') → ∀ k e e',
    Reports S.base k e → Reports S'.base k e' → e = e' := by
  intro S S' hr ⟨es, hes⟩ k e e' h h'
  exact RaftProps.C01.C01_full S.base S'.base (reach_base hr) (runC_base es S S' hes) k e e' h h'

/-! ### C02 — election safety -/

theorem C02_election_safety (S : CSys) (hr : ReachPC S) (t a b : Nat)
    (ha : (t, a) ∈ S.base.elected) (hb : (t, b) ∈ S.base.elected) : a = b :=
  RaftProps.C02.C02_election_safety S.base (reach_base hr) t a b ha hb

theorem C02_one_leader_per_term (S : CSys) (hr : ReachPC S) (i j : Nat)
    (hi : (S.base.nodes i).role = 2) (hj : (S.base.nodes j).role = 2)
    (ht : (S.base.nodes i).term = (S.base.nodes j).term) : i = j :=
  RaftProps.C02.C02_one_leader_per_term S.base (reach_base hr) i j hi hj ht

theorem C02_one_vote_per_term_ever (S : CSys) (hr : ReachPC S) (g1 g2 : Grant) (h1 : g1 ∈ S.base.grants)
    (h2 : g2 ∈ S.base.grants) (ht : g1.term = g2.term) (hv : g1.voter = g2.voter) : g1.cand = g2.cand :=
  RaftProps.C02.C02_one_vote_per_term_ever S.base (reach_base hr) g1 g2 h1 h2 ht hv

theorem C02_full : ∀ (S : CSys), ReachPC S → ∀ t a b, (t, a) ∈ S.base.elected → (t, b) ∈ S.base.elected → a = b :=
  fun S hr => RaftProps.C02.C02_full S.base (reach_base hr)

/-- in PC the election of a term is *fresh* without looking at other elections: the same-term part of
P's guard is implied, so a second `win` in a term is impossible for local reasons alone -/
theorem C02_win_fresh (S : CSys) (hr : ReachPC S) (i : Nat) (cfg : Cfg) (q : List Nat) (applied : Nat)
    (hloc : winLocal S i cfg applied) (hcore : winCore S.base i cfg q = true) :
    ¬ Elected S.base (S.base.nodes i).term := by
  have hb := win_accepted_by_P S hr i cfg q applied hloc hcore
  obtain ⟨hrole, hq, hall, _, _, _, hadj, _⟩ := win_guard hb
  have hI := invAll_reachR _ (reach_base hr)
  exact win_fresh S.base hI.v hI.l i cfg q hrole hq hall hadj

/-! ### C03 — leader completeness -/

theorem C03_leader_completeness (S : CSys) (hr : ReachPC S) (p : Nat × Nat) (hp : p ∈ S.base.cmts) (t' : Nat)
    (hlt : p.1 < t') (hel : ∃ j, (t', j) ∈ S.base.elected) :
    (S.base.llog t').take p.2 = (S.base.llog p.1).take p.2 :=
  RaftProps.C03.C03_leader_completeness S.base (reach_base hr) p hp t' hlt hel

theorem C03_leader_holds_committed (S : CSys) (hr : ReachPC S) (i : Nat) (hi : (S.base.nodes i).role = 2)
    (p : Nat × Nat) (hp : p ∈ S.base.cmts) (ht : p.1 ≤ (S.base.nodes i).term) :
    (S.base.nodes i).log.take p.2 = (S.base.llog p.1).take p.2 :=
  RaftProps.C03.C03_leader_holds_committed S.base (reach_base hr) i hi p hp ht

theorem C03_elected_with_committed (S : CSys) (hr : ReachPC S) (p : Nat × Nat) (hp : p ∈ S.base.cmts) (t : Nat)
    (ht : p.1 < t) (hel : ∃ j, (t, j) ∈ S.base.elected) : (S.base.elog t).take p.2 = (S.base.llog p.1).take p.2 :=
  RaftProps.C03.C03_elected_with_committed S.base (reach_base hr) p hp t ht hel

theorem C03_full : ∀ (S : CSys), ReachPC S → ∀ i, (S.base.nodes i).role = 2 → ∀ p ∈ S.base.cmts,
    p.1 ≤ (S.base.nodes i).term → (S.base.nodes i).log.take p.2 = (S.base.llog p.1).take p.2 :=
  fun S hr => RaftProps.C03.C03_full S.base (reach_base hr)

/-- the evidence behind a recorded leader commit, in PC terms: a quorum **of the configuration of the
version the leader had applied** acknowledged it durably -/
theorem C03_commit_evidence_versioned (S : CSys) (hr : ReachPC S) (x : (Nat × Nat) × Nat) (hx : x ∈ S.cvs) :
    x.1 ∈ S.base.cmts ∧ ∃ cfg q, S.vtab[x.2]? = some cfg ∧ cfg.isQuorum q = true ∧
      ∀ v ∈ q, ∃ a ∈ S.base.acks, a.term = x.1.1 ∧ a.frm = v ∧ x.1.2 ≤ a.idx :=
  ⟨cvs_mem_cmts (invCfg_reach hr) hx, (invCfg_reach hr).cq x hx⟩

/-! ### C04 — commit soundness and durability -/

theorem C04_commit_within_leader_commit (S : CSys) (hr : ReachPC S) (i : Nat) (h0 : 0 < (S.base.nodes i).commit) :
    ∃ p ∈ S.base.cmts, (S.base.nodes i).commit ≤ p.2 ∧ p.1 ≤ (S.base.nodes i).term ∧
      (S.base.nodes i).log.take (S.base.nodes i).commit = (S.base.llog p.1).take (S.base.nodes i).commit :=
  RaftProps.C04.C04_commit_within_leader_commit S.base (reach_base hr) i h0

theorem C04_committed_durable_on_quorum (S : CSys) (hr : ReachPC S) (p : Nat × Nat) (hp : p ∈ S.base.cmts) :
    ∃ cfg q, (p, cfg) ∈ S.base.ccfgs ∧ cfg.isQuorum q = true ∧
      ∀ v ∈ q, (S.base.nodes v).dlog.take p.2 = (S.base.llog p.1).take p.2 :=
  RaftProps.C04.C04_committed_durable_on_quorum S.base (reach_base hr) p hp

theorem C04_survives_minority_crash (S : CSys) (hr : ReachPC S) (p : Nat × Nat) (hp : p ∈ S.base.cmts) :
    ∃ cfg, (p, cfg) ∈ S.base.ccfgs ∧ ∀ (c' : Cfg) (alive : List Nat), adjOk c' cfg = true →
      c'.isQuorum alive = true → ∃ v ∈ alive, (S.base.nodes v).dlog.take p.2 = (S.base.llog p.1).take p.2 :=
  RaftProps.C04.C04_survives_minority_crash S.base (reach_base hr) p hp

theorem C04_full : ∀ (S : CSys), ReachPC S → ∀ i j k,
    k ≤ (S.base.nodes i).commit → k ≤ (S.base.nodes j).commit →
      (S.base.nodes i).log.take k = (S.base.nodes j).log.take k :=
  fun S hr => RaftProps.C04.C04_full S.base (reach_base hr)

/-! ### C08 — read index -/

theorem C08_read_state_safe (S : CSys) (hr : ReachPC S) (d : ReadResp) (hd : d ∈ S.base.rd.done) :
    SafeAnswer S.base d :=
  RaftProps.C08.C08_read_state_safe S.base (reach_base hr) d hd

theorem C08_response_safe (S : CSys) (hr : ReachPC S) (d : ReadResp) (hd : d ∈ S.base.rd.resps) :
    SafeAnswer S.base d :=
  RaftProps.C08.C08_response_safe S.base (reach_base hr) d hd

/-- linearizability of Safe ReadIndex over PC runs -/
theorem C08_full : ∀ (S0 S1 S2 : CSys), ReachPC S0 → ∀ i rid,
    applyEventC S0 (.base (.read (.issue i rid))) = .ok S1 →
    ∀ es, runC S1 es = .ok S2 → ∀ d ∈ S2.base.rd.done, d.rid = rid →
      d.to = i ∧ ∀ j, (S0.base.nodes j).commit ≤ d.idx := by
  intro S0 S1 S2 hr i rid hissue es hrun d hd hrid
  have hissue' : applyEvent S0.base (.read (.issue i rid)) = .ok S1.base := by
    simp only [applyEventC, isWinOrCommit, Bool.false_eq_true, if_false] at hissue
    split at hissue
    · rename_i b hb; cases hissue; exact hb
    · simp at hissue
  obtain ⟨es', hes'⟩ := runC_base es S1 S2 hrun
  exact RaftProps.C08.C08_full S0.base S1.base S2.base (reach_base hr) i rid hissue' es' hes' d hd hrid

/-- in PC a remote read is answered for local reasons alone: the leader acts under the configuration
of the membership changes it has applied, its version has not gone backwards, it registered the
request with this index and a quorum of that configuration confirmed its leadership since -/
theorem C08_resp_local (S : CSys) (hr : ReachPC S) (i rid idx : Nat) (cfg : Cfg) (applied : Nat) :
    (∃ S', applyEventC S (.resp i rid idx cfg applied) = .ok S') ↔
      (readLocal S i cfg applied ∧ respCore S.base i rid idx cfg = true) :=
  respC_accepts_iff S hr i rid idx cfg applied

/-- ... and so is a read state handed to the application -/
theorem C08_rstate_local (S : CSys) (hr : ReachPC S) (j rid idx : Nat) (cfg : Cfg) (applied : Nat) :
    (∃ S', applyEventC S (.rstate j rid idx cfg applied) = .ok S') ↔
      (∃ r, S.base.rd.issued.find? (fun r => r.rid = rid) = some r ∧ (S.base.nodes j).up = true ∧ r.node = j ∧
        (S.base.rd.resps.contains ⟨rid, j, idx⟩ = true ∨
          (readLocal S j cfg applied ∧ respCore S.base j rid idx cfg = true))) :=
  rstateC_accepts_iff S hr j rid idx cfg applied

/-- every answer PC lets through is safe, whatever configurations the history went through -/
theorem C08_answer_safe_step (S S' : CSys) (hr : ReachPC S) (e : CEvent) (h : applyEventC S e = .ok S')
    (d : ReadResp) (hd : d ∈ S'.base.rd.resps ∨ d ∈ S'.base.rd.done) : SafeAnswer S'.base d :=
  (invRd_reachR _ (reach_base (.step e hr h))).safe d hd

/-! ### C15 — snapshots -/

theorem C15_snapshot_is_committed_prefix (S : CSys) (hr : ReachPC S) (m : Snap) (hm : m ∈ S.base.snaps) (i : Nat)
    (hi : m.idx ≤ (S.base.nodes i).commit) : (S.base.nodes i).log.take m.idx = m.pre :=
  RaftProps.C15.C15_snapshot_is_committed_prefix S.base (reach_base hr) m hm i hi

theorem C15_snapshot_entries_committed (S : CSys) (hr : ReachPC S) (m : Snap) (hm : m ∈ S.base.snaps) (k : Nat)
    (hk : 0 < k) (hi : k ≤ m.idx) : ∃ e, m.pre[k - 1]? = some e ∧ Committed S.base k e :=
  RaftProps.C15.C15_snapshot_entries_committed S.base (reach_base hr) m hm k hk hi

theorem C15_full : ∀ (S : CSys), ReachPC S → ∀ m ∈ S.base.snaps, ∀ i,
    m.idx ≤ (S.base.nodes i).commit → (S.base.nodes i).log.take m.idx = m.pre :=
  fun S hr => RaftProps.C15.C15_full S.base (reach_base hr)

/-! ### the configuration table -/

/-- versions at distance at most one have meeting quorums (hence: the configuration a node acts under
meets the configuration of every node that is at most one membership change ahead or behind) -/
theorem versions_adjacent (S : CSys) (hr : ReachPC S) (a b : Nat) (ca cb : Cfg) (ha : S.vtab[a]? = some ca)
    (hb : S.vtab[b]? = some cb) (h1 : a ≤ b + 1) (h2 : b ≤ a + 1) (qa qb : List Nat)
    (hqa : ca.isQuorum qa = true) (hqb : cb.isQuorum qb = true) : ∃ v, v ∈ qa ∧ v ∈ qb :=
  adj_intersect ca cb ((invCfg_reach hr).adj ha hb h1 h2) qa qb hqa hqb

/-! ### non-vacuity (a): a three-voter group elects a leader, which commits a membership-change entry
adding a fourth voter; nodes 1 and 2 apply it (same configuration: version 1); the leader then
commits under version 1 (quorum 3 of 4) and a new leader is elected under version 1 -/

def c3 : Cfg := ⟨[1, 2, 3], []⟩
def c4 : Cfg := ⟨[1, 2, 3, 4], []⟩
/-- a membership-change entry (`EntryConfChange`) -/
def eC : LEntry := ⟨1, 1, 42⟩
def eC' : LEntry := ⟨1, 1, 43⟩
def e2 : LEntry := ⟨1, 0, 7⟩

def histA : List CEvent :=
  [.cfgInit c3,
   .base (.bump 1 1), .base (.campaign 1), .base (.rdy 1), .base (.persist 1 1), .base (.release 1 (.grant 1 1 1 {})),
   .base (.release 1 (.voteReq 1 1 0 0)),
   .base (.bump 2 1), .base (.grant 2 1), .base (.rdy 2), .base (.persist 2 1), .base (.release 2 (.grant 1 2 1 {})),
   .win 1 c3 [1, 2] 0,
   .base (.leaderAppend 1 eC), .base (.ackSelf 1 1), .base (.rdy 1), .base (.persist 1 1), .base (.release 1 (.ack 1 1 1 [])),
   .base (.sendApp 1 ⟨1, 1, 0, 0, [eC], 0⟩),
   .base (.recvApp 2 ⟨1, 1, 0, 0, [eC], 0⟩), .base (.rdy 2), .base (.persist 2 1), .base (.release 2 (.ack 1 2 1 [])),
   .commitLeader 1 1 c3 [1, 2] 0,
   .applyConf 1 1 c4,
   .base (.leaderAppend 1 e2), .base (.ackSelf 1 2), .base (.rdy 1), .base (.persist 1 1), .base (.release 1 (.ack 1 1 2 [])),
   .base (.sendApp 1 ⟨1, 1, 1, 1, [e2], 1⟩),
   .base (.recvApp 2 ⟨1, 1, 1, 1, [e2], 1⟩), .base (.commitApp 2 1 ⟨1, 1, 1, 1, [e2], 1⟩),
   .base (.rdy 2), .base (.persist 2 1), .base (.release 2 (.ack 1 2 2 [])),
   .applyConf 2 1 c4,
   .base (.sendApp 1 ⟨1, 1, 0, 0, [eC, e2], 1⟩),
   .base (.bump 3 1), .base (.recvApp 3 ⟨1, 1, 0, 0, [eC, e2], 1⟩), .base (.rdy 3), .base (.persist 3 1),
   .base (.release 3 (.ack 1 3 2 [])),
   .commitLeader 1 2 c4 [1, 2, 3] 1,
   .base (.bump 2 2), .base (.campaign 2), .base (.rdy 2), .base (.persist 2 1), .base (.release 2 (.grant 2 2 2 {})),
   .base (.release 2 (.voteReq 2 2 0 0)),
   .base (.bump 3 2), .base (.grant 3 2), .base (.rdy 3), .base (.persist 3 1), .base (.release 3 (.grant 2 3 2 {})),
   .base (.bump 1 2), .base (.grant 1 2), .base (.rdy 1), .base (.persist 1 1), .base (.release 1 (.grant 2 1 2 {})),
   .win 2 c4 [2, 3, 1] 1]

/-- the history is accepted; the table holds versions 0 and 1, the elections were decided under
versions 0 and 1, the commits under versions 0 and 1; node 2 is the leader of term 2 -/
example : (match runC cinit histA with
    | .ok S => decide (S.vtab = [c3, c4]) && decide (S.evs = [(2, 1), (1, 0)]) &&
        decide (S.cvs = [((1, 2), 1), ((1, 1), 0)]) && decide ((S.base.nodes 1).commit = 2) &&
        decide ((S.base.nodes 2).role = 2) && decide (S.base.elected = [(2, 2), (1, 1)]) &&
        decide (S.base.ecfgs = [(2, c4), (1, c3)]) && decide (S.base.ccfgs = [((1, 2), c4), ((1, 1), c3)])
    | .error _ => false) = true := by decide

/-- a second node applying the same entry must obtain the same configuration -/
example : (match runC cinit (histA.take 36 ++ [.applyConf 2 1 ⟨[1, 2, 3, 5], []⟩]) with
    | .ok _ => "applied" | .error _ => "refused") = "refused" := by decide

/-- the new configuration must be one membership-change step from its predecessor -/
example : (match runC cinit (histA.take 24 ++ [.applyConf 1 1 ⟨[4, 5, 6], []⟩]) with
    | .ok _ => "applied" | .error _ => "refused") = "refused" := by decide

/-- after applying the change the leader may not commit under the old configuration any more
(version 0 is not the version of its applied index 1), nor with a majority of the old voter set only -/
example : (match runC cinit (histA.take 43 ++ [.commitLeader 1 2 c3 [1, 2] 1]) with
    | .ok _ => "committed" | .error _ => "refused") = "refused" := by decide
example : (match runC cinit (histA.take 43 ++ [.commitLeader 1 2 c4 [1, 2] 1]) with
    | .ok _ => "committed" | .error _ => "refused") = "refused" := by decide

/-! ### non-vacuity (a'): reads after the membership change — the leader of term 1, having applied the
change (version 1, four voters), answers a remote read of node 2 and a local read, its leadership
confirmed by three of the four voters -/

def histR : List CEvent :=
  histA.take 44 ++
  [.base (.read (.issue 2 7)), .base (.read (.start 1 7)), .base (.read (.hback 2)), .base (.read (.hback 3)),
   .resp 1 7 2 c4 1, .rstate 2 7 2 c4 0,
   .base (.read (.issue 1 8)), .base (.read (.start 1 8)), .base (.read (.hback 2)), .base (.read (.hback 3)),
   .rstate 1 8 2 c4 1]

/-- the history is accepted: the response to request 7 was released to node 2 and handed out there,
request 8 was answered locally; both requests saw the two leader commits (of versions 0 and 1) -/
example : (match runC cinit histR with
    | .ok S => decide (S.base.rd.resps = [⟨7, 2, 2⟩]) && decide (S.base.rd.done = [⟨8, 1, 2⟩, ⟨7, 2, 2⟩]) &&
        decide (S.base.rd.issued = [⟨8, 1, 2, 5⟩, ⟨7, 2, 2, 5⟩]) && decide (S.vtab = [c3, c4]) &&
        decide (S.cvs = [((1, 2), 1), ((1, 1), 0)])
    | .error _ => false) = true := by decide

/-- the local read guard bites: a leader whose applied index went backwards (version 0 after it has
committed under version 1) is refused (`verMono` is false) — for that local reason only: the
configuration-free part of P's guard holds and P itself would accept the answer -/
example : (match runC cinit (histR.take 48 ++ [.resp 1 7 2 c3 0]) with
    | .ok _ => "answered" | .error _ => "refused") = "refused" := by decide
example : (match runC cinit (histR.take 48) with
    | .ok S => (verMono S 1 0, respCore S.base 1 7 2 c3, rdCfgOk S.base c3 1 2,
                (match applyEvent S.base (.read (.resp 1 7 2 c3)) with | .ok _ => true | .error _ => false))
    | .error _ => (true, false, false, false)) = (false, true, true, true) := by decide
/-- the same for a leader-local read state -/
example : (match runC cinit (histR.take 54 ++ [.rstate 1 8 2 c3 0]) with
    | .ok _ => "answered" | .error _ => "refused") = "refused" := by decide

/-- the old configuration is not the one of the applied index any more -/
example : (match runC cinit (histR.take 48 ++ [.resp 1 7 2 c3 1]) with
    | .ok _ => "answered" | .error _ => "refused") = "refused" := by decide

/-- two confirmations (the leader and node 2) are not a quorum of the four voters of version 1 -/
example : (match runC cinit (histR.take 47 ++ [.resp 1 7 2 c4 1]) with
    | .ok _ => "answered" | .error _ => "refused") = "refused" := by decide

/-- P's own read events are not events of PC -/
example : (match runC cinit (histR.take 48 ++ [.base (.read (.resp 1 7 2 c4))]) with
    | .ok _ => "answered" | .error _ => "refused") = "refused" := by decide

/-! ### non-vacuity (b): the local guard bites — a candidate whose log holds two membership-change
entries beyond its applied index is refused by PC, although P (whose guard only looks at the recorded
elections and commits, none of which is in the way here) would accept the election -/

def histB : List CEvent :=
  [.cfgInit c3,
   .base (.bump 1 1), .base (.campaign 1), .base (.rdy 1), .base (.persist 1 1), .base (.release 1 (.grant 1 1 1 {})),
   .base (.release 1 (.voteReq 1 1 0 0)),
   .base (.bump 2 1), .base (.grant 2 1), .base (.rdy 2), .base (.persist 2 1), .base (.release 2 (.grant 1 2 1 {})),
   .win 1 c3 [1, 2] 0,
   .base (.leaderAppend 1 eC), .base (.leaderAppend 1 eC'),
   .base (.sendApp 1 ⟨1, 1, 0, 0, [eC, eC'], 0⟩),
   .base (.recvApp 2 ⟨1, 1, 0, 0, [eC, eC'], 0⟩),
   .base (.bump 2 2), .base (.campaign 2), .base (.rdy 2), .base (.persist 2 1), .base (.release 2 (.grant 2 2 2 {})),
   .base (.release 2 (.voteReq 2 2 0 0)),
   .base (.bump 3 2), .base (.grant 3 2), .base (.rdy 3), .base (.persist 3 1), .base (.release 3 (.grant 2 3 2 {}))]

example : (match runC cinit (histB ++ [.win 2 c3 [2, 3] 0]) with
    | .ok _ => "elected" | .error _ => "refused") = "refused" := by decide

/-- ... for the local reason only: the candidate has its quorum of grants and P's guard is satisfied -/
example : (match runC cinit histB with
    | .ok S => (confCount (S.base.nodes 2).log, winCore S.base 2 c3 [2, 3], winAdj S.base 2 c3,
                (match applyEvent S.base (.win 2 c3 [2, 3]) with | .ok _ => true | .error _ => false))
    | .error _ => (0, false, false, false)) = (2, true, true, true) := by decide

/-- the leader of term 1 itself may not commit both membership changes at once either -/
example : (match runC cinit (histB.take 15 ++ [.base (.ackSelf 1 2), .base (.rdy 1), .base (.persist 1 1),
      .base (.release 1 (.ack 1 1 2 [])), .base (.sendApp 1 ⟨1, 1, 0, 0, [eC, eC'], 0⟩),
      .base (.recvApp 2 ⟨1, 1, 0, 0, [eC, eC'], 0⟩), .base (.rdy 2), .base (.persist 2 1),
      .base (.release 2 (.ack 1 2 2 [])), .commitLeader 1 2 c3 [1, 2] 0]) with
    | .ok _ => "committed" | .error _ => "refused") = "refused" := by decide

/-- ... but one at a time is fine -/
example : (match runC cinit (histB.take 15 ++ [.base (.ackSelf 1 2), .base (.rdy 1), .base (.persist 1 1),
      .base (.release 1 (.ack 1 1 2 [])), .base (.sendApp 1 ⟨1, 1, 0, 0, [eC, eC'], 0⟩),
      .base (.recvApp 2 ⟨1, 1, 0, 0, [eC, eC'], 0⟩), .base (.rdy 2), .base (.persist 2 1),
      .base (.release 2 (.ack 1 2 2 [])), .commitLeader 1 1 c3 [1, 2] 0]) with
    | .ok S => (S.base.nodes 1).commit | .error _ => 99) = 1 := by decide

end RaftProps.CfgLayer
