import RaftProps.C02c
import RaftProofs.ClusterLogK

/-!
# C05, cluster level — Log Matching and Leader Append-Only for `ClusterSem`

`ClusterSem` (`RaftModel/Cluster.lean`) is the cluster built from the executable node model: nodes move
only through `Node.call` (the function the correspondence check ties to `/repo`), around them a
monotone transport, applications that may call anything in any order, crashes and restarts from the
node's own storage.  `RaftProps/C02c.lean` proves Election Safety for it; this file proves the log
layer on top of it.

## Hypotheses (all explicit in every theorem)

* `History h`, `FixedCfg cfg`, `cfg.incoming ≠ []`, `Nodup` of both halves — as for Election Safety
  (one leader per term is what makes "the log of the leader of term `t`" meaningful).
* `hinit : InitOk h[0]` — `Init` allows ANY storage; the theorems need the initial storages to be
  well-formed (`MemStorage`'s own invariant: entries contiguous after the snapshot point), to hold no
  entry of term 0, to **agree pairwise** (Log Matching must hold at the start), and to hold no entry
  of a term above any node's stored term (a term that already has entries must be over: otherwise a
  node could still be elected for it and create a second entry with the same index and term).
  Fresh clusters (empty or identical storages) satisfy it.
* `hcon : CStep` between consecutive states — the step is one of the four rules of `Cluster.Step`
  whose application call obeys the storage contract; the **only** extra clause is on `compact k`:
  `k ≤ committed` and `k ≤ persisted` (`CompactOk`).  (Design assumption A5 says "compact only what
  has been applied"; `applied ≤ committed` holds outside the restart window and `applied ≤ persisted`
  with the default `max_apply_unpersisted_log_limit = 0`; the representation invariant of `RaftLog`
  genuinely needs `k ≤ committed + 1`, `k ≤ unstable.offset` and — finding F5 — `k ≤ storage last
  index`; `k ≤ applied` itself is not needed by these theorems.)
* `hnb : NoBatch` — no node has `batch_append` on.  With batching `try_batching` glues new entries
  onto a queued `MsgAppend` whatever term that message was queued in; that the glued message is still
  a slice of the sender's log needs an additional invariant (a leader's queue holds no `MsgAppend`
  of an earlier leadership) which is not proved here — see the report.

No protocol fact is assumed: that transported appends are well-numbered slices of their sender's
log, that entries carry real terms, that a leader holds every entry of its term, … are invariants
proved here (`RaftProofs/ClusterLog{A..K}.lean`, `InvL`).
-/
namespace RaftProps.C05
open RaftModel RaftModel.Cluster RaftModel.Node RaftModel.Raft RaftProps.C02

/-! ## the invariant along a history -/

theorem hist_head {h : List Sys} (hh : History h) : ∃ s0, h[0]? = some s0 := by
  cases hh with
  | init s _ => exact ⟨s, rfl⟩
  | step l s s' _ _ =>
    cases l with
    | nil => exact ⟨s, rfl⟩
    | cons a t => exact ⟨a, rfl⟩

theorem owner_unique (cfg : JointConfig) (hne : cfg.incoming ≠ [])
    (hnd1 : cfg.incoming.Nodup) (hnd2 : cfg.outgoing.Nodup)
    (h : List Sys) (hh : History h) (hfix : ∀ s ∈ h, FixedCfg cfg s) :
    ∀ i j t, Owner h i t → Owner h j t → i = j := by
  intro i j t ⟨s1, h1, l1⟩ ⟨s2, h2, l2⟩
  exact C02_cluster_election_safety cfg hne hnd1 hnd2 h hh hfix s1 s2 h1 h2 i j t l1 l2

/-- **the cluster invariant holds in every state of the history** -/
theorem cluster_inv (cfg : JointConfig) (hne : cfg.incoming ≠ [])
    (hnd1 : cfg.incoming.Nodup) (hnd2 : cfg.outgoing.Nodup)
    (h : List Sys) (hh : History h) (hfix : ∀ s ∈ h, FixedCfg cfg s)
    (hinit : ∀ s : Sys, h[0]? = some s → InitOk s)
    (hcon : ∀ (n : Nat) (a b : Sys), h[n]? = some a → h[n + 1]? = some b → CStep a b)
    (hnb : ∀ s ∈ h, NoBatch s) :
    ∃ s0, h[0]? = some s0 ∧ ∀ s ∈ h, InvL (Owner h) (EntriesOf s0) s := by
  obtain ⟨s0, h0⟩ := hist_head hh
  refine ⟨s0, h0, fun s hs => ?_⟩
  obtain ⟨n, hn⟩ := List.mem_iff_getElem?.1 hs
  exact invL_all h (owner_unique cfg hne hnd1 hnd2 h hh hfix) hinit hcon hnb s0 h0 n s hn

/-! ## 1. Log Matching -/

/-- **C05 `cluster_log_matching`** — in every state of a history of `ClusterSem` (fixed voter
configuration, `InitOk` start, contract-abiding steps, no batching) and for any two nodes `i`, `j`:
if their logical logs hold entries with the same term at index `k`, then at every index `k' ≤ k` at
which BOTH still hold an entry, the two entries are equal (term, type, data, context, index). -/
theorem C05_cluster_log_matching (cfg : JointConfig) (hne : cfg.incoming ≠ [])
    (hnd1 : cfg.incoming.Nodup) (hnd2 : cfg.outgoing.Nodup)
    (h : List Sys) (hh : History h) (hfix : ∀ s ∈ h, FixedCfg cfg s)
    (hinit : ∀ s : Sys, h[0]? = some s → InitOk s)
    (hcon : ∀ (n : Nat) (a b : Sys), h[n]? = some a → h[n + 1]? = some b → CStep a b)
    (hnb : ∀ s ∈ h, NoBatch s)
    (s : Sys) (hs : s ∈ h) (i j : Nat) (sti stj : NState)
    (hi : s.node i = some sti) (hj : s.node j = some stj)
    (k : Nat) (e e' : Entry) (he : sti.raft.raftLog.abs.entryAt k = some e)
    (he' : stj.raft.raftLog.abs.entryAt k = some e') (ht : e.term = e'.term)
    (k' : Nat) (hk : k' ≤ k) (a b : Entry) (ha : sti.raft.raftLog.abs.entryAt k' = some a)
    (hb : stj.raft.raftLog.abs.entryAt k' = some b) : a = b := by
  obtain ⟨s0, _, hall⟩ := cluster_inv cfg hne hnd1 hnd2 h hh hfix hinit hcon hnb
  have I := hall s hs
  have hag := I.agree (.log i) _ (.log j) _ ⟨sti, hi, rfl⟩ ⟨stj, hj, rfl⟩
  exact agree_matching hag (k - k') k e e' he he' ht k' a b (by omega) ha hb

/-- the snapshot point as an entry identity: if node `i`'s log starts right after the snapshot point
`(k, t)` (term still known) and both logs hold entries of the same term at `k + 1`, then whatever `j`
holds at `k` — an entry, or its own snapshot point with a known term — has term `t` -/
theorem C05_cluster_snapshot_point_matches (cfg : JointConfig) (hne : cfg.incoming ≠ [])
    (hnd1 : cfg.incoming.Nodup) (hnd2 : cfg.outgoing.Nodup)
    (h : List Sys) (hh : History h) (hfix : ∀ s ∈ h, FixedCfg cfg s)
    (hinit : ∀ s : Sys, h[0]? = some s → InitOk s)
    (hcon : ∀ (n : Nat) (a b : Sys), h[n]? = some a → h[n + 1]? = some b → CStep a b)
    (hnb : ∀ s ∈ h, NoBatch s)
    (s : Sys) (hs : s ∈ h) (i j : Nat) (sti stj : NState)
    (hi : s.node i = some sti) (hj : s.node j = some stj) (t : Nat)
    (hsnap : sti.raft.raftLog.abs.snapTerm = some t) (e e' : Entry)
    (he : sti.raft.raftLog.abs.entryAt (sti.raft.raftLog.abs.snapIdx + 1) = some e)
    (he' : stj.raft.raftLog.abs.entryAt (sti.raft.raftLog.abs.snapIdx + 1) = some e')
    (ht : e.term = e'.term) :
    (∀ b, stj.raft.raftLog.abs.entryAt sti.raft.raftLog.abs.snapIdx = some b → b.term = t) ∧
    (stj.raft.raftLog.abs.snapIdx = sti.raft.raftLog.abs.snapIdx →
      ∀ t', stj.raft.raftLog.abs.snapTerm = some t' → t' = t) := by
  obtain ⟨s0, _, hall⟩ := cluster_inv cfg hne hnd1 hnd2 h hh hfix hinit hcon hnb
  have I := hall s hs
  have hag := I.agree (.log i) _ (.log j) _ ⟨sti, hi, rfl⟩ ⟨stj, hj, rfl⟩
  obtain ⟨_, hp⟩ := hag _ e e' he he' ht
  have hpi : sti.raft.raftLog.abs.prevTerm (sti.raft.raftLog.abs.snapIdx + 1) = some t := by
    unfold LLog.prevTerm; rw [if_pos rfl]; exact hsnap
  refine ⟨fun b hb => ?_, fun hsi t' ht' => ?_⟩
  · have := stj.raft.raftLog.abs.prevTerm_of_entry (i := sti.raft.raftLog.abs.snapIdx + 1)
      (by simpa using hb) (by omega)
    exact (hp t b.term hpi this).symm
  · have : stj.raft.raftLog.abs.prevTerm (sti.raft.raftLog.abs.snapIdx + 1) = some t' := by
      unfold LLog.prevTerm; rw [if_pos (by rw [hsi]), ht']
    exact (hp t t' hpi this).symm

/-- **Log Matching for every list of entries of the state**, wherever it sits (`Loc`: the logical
log or the storage of a node, a queued or a transported `MsgAppend`): two such lists that hold
entries with the same term at `k` hold the same entry at every `k' ≤ k` at which both hold one.  (The
storage matters: a restart rebuilds the logical log from it, stale tail included.) -/
theorem C05_cluster_matching_everywhere (cfg : JointConfig) (hne : cfg.incoming ≠ [])
    (hnd1 : cfg.incoming.Nodup) (hnd2 : cfg.outgoing.Nodup)
    (h : List Sys) (hh : History h) (hfix : ∀ s ∈ h, FixedCfg cfg s)
    (hinit : ∀ s : Sys, h[0]? = some s → InitOk s)
    (hcon : ∀ (n : Nat) (a b : Sys), h[n]? = some a → h[n + 1]? = some b → CStep a b)
    (hnb : ∀ s ∈ h, NoBatch s)
    (s : Sys) (hs : s ∈ h) (l1 l2 : Loc) (g1 g2 : LLog) (h1 : At s l1 g1) (h2 : At s l2 g2)
    (k : Nat) (e e' : Entry) (he : g1.entryAt k = some e) (he' : g2.entryAt k = some e')
    (ht : e.term = e'.term)
    (k' : Nat) (hk : k' ≤ k) (a b : Entry) (ha : g1.entryAt k' = some a)
    (hb : g2.entryAt k' = some b) : a = b := by
  obtain ⟨s0, _, hall⟩ := cluster_inv cfg hne hnd1 hnd2 h hh hfix hinit hcon hnb
  exact agree_matching ((hall s hs).agree l1 g1 l2 g2 h1 h2) (k - k') k e e' he he' ht k' a b
    (by omega) ha hb

/-- a `MsgAppend` that is in the transport or in some node's queue -/
def InFlight (s : Sys) (x : Message) : Prop :=
  x.msgType = .msgAppend ∧ (x ∈ s.net ∨ ∃ i st, s.node i = some st ∧ x ∈ st.raft.msgs)

/-- **C05 `cluster_append_matches`** — the same for the entries carried by any `MsgAppend` that is
in the transport or in a queue, against any node's log: the message is well-numbered (its entries
have the indexes `index + 1, index + 2, …`) and carries no entry of term 0; if the log holds an
entry with the index and term of an entry `e` of the message, then every earlier entry of the
message equals the entry the log holds at its index (where it still holds one), and what the log
holds at the anchor `x.index` has term `x.log_term`. -/
theorem C05_cluster_append_matches (cfg : JointConfig) (hne : cfg.incoming ≠ [])
    (hnd1 : cfg.incoming.Nodup) (hnd2 : cfg.outgoing.Nodup)
    (h : List Sys) (hh : History h) (hfix : ∀ s ∈ h, FixedCfg cfg s)
    (hinit : ∀ s : Sys, h[0]? = some s → InitOk s)
    (hcon : ∀ (n : Nat) (a b : Sys), h[n]? = some a → h[n + 1]? = some b → CStep a b)
    (hnb : ∀ s ∈ h, NoBatch s)
    (s : Sys) (hs : s ∈ h) (x : Message) (hx : InFlight s x) (j : Nat) (stj : NState)
    (hj : s.node j = some stj) :
    ContigFrom (x.index + 1) x.entries ∧ (∀ e ∈ x.entries, e.term ≠ 0) ∧
    ∀ e ∈ x.entries, ∀ e', stj.raft.raftLog.abs.entryAt e.index = some e' → e.term = e'.term →
      (∀ a ∈ x.entries, a.index ≤ e.index →
        ∀ b, stj.raft.raftLog.abs.entryAt a.index = some b → a = b) ∧
      (∀ b, stj.raft.raftLog.abs.entryAt x.index = some b → b.term = x.logTerm) := by
  obtain ⟨s0, _, hall⟩ := cluster_inv cfg hne hnd1 hnd2 h hh hfix hinit hcon hnb
  have I := hall s hs
  obtain ⟨hty, hloc⟩ := hx
  -- the message as a chain
  have hchain : ∃ loc, At s loc (msgLog x) := by
    rcases hloc with hn | ⟨i, st, hi, hq⟩
    · exact ⟨.net, x, hn, hty, rfl⟩
    · exact ⟨.queue i, st, x, hi, hq, hty, rfl⟩
  have hc : ContigFrom (x.index + 1) x.entries := by
    rcases hloc with hn | ⟨i, st, hi, hq⟩
    · exact I.wfn x hn hty
    · exact I.wfq i st x hi hq hty
  obtain ⟨loc, hat⟩ := hchain
  have hcg : (msgLog x).Contig := hc
  refine ⟨hc, fun e he => I.nz loc _ hat e.index e (hcg.entryAt_of_mem he), ?_⟩
  intro e he e' he' ht
  have hag := I.agree loc _ (.log j) _ hat ⟨stj, hj, rfl⟩
  have hme := hcg.entryAt_of_mem he
  refine ⟨fun a ha hle b hb => ?_, fun b hb => ?_⟩
  · exact agree_matching hag (e.index - a.index) e.index e e' hme he' ht a.index a b (by omega)
      (hcg.entryAt_of_mem ha) hb
  · -- both hold an entry at `x.index + 1`
    have hxi : x.index < e.index := ((msgLog x).entryAt_lt hme).1
    obtain ⟨a, ha⟩ := (msgLog x).entryAt_exists (i := x.index + 1) (by show x.index < _; omega)
      (by have := ((msgLog x).entryAt_lt hme).2; omega)
    have hl1 := stj.raft.raftLog.abs.entryAt_lt hb
    have hl2 := stj.raft.raftLog.abs.entryAt_lt he'
    obtain ⟨c, hcj⟩ := stj.raft.raftLog.abs.entryAt_exists (i := x.index + 1) (by omega) (by omega)
    have hac : a = c := agree_matching hag (e.index - (x.index + 1)) e.index e e' hme he' ht
      (x.index + 1) a c (by omega) ha hcj
    subst hac
    obtain ⟨_, hp⟩ := hag (x.index + 1) a a ha hcj rfl
    have h1 : (msgLog x).prevTerm (x.index + 1) = some x.logTerm := by
      unfold LLog.prevTerm msgLog; rw [if_pos rfl]
    have h2 := stj.raft.raftLog.abs.prevTerm_of_entry (i := x.index + 1) (by simpa using hb)
      (by omega)
    exact (hp x.logTerm b.term h1 h2).symm

/-! ## 2. Leader Append-Only -/

/-- the later log extends the earlier one: the last index does not decrease, no entry appears at an
old index, and every old entry at an index the later log still retains is unchanged -/
structure Extends (g g' : LLog) : Prop where
  last : g.lastIndex ≤ g'.lastIndex
  old : ∀ k e', g'.entryAt k = some e' → k ≤ g.lastIndex → g.entryAt k = some e'
  kept : ∀ k e, g.entryAt k = some e → g'.snapIdx < k → g'.entryAt k = some e

theorem Extends.rfl (g : LLog) : Extends g g :=
  ⟨Nat.le_refl _, fun _ _ h _ => h, fun _ _ h _ => h⟩

theorem Extends.trans {a b c : LLog} (h1 : Extends a b) (h2 : Extends b c) : Extends a c := by
  refine ⟨Nat.le_trans h1.last h2.last, fun k e' he hk => ?_, fun k e he hk => ?_⟩
  · exact h1.old k e' (h2.old k e' he (by have := h1.last; omega)) hk
  · have hka := (a.entryAt_lt he).2
    by_cases hb : b.snapIdx < k
    · exact h2.kept k e (h1.kept k e he hb) hk
    · -- compacted in between: it cannot come back
      obtain ⟨e2, he2⟩ := c.entryAt_exists hk (by have := h1.last; have := h2.last; omega)
      have hbl : b.snapIdx ≤ b.lastIndex := by unfold LLog.lastIndex; omega
      have := h2.old k e2 he2 (by omega)
      have := (b.entryAt_lt this).1
      omega

/-- what one contract-abiding step does to node `i` (unless it restarts it): role / term transitions
`RT`, a leader that stays leader of its term only appends, and what a leader holds beyond its
previous last index carries its term -/
structure NodeRel (a b : NState) : Prop where
  rt : RT a.raft b.raft
  ext : a.raft.state = .leader → b.raft.state = .leader → b.raft.term = a.raft.term →
    Extends a.raft.raftLog.abs b.raft.raftLog.abs
  own : b.raft.state = .leader → ∀ k e, b.raft.raftLog.abs.entryAt k = some e →
    a.raft.raftLog.abs.lastIndex < k → e.term = b.raft.term

theorem NodeRel.rfl (a : NState) : NodeRel a a :=
  ⟨RT.rfl, fun _ _ _ => Extends.rfl _, fun _ k e he hk => by
    have := (a.raft.raftLog.abs.entryAt_lt he).2; omega⟩

theorem nodeRel_of_lstep {a b : NState} {m : Message} (hinv : a.raft.raftLog.Inv)
    (h : LStep a.raft b.raft m) : NodeRel a b := by
  have hla := hinv.lastIndex_abs
  have hlb := h.eff.inv.lastIndex_abs
  refine ⟨h.rt, fun h1 h2 h3 => ?_, fun h1 k e he hk => ?_⟩
  · obtain ⟨k1, k2⟩ := h.eff.keep h1 h2 h3
    refine ⟨by rw [← hla, ← hlb]; exact k1, fun k e' he hk => ?_, k2⟩
    rcases h.eff.log with c | ⟨es, c⟩ | ⟨_, c, _⟩
    · exact (c k e' he).1
    · rw [c.abs] at he
      rw [(LLog.append_old_link _ es k hk).1] at he
      exact he
    · exact absurd h2 c
  · rcases h.eff.log with c | ⟨es, c⟩ | ⟨_, c, _⟩
    · have := (a.raft.raftLog.abs.entryAt_lt (c k e he).1).2; omega
    · rw [c.abs, LLog.append_entryAt_new _ _ _ hk] at he
      exact c.terms e (List.mem_of_getElem? he)
    · exact absurd h1 c

/-- **one step, one node**: the node is restarted by the step, or `NodeRel` holds -/
theorem cstep_nodeRel {own : Nat → Nat → Prop} {ini : Entry → Prop} {a b : Sys}
    (I : InvL own ini a) (hnb : NoBatch a) (hstep : CStep a b) (i : Nat) (sta stb : NState)
    (ha : a.node i = some sta) (hb : b.node i = some stb) :
    NodeRel sta stb ∨ IsRestart i a b := by
  have other : ∀ (k : Nat) (st' : NState), i ≠ k → (a.setNode k st').node i = some stb →
      NodeRel sta stb := by
    intro k st' hik hb'
    rw [node_setNode_ne a k i st' hik, ha] at hb'
    cases hb'
    exact NodeRel.rfl _
  cases hstep with
  | call k st st' rnd op res h1 h2 h3 h4 =>
    by_cases hik : i = k
    · subst hik
      rw [node_setNode_self] at hb
      rw [h1] at ha
      cases ha; cases hb
      have hop' : op ≠ .drain ∧ ∀ m, op ≠ .rstep m := by
        constructor
        · intro hc; rw [hc] at h2; cases h2
        · intro m hc; rw [hc] at h2; cases h2
      exact .inl (nodeRel_of_lstep (I.inv i sta h1) (call_lstep sta stb rnd op res (I.inv i sta h1)
        (hnb i sta h1) hop' (fun m hm _ => by rw [hm] at h2; cases h2) h3 h4))
    · exact .inl (other k st' hik hb)
  | deliver k st st' rnd m res h1 h2 _ h4 =>
    by_cases hik : i = k
    · subst hik
      rw [node_setNode_self] at hb
      rw [h1] at ha
      cases ha; cases hb
      exact .inl (nodeRel_of_lstep (I.inv i sta h1) (call_lstep sta stb rnd (.step m) res
        (I.inv i sta h1) (hnb i sta h1) ⟨(by intro hc; cases hc), (by intro m' hc; cases hc)⟩
        (fun m' hm hty => by cases hm; exact I.msgOk h2 hty) (fun j hc => by cases hc) h4))
    · exact .inl (other k st' hik hb)
  | send k st st' h1 h2 h3 =>
    by_cases hik : i = k
    · subst hik
      have hb' : (a.setNode i st').node i = some stb := hb
      rw [node_setNode_self] at hb'
      rw [h1] at ha
      cases ha; cases hb'
      have hl : stb.raft.raftLog = sta.raft.raftLog ∧ stb.raft.term = sta.raft.term ∧
          stb.raft.state = sta.raft.state := by
        unfold Node.call at h3
        simp only [applyOp] at h3
        cases h3
        exact ⟨rfl, rfl, rfl⟩
      obtain ⟨e1, e2, e3⟩ := hl
      refine .inl ⟨RT.rfl.ts e2 e3, fun _ _ _ => by rw [e1]; exact Extends.rfl _,
        fun _ k e he hk => ?_⟩
      rw [e1] at he
      have := (sta.raft.raftLog.abs.entryAt_lt he).2; omega
    · exact .inl (other k st' hik hb)
  | restart k st st' c rnd h1 h2 h3 =>
    by_cases hik : i = k
    · subst hik
      exact .inr ⟨st, st', c, rnd, h1, h2, h3, rfl⟩
    · exact .inl (other k st' hik hb)

/-- along a stretch of the history without a restart of node `i`, `RT` composes -/
theorem rt_path {own : Nat → Nat → Prop} {ini : Entry → Prop} (h : List Sys)
    (hinv : ∀ s ∈ h, InvL own ini s) (hnb : ∀ s ∈ h, NoBatch s)
    (hcon : ∀ (n : Nat) (a b : Sys), h[n]? = some a → h[n + 1]? = some b → CStep a b) (i : Nat) :
    ∀ (d n : Nat) (s s' : Sys) (st st' : NState), h[n]? = some s → h[n + d]? = some s' →
      (∀ m a b, n ≤ m → m < n + d → h[m]? = some a → h[m + 1]? = some b → ¬ IsRestart i a b) →
      s.node i = some st → s'.node i = some st' → RT st.raft st'.raft := by
  intro d
  induction d with
  | zero =>
    intro n s s' st st' hn hn' _ hi hi'
    rw [Nat.add_zero, hn] at hn'
    cases hn'
    rw [hi] at hi'
    cases hi'
    exact RT.rfl
  | succ d ih =>
    intro n s s' st st' hn hn' hnr hi hi'
    have hlt : n + 1 < h.length := by
      rcases Nat.lt_or_ge (n + 1) h.length with c | c
      · exact c
      · have : h.length ≤ n + (d + 1) := by omega
        rw [List.getElem?_eq_none this] at hn'; cases hn'
    have h1 : h[n + 1]? = some h[n + 1] := List.getElem?_eq_some_iff.2 ⟨hlt, rfl⟩
    have hstep := hcon n s _ hn h1
    have hsm : s ∈ h := List.mem_iff_getElem?.2 ⟨n, hn⟩
    obtain ⟨st1, hi1⟩ := step_node_some hstep.step i st hi
    rcases cstep_nodeRel (hinv s hsm) (hnb s hsm) hstep i st st1 hi hi1 with c | c
    · refine c.rt.trans (ih (n + 1) _ s' st1 st' h1 (by rw [← hn']; congr 1; omega) ?_ hi1 hi')
      intro m a b hm1 hm2 ha hb
      exact hnr m a b (by omega) (by omega) ha hb
    · exact absurd c (hnr n s _ (Nat.le_refl _) (by omega) hn h1)

/-- **C05 `cluster_leader_append_only`** — between two states `h[n]`, `h[n + d]` of the history in
which node `i` is leader of the same term, with no restart of `i` in between (the formulation of
`C06_cluster_term_monotone`), the later logical log extends the earlier one: `last_index` does not
decrease, every entry the earlier log holds at an index the later log still retains (an index above
its snapshot point) is unchanged, and the later log holds nothing else at the old indexes. -/
theorem C05_cluster_leader_append_only (cfg : JointConfig) (hne : cfg.incoming ≠ [])
    (hnd1 : cfg.incoming.Nodup) (hnd2 : cfg.outgoing.Nodup)
    (h : List Sys) (hh : History h) (hfix : ∀ s ∈ h, FixedCfg cfg s)
    (hinit : ∀ s : Sys, h[0]? = some s → InitOk s)
    (hcon : ∀ (n : Nat) (a b : Sys), h[n]? = some a → h[n + 1]? = some b → CStep a b)
    (hnb : ∀ s ∈ h, NoBatch s) (i : Nat) :
    ∀ (d n : Nat) (s s' : Sys) (st st' : NState), h[n]? = some s → h[n + d]? = some s' →
      (∀ m a b, n ≤ m → m < n + d → h[m]? = some a → h[m + 1]? = some b → ¬ IsRestart i a b) →
      s.node i = some st → s'.node i = some st' →
      st.raft.state = .leader → st'.raft.state = .leader → st'.raft.term = st.raft.term →
      st.raft.raftLog.lastIndex ≤ st'.raft.raftLog.lastIndex ∧
      (∀ k e, st.raft.raftLog.abs.entryAt k = some e → st'.raft.raftLog.abs.snapIdx < k →
        st'.raft.raftLog.abs.entryAt k = some e) ∧
      (∀ k e', st'.raft.raftLog.abs.entryAt k = some e' → k ≤ st.raft.raftLog.lastIndex →
        st.raft.raftLog.abs.entryAt k = some e') := by
  obtain ⟨s0, _, hall⟩ := cluster_inv cfg hne hnd1 hnd2 h hh hfix hinit hcon hnb
  have key : ∀ (d n : Nat) (s s' : Sys) (st st' : NState), h[n]? = some s → h[n + d]? = some s' →
      (∀ m a b, n ≤ m → m < n + d → h[m]? = some a → h[m + 1]? = some b → ¬ IsRestart i a b) →
      s.node i = some st → s'.node i = some st' →
      st.raft.state = .leader → st'.raft.state = .leader → st'.raft.term = st.raft.term →
      Extends st.raft.raftLog.abs st'.raft.raftLog.abs := by
    intro d
    induction d with
    | zero =>
      intro n s s' st st' hn hn' _ hi hi' _ _ _
      rw [Nat.add_zero, hn] at hn'
      cases hn'
      rw [hi] at hi'
      cases hi'
      exact Extends.rfl _
    | succ d ih =>
      intro n s s' st st' hn hn' hnr hi hi' hl hl' ht
      have hlt : n + 1 < h.length := by
        rcases Nat.lt_or_ge (n + 1) h.length with c | c
        · exact c
        · have : h.length ≤ n + (d + 1) := by omega
          rw [List.getElem?_eq_none this] at hn'; cases hn'
      have h1 : h[n + 1]? = some h[n + 1] := List.getElem?_eq_some_iff.2 ⟨hlt, rfl⟩
      have hstep := hcon n s _ hn h1
      have hsm : s ∈ h := List.mem_iff_getElem?.2 ⟨n, hn⟩
      obtain ⟨st1, hi1⟩ := step_node_some hstep.step i st hi
      have hn1' : h[n + 1 + d]? = some s' := by rw [← hn']; congr 1; omega
      have hnr1 : ∀ m a b, n + 1 ≤ m → m < n + 1 + d → h[m]? = some a → h[m + 1]? = some b →
          ¬ IsRestart i a b := fun m a b hm1 hm2 ha hb => hnr m a b (by omega) (by omega) ha hb
      rcases cstep_nodeRel (hall s hsm) (hnb s hsm) hstep i st st1 hi hi1 with c | c
      · -- the rest of the stretch, as one `RT`
        have hrest := rt_path h hall hnb hcon i d (n + 1) _ s' st1 st' h1 hn1' hnr1 hi1 hi'
        have ht1 : st1.raft.term = st.raft.term := by
          have := c.rt.le; have := hrest.le; omega
        have hl1 : st1.raft.state = .leader := by
          rcases hrest.lead hl' with c1 | ⟨_, c2 | c2⟩
          · omega
          · rcases c.rt.cand c2 with c3 | ⟨_, c4⟩
            · omega
            · rw [hl] at c4; cases c4
          · exact c2
        exact (c.ext hl hl1 ht1).trans
          (ih (n + 1) _ s' st1 st' h1 hn1' hnr1 hi1 hi' hl1 hl' (ht.trans ht1.symm))
      · exact absurd c (hnr n s _ (Nat.le_refl _) (by omega) hn h1)
  intro d n s s' st st' hn hn' hnr hi hi' hl hl' ht
  have hx := key d n s s' st st' hn hn' hnr hi hi' hl hl' ht
  have hs : s ∈ h := List.mem_iff_getElem?.2 ⟨n, hn⟩
  have hs' : s' ∈ h := List.mem_iff_getElem?.2 ⟨n + d, hn'⟩
  have e1 := ((hall s hs).inv i st hi).lastIndex_abs
  have e2 := ((hall s' hs').inv i st' hi').lastIndex_abs
  exact ⟨by rw [e1, e2]; exact hx.last, hx.kept, fun k e' he hk => hx.old k e' he (by rw [← e1]; exact hk)⟩

/-! ## 3. a leader's entries carry its term; entries of a term come from its one leader -/

/-- **C05 `cluster_leader_entries_own_term`** — whatever a node that is leader after a step holds
beyond the last index it had before the step carries the leader's term: a leader appends only
entries of its own term (`append_entry` stamps `term = r.term`; nothing else extends a leader's log) -/
theorem C05_cluster_leader_entries_own_term (cfg : JointConfig) (hne : cfg.incoming ≠ [])
    (hnd1 : cfg.incoming.Nodup) (hnd2 : cfg.outgoing.Nodup)
    (h : List Sys) (hh : History h) (hfix : ∀ s ∈ h, FixedCfg cfg s)
    (hinit : ∀ s : Sys, h[0]? = some s → InitOk s)
    (hcon : ∀ (n : Nat) (a b : Sys), h[n]? = some a → h[n + 1]? = some b → CStep a b)
    (hnb : ∀ s ∈ h, NoBatch s)
    (n : Nat) (a b : Sys) (ha : h[n]? = some a) (hb : h[n + 1]? = some b)
    (i : Nat) (sta stb : NState) (hia : a.node i = some sta) (hib : b.node i = some stb)
    (hl : stb.raft.state = .leader) (k : Nat) (e : Entry)
    (he : stb.raft.raftLog.abs.entryAt k = some e) (hk : sta.raft.raftLog.lastIndex < k) :
    e.term = stb.raft.term := by
  obtain ⟨s0, _, hall⟩ := cluster_inv cfg hne hnd1 hnd2 h hh hfix hinit hcon hnb
  have ham : a ∈ h := List.mem_iff_getElem?.2 ⟨n, ha⟩
  have e1 := ((hall a ham).inv i sta hia).lastIndex_abs
  rcases cstep_nodeRel (hall a ham) (hnb a ham) (hcon n a b ha hb) i sta stb hia hib with c | c
  · exact c.own hl k e he (by rw [← e1]; exact hk)
  · obtain ⟨st, st', cfg', rnd, h1, _, h3, h4⟩ := c
    rw [h4, node_setNode_self] at hib
    cases hib
    rw [(CV.boot_booted cfg' _ rnd _ h3).state] at hl
    cases hl

/-- **all entries of a term come from the one leader of that term** (ghost-free: the monotone
transport and Election Safety stand in for a ghost leader log).  For every entry `e` anywhere in a
state of the history — at index `i` of the list `g` that sits at `loc`: a node's logical log, a node's
storage, a queued or a transported `MsgAppend` —:
* `e` was already somewhere in the initial state (`EntriesOf s0 e`), or some node leads `e.term`
  somewhere in the history, and that node is the same for every entry of the term (and for every
  state in which the term is led);
* while a node leads `e.term`, its log reaches at least to `i`: the leader of a term holds (or has
  compacted) every index at which an entry of its term exists anywhere — which is why its next
  `append_entry`, at `last_index + 1`, never collides with an existing entry of its term;
* `e.term ≠ 0`. -/
theorem C05_cluster_entries_come_from_the_leader (cfg : JointConfig) (hne : cfg.incoming ≠ [])
    (hnd1 : cfg.incoming.Nodup) (hnd2 : cfg.outgoing.Nodup)
    (h : List Sys) (hh : History h) (hfix : ∀ s ∈ h, FixedCfg cfg s)
    (hinit : ∀ s : Sys, h[0]? = some s → InitOk s)
    (hcon : ∀ (n : Nat) (a b : Sys), h[n]? = some a → h[n + 1]? = some b → CStep a b)
    (hnb : ∀ s ∈ h, NoBatch s)
    (s : Sys) (hs : s ∈ h) (loc : Loc) (g : LLog) (hat : At s loc g) (i : Nat) (e : Entry)
    (hge : g.entryAt i = some e) :
    ((∃ s0, h[0]? = some s0 ∧ EntriesOf s0 e) ∨
      ∃ k, (∃ s1 ∈ h, leads s1 k e.term) ∧ ∀ k' s2, s2 ∈ h → leads s2 k' e.term → k' = k) ∧
    (∀ k st, s.node k = some st → st.raft.state = .leader → st.raft.term = e.term →
      i ≤ st.raft.raftLog.lastIndex) ∧
    e.term ≠ 0 := by
  obtain ⟨s0, h0, hall⟩ := cluster_inv cfg hne hnd1 hnd2 h hh hfix hinit hcon hnb
  have I := hall s hs
  refine ⟨?_, fun k st hk hl ht => I.lead k st hk hl loc g hat i e hge ht.symm,
    I.nz loc g hat i e hge⟩
  rcases I.orig loc g hat i e hge with c | ⟨k, c⟩
  · exact .inl ⟨s0, h0, c⟩
  · exact .inr ⟨k, c, fun k' s2 hs2 hl2 =>
      owner_unique cfg hne hnd1 hnd2 h hh hfix k' k e.term ⟨s2, hs2, hl2⟩ c⟩

/-! ## 4. Non-vacuity: a leader replicates an entry to a follower (kernel-evaluated)

The history of `C02_cluster_nonvacuous` (three nodes booted from empty storages with voters 1, 2, 3;
node 1 is elected leader of term 1 by the vote of node 2) continued by three steps: node 1 persists
its log (the empty entry of term 1 that `become_leader` appended) and hard state, hands its queue —
the two `MsgAppend`s of `bcast_append` — to the transport, and node 2 is delivered its `MsgAppend` and
appends the entry. -/

section Examples

def c05x_a5 := c02x_st (Node.call c02x_a4 none .stabilize)
def c05x_a6 := c02x_st (Node.call c05x_a5 none .drain)
/-- the `MsgAppend` of node 1 for node 2 -/
def c05x_app := c05x_a5.raft.msgs.head!
def c05x_b4 := c02x_st (Node.call c02x_b3 none (.step c05x_app))

def c05x_s8 : Sys := c02x_s7.setNode 1 c05x_a5
def c05x_s9 : Sys := { (c05x_s8.setNode 1 c05x_a6) with net := c05x_s8.net ++ c05x_a5.raft.msgs }
def c05x_s10 : Sys := c05x_s9.setNode 2 c05x_b4

def c05x_hist : List Sys := c02x_hist ++ [c05x_s8, c05x_s9, c05x_s10]

/-- consecutive states are related by `R` -/
def Chained (R : Sys → Sys → Prop) : List Sys → Prop
  | [] => True
  | [_] => True
  | a :: b :: t => R a b ∧ Chained R (b :: t)

theorem chained_at {R : Sys → Sys → Prop} : ∀ (l : List Sys), Chained R l →
    ∀ (n : Nat) (a b : Sys), l[n]? = some a → l[n + 1]? = some b → R a b := by
  intro l
  induction l with
  | nil => intro _ n a b ha; simp at ha
  | cons x t ih =>
    intro hc n a b ha hb
    cases t with
    | nil => simp at hb
    | cons y t' =>
      cases n with
      | zero =>
        simp only [List.getElem?_cons_zero, Option.some.injEq, Nat.zero_add,
          List.getElem?_cons_succ] at ha hb
        subst ha; subst hb
        exact hc.1
      | succ m =>
        simp only [List.getElem?_cons_succ] at ha hb
        exact ih hc.2 m a b ha hb

set_option maxRecDepth 100000 in
theorem c05x_csteps : Chained CStep c05x_hist := by
  refine ⟨?_, ?_, ?_, ?_, ?_, ?_, ?_, ?_, ?_, ?_, trivial⟩
  · exact CStep.call _ 1 (c02x_boot 1) c02x_a1 none .campaign _ rfl rfl
      (fun k hc => by cases hc) (c02x_out _ (by decide))
  · exact CStep.call _ 1 c02x_a1 c02x_a2 none .stabilize _ rfl rfl
      (fun k hc => by cases hc) (c02x_out _ (by decide))
  · exact CStep.send _ 1 c02x_a2 c02x_a3 rfl ⟨by decide, by decide⟩ rfl
  · exact CStep.deliver _ 2 (c02x_boot 2) c02x_b1 none c02x_req _ rfl
      (c02x_head_mem _ (by decide)) (by decide) (c02x_out _ (by decide))
  · exact CStep.call _ 2 c02x_b1 c02x_b2 none .stabilize _ rfl rfl
      (fun k hc => by cases hc) (c02x_out _ (by decide))
  · exact CStep.send _ 2 c02x_b2 c02x_b3 rfl ⟨by decide, by decide⟩ rfl
  · exact CStep.deliver _ 1 c02x_a3 c02x_a4 none c02x_resp _ rfl
      (List.mem_append_right _ (c02x_head_mem _ (by decide))) (by decide) (c02x_out _ (by decide))
  · exact CStep.call _ 1 c02x_a4 c05x_a5 none .stabilize _ rfl rfl
      (fun k hc => by cases hc) (c02x_out _ (by decide))
  · exact CStep.send _ 1 c05x_a5 c05x_a6 rfl ⟨by decide, by decide⟩ rfl
  · exact CStep.deliver _ 2 c02x_b3 c05x_b4 none c05x_app _ rfl
      (List.mem_append_right _ (c02x_head_mem _ (by decide))) (by decide) (c02x_out _ (by decide))

theorem chained_history : ∀ (l : List Sys) (s : Sys), History (l ++ [s]) → ∀ t : List Sys,
    Chained Step (s :: t) → History (l ++ s :: t) := by
  intro l s hh t
  induction t generalizing l s with
  | nil => intro _; exact hh
  | cons b t ih =>
    intro hc
    have h1 : History (l ++ [s, b]) := History.step l s b hh hc.1
    have : History ((l ++ [s]) ++ b :: t) := ih (l ++ [s]) b (by simpa using h1) hc.2
    simpa using this

theorem Chained.mono {R Q : Sys → Sys → Prop} (hrq : ∀ a b, R a b → Q a b) :
    ∀ l : List Sys, Chained R l → Chained Q l := by
  intro l
  induction l with
  | nil => intro _; trivial
  | cons x t ih =>
    intro hc
    cases t with
    | nil => trivial
    | cons y t' => exact ⟨hrq _ _ hc.1, ih hc.2⟩

theorem c05x_history : History c05x_hist := by
  have := chained_history [] c02x_s0 (History.init _ c02x_init) _
    (Chained.mono (fun _ _ hc => hc.step) _ c05x_csteps)
  simpa [c05x_hist, c02x_hist] using this

def c05x_nobatch (s : Sys) : Bool := s.nodes.all (fun p => !p.2.raft.batchAppend)
theorem c05x_nobatch_ok (s : Sys) (h : c05x_nobatch s = true) : NoBatch s := by
  intro i st hn
  have hm := c02_lookup_mem s.nodes i st hn
  unfold c05x_nobatch at h
  rw [List.all_eq_true] at h
  simpa using h _ hm

set_option maxRecDepth 100000 in
theorem c05x_fixed_all : ∀ s ∈ c05x_hist, FixedCfg c02x_cfg s ∧ NoBatch s := by
  intro s hs
  simp only [c05x_hist, c02x_hist, List.cons_append, List.nil_append, List.mem_cons,
    List.not_mem_nil, or_false] at hs
  rcases hs with rfl | rfl | rfl | rfl | rfl | rfl | rfl | rfl | rfl | rfl | rfl <;>
    exact ⟨c02x_fixed_ok _ (by decide), c05x_nobatch_ok _ (by decide)⟩

set_option maxRecDepth 100000 in
theorem c05x_initOk : InitOk c02x_s0 := by
  refine ⟨rfl, fun _ => c02x_store, ?_, ?_, ?_, ?_⟩
  · intro i st hn
    have hm := c02_lookup_mem _ i st hn
    simp only [c02x_s0, List.mem_cons, Prod.mk.injEq, List.not_mem_nil, or_false] at hm
    have hb : ∀ k, c02x_ok (match Node.boot (c02x_config k) c02x_store none with
        | .ok (.ok st) => (.ok (.ok, st) : Out) | _ => .panic "") = true →
        Node.boot (c02x_config k) c02x_store none = .ok (.ok (c02x_boot k)) := by
      intro k hk
      unfold c02x_boot
      split at hk
      · rename_i st heq; rw [heq]
      · cases hk
    rcases hm with ⟨rfl, rfl⟩ | ⟨rfl, rfl⟩ | ⟨rfl, rfl⟩
    · exact ⟨c02x_config 1, none, hb 1 (by decide)⟩
    · exact ⟨c02x_config 2, none, hb 2 (by decide)⟩
    · exact ⟨c02x_config 3, none, hb 3 (by decide)⟩
  · intro i st _
    exact ⟨⟨fun k e hk => by simp [c02x_store] at hk,
      (by show c02x_store.snapshotMetadata.index < c02x_store.firstIndex; decide)⟩,
      fun e he => by simp [c02x_store] at he⟩
  · intro i j _ _ _ _
    exact Agree.self _
  · intro i j _ _ _ _ e he
    simp [c02x_store] at he

set_option maxRecDepth 100000 in
/-- **non-vacuity of the C05 cluster theorems**: there is a history of `ClusterSem` that satisfies
every hypothesis of the theorems above (fixed voter configuration `{1, 2, 3}`, `InitOk` start,
contract-abiding steps, no batching) and in whose last state node 1 leads term 1, the transport
carries its `MsgAppend` for node 2 with one entry — index 1, term 1 —, and the logical logs of node 1
and of node 2 both hold that entry at index 1. -/
theorem C05_cluster_nonvacuous :
    ∃ h : List Sys, History h ∧ (∀ s ∈ h, FixedCfg c02x_cfg s) ∧
      c02x_cfg.incoming ≠ [] ∧ c02x_cfg.incoming.Nodup ∧ c02x_cfg.outgoing.Nodup ∧
      (∀ s : Sys, h[0]? = some s → InitOk s) ∧
      (∀ (n : Nat) (a b : Sys), h[n]? = some a → h[n + 1]? = some b → CStep a b) ∧
      (∀ s ∈ h, NoBatch s) ∧
      ∃ s ∈ h, ∃ st1 st2 x e, leads s 1 1 ∧ s.node 1 = some st1 ∧ s.node 2 = some st2 ∧
        x ∈ s.net ∧ x.msgType = .msgAppend ∧ x.frm = 1 ∧ x.to = 2 ∧ x.entries = [e] ∧
        e.index = 1 ∧ e.term = 1 ∧
        st1.raft.raftLog.abs.entryAt 1 = some e ∧ st2.raft.raftLog.abs.entryAt 1 = some e :=
  ⟨c05x_hist, c05x_history, fun s hs => (c05x_fixed_all s hs).1, by decide, by decide, by decide,
    fun s hs => by
      have : c05x_hist[0]? = some c02x_s0 := rfl
      rw [this] at hs
      cases hs
      exact c05x_initOk,
    chained_at _ c05x_csteps, fun s hs => (c05x_fixed_all s hs).2,
    c05x_s10, by simp [c05x_hist], c05x_a6, c05x_b4, c05x_app, c05x_app.entries.head!,
    ⟨c05x_a6, rfl, by decide, by decide⟩, rfl, rfl,
    List.mem_append_right _ (c02x_head_mem _ (by decide)), by decide, by decide, by decide,
    by decide, by decide, by decide, by decide, by decide⟩

/-- … and Log Matching applies to it -/
example (s : Sys) (hs : s ∈ c05x_hist) (i j : Nat) (sti stj : NState)
    (hi : s.node i = some sti) (hj : s.node j = some stj) (e e' : Entry)
    (he : sti.raft.raftLog.abs.entryAt 1 = some e) (he' : stj.raft.raftLog.abs.entryAt 1 = some e')
    (ht : e.term = e'.term) : e = e' :=
  C05_cluster_log_matching c02x_cfg (by decide) (by decide) (by decide) c05x_hist c05x_history
    (fun s hs => (c05x_fixed_all s hs).1)
    (fun s hs => by
      have : c05x_hist[0]? = some c02x_s0 := rfl
      rw [this] at hs
      cases hs
      exact c05x_initOk)
    (chained_at _ c05x_csteps) (fun s hs => (c05x_fixed_all s hs).2) s hs i j sti stj hi hj 1 e e'
    he he' ht 1 (Nat.le_refl _) e e' he he'

/-! ### the stale tail of a storage resurfaces after a crash (harmless for Log Matching)

A follower whose storage holds entries 1, 2, 3 of term 1 accepted an append of term 2 that conflicts
from index 2 on: the logical log is 1 (term 1), 2, 3 (term 2), the new entries are unstable, the
storage still holds the old tail (`MemStorage::append` overwrites it only at the next `stabilize`).  A
crash at that point restarts the node from the storage: `RaftLog::new` yields the OLD log 1, 2, 3 of
term 1.  Both logs are made of links that exist in the cluster, which is why the invariant counts
the stored log (`Loc.store`) among the chains and why Log Matching survives. -/

def c05x_staleStore : MemStorage :=
  { entries := [RaftProps.C14.ent 1 1 0, RaftProps.C14.ent 2 1 0, RaftProps.C14.ent 3 1 0] }

def c05x_staleLog : RaftLog :=
  { store := c05x_staleStore,
    unstable := { entries := [RaftProps.C14.ent 2 2 0, RaftProps.C14.ent 3 2 0], entriesSize := 24,
                  offset := 2 },
    committed := 1, persisted := 1, applied := 1, maxApplyUnpersistedLogLimit := 0 }

/-- the state is a legitimate one: it satisfies the representation invariant -/
example : RaftProps.C14.RaftLogInv c05x_staleLog :=
  ⟨⟨contigFrom_getElem? (by decide), by decide⟩,
    ⟨contigFrom_getElem? (by decide), by decide, by intro sn hs; cases hs⟩,
    by decide, by decide, by decide, by decide, by decide, by decide, by decide⟩

example :
    c05x_staleLog.abs.ents.map (fun e => (e.index, e.term)) = [(1, 1), (2, 2), (3, 2)] ∧
    (match RaftLog.new c05x_staleStore 0 with
     | .ok l => l.abs.ents.map (fun e => (e.index, e.term))
     | _ => []) = [(1, 1), (2, 1), (3, 1)] := by decide

/-! ### observation (outside C05): `send` does not wait for the entries to be persisted

In the last state of the history above node 2 holds the replicated entry only in its unstable log,
its storage is still empty, its queue holds the acknowledgement `MsgAppendResponse{index = 1}` for
node 1 — and `hsPersisted` holds (term and vote were written before), so `Cluster.Step.send` may
release the acknowledgement, after which a `restart` of node 2 forgets the entry.  Log Matching and
Leader Append-Only do not depend on this (they are proved above for exactly this semantics), but a
cluster-level proof of Leader Completeness / State Machine Safety over `ClusterSem` would need the
`send` rule to require the acknowledged entries to be in the storage (the Ready contract: persisted
messages are released only after the Ready's entries are persisted). -/
set_option maxRecDepth 100000 in
example : hsPersisted c05x_b4 ∧ c05x_b4.raft.raftLog.unstable.entries.length = 1 ∧
    c05x_b4.raft.raftLog.store.entries = [] ∧
    c05x_b4.raft.msgs.map (fun x => (x.msgType, x.to, x.index, x.reject)) =
      [(.msgAppendResponse, 1, 1, false)] := by
  refine ⟨⟨by decide, by decide⟩, by decide, by decide, by decide⟩

end Examples

end RaftProps.C05
