import RaftProofs.ClusterFlow2A
import RaftProofs.ClusterFlow2B
import RaftProofs.ClusterFlow2X
import RaftProps.C13c
import RaftProps.C01j

/-!
# C13d — advertised commit indexes on ClusterSem, **with log compaction, snapshots between nodes and `request_snapshot`**

`RaftProps/C13c.lean` proves `C13_cluster_advertised_commit_le` and
`C13_cluster_heartbeat_commit_le_matched` under `Cluster.Hyp` and
`C13_cluster_heartbeat_commit_acknowledged` under `Cluster.Hyp3w` — bundles that describe histories
**without** compaction and **without** `MsgSnapshot`s in the transport.  This file proves the same
statements for the histories of the snapshot layer (`RaftProps/C01j.lean`): step contract
`Snap5.KStep` (compaction under the storage contract, snapshots between nodes, free use of
`request_snapshot`).

* `C13_cluster_advertised_commit_le`, `C13_cluster_heartbeat_commit_le_matched`: under
  **`Snap5.Hyp3r`** (the bundle of C01j) — and, more generally (`…_of_hypR`), under
  `Snap5.Flow2.HypR` = the weakest bundle `Snap5.Hyp` of the snapshot layer minus its
  invariant-shaped field `reqok` (which is derived): `History`, fixed non-empty duplicate-free voter
  configuration, `InitOk`, `Snap5.KStep`, no batching.  The conclusions are word for word those of
  C13c.
* `C13_cluster_heartbeat_commit_acknowledged`: under `Snap5.Hyp3r`.  The agreement between the
  follower's log (when it acknowledged) and the leader's log is stated for the **ghost (uncompacted)
  logs** `Snap.FL` of C01e–C01j and, derived from it, for the logical logs at every index that both
  still retain (above both snapshot points).
* non-vacuity: the 46-state history `Snap5.Flow2.fx_hist` (`Snap5.rx_hist` — compaction, two
  snapshots, `request_snapshot` — continued by `ping`, `send`, `transfer_leader(2)`, `send` at the
  leader) satisfies `Snap5.Hyp3r`; its transport holds `MsgAppend`s and a `MsgHeartbeat` with commit
  index `2 > c0 = 0`; the theorems are applied to them.

The `inflights` half of C13c (`C13_cluster_inflights_invariant`) needs only `History` and therefore
already covers these histories.
-/
namespace RaftProps.C13d
open RaftModel RaftModel.Cluster RaftModel.Node RaftModel.Raft RaftModel.Raft.CC
open RaftModel.Cluster.Flow RaftModel.Cluster.Snap5.Flow2

/-! ## 1. advertised commit indexes (the `Hyp` halves of C13c) -/

/-- `C13_cluster_advertised_commit_le` under the weakest bundle (`Snap5.Hyp` without `reqok`) -/
theorem C13_cluster_advertised_commit_le_of_hypR (cfg : JointConfig) (h : List Sys)
    (H : Snap5.Flow2.HypR cfg h)
    (n : Nat) (s : Sys) (hn : h[n]? = some s) (x : Message)
    (hx : x ∈ s.net ∨ ∃ i st, s.node i = some st ∧ x ∈ st.raft.msgs)
    (hty : x.msgType = .msgAppend ∨ x.msgType = .msgHeartbeat) :
    ∃ n0 s0 st0, n0 ≤ n ∧ h[n0]? = some s0 ∧ s0.node x.frm = some st0 ∧
      st0.raft.state = .leader ∧ st0.raft.term = x.term ∧
      x.commit ≤ st0.raft.raftLog.committed := by
  obtain ⟨n0, s0, st0, h1, h2, h3, h4, h5, h6, _⟩ := Snap5.Flow2.flow_point H.toHyp hn hx hty
  exact ⟨n0, s0, st0, h1, h2, h3, h4, h5, h6⟩

/-- **C13 `advertised_commit_le` (ClusterSem, with compaction, snapshots and `request_snapshot`).**
In every state `h[n]` of every history that satisfies `Snap5.Hyp3r` (the bundle of
`RaftProps/C01j.lean`), every `MsgAppend` and every `MsgHeartbeat` `x` that is in the transport or
queued at any node was queued by node `x.frm` in a step that ended in a state `h[n0]`, `n0 ≤ n`, in
which `x.frm` was **leader of term `x.term`** with a commit index **at least `x.commit`**. -/
theorem C13_cluster_advertised_commit_le (cfg : JointConfig) (c0 : Nat) (h : List Sys)
    (H : Snap5.Hyp3r cfg c0 h)
    (n : Nat) (s : Sys) (hn : h[n]? = some s) (x : Message)
    (hx : x ∈ s.net ∨ ∃ i st, s.node i = some st ∧ x ∈ st.raft.msgs)
    (hty : x.msgType = .msgAppend ∨ x.msgType = .msgHeartbeat) :
    ∃ n0 s0 st0, n0 ≤ n ∧ h[n0]? = some s0 ∧ s0.node x.frm = some st0 ∧
      st0.raft.state = .leader ∧ st0.raft.term = x.term ∧
      x.commit ≤ st0.raft.raftLog.committed :=
  C13_cluster_advertised_commit_le_of_hypR cfg h H.toHypR n s hn x hx hty

/-- `C13_cluster_heartbeat_commit_le_matched` under the weakest bundle (`Snap5.Hyp` without `reqok`) -/
theorem C13_cluster_heartbeat_commit_le_matched_of_hypR (cfg : JointConfig) (h : List Sys)
    (H : Snap5.Flow2.HypR cfg h) (n : Nat) (s : Sys) (hn : h[n]? = some s) (x : Message)
    (hx : x ∈ s.net ∨ ∃ i st, s.node i = some st ∧ x ∈ st.raft.msgs)
    (hty : x.msgType = .msgHeartbeat) :
    ∃ n0 s0 stL pr, n0 ≤ n ∧ h[n0]? = some s0 ∧ s0.node x.frm = some stL ∧
      stL.raft.state = .leader ∧ stL.raft.term = x.term ∧ x.commit ≤ stL.raft.raftLog.committed ∧
      stL.raft.prs.get x.to = some pr ∧ x.commit ≤ pr.matched ∧
      (x.commit = 0 ∨ ∃ a ∈ s0.net, a.msgType = .msgAppendResponse ∧ a.reject = false ∧
        a.frm = x.to ∧ (a.term = x.term ∨ a.term = 0) ∧ x.commit ≤ a.index) := by
  obtain ⟨n0, s0, st0, pr, h1, h2, h3, h4, h5, h6, h7, h8, h9⟩ :=
    Snap5.Flow2.hbm_point H.toHyp hn hx hty
  refine ⟨n0, s0, st0, pr, h1, h2, h3, h4, h5, h6, h7, h8, ?_⟩
  rcases h9 with c | ⟨a, a1, a2, a3, a4, a5⟩
  · exact .inl c
  · exact .inr ⟨a, a1, a2.1, a2.2, a3, a4, a5⟩

/-- **C13 `heartbeat_commit ≤ matched` (ClusterSem, with compaction, snapshots and
`request_snapshot`)**.  A `MsgHeartbeat` `x` in the transport or in a queue of `h[n]` was queued by a
step that ended in a state `h[n0]`, `n0 ≤ n`, in which its sender `x.frm` led `x.term`, had commit index
`≥ x.commit`, and **held for the addressee `x.to` a progress `pr` with `x.commit ≤ pr.matched`**
(whatever the state of that progress — `Probe`, `Replicate` or `Snapshot`); moreover `x.commit = 0` or
the transport of `h[n0]` held an accepting `MsgAppendResponse` of `x.to` for that term (or without
term) with an index `≥ x.commit`. -/
theorem C13_cluster_heartbeat_commit_le_matched (cfg : JointConfig) (c0 : Nat) (h : List Sys)
    (H : Snap5.Hyp3r cfg c0 h) (n : Nat) (s : Sys) (hn : h[n]? = some s) (x : Message)
    (hx : x ∈ s.net ∨ ∃ i st, s.node i = some st ∧ x ∈ st.raft.msgs)
    (hty : x.msgType = .msgHeartbeat) :
    ∃ n0 s0 stL pr, n0 ≤ n ∧ h[n0]? = some s0 ∧ s0.node x.frm = some stL ∧
      stL.raft.state = .leader ∧ stL.raft.term = x.term ∧ x.commit ≤ stL.raft.raftLog.committed ∧
      stL.raft.prs.get x.to = some pr ∧ x.commit ≤ pr.matched ∧
      (x.commit = 0 ∨ ∃ a ∈ s0.net, a.msgType = .msgAppendResponse ∧ a.reject = false ∧
        a.frm = x.to ∧ (a.term = x.term ∨ a.term = 0) ∧ x.commit ≤ a.index) :=
  C13_cluster_heartbeat_commit_le_matched_of_hypR cfg h H.toHypR n s hn x hx hty

/-! ## 3. the acknowledged index (the `Hyp3w` half of C13c) -/

/-- **C13 `heartbeat_commit_acknowledged` (ClusterSem, with compaction, snapshots and
`request_snapshot`)** under `Snap5.Hyp3r`.  A `MsgHeartbeat` `x` to follower `j = x.to`, in the
transport or in a queue of `h[n]`, carries `commit ≤ c0` (the common initial snapshot point), or

* at a point `h[n0]`, `n0 ≤ n`, its sender led `x.term` with commit index `≥ x.commit` and **held
  `matched ≥ x.commit` for `j`**, and the transport held an accepting `MsgAppendResponse` `a` of `j`
  for term `x.term` with `x.commit ≤ a.index` (**the follower's acknowledged index**; `a` may be the
  answer to a `MsgAppend` or to a `MsgSnapshot`), and
* `j` queued `a` in a state `h[n1]`, `n1 ≤ n0`, being in term `x.term`, and at a point `h[m]`, `m ≤ n1`,
  the sender `x.frm` led `x.term` with a log that reaches `a.index`, and the **ghost (uncompacted) logs**
  `Snap.FL` of `j` (at `h[n1]`) and of the leader (at `h[m]`) agree up to `a.index` (hence up to
  `x.commit`) — and so do the logical logs at every index `≤ a.index` above both snapshot points.

(In C13c the agreement is between the logical logs themselves; with compaction either log may have
dropped a prefix, so the statement is made for the ghost logs of C01e–C01j, of which the logical logs
are the suffixes — `C01j_ghost_log`.) -/
theorem C13_cluster_heartbeat_commit_acknowledged (cfg : JointConfig) (c0 : Nat) (h : List Sys)
    (H : Snap5.Hyp3r cfg c0 h) (n : Nat) (s : Sys) (hn : h[n]? = some s) (x : Message)
    (hx : x ∈ s.net ∨ ∃ i st, s.node i = some st ∧ x ∈ st.raft.msgs)
    (hty : x.msgType = .msgHeartbeat) :
    x.commit ≤ c0 ∨
    ∃ n0 s0 stL pr a, n0 ≤ n ∧ h[n0]? = some s0 ∧ s0.node x.frm = some stL ∧
      stL.raft.state = .leader ∧ stL.raft.term = x.term ∧ x.commit ≤ stL.raft.raftLog.committed ∧
      stL.raft.prs.get x.to = some pr ∧ x.commit ≤ pr.matched ∧
      a ∈ s0.net ∧ a.msgType = .msgAppendResponse ∧ a.reject = false ∧ a.frm = x.to ∧
      a.term = x.term ∧ x.commit ≤ a.index ∧
      ∃ n1 s1 stj, n1 ≤ n0 ∧ h[n1]? = some s1 ∧ s1.node x.to = some stj ∧ a ∈ stj.raft.msgs ∧
        stj.raft.term = x.term ∧
        ∃ m sm stl, m ≤ n1 ∧ h[m]? = some sm ∧ sm.node x.frm = some stl ∧
          stl.raft.state = .leader ∧ stl.raft.term = x.term ∧
          a.index ≤ stl.raft.raftLog.lastIndex ∧
          (∀ k, k ≤ a.index → (Snap.FL h c0 stj).entryAt k = (Snap.FL h c0 stl).entryAt k) ∧
          (∀ k, k ≤ a.index → stj.raft.raftLog.abs.snapIdx < k →
            stl.raft.raftLog.abs.snapIdx < k →
            stj.raft.raftLog.abs.entryAt k = stl.raft.raftLog.abs.entryAt k) := by
  by_cases hc : x.commit ≤ c0
  · exact .inl hc
  right
  have H2 := H.toHyp3w.toHyp2w
  obtain ⟨n0, s0, st0, pr, h1, h2, h3, h4, h5, h6, p1, p2, h7⟩ :=
    Snap5.Flow2.hbm_point H2.toHyp hn hx hty
  rcases h7 with c | ⟨a, a1, a2, a3, a4, a5⟩
  · omega
  · have hidx : c0 < a.index := by omega
    have hx0 : a.index ≠ 0 := by omega
    have htnz := ((Snap5.ack_inv H2 n0 s0 h2).2 a a1 a2 hx0).2
    have hterm : a.term = x.term := by
      rcases a4 with c | c
      · exact c
      · exact absurd c htnz
    obtain ⟨n1, s1, stj, b1, b2, b3, b4, b5, m, sm, l, stl, d1, d2, d3, d4, d5, d6, d7, d8⟩ :=
      Snap5.Flow2.ack_promise H h2 a1 a2 hidx
    rw [a3] at b3
    rw [hterm] at b5 d5
    have hl : l = x.frm :=
      RaftProps.C02.C02_cluster_election_safety cfg H.ne H.nd1 H.nd2 h H.hist H.fix sm s0
        (mem_of_get d2) (mem_of_get h2) l x.frm x.term ⟨stl, d3, d4, d5⟩ ⟨st0, h3, h4, h5⟩
    subst hl
    exact ⟨n0, s0, st0, pr, a, h1, h2, h3, h4, h5, h6, p1, p2, a1, a2.1, a2.2, a3, hterm, a5,
      n1, s1, stj, b1, b2, b3, b4, b5, m, sm, stl, d1, d2, d3, d4, d5, d6, d7, d8⟩

/-! ## 4. non-vacuity (kernel-evaluated, `RaftProofs/ClusterFlow2X.lean`) -/

section Examples
open RaftProps.C02 RaftProps.C05 RaftModel.Cluster.Snap5

/-- **non-vacuity**: the 46-state history `fx_hist` — in which node 1 compacts its log, node 3 is
brought up to date by a `MsgSnapshot`, node 2 calls `request_snapshot` and restores the snapshot it is
served (`Snap5.rx_hist`, `C01j_request_snapshot_nonvacuous`), and the leader then pings, sends, is asked
to transfer its leadership to node 2 and sends — satisfies `Snap5.Hyp3r` (voters `{1, 2, 3}`,
`c0 = 0`), and

* the transport of `h[33]` holds a `MsgAppend` of node 1 (term 1) for node 2 advertising commit index
  2, and an entry-carrying `MsgAppend` of node 1 advertising commit index 1;
* the transport of `h[43]` holds a `MsgHeartbeat` of node 1 (term 1) for node 2 advertising commit
  index `2 > c0`;
* a `MsgSnapshot` for node 2 is in the transport of the history (so `NoSnapNet` of C13c fails), and
  node 1's log is compacted (snapshot point 1) when it sends the heartbeat. -/
theorem C13_cluster_snapshot_nonvacuous :
    ∃ h : List Sys, Snap5.Hyp3r c02x_cfg 0 h ∧
      (∃ (s : Sys) (x y : Message), h[33]? = some s ∧ x ∈ s.net ∧ x.msgType = .msgAppend ∧
        x.frm = 1 ∧ x.to = 2 ∧ x.term = 1 ∧ x.commit = 2 ∧
        y ∈ s.net ∧ y.msgType = .msgAppend ∧ y.entries ≠ [] ∧ y.frm = 1 ∧ y.commit = 1) ∧
      (∃ (s : Sys) (x : Message), h[43]? = some s ∧ x ∈ s.net ∧ x.msgType = .msgHeartbeat ∧
        x.frm = 1 ∧ x.to = 2 ∧ x.term = 1 ∧ x.commit = 2) ∧
      (∃ s ∈ h, ∃ x ∈ s.net, x.msgType = .msgSnapshot ∧ x.to = 2) ∧
      (∃ (s : Sys) (st : NState), h[43]? = some s ∧ s.node 1 = some st ∧
        st.raft.raftLog.abs.snapIdx = 1) := by
  obtain ⟨a1, a2, a3, a4, a5⟩ := fx_app_facts
  obtain ⟨b0, b1, b2, b3, b4⟩ := fx_app1_facts
  obtain ⟨e1, e2, e3, e4, e5⟩ := fx_hb_facts
  refine ⟨fx_hist, fx_hyp3r, ⟨sx_t11, rx_app, _, fx_s33, fx_app_mem, a1, a2, a3, a4, a5,
    b0, b1, b2, b3, b4⟩, ⟨fx_t2, fx_hb, fx_s43, fx_hb_mem, e1, e2, e3, e4, e5⟩, ?_,
    ⟨fx_t2, fx_a22, fx_s43, rfl, by decide⟩⟩
  refine ⟨rx_t8, ?_, rx_snap, ?_, by decide, by decide⟩
  · unfold fx_hist rx_hist rx_tail
    refine List.mem_append_left _ (List.mem_append_right _ ?_)
    simp
  · decide

/-- … and the theorems apply to it: the `MsgAppend` with commit index 2 in the transport of `h[33]`
was queued by node 1 as leader of term 1 with commit index `≥ 2`, -/
example : ∃ n0 s0 st0, n0 ≤ 33 ∧ fx_hist[n0]? = some s0 ∧ s0.node rx_app.frm = some st0 ∧
    st0.raft.state = .leader ∧ st0.raft.term = rx_app.term ∧
    rx_app.commit ≤ st0.raft.raftLog.committed :=
  C13_cluster_advertised_commit_le c02x_cfg 0 fx_hist fx_hyp3r 33 sx_t11 fx_s33 rx_app
    (.inl fx_app_mem) (.inl fx_app_facts.1)

/-- and the heartbeat in the transport of `h[43]` (commit index 2): node 1 held `matched ≥ 2` for
node 2, and — `commit ≠ 0` — an acknowledgement of node 2 with index `≥ 2` was in the transport. -/
example : ∃ n0 s0 stL pr, n0 ≤ 43 ∧ fx_hist[n0]? = some s0 ∧ s0.node fx_hb.frm = some stL ∧
      stL.raft.state = .leader ∧ stL.raft.term = fx_hb.term ∧
      fx_hb.commit ≤ stL.raft.raftLog.committed ∧
      stL.raft.prs.get fx_hb.to = some pr ∧ fx_hb.commit ≤ pr.matched ∧
      ∃ a ∈ s0.net, a.msgType = .msgAppendResponse ∧ a.reject = false ∧
        a.frm = fx_hb.to ∧ (a.term = fx_hb.term ∨ a.term = 0) ∧ fx_hb.commit ≤ a.index := by
  obtain ⟨n0, s0, stL, pr, h1, h2, h3, h4, h5, h6, h7, h8, h9⟩ :=
    C13_cluster_heartbeat_commit_le_matched c02x_cfg 0 fx_hist fx_hyp3r 43 fx_t2 fx_s43 fx_hb
      (.inl fx_hb_mem) fx_hb_facts.1
  refine ⟨n0, s0, stL, pr, h1, h2, h3, h4, h5, h6, h7, h8, ?_⟩
  rcases h9 with c | c
  · have := fx_hb_facts.2.2.2.2
    omega
  · exact c

/-- and the non-trivial alternative of `C13_cluster_heartbeat_commit_acknowledged` for that heartbeat
(commit index `2 > c0 = 0`): node 2's acknowledgement was in the transport, and when node 2 queued it
its (ghost) log agreed with the leader's up to the acknowledged index. -/
example : ∃ n0 s0 stL pr a, n0 ≤ 43 ∧ fx_hist[n0]? = some s0 ∧ s0.node fx_hb.frm = some stL ∧
      stL.raft.state = .leader ∧ stL.raft.term = fx_hb.term ∧
      fx_hb.commit ≤ stL.raft.raftLog.committed ∧
      stL.raft.prs.get fx_hb.to = some pr ∧ fx_hb.commit ≤ pr.matched ∧
      a ∈ s0.net ∧ a.msgType = .msgAppendResponse ∧ a.reject = false ∧ a.frm = fx_hb.to ∧
      a.term = fx_hb.term ∧ fx_hb.commit ≤ a.index ∧
      ∃ n1 s1 stj, n1 ≤ n0 ∧ fx_hist[n1]? = some s1 ∧ s1.node fx_hb.to = some stj ∧
        a ∈ stj.raft.msgs ∧ stj.raft.term = fx_hb.term ∧
        ∃ m sm stl, m ≤ n1 ∧ fx_hist[m]? = some sm ∧ sm.node fx_hb.frm = some stl ∧
          stl.raft.state = .leader ∧ stl.raft.term = fx_hb.term ∧
          a.index ≤ stl.raft.raftLog.lastIndex ∧
          (∀ k, k ≤ a.index →
            (Snap.FL fx_hist 0 stj).entryAt k = (Snap.FL fx_hist 0 stl).entryAt k) ∧
          (∀ k, k ≤ a.index → stj.raft.raftLog.abs.snapIdx < k →
            stl.raft.raftLog.abs.snapIdx < k →
            stj.raft.raftLog.abs.entryAt k = stl.raft.raftLog.abs.entryAt k) := by
  rcases C13_cluster_heartbeat_commit_acknowledged c02x_cfg 0 fx_hist fx_hyp3r 43 fx_t2 fx_s43
    fx_hb (.inl fx_hb_mem) fx_hb_facts.1 with c | c
  · have := fx_hb_facts.2.2.2.2
    omega
  · exact c

end Examples

end RaftProps.C13d
