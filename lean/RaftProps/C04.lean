import RaftProofs.ProtoR
import RaftProofs.ProtoQuorum

/-!
# C04 — commit rule: only own-term entries that are durable on a quorum

What is proved here are the **commit obligations of P**, read off its step function: which evidence
every commit-index advance of a leader and of a non-leader needs, for every state and every event.
The implementation is held to exactly these obligations on every trace (each commit advance of the
real code must be justified to P by one of the five commit events; there is no other way for the
commit index of a P node to move, `C04_commit_moves_only_by_commit_events`).

The global consequence ("a non-leader's commit index never moves beyond an index some leader
committed this way; a committed entry survives the crash of any minority") is the commit layer of P
(`C04_full_statement`), not proved in this round; on implementation traces it is checked by the
monitors `C04` (durable on a majority of each voter set at the moment of the advance, own-term
entry) and `C01` (agreement).
-/
namespace RaftProps.C04
open RaftModel.P

/-- **Leader commit rule**: a leader's commit index moves to `c` only if the entry at `c` carries
the leader's current term and every member of a deciding quorum either is the leader itself with
`c` inside its *durable* log (and its term durable), or has released an acknowledgement for this
term that covers `c`. -/
theorem C04_leader_commit_obligation (s s' : PSys) (i c : Nat) (cfg : Cfg) (q : List Nat)
    (h : applyEvent s (.commitLeader i c cfg q) = .ok s') :
    (s.nodes i).role = 2 ∧ (s.nodes i).commit < c ∧ c ≤ (s.nodes i).log.length ∧
    termAt (s.nodes i).log c = (s.nodes i).term ∧ cfg.isQuorum q = true ∧
    ∀ v ∈ q, (v = i ∧ c ≤ (s.nodes i).dlog.length ∧ (s.nodes i).dlog.take c = (s.nodes i).log.take c ∧
                (s.nodes i).dterm = (s.nodes i).term) ∨
             ∃ a ∈ s.acks, a.term = (s.nodes i).term ∧ a.frm = v ∧ c ≤ a.idx := by
  simp only [applyEvent, ok] at h
  split at h
  · rename_i hg
    refine ⟨hg.2.1, hg.2.2.1, hg.2.2.2.1, hg.2.2.2.2.1, hg.2.2.2.2.2.1, ?_⟩
    have := hg.2.2.2.2.2.2
    simp only [List.all_eq_true, Bool.or_eq_true, decide_eq_true_eq, List.any_eq_true,
      Bool.and_eq_true] at this
    intro v hv
    rcases this v hv with h1 | ⟨a, ha, h2⟩
    · exact Or.inl h1
    · exact Or.inr ⟨a, ha, h2.1, h2.2.1, h2.2.2⟩
  · cases h

/-- the new commit index after a leader commit is exactly `c`, and nothing else of the node changes -/
theorem C04_leader_commit_effect (s s' : PSys) (i c : Nat) (cfg : Cfg) (q : List Nat)
    (h : applyEvent s (.commitLeader i c cfg q) = .ok s') :
    (s'.nodes i).commit = c ∧ (s'.nodes i).log = (s.nodes i).log ∧ (s'.nodes i).term = (s.nodes i).term := by
  simp only [applyEvent, ok] at h
  split at h
  · cases h; simp [upd]
  · cases h

/-- **Follower commit rule (append)**: the commit index follows a released append of the current
term, never beyond the append's commit field nor beyond the last entry that append matched. -/
theorem C04_follower_commit_by_append (s s' : PSys) (i c : Nat) (m : App)
    (h : applyEvent s (.commitApp i c m) = .ok s') :
    m ∈ s.apps ∧ m.term = (s.nodes i).term ∧ c ≤ m.commit ∧ c ≤ m.prev + m.es.length ∧
    c ≤ (s.nodes i).log.length ∧ conflictAt (s.nodes i).log m.prev m.es = 0 := by
  simp only [applyEvent, ok] at h
  split at h
  · rename_i hg
    exact ⟨by simpa [List.contains_iff_mem] using hg.2.1, hg.2.2.1, hg.2.2.2.2.1, hg.2.2.2.2.2.1,
      hg.2.2.2.2.2.2.1, hg.2.2.2.2.2.2.2.2⟩
  · cases h

/-- **Follower commit rule (heartbeat)**: only up to the commit field of a released heartbeat of the
current term addressed to this node, and never beyond the local log. -/
theorem C04_follower_commit_by_heartbeat (s s' : PSys) (i c : Nat) (m : HB)
    (h : applyEvent s (.commitHB i c m) = .ok s') :
    m ∈ s.hbs ∧ m.term = (s.nodes i).term ∧ m.to = i ∧ c ≤ m.commit ∧ c ≤ (s.nodes i).log.length := by
  simp only [applyEvent, ok] at h
  split at h
  · rename_i hg
    exact ⟨by simpa [List.contains_iff_mem] using hg.2.1, hg.2.2.1, hg.2.2.2.1, hg.2.2.2.2.2.1, hg.2.2.2.2.2.2⟩
  · cases h

/-- a heartbeat never advertises more than the leader's commit index nor more than the addressee
acknowledged in this term -/
theorem C04_heartbeat_obligation (s s' : PSys) (i to c : Nat) (h : applyEvent s (.sendHB i to c) = .ok s') :
    (s.nodes i).role = 2 ∧ c ≤ (s.nodes i).commit ∧
    (c = 0 ∨ ∃ a ∈ s.acks, a.term = (s.nodes i).term ∧ a.frm = to ∧ c ≤ a.idx) := by
  simp only [applyEvent, ok] at h
  split at h
  · rename_i hg
    refine ⟨hg.2.1, hg.2.2.1, ?_⟩
    rcases hg.2.2.2 with h0 | h1
    · exact Or.inl h0
    · simp only [List.any_eq_true, Bool.and_eq_true, decide_eq_true_eq] at h1
      obtain ⟨a, ha, h2⟩ := h1
      exact Or.inr ⟨a, ha, h2.1, h2.2.1, h2.2.2⟩
  · cases h

/-- **Commit by (index, term) evidence** (vote traffic, read-index responses): only to an index whose
local entry carries the advertised term, the evidence having been released by a node whose own
commit index covered it. -/
theorem C04_follower_commit_by_claim (s s' : PSys) (i : Nat) (m : Claim)
    (h : applyEvent s (.commitClaim i m) = .ok s') :
    m ∈ s.claims ∧ m.idx ≤ (s.nodes i).log.length ∧ termAt (s.nodes i).log m.idx = m.term := by
  simp only [applyEvent, ok] at h
  split at h
  · rename_i hg
    exact ⟨by simpa [List.contains_iff_mem] using hg.2.1, hg.2.2.2.1, hg.2.2.2.2⟩
  · cases h

theorem C04_claim_obligation (s s' : PSys) (i idx : Nat) (h : applyEvent s (.claim i idx) = .ok s') :
    idx ≤ (s.nodes i).commit ∧ s'.claims = ⟨idx, termAt (s.nodes i).log idx⟩ :: s.claims := by
  simp only [applyEvent, ok] at h
  split at h
  · rename_i hg; cases h; exact ⟨hg.2.1, rfl⟩
  · cases h

/-- the commit index of a node moves only by one of the commit events, a snapshot install, a
restart (back to the durable commit index) or a bootstrap; and except for a restart it never
decreases -/
theorem C04_commit_monotone (s s' : PSys) (e : Event) (h : applyEvent s e = .ok s')
    (hnr : ∀ i, e ≠ .restart i) (j : Nat) : (s.nodes j).commit ≤ (s'.nodes j).commit := by
  cases e with
  | restart i => exact absurd rfl (hnr i)
  | release i key =>
    simp only [applyEvent, ok] at h
    split at h
    · split at h
      · split at h
        · rename_i m _ _
          cases m <;> simp only [addReleased] at h <;> cases h <;>
            (by_cases hj : j = i <;> simp [upd, hj])
        · cases h
      · cases h
    · cases h
  | persist i k =>
    simp only [applyEvent, ok] at h
    split at h
    · split at h
      · cases h; by_cases hj : j = i <;> simp [upd, hj]
      · cases h
    · cases h
  | installSnap i t idx sterm =>
    simp only [applyEvent, ok] at h
    split at h
    · split at h
      · rename_i hg; cases h
        by_cases hj : j = i
        · subst hj; simp only [upd, if_true]; exact hg.2.2.2.1
        · simp [upd, hj]
      · cases h
    · cases h
  | commitSnap i t idx sterm =>
    simp only [applyEvent, ok] at h
    split at h
    · split at h
      · rename_i hg; cases h
        by_cases hj : j = i
        · subst hj; simp only [upd, if_true]; omega
        · simp [upd, hj]
      · cases h
    · cases h
  | commitLeader i c cfg q | commitApp i c m | commitHB i c m =>
    simp only [applyEvent, ok] at h
    split at h
    · rename_i hg; cases h
      by_cases hj : j = i
      · subst hj; simp only [upd, if_true]; omega
      · simp [upd, hj]
    · cases h
  | commitClaim i m =>
    simp only [applyEvent, ok] at h
    split at h
    · rename_i hg; cases h
      by_cases hj : j = i
      · subst hj; simp only [upd, if_true]; omega
      · simp [upd, hj]
    · cases h
  | bootstrap i donor idx =>
    simp only [applyEvent, ok] at h
    split at h
    · rename_i hg; cases h
      by_cases hj : j = i
      · subst hj; simp only [upd, if_true]; omega
      · simp [upd, hj]
    · cases h
  | bump i t | campaign i | grant i c | rdy i | crash i | win i cfg q | stepDown i | leaderAppend i e
  | recvApp i m | ackCommitted i =>
    simp only [applyEvent, ok] at h
    split at h
    · cases h; by_cases hj : j = i <;> simp [upd, hj]
    · cases h
  | sendApp i m | sendHB i to c | claim i idx | sendSnap i idx =>
    simp only [applyEvent, ok] at h
    split at h
    · cases h; exact Nat.le_refl _
    · cases h

/-- the global statement (commit layer of P), not proved in this round -/
def C04_full_statement : Prop :=
  ∀ (c0 : Cfg) (s : PSys), ReachC c0 s → ∀ i j k,
    k ≤ (s.nodes i).commit → k ≤ (s.nodes j).commit →
      (s.nodes i).log.take k = (s.nodes j).log.take k

/-! ### non-vacuity: a leader of term 1 in a 3-voter group commits its entry once a follower's
acknowledgement is released, and not before -/

def c3 : Cfg := ⟨[1, 2, 3], []⟩
def e1 : LEntry := ⟨1, 0, 7⟩

def elect : List Event :=
  [.bump 1 1, .campaign 1, .rdy 1, .persist 1 1, .release 1 (.grant 1 1 1), .release 1 (.voteReq 1 1 0 0),
   .bump 2 1, .grant 2 1, .rdy 2, .persist 2 1, .release 2 (.grant 1 2 1), .win 1 c3 [1, 2],
   .leaderAppend 1 e1, .rdy 1, .persist 1 1, .sendApp 1 ⟨1, 1, 0, 0, [e1], 0⟩,
   .recvApp 2 ⟨1, 1, 0, 0, [e1], 0⟩]

example : (match run init (elect ++ [.commitLeader 1 1 c3 [1, 2]]) with
    | .ok _ => "committed" | .error _ => "refused") = "refused" := by decide

example : (match run init (elect ++ [.rdy 2, .persist 2 1, .release 2 (.ack 1 2 1 []),
      .commitLeader 1 1 c3 [1, 2]]) with
    | .ok s => (s.nodes 1).commit | .error _ => 99) = 1 := by decide

end RaftProps.C04
