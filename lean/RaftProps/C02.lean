import RaftProofs.ProtoVStep
import RaftProofs.ProtoQuorum

/-!
# C02 — election safety: at most one leader per term

Theorems about the abstract protocol P (`RaftModel/Proto.lean`), for **every** reachable state of
**every** history of P — the voter configuration in force is part of each `win` event and may differ
from election to election (simple and joint membership changes): any number of nodes, any interleaving, any loss / duplication / delay / reordering of messages (the
released-message sets are monotone and a receiver may consume any element any number of times), any
crash point and restart (volatile state := durable image), pre-vote / check-quorum / priority /
transfer on or off (they only *restrict* when the implementation takes a `grant` or `campaign`
step, and P allows all of them).

The tie to the code: every implementation history produced by the cluster harness is checked, event
by event, to be a history of P (`applyEvent` accepts every event; the P state equals the node's
view after every call).

Membership changes: P does not derive a node's configuration from its log (that is the component
theorem C09/C12); it takes the configuration from the event and demands of every `win` that all
elections of the same term so far were decided under configurations whose quorums meet the winner's
(`adjOk`: equal configurations, or one membership-change step apart — a decidable check proved to
imply quorum intersection, `adj_intersect`).  The implementation has to meet that demand on every
trace; the monitor "one effective leader per term" checks the conclusion directly as well.
-/
namespace RaftProps.C02
open RaftModel.P

/-- **One vote per (term, voter), ever**: across crashes and restarts, every node's released grants
name at most one candidate per term. -/
theorem C02_one_vote_per_term_ever (s : PSys) (hr : Reach s)
    (g1 g2 : Grant) (h1 : g1 ∈ s.grants) (h2 : g2 ∈ s.grants)
    (ht : g1.term = g2.term) (hv : g1.voter = g2.voter) : g1.cand = g2.cand := by
  have I := invV_reachR s hr
  exact I.gc g1.voter g1 g2 (Or.inr ⟨h1, rfl⟩) (Or.inr ⟨h2, hv.symm⟩) ht

/-- every election that ever happened was decided by a quorum — of the configuration recorded for it —
of released grants -/
theorem C02_elected_by_quorum (s : PSys) (hr : Reach s) (t l : Nat)
    (h : (t, l) ∈ s.elected) :
    ∃ cfg q, (t, cfg) ∈ s.ecfgs ∧ cfg.isQuorum q = true ∧ ∀ x ∈ q, (⟨t, x, l⟩ : Grant) ∈ s.grants :=
  ((invV_reachR s hr).el (t, l) h).2

/-- **Election safety**, for every history — the voter configuration may change from election to
election (joint and simple membership changes): `elected` records every election that ever
happened; no two distinct nodes are ever elected for the same term.  (Two elections of one term are
decided under configurations whose quorums meet — `win` demands it of the implementation — so they
share a voter, who votes once.) -/
theorem C02_election_safety (s : PSys) (hr : Reach s) (t a b : Nat)
    (ha : (t, a) ∈ s.elected) (hb : (t, b) ∈ s.elected) : a = b :=
  (invV_reachR s hr).eu (t, a) ha (t, b) hb rfl

/-- a node in the leader role was elected for its current term -/
theorem C02_leader_was_elected (s : PSys) (hr : Reach s) (i : Nat)
    (h : (s.nodes i).role = 2) : ((s.nodes i).term, i) ∈ s.elected :=
  ((invV_reachR s hr).ld i h).1

/-- **At most one leader per term** in every reachable state. -/
theorem C02_one_leader_per_term (s : PSys) (hr : Reach s) (i j : Nat)
    (hi : (s.nodes i).role = 2) (hj : (s.nodes j).role = 2)
    (ht : (s.nodes i).term = (s.nodes j).term) : i = j := by
  have h1 := C02_leader_was_elected s hr i hi
  have h2 := C02_leader_was_elected s hr j hj
  rw [ht] at h1
  exact C02_election_safety s hr _ i j h1 h2

/-- the statement of the earlier rounds (`C02_full_statement`: configurations changing while
elections run) is this theorem -/
theorem C02_full : ∀ (s : PSys), Reach s → ∀ t a b, (t, a) ∈ s.elected → (t, b) ∈ s.elected → a = b :=
  fun s hr t a b ha hb => C02_election_safety s hr t a b ha hb

/-- the local obligation behind it, read off the step function: a `win` step needs a candidate
that voted for itself, its own *released* (= durable) self-vote, and released grants from a quorum -/
theorem C02_win_obligation (s s' : PSys) (i : Nat) (cfg : Cfg) (q : List Nat)
    (h : applyEvent s (.win i cfg q) = .ok s') :
    (s.nodes i).up = true ∧ (s.nodes i).role = 1 ∧ (s.nodes i).vote = i ∧ cfg.isQuorum q = true ∧
    (⟨(s.nodes i).term, i, i⟩ : Grant) ∈ s.grants ∧
    ∀ x ∈ q, (⟨(s.nodes i).term, x, i⟩ : Grant) ∈ s.grants := by
  simp only [applyEvent, ok] at h
  split at h
  · rename_i hg
    refine ⟨hg.1, hg.2.1, hg.2.2.1, hg.2.2.2.1, ?_, ?_⟩
    · simpa [List.contains_iff_mem] using hg.2.2.2.2.1
    · have := hg.2.2.2.2.2.1
      simp only [List.all_eq_true, List.contains_iff_mem] at this
      exact this
  · cases h

/-- a vote is decided only for a released, up-to-date request of the voter's current term, and only
if the voter has not voted for someone else in that term -/
theorem C02_grant_obligation (s s' : PSys) (i c : Nat) (h : applyEvent s (.grant i c) = .ok s') :
    ((s.nodes i).vote = 0 ∨ (s.nodes i).vote = c) ∧
    ∃ r ∈ s.reqs, r.term = (s.nodes i).term ∧ r.cand = c ∧
      upToDate r.lastTerm r.lastIdx (s.nodes i).log = true := by
  simp only [applyEvent, ok] at h
  split at h
  · rename_i r hr
    split at h
    · rename_i hg
      have hp := List.find?_some hr
      simp only [decide_eq_true_eq] at hp
      exact ⟨hg.2.2.2.1, r, List.mem_of_find?_eq_some hr, hp.1, hp.2.1, hp.2.2⟩
    · cases h
  · cases h

/-! ### non-vacuity: a three-voter history with a crash in which node 1 is elected for term 1 -/

def c3 : Cfg := ⟨[1, 2, 3], []⟩

def history : List Event :=
  [.bump 1 1, .campaign 1, .rdy 1, .persist 1 1, .release 1 (.grant 1 1 1 {}), .release 1 (.voteReq 1 1 0 0),
   .bump 2 1, .grant 2 1, .rdy 2, .crash 3, .persist 2 1, .release 2 (.grant 1 2 1 {}), .restart 3,
   .win 1 c3 [1, 2]]

example : (match run init history with | .ok s => s.elected | .error _ => []) = [(1, 1)] := by decide

example : (match run init history with | .ok s => (s.nodes 1).role | .error _ => 0) = 2 := by decide

/-- a second candidate cannot win the same term: node 2 already granted node 1 -/
example : (match run init (history ++ [.bump 3 1, .campaign 3, .rdy 3, .persist 3 1,
    .release 3 (.grant 1 3 3 {}), .release 3 (.voteReq 1 3 0 0), .grant 2 3]) with
    | .ok _ => "accepted" | .error _ => "rejected") = "rejected" := by decide

end RaftProps.C02
