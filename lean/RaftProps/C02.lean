import RaftProofs.ProtoVStep
import RaftProofs.ProtoQuorum

/-!
# C02 — election safety: at most one leader per term

Theorems about the abstract protocol P (`RaftModel/Proto.lean`), for **every** reachable state of
every history of P under a fixed (possibly joint) voter configuration `c0` with at least one voter:
any number of nodes, any interleaving, any loss / duplication / delay / reordering of messages (the
released-message sets are monotone and a receiver may consume any element any number of times), any
crash point and restart (volatile state := durable image), pre-vote / check-quorum / priority /
transfer on or off (they only *restrict* when the implementation takes a `grant` or `campaign`
step, and P allows all of them).

The tie to the code: every implementation history produced by the cluster harness is checked, event
by event, to be a history of P (`applyEvent` accepts every event; the P state equals the node's
view after every call).

Membership changes: `C02_election_safety` is stated for histories whose elections are all decided
under one configuration (`ReachC c0`).  The statement with configurations changing during elections
is kept visible below as `C02_full_statement` and is *not* proved here (DESIGN.md §4.2): for those
histories the check relies on the per-step obligations of P validated on the implementation
traces and on the monitor "one effective leader per term".
-/
namespace RaftProps.C02
open RaftModel.P

/-- **One vote per (term, voter), ever**: across crashes and restarts, every node's released grants
name at most one candidate per term. -/
theorem C02_one_vote_per_term_ever (c0 : Cfg) (s : PSys) (hr : ReachC c0 s)
    (g1 g2 : Grant) (h1 : g1 ∈ s.grants) (h2 : g2 ∈ s.grants)
    (ht : g1.term = g2.term) (hv : g1.voter = g2.voter) : g1.cand = g2.cand := by
  have I := invV_reach c0 s hr
  exact I.gc g1.voter g1 g2 (Or.inr ⟨h1, rfl⟩) (Or.inr ⟨h2, hv.symm⟩) ht

/-- every election that ever happened was decided by a quorum of released grants -/
theorem C02_elected_by_quorum (c0 : Cfg) (s : PSys) (hr : ReachC c0 s) (t l : Nat)
    (h : (t, l) ∈ s.elected) :
    ∃ q, c0.isQuorum q = true ∧ ∀ x ∈ q, (⟨t, x, l⟩ : Grant) ∈ s.grants :=
  ((invV_reach c0 s hr).el (t, l) h).2

/-- **Election safety**: `elected` records every election that ever happened in the history;
no two distinct nodes are ever elected for the same term. -/
theorem C02_election_safety (c0 : Cfg) (hne : c0.incoming ≠ [] ∨ c0.outgoing ≠ [])
    (s : PSys) (hr : ReachC c0 s) (t a b : Nat)
    (ha : (t, a) ∈ s.elected) (hb : (t, b) ∈ s.elected) : a = b := by
  have I := invV_reach c0 s hr
  obtain ⟨_, qa, hqa, hga⟩ := I.el (t, a) ha
  obtain ⟨_, qb, hqb, hgb⟩ := I.el (t, b) hb
  obtain ⟨v, hva, hvb⟩ := Cfg.quorums_intersect c0 hne qa qb hqa hqb
  have h1 := hga v hva
  have h2 := hgb v hvb
  exact I.gc v ⟨t, v, a⟩ ⟨t, v, b⟩ (Or.inr ⟨h1, rfl⟩) (Or.inr ⟨h2, rfl⟩) rfl

/-- a node in the leader role was elected for its current term -/
theorem C02_leader_was_elected (c0 : Cfg) (s : PSys) (hr : ReachC c0 s) (i : Nat)
    (h : (s.nodes i).role = 2) : ((s.nodes i).term, i) ∈ s.elected :=
  ((invV_reach c0 s hr).ld i h).1

/-- **At most one leader per term** in every reachable state. -/
theorem C02_one_leader_per_term (c0 : Cfg) (hne : c0.incoming ≠ [] ∨ c0.outgoing ≠ [])
    (s : PSys) (hr : ReachC c0 s) (i j : Nat)
    (hi : (s.nodes i).role = 2) (hj : (s.nodes j).role = 2)
    (ht : (s.nodes i).term = (s.nodes j).term) : i = j := by
  have h1 := C02_leader_was_elected c0 s hr i hi
  have h2 := C02_leader_was_elected c0 s hr j hj
  rw [ht] at h1
  exact C02_election_safety c0 hne s hr _ i j h1 h2

/-- the local obligation behind it, read off the step function: a `win` step needs a candidate
that voted for itself, its own *released* (= durable) self-vote, and released grants from a quorum -/
theorem C02_win_obligation (s s' : PSys) (i : Nat) (cfg : Cfg) (q : List Nat)
    (h : applyEvent s (.win i cfg q) = .ok s') :
    (s.nodes i).up = true ∧ (s.nodes i).role = 1 ∧ (s.nodes i).vote = i ∧ cfg.isQuorum q = true ∧
    (⟨(s.nodes i).term, i, i⟩ : Grant) ∈ s.grants ∧
    ∀ x ∈ q, (⟨(s.nodes i).term, x, i⟩ : Grant) ∈ s.grants := by
  simp only [applyEvent, ok] at h
  split at h
  · rename_i hg
    refine ⟨hg.1, hg.2.1, hg.2.2.1, hg.2.2.2.1, ?_, ?_⟩
    · simpa [List.contains_iff_mem] using hg.2.2.2.2.1
    · have := hg.2.2.2.2.2.1
      simp only [List.all_eq_true, List.contains_iff_mem] at this
      exact this
  · cases h

/-- a vote is decided only for a released, up-to-date request of the voter's current term, and only
if the voter has not voted for someone else in that term -/
theorem C02_grant_obligation (s s' : PSys) (i c : Nat) (h : applyEvent s (.grant i c) = .ok s') :
    ((s.nodes i).vote = 0 ∨ (s.nodes i).vote = c) ∧
    ∃ r ∈ s.reqs, r.term = (s.nodes i).term ∧ r.cand = c ∧
      upToDate r.lastTerm r.lastIdx (s.nodes i).log = true := by
  simp only [applyEvent, ok] at h
  split at h
  · rename_i r hr
    split at h
    · rename_i hg
      have hp := List.find?_some hr
      simp only [decide_eq_true_eq] at hp
      exact ⟨hg.2.2.2.1, r, List.mem_of_find?_eq_some hr, hp.1, hp.2.1, hp.2.2⟩
    · cases h
  · cases h

/-- the statement with the voter set changing while elections run — not proved in this round -/
def C02_full_statement : Prop :=
  ∀ (s : PSys), Reach s → ∀ t a b, (t, a) ∈ s.elected → (t, b) ∈ s.elected → a = b

/-! ### non-vacuity: a three-voter history with a crash in which node 1 is elected for term 1 -/

def c3 : Cfg := ⟨[1, 2, 3], []⟩

def history : List Event :=
  [.bump 1 1, .campaign 1, .rdy 1, .persist 1 1, .release 1 (.grant 1 1 1 {}), .release 1 (.voteReq 1 1 0 0),
   .bump 2 1, .grant 2 1, .rdy 2, .crash 3, .persist 2 1, .release 2 (.grant 1 2 1 {}), .restart 3,
   .win 1 c3 [1, 2]]

example : (match run init history with | .ok s => s.elected | .error _ => []) = [(1, 1)] := by decide

example : (match run init history with | .ok s => (s.nodes 1).role | .error _ => 0) = 2 := by decide

/-- a second candidate cannot win the same term: node 2 already granted node 1 -/
example : (match run init (history ++ [.bump 3 1, .campaign 3, .rdy 3, .persist 3 1,
    .release 3 (.grant 1 3 3 {}), .release 3 (.voteReq 1 3 0 0), .grant 2 3]) with
    | .ok _ => "accepted" | .error _ => "rejected") = "rejected" := by decide

end RaftProps.C02
