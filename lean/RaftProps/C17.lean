import RaftProofs.RaftNodeC17

/-!
# C17 — leadership transfer hands off safely and never wedges the leader

Property text: *"A leader tells a transfer target to campaign immediately only once the target has
acknowledged the leader's entire log; while a transfer is pending the leader refuses proposals, and
it abandons the transfer after one election timeout or when the target leaves the voters.  A request
naming a learner or an unknown node is ignored and one naming the leader itself at most cancels a
pending transfer; when a transfer completes in a healthy cluster the target leads a higher term
holding every committed entry while the old leader follows it."*

Everything here is about the executable node model `RaftModel.Raft*` (a line-by-line model of
`src/raft.rs`, tied to the code by the `rn` correspondence) and holds for ALL states and ALL
messages unless a hypothesis is named.  Main theorems (helpers are in `RaftProofs.RaftNodeC17`):

1. `C17_timeout_now_only_when_caught_up` (`Raft::step`, every state and message),
   `C17_new_timeout_now_goes_to_caught_up_transferee`, `…_rawnode`,
   `C17_other_leader_messages_send_no_timeout_now`, `C17_append_response_timeout_now`;
2. `C17_proposals_refused_while_transferring` (+ `_step`);
3. `C17_transfer_aborted_after_election_timeout`, `C17_transfer_bounded_by_election_timeout`,
   `C17_no_transfer_after_election_timeout`;
4. `C17_transfer_request_ignored`, `C17_transfer_request_to_self` (+ `_cancels`),
   `C17_transfer_request_accepted`;
5. `C17_reset_clears_transfer`, `C17_role_change_clears_transfer`,
   `C17_pre_candidate_keeps_transferee`, and the invariant `C17_non_leader_has_no_pending_transfer`
   (+ `C17_new_has_no_pending_transfer`, `C17_only_transfer_request_sets_transferee`);
6. `C17_target_removed_aborts` (+ `_apply`), `C17_removed_leader_steps_down`,
   `C17_rejected_conf_change_keeps_transfer`;
7. `C17_timeout_now_forces_campaign`, `C17_non_promotable_ignores_timeout_now`,
   `C17_transfer_vote_bypasses_lease`, `C17_old_leader_steps_down_on_transfer_vote`;
8. non-vacuity `example`s at the end.

The last clause of the property (the target wins, holds every committed entry, the old leader
follows) is a cluster-level statement: on the node level it is carried by items 1 (the target has
the leader's whole log when told to campaign), 7 (it campaigns at `term + 1` with a real vote that
the lease cannot block; the old leader becomes a follower of that term on receiving the request)
and by the election-safety properties (C01/C02).
-/
namespace RaftProps.C17
open RaftModel RaftModel.Raft

/-- the `MsgTimeoutNow` the leader `r` sends to `x` (`send_timeout_now`, raft.rs:2908, after `send`
filled in the sender and the term) -/
def timeoutNowMsg (r : Raft) (x : Nat) : Message :=
  { msgType := .msgTimeoutNow, to := x, frm := r.id, term := r.term }

theorem sendTimeoutNow_eq (r r' : Raft) (x : Nat) (h : r.sendTimeoutNow x = .ok r') :
    r' = { r with msgs := r.msgs ++ [timeoutNowMsg r x] } := by
  unfold sendTimeoutNow at h
  rw [send_eq r r' _ h]
  simp [sendFill, newMessage, isVoteMsg, timeoutNowMsg]

theorem sendTimeoutNow_ok (r : Raft) (x : Nat) :
    r.sendTimeoutNow x = .ok { r with msgs := r.msgs ++ [timeoutNowMsg r x] } := by
  unfold sendTimeoutNow
  simp [send, sendFill, newMessage, isVoteMsg, timeoutNowMsg]

/-- the body of `handle_transfer_leader` after validation (raft.rs:1958-1986): start the transfer
to `x` from a state `r` with no transfer pending -/
def transferStart (r : Raft) (x : Nat) : Res Raft :=
  if x = r.id then .ok r
  else
    let r1 : Raft := { r with electionElapsed := 0, leadTransferee := some x }
    match r.prs.get x with
    | none => .panic "raft.handle_transfer_leader.unwrap"
    | some pr =>
      if pr.matched = r.raftLog.lastIndex then r1.sendTimeoutNow x
      else (r1.sendAppendPr x pr).bind (fun (r, pr) => .ok { r with prs := r.prs.set x pr })

theorem handleTransferLeader_eq (r : Raft) (m : Message) :
    r.handleTransferLeader m =
      match r.prs.get m.frm with
      | none => .ok r
      | some _ =>
        if r.prs.conf.learners.contains m.frm then .ok r
        else match r.leadTransferee with
          | some last => if last = m.frm then .ok r else transferStart r.abortLeaderTransfer m.frm
          | none => transferStart r m.frm := rfl

/-- "`r'` is `r` after a `MsgTimeoutNow` to `x` was queued": the queue gained exactly that one
`MsgTimeoutNow`, `x` is the pending transferee, and **in the resulting state the leader's progress
for `x` has `matched = last_index` of the leader's log** -/
def TimeoutNowSent (r r' : Raft) (x : Nat) : Prop :=
  ∃ pr, tnOf r'.msgs = tnOf r.msgs ++ [timeoutNowMsg r x] ∧ r'.leadTransferee = some x ∧
    r'.prs.get x = some pr ∧ pr.matched = r'.raftLog.lastIndex ∧
    r'.state = r.state ∧ r'.term = r.term ∧ r'.id = r.id

/-- the final check shared by both sites: queue a `MsgTimeoutNow` from a state `r2` that differs
from `r` only outside the frame -/
theorem sendTimeoutNow_sent (r r2 r' : Raft) (x : Nat) (pr : Progress) (hf : FrameT r r2)
    (hlt : r2.leadTransferee = some x) (hg : r2.prs.get x = some pr)
    (hm : pr.matched = r2.raftLog.lastIndex) (h : r2.sendTimeoutNow x = .ok r') :
    TimeoutNowSent r r' x := by
  rw [sendTimeoutNow_eq r2 r' x h]
  refine ⟨pr, ?_, hlt, hg, hm, hf.state, hf.term, hf.id⟩
  simp only [tnOf_append, hf.tn]
  rw [tnOf_single_eq _ rfl]
  simp [timeoutNowMsg, hf.id, hf.term]

theorem transferStart_tn (r0 r r' : Raft) (x : Nat) (hf : FrameT r0 { r with leadTransferee := r0.leadTransferee })
    (h : transferStart r x = .ok r') :
    tnOf r'.msgs = tnOf r0.msgs ∨ TimeoutNowSent r0 r' x := by
  have hf' : ∀ lt el, FrameT { r0 with leadTransferee := lt, electionElapsed := el }
      { r with leadTransferee := lt, electionElapsed := el } := by
    intro lt el
    have := hf
    simp only [FrameT, core, Core.mk.injEq] at this ⊢
    simp [this]
  unfold transferStart at h
  split at h
  · cases h; left; exact hf.tn
  · simp only at h
    split at h
    · cases h
    · rename_i pr hg
      split at h
      · rename_i hm
        right
        have := sendTimeoutNow_sent { r0 with leadTransferee := some x, electionElapsed := 0 }
          { r with electionElapsed := 0, leadTransferee := some x } r' x pr (hf' _ _) rfl hg hm h
        exact this
      · left
        have h1 := sendAppendPr_frameT { r with electionElapsed := 0, leadTransferee := some x } x pr
        cases hs : ({ r with electionElapsed := 0, leadTransferee := some x } : Raft).sendAppendPr x pr with
        | ok a =>
          rw [hs] at h h1
          simp only [Res.bind] at h
          cases h
          simp only [Res.Post] at h1
          have := (hf' (some x) 0).trans h1
          exact this.tn
        | err e => rw [hs] at h; cases h
        | panic s => rw [hs] at h; cases h

theorem handleTransferLeader_tn (r r' : Raft) (m : Message)
    (h : r.handleTransferLeader m = .ok r') :
    tnOf r'.msgs = tnOf r.msgs ∨ TimeoutNowSent r r' m.frm := by
  rw [handleTransferLeader_eq] at h
  split at h
  · cases h; exact Or.inl rfl
  · split at h
    · cases h; exact Or.inl rfl
    · split at h
      · split at h
        · cases h; exact Or.inl rfl
        · exact transferStart_tn r r.abortLeaderTransfer r' m.frm (FrameT.refl r) h
      · exact transferStart_tn r r r' m.frm (FrameT.refl r) h

theorem handleAppendResponseAccepted_tn (r : Raft) (m : Message) (pr : Progress) (op : Bool) :
    Res.Post (fun r' => tnOf r'.msgs = tnOf r.msgs ∨ TimeoutNowSent r r' m.frm)
      (r.handleAppendResponseAccepted m pr op) := by
  unfold handleAppendResponseAccepted
  apply Res.post_bind (P := fun _ => True)
  · split <;> try trivial
    split <;> trivial
  · intro pr1 _
    dsimp only
    have h0 : FrameT r { r with prs := r.prs.set m.frm pr1 } := set_frameT r m.frm pr1
    apply Res.post_bind (P := fun x => FrameT r x)
    · split
      · rename_i r1 heq
        have h1 : FrameT _ r1 := Res.Post.of_eq (P := fun x => FrameT _ x.1) (maybeCommit_frameT _) heq
        split
        · exact Res.post_mono (bcastAppend_frameT r1) (fun a ha => (h0.trans h1).trans ha)
        · exact h0.trans h1
      · rename_i r1 heq
        have h1 : FrameT _ r1 := Res.Post.of_eq (P := fun x => FrameT _ x.1) (maybeCommit_frameT _) heq
        split
        · exact Res.post_mono (sendAppend_frameT r1 m.frm) (fun a ha => (h0.trans h1).trans ha)
        · exact h0.trans h1
      · trivial
      · trivial
    · intro r1 h1
      apply Res.post_bind (P := fun x => FrameT r x)
      · exact Res.post_mono (sendAppendAggressively_frameT r1 m.frm) (fun a ha => h1.trans ha)
      · intro r2 h2
        split
        · rename_i hlt
          split
          · trivial
          · rename_i pr2 hg
            split
            · rename_i hm
              apply Res.post_intro
              intro r' h
              exact Or.inr (sendTimeoutNow_sent r r2 r' m.frm pr2 h2 hlt.symm hg hm h)
            · exact Or.inl h2.tn
        · exact Or.inl h2.tn

theorem handleAppendResponse_tn (r : Raft) (m : Message) :
    Res.Post (fun r' => tnOf r'.msgs = tnOf r.msgs ∨ TimeoutNowSent r r' m.frm)
      (r.handleAppendResponse m) := by
  unfold handleAppendResponse
  apply Res.post_bind (P := fun _ => True)
  · split
    · split <;> trivial
    · trivial
  · intro npi _
    split
    · exact Or.inl rfl
    · dsimp only
      split
      · split
        · trivial
        · trivial
        · exact Res.post_mono (sendAppend_frameT _ m.frm)
            (fun a ha => Or.inl ((set_frameT r m.frm _).trans ha).tn)
        · exact Or.inl (set_frameT r m.frm _).tn
      · split
        · trivial
        · trivial
        · exact Or.inl (set_frameT r m.frm _).tn
        · exact handleAppendResponseAccepted_tn r m _ _

/-- `step_leader` on a message that is neither `MsgTransferLeader` nor `MsgAppendResponse` never
queues a `MsgTimeoutNow` (by cases on the 19 message types). -/
theorem stepLeader_other_no_timeout_now (r : Raft) (m : Message)
    (h1 : m.msgType ≠ .msgTransferLeader) (h2 : m.msgType ≠ .msgAppendResponse) :
    Res.Post (fun x => tnOf x.1.msgs = tnOf r.msgs) (r.stepLeader m) := by
  unfold stepLeader
  split
  · -- MsgBeat
    exact Res.post_bind (bcastHeartbeat_frameT r) (fun a ha => ha.tn)
  · -- MsgCheckQuorum
    have hq := checkQuorumActive_frameT r
    split
    rename_i r1 active heq
    rw [heq] at hq
    split
    · simp only [Res.Post, becomeFollower_msgs]; exact hq.tn
    · exact hq.tn
  · -- MsgPropose
    split
    · trivial
    · split
      · exact rfl
      · split
        · exact rfl
        · have hf := filterProposal_frameT m.entries r 0
          split
          · rename_i r1 heq
            rw [heq] at hf; exact hf.tn
          · rename_i r1 es heq
            rw [heq] at hf
            split
            · rename_i r2 heq2
              exact (hf.trans (Res.Post.of_eq (P := fun x => FrameT r1 x.1) (appendEntry_frameT r1 es) heq2)).tn
            · rename_i r2 heq2
              have h3 : FrameT r1 r2 :=
                Res.Post.of_eq (P := fun x => FrameT r1 x.1) (appendEntry_frameT r1 es) heq2
              exact Res.post_bind (bcastAppend_frameT r2) (fun a ha => ((hf.trans h3).trans ha).tn)
            · trivial
            · trivial
  · -- MsgReadIndex
    have hans : ∀ r0 : Raft, FrameT r r0 → Res.Post (fun x => tnOf x.1.msgs = tnOf r.msgs)
        ((r0.handleReadyReadIndex m r0.raftLog.committed).bind (fun (r, om) =>
          match om with
          | some m' => (r.send m').bind (fun r => .ok (r, none))
          | none => .ok (r, (none : Option RaftError)))) := by
      intro r0 h0
      apply Res.post_bind (handleReadyReadIndex_frameT r0 m _)
      intro a ha
      obtain ⟨r1, om⟩ := a
      dsimp only at ha ⊢
      split
      · rename_i m'
        have hm : m'.msgType ≠ .msgTimeoutNow := by rw [ha.2 m' rfl]; decide
        exact Res.post_bind (send_frameT r1 m' hm) (fun x hx => ((h0.trans ha.1).trans hx).tn)
      · exact (h0.trans ha.1).tn
    split
    · trivial
    · trivial
    · exact rfl
    · dsimp only
      split
      · exact hans r (FrameT.refl r)
      · split
        · split
          · trivial
          · apply Res.post_bind (P := fun _ => True)
            · exact Res.post_intro (fun _ _ => trivial)
            · intro ro _
              exact Res.post_bind (bcastHeartbeatWithCtx_frameT _ _) (fun a ha =>
                (FrameT.trans (by simp [FrameT, core]) ha).tn)
        · exact hans r (FrameT.refl r)
  · exact absurd ‹_› h2
  · exact Res.post_bind (handleHeartbeatResponse_frameT r m) (fun a ha => ha.tn)
  · exact (handleSnapshotStatus_frameT r m).tn
  · exact (handleUnreachable_frameT r m).tn
  · exact absurd ‹_› h1
  · exact rfl

/-- `step_leader`, all 19 message types: a `MsgTimeoutNow` is queued only by `MsgTransferLeader`
and `MsgAppendResponse`, only to the sender named in the message, and only with
`matched = last_index`. -/
theorem stepLeader_tn (r : Raft) (m : Message) :
    Res.Post (fun x => tnOf x.1.msgs = tnOf r.msgs ∨
        ((m.msgType = .msgTransferLeader ∨ m.msgType = .msgAppendResponse) ∧
          TimeoutNowSent r x.1 m.frm)) (r.stepLeader m) := by
  by_cases h1 : m.msgType = .msgTransferLeader
  · unfold stepLeader
    simp only [h1]
    apply Res.post_bind (P := fun x => tnOf x.msgs = tnOf r.msgs ∨ TimeoutNowSent r x m.frm)
    · exact Res.post_intro (fun a ha => handleTransferLeader_tn r a m ha)
    · intro a ha
      rcases ha with ha | ha
      · exact Or.inl ha
      · exact Or.inr ⟨Or.inl trivial, ha⟩
  · by_cases h2 : m.msgType = .msgAppendResponse
    · unfold stepLeader
      simp only [h2]
      apply Res.post_bind (handleAppendResponse_tn r m)
      intro a ha
      rcases ha with ha | ha
      · exact Or.inl ha
      · exact Or.inr ⟨Or.inr trivial, ha⟩
    · exact Res.post_mono (stepLeader_other_no_timeout_now r m h1 h2) (fun a ha => Or.inl ha)

theorem becomeFollower_state (r : Raft) (t l : Nat) : (r.becomeFollower t l).state = .follower := rfl

theorem stepTerm_true (r r1 : Raft) (m : Message) (h : r.stepTerm m = .ok (r1, true)) :
    r1 = r ∨ r1.state = .follower := by
  unfold stepTerm at h
  split at h
  · cases h; exact Or.inl rfl
  · split at h
    · dsimp only at h
      split at h
      · cases h
      · split at h
        · cases h; exact Or.inl rfl
        · split at h <;> cases h <;> exact Or.inr rfl
    · split at h
      · split at h
        · split at h <;> cases h
        · split at h
          · split at h <;> cases h
          · cases h
      · cases h; exact Or.inl rfl

/-- **`Raft::step`, every state, every message.**  Stepping a message either leaves the
`MsgTimeoutNow` messages of the outgoing queue exactly as they were, or the node is (and stays) a
leader, the message is a `MsgTransferLeader` or a `MsgAppendResponse`, exactly one `MsgTimeoutNow`
was appended, it is addressed to the sender `m.from` of that message, that node is the pending
transferee, and in the resulting state its progress has `matched = last_index`. -/
theorem step_tn (r : Raft) (m : Message) :
    Res.Post (fun x => tnOf x.1.msgs = tnOf r.msgs ∨
        (r.state = .leader ∧ (m.msgType = .msgTransferLeader ∨ m.msgType = .msgAppendResponse) ∧
          TimeoutNowSent r x.1 m.frm)) (r.step m) := by
  unfold step
  split
  · trivial
  · trivial
  · rename_i r1 heq
    have ht : TN r r1 := Res.Post.of_eq (P := fun x => TN r x.1) (stepTerm_tn r m) heq
    exact Res.post_ok (Or.inl ht)
  · rename_i r1 heq
    have ht : TN r r1 := Res.Post.of_eq (P := fun x => TN r x.1) (stepTerm_tn r m) heq
    have hst := stepTerm_true r r1 m heq
    split
    · exact Res.post_bind (hup_tn r1 false) (fun a ha => Or.inl (ht.trans ha))
    · split
      · rename_i r2 hv
        exact Res.post_ok (Or.inl (ht.trans (Res.Post.of_eq (P := fun x => TN r1 x) (stepVote_tn r1 m) hv)))
      · trivial
      · trivial
    · split
      · rename_i r2 hv
        exact Res.post_ok (Or.inl (ht.trans (Res.Post.of_eq (P := fun x => TN r1 x) (stepVote_tn r1 m) hv)))
      · trivial
      · trivial
    · split
      · exact Res.post_mono (stepCandidate_tn r1 m) (fun a ha => Or.inl (ht.trans ha))
      · exact Res.post_mono (stepCandidate_tn r1 m) (fun a ha => Or.inl (ht.trans ha))
      · exact Res.post_mono (stepFollower_tn r1 m) (fun a ha => Or.inl (ht.trans ha))
      · rename_i hl
        rcases hst with hst | hst
        · subst hst
          exact Res.post_mono (stepLeader_tn r1 m) (fun a ha => by
            rcases ha with ha | ha
            · exact Or.inl ha
            · exact Or.inr ⟨hl, ha.1, ha.2⟩)
        · rw [hst] at hl; cases hl

/-! ## 1. `MsgTimeoutNow` only to a caught-up transferee -/

/-- **C17 `timeout_now_only_when_caught_up`** (property text: *"A leader tells a transfer target to
campaign immediately only once the target has acknowledged the leader's entire log"*; raft.rs
`handle_transfer_leader` 1974-1977 and `handle_append_response` 1851-1863).  For EVERY state and
EVERY message: if `Raft::step` succeeds, then either the `MsgTimeoutNow` messages in the outgoing
queue are exactly those that were there before, or
* the node was and remains a leader (same term), the message is a `MsgTransferLeader` or a
  `MsgAppendResponse`,
* exactly one `MsgTimeoutNow` was added (at the end), addressed to the sender `m.from`,
* `m.from` is the pending transferee of the resulting state, and
* in the resulting state the leader's `Progress` of `m.from` has `matched = last_index` of the
  leader's log.
Both sites are covered (`handle_transfer_leader`, where the resulting `prs` and log are those of the
pre-state, see `C17_transfer_request_accepted`; and `handle_append_response`), and no other handler
of `step`, in any role, produces a `MsgTimeoutNow`. -/
theorem C17_timeout_now_only_when_caught_up (r r' : Raft) (m : Message) (e : Option RaftError)
    (h : r.step m = .ok (r', e)) :
    tnOf r'.msgs = tnOf r.msgs ∨
    (r.state = .leader ∧ r'.state = .leader ∧ r'.term = r.term ∧
      (m.msgType = .msgTransferLeader ∨ m.msgType = .msgAppendResponse) ∧
      tnOf r'.msgs = tnOf r.msgs ++ [timeoutNowMsg r m.frm] ∧
      r'.leadTransferee = some m.frm ∧
      ∃ pr, r'.prs.get m.frm = some pr ∧ pr.matched = r'.raftLog.lastIndex) := by
  have := Res.Post.of_eq (step_tn r m) h
  rcases this with h1 | ⟨hl, hty, pr, h1, h2, h3, h4, h5, h6, _⟩
  · exact Or.inl h1
  · exact Or.inr ⟨hl, by rw [h5, hl], h6, hty, h1, h2, pr, h3, h4⟩

/-- the same, message by message: every `MsgTimeoutNow` that is in the queue after a step and was
not there before is addressed to the pending transferee, whose progress is fully caught up. -/
theorem C17_new_timeout_now_goes_to_caught_up_transferee (r r' : Raft) (m : Message)
    (e : Option RaftError) (h : r.step m = .ok (r', e)) (tm : Message) (hin : tm ∈ r'.msgs)
    (hty : tm.msgType = .msgTimeoutNow) (hnew : tm ∉ r.msgs) :
    r.state = .leader ∧ r'.leadTransferee = some tm.to ∧
      ∃ pr, r'.prs.get tm.to = some pr ∧ pr.matched = r'.raftLog.lastIndex := by
  have hin' : tm ∈ tnOf r'.msgs := by simp [tnOf, hin, hty]
  rcases C17_timeout_now_only_when_caught_up r r' m e h with h1 | ⟨hl, _, _, _, h1, h2, h3⟩
  · rw [h1] at hin'
    simp [tnOf] at hin'
    exact absurd hin'.1 hnew
  · rw [h1] at hin'
    simp only [List.mem_append, List.mem_singleton] at hin'
    rcases hin' with hin' | hin'
    · simp [tnOf] at hin'
      exact absurd hin'.1 hnew
    · have hto : tm.to = m.frm := by rw [hin']; rfl
      rw [hto]; exact ⟨hl, h2, h3⟩

/-- the `RawNode::step` entry point (raw_node.rs:415) inherits the theorem: its filter either
refuses the message without touching the node or calls `Raft::step`. -/
theorem C17_timeout_now_only_when_caught_up_rawnode (r r' : Raft) (m : Message)
    (e : Option RaftError) (h : RawNode.step r m = .ok (r', e)) :
    tnOf r'.msgs = tnOf r.msgs ∨
    (r.state = .leader ∧ r'.leadTransferee = some m.frm ∧
      tnOf r'.msgs = tnOf r.msgs ++ [timeoutNowMsg r m.frm] ∧
      ∃ pr, r'.prs.get m.frm = some pr ∧ pr.matched = r'.raftLog.lastIndex) := by
  unfold RawNode.step at h
  split at h
  · cases h; exact Or.inl rfl
  · split at h
    · rcases C17_timeout_now_only_when_caught_up r r' m e h with h1 | ⟨hl, _, _, _, h1, h2, h3⟩
      · exact Or.inl h1
      · exact Or.inr ⟨hl, h2, h1, h3⟩
    · cases h; exact Or.inl rfl

/-- (1c) per handler: `step_leader` on any message other than `MsgTransferLeader` /
`MsgAppendResponse` adds no `MsgTimeoutNow`. -/
theorem C17_other_leader_messages_send_no_timeout_now (r r' : Raft) (m : Message)
    (e : Option RaftError) (h1 : m.msgType ≠ .msgTransferLeader)
    (h2 : m.msgType ≠ .msgAppendResponse) (h : r.stepLeader m = .ok (r', e)) :
    tnOf r'.msgs = tnOf r.msgs :=
  Res.Post.of_eq (P := fun x => tnOf x.1.msgs = tnOf r.msgs)
    (stepLeader_other_no_timeout_now r m h1 h2) h

/-- (1b) per handler: `handle_append_response` sends `MsgTimeoutNow` only to the pending transferee
once its `matched` equals the leader's `last_index` (raft.rs:1851-1863). -/
theorem C17_append_response_timeout_now (r r' : Raft) (m : Message)
    (h : r.handleAppendResponse m = .ok r') :
    tnOf r'.msgs = tnOf r.msgs ∨ TimeoutNowSent r r' m.frm :=
  Res.Post.of_eq (P := fun r' => tnOf r'.msgs = tnOf r.msgs ∨ TimeoutNowSent r r' m.frm)
    (handleAppendResponse_tn r m) h

/-! ## 2. proposals are refused while a transfer is pending -/

/-- **C17 `proposals_refused_while_transferring`** (*"while a transfer is pending the leader refuses
proposals"*; raft.rs:2091-2099).  A leader with `lead_transferee ≠ None` answers every non-empty
`MsgPropose` with `ProposalDropped` and changes nothing: nothing is appended, nothing is sent.
(An empty `MsgPropose` is the `fatal!` of raft.rs:2078, before any other check; a leader that has
been removed from the configuration drops the proposal as well, for that reason.) -/
theorem C17_proposals_refused_while_transferring (r : Raft) (m : Message)
    (hm : m.msgType = .msgPropose) (hne : m.entries ≠ []) (ht : r.leadTransferee ≠ none) :
    r.stepLeader m = .ok (r, some .proposalDropped) := by
  unfold Raft.stepLeader
  simp only [hm]
  have h1 : m.entries.isEmpty = false := by
    cases hme : m.entries with
    | nil => exact absurd hme hne
    | cons _ _ => rfl
  have h3 : r.leadTransferee.isSome = true := by
    cases hlt : r.leadTransferee with
    | none => exact absurd hlt ht
    | some _ => rfl
  simp [h1, h3]

/-- … and through the entry point: a leader at the message's term (a local proposal has term 0)
with a pending transfer drops the proposal in `Raft::step` and is unchanged. -/
theorem C17_proposals_refused_while_transferring_step (r : Raft) (m : Message)
    (hs : r.state = .leader) (hm : m.msgType = .msgPropose) (hne : m.entries ≠ [])
    (hterm : m.term = 0) (ht : r.leadTransferee ≠ none) :
    r.step m = .ok (r, some .proposalDropped) := by
  have hst : r.stepTerm m = .ok (r, true) := by unfold Raft.stepTerm; simp [hterm]
  unfold Raft.step
  rw [hst]
  simp only [hm, hs]
  exact C17_proposals_refused_while_transferring r m hm hne ht

/-! ## 4. validation of a transfer request (`handle_transfer_leader`, raft.rs:1937-1986) -/

/-- **C17 `transfer_request_validation`, ignored requests** (*"A request naming a learner or an
unknown node is ignored"*).  A request naming a node without `Progress`, a learner, or the target of
the transfer already in progress changes nothing at all (no message, no timer reset). -/
theorem C17_transfer_request_ignored (r : Raft) (m : Message)
    (h : r.prs.get m.frm = none ∨ r.prs.conf.learners.contains m.frm = true ∨
         r.leadTransferee = some m.frm) :
    r.handleTransferLeader m = .ok r := by
  rw [handleTransferLeader_eq]
  split
  · rfl
  · rename_i hg
    split
    · rfl
    · rename_i hl
      rcases h with h | h | h
      · rw [h] at hg; cases hg
      · exact absurd h hl
      · rw [h]; simp

theorem transferStart_self (r0 : Raft) : transferStart r0 r0.id = .ok r0 := by
  unfold transferStart; simp

theorem transferStart_abort (r : Raft) (x : Nat) (h : x ≠ r.id) :
    transferStart r.abortLeaderTransfer x = transferStart r x := by
  unfold transferStart
  rw [if_neg (show ¬ x = r.abortLeaderTransfer.id from h), if_neg h]
  rfl

/-- **… request naming the leader itself** (*"one naming the leader itself at most cancels a pending
transfer"*; raft.rs:1952-1968).  The result is the unchanged state, or the state with
`lead_transferee` cleared and everything else unchanged (no message, no timer reset). -/
theorem C17_transfer_request_to_self (r : Raft) (m : Message) (hself : m.frm = r.id) :
    r.handleTransferLeader m = .ok r ∨
    r.handleTransferLeader m = .ok { r with leadTransferee := none } := by
  rw [handleTransferLeader_eq, hself]
  split
  · exact Or.inl rfl
  · split
    · exact Or.inl rfl
    · split
      · split
        · exact Or.inl rfl
        · exact Or.inr (transferStart_self r.abortLeaderTransfer)
      · exact Or.inl (transferStart_self r)

/-- … and it does cancel it: when the leader is a tracked non-learner and a transfer to another
node is pending, the request naming the leader clears it (this is how an application aborts a
transfer by hand). -/
theorem C17_transfer_request_to_self_cancels (r : Raft) (m : Message) (pr : Progress) (y : Nat)
    (hself : m.frm = r.id) (hg : r.prs.get r.id = some pr)
    (hl : r.prs.conf.learners.contains r.id = false) (hp : r.leadTransferee = some y)
    (hy : y ≠ r.id) :
    r.handleTransferLeader m = .ok { r with leadTransferee := none } := by
  rw [handleTransferLeader_eq, hself, hg]
  simp only [hl, hp, hy, Bool.false_eq_true, ↓reduceIte]
  exact transferStart_self r.abortLeaderTransfer

/-- **… accepted request** (a voter or outgoing voter other than the leader, not already the
target; *"a request for a different target replaces the pending one"*, raft.rs:1952-1986).  Whatever
transfer was pending before is replaced: the target becomes the transferee and the election timer
restarts, so the transfer gets a full election timeout.  If the target is already caught up
(`matched = last_index`) the result is exactly the old state with these two fields set and one
`MsgTimeoutNow` to the target appended — `prs` and the log are those of the pre-state, so the
`matched = last_index` test is about the pre-state and the post-state alike; otherwise no
`MsgTimeoutNow` is sent (an append is, to help the target catch up). -/
theorem C17_transfer_request_accepted (r r' : Raft) (m : Message) (pr : Progress)
    (hg : r.prs.get m.frm = some pr) (hl : r.prs.conf.learners.contains m.frm = false)
    (hself : m.frm ≠ r.id) (hnew : r.leadTransferee ≠ some m.frm)
    (h : r.handleTransferLeader m = .ok r') :
    r'.leadTransferee = some m.frm ∧ r'.electionElapsed = 0 ∧
    (pr.matched = r.raftLog.lastIndex →
      r' = { r with electionElapsed := 0, leadTransferee := some m.frm,
                    msgs := r.msgs ++ [timeoutNowMsg r m.frm] }) ∧
    (pr.matched ≠ r.raftLog.lastIndex → tnOf r'.msgs = tnOf r.msgs) := by
  have h' : transferStart r m.frm = .ok r' := by
    rw [handleTransferLeader_eq, hg] at h
    simp only [hl, Bool.false_eq_true, ↓reduceIte] at h
    split at h
    · rename_i last hlt
      have hne : last ≠ m.frm := by intro hc; apply hnew; rw [hlt, hc]
      simp only [hne, if_false] at h
      rw [transferStart_abort r m.frm hself] at h
      exact h
    · exact h
  unfold transferStart at h'
  rw [if_neg hself, hg] at h'
  dsimp only at h'
  split at h'
  · rename_i hm
    rw [sendTimeoutNow_ok] at h'
    cases h'
    exact ⟨rfl, rfl, fun _ => rfl, fun hc => absurd hm hc⟩
  · rename_i hm
    have h1 := sendAppendPr_frameT { r with electionElapsed := 0, leadTransferee := some m.frm } m.frm pr
    cases hs : ({ r with electionElapsed := 0, leadTransferee := some m.frm } : Raft).sendAppendPr m.frm pr with
    | ok a =>
      rw [hs] at h' h1
      simp only [Res.bind] at h'
      cases h'
      simp only [Res.Post] at h1
      exact ⟨h1.leadTransferee, h1.electionElapsed, fun hc => absurd hc hm, fun _ => h1.tn⟩
    | err e => rw [hs] at h'; cases h'
    | panic s => rw [hs] at h'; cases h'

/-- the four cases are exhaustive and through `step_leader` the request never fails with an error:
it is a leader-local decision (raft.rs:2232). -/
theorem C17_transfer_request_step_leader (r : Raft) (m : Message)
    (hm : m.msgType = .msgTransferLeader) :
    r.stepLeader m = (r.handleTransferLeader m).bind (fun r => .ok (r, none)) := by
  unfold Raft.stepLeader; simp only [hm]

/-! ## 5. every role change clears the transfer -/

/-- **C17 `reset_clears_transfer`** (raft.rs:1018 `abort_leader_transfer` inside `reset`). -/
theorem C17_reset_clears_transfer (r : Raft) (t : Nat) : (r.reset t).leadTransferee = none :=
  reset_leadTransferee r t

/-- `become_follower`, `become_candidate` and `become_leader` all go through `reset`: after any of
them no transfer is pending (in particular a freshly elected leader — the transfer target — starts
without one, and a leader that steps down forgets the one it had). -/
theorem C17_role_change_clears_transfer (r : Raft) :
    (∀ t l, (r.becomeFollower t l).leadTransferee = none) ∧
    (∀ r', r.becomeCandidate = .ok r' → r'.leadTransferee = none) ∧
    (∀ r', r.becomeLeader = .ok r' → r'.leadTransferee = none) := by
  refine ⟨fun t l => ?_, fun r' h => ?_, fun r' h => ?_⟩
  · unfold becomeFollower; exact reset_leadTransferee r t
  · unfold becomeCandidate at h
    split at h
    · cases h
    · split at h
      · cases h
      · cases h; exact reset_leadTransferee r (r.term + 1)
  · unfold becomeLeader at h
    split at h
    · cases h
    · dsimp only at h
      split at h
      · cases h
      · split at h
        · cases h
        · split at h
          · rename_i r1 heq
            cases h
            have h1 := Res.Post.of_eq (P := fun x => FrameT _ x.1) (appendEntry_frameT _ _) heq
            exact h1.leadTransferee.trans (reset_leadTransferee r r.term)
          · cases h
          · cases h
          · cases h

/-- `become_pre_candidate` is the one role change that does NOT call `reset` (raft.rs:1203-1215: it
"doesn't change anything else"); it keeps `lead_transferee` as it is, and it is never reached from
the leader role (`become_pre_candidate` from `Leader` is the panic of raft.rs:1204). -/
theorem C17_pre_candidate_keeps_transferee (r r' : Raft) (h : r.becomePreCandidate = .ok r') :
    r.state ≠ .leader ∧ r'.leadTransferee = r.leadTransferee := by
  unfold becomePreCandidate at h
  split at h
  · cases h
  · rename_i hs; cases h; exact ⟨hs, rfl⟩

/-! ## 6. the target leaves the voters -/

/-- **C17 `target_removed_aborts`** (*"it abandons the transfer … when the target leaves the
voters"*; `post_conf_change`, raft.rs:2776-2781).  On a leader that is itself still a voter (of
either half of a joint configuration) in a configuration with at least one incoming voter, after
`post_conf_change` the pending transferee, if any, is a voter of the current configuration:
a transferee that is in neither `incoming` nor `outgoing` has been dropped, one that still is a
voter is kept.  The configuration itself is not touched by `post_conf_change`.

The two hypotheses are the two early returns of the Rust function, which come BEFORE the abort: a
leader that has just been removed or demoted (raft.rs:2753-2758) and a node with no incoming voter
return at once and keep `lead_transferee` (see `C17_removed_leader_keeps_transferee`). -/
theorem C17_target_removed_aborts (r r' : Raft) (cs : ConfState)
    (hs : r.state = .leader) (hv : Joint.contains r.prs.voters r.id = true)
    (hi : r.prs.conf.incoming ≠ []) (h : r.postConfChange = .ok (r', cs)) :
    r'.prs.conf = r.prs.conf ∧
    (∀ e, r.leadTransferee = some e → Joint.contains r.prs.voters e = false →
      r'.leadTransferee = none) ∧
    (∀ e, r.leadTransferee = some e → Joint.contains r.prs.voters e = true →
      r'.leadTransferee = some e) ∧
    (r.leadTransferee = none → r'.leadTransferee = none) := by
  rcases Res.Post.of_eq (postConfChange_spec r) h with ⟨_, hc, _⟩ | ⟨hc, _⟩ | ⟨r2, hf, _, _, _, hc⟩
  · rw [hv] at hc; cases hc
  · rcases hc with hc | hc
    · exact absurd hs hc
    · exact absurd hc hi
  · have hconf : r2.prs.conf = r.prs.conf := hf.conf
    have hlt : r2.leadTransferee = r.leadTransferee := hf.leadTransferee
    have hvoters : r2.prs.voters = r.prs.voters := by
      simp [ProgressTracker.voters, hconf]
    dsimp only at hc
    rw [hc]
    refine ⟨?_, ?_, ?_, ?_⟩
    · split
      · split <;> exact hconf
      · exact hconf
    · intro e he hne
      rw [hlt, he]
      simp [hvoters, hne, abortLeaderTransfer]
    · intro e he hin
      rw [hlt, he]
      simp [hvoters, hin, hlt, he]
    · intro hn
      rw [hlt, hn]
      simp [hlt, hn]

/-- the same through `apply_conf_change` (raft.rs:2834): when the applied change takes the pending
transferee out of the voters of the NEW configuration (and the leader stays a voter), the transfer
is aborted; when the change is rejected nothing changes. -/
theorem C17_target_removed_aborts_apply (r r' : Raft) (cc : ConfChangeV2) (cs : ConfState) (e : Nat)
    (hs : r.state = .leader) (h : r.applyConfChange cc = .ok (r', .ok cs))
    (hv : Joint.contains r'.prs.voters r.id = true) (hi : r'.prs.conf.incoming ≠ [])
    (ht : r.leadTransferee = some e) (hgone : Joint.contains r'.prs.voters e = false) :
    r'.leadTransferee = none := by
  unfold applyConfChange at h
  dsimp only at h
  split at h
  · cases h
  · rename_i cfg changes _
    cases hp : ({ r with prs := r.prs.applyConf cfg changes r.raftLog.lastIndex } : Raft).postConfChange with
    | ok a =>
      rw [hp] at h
      simp only [Res.bind] at h
      obtain ⟨r1, cs1⟩ := a
      simp only [Res.ok.injEq, Prod.mk.injEq] at h
      obtain ⟨h1, _⟩ := h
      subst h1
      have hconf : r1.prs.conf = (r.prs.applyConf cfg changes r.raftLog.lastIndex).conf := by
        exact Res.Post.of_eq (P := fun x => x.1.prs.conf = _) (postConfChange_conf _) hp
      have hvot : r1.prs.voters = (r.prs.applyConf cfg changes r.raftLog.lastIndex).voters := by
        simp [ProgressTracker.voters, hconf]
      rw [hvot] at hv hgone
      rw [hconf] at hi
      exact (C17_target_removed_aborts { r with prs := r.prs.applyConf cfg changes r.raftLog.lastIndex }
        r1 cs1 hs hv hi hp).2.1 e ht hgone
    | err e => rw [hp] at h; cases h
    | panic s => rw [hp] at h; cases h

theorem C17_rejected_conf_change_keeps_transfer (r r' : Raft) (cc : ConfChangeV2) (k : ErrKind)
    (h : r.applyConfChange cc = .ok (r', .error k)) : r' = r := by
  unfold applyConfChange at h
  dsimp only at h
  split at h
  · cases h; rfl
  · cases hp : Raft.postConfChange _ with
    | ok a => rw [hp] at h; simp [Res.bind] at h
    | err e => rw [hp] at h; cases h
    | panic s => rw [hp] at h; cases h

/-- **The leader itself leaves the voters** (raft.rs:2753-2770, fix F14).  The early return for a
removed / demoted leader comes before the transferee check, but the leader steps down there
(`become_follower` at its own term), and `reset` clears the transfer: no transfer is pending
afterwards, whatever happened to the target, and the node is a follower.  (Before fix F14 this
early return left the node a leader with its `lead_transferee` intact: it kept refusing proposals
until the election-timeout abort.) -/
theorem C17_removed_leader_steps_down (r : Raft) (hs : r.state = .leader)
    (hv : Joint.contains r.prs.voters r.id = false) :
    ∃ r', r.postConfChange = .ok (r', r.prs.conf.toConfState) ∧
      r'.state = .follower ∧ r'.leadTransferee = none ∧ r'.term = r.term ∧ r'.msgs = r.msgs := by
  refine ⟨({ r with promotable := false } : Raft).becomeFollower r.term 0, ?_, rfl, ?_, ?_, ?_⟩
  · unfold postConfChange
    simp [hv, hs]
  · exact becomeFollower_leadTransferee _ _ _
  · exact (becomeFollower_term_vote _ _ _).1
  · exact becomeFollower_msgs _ _ _

/-! ## 3. the transfer is abandoned after one election timeout -/

theorem stepTerm_zero (r : Raft) (m : Message) (h : m.term = 0) : r.stepTerm m = .ok (r, true) := by
  unfold Raft.stepTerm; simp [h]

/-- the `MsgBeat` a leader steps on itself only sends heartbeats -/
theorem stepIgnore_beat_frameT (r : Raft) (hs : r.state = .leader) (frm : Option Nat) :
    Res.Post (fun x => FrameT r x) (r.stepIgnore (newMessage 0 .msgBeat frm)) := by
  unfold Raft.stepIgnore Raft.step
  rw [stepTerm_zero r _ rfl]
  simp only [newMessage, hs]
  unfold Raft.stepLeader
  simp only
  apply Res.post_bind (P := fun x => FrameT r x.1)
  · exact Res.post_bind (bcastHeartbeat_frameT r) (fun a ha => ha)
  · intro a ha; exact ha

/-- the `MsgCheckQuorum` a leader steps on itself: it steps down (`reset` clears the transfer) or
only the `recent_active` flags change -/
theorem stepIgnore_checkQuorum (r : Raft) (hs : r.state = .leader) (frm : Option Nat) :
    Res.Post (fun x => x.leadTransferee = none ∨ FrameT r x)
      (r.stepIgnore (newMessage 0 .msgCheckQuorum frm)) := by
  unfold Raft.stepIgnore Raft.step
  rw [stepTerm_zero r _ rfl]
  simp only [newMessage, hs]
  unfold Raft.stepLeader
  simp only
  have hq := checkQuorumActive_frameT r
  split
  · exact Res.post_ok (Or.inl (becomeFollower_leadTransferee _ _ _))
  · exact Res.post_ok (Or.inr hq)

theorem tickHeartbeat_spec (r : Raft) (hs : r.state = .leader) :
    Res.Post (fun x =>
      (r.electionTimeout ≤ r.electionElapsed + 1 → x.1.leadTransferee = none) ∧
      (r.electionElapsed + 1 < r.electionTimeout →
        x.1.leadTransferee = r.leadTransferee ∧ x.1.state = .leader ∧
        x.1.electionElapsed = r.electionElapsed + 1 ∧ x.1.electionTimeout = r.electionTimeout))
      r.tickHeartbeat := by
  unfold Raft.tickHeartbeat
  dsimp only
  by_cases hto : r.electionTimeout ≤ r.electionElapsed + 1
  · rw [if_pos hto]
    apply Res.post_bind (P := fun x => x.1.leadTransferee = none)
    · apply Res.post_bind (P := fun x => x.1.leadTransferee = none ∨ (x.1.state = .leader))
      · split
        · apply Res.post_bind (stepIgnore_checkQuorum
            { r with heartbeatElapsed := r.heartbeatElapsed + 1, electionElapsed := 0 } hs (some r.id))
          intro a ha
          rcases ha with ha | ha
          · exact Or.inl ha
          · exact Or.inr (ha.state.trans hs)
        · exact Res.post_ok (Or.inr hs)
      · intro a ha
        obtain ⟨r2, b⟩ := a
        dsimp only at ha ⊢
        split
        · exact Res.post_ok rfl
        · rename_i hc
          rcases ha with ha | ha
          · exact Res.post_ok ha
          · cases hl : r2.leadTransferee with
            | none => exact Res.post_ok hl
            | some e => exact absurd ⟨ha, by simp [hl]⟩ hc
    · intro a ha
      obtain ⟨r2, b⟩ := a
      dsimp only at ha ⊢
      have fin : ∀ x : Raft × Bool, x.1.leadTransferee = none →
          (r.electionTimeout ≤ r.electionElapsed + 1 → x.1.leadTransferee = none) ∧
          (r.electionElapsed + 1 < r.electionTimeout →
            x.1.leadTransferee = r.leadTransferee ∧ x.1.state = .leader ∧
            x.1.electionElapsed = r.electionElapsed + 1 ∧ x.1.electionTimeout = r.electionTimeout) :=
        fun x hx => ⟨fun _ => hx, fun hc => by omega⟩
      split
      · exact fin _ ha
      · rename_i hl
        have hl' : r2.state = .leader := by
          apply Classical.byContradiction; intro hc; exact hl hc
        split
        · apply Res.post_bind (stepIgnore_beat_frameT { r2 with heartbeatElapsed := 0 } hl' (some r2.id))
          intro c hc
          exact fin (c, true) (hc.leadTransferee.trans ha)
        · exact fin _ ha
  · rw [if_neg hto]
    simp only [Res.bind]
    have hlt : r.electionElapsed + 1 < r.electionTimeout := by omega
    rw [if_neg (by simp [hs])]
    split
    · apply Res.post_bind (stepIgnore_beat_frameT
        { r with heartbeatElapsed := 0, electionElapsed := r.electionElapsed + 1 } hs (some r.id))
      intro c hc
      exact ⟨fun h => absurd h hto, fun _ =>
        ⟨hc.leadTransferee, hc.state.trans hs, hc.electionElapsed, hc.electionTimeout⟩⟩
    · exact ⟨fun h => absurd h hto, fun _ => ⟨rfl, hs, rfl, rfl⟩⟩

/-- **C17 `transfer_aborted_after_election_timeout`** (*"it abandons the transfer after one
election timeout"*; `tick_heartbeat`, raft.rs:1122-1131).  The leader tick that makes
`election_elapsed` reach `election_timeout` leaves no transfer pending — whether the leader passes
its quorum check and runs `abort_leader_transfer`, or fails it and steps down (`reset`).  A leader
tick before that keeps the transfer, stays leader and counts one tick. -/
theorem C17_transfer_aborted_after_election_timeout (r r' : Raft) (b : Bool)
    (hs : r.state = .leader) (h : r.tick = .ok (r', b)) :
    (r.electionTimeout ≤ r.electionElapsed + 1 → r'.leadTransferee = none) ∧
    (r.electionElapsed + 1 < r.electionTimeout →
      r'.leadTransferee = r.leadTransferee ∧ r'.state = .leader ∧
      r'.electionElapsed = r.electionElapsed + 1 ∧ r'.electionTimeout = r.electionTimeout) := by
  have ht : r.tick = r.tickHeartbeat := by unfold Raft.tick; rw [hs]
  rw [ht] at h
  have := Res.Post.of_eq (tickHeartbeat_spec r hs) h
  exact this

/-- `n` consecutive ticks -/
def ticks : Nat → Raft → Res Raft
  | 0, r => .ok r
  | n + 1, r => r.tick.bind (fun x => ticks n x.1)

/-- **counting corollary**: a leader whose election timer shows `election_elapsed` drops any
pending transfer within the next `election_timeout - election_elapsed` ticks.  Since an accepted
transfer request resets `election_elapsed` to 0 (`C17_transfer_request_accepted`), a pending
transfer never survives more than `election_timeout` leader ticks. -/
theorem C17_transfer_bounded_by_election_timeout : ∀ (n : Nat) (r r' : Raft),
    r.state = .leader → 0 < n → r.electionTimeout ≤ r.electionElapsed + n →
    ticks n r = .ok r' →
    ∃ k rk, 0 < k ∧ k ≤ n ∧ ticks k r = .ok rk ∧ rk.leadTransferee = none := by
  intro n
  induction n with
  | zero => intro r r' _ h; omega
  | succ n ih =>
    intro r r' hs _ hto h
    simp only [ticks] at h
    cases ht : r.tick with
    | ok a =>
      obtain ⟨r1, b⟩ := a
      rw [ht] at h
      simp only [Res.bind] at h
      have hspec := C17_transfer_aborted_after_election_timeout r r1 b hs ht
      by_cases hnow : r.electionTimeout ≤ r.electionElapsed + 1
      · refine ⟨1, r1, by omega, by omega, ?_, hspec.1 hnow⟩
        simp [ticks, ht, Res.bind]
      · obtain ⟨h1, h2, h3, h4⟩ := hspec.2 (by omega)
        obtain ⟨k, rk, hk0, hkn, hk, hnone⟩ := ih r1 r' h2 (by omega) (by omega) h
        refine ⟨k + 1, rk, by omega, by omega, ?_, hnone⟩
        simp only [ticks, ht, Res.bind]
        exact hk
    | err e => rw [ht] at h; cases h
    | panic s => rw [ht] at h; cases h

/-! ## 7. `MsgTimeoutNow` forces a real, lease-bypassing campaign on the target -/

theorem reset_fields (r : Raft) (t : Nat) :
    (r.reset t).id = r.id ∧ (r.reset t).raftLog = r.raftLog ∧ (r.reset t).priority = r.priority ∧
    (r.reset t).state = r.state ∧ (r.reset t).prs.conf = r.prs.conf ∧ (r.reset t).prs.votes = [] := by
  unfold reset
  simp only [mapProgress, abortLeaderTransfer, resetRandomizedElectionTimeout,
    ProgressTracker.resetVotes]
  split <;> simp

/-- the vote request a transfer target sends (raft.rs:1303-1332 with `CAMPAIGN_TRANSFER`) -/
def transferVoteReq (r : Raft) (term c ct lt to : Nat) : Message :=
  { msgType := .msgRequestVote, to := to, frm := r.id, term := term,
    index := r.raftLog.lastIndex, logTerm := lt, commit := c, commitTerm := ct,
    context := campaignTransfer,
    deprecatedPriority := if r.priority > 0 then r.priority.toNat else 0, priority := r.priority }

/-- one iteration of the vote-request loop of `campaign` -/
def voteStep (term c ct lt : Nat) (acc : Res Raft) (id : Nat) : Res Raft :=
  acc.bind (fun r =>
    if id = r.id then .ok r
    else r.send { msgType := .msgRequestVote, to := id, term := term,
                  index := r.raftLog.lastIndex, logTerm := lt, commit := c, commitTerm := ct,
                  context := if CampaignType.transfer = .transfer then campaignTransfer else [] })

theorem voteStep_ok (r : Raft) (term c ct lt : Nat) (hterm : term ≠ 0) (ms : List Message) (id : Nat) :
    voteStep term c ct lt (.ok { r with msgs := ms }) id =
      .ok { r with msgs := ms ++ ([id].filter (fun id => id ≠ r.id)).map (transferVoteReq r term c ct lt) } := by
  unfold voteStep
  simp only [Res.bind]
  by_cases hid : id = r.id
  · simp [hid]
  · simp [hid, send, sendFill, isVoteMsg, hterm, transferVoteReq]

theorem sendVoteRequests_loop (r : Raft) (term c ct lt : Nat) (hterm : term ≠ 0) :
    ∀ (l : List Nat) (ms : List Message),
      l.foldl (voteStep term c ct lt) (.ok { r with msgs := ms }) =
      .ok { r with msgs := ms ++ (l.filter (fun id => id ≠ r.id)).map (transferVoteReq r term c ct lt) } := by
  intro l
  induction l with
  | nil => intro ms; simp
  | cons id rest ih =>
    intro ms
    rw [List.foldl_cons, voteStep_ok r term c ct lt hterm, ih]
    by_cases hid : id = r.id <;> simp [hid]

/-- everybody a campaign asks for a vote: the voters of either half except the node itself -/
def voteTargets (r : Raft) : List Nat :=
  (NatSet.union r.prs.conf.incoming r.prs.conf.outgoing).filter (fun id => id ≠ r.id)

theorem sendVoteRequests_transfer (r : Raft) (term c ct lt : Nat) (hterm : term ≠ 0)
    (hci : r.raftLog.commitInfo = .ok (c, ct)) (hlt : r.raftLog.lastTerm = .ok lt) :
    r.sendVoteRequests .transfer .msgRequestVote term =
      .ok { r with msgs := r.msgs ++ (voteTargets r).map (transferVoteReq r term c ct lt) } := by
  unfold sendVoteRequests
  rw [hci, hlt]
  exact sendVoteRequests_loop r term c ct lt hterm _ r.msgs

/-- the state `become_candidate` produces (raft.rs:1180) -/
def candOf (r : Raft) : Raft :=
  { r.reset (r.term + 1) with vote := (r.reset (r.term + 1)).id, state := .candidate }

theorem becomeCandidate_eq (r : Raft) (hs : r.state ≠ .leader) (hterm : r.term < U64_MAX) :
    r.becomeCandidate = .ok (candOf r) := by
  unfold becomeCandidate candOf
  simp [hs, Nat.not_le.mpr hterm]

/-- the candidate after recording its own vote -/
def candVoted (r : Raft) : Raft :=
  { candOf r with prs := (candOf r).prs.recordVote (candOf r).id true }

theorem candVoted_fields (r : Raft) :
    (candVoted r).state = .candidate ∧ (candVoted r).term = r.term + 1 ∧
    (candVoted r).vote = r.id ∧ (candVoted r).leadTransferee = none :=
  ⟨rfl, (reset_term_vote r (r.term + 1)).1, (reset_fields r (r.term + 1)).1,
    reset_leadTransferee r (r.term + 1)⟩

theorem candVoted_tally (r : Raft) :
    (candVoted r).prs.tallyVotes = Tracker.tallyVotes r.prs.voters [(r.id, true)] := by
  obtain ⟨hid, _, _, _, hconf, hvotes⟩ := reset_fields r (r.term + 1)
  have hprs : (candOf r).prs = (r.reset (r.term + 1)).prs := rfl
  have hcid : (candOf r).id = r.id := hid
  simp only [candVoted, ProgressTracker.tallyVotes, ProgressTracker.recordVote, hprs, hcid, hvotes,
    List.lookup, ProgressTracker.voters, hconf, NatMap.insert]

theorem poll_self_pending (r : Raft) (t : MsgType)
    (hp : (Tracker.tallyVotes r.prs.voters [(r.id, true)]).2.2 = .pending) :
    (candOf r).poll (candOf r).id t true = .ok (candVoted r, .pending) := by
  have h := candVoted_tally r
  unfold poll pollWith
  dsimp only
  have h' : (((candOf r).prs.recordVote (candOf r).id true).tallyVotes).2.2 = .pending := by
    have : (candVoted r).prs = (candOf r).prs.recordVote (candOf r).id true := rfl
    rw [← this, h]; exact hp
  rw [h']
  rfl

theorem campaign_transfer_eq (r : Raft) (c ct lt : Nat) (hs : r.state ≠ .leader)
    (hterm : r.term < U64_MAX)
    (hp : (Tracker.tallyVotes r.prs.voters [(r.id, true)]).2.2 = .pending)
    (hci : r.raftLog.commitInfo = .ok (c, ct)) (hlt : r.raftLog.lastTerm = .ok lt) :
    r.campaign .transfer =
      .ok { candVoted r with msgs := r.msgs ++ (voteTargets r).map (transferVoteReq r (r.term + 1) c ct lt) } := by
  obtain ⟨hid, hlog, hpri, _, hconf, _⟩ := reset_fields r (r.term + 1)
  have hmsgs := reset_msgs r (r.term + 1)
  have hrt := (reset_term_vote r (r.term + 1)).1
  unfold campaign campaignWith
  dsimp only
  rw [if_neg (by decide), becomeCandidate_eq r hs hterm]
  simp only [Res.bind]
  rw [poll_self_pending r _ hp]
  simp only [if_neg (show ¬ VoteResult.pending = VoteResult.won by decide)]
  have hterm' : (candOf r).term = r.term + 1 := hrt
  have e1 : (candVoted r).raftLog = r.raftLog := hlog
  have e2 : (candVoted r).id = r.id := hid
  have e3 : (candVoted r).priority = r.priority := hpri
  have e4 : (candVoted r).msgs = r.msgs := hmsgs
  have e5 : (candVoted r).prs.conf = r.prs.conf := by
    have : (candVoted r).prs.conf = (r.reset (r.term + 1)).prs.conf := by
      simp only [candVoted, candOf, ProgressTracker.recordVote]
      split <;> rfl
    rw [this, hconf]
  rw [sendVoteRequests_transfer (candVoted r) (candOf r).term c ct lt (by rw [hterm']; omega)
    (by rw [e1]; exact hci) (by rw [e1]; exact hlt)]
  have hvt : voteTargets (candVoted r) = voteTargets r := by
    simp only [voteTargets, e5, e2]
  have hreq : transferVoteReq (candVoted r) (candOf r).term c ct lt =
      transferVoteReq r (r.term + 1) c ct lt := by
    funext to
    simp only [transferVoteReq, e1, e2, e3, hterm']
  rw [hvt, hreq, e4]

/-- **C17 `timeout_now_forces_campaign`** (*"target campaigns with forced (lease-bypassing) real
vote"*; `step_follower` raft.rs:2398-2418 → `hup(true)` 1543 → `campaign(CAMPAIGN_TRANSFER)` 1287).
A promotable follower that steps `MsgTimeoutNow`, with nothing that blocks an election (no
committed-but-unapplied membership change; not the "own vote is a quorum but entries unpersisted"
case) and whose own vote does not already win (more than one voter), becomes a **candidate at
`term + 1` having voted for itself** and queues **one real `MsgRequestVote` per other voter of
either half, carrying the `CampaignTransfer` context** and the new term — **whether or not
`pre_vote` is configured**: the pre-vote round is skipped.  The resulting state is given exactly. -/
theorem C17_timeout_now_forces_campaign (r : Raft) (m : Message) (c ct lt : Nat)
    (hm : m.msgType = .msgTimeoutNow) (hpr : r.promotable = true) (hs : r.state ≠ .leader)
    (hterm : r.term < U64_MAX)
    (hcc : r.hasUnappliedConfChanges r.hupScanLow (r.raftLog.committed + 1) = .ok false)
    (hpers : ¬ (r.raftLog.persisted < r.raftLog.lastIndex ∧ r.prs.hasQuorum [r.id] = true))
    (hp : (Tracker.tallyVotes r.prs.voters [(r.id, true)]).2.2 = .pending)
    (hci : r.raftLog.commitInfo = .ok (c, ct)) (hlt : r.raftLog.lastTerm = .ok lt) :
    ∃ r', r.stepFollower m = .ok (r', none) ∧
      r'.state = .candidate ∧ r'.term = r.term + 1 ∧ r'.vote = r.id ∧ r'.leadTransferee = none ∧
      r'.msgs = r.msgs ++ (voteTargets r).map (transferVoteReq r (r.term + 1) c ct lt) ∧
      (∀ q ∈ (voteTargets r).map (transferVoteReq r (r.term + 1) c ct lt),
        q.msgType = .msgRequestVote ∧ q.context = campaignTransfer ∧ q.term = r.term + 1) := by
  have hhup : r.hup true = r.campaign .transfer := by
    unfold hup
    simp only [hs, hpr, hcc, hpers]
    simp
  have hstep : r.stepFollower m = (r.campaign .transfer).bind (fun r => .ok (r, none)) := by
    unfold stepFollower
    simp only [hm, hpr, if_true]
    rw [hhup]
  rw [hstep, campaign_transfer_eq r c ct lt hs hterm hp hci hlt]
  refine ⟨_, rfl, candVoted_fields r |>.1, candVoted_fields r |>.2.1, candVoted_fields r |>.2.2.1,
    candVoted_fields r |>.2.2.2, rfl, ?_⟩
  intro q hq
  simp only [List.mem_map] at hq
  obtain ⟨to, _, rfl⟩ := hq
  exact ⟨rfl, rfl, rfl⟩

/-- … and a node that is not promotable (learner, removed node) ignores `MsgTimeoutNow`. -/
theorem C17_non_promotable_ignores_timeout_now (r : Raft) (m : Message)
    (hm : m.msgType = .msgTimeoutNow) (hp : r.promotable = false) :
    r.stepFollower m = .ok (r, none) := by
  unfold Raft.stepFollower; simp [hm, hp]

/-- **the vote request of a transfer bypasses the leader lease** (raft.rs:1354-1376; compare
`RN.lease_ignores`).  Whatever the receiver's state — also with `check_quorum`, a known leader and
an unexpired lease — a higher-term `MsgRequestVote` carrying the `CampaignTransfer` context is not
dropped by the term preamble of `step`: the receiver moves to the new term as a follower with no
leader and goes on to the vote decision. -/
theorem C17_transfer_vote_bypasses_lease (r : Raft) (m : Message)
    (hm : m.msgType = .msgRequestVote) (hctx : m.context = campaignTransfer) (hterm : r.term < m.term) :
    r.stepTerm m = .ok (r.becomeFollower m.term 0, true) := by
  have h0 : m.term ≠ 0 := by omega
  unfold Raft.stepTerm
  simp [h0, hterm, hm, hctx]

theorem maybeCommitByVote_cases (r r' : Raft) (m : Message) (h : r.maybeCommitByVote m = .ok r') :
    ∃ log, r' = r ∨ r' = { r with raftLog := log } ∨
      r' = ({ r with raftLog := log } : Raft).becomeFollower r.term 0 := by
  unfold Raft.maybeCommitByVote at h
  split at h
  · cases h; exact ⟨r.raftLog, Or.inl rfl⟩
  · simp only at h
    split at h
    · cases h; exact ⟨r.raftLog, Or.inl rfl⟩
    · split at h
      · cases h
      · cases h
      · cases h; exact ⟨r.raftLog, Or.inl rfl⟩
      · rename_i log _
        split at h
        · cases h; exact ⟨log, Or.inr (Or.inl rfl)⟩
        · split at h
          · cases h
          · cases h
          · cases h; exact ⟨log, Or.inr (Or.inr rfl)⟩
          · cases h; exact ⟨log, Or.inr (Or.inl rfl)⟩

/-- … so the old leader, on receiving it, follows the higher term at once: it is a follower at
`m.term` with no pending transfer (whether or not it grants the vote). -/
theorem C17_old_leader_steps_down_on_transfer_vote (r r' : Raft) (m : Message) (e : Option RaftError)
    (hm : m.msgType = .msgRequestVote) (hctx : m.context = campaignTransfer) (hterm : r.term < m.term)
    (h : r.step m = .ok (r', e)) :
    r'.term = m.term ∧ r'.leadTransferee = none ∧ r'.state = .follower := by
  unfold Raft.step at h
  rw [C17_transfer_vote_bypasses_lease r m hm hctx hterm] at h
  simp only [hm] at h
  have hb := becomeFollower_term_vote r m.term 0
  have hl := becomeFollower_leadTransferee r m.term 0
  have hst : (r.becomeFollower m.term 0).state = .follower := rfl
  split at h
  · rename_i r1 hv
    cases h
    unfold Raft.stepVote at hv
    simp only [hm, voteRespMsgType] at hv
    split at hv
    · unfold Raft.stepVoteGrant at hv
      split at hv
      · rename_i r2 hsend
        have h2 := send_eq _ _ _ hsend
        simp only [hm, if_true] at hv
        cases hv
        rw [h2]
        exact ⟨hb.1, hl, hst⟩
      · cases hv
      · cases hv
    · unfold Raft.stepVoteReject at hv
      split at hv
      · cases hv
      · cases hv
      · split at hv
        · rename_i r2 hsend
          have h2 := send_eq _ _ _ hsend
          simp only [hm] at hv
          split at hv
          · obtain ⟨log, hc | hc | hc⟩ := maybeCommitByVote_cases _ _ _ hv
            · rw [hc, h2]; exact ⟨hb.1, hl, hst⟩
            · rw [hc, h2]; exact ⟨hb.1, hl, hst⟩
            · rw [hc, h2]
              exact ⟨(becomeFollower_term_vote _ _ _).1.trans hb.1,
                becomeFollower_leadTransferee _ _ _, rfl⟩
          · cases hv; rw [h2]; exact ⟨hb.1, hl, hst⟩
        · cases hv
        · cases hv
    · cases hv
    · cases hv
  · cases h
  · cases h

/-! ## who may set `lead_transferee`: only `handle_transfer_leader` -/

theorem handleAppendResponseAccepted_rel (r : Raft) (m : Message) (pr : Progress) (op : Bool) :
    Res.Post (fun r' => Rel r r')
      (r.handleAppendResponseAccepted m pr op) := by
  unfold handleAppendResponseAccepted
  apply Res.post_bind (P := fun _ => True)
  · split <;> try trivial
    split <;> trivial
  · intro pr1 _
    dsimp only
    have h0 : FrameT r { r with prs := r.prs.set m.frm pr1 } := set_frameT r m.frm pr1
    apply Res.post_bind (P := fun x => FrameT r x)
    · split
      · rename_i r1 heq
        have h1 : FrameT _ r1 := Res.Post.of_eq (P := fun x => FrameT _ x.1) (maybeCommit_frameT _) heq
        split
        · exact Res.post_mono (bcastAppend_frameT r1) (fun a ha => (h0.trans h1).trans ha)
        · exact h0.trans h1
      · rename_i r1 heq
        have h1 : FrameT _ r1 := Res.Post.of_eq (P := fun x => FrameT _ x.1) (maybeCommit_frameT _) heq
        split
        · exact Res.post_mono (sendAppend_frameT r1 m.frm) (fun a ha => (h0.trans h1).trans ha)
        · exact h0.trans h1
      · trivial
      · trivial
    · intro r1 h1
      apply Res.post_bind (P := fun x => FrameT r x)
      · exact Res.post_mono (sendAppendAggressively_frameT r1 m.frm) (fun a ha => h1.trans ha)
      · intro r2 h2
        split
        · rename_i hlt
          split
          · trivial
          · rename_i pr2 hg
            split
            · rename_i hm
              apply Res.post_intro
              intro r' h
              rw [sendTimeoutNow_eq r2 r' m.frm h]; exact Rel.trans h2.toRel (Rel.of_same rfl rfl)
            · exact h2.toRel
        · exact h2.toRel

theorem handleAppendResponse_rel (r : Raft) (m : Message) :
    Res.Post (fun r' => Rel r r')
      (r.handleAppendResponse m) := by
  unfold handleAppendResponse
  apply Res.post_bind (P := fun _ => True)
  · split
    · split <;> trivial
    · trivial
  · intro npi _
    split
    · exact Res.post_ok (Rel.refl _)
    · dsimp only
      split
      · split
        · trivial
        · trivial
        · exact Res.post_mono (sendAppend_frameT _ m.frm)
            (fun a ha => ((set_frameT r m.frm _).trans ha).toRel)
        · exact Res.post_ok (set_frameT r m.frm _).toRel
      · split
        · trivial
        · trivial
        · exact Res.post_ok (set_frameT r m.frm _).toRel
        · exact handleAppendResponseAccepted_rel r m _ _

/-- `step_leader` on any message other than `MsgTransferLeader` drops the pending transfer or leaves
it (and the leader role) as it is. -/
theorem stepLeader_rel (r : Raft) (m : Message)
    (h1 : m.msgType ≠ .msgTransferLeader) :
    Res.Post (fun x => Rel r x.1) (r.stepLeader m) := by
  unfold stepLeader
  split
  · -- MsgBeat
    exact Res.post_bind (bcastHeartbeat_frameT r) (fun a ha => ha.toRel)
  · -- MsgCheckQuorum
    have hq := checkQuorumActive_frameT r
    split
    rename_i r1 active heq
    rw [heq] at hq
    split
    · exact Res.post_ok (Rel.of_none (becomeFollower_leadTransferee _ _ _))
    · exact hq.toRel
  · -- MsgPropose
    split
    · trivial
    · split
      · exact Res.post_ok (Rel.refl _)
      · split
        · exact Res.post_ok (Rel.refl _)
        · have hf := filterProposal_frameT m.entries r 0
          split
          · rename_i r1 heq
            rw [heq] at hf; exact hf.toRel
          · rename_i r1 es heq
            rw [heq] at hf
            split
            · rename_i r2 heq2
              exact (hf.trans (Res.Post.of_eq (P := fun x => FrameT r1 x.1) (appendEntry_frameT r1 es) heq2)).toRel
            · rename_i r2 heq2
              have h3 : FrameT r1 r2 :=
                Res.Post.of_eq (P := fun x => FrameT r1 x.1) (appendEntry_frameT r1 es) heq2
              exact Res.post_bind (bcastAppend_frameT r2) (fun a ha => ((hf.trans h3).trans ha).toRel)
            · trivial
            · trivial
  · -- MsgReadIndex
    have hans : ∀ r0 : Raft, FrameT r r0 → Res.Post (fun x => Rel r x.1)
        ((r0.handleReadyReadIndex m r0.raftLog.committed).bind (fun (r, om) =>
          match om with
          | some m' => (r.send m').bind (fun r => .ok (r, none))
          | none => .ok (r, (none : Option RaftError)))) := by
      intro r0 h0
      apply Res.post_bind (handleReadyReadIndex_frameT r0 m _)
      intro a ha
      obtain ⟨r1, om⟩ := a
      dsimp only at ha ⊢
      split
      · rename_i m'
        have hm : m'.msgType ≠ .msgTimeoutNow := by rw [ha.2 m' rfl]; decide
        exact Res.post_bind (send_frameT r1 m' hm) (fun x hx => ((h0.trans ha.1).trans hx).toRel)
      · exact (h0.trans ha.1).toRel
    split
    · trivial
    · trivial
    · exact Res.post_ok (Rel.refl _)
    · dsimp only
      split
      · exact hans r (FrameT.refl r)
      · split
        · split
          · trivial
          · apply Res.post_bind (P := fun _ => True)
            · exact Res.post_intro (fun _ _ => trivial)
            · intro ro _
              exact Res.post_bind (bcastHeartbeatWithCtx_frameT _ _) (fun a ha =>
                (FrameT.trans (by simp [FrameT, core]) ha).toRel)
        · exact hans r (FrameT.refl r)
  · exact Res.post_bind (handleAppendResponse_rel r m) (fun a ha => ha)
  · exact Res.post_bind (handleHeartbeatResponse_frameT r m) (fun a ha => ha.toRel)
  · exact (handleSnapshotStatus_frameT r m).toRel
  · exact (handleUnreachable_frameT r m).toRel
  · exact absurd ‹_› h1
  · exact Res.post_ok (Rel.refl _)

theorem handleTransferLeader_state (r r' : Raft) (m : Message)
    (h : r.handleTransferLeader m = .ok r') : r'.state = r.state := by
  have key : ∀ r0 : Raft, r0.state = r.state → transferStart r0 m.frm = .ok r' → r'.state = r.state := by
    intro r0 h0 h
    unfold transferStart at h
    split at h
    · cases h; exact h0
    · dsimp only at h
      split at h
      · cases h
      · split at h
        · rw [sendTimeoutNow_eq _ _ _ h]; exact h0
        · rename_i pr _ _
          have h1 := sendAppendPr_frameT { r0 with electionElapsed := 0, leadTransferee := some m.frm } m.frm pr
          cases hs : ({ r0 with electionElapsed := 0, leadTransferee := some m.frm } : Raft).sendAppendPr m.frm pr with
          | ok a =>
            rw [hs] at h h1
            simp only [Res.bind] at h
            cases h
            simp only [Res.Post] at h1
            exact h1.state.trans h0
          | err e => rw [hs] at h; cases h
          | panic s => rw [hs] at h; cases h
  rw [handleTransferLeader_eq] at h
  split at h
  · cases h; rfl
  · split at h
    · cases h; rfl
    · split at h
      · split at h
        · cases h; rfl
        · exact key r.abortLeaderTransfer rfl h
      · exact key r rfl h

/-- `Raft::step`, every state and message: the pending transfer is dropped or kept (a leader that
keeps it stays leader), unless the message is a `MsgTransferLeader` stepped by a leader, which stays
leader. -/
theorem step_rel (r : Raft) (m : Message) :
    Res.Post (fun x => Rel r x.1 ∨
        (r.state = .leader ∧ m.msgType = .msgTransferLeader ∧ x.1.state = .leader)) (r.step m) := by
  unfold step
  split
  · trivial
  · trivial
  · rename_i r1 heq
    have ht : Rel r r1 := Res.Post.of_eq (P := fun x => Rel r x.1) (stepTerm_rel r m) heq
    exact Res.post_ok (Or.inl ht)
  · rename_i r1 heq
    have ht : Rel r r1 := Res.Post.of_eq (P := fun x => Rel r x.1) (stepTerm_rel r m) heq
    have hst := stepTerm_true r r1 m heq
    split
    · exact Res.post_bind (hup_rel r1 false) (fun a ha => Or.inl (ht.trans ha))
    · split
      · rename_i r2 hv
        exact Res.post_ok (Or.inl (ht.trans (Res.Post.of_eq (P := fun x => Rel r1 x) (stepVote_rel r1 m) hv)))
      · trivial
      · trivial
    · split
      · rename_i r2 hv
        exact Res.post_ok (Or.inl (ht.trans (Res.Post.of_eq (P := fun x => Rel r1 x) (stepVote_rel r1 m) hv)))
      · trivial
      · trivial
    · split
      · exact Res.post_mono (stepCandidate_rel r1 m) (fun a ha => Or.inl (ht.trans ha))
      · exact Res.post_mono (stepCandidate_rel r1 m) (fun a ha => Or.inl (ht.trans ha))
      · exact Res.post_mono (stepFollower_rel r1 m) (fun a ha => Or.inl (ht.trans ha))
      · rename_i hl
        by_cases hm : m.msgType = .msgTransferLeader
        · rcases hst with hst | hst
          · subst hst
            unfold stepLeader
            simp only [hm]
            apply Res.post_bind (P := fun x => x.state = r1.state)
            · exact Res.post_intro (fun a ha => handleTransferLeader_state r1 a m ha)
            · intro a ha
              exact Res.post_ok (Or.inr ⟨hl, trivial, ha.trans hl⟩)
          · rw [hst] at hl; cases hl
        · exact Res.post_mono (stepLeader_rel r1 m hm) (fun a ha => Or.inl (ht.trans ha))

/-- **C17: only a transfer request sets `lead_transferee`.**  For every state and every message
that is not a `MsgTransferLeader`, after `Raft::step` the pending transfer has been dropped or is
exactly the one that was pending (and then a leader is still leader). -/
theorem C17_only_transfer_request_sets_transferee (r r' : Raft) (m : Message) (e : Option RaftError)
    (hm : m.msgType ≠ .msgTransferLeader) (h : r.step m = .ok (r', e)) :
    r'.leadTransferee = none ∨
    (r'.leadTransferee = r.leadTransferee ∧ (r.state = .leader → r'.state = .leader)) := by
  rcases Res.Post.of_eq (step_rel r m) h with h1 | ⟨_, h1, _⟩
  · exact h1
  · exact absurd h1 hm

theorem stepIgnore_rel (r : Raft) (m : Message) (hm : m.msgType ≠ .msgTransferLeader) :
    Res.Post (fun x => Rel r x) (r.stepIgnore m) := by
  unfold stepIgnore
  apply Res.post_bind (step_rel r m)
  intro a ha
  rcases ha with ha | ⟨_, ha, _⟩
  · exact Res.post_ok ha
  · exact absurd ha hm

/-- a tick (`tick_election` or `tick_heartbeat`) never sets `lead_transferee` -/
theorem tick_rel (r : Raft) : Res.Post (fun x => Rel r x.1) r.tick := by
  have hE : Res.Post (fun x => Rel r x.1) r.tickElection := by
    unfold tickElection
    dsimp only
    split
    · exact Res.post_ok (Rel.of_same rfl rfl)
    · apply Res.post_bind (stepIgnore_rel _ _ (by simp [newMessage]))
      intro a ha
      exact Res.post_ok (Rel.trans (Rel.of_same rfl rfl) ha)
  have hH : Res.Post (fun x => Rel r x.1) r.tickHeartbeat := by
    unfold tickHeartbeat
    dsimp only
    apply Res.post_bind (P := fun x => Rel r x.1)
    · split
      · apply Res.post_bind (P := fun x => Rel r x.1)
        · split
          · apply Res.post_bind (stepIgnore_rel _ _ (by simp [newMessage]))
            intro a ha
            exact Res.post_ok (Rel.trans (Rel.of_same rfl rfl) ha)
          · exact Res.post_ok (Rel.of_same rfl rfl)
        · intro a ha
          split
          · exact Res.post_ok (Rel.of_none rfl)
          · exact Res.post_ok ha
      · exact Res.post_ok (Rel.of_same rfl rfl)
    · intro a ha
      split
      · exact Res.post_ok ha
      · split
        · apply Res.post_bind (stepIgnore_rel _ _ (by simp [newMessage]))
          intro b hb
          exact Res.post_ok (ha.trans (Rel.trans (Rel.of_same rfl rfl) hb))
        · exact Res.post_ok ha
  unfold tick
  split <;> assumption

/-- **C17 invariant: a node that is not leader has no pending transfer** (item 5, the "hence").
The invariant `state ≠ Leader → lead_transferee = None` holds of the state `Raft::new` returns
(it ends with `become_follower`) and is preserved by every `Raft::step` — any state, any message —
and every `tick`.  So the proposal block of `C17_proposals_refused_while_transferring` and the
`MsgTimeoutNow` of `C17_timeout_now_only_when_caught_up` only ever concern a node that is leader. -/
def NoStaleTransfer (r : Raft) : Prop := r.state ≠ .leader → r.leadTransferee = none

theorem Rel.keeps {r r' : Raft} (h : Rel r r') (hi : NoStaleTransfer r) : NoStaleTransfer r' := by
  intro hs
  rcases h with h | ⟨h1, h2⟩
  · exact h
  · rw [h1]
    apply hi
    intro hl
    exact hs (h2 hl)

theorem C17_non_leader_has_no_pending_transfer :
    (∀ (r r' : Raft) (m : Message) (e : Option RaftError),
      NoStaleTransfer r → r.step m = .ok (r', e) → NoStaleTransfer r') ∧
    (∀ (r r' : Raft) (b : Bool), NoStaleTransfer r → r.tick = .ok (r', b) → NoStaleTransfer r') ∧
    (∀ (r r' : Raft) (cs : ConfState),
      NoStaleTransfer r → r.postConfChange = .ok (r', cs) → NoStaleTransfer r') := by
  refine ⟨fun r r' m e hi h => ?_, fun r r' b hi h => ?_, fun r r' cs hi h => ?_⟩
  · rcases Res.Post.of_eq (step_rel r m) h with h1 | ⟨_, _, h1⟩
    · exact Rel.keeps h1 hi
    · intro hs; exact absurd h1 hs
  · exact Rel.keeps (Res.Post.of_eq (P := fun x => Rel r x.1) (tick_rel r) h) hi
  · exact Rel.keeps (Res.Post.of_eq (P := fun x => Rel r x.1) (postConfChange_rel r) h) hi

/-- the invariant holds initially: `Raft::new` ends with `become_follower` (raft.rs:398) -/
theorem C17_new_has_no_pending_transfer (c : Config) (store : MemStorage) (rnd : Option Nat)
    (r : Raft) (h : Raft.new c store rnd = .ok (.ok r)) :
    r.state = .follower ∧ r.leadTransferee = none := by
  unfold Raft.new at h
  split at h
  · cases h
  · dsimp only at h
    split at h
    · cases h
    · cases h
    · split at h
      · cases h
      · rename_i prs _
        generalize hpc : Raft.postConfChange _ = pc at h
        cases pc with
        | ok a =>
          simp only [Res.bind] at h
          split at h
          · cases h
          · generalize hr1 : (if store.initialState.1 ≠ {} then a.1.loadState store.initialState.1 else Res.ok a.1) = r1 at h
            cases r1 with
            | ok b =>
              dsimp only [Res.bind] at h
              generalize hr2 : (if c.applied > 0 then b.commitApplyInternal c.applied true else Res.ok b) = r2 at h
              cases r2 with
              | ok d =>
                dsimp only [Res.bind] at h
                cases h
                exact ⟨rfl, becomeFollower_leadTransferee _ _ _⟩
              | err e => cases h
              | panic s => cases h
            | err e => cases h
            | panic s => cases h
        | err e => cases h
        | panic s => cases h

theorem ticks_rel : ∀ (n : Nat) (r r' : Raft), ticks n r = .ok r' → Rel r r' := by
  intro n
  induction n with
  | zero => intro r r' h; cases h; exact Rel.refl _
  | succ n ih =>
    intro r r' h
    simp only [ticks] at h
    cases ht : r.tick with
    | ok a =>
      rw [ht] at h
      simp only [Res.bind] at h
      exact Rel.trans (Res.Post.of_eq (P := fun x => Rel r x.1) (tick_rel r) ht) (ih a.1 r' h)
    | err e => rw [ht] at h; cases h
    | panic s => rw [ht] at h; cases h

theorem ticks_split : ∀ (k j : Nat) (r rk : Raft), ticks k r = .ok rk → ticks (k + j) r = ticks j rk := by
  intro k
  induction k with
  | zero => intro j r rk h; cases h; simp
  | succ k ih =>
    intro j r rk h
    have : k + 1 + j = (k + j) + 1 := by omega
    rw [this]
    simp only [ticks] at h ⊢
    cases ht : r.tick with
    | ok a =>
      rw [ht] at h
      simp only [Res.bind] at h ⊢
      exact ih j a.1 rk h
    | err e => rw [ht] at h; cases h
    | panic s => rw [ht] at h; cases h

/-- **counting corollary, strong form**: with nothing but ticks in between, `election_timeout -
election_elapsed` ticks after any point no transfer is pending any more, and it stays that way
(ticks never set `lead_transferee`).  As an accepted request resets `election_elapsed` to 0, a
transfer is pending for at most `election_timeout` leader ticks. -/
theorem C17_no_transfer_after_election_timeout (n : Nat) (r r' : Raft)
    (hs : r.state = .leader) (hn : 0 < n) (hto : r.electionTimeout ≤ r.electionElapsed + n)
    (h : ticks n r = .ok r') : r'.leadTransferee = none := by
  obtain ⟨k, rk, _, hkn, hk, hnone⟩ := C17_transfer_bounded_by_election_timeout n r r' hs hn hto h
  have hsplit := ticks_split k (n - k) r rk hk
  have : k + (n - k) = n := by omega
  rw [this, h] at hsplit
  rcases ticks_rel (n - k) rk r' hsplit.symm with h1 | ⟨h1, _⟩
  · exact h1
  · rw [h1]; exact hnone

/-! ## 8. non-vacuity: concrete states and messages satisfying the hypotheses -/

section Examples

/-- `x` succeeded with a value satisfying `p` -/
def okAnd {α : Type} (x : Res α) (p : α → Bool) : Bool :=
  match x with
  | .ok a => p a
  | _ => false

theorem okAnd_elim {α : Type} {x : Res α} {p : α → Bool} (h : okAnd x p = true) :
    ∃ a, x = .ok a ∧ p a = true := by
  cases x with
  | ok a => exact ⟨a, rfl, h⟩
  | err e => cases h
  | panic s => cases h

def pr0 : Progress := { matched := 0, nextIdx := 1, recentActive := true }

/-- leader 1 of {1,2,3} at term 2, empty log: every peer is trivially caught up -/
def exLeader : Raft :=
  { raftLog := default, id := 1, term := 2, state := .leader, leaderId := 1, promotable := true,
    electionTimeout := 10, heartbeatTimeout := 2, maxInflight := 256,
    prs := { progress := [(1, pr0), (2, pr0), (3, pr0)], conf := { incoming := [1, 2, 3] } } }

/-- a log with one persisted entry (index 1, term 2) -/
def exLog : RaftLog :=
  { (default : RaftLog) with
    store := { entries := [{ term := 2, index := 1 }] }, persisted := 1, unstable := { offset := 2 } }

/-- the same leader with one entry, node 2 lagging (matched 0) and a transfer to node 2 pending -/
def exLeaderT : Raft :=
  { exLeader with
    raftLog := exLog, leadTransferee := some 2,
    prs := { progress := [(1, { pr0 with matched := 1, nextIdx := 2 }),
                          (2, { pr0 with state := .replicate, nextIdx := 2 }), (3, pr0)],
             conf := { incoming := [1, 2, 3] } } }

/-- item 1, site `handle_transfer_leader`: the step succeeds and the second disjunct of
`C17_timeout_now_only_when_caught_up` is the one that holds (a `MsgTimeoutNow` to node 2). -/
example : ∃ r' e, exLeader.step { msgType := .msgTransferLeader, frm := 2 } = .ok (r', e) ∧
    tnOf r'.msgs = tnOf exLeader.msgs ++ [timeoutNowMsg exLeader 2] := by
  obtain ⟨a, h1, h2⟩ := okAnd_elim (x := exLeader.step { msgType := .msgTransferLeader, frm := 2 })
    (p := fun x => tnOf x.1.msgs == tnOf exLeader.msgs ++ [timeoutNowMsg exLeader 2]) (by decide)
  exact ⟨a.1, a.2, h1, by simpa using h2⟩

/-- item 1, site `handle_append_response`: node 2, the pending transferee, acknowledges index 1 =
`last_index`; the leader commits, sends the new commit index and then `MsgTimeoutNow`. -/
example : ∃ r' e, exLeaderT.step { msgType := .msgAppendResponse, frm := 2, index := 1, term := 2 }
      = .ok (r', e) ∧ tnOf r'.msgs = tnOf exLeaderT.msgs ++ [timeoutNowMsg exLeaderT 2] := by
  obtain ⟨a, h1, h2⟩ := okAnd_elim
    (x := exLeaderT.step { msgType := .msgAppendResponse, frm := 2, index := 1, term := 2 })
    (p := fun x => tnOf x.1.msgs == tnOf exLeaderT.msgs ++ [timeoutNowMsg exLeaderT 2]) (by decide)
  exact ⟨a.1, a.2, h1, by simpa using h2⟩

/-- … and while node 2 lags, a transfer request for it is recorded but sends no `MsgTimeoutNow`. -/
example : okAnd ({ exLeaderT with leadTransferee := none }.step { msgType := .msgTransferLeader, frm := 2 })
    (fun x => tnOf x.1.msgs == [] && x.1.leadTransferee == some 2) = true := by
  decide

/-- item 2: hypotheses of `C17_proposals_refused_while_transferring` -/
example : ∃ (r : Raft) (m : Message), m.msgType = .msgPropose ∧ m.entries ≠ [] ∧
    r.leadTransferee ≠ none ∧ r.state = .leader ∧ m.term = 0 :=
  ⟨exLeaderT, { msgType := .msgPropose, entries := [{ data := [1] }] }, by decide⟩

/-- item 3: the tenth tick of a leader with a pending transfer drops it; the ninth does not -/
example : okAnd ({ exLeaderT with electionElapsed := 9 } : Raft).tick
    (fun x => x.1.leadTransferee == none) = true ∧
    okAnd ({ exLeaderT with electionElapsed := 8 } : Raft).tick
    (fun x => x.1.leadTransferee == some 2) = true := by decide

/-- item 3, counting corollary: hypotheses satisfied with `n = election_timeout = 10` -/
example : exLeaderT.state = .leader ∧ 0 < 10 ∧
    exLeaderT.electionTimeout ≤ exLeaderT.electionElapsed + 10 ∧
    okAnd (ticks 10 exLeaderT) (fun r => r.leadTransferee == none) = true := by decide

/-- item 4: a learner (4), an unknown node (9) and the pending target (2) are ignored; the leader
itself (1) cancels; another voter (3) replaces the pending target -/
def exLeaderL : Raft :=
  { exLeaderT with
    prs := { progress := exLeaderT.prs.progress ++ [(4, pr0)],
             conf := { incoming := [1, 2, 3], learners := [4] } } }

example : exLeaderL.prs.get 9 = none ∧ exLeaderL.prs.conf.learners.contains 4 = true ∧
    exLeaderL.leadTransferee = some 2 := by decide

example : exLeaderL.handleTransferLeader { msgType := .msgTransferLeader, frm := 1 } =
    .ok { exLeaderL with leadTransferee := none } := by decide

example : okAnd (exLeaderL.handleTransferLeader { msgType := .msgTransferLeader, frm := 3 })
    (fun r => r.leadTransferee == some 3 && r.electionElapsed == 0) = true := by decide

/-- item 6: leader 1 of the new configuration {1,3,4}; the pending target 2 has just been removed -/
def exLeaderC : Raft :=
  { exLeader with
    leadTransferee := some 2,
    prs := { progress := [(1, pr0), (3, pr0), (4, pr0)], conf := { incoming := [1, 3, 4] } } }

example : exLeaderC.state = .leader ∧ Joint.contains exLeaderC.prs.voters exLeaderC.id = true ∧
    exLeaderC.prs.conf.incoming ≠ [] ∧ exLeaderC.leadTransferee = some 2 ∧
    Joint.contains exLeaderC.prs.voters 2 = false ∧
    okAnd exLeaderC.postConfChange (fun x => x.1.leadTransferee == none) = true := by decide

/-- item 6, the leader itself removed: hypotheses of `C17_removed_leader_steps_down` -/
example : ∃ r : Raft, r.state = .leader ∧ Joint.contains r.prs.voters r.id = false ∧
    r.leadTransferee ≠ none :=
  ⟨{ exLeaderC with prs := { exLeaderC.prs with conf := { incoming := [3, 4] } } }, by decide⟩

/-- item 7: follower 2 of {1,2,3} with `pre_vote` ON satisfies every hypothesis of
`C17_timeout_now_forces_campaign` (with `c = ct = lt = 0`), and indeed becomes a candidate at term 3
with two real vote requests carrying the transfer context -/
def exFollower : Raft := { exLeader with id := 2, state := .follower, preVote := true }

example : exFollower.promotable = true ∧ exFollower.state ≠ .leader ∧ exFollower.term < U64_MAX ∧
    exFollower.hasUnappliedConfChanges exFollower.hupScanLow (exFollower.raftLog.committed + 1)
      = .ok false ∧
    ¬ (exFollower.raftLog.persisted < exFollower.raftLog.lastIndex ∧
        exFollower.prs.hasQuorum [exFollower.id] = true) ∧
    (Tracker.tallyVotes exFollower.prs.voters [(exFollower.id, true)]).2.2 = .pending ∧
    exFollower.raftLog.commitInfo = .ok (0, 0) ∧ exFollower.raftLog.lastTerm = .ok 0 ∧
    exFollower.preVote = true := by decide

example : okAnd (exFollower.stepFollower { msgType := .msgTimeoutNow, frm := 1, term := 2 })
    (fun x => x.1.state == .candidate && x.1.term == 3 && x.1.vote == 2 &&
      x.1.msgs.map (fun q => (q.msgType, q.to, q.term, q.context)) ==
        [(.msgRequestVote, 1, 3, campaignTransfer), (.msgRequestVote, 3, 3, campaignTransfer)]) = true := by
  decide

/-- lease bypass: a leader with `check_quorum` and a fresh lease still yields to the transfer vote -/
example : ∃ (r : Raft) (m : Message), m.msgType = .msgRequestVote ∧ m.context = campaignTransfer ∧
    r.term < m.term ∧ r.checkQuorum = true ∧ r.leaderId ≠ 0 ∧ r.electionElapsed < r.electionTimeout :=
  ⟨{ exLeader with checkQuorum := true },
   { msgType := .msgRequestVote, frm := 2, term := 3, context := campaignTransfer }, by decide⟩

end Examples

end RaftProps.C17
