import RaftProofs.ClusterLeaseF

/-!
# C16c — the lease theorem of C16 (PreVote + CheckQuorum) for `ClusterSem`

Property C16, second half: *With pre-vote and check-quorum enabled on all nodes, while a leader and a
majority exchange heartbeats on schedule, no behaviour of the remaining nodes — partition, rejoin,
campaigning, crash and restart — makes that leader step down or any member of that majority change
its term, except an explicitly requested leadership transfer.*

Setting: `RaftModel/Cluster.lean` (`ClusterSem`: nodes that move only through `Node.call`, a lossy /
duplicating / reordering transport, applications that call every entry point in any order, crashes
that restart a node from its own storage).  "A leader and a majority exchange heartbeats on schedule"
is a hypothesis on a **window** `[a, b]` of a history `h`: a set `M` of node ids, a joint quorum of the
fixed voter configuration `cfg`, containing the leader `l` of term `t`, every member of which is
**in lease** (`InLease`) in every state of the window — its term is `t` and it passes the lease test
of `Raft::step` (raft.rs:1363-1384): `check_quorum ∧ leader_id ≠ 0 ∧ election_elapsed <
election_timeout`.  This is what on-schedule heartbeats give (every heartbeat / append of the leader
resets `election_elapsed` and sets `leader_id`; the leader's own `election_elapsed` is reset at every
check-quorum round and `leader_id` is its own id as long as it leads).

`C16_cluster_lease_protects`: in every state of the window `l` still leads term `t`, and NO node of
the cluster — inside or outside `M` — has a term above `t` (and the transport and all queues stay
*calm*, `C16_cluster_lease_window_calm`).  The proof is in `RaftProofs/ClusterLease{A..F}.lean`.
-/
namespace RaftProps.C16
open RaftModel RaftModel.Cluster RaftModel.Raft RaftModel.Node RaftProps.C02

/-- node `j` is at term `t` and passes the lease test of `Raft::step` -/
def InLease (s : Sys) (j t : Nat) : Prop :=
  ∃ st, s.node j = some st ∧ st.raft.term = t ∧ st.raft.checkQuorum = true ∧
    st.raft.leaderId ≠ 0 ∧ st.raft.electionElapsed < st.raft.electionTimeout

/-- the message `x` cannot disturb term `t` (`RaftModel.Cluster.ls_Calm`): `x.term ≤ t` — except that
a pre-vote request may carry any term, and a *granted* pre-vote response may carry any term provided
that, if it answers a pre-campaign of term `t` (`x.term = t + 1`), it does not come from a member of
`M` —; `x` is not a `MsgTimeoutNow`; and if `x` is a vote or pre-vote request it does not carry the
`CampaignTransfer` context -/
abbrev Calm (t : Nat) (M : List Nat) (x : Message) : Prop := ls_Calm t M x

theorem calm_iff (t : Nat) (M : List Nat) (x : Message) :
    Calm t M x ↔
      ((x.term ≤ t ∨ x.msgType = .msgRequestPreVote ∨
        (x.msgType = .msgRequestPreVoteResponse ∧ x.reject = false ∧ (x.term = t + 1 → x.frm ∉ M))) ∧
      x.msgType ≠ .msgTimeoutNow ∧
      ((x.msgType = .msgRequestVote ∨ x.msgType = .msgRequestPreVote) → x.context ≠ campaignTransfer)) :=
  Iff.rfl

/-- the bundled form: window hypotheses `ls_Hyp` on every state, `ls_WInv` at the start -/
theorem lease_window_core (cfg : JointConfig) (hne : cfg.incoming ≠ [] ∨ cfg.outgoing ≠ [])
    (h : List Sys) (hh : History h) (a b t l : Nat) (M : List Nat) (hlM : l ∈ M)
    (hM : IsJointQuorum cfg M)
    (hwin : ∀ n s, a ≤ n → n ≤ b → h[n]? = some s → ls_Hyp t M cfg s)
    (hrs : ∀ n s s', a ≤ n → n < b → h[n]? = some s → h[n + 1]? = some s' →
      ∀ k st, s.node k = some st → IsRestart k s s' → st.raft.raftLog.store.hardState.term ≤ t)
    (s0 : Sys) (h0 : h[a]? = some s0) (hlead : leads s0 l t) (hw0 : ls_WInv t M s0) :
    ∀ d s, a + d ≤ b → h[a + d]? = some s → ls_WInv t M s ∧ leads s l t := by
  intro d
  induction d with
  | zero =>
    intro s _ hs
    rw [Nat.add_zero, h0] at hs
    cases hs
    exact ⟨hw0, hlead⟩
  | succ d ih =>
    intro s' hle hs'
    have hlt : a + d < h.length := by
      have := (List.getElem?_eq_some_iff.1 hs').1
      omega
    obtain ⟨s, hs⟩ : ∃ s, h[a + d]? = some s := ⟨h[a + d], List.getElem?_eq_getElem hlt⟩
    obtain ⟨hw, hl⟩ := ih s (by omega) hs
    have hs'' : h[a + d + 1]? = some s' := by rw [Nat.add_assoc]; exact hs'
    have hstep := hist_step_at hh (a + d) s s' hs hs''
    have hinv1 := (hist_all hh).1 s (List.mem_of_getElem? hs)
    have hy := hwin (a + d) s (by omega) (by omega) hs
    have hy' := hwin (a + d + 1) s' (by omega) (by omega) hs''
    have hw' := hw.step hM hne hinv1 hy hy' hstep
      (hrs (a + d) s s' (by omega) (by omega) hs hs'')
    exact ⟨hw', ls_lead_step hlM hw' hy' hstep hl⟩

/-- **C16 `cluster_lease_protects`.**  Let `h` be a history of `ClusterSem`, `[a, b]` a window of it,
`cfg` a joint voter configuration with a non-empty half, `M` a joint quorum of `cfg` containing `l`.
Assume that

* **(heartbeats on schedule)** in every state of the window every member of `M` — the leader `l`
  included — is in lease at term `t` (`hlease`, `InLease`);
* **(pre-vote on)** in every state of the window every node outside `M` has `pre_vote` (`hpv`; the
  members of `M` need `check_quorum`, which is part of `InLease`; the nodes outside `M` need no
  `check_quorum`) and every node has the voter configuration `cfg` (`hfix`);
* **(no explicitly requested leadership transfer)** in every state of the window no node has a pending
  transfer, `lead_transferee = None` (`hnt`), and at the start of the window no `MsgTimeoutNow` and no
  vote request with the `CampaignTransfer` context is in the transport or in a queue (part of `Calm`);
* **(restart)** a node restarted inside the window comes back from a storage whose stored term is at
  most `t` (`hrs`; the stored term can exceed the node's term only after `persist_snap` of a snapshot
  of a later term, see the example below);
* **(start of the window)** in the state `h[a]`: `l` leads term `t` (`hlead`); no node is ahead of
  `t` (`hterm0`); every message in the transport and in every node's queue is `Calm` (`hnet0`,
  `hque0`); and no pre-candidate of term `t` outside `M` has already recorded a granted pre-vote of a
  member of `M` (`hvotes0`).

Then in EVERY state of the window `l` is still in the leader role for term `t`, and no node of the
cluster has a term above `t` — whatever the nodes outside `M` and the transport do: partition,
rejoin, any number of (pre-)campaigns, crashes and restarts, any delivery order, loss and
duplication.  (Every member of `M` has term `t` throughout by `hlease`.) -/
theorem C16_cluster_lease_protects (cfg : JointConfig) (hne : cfg.incoming ≠ [] ∨ cfg.outgoing ≠ [])
    (h : List Sys) (hh : History h) (a b t l : Nat) (M : List Nat) (hlM : l ∈ M)
    (hM : IsJointQuorum cfg M)
    (hfix : ∀ n s, a ≤ n → n ≤ b → h[n]? = some s → FixedCfg cfg s)
    (hlease : ∀ n s, a ≤ n → n ≤ b → h[n]? = some s → ∀ j ∈ M, InLease s j t)
    (hpv : ∀ n s, a ≤ n → n ≤ b → h[n]? = some s →
      ∀ i st, s.node i = some st → i ∉ M → st.raft.preVote = true)
    (hnt : ∀ n s, a ≤ n → n ≤ b → h[n]? = some s →
      ∀ i st, s.node i = some st → st.raft.leadTransferee = none)
    (hrs : ∀ n s s', a ≤ n → n < b → h[n]? = some s → h[n + 1]? = some s' →
      ∀ k st, s.node k = some st → IsRestart k s s' → st.raft.raftLog.store.hardState.term ≤ t)
    (s0 : Sys) (h0 : h[a]? = some s0) (hlead : leads s0 l t)
    (hterm0 : ∀ i st, s0.node i = some st → st.raft.term ≤ t)
    (hnet0 : ∀ x ∈ s0.net, Calm t M x)
    (hque0 : ∀ i st, s0.node i = some st → ∀ x ∈ st.raft.msgs, Calm t M x)
    (hvotes0 : ∀ i st, s0.node i = some st → i ∉ M → st.raft.state = .preCandidate →
      st.raft.term = t → ∀ j ∈ M, (j, true) ∉ st.raft.prs.votes) :
    ∀ n s, a ≤ n → n ≤ b → h[n]? = some s →
      leads s l t ∧ ∀ i st, s.node i = some st → st.raft.term ≤ t := by
  intro n s han hnb hs
  have hwin : ∀ n s, a ≤ n → n ≤ b → h[n]? = some s → ls_Hyp t M cfg s := fun n s h1 h2 h3 =>
    ⟨hlease n s h1 h2 h3, hpv n s h1 h2 h3, hnt n s h1 h2 h3, hfix n s h1 h2 h3⟩
  obtain ⟨hw, hl⟩ := lease_window_core cfg hne h hh a b t l M hlM hM hwin hrs s0 h0 hlead
    ⟨hterm0, hnet0, hque0, hvotes0⟩ (n - a) s (by omega) (by rw [show a + (n - a) = n by omega]; exact hs)
  exact ⟨hl, hw.term⟩

/-- … and the transport and every queue stay `Calm` throughout the window: nothing that could
disturb term `t` is ever produced — in particular no member of `M` ever grants a pre-vote for term
`t + 1`, and no `MsgTimeoutNow` / transfer vote request appears -/
theorem C16_cluster_lease_window_calm (cfg : JointConfig) (hne : cfg.incoming ≠ [] ∨ cfg.outgoing ≠ [])
    (h : List Sys) (hh : History h) (a b t l : Nat) (M : List Nat) (hlM : l ∈ M)
    (hM : IsJointQuorum cfg M)
    (hfix : ∀ n s, a ≤ n → n ≤ b → h[n]? = some s → FixedCfg cfg s)
    (hlease : ∀ n s, a ≤ n → n ≤ b → h[n]? = some s → ∀ j ∈ M, InLease s j t)
    (hpv : ∀ n s, a ≤ n → n ≤ b → h[n]? = some s →
      ∀ i st, s.node i = some st → i ∉ M → st.raft.preVote = true)
    (hnt : ∀ n s, a ≤ n → n ≤ b → h[n]? = some s →
      ∀ i st, s.node i = some st → st.raft.leadTransferee = none)
    (hrs : ∀ n s s', a ≤ n → n < b → h[n]? = some s → h[n + 1]? = some s' →
      ∀ k st, s.node k = some st → IsRestart k s s' → st.raft.raftLog.store.hardState.term ≤ t)
    (s0 : Sys) (h0 : h[a]? = some s0) (hlead : leads s0 l t)
    (hterm0 : ∀ i st, s0.node i = some st → st.raft.term ≤ t)
    (hnet0 : ∀ x ∈ s0.net, Calm t M x)
    (hque0 : ∀ i st, s0.node i = some st → ∀ x ∈ st.raft.msgs, Calm t M x)
    (hvotes0 : ∀ i st, s0.node i = some st → i ∉ M → st.raft.state = .preCandidate →
      st.raft.term = t → ∀ j ∈ M, (j, true) ∉ st.raft.prs.votes) :
    ∀ n s, a ≤ n → n ≤ b → h[n]? = some s →
      (∀ x ∈ s.net, Calm t M x) ∧ (∀ i st, s.node i = some st → ∀ x ∈ st.raft.msgs, Calm t M x) := by
  intro n s han hnb hs
  have hwin : ∀ n s, a ≤ n → n ≤ b → h[n]? = some s → ls_Hyp t M cfg s := fun n s h1 h2 h3 =>
    ⟨hlease n s h1 h2 h3, hpv n s h1 h2 h3, hnt n s h1 h2 h3, hfix n s h1 h2 h3⟩
  obtain ⟨hw, _⟩ := lease_window_core cfg hne h hh a b t l M hlM hM hwin hrs s0 h0 hlead
    ⟨hterm0, hnet0, hque0, hvotes0⟩ (n - a) s (by omega) (by rw [show a + (n - a) = n by omega]; exact hs)
  exact ⟨hw.net, hw.que⟩

/-! ### Non-vacuity: a kernel-evaluated window in which node 3 campaigns against a leader in lease -/

section Examples

def c16x_store : MemStorage := { confState := { voters := [1, 2, 3] } }
def c16x_config (i : Nat) : Config :=
  { id := i, electionTick := 10, heartbeatTick := 1, checkQuorum := true, preVote := true }
def c16x_cfg : JointConfig := { incoming := [1, 2, 3], outgoing := [] }
def c16x_boot (i : Nat) : NState :=
  match Node.boot (c16x_config i) c16x_store none with
  | .ok (.ok st) => st
  | _ => default
def c16x_stp (st : NState) (op : NodeOp) : NState := c02x_st (Node.call st none op)
def c16x_to (l : List Message) (to : Nat) : Message := (l.filter (fun m => m.to == to)).head!

def c16x_a1 := c16x_stp (c16x_boot 1) .campaign
def c16x_pv12 := c16x_to c16x_a1.raft.msgs 2
def c16x_a2 := c16x_stp c16x_a1 .drain
def c16x_b1 := c16x_stp (c16x_boot 2) (.step c16x_pv12)
def c16x_pvr21 := c16x_to c16x_b1.raft.msgs 1
def c16x_b2 := c16x_stp c16x_b1 .drain
def c16x_a3 := c16x_stp c16x_a2 (.step c16x_pvr21)
def c16x_a4 := c16x_stp c16x_a3 .stabilize
def c16x_rv12 := c16x_to c16x_a4.raft.msgs 2
def c16x_rv13 := c16x_to c16x_a4.raft.msgs 3
def c16x_a5 := c16x_stp c16x_a4 .drain
def c16x_b3 := c16x_stp c16x_b2 (.step c16x_rv12)
def c16x_b4 := c16x_stp c16x_b3 .stabilize
def c16x_vr21 := c16x_to c16x_b4.raft.msgs 1
def c16x_b5 := c16x_stp c16x_b4 .drain
def c16x_c1 := c16x_stp (c16x_boot 3) (.step c16x_rv13)
def c16x_c2 := c16x_stp c16x_c1 .stabilize
def c16x_a6 := c16x_stp c16x_a5 (.step c16x_vr21)
def c16x_app12 := c16x_to c16x_a6.raft.msgs 2
def c16x_a7 := c16x_stp c16x_a6 .drain
def c16x_b6 := c16x_stp c16x_b5 (.step c16x_app12)
def c16x_c3 := c16x_stp c16x_c2 .campaign
def c16x_pv32 := c16x_to (c16x_c3.raft.msgs.filter (fun m => m.msgType == .msgRequestPreVote)) 2
def c16x_pv31 := c16x_to (c16x_c3.raft.msgs.filter (fun m => m.msgType == .msgRequestPreVote)) 1
def c16x_c4 := c16x_stp c16x_c3 .drain
def c16x_b7 := c16x_stp c16x_b6 (.step c16x_pv32)
def c16x_a8 := c16x_stp c16x_a7 (.step c16x_pv31)

def c16x_send (s : Sys) (i : Nat) (st st' : NState) : Sys :=
  { (s.setNode i st') with net := s.net ++ st.raft.msgs }

def c16x_s0 : Sys := { nodes := [(1, c16x_boot 1), (2, c16x_boot 2), (3, c16x_boot 3)], net := [] }
def c16x_s1 := c16x_s0.setNode 1 c16x_a1
def c16x_s2 := c16x_send c16x_s1 1 c16x_a1 c16x_a2
def c16x_s3 := c16x_s2.setNode 2 c16x_b1
def c16x_s4 := c16x_send c16x_s3 2 c16x_b1 c16x_b2
def c16x_s5 := c16x_s4.setNode 1 c16x_a3
def c16x_s6 := c16x_s5.setNode 1 c16x_a4
def c16x_s7 := c16x_send c16x_s6 1 c16x_a4 c16x_a5
def c16x_s8 := c16x_s7.setNode 2 c16x_b3
def c16x_s9 := c16x_s8.setNode 2 c16x_b4
def c16x_s10 := c16x_send c16x_s9 2 c16x_b4 c16x_b5
def c16x_s11 := c16x_s10.setNode 3 c16x_c1
def c16x_s12 := c16x_s11.setNode 3 c16x_c2
def c16x_s13 := c16x_s12.setNode 1 c16x_a6
def c16x_s14 := c16x_send c16x_s13 1 c16x_a6 c16x_a7
def c16x_s15 := c16x_s14.setNode 2 c16x_b6
def c16x_s16 := c16x_s15.setNode 3 c16x_c3
def c16x_s17 := c16x_send c16x_s16 3 c16x_c3 c16x_c4
def c16x_s18 := c16x_s17.setNode 2 c16x_b7
def c16x_s19 := c16x_s18.setNode 1 c16x_a8

theorem c16x_call (s : Sys) (i : Nat) (st : NState) (op : NodeOp) (hn : s.node i = some st)
    (hop : appOp op = true) (hok : c02x_ok (Node.call st none op) = true) :
    Step s (s.setNode i (c16x_stp st op)) :=
  Step.call s i st _ none op _ hn hop (c02x_out _ hok)

theorem c16x_deliver (s : Sys) (i : Nat) (st : NState) (m : Message) (hn : s.node i = some st)
    (hm : m ∈ s.net) (hto : m.to = i) (hok : c02x_ok (Node.call st none (.step m)) = true) :
    Step s (s.setNode i (c16x_stp st (.step m))) :=
  Step.deliver s i st _ none m _ hn hm hto (c02x_out _ hok)

theorem c16x_sendStep (s : Sys) (i : Nat) (st : NState) (hn : s.node i = some st)
    (hp : hsPersisted st) : Step s (c16x_send s i st (c16x_stp st .drain)) :=
  Step.send s i st _ hn hp rfl

set_option maxRecDepth 100000 in
theorem c16x_init : Init c16x_s0 := by
  refine ⟨rfl, ?_⟩
  intro i st hn
  have hm := c02_lookup_mem _ i st hn
  simp only [c16x_s0, List.mem_cons, Prod.mk.injEq, List.not_mem_nil, or_false] at hm
  have hb : ∀ k, c02x_ok (match Node.boot (c16x_config k) c16x_store none with
      | .ok (.ok st) => (.ok (.ok, st) : Out) | _ => .panic "") = true →
      Node.boot (c16x_config k) c16x_store none = .ok (.ok (c16x_boot k)) := by
    intro k hk
    unfold c16x_boot
    split at hk
    · rename_i st heq; rw [heq]
    · cases hk
  rcases hm with ⟨rfl, rfl⟩ | ⟨rfl, rfl⟩ | ⟨rfl, rfl⟩
  · exact ⟨c16x_config 1, c16x_store, none, rfl, hb 1 (by decide)⟩
  · exact ⟨c16x_config 2, c16x_store, none, rfl, hb 2 (by decide)⟩
  · exact ⟨c16x_config 3, c16x_store, none, rfl, hb 3 (by decide)⟩

set_option maxRecDepth 100000 in
theorem c16x_step1 : Step c16x_s0 c16x_s1 := c16x_call _ 1 _ .campaign rfl rfl (by decide)
set_option maxRecDepth 100000 in
theorem c16x_step2 : Step c16x_s1 c16x_s2 := c16x_sendStep _ 1 _ rfl ⟨by decide, by decide⟩
set_option maxRecDepth 100000 in
theorem c16x_step3 : Step c16x_s2 c16x_s3 :=
  c16x_deliver _ 2 _ c16x_pv12 rfl (by decide) (by decide) (by decide)
set_option maxRecDepth 100000 in
theorem c16x_step4 : Step c16x_s3 c16x_s4 := c16x_sendStep _ 2 _ rfl ⟨by decide, by decide⟩
set_option maxRecDepth 100000 in
theorem c16x_step5 : Step c16x_s4 c16x_s5 :=
  c16x_deliver _ 1 _ c16x_pvr21 rfl (by decide) (by decide) (by decide)
set_option maxRecDepth 100000 in
theorem c16x_step6 : Step c16x_s5 c16x_s6 := c16x_call _ 1 _ .stabilize rfl rfl (by decide)
set_option maxRecDepth 100000 in
theorem c16x_step7 : Step c16x_s6 c16x_s7 := c16x_sendStep _ 1 _ rfl ⟨by decide, by decide⟩
set_option maxRecDepth 100000 in
theorem c16x_step8 : Step c16x_s7 c16x_s8 :=
  c16x_deliver _ 2 _ c16x_rv12 rfl (by decide) (by decide) (by decide)
set_option maxRecDepth 100000 in
theorem c16x_step9 : Step c16x_s8 c16x_s9 := c16x_call _ 2 _ .stabilize rfl rfl (by decide)
set_option maxRecDepth 100000 in
theorem c16x_step10 : Step c16x_s9 c16x_s10 := c16x_sendStep _ 2 _ rfl ⟨by decide, by decide⟩
set_option maxRecDepth 100000 in
theorem c16x_step11 : Step c16x_s10 c16x_s11 :=
  c16x_deliver _ 3 _ c16x_rv13 rfl (by decide) (by decide) (by decide)
set_option maxRecDepth 100000 in
theorem c16x_step12 : Step c16x_s11 c16x_s12 := c16x_call _ 3 _ .stabilize rfl rfl (by decide)
set_option maxRecDepth 100000 in
theorem c16x_step13 : Step c16x_s12 c16x_s13 :=
  c16x_deliver _ 1 _ c16x_vr21 rfl (by decide) (by decide) (by decide)
set_option maxRecDepth 100000 in
theorem c16x_step14 : Step c16x_s13 c16x_s14 := c16x_sendStep _ 1 _ rfl ⟨by decide, by decide⟩
set_option maxRecDepth 100000 in
theorem c16x_step15 : Step c16x_s14 c16x_s15 :=
  c16x_deliver _ 2 _ c16x_app12 rfl (by decide) (by decide) (by decide)
set_option maxRecDepth 100000 in
theorem c16x_step16 : Step c16x_s15 c16x_s16 := c16x_call _ 3 _ .campaign rfl rfl (by decide)
set_option maxRecDepth 100000 in
theorem c16x_step17 : Step c16x_s16 c16x_s17 := c16x_sendStep _ 3 _ rfl ⟨by decide, by decide⟩
set_option maxRecDepth 100000 in
theorem c16x_step18 : Step c16x_s17 c16x_s18 :=
  c16x_deliver _ 2 _ c16x_pv32 rfl (by decide) (by decide) (by decide)
set_option maxRecDepth 100000 in
theorem c16x_step19 : Step c16x_s18 c16x_s19 :=
  c16x_deliver _ 1 _ c16x_pv31 rfl (by decide) (by decide) (by decide)

def c16x_hist : List Sys :=
  [c16x_s0, c16x_s1, c16x_s2, c16x_s3, c16x_s4, c16x_s5, c16x_s6, c16x_s7, c16x_s8, c16x_s9, c16x_s10, c16x_s11, c16x_s12, c16x_s13, c16x_s14, c16x_s15, c16x_s16, c16x_s17, c16x_s18, c16x_s19]

theorem c16x_history : History c16x_hist := by
  have h0 : History [c16x_s0] := History.init _ c16x_init
  have h1 : History [c16x_s0, c16x_s1] :=
    History.step [] _ _ h0 c16x_step1
  have h2 : History [c16x_s0, c16x_s1, c16x_s2] :=
    History.step [c16x_s0] _ _ h1 c16x_step2
  have h3 : History [c16x_s0, c16x_s1, c16x_s2, c16x_s3] :=
    History.step [c16x_s0, c16x_s1] _ _ h2 c16x_step3
  have h4 : History [c16x_s0, c16x_s1, c16x_s2, c16x_s3, c16x_s4] :=
    History.step [c16x_s0, c16x_s1, c16x_s2] _ _ h3 c16x_step4
  have h5 : History [c16x_s0, c16x_s1, c16x_s2, c16x_s3, c16x_s4, c16x_s5] :=
    History.step [c16x_s0, c16x_s1, c16x_s2, c16x_s3] _ _ h4 c16x_step5
  have h6 : History [c16x_s0, c16x_s1, c16x_s2, c16x_s3, c16x_s4, c16x_s5, c16x_s6] :=
    History.step [c16x_s0, c16x_s1, c16x_s2, c16x_s3, c16x_s4] _ _ h5 c16x_step6
  have h7 : History [c16x_s0, c16x_s1, c16x_s2, c16x_s3, c16x_s4, c16x_s5, c16x_s6, c16x_s7] :=
    History.step [c16x_s0, c16x_s1, c16x_s2, c16x_s3, c16x_s4, c16x_s5] _ _ h6 c16x_step7
  have h8 : History [c16x_s0, c16x_s1, c16x_s2, c16x_s3, c16x_s4, c16x_s5, c16x_s6, c16x_s7, c16x_s8] :=
    History.step [c16x_s0, c16x_s1, c16x_s2, c16x_s3, c16x_s4, c16x_s5, c16x_s6] _ _ h7 c16x_step8
  have h9 : History [c16x_s0, c16x_s1, c16x_s2, c16x_s3, c16x_s4, c16x_s5, c16x_s6, c16x_s7, c16x_s8, c16x_s9] :=
    History.step [c16x_s0, c16x_s1, c16x_s2, c16x_s3, c16x_s4, c16x_s5, c16x_s6, c16x_s7] _ _ h8 c16x_step9
  have h10 : History [c16x_s0, c16x_s1, c16x_s2, c16x_s3, c16x_s4, c16x_s5, c16x_s6, c16x_s7, c16x_s8, c16x_s9, c16x_s10] :=
    History.step [c16x_s0, c16x_s1, c16x_s2, c16x_s3, c16x_s4, c16x_s5, c16x_s6, c16x_s7, c16x_s8] _ _ h9 c16x_step10
  have h11 : History [c16x_s0, c16x_s1, c16x_s2, c16x_s3, c16x_s4, c16x_s5, c16x_s6, c16x_s7, c16x_s8, c16x_s9, c16x_s10, c16x_s11] :=
    History.step [c16x_s0, c16x_s1, c16x_s2, c16x_s3, c16x_s4, c16x_s5, c16x_s6, c16x_s7, c16x_s8, c16x_s9] _ _ h10 c16x_step11
  have h12 : History [c16x_s0, c16x_s1, c16x_s2, c16x_s3, c16x_s4, c16x_s5, c16x_s6, c16x_s7, c16x_s8, c16x_s9, c16x_s10, c16x_s11, c16x_s12] :=
    History.step [c16x_s0, c16x_s1, c16x_s2, c16x_s3, c16x_s4, c16x_s5, c16x_s6, c16x_s7, c16x_s8, c16x_s9, c16x_s10] _ _ h11 c16x_step12
  have h13 : History [c16x_s0, c16x_s1, c16x_s2, c16x_s3, c16x_s4, c16x_s5, c16x_s6, c16x_s7, c16x_s8, c16x_s9, c16x_s10, c16x_s11, c16x_s12, c16x_s13] :=
    History.step [c16x_s0, c16x_s1, c16x_s2, c16x_s3, c16x_s4, c16x_s5, c16x_s6, c16x_s7, c16x_s8, c16x_s9, c16x_s10, c16x_s11] _ _ h12 c16x_step13
  have h14 : History [c16x_s0, c16x_s1, c16x_s2, c16x_s3, c16x_s4, c16x_s5, c16x_s6, c16x_s7, c16x_s8, c16x_s9, c16x_s10, c16x_s11, c16x_s12, c16x_s13, c16x_s14] :=
    History.step [c16x_s0, c16x_s1, c16x_s2, c16x_s3, c16x_s4, c16x_s5, c16x_s6, c16x_s7, c16x_s8, c16x_s9, c16x_s10, c16x_s11, c16x_s12] _ _ h13 c16x_step14
  have h15 : History [c16x_s0, c16x_s1, c16x_s2, c16x_s3, c16x_s4, c16x_s5, c16x_s6, c16x_s7, c16x_s8, c16x_s9, c16x_s10, c16x_s11, c16x_s12, c16x_s13, c16x_s14, c16x_s15] :=
    History.step [c16x_s0, c16x_s1, c16x_s2, c16x_s3, c16x_s4, c16x_s5, c16x_s6, c16x_s7, c16x_s8, c16x_s9, c16x_s10, c16x_s11, c16x_s12, c16x_s13] _ _ h14 c16x_step15
  have h16 : History [c16x_s0, c16x_s1, c16x_s2, c16x_s3, c16x_s4, c16x_s5, c16x_s6, c16x_s7, c16x_s8, c16x_s9, c16x_s10, c16x_s11, c16x_s12, c16x_s13, c16x_s14, c16x_s15, c16x_s16] :=
    History.step [c16x_s0, c16x_s1, c16x_s2, c16x_s3, c16x_s4, c16x_s5, c16x_s6, c16x_s7, c16x_s8, c16x_s9, c16x_s10, c16x_s11, c16x_s12, c16x_s13, c16x_s14] _ _ h15 c16x_step16
  have h17 : History [c16x_s0, c16x_s1, c16x_s2, c16x_s3, c16x_s4, c16x_s5, c16x_s6, c16x_s7, c16x_s8, c16x_s9, c16x_s10, c16x_s11, c16x_s12, c16x_s13, c16x_s14, c16x_s15, c16x_s16, c16x_s17] :=
    History.step [c16x_s0, c16x_s1, c16x_s2, c16x_s3, c16x_s4, c16x_s5, c16x_s6, c16x_s7, c16x_s8, c16x_s9, c16x_s10, c16x_s11, c16x_s12, c16x_s13, c16x_s14, c16x_s15] _ _ h16 c16x_step17
  have h18 : History [c16x_s0, c16x_s1, c16x_s2, c16x_s3, c16x_s4, c16x_s5, c16x_s6, c16x_s7, c16x_s8, c16x_s9, c16x_s10, c16x_s11, c16x_s12, c16x_s13, c16x_s14, c16x_s15, c16x_s16, c16x_s17, c16x_s18] :=
    History.step [c16x_s0, c16x_s1, c16x_s2, c16x_s3, c16x_s4, c16x_s5, c16x_s6, c16x_s7, c16x_s8, c16x_s9, c16x_s10, c16x_s11, c16x_s12, c16x_s13, c16x_s14, c16x_s15, c16x_s16] _ _ h17 c16x_step18
  have h19 : History [c16x_s0, c16x_s1, c16x_s2, c16x_s3, c16x_s4, c16x_s5, c16x_s6, c16x_s7, c16x_s8, c16x_s9, c16x_s10, c16x_s11, c16x_s12, c16x_s13, c16x_s14, c16x_s15, c16x_s16, c16x_s17, c16x_s18, c16x_s19] :=
    History.step [c16x_s0, c16x_s1, c16x_s2, c16x_s3, c16x_s4, c16x_s5, c16x_s6, c16x_s7, c16x_s8, c16x_s9, c16x_s10, c16x_s11, c16x_s12, c16x_s13, c16x_s14, c16x_s15, c16x_s16, c16x_s17] _ _ h18 c16x_step19
  exact h19


/-! the hypotheses of `C16_cluster_lease_protects` on the window `[15, 19]`, by evaluation -/

def c16x_inLease (s : Sys) (j : Nat) : Bool :=
  match s.node j with
  | some st => decide (st.raft.term = 1) && st.raft.checkQuorum && decide (st.raft.leaderId ≠ 0) &&
      decide (st.raft.electionElapsed < st.raft.electionTimeout)
  | none => false

theorem c16x_inLease_ok {s : Sys} {j : Nat} (h : c16x_inLease s j = true) : InLease s j 1 := by
  unfold c16x_inLease at h
  split at h
  · rename_i st hn
    simp only [Bool.and_eq_true, decide_eq_true_eq] at h
    exact ⟨st, hn, h.1.1.1, h.1.1.2, h.1.2, h.2⟩
  · cases h

def c16x_nodeOk (st : NState) : Bool :=
  decide (st.raft.prs.voters = c16x_cfg) && st.raft.preVote && decide (st.raft.leadTransferee = none) &&
    decide (st.raft.term ≤ 1) && decide (st.raft.raftLog.store.hardState.term ≤ 1)

def c16x_nodesOk (s : Sys) : Bool := s.nodes.all (fun p => c16x_nodeOk p.2)

theorem c16x_nodesOk_ok {s : Sys} (h : c16x_nodesOk s = true) (i : Nat) (st : NState)
    (hn : s.node i = some st) :
    st.raft.prs.voters = c16x_cfg ∧ st.raft.preVote = true ∧ st.raft.leadTransferee = none ∧
    st.raft.term ≤ 1 ∧ st.raft.raftLog.store.hardState.term ≤ 1 := by
  have hm := c02_lookup_mem s.nodes i st hn
  unfold c16x_nodesOk at h
  rw [List.all_eq_true] at h
  have := h _ hm
  unfold c16x_nodeOk at this
  simp only [Bool.and_eq_true, decide_eq_true_eq] at this
  exact ⟨this.1.1.1.1, this.1.1.1.2, this.1.1.2, this.1.2, this.2⟩

def c16x_msgOk (x : Message) : Bool :=
  decide (x.term ≤ 1) && (x.msgType != .msgTimeoutNow) && decide (x.context ≠ campaignTransfer)

theorem c16x_msgOk_ok {x : Message} (h : c16x_msgOk x = true) : Calm 1 [1, 2] x := by
  unfold c16x_msgOk at h
  simp only [Bool.and_eq_true, decide_eq_true_eq, bne_iff_ne, ne_eq] at h
  exact ⟨Or.inl h.1.1, h.1.2, fun _ => h.2⟩

def c16x_startOk (s : Sys) : Bool :=
  s.net.all c16x_msgOk &&
    s.nodes.all (fun p => p.2.raft.msgs.all c16x_msgOk && (p.2.raft.state != .preCandidate))

theorem c16x_window (n : Nat) (s : Sys) (h1 : 15 ≤ n) (h2 : n ≤ 19) (hs : c16x_hist[n]? = some s) :
    s = c16x_s15 ∨ s = c16x_s16 ∨ s = c16x_s17 ∨ s = c16x_s18 ∨ s = c16x_s19 := by
  have : n = 15 ∨ n = 16 ∨ n = 17 ∨ n = 18 ∨ n = 19 := by omega
  rcases this with rfl | rfl | rfl | rfl | rfl <;>
    simp only [c16x_hist, List.getElem?_cons_succ, List.getElem?_cons_zero, Option.some.injEq] at hs <;>
    simp [hs]

set_option maxRecDepth 100000 in
theorem c16x_window_ok (s : Sys)
    (h : s = c16x_s15 ∨ s = c16x_s16 ∨ s = c16x_s17 ∨ s = c16x_s18 ∨ s = c16x_s19) :
    c16x_nodesOk s = true ∧ c16x_inLease s 1 = true ∧ c16x_inLease s 2 = true := by
  rcases h with rfl | rfl | rfl | rfl | rfl <;> decide

set_option maxRecDepth 100000 in
theorem c16x_start_ok : c16x_startOk c16x_s15 = true := by decide

set_option maxRecDepth 100000 in
/-- **non-vacuity of `C16_cluster_lease_protects`**: a history of `ClusterSem` over three nodes with
`pre_vote` and `check_quorum` on (voters `{1, 2, 3}`).  States 0–15: node 1 wins a pre-vote and an
election for term 1 with the vote of node 2 (node 3 votes too and learns term 1) and replicates its
first entry to node 2, which is then in lease.  Window `[15, 19]`, `M = {1, 2}`, `l = 1`, `t = 1`:
node 3 calls `campaign`, becomes a pre-candidate of term 1 and sends pre-vote requests of term 2,
which are delivered to node 2 and to the leader.  All hypotheses hold; the theorem gives: node 1
leads term 1 and nobody is beyond term 1 in every state of the window. -/
theorem C16_cluster_lease_nonvacuous :
    ∀ n s, 15 ≤ n → n ≤ 19 → c16x_hist[n]? = some s →
      leads s 1 1 ∧ ∀ i st, s.node i = some st → st.raft.term ≤ 1 := by
  have hq : IsJointQuorum c16x_cfg [1, 2] := by
    unfold IsJointQuorum IsQuorum; decide
  have hwin := fun n s h1 h2 hs => c16x_window_ok s (c16x_window n s h1 h2 hs)
  have hstart := c16x_start_ok
  unfold c16x_startOk at hstart
  simp only [Bool.and_eq_true, List.all_eq_true, bne_iff_ne, ne_eq] at hstart
  refine C16_cluster_lease_protects c16x_cfg (Or.inl (by decide)) c16x_hist c16x_history 15 19 1 1 [1, 2]
    (by simp) hq ?_ ?_ ?_ ?_ ?_ c16x_s15 rfl ⟨c16x_a7, rfl, by decide, by decide⟩ ?_ ?_ ?_ ?_
  · intro n s h1 h2 hs i st hn
    exact (c16x_nodesOk_ok (hwin n s h1 h2 hs).1 i st hn).1
  · intro n s h1 h2 hs j hj
    simp only [List.mem_cons, List.not_mem_nil, or_false] at hj
    rcases hj with rfl | rfl
    · exact c16x_inLease_ok (hwin n s h1 h2 hs).2.1
    · exact c16x_inLease_ok (hwin n s h1 h2 hs).2.2
  · intro n s h1 h2 hs i st hn _
    exact (c16x_nodesOk_ok (hwin n s h1 h2 hs).1 i st hn).2.1
  · intro n s h1 h2 hs i st hn
    exact (c16x_nodesOk_ok (hwin n s h1 h2 hs).1 i st hn).2.2.1
  · intro n s s' h1 h2 hs _ k st hn _
    exact (c16x_nodesOk_ok (hwin n s h1 (by omega) hs).1 k st hn).2.2.2.2
  · intro i st hn
    exact (c16x_nodesOk_ok (c16x_window_ok _ (Or.inl rfl)).1 i st hn).2.2.2.1
  · intro x hx
    exact c16x_msgOk_ok (hstart.1 x hx)
  · intro i st hn x hx
    exact c16x_msgOk_ok ((hstart.2 _ (c02_lookup_mem _ i st hn)).1 x hx)
  · intro i st hn _ hpc
    exact absurd hpc (hstart.2 _ (c02_lookup_mem _ i st hn)).2


set_option maxRecDepth 100000 in
/-- … and the campaign of node 3 did take place inside the window: in state 16 node 3 is a
pre-candidate of term 1 with only its own pre-vote; its pre-vote requests of term 2 are in the transport
from state 17 on; node 2 (state 18) and the leader (state 19) were offered them and queued no answer -/
theorem c16x_disruption :
    c16x_c3.raft.state = .preCandidate ∧ c16x_c3.raft.term = 1 ∧ c16x_c3.raft.prs.votes = [(3, true)] ∧
    c16x_pv32 ∈ c16x_s17.net ∧ c16x_pv31 ∈ c16x_s17.net ∧
    c16x_pv32.msgType = .msgRequestPreVote ∧ c16x_pv32.term = 2 ∧ c16x_pv32.frm = 3 ∧ c16x_pv32.to = 2 ∧
    c16x_pv31.msgType = .msgRequestPreVote ∧ c16x_pv31.term = 2 ∧ c16x_pv31.frm = 3 ∧ c16x_pv31.to = 1 ∧
    c16x_b7.raft.msgs = c16x_b6.raft.msgs ∧ c16x_a8.raft.msgs = c16x_a7.raft.msgs := by
  decide


/-! ### Why `hrs` is there: a restart can come back ahead of the node's own term

`persist_snap` of a snapshot whose term is later than the node's term raises the *stored* term
(`MemStorage::apply_snapshot` writes `max(term, snapshot term)`) while the in-memory term stays; a
crash and restart then rebuilds the node at the stored term.  (The node of `C02c`: follower of term 2
holding a pending snapshot of term 7.)  With `t = 2` this node — outside `M` — would be at term 7
after its restart without any vote: the hypothesis `hrs` excludes exactly this. -/

set_option maxRecDepth 100000 in
example :
    let p1 := c02x_st (Node.call c02x_snapNode none .persistSnap)
    c02x_ok (Node.call c02x_snapNode none .persistSnap) = true ∧
    (p1.raft.term, p1.raft.raftLog.store.hardState.term) = (2, 7) ∧
    (match Node.boot (c16x_config 2) p1.raft.raftLog.store none with
      | .ok (.ok st) => st.raft.term
      | _ => 0) = 7 := by
  decide

/-! ### Why the start conditions on pre-vote grants are there (`hnet0`, `hque0`, `hvotes0`)

Same cluster, but node 3 pre-campaigns *before* node 2 has heard from the new leader: node 2 (term 1,
`leader_id = 0`, not in lease) grants the pre-vote of term 2.  Then node 2 receives the leader's append
and is in lease — a window could start here —, and the grant, still in flight, reaches node 3, which
now has a pre-vote quorum `{3, 2}` and starts a real election at term 2.  `Calm` excludes exactly such
a message (a granted pre-vote response of term `t + 1` from a member of `M`) at the start of the
window; inside the window no member of `M` produces one (`C16_cluster_lease_window_calm`). -/

set_option maxRecDepth 100000 in
example :
    let b5g := c16x_stp c16x_b5 (.step c16x_pv32)
    let grant := c16x_to (b5g.raft.msgs.filter (fun m => m.msgType == .msgRequestPreVoteResponse)) 3
    let b6g := c16x_stp (c16x_stp b5g .drain) (.step c16x_app12)
    let c5 := c16x_stp c16x_c4 (.step grant)
    (grant.msgType, grant.reject, grant.term, grant.frm, grant.to) =
      (.msgRequestPreVoteResponse, false, 2, 2, 3) ∧
    (b6g.raft.term, b6g.raft.leaderId, b6g.raft.checkQuorum, b6g.raft.electionElapsed) = (1, 1, true, 0) ∧
    (c16x_c4.raft.state, c16x_c4.raft.term) = (.preCandidate, 1) ∧
    (c5.raft.state, c5.raft.term) = (.candidate, 2) := by
  decide

/-! ### "… except an explicitly requested leadership transfer" (`hnt`, and `Calm` on `MsgTimeoutNow` / the
transfer context)

From the first state of the window: the leader processes node 2's append response, the application
calls `transfer_leader(2)`; the leader records `lead_transferee = Some(2)` — which `hnt` excludes — and,
node 2 being caught up, sends `MsgTimeoutNow`; node 2, *in lease*, campaigns at once for term 2
(no pre-vote) with vote requests carrying the `CampaignTransfer` context, which the lease does not
stop: the leader steps down to term 2. -/

set_option maxRecDepth 100000 in
example :
    let ar21 := c16x_to c16x_b6.raft.msgs 1
    let a7t := c16x_stp (c16x_stp c16x_a7 (.step ar21)) (.transferLeader 2)
    let tn := c16x_to (a7t.raft.msgs.filter (fun m => m.msgType == .msgTimeoutNow)) 2
    let b6t := c16x_stp (c16x_stp c16x_b6 .drain) (.step tn)
    let rvt := c16x_to (b6t.raft.msgs.filter (fun m => m.msgType == .msgRequestVote)) 1
    let a7x := c16x_stp (c16x_stp a7t .drain) (.step rvt)
    a7t.raft.leadTransferee = some 2 ∧ (tn.msgType, tn.term, tn.to) = (.msgTimeoutNow, 1, 2) ∧
    (b6t.raft.state, b6t.raft.term) = (.candidate, 2) ∧
    (rvt.msgType, rvt.term) = (.msgRequestVote, 2) ∧ rvt.context = campaignTransfer ∧
    (a7x.raft.state, a7x.raft.term) = (.follower, 2) := by
  decide

end Examples

end RaftProps.C16
