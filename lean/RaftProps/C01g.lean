import RaftProofs.ClusterSnap3D

/-!
# C01 / C03 / C04, cluster level, with log compaction, **without the proof gaps `anch` and `norir`**

`RaftProps/C01e.lean` (part 1, namespace `RaftProps.C01e`) proves the commit layer of `ClusterSem` for
histories in which the applications compact their logs, under the bundle `Snap.Hyp3`, which contains
two *proof gaps* — facts about the transport that should follow from the other hypotheses:

* `anch`: every `MsgAppend` of the transport is anchored inside its sender's log (`log_term ≠ 0`, or the
  anchor is not above the common initial snapshot point `c0`);
* `norir`: no `MsgReadIndexResp` is ever in the transport.

`RaftProps/C01d.lean` discharged both for the layer *without* compaction.  This file does the same for
the layer **with compaction**: it states the theorems of C01e part 1 under **`Snap.Hyp3w`** =
`Snap.Hyp3` without `anch` and without `norir` (`RaftProofs/ClusterSnapB/K.lean`: `Snap.Hyp` + `nolone`
+ `nopend` + `first0` + `initc` + `snapt0`), and the two discharged gaps as theorems of their own
(`C01g_appends_anchored`, `C01g_read_index_resp_source`, `C01g_progress_within_log`).

## What is new with compaction

A leader anchors a `MsgAppend` at `next_idx - 1` with the term `term(next_idx - 1)`, and
`RaftLog::term` answers `Ok(0)` for an index *below* the snapshot point (raft_log.rs:115-118) — a
`MsgAppend` with `log_term = 0` above `c0` would be accepted by a follower whose log ends before the
anchor (`match_term(i, 0)` holds beyond the last index).  It is never sent: `maybe_send_append` first
reads the entries from `next_idx`, which answers `Compacted` below the first index, and then queues a
`MsgSnapshot` instead (under `nosnap` such a node is mute).  The per-call relation of
`RaftProofs/ClusterCommit4A–4I` was extended by this fact (`PW.fi`, `PW.qf`, `PR.qf`: *every
`MsgAppend` queued in a call is anchored at or above the snapshot point the log had when the call
started*), and by the `compact` case of `call_pr` (`Snap.call_pr'`: a compaction touches only the
storage).  An anchor *at* the snapshot point carries a known term only while the snapshot point is `c0`
(`Snap.snapTerm_c0`: a compaction forgets the term; `term` then answers `Compacted` and the snapshot
path is taken again).

The `readIndexResp` case of the main induction (`Snap.nctm_step`, `RaftProofs/ClusterSnapO.lean`) is
proved from `rirs` (the sender led the message's term with a commit index that covered the message's
index), as in `RaftProofs/ClusterCommit3B.lean`, for the ghost logs: above `c0` the term a follower
answers for `m.index` is the term of a retained entry, so `Snap.entry_prov` applies.

Cluster level: `RaftProofs/ClusterSnap3A–3C.lean` (`Snap.ack_bound`, `Snap.ci_all`,
`Snap.Hyp3w.toHyp3a`), the compaction versions of `ClusterCommit4J–4L`; the cluster invariant
`Cluster.CI` is reused verbatim.

Still hypotheses: `nosnap` / `nopend` (no snapshot ever reaches the transport, no node ever has a
pending snapshot: part 2 of C01e), `NoBatch`, `nolone`, `first0`, `initc`, `snapt0`, the `Snap.KStep`
contract (`CompactOk`, `commit_apply`, persist-before-send).
-/
namespace RaftProps.C01g
open RaftModel RaftModel.Cluster RaftModel.Node RaftModel.Raft RaftModel.Raft.CC

/-! ## The two discharged gaps -/

/-- **the gap `anch` of C01e part 1, as a theorem**: in every state of a history with compaction
under `Snap.Hyp3w`, every `MsgAppend` in the transport is anchored inside its sender's log
(`log_term ≠ 0`, or the anchor is at or below the common initial snapshot point) — and so is every
queued one unless a `MsgSnapshot` is queued with it. -/
theorem C01g_appends_anchored (cfg : JointConfig) (c0 : Nat) (h : List Sys)
    (H : Snap.Hyp3w cfg c0 h) (n : Nat) (s : Sys) (hn : h[n]? = some s) :
    (∀ x ∈ s.net, x.msgType = .msgAppend → x.logTerm ≠ 0 ∨ x.index ≤ c0) ∧
    (∀ i st, s.node i = some st → ∀ x ∈ st.raft.msgs, x.msgType = .msgAppend →
      (∃ y ∈ st.raft.msgs, y.msgType = .msgSnapshot) ∨ x.logTerm ≠ 0 ∨ x.index ≤ c0) :=
  ⟨(Snap.ci_all H n s hn).na, (Snap.ci_all H n s hn).qa⟩

/-- **progress within the log**, with compaction: every progress of a leader has
`matched ≤ last_index`, `next_idx ≤ last_index + 1` and is not in the `Snapshot` state — unless a
`MsgSnapshot` is queued at that leader (which `nosnap` never lets reach the transport; with compaction
this is how a leader reacts to a follower that needs compacted entries). -/
theorem C01g_progress_within_log (cfg : JointConfig) (c0 : Nat) (h : List Sys)
    (H : Snap.Hyp3w cfg c0 h) (n : Nat) (s : Sys) (hn : h[n]? = some s) (i : Nat) (st : NState)
    (hi : s.node i = some st) (hl : st.raft.state = .leader) :
    (∃ y ∈ st.raft.msgs, y.msgType = .msgSnapshot) ∨
    ∀ id pr, st.raft.prs.get id = some pr →
      pr.matched ≤ st.raft.raftLog.lastIndex ∧ pr.nextIdx ≤ st.raft.raftLog.lastIndex + 1 ∧
      pr.state ≠ .snapshot :=
  ((Snap.ci_all H n s hn).node i st hi).po hl |>.imp (fun x => x) (fun c _ _ hg => c.get hg)

/-- **the gap `norir` of C01e part 1, lifted**: a `MsgReadIndexResp` in the transport (or in a queue)
was queued by a node that led the message's term, at a moment when its commit index covered the
message's index; and every pending read index of a leader is at most its commit index. -/
theorem C01g_read_index_resp_source (cfg : JointConfig) (c0 : Nat) (h : List Sys)
    (H : Snap.Hyp3w cfg c0 h) (n : Nat) (s : Sys) (hn : h[n]? = some s) :
    (∀ x, (x ∈ s.net ∨ ∃ i st, s.node i = some st ∧ x ∈ st.raft.msgs) →
      x.msgType = .msgReadIndexResp →
      ∃ n0 s0 w stw, n0 ≤ n ∧ h[n0]? = some s0 ∧ s0.node w = some stw ∧
        stw.raft.state = .leader ∧ stw.raft.term = x.term ∧
        x.index ≤ stw.raft.raftLog.committed) ∧
    (∀ i st, s.node i = some st → st.raft.state = .leader →
      ∀ p ∈ st.raft.readOnly.pendingReadIndex, p.2.index ≤ st.raft.raftLog.committed) := by
  have c := Snap.ci_all H n s hn
  refine ⟨fun x hx hty => ?_, fun i st hi hl => (c.node i st hi).rd hl⟩
  rcases hx with hx | ⟨i, st, hi, hx⟩
  · exact c.nr x hx hty
  · exact c.qr i st hi x hx hty

/-- **`SaneAnchors` of `RaftProps/C05d.lean` with compaction** (for `c0 = 0`): no `MsgAppend` in the
transport is anchored in the void (`log_term = 0` at an anchor `≠ 0`) — in particular not at a
compacted index —, and none queued at a node unless a `MsgSnapshot` is queued there too. -/
theorem C01g_sane_anchors (cfg : JointConfig) (h : List Sys) (H : Snap.Hyp3w cfg 0 h)
    (n : Nat) (s : Sys) (hn : h[n]? = some s) :
    (∀ x ∈ s.net, x.msgType = .msgAppend → x.logTerm = 0 → x.index = 0) ∧
    (∀ i st, s.node i = some st → (∀ y ∈ st.raft.msgs, y.msgType ≠ .msgSnapshot) →
      ∀ x ∈ st.raft.msgs, x.msgType = .msgAppend → x.logTerm = 0 → x.index = 0) := by
  obtain ⟨h1, h2⟩ := C01g_appends_anchored cfg 0 h H n s hn
  refine ⟨fun x hx hty hz => ?_, fun i st hi hns x hx hty hz => ?_⟩
  · rcases h1 x hx hty with c | c
    · exact absurd hz c
    · omega
  · rcases h2 i st hi x hx hty with ⟨y, hy, hys⟩ | c | c
    · exact absurd hys (hns y hy)
    · exact absurd hz c
    · omega

/-- **the bundle of the main induction is derived**: `Snap.Hyp3a` (with `anch` and `rirs`) follows from
`Snap.Hyp3w` -/
theorem C01g_hyp3a (cfg : JointConfig) (c0 : Nat) (h : List Sys) (H : Snap.Hyp3w cfg c0 h) :
    Snap.Hyp3a cfg c0 h := H.toHyp3a

/-! ## The statements of C01e part 1 under `Snap.Hyp3w` -/

/-- the commit event of a step that moves the commit index of a node that is leader afterwards -/
theorem ev_of_step {h : List Sys} {n : Nat} {a b : Sys} (ha : h[n]? = some a)
    (hb : h[n + 1]? = some b) {l : Nat} {sta stb : NState} (hla : a.node l = some sta)
    (hlb : b.node l = some stb) (hs : stb.raft.state = .leader)
    (hc : sta.raft.raftLog.committed < stb.raft.raftLog.committed) :
    Ev.ok h ⟨n, l, stb.raft.term, stb.raft.raftLog.committed, stb.raft.raftLog.abs,
      stb.raft.raftLog.persisted⟩ :=
  ⟨a, b, sta, stb, ha, hb, hla, hlb, hs, rfl, hc, rfl, rfl, rfl⟩

/-- the ghost log of the commit event of a step is the ghost log of the leader after the step -/
theorem evF_of_step {h : List Sys} {c0 n l : Nat} {stb : NState} :
    Snap.EvF h c0 ⟨n, l, stb.raft.term, stb.raft.raftLog.committed, stb.raft.raftLog.abs,
      stb.raft.raftLog.persisted⟩ = Snap.FL h c0 stb := rfl

/-- **the ghost logs**: in every state of a history, the logical log and the stored log of every node
have uncompacted versions `FL` / `FS` (`Snap.Full`), which hold the same entries up to the node's
snapshot point; any two uncompacted versions of one log hold the same entries. -/
theorem C01g_ghost_log (cfg : JointConfig) (c0 : Nat) (h : List Sys) (H : Snap.Hyp3w cfg c0 h)
    (m : Nat) (s : Sys) (hm : h[m]? = some s) (v : Nat) (st : NState) (hv : s.node v = some st) :
    Snap.Full (Snap.HistChain h) c0 st.raft.raftLog.abs (Snap.FL h c0 st) ∧
    Snap.Full (Snap.HistChain h) c0 (storeLog st.raft.raftLog.store) (Snap.FS h c0 st) ∧
    (∀ k, k ≤ st.raft.raftLog.abs.snapIdx →
      (Snap.FL h c0 st).entryAt k = (Snap.FS h c0 st).entryAt k) ∧
    (∀ g F F', Snap.Full (Snap.HistChain h) c0 g F → Snap.Full (Snap.HistChain h) c0 g F' →
      ∀ k, F.entryAt k = F'.entryAt k) := by
  have I := Snap.node_full H.toHyp2w m s hm v st hv
  exact ⟨I.log, I.sto, I.pre, fun g F F' h1 h2 => h1.uniq (Snap.hist_agree H.toHyp2w) h2⟩

/-- **C04 `cluster_leader_commit_rule`** with compaction — the commit rule with **durable
acknowledgements**: whenever a step `h[n] → h[n+1]` takes the commit index of a node `l` that is leader
of term `t` after the step from `c` to `c' > c`, the entry at `c'` in its log carries term `t`, and
there is a joint quorum `Q` of `cfg` such that every `j ∈ Q` is

* `l` itself, with `persisted ≥ c'` — and its storage holds its log up to `c'`; or
* the sender of an accepting `MsgAppendResponse` `x` for term `t` with `index ≥ c'` that is in the
  transport before the step, **and in every state of the history whose transport holds `x` the
  storage of `j` reaches `c'` and holds `l`'s log up to `c'`** — the uncompacted versions are equal up
  to `c'`, hence so are the logs at every index both still retain. -/
theorem C04_cluster_leader_commit_rule (cfg : JointConfig) (c0 : Nat) (h : List Sys)
    (H : Snap.Hyp3w cfg c0 h)
    (n : Nat) (a b : Sys) (ha : h[n]? = some a) (hb : h[n + 1]? = some b)
    (l : Nat) (sta stb : NState) (hla : a.node l = some sta) (hlb : b.node l = some stb)
    (t : Nat) (hs : stb.raft.state = .leader) (ht : stb.raft.term = t)
    (hc : sta.raft.raftLog.committed < stb.raft.raftLog.committed) :
    stb.raft.raftLog.term stb.raft.raftLog.committed = .ok t ∧
    ∃ Q, IsJointQuorum cfg Q ∧ ∀ j ∈ Q,
      (j = l ∧ stb.raft.raftLog.committed ≤ stb.raft.raftLog.persisted ∧
        ∀ k, k ≤ stb.raft.raftLog.committed →
          (storeLog stb.raft.raftLog.store).entryAt k = stb.raft.raftLog.abs.entryAt k) ∨
      ∃ x ∈ a.net, x.msgType = .msgAppendResponse ∧ x.reject = false ∧ x.frm = j ∧ x.term = t ∧
        stb.raft.raftLog.committed ≤ x.index ∧
        ∀ (m : Nat) (s : Sys) (stj : NState), h[m]? = some s → x ∈ s.net → s.node j = some stj →
          stb.raft.raftLog.committed ≤ (storeLog stj.raft.raftLog.store).lastIndex ∧
          (∀ k, k ≤ stb.raft.raftLog.committed →
            (Snap.FS h c0 stj).entryAt k = (Snap.FL h c0 stb).entryAt k) ∧
          ∀ k, k ≤ stb.raft.raftLog.committed →
            (storeLog stj.raft.raftLog.store).snapIdx < k → stb.raft.raftLog.abs.snapIdx < k →
            (storeLog stj.raft.raftLog.store).entryAt k = stb.raft.raftLog.abs.entryAt k := by
  have H2 := H.toHyp2w
  obtain ⟨h1, Q, hQ, hq⟩ := H2.toHyp.commit_step n a b ha hb l sta stb hla hlb hs hc
  subst ht
  have hE := ev_of_step ha hb hla hlb hs hc
  obtain ⟨_, hEh, hc0⟩ := Snap.Ev.leaderLog H2 hE
  have ob := Snap.node_ok H2 hb hlb
  have Ib := Snap.node_full H2 (n + 1) b hb l stb hlb
  refine ⟨h1, Q, hQ, fun j hj => ?_⟩
  rcases hq j hj with ⟨g1, g2⟩ | ⟨x, hx, hack, hfrm, hterm, hidx⟩
  · exact .inl ⟨g1, g2, fun k hk => (ob.inv.abs_store_persisted ob.snap (by omega)).symm⟩
  · right
    have hx0 : x.index ≠ 0 := by
      have : c0 < stb.raft.raftLog.committed := hc0
      omega
    have hterm' : x.term = stb.raft.term := by
      rcases hterm with d | d
      · exact d
      · exact absurd d ((Snap.ack_inv H2 n a ha).2 x hx hack hx0).2
    refine ⟨x, hx, hack.1, hack.2, hfrm, hterm', hidx, fun m s stj hm hxs hj => ?_⟩
    have hh := (Snap.sm_all H.toHyp3a hm).rets _ hE j stj hj (.inl ⟨x, hxs, hack, hfrm, hterm', hidx⟩)
    have Ij := Snap.node_full H2 m s hm j stj hj
    obtain ⟨e1, he1, ht1⟩ := hh
    obtain ⟨e2, he2, ht2⟩ := hEh
    have heq := Snap.full_eq_below H2 Ij.sto Ib.log he1 he2 (ht1.trans ht2.symm)
    refine ⟨?_, heq, fun k hk hk1 hk2 => ?_⟩
    · rw [← Ij.sto.last]; exact ((Snap.FS h c0 stj).entryAt_lt he1).2
    · rw [← Ij.sto.ents k hk1, ← Ib.log.ents k hk2]; exact heq k hk

/-- **C03 `cluster_leader_completeness`** with compaction — every entry a leader has committed is in
the log of every leader of a later term: if a step `h[n] → h[n+1]` takes the commit index of `l`, leader
of term `t` after the step, to `c'`, then the log of any node that leads a term `t' > t` in any state
`h[m]` of the history reaches `c'` and holds, at every index up to `c'`, the entry `l` held there — in
the uncompacted versions, hence wherever both logs retain the index. -/
theorem C03_cluster_leader_completeness (cfg : JointConfig) (c0 : Nat) (h : List Sys)
    (H : Snap.Hyp3w cfg c0 h)
    (n : Nat) (a b : Sys) (ha : h[n]? = some a) (hb : h[n + 1]? = some b)
    (l : Nat) (sta stb : NState) (hla : a.node l = some sta) (hlb : b.node l = some stb)
    (hs : stb.raft.state = .leader)
    (hc : sta.raft.raftLog.committed < stb.raft.raftLog.committed)
    (m : Nat) (s : Sys) (hm : h[m]? = some s) (l' : Nat) (st' : NState)
    (hl' : s.node l' = some st') (hs' : st'.raft.state = .leader)
    (ht : stb.raft.term < st'.raft.term) :
    stb.raft.raftLog.committed ≤ st'.raft.raftLog.abs.lastIndex ∧
    (∀ k, k ≤ stb.raft.raftLog.committed →
      (Snap.FL h c0 st').entryAt k = (Snap.FL h c0 stb).entryAt k) ∧
    ∀ k, k ≤ stb.raft.raftLog.committed →
      st'.raft.raftLog.abs.snapIdx < k → stb.raft.raftLog.abs.snapIdx < k →
      st'.raft.raftLog.abs.entryAt k = stb.raft.raftLog.abs.entryAt k := by
  have H2 := H.toHyp2w
  have hE := ev_of_step ha hb hla hlb hs hc
  obtain ⟨_, hEh, _⟩ := Snap.Ev.leaderLog H2 hE
  have hh := (Snap.sm_all H.toHyp3a hm).lc _ hE l' st' hl' hs' ht
  have I' := Snap.node_full H2 m s hm l' st' hl'
  have Ib := Snap.node_full H2 (n + 1) b hb l stb hlb
  obtain ⟨e1, he1, ht1⟩ := hh
  obtain ⟨e2, he2, ht2⟩ := hEh
  have heq := Snap.full_eq_below H2 I'.log Ib.log he1 he2 (ht1.trans ht2.symm)
  refine ⟨?_, heq, fun k hk hk1 hk2 => ?_⟩
  · rw [← I'.log.last]; exact ((Snap.FL h c0 st').entryAt_lt he1).2
  · rw [← I'.log.ents k hk1, ← Ib.log.ents k hk2]; exact heq k hk

/-- **C04 `cluster_follower_commit_sound`** with compaction — *every* commit index is sound: in every
state `h[m]`, what a node `v` has marked committed is at most the common initial snapshot point `c0`,
or it was committed by a leader: there is an earlier step `h[n] → h[n+1]` (`n < m`) that took the commit
index of a node `l`, leader of a term `t ≤ term(v)` after the step, to some `c' ≥ committed(v)`, and the
log of `v` equals the log `l` had then up to `committed(v)` — in the uncompacted versions, hence
wherever both retain the index. -/
theorem C04_cluster_follower_commit_sound (cfg : JointConfig) (c0 : Nat) (h : List Sys)
    (H : Snap.Hyp3w cfg c0 h) (m : Nat) (s : Sys) (hm : h[m]? = some s) (v : Nat) (st : NState)
    (hv : s.node v = some st) :
    st.raft.raftLog.committed ≤ c0 ∨
    ∃ (n : Nat) (a b : Sys) (l : Nat) (sta stb : NState), n < m ∧ h[n]? = some a ∧
      h[n + 1]? = some b ∧ a.node l = some sta ∧ b.node l = some stb ∧
      stb.raft.state = .leader ∧ sta.raft.raftLog.committed < stb.raft.raftLog.committed ∧
      st.raft.raftLog.committed ≤ stb.raft.raftLog.committed ∧ stb.raft.term ≤ st.raft.term ∧
      (∀ k, k ≤ st.raft.raftLog.committed →
        (Snap.FL h c0 st).entryAt k = (Snap.FL h c0 stb).entryAt k) ∧
      ∀ k, k ≤ st.raft.raftLog.committed →
        st.raft.raftLog.abs.snapIdx < k → stb.raft.raftLog.abs.snapIdx < k →
        st.raft.raftLog.abs.entryAt k = stb.raft.raftLog.abs.entryAt k := by
  have H2 := H.toHyp2w
  rcases (Snap.sm_all H.toHyp3a hm).nctm v st hv with c | ⟨E, hE, h2, h3, h4, h5⟩
  · exact .inl c
  · right
    obtain ⟨a, b, sta, stb, ha, hb, hla, hlb, hs, ht, e1, e2, hev, _, hc, _⟩ := Snap.Ev.facts H2 hE
    have I := Snap.node_full H2 m s hm v st hv
    have Ib := Snap.node_full H2 (E.nE + 1) b hb E.l stb hlb
    have hg : ∀ k, k ≤ st.raft.raftLog.committed →
        (Snap.FL h c0 st).entryAt k = (Snap.FL h c0 stb).entryAt k := by
      intro k hk; rw [← hev]; exact h5 k hk
    exact ⟨E.nE, a, b, E.l, sta, stb, h2, ha, hb, hla, hlb, hs, by rw [← e1]; exact hc,
      by rw [← e1]; exact h3, by rw [ht]; exact h4, hg,
      fun k hk hk1 hk2 => by rw [← I.log.ents k hk1, ← Ib.log.ents k hk2]; exact hg k hk⟩

/-- … and so is every **stored** commit index (what a restarted node starts from): it is not ahead of
the commit index, and it is covered by a leader's commit of a term not above the stored term, with the
stored entries. -/
theorem C04_cluster_stored_commit_sound (cfg : JointConfig) (c0 : Nat) (h : List Sys)
    (H : Snap.Hyp3w cfg c0 h) (m : Nat) (s : Sys) (hm : h[m]? = some s) (v : Nat) (st : NState)
    (hv : s.node v = some st) :
    st.raft.raftLog.store.hardState.commit ≤ st.raft.raftLog.committed ∧
    (st.raft.raftLog.store.hardState.commit ≤ c0 ∨
     ∃ (n : Nat) (a b : Sys) (l : Nat) (sta stb : NState), n < m ∧ h[n]? = some a ∧
      h[n + 1]? = some b ∧ a.node l = some sta ∧ b.node l = some stb ∧
      stb.raft.state = .leader ∧ sta.raft.raftLog.committed < stb.raft.raftLog.committed ∧
      st.raft.raftLog.store.hardState.commit ≤ stb.raft.raftLog.committed ∧
      stb.raft.term ≤ st.raft.raftLog.store.hardState.term ∧
      (∀ k, k ≤ st.raft.raftLog.store.hardState.commit →
        (Snap.FS h c0 st).entryAt k = (Snap.FL h c0 stb).entryAt k) ∧
      ∀ k, k ≤ st.raft.raftLog.store.hardState.commit →
        (storeLog st.raft.raftLog.store).snapIdx < k → stb.raft.raftLog.abs.snapIdx < k →
        (storeLog st.raft.raftLog.store).entryAt k = stb.raft.raftLog.abs.entryAt k) := by
  have H2 := H.toHyp2w
  refine ⟨(Snap.sm_all H.toHyp3a hm).scm v st hv, ?_⟩
  rcases (Snap.sm_all H.toHyp3a hm).ncts v st hv with c | ⟨E, hE, h2, h3, h4, h5⟩
  · exact .inl c
  · right
    obtain ⟨a, b, sta, stb, ha, hb, hla, hlb, hs, ht, e1, e2, hev, _, hc, _⟩ := Snap.Ev.facts H2 hE
    have I := Snap.node_full H2 m s hm v st hv
    have Ib := Snap.node_full H2 (E.nE + 1) b hb E.l stb hlb
    have hg : ∀ k, k ≤ st.raft.raftLog.store.hardState.commit →
        (Snap.FS h c0 st).entryAt k = (Snap.FL h c0 stb).entryAt k := by
      intro k hk; rw [← hev]; exact h5 k hk
    exact ⟨E.nE, a, b, E.l, sta, stb, h2, ha, hb, hla, hlb, hs, by rw [← e1]; exact hc,
      by rw [← e1]; exact h3, by rw [ht]; exact h4, hg,
      fun k hk hk1 hk2 => by rw [← I.sto.ents k hk1, ← Ib.log.ents k hk2]; exact hg k hk⟩

/-- **C01 `cluster_state_machine_safety`, ghost form** — the uncompacted logs of any two nodes, in any
two states of the history (the same node before and after a restart or a compaction included), hold the
same entry at every index both have marked committed. -/
theorem C01_cluster_state_machine_safety_ghost (cfg : JointConfig) (c0 : Nat) (h : List Sys)
    (H : Snap.Hyp3w cfg c0 h)
    (m1 : Nat) (s1 : Sys) (hm1 : h[m1]? = some s1) (v1 : Nat) (st1 : NState)
    (hv1 : s1.node v1 = some st1)
    (m2 : Nat) (s2 : Sys) (hm2 : h[m2]? = some s2) (v2 : Nat) (st2 : NState)
    (hv2 : s2.node v2 = some st2)
    (k : Nat) (hk1 : k ≤ st1.raft.raftLog.committed) (hk2 : k ≤ st2.raft.raftLog.committed) :
    (Snap.FL h c0 st1).entryAt k = (Snap.FL h c0 st2).entryAt k :=
  Snap.sms_ghost H.toHyp3a hm1 hv1 hm2 hv2 hk1 hk2

/-- **C01 `cluster_state_machine_safety`** with compaction — any two nodes, in any two states of the
history (the same node before and after a restart or a compaction included), hold the same entry at
every index both have marked committed **and both still retain** (`snapIdx < k`; a compacted log
answers `none` below its snapshot point). -/
theorem C01_cluster_state_machine_safety (cfg : JointConfig) (c0 : Nat) (h : List Sys)
    (H : Snap.Hyp3w cfg c0 h)
    (m1 : Nat) (s1 : Sys) (hm1 : h[m1]? = some s1) (v1 : Nat) (st1 : NState)
    (hv1 : s1.node v1 = some st1)
    (m2 : Nat) (s2 : Sys) (hm2 : h[m2]? = some s2) (v2 : Nat) (st2 : NState)
    (hv2 : s2.node v2 = some st2)
    (k : Nat) (hk1 : k ≤ st1.raft.raftLog.committed) (hk2 : k ≤ st2.raft.raftLog.committed)
    (hr1 : st1.raft.raftLog.abs.snapIdx < k) (hr2 : st2.raft.raftLog.abs.snapIdx < k) :
    st1.raft.raftLog.abs.entryAt k = st2.raft.raftLog.abs.entryAt k := by
  have I1 := Snap.node_full H.toHyp2w m1 s1 hm1 v1 st1 hv1
  have I2 := Snap.node_full H.toHyp2w m2 s2 hm2 v2 st2 hv2
  rw [← I1.log.ents k hr1, ← I2.log.ents k hr2]
  exact Snap.sms_ghost H.toHyp3a hm1 hv1 hm2 hv2 hk1 hk2

/-- … in particular for the **applied** entries of two nodes whose applied index is within their
commit index (`AppliedOk`, which holds outside the restart window — `raft_log.rs:44-46`). -/
theorem C01_cluster_state_machine_safety_applied (cfg : JointConfig) (c0 : Nat) (h : List Sys)
    (H : Snap.Hyp3w cfg c0 h)
    (m1 : Nat) (s1 : Sys) (hm1 : h[m1]? = some s1) (v1 : Nat) (st1 : NState)
    (hv1 : s1.node v1 = some st1) (ha1 : st1.raft.raftLog.AppliedOk)
    (m2 : Nat) (s2 : Sys) (hm2 : h[m2]? = some s2) (v2 : Nat) (st2 : NState)
    (hv2 : s2.node v2 = some st2) (ha2 : st2.raft.raftLog.AppliedOk)
    (k : Nat) (hk1 : k ≤ st1.raft.raftLog.applied) (hk2 : k ≤ st2.raft.raftLog.applied)
    (hr1 : st1.raft.raftLog.abs.snapIdx < k) (hr2 : st2.raft.raftLog.abs.snapIdx < k) :
    st1.raft.raftLog.abs.entryAt k = st2.raft.raftLog.abs.entryAt k :=
  C01_cluster_state_machine_safety cfg c0 h H m1 s1 hm1 v1 st1 hv1 m2 s2 hm2 v2 st2 hv2 k
    (Nat.le_trans hk1 ha1) (Nat.le_trans hk2 ha2) hr1 hr2

/-- **a compacted prefix is a committed prefix** (`C15`-style, for compaction points): in every state,
the snapshot point of every node — of its logical log and of its storage, which coincide — is not
below the common initial snapshot point `c0` and not above the node's commit index; and every other
node, in any state, whose commit index reaches an index `k` up to that snapshot point holds, in its
uncompacted log, exactly the entry the compacting node's uncompacted log holds at `k`. -/
theorem C01_cluster_compacted_prefix_committed (cfg : JointConfig) (c0 : Nat) (h : List Sys)
    (H : Snap.Hyp3w cfg c0 h)
    (m1 : Nat) (s1 : Sys) (hm1 : h[m1]? = some s1) (v1 : Nat) (st1 : NState)
    (hv1 : s1.node v1 = some st1) :
    c0 ≤ st1.raft.raftLog.abs.snapIdx ∧
    (storeLog st1.raft.raftLog.store).snapIdx = st1.raft.raftLog.abs.snapIdx ∧
    st1.raft.raftLog.abs.snapIdx ≤ st1.raft.raftLog.committed ∧
    ∀ (m2 : Nat) (s2 : Sys) (v2 : Nat) (st2 : NState), h[m2]? = some s2 → s2.node v2 = some st2 →
      ∀ k, k ≤ st1.raft.raftLog.abs.snapIdx → k ≤ st2.raft.raftLog.committed →
        (Snap.FL h c0 st1).entryAt k = (Snap.FL h c0 st2).entryAt k := by
  have H2 := H.toHyp2w
  have o := Snap.node_ok H2 hm1 hv1
  refine ⟨Snap.c0_le_snap H2 hm1 hv1, o.sidx, o.snap_le, fun m2 s2 v2 st2 hm2 hv2 k hk1 hk2 => ?_⟩
  exact Snap.sms_ghost H.toHyp3a hm1 hv1 hm2 hv2 (Nat.le_trans hk1 o.snap_le) hk2

/-! ## Relation to C01e and C01d, and non-vacuity -/

/-- the hypotheses of C01e part 1 (with the gaps `anch` and `norir`) imply the hypotheses of this file -/
theorem C01g_subsumes_C01e (cfg : JointConfig) (c0 : Nat) (h : List Sys) (H : Snap.Hyp3 cfg c0 h) :
    Snap.Hyp3w cfg c0 h := H.toHyp3w

/-- the hypotheses of C01d (no compaction, no gaps) imply the hypotheses of this file -/
theorem C01g_subsumes_C01d (cfg : JointConfig) (c0 : Nat) (h : List Sys)
    (H : Cluster.Hyp3w cfg c0 h) : Snap.Hyp3w cfg c0 h := Snap.Hyp3w.of_old H

section Examples
open RaftProps.C02 RaftProps.C05

set_option maxRecDepth 100000 in
/-- **non-vacuity, with a real compaction** (kernel-evaluated, `RaftProofs/ClusterSnapU.lean`): the
history of `C01e_cluster_nonvacuous` — its last step is `compact 2` at node 1, leader of term 1 with
commit index 2; the snapshot point of node 1 moves from 0 to 1 and its term is forgotten — satisfies
`Snap.Hyp3w`. -/
theorem C01g_cluster_nonvacuous_compaction :
    ∃ h : List Sys, Snap.Hyp3w c02x_cfg 0 h ∧
      ∃ (n : Nat) (a b : Sys) (sta stb : NState),
        h[n]? = some a ∧ h[n + 1]? = some b ∧ a.node 1 = some sta ∧ b.node 1 = some stb ∧
        Node.call sta none (.compact 2) = .ok (.ok, stb) ∧
        stb.raft.state = .leader ∧ stb.raft.raftLog.committed = 2 ∧
        sta.raft.raftLog.abs.snapIdx = 0 ∧ stb.raft.raftLog.abs.snapIdx = 1 ∧
        stb.raft.raftLog.abs.snapTerm = none :=
  ⟨Snap.cx_hist, Snap.cx_hyp3.toHyp3w, 22, Snap.cx_s22, Snap.cx_s23, Snap.cx_a13, Snap.cx_a14, rfl, rfl,
    rfl, rfl, Snap.c02x_out' _ (by decide), by decide, by decide, by decide, by decide, by decide⟩

set_option maxRecDepth 100000 in
/-- **non-vacuity without `norir`** (kernel-evaluated, `RaftProofs/ClusterCommit4M.lean`): the history
of `C01d_cluster_nonvacuous` — a `MsgReadIndexResp(index = 1, term = 1)` for node 3 is in the
transport, and the step that delivers it takes the commit index of the follower node 3 from 0 to 1 —
satisfies `Snap.Hyp3w`. -/
theorem C01g_cluster_nonvacuous_read_index :
    ∃ h : List Sys, Snap.Hyp3w c02x_cfg 0 h ∧
      ∃ (n : Nat) (a b : Sys) (sta stb : NState) (x : Message),
        h[n]? = some a ∧ h[n + 1]? = some b ∧ a.node 3 = some sta ∧ b.node 3 = some stb ∧
        x ∈ a.net ∧ x.msgType = .msgReadIndexResp ∧ x.frm = 1 ∧ x.to = 3 ∧ x.index = 1 ∧
        x.term = 1 ∧ (∃ res, Node.call sta none (.step x) = .ok (res, stb)) ∧
        stb.raft.state = .follower ∧ sta.raft.raftLog.committed = 0 ∧
        stb.raft.raftLog.committed = 1 :=
  ⟨c01y_hist, Snap.Hyp3w.of_old c01y_hyp3w, 24, c01y_s24, c01y_s25, c01y_c4, c01y_c5, c01y_rir, rfl,
    rfl, rfl, rfl, List.mem_append_right _ (c02x_head_mem _ (by decide)), by decide, by decide,
    by decide, by decide, by decide, ⟨_, c02x_out _ (by decide)⟩, by decide, by decide, by decide⟩

set_option maxRecDepth 100000 in
/-- **non-vacuity, both at once** (kernel-evaluated, `RaftProofs/ClusterSnap3D.lean`): there is a
history of `ClusterSem` that satisfies `Snap.Hyp3w` (voters `{1, 2, 3}`, `c0 = 0`) in which

* a `MsgReadIndexResp(index = 1, term = 1)` for node 3 is in the transport, and the step that delivers
  it takes the commit index of the follower node 3 from 0 to 1 (so `norir` fails), and
* ten steps later the application of node 1 — leader of term 1 with commit index 2 — calls `compact 2`:
  its snapshot point moves from 0 to 1 and the term of the snapshot point is forgotten. -/
theorem C01g_cluster_nonvacuous :
    ∃ h : List Sys, Snap.Hyp3w c02x_cfg 0 h ∧
      (∃ (n : Nat) (a b : Sys) (sta stb : NState) (x : Message),
        h[n]? = some a ∧ h[n + 1]? = some b ∧ a.node 3 = some sta ∧ b.node 3 = some stb ∧
        x ∈ a.net ∧ x.msgType = .msgReadIndexResp ∧ x.index = 1 ∧ x.term = 1 ∧
        (∃ res, Node.call sta none (.step x) = .ok (res, stb)) ∧
        sta.raft.raftLog.committed = 0 ∧ stb.raft.raftLog.committed = 1) ∧
      ∃ (n : Nat) (a b : Sys) (sta stb : NState),
        h[n]? = some a ∧ h[n + 1]? = some b ∧ a.node 1 = some sta ∧ b.node 1 = some stb ∧
        Node.call sta none (.compact 2) = .ok (.ok, stb) ∧
        stb.raft.state = .leader ∧ stb.raft.raftLog.committed = 2 ∧
        sta.raft.raftLog.abs.snapIdx = 0 ∧ stb.raft.raftLog.abs.snapIdx = 1 ∧
        stb.raft.raftLog.abs.snapTerm = none :=
  ⟨Snap.gx_hist, Snap.gx_hyp3w,
    ⟨24, c01y_s24, c01y_s25, c01y_c4, c01y_c5, c01y_rir, rfl, rfl, rfl, rfl,
      List.mem_append_right _ (c02x_head_mem _ (by decide)), by decide, by decide, by decide,
      ⟨_, c02x_out _ (by decide)⟩, by decide, by decide⟩,
    33, Snap.gx_s33, Snap.gx_s34, Snap.gx_a17, Snap.gx_a18, rfl, rfl, rfl, rfl,
    Snap.c02x_out' _ (by decide), by decide, by decide, by decide, by decide, by decide⟩

/-- … and the theorems apply to it: State-Machine Safety between the state in which node 3 has
committed index 1 by a `MsgReadIndexResp` and the state after the compaction -/
example (v1 v2 : Nat) (st1 st2 : NState) (h1 : c01y_s25.node v1 = some st1)
    (h2 : Snap.gx_s34.node v2 = some st2) (k : Nat) (hk1 : k ≤ st1.raft.raftLog.committed)
    (hk2 : k ≤ st2.raft.raftLog.committed) (hr1 : st1.raft.raftLog.abs.snapIdx < k)
    (hr2 : st2.raft.raftLog.abs.snapIdx < k) :
    st1.raft.raftLog.abs.entryAt k = st2.raft.raftLog.abs.entryAt k :=
  C01_cluster_state_machine_safety c02x_cfg 0 Snap.gx_hist Snap.gx_hyp3w 25 c01y_s25 rfl v1 st1 h1
    34 Snap.gx_s34 rfl v2 st2 h2 k hk1 hk2 hr1 hr2

end Examples

end RaftProps.C01g
