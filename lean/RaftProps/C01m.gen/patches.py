#!/usr/bin/env python3
"""Hand-made diffs applied on top of the scripted copies (copy.py)."""
import sys, os
ROOT=os.path.dirname(os.path.dirname(os.path.dirname(os.path.abspath(__file__))))+'/RaftProofs/ClusterCommit8_'
P={}
P['LogI']=[
 ('import RaftProofs.ClusterLogI\n','import RaftProofs.ClusterLogI\nimport RaftProofs.ClusterCommit4A\n',1),
 ('''  | .queue i, g => ∃ st x, s.node i = some st ∧ x ∈ st.raft.msgs ∧ x.msgType = .msgAppend ∧ g = msgLog x''',
  '''  | .queue i, g => ∃ st x, s.node i = some st ∧ (x ∈ st.raft.msgs ∧ ¬ Raft.CP.QSnap st.raft.msgs) ∧
      x.msgType = .msgAppend ∧ g = msgLog x''',1),
 ('''/-- the chain `g` sits at `loc` in state `s` -/''',
  '''/-- **frame property of one step at a node** (C01m): a queued `MsgSnapshot` stays queued, or the queue is
emptied.  (True of every `Node.call`; taken as a hypothesis at this layer and *derived* in the commit layer
from `Raft.CP.PWb.sn`.) -/
def MonoQ (st st' : NState) : Prop :=
  Raft.CP.QSnap st.raft.msgs → Raft.CP.QSnap st'.raft.msgs ∨ st'.raft.msgs = []

/-- the chain `g` sits at `loc` in state `s` — C01m: **the queues of mute nodes (a `MsgSnapshot` is queued) are skipped** -/''',1),
 # prov_node
 ('''    (hm : m.msgType = .msgAppend → m ∈ s.net) :
    Prov s (s.setNode k st') k st st' (st'.raft.raftLog.store.hardState.term = st'.raft.term) := by''',
  '''    (hm : m.msgType = .msgAppend → m ∈ s.net) (hmono : MonoQ st st') :
    Prov s (s.setNode k st') k st st' (st'.raft.raftLog.store.hardState.term = st'.raft.term) := by''',1),
 ('''      subst h2
      rcases heff.q x hx hty with c | c | c
      · exact .inl ⟨.queue j, _, ⟨st, x, hk, c, hty, rfl⟩, he, fun _ hp => hp, .inl rfl,''',
  '''      subst h2
      obtain ⟨hx, hnq'⟩ := hx
      have hnq : ¬ Raft.CP.QSnap st.raft.msgs := fun hq =>
        (hmono hq).elim hnq' (fun he0 => by rw [he0] at hx; cases hx)
      rcases heff.q x hx hty with c | c | c
      · exact .inl ⟨.queue j, _, ⟨st, x, hk, ⟨c, hnq⟩, hty, rfl⟩, he, fun _ hp => hp, .inl rfl,''',1),
 # prov_send
 ('''    (hl : st'.raft.raftLog = st.raft.raftLog) (hq : st'.raft.msgs = []) (pers : Prop)
    (hp : pers) :''',
  '''    (hl : st'.raft.raftLog = st.raft.raftLog) (hq : st'.raft.msgs = []) (pers : Prop)
    (hp : pers) (hnq : ¬ Raft.CP.QSnap st.raft.msgs) :''',1),
 ('''      rw [hq] at hx
      cases hx''','''      rw [hq] at hx
      cases hx.1''',2),
 ('''      · exact .inl ⟨.queue k, _, ⟨st, x, hk, hx, hty, rfl⟩, he, fun _ hpp => hpp, .inr (.inl rfl),''',
  '''      · exact .inl ⟨.queue k, _, ⟨st, x, hk, ⟨hx, hnq⟩, hty, rfl⟩, he, fun _ hpp => hpp, .inr (.inl rfl),''',1),
]
P['LogJ']=[
 ('''  wfq : ∀ i st x, s.node i = some st → x ∈ st.raft.msgs → x.msgType = .msgAppend →
    ContigFrom (x.index + 1) x.entries''',
  '''  wfq : ∀ i st x, s.node i = some st → x ∈ st.raft.msgs → x.msgType = .msgAppend →
    ¬ Raft.CP.QSnap st.raft.msgs → ContigFrom (x.index + 1) x.entries''',1),
 ('''  wfq' : ∀ x ∈ st'.raft.msgs, x.msgType = .msgAppend → ContigFrom (x.index + 1) x.entries
  wfn' : ∀ x ∈ s'.net, x ∈ s.net ∨ x ∈ st.raft.msgs''',
  '''  wfq' : ∀ x ∈ st'.raft.msgs, x.msgType = .msgAppend → ¬ Raft.CP.QSnap st'.raft.msgs →
    ContigFrom (x.index + 1) x.entries
  wfn' : ∀ x ∈ s'.net, x ∈ s.net ∨ (x ∈ st.raft.msgs ∧ ¬ Raft.CP.QSnap st.raft.msgs)''',1),
 ('''    · exact I.wfq k st x T.hk h hty''','''    · exact I.wfq k st x T.hk h.1 hty h.2''',1),
]
P['LogI'].append(('''/-- the chain `g` sits at `loc` in state `s` — C01m''','''/-- the frame property for a step of the cluster -/
def MonoS (a b : Sys) : Prop :=
  ∀ i st st', a.node i = some st → b.node i = some st' → MonoQ st st'

/-- the chain `g` sits at `loc` in state `s` — C01m''',1))
P['LogK']=[
 # trans_call
 ('''    (h : Node.call st rnd op = .ok (res, st')) :
    Trans s (s.setNode k st') k st st'
      (st'.raft.raftLog.store.hardState.term = st'.raft.term) False := by
  have hop' ''','''    (h : Node.call st rnd op = .ok (res, st')) (hmono : MonoQ st st') :
    Trans s (s.setNode k st') k st st'
      (st'.raft.raftLog.store.hardState.term = st'.raft.term) False := by
  have hop' ''',1),
 ('''    prov_node hk hL.eff hm, ''','''    prov_node hk hL.eff hm hmono, ''',1),
 ('''  intro x hx hty
  rcases hL.eff.q x hx hty with c | c | c
  · exact I.wfq k st x hk c hty''','''  intro x hx hty hnq'
  rcases hL.eff.q x hx hty with c | c | c
  · exact I.wfq k st x hk c hty (fun hq => (hmono hq).elim hnq' (fun he0 => by rw [he0] at hx; cases hx))''',1),
 # trans_send
 ('''    (h : Node.call st none .drain = .ok (.ok, st')) :
    Trans s { (s.setNode k st') with net := s.net ++ st.raft.msgs } k st st' True False := by''',
  '''    (h : Node.call st none .drain = .ok (.ok, st')) (hnq : ¬ Raft.CP.QSnap st.raft.msgs) :
    Trans s { (s.setNode k st') with net := s.net ++ st.raft.msgs } k st st' True False := by''',1),
 ('''prov_send hk hl1 hl2 True trivial,''','''prov_send hk hl1 hl2 True trivial hnq,''',1),
 ('''  exact List.mem_append.1 hx''','''  exact (List.mem_append.1 hx).imp id (fun h => ⟨h, hnq⟩)''',1),
 # trans_restart / init: queue cases
 ('''      rw [hb.msgs] at hx
      cases hx''','''      rw [hb.msgs] at hx
      cases hx.1''',1),
 ('''      obtain ⟨st, x, h1, hx, _⟩ := hat
      obtain ⟨c, rnd, hb⟩ := hboot i st h1
      rw [(CV.boot_booted c _ rnd st hb).msgs] at hx
      cases hx''','''      obtain ⟨st, x, h1, hx, _⟩ := hat
      obtain ⟨c, rnd, hb⟩ := hboot i st h1
      rw [(CV.boot_booted c _ rnd st hb).msgs] at hx
      cases hx.1''',1),
 # InvL.cstep
 ('''    (I : InvL own ini s) (hnb : NoBatch s) (hstep : CStep s s') : InvL own ini s' := by
  cases hstep with
  | call i st st' rnd op res h1 h2 h3 h4 =>
    exact I.trans huniq hown' (trans_call I hnb h1 (.inl h2) h3 h4)
  | deliver i st st' rnd m res h1 h2 _ h4 =>
    exact I.trans huniq hown' (trans_call I hnb h1 (.inr ⟨m, rfl, h2⟩)
      (fun j hc => by cases hc) h4)
  | send i st st' h1 h2 h3 => exact I.trans huniq hown' (trans_send I h1 h2 h3)''',
  '''    (I : InvL own ini s) (hnb : NoBatch s) (hstep : CStep s s')
    (hns' : ∀ x ∈ s'.net, x.msgType ≠ .msgSnapshot) (hmono : MonoS s s') : InvL own ini s' := by
  cases hstep with
  | call i st st' rnd op res h1 h2 h3 h4 =>
    exact I.trans huniq hown' (trans_call I hnb h1 (.inl h2) h3 h4
      (hmono i st st' h1 (node_setNode_self s i st')))
  | deliver i st st' rnd m res h1 h2 _ h4 =>
    exact I.trans huniq hown' (trans_call I hnb h1 (.inr ⟨m, rfl, h2⟩)
      (fun j hc => by cases hc) h4 (hmono i st st' h1 (node_setNode_self s i st')))
  | send i st st' h1 h2 h3 =>
    exact I.trans huniq hown' (trans_send I h1 h2 h3
      (fun ⟨y, hy, hty⟩ => hns' y (List.mem_append_right _ hy) hty))''',1),
 # invL_all
 ('''    (hnb : ∀ s ∈ h, NoBatch s) (s0 : Sys) (h0 : h[0]? = some s0) :
    ∀ (n : Nat) (s : Sys), h[n]? = some s → InvL (Owner h) (EntriesOf s0) s := by''',
  '''    (hnb : ∀ s ∈ h, NoBatch s) (s0 : Sys) (h0 : h[0]? = some s0)
    (hns : ∀ s ∈ h, ∀ x ∈ s.net, x.msgType ≠ .msgSnapshot)
    (hmono : ∀ (n : Nat) (a b : Sys), h[n]? = some a → h[n + 1]? = some b → MonoS a b) :
    ∀ (n : Nat) (s : Sys), h[n]? = some s → InvL (Owner h) (EntriesOf s0) s := by''',1),
 ('''      (hnb _ (List.mem_iff_getElem?.2 ⟨n, ha⟩)) (hsteps n _ s ha hs)''',
  '''      (hnb _ (List.mem_iff_getElem?.2 ⟨n, ha⟩)) (hsteps n _ s ha hs) (hns s hmem) (hmono n _ s ha hs)''',1),
]
P['BatchK']=[
 ('''  ∀ i st, s.node i = some st → ∀ x ∈ st.raft.msgs, x.msgType = .msgAppend →
    x.logTerm = 0 → x.index = 0''','''  ∀ i st, s.node i = some st → ¬ Raft.CP.QSnap st.raft.msgs →
    ∀ x ∈ st.raft.msgs, x.msgType = .msgAppend → x.logTerm = 0 → x.index = 0''',1),
 ('''    (hi : s.node i = some st) (hx : x ∈ st.raft.msgs) (hty : x.msgType = .msgAppend) :
    ¬ Weird (msgLog x) := by''','''    (hi : s.node i = some st) (hx : x ∈ st.raft.msgs) (hty : x.msgType = .msgAppend)
    (hnq : ¬ Raft.CP.QSnap st.raft.msgs) : ¬ Weird (msgLog x) := by''',1),
 ('''  exact h2 (h i st hi x hx hty h3)''','''  exact h2 (h i st hi hnq x hx hty h3)''',1),
 # prov_node_b
 ('''    (hsane : ∀ x ∈ st'.raft.msgs, x.msgType = .msgAppend → ¬ Weird (msgLog x)) :
    Prov s''','''    (hsane : ∀ x ∈ st'.raft.msgs, x.msgType = .msgAppend → ¬ Raft.CP.QSnap st'.raft.msgs →
      ¬ Weird (msgLog x)) (hmono : MonoQ st st') :
    Prov s''',1),
 ('''      subst h2
      rcases heff.q x hx hty with ⟨x0, hx0, hty0, e0⟩ | ⟨_, c | c⟩''','''      subst h2
      obtain ⟨hx, hnq'⟩ := hx
      have hnq : ¬ Raft.CP.QSnap st.raft.msgs := fun hq =>
        (hmono hq).elim hnq' (fun he0 => by rw [he0] at hx; cases hx)
      rcases heff.q x hx hty with ⟨x0, hx0, hty0, e0⟩ | ⟨_, c | c⟩''',1),
 ('''⟨st, x0, hk, hx0, hty0, rfl⟩''','''⟨st, x0, hk, ⟨hx0, hnq⟩, hty0, rfl⟩''',2),
 ('''      · exact absurd c (hsane x hx hty)
    | net =>''','''      · exact absurd c (hsane x hx hty hnq')
    | net =>''',1),
 # trans_call_b
 ('''    (hsane : ∀ x ∈ st'.raft.msgs, x.msgType = .msgAppend → ¬ Weird (msgLog x)) :
    Trans s''','''    (hsane : ∀ x ∈ st'.raft.msgs, x.msgType = .msgAppend → ¬ Raft.CP.QSnap st'.raft.msgs →
      ¬ Weird (msgLog x)) (hmono : MonoQ st st') :
    Trans s''',1),
 ('''prov_node_b hk hL.eff hm hsane,''','''prov_node_b hk hL.eff hm hsane hmono,''',1),
 ('''  intro x hx hty
  rcases hL.eff.q x hx hty with ⟨x0, hx0, hty0, e0⟩ | ⟨_, c | c⟩
  · have := I.wfq k st x0 hk hx0 hty0''','''  intro x hx hty hnq'
  have hnq : ¬ Raft.CP.QSnap st.raft.msgs := fun hq =>
    (hmono hq).elim hnq' (fun he0 => by rw [he0] at hx; cases hx)
  rcases hL.eff.q x hx hty with ⟨x0, hx0, hty0, e0⟩ | ⟨_, c | c⟩
  · have := I.wfq k st x0 hk hx0 hty0 hnq''',1),
 ('''  · exact c.contig
  · exact absurd c (hsane x hx hty)''','''  · exact c.contig
  · exact absurd c (hsane x hx hty hnq')''',1),
 # invLB_cstep
 ('''    (hsane' : SaneAnchors s') (hstep : CStep s s') : InvL own ini s' ∧ InvB s' := by''',
  '''    (hsane' : SaneAnchors s') (hstep : CStep s s')
    (hns' : ∀ x ∈ s'.net, x.msgType ≠ .msgSnapshot) (hmono : MonoS s s') :
    InvL own ini s' ∧ InvB s' := by''',1),
 ('''    have hsane : ∀ x ∈ st'.raft.msgs, x.msgType = .msgAppend → ¬ Weird (msgLog x) :=
      fun x hx hty => hsane'.notWeird hself hx hty
    exact ⟨I.trans huniq hown' (trans_call_b I hk hop h hL hsane),''',
  '''    have hsane : ∀ x ∈ st'.raft.msgs, x.msgType = .msgAppend → ¬ Raft.CP.QSnap st'.raft.msgs →
        ¬ Weird (msgLog x) :=
      fun x hx hty hnq => hsane'.notWeird hself hx hty hnq
    exact ⟨I.trans huniq hown' (trans_call_b I hk hop h hL hsane (hmono k st st' hk hself)),''',1),
 ('''    exact ⟨I.trans huniq hown' (trans_send I h1 h2 h3), B.send I1 h1 h3⟩''',
  '''    exact ⟨I.trans huniq hown' (trans_send I h1 h2 h3
      (fun ⟨y, hy, hty⟩ => hns' y (List.mem_append_right _ hy) hty)), B.send I1 h1 h3⟩''',1),
 # invLB_all
 ('''    (s0 : Sys) (h0 : h[0]? = some s0) :
    ∀ (n : Nat) (s : Sys), h[n]? = some s → InvL (Owner h) (EntriesOf s0) s ∧ InvB s := by''',
  '''    (s0 : Sys) (h0 : h[0]? = some s0)
    (hns : ∀ s ∈ h, ∀ x ∈ s.net, x.msgType ≠ .msgSnapshot)
    (hmono : ∀ (n : Nat) (a b : Sys), h[n]? = some a → h[n + 1]? = some b → MonoS a b) :
    ∀ (n : Nat) (s : Sys), h[n]? = some s → InvL (Owner h) (EntriesOf s0) s ∧ InvB s := by''',1),
 ('''      (hI1 s hmem) (hI2 s hmem) (hsane s hmem) (hsteps n _ s ha hs)''',
  '''      (hI1 s hmem) (hI2 s hmem) (hsane s hmem) (hsteps n _ s ha hs) (hns s hmem) (hmono n _ s ha hs)''',1),
]
HH='''
    (hns : ∀ s ∈ h, ∀ x ∈ s.net, x.msgType ≠ .msgSnapshot)
    (hmono : ∀ (n : Nat) (a b : Sys), h[n]? = some a → h[n + 1]? = some b → MonoS a b)'''
P['C05c']=[
 ('''    (hnb : ∀ s ∈ h, NoBatch s) :''','''    (hnb : ∀ s ∈ h, NoBatch s)'''+HH+''' :''',1),
 ('''    (hnb : ∀ s ∈ h, NoBatch s) (i : Nat) :''','''    (hnb : ∀ s ∈ h, NoBatch s)'''+HH+''' (i : Nat) :''',1),
 ('''hinit hcon hnb s0 h0 n s hn''','''hinit hcon hnb s0 h0 hns hmono n s hn''',1),
 ('''cluster_inv cfg hne hnd1 hnd2 h hh hfix hinit hcon hnb''','''cluster_inv cfg hne hnd1 hnd2 h hh hfix hinit hcon hnb hns hmono''',1),
]
P['C05d']=[
 ('''    (hmv : MultiVoter cfg) (hsane : ∀ s ∈ h, SaneAnchors s) :''','''    (hmv : MultiVoter cfg) (hsane : ∀ s ∈ h, SaneAnchors s)'''+HH+''' :''',1),
 ('''    (all2 cfg hfix) hsane s0 h0 n s hn''','''    (all2 cfg hfix) hsane s0 h0 hns hmono n s hn''',1),
 ('''    (hb : BatchOk cfg h) (i : Nat) :''','''    (hb : BatchOk cfg h)'''+HH+''' (i : Nat) :''',1),
 ('''C05_cluster_leader_append_only cfg hne hnd1 hnd2 h hh hfix hinit hcon hnb i''','''C05_cluster_leader_append_only cfg hne hnd1 hnd2 h hh hfix hinit hcon hnb hns hmono i''',1),
 ('''cluster_invB_batch cfg hne hnd1 hnd2 h hh hfix hinit hcon hmv hsane''','''cluster_invB_batch cfg hne hnd1 hnd2 h hh hfix hinit hcon hmv hsane hns hmono''',1),
]
P['5N']=[
 ('''  mv : MultiVoter cfg
  sane : ∀ s ∈ h, SaneAnchors s
''','''  mv : MultiVoter cfg
  sane : ∀ s ∈ h, SaneAnchors s
  /-- C01m: the frame property of every step (derived in the commit layer, `hyp3a_takeK`) -/
  mono : ∀ (n : Nat) (a b : Sys), h[n]? = some a → h[n + 1]? = some b → MonoS a b
''',1),
 ('''H.hist H.fix H.init H.csteps H.mv H.sane''','''H.hist H.fix H.init H.csteps H.mv H.sane H.nosnap H.mono''',1),
]
P['5Z']=[
 ('''  ∀ i st, s.node i = some st → st.raft.state = .leader →
    ∀ x ∈ st.raft.msgs, x.msgType = .msgAppend →
      x.term = st.raft.term ∧ x.frm = i ∧ st.raft.raftLog.term x.index = .ok x.logTerm''',
  '''  ∀ i st, s.node i = some st → st.raft.state = .leader → ¬ Raft.CP.QSnap st.raft.msgs →
    ∀ x ∈ st.raft.msgs, x.msgType = .msgAppend →
      x.term = st.raft.term ∧ x.frm = i ∧ st.raft.raftLog.term x.index = .ok x.logTerm''',1),
 # lq_call
 ('''  intro j stj hj hl x hx hty
  by_cases hjk : j ≠ k
  · rw [node_setNode_ne a k j st' hjk] at hj
    exact ih j stj hj hl x hx hty''','''  intro j stj hj hl hnq' x hx hty
  by_cases hjk : j ≠ k
  · rw [node_setNode_ne a k j st' hjk] at hj
    exact ih j stj hj hl hnq' x hx hty''',1),
 ('''  have hself := node_setNode_self a j st'
  obtain ⟨g, _, hq, hid⟩ := call_factsB''','''  have hself := node_setNode_self a j st'
  have hnq : ¬ Raft.CP.QSnap st.raft.msgs := fun hq0 =>
    (H.mono n a _ ha hb j st st' h1 hself hq0).elim hnq' (fun he0 => by rw [he0] at hx; cases hx)
  obtain ⟨g, _, hq, hid⟩ := call_factsB''',1),
 ('''ih j st h1 hlk y hy hyt''','''ih j st h1 hlk hnq y hy hyt''',1),
 ('''H.sane a (mem_of_get ha) j st h1 y hy hyt hz''','''H.sane a (mem_of_get ha) j st h1 hnq y hy hyt hz''',1),
 # lq_all
 ('''  · intro s h0 i st hi _ x hx _
    rw [init_queue''','''  · intro s h0 i st hi _ _ x hx _
    rw [init_queue''',1),
 ('''      intro j stj hj hl x hx hty
      have hj' ''','''      intro j stj hj hl hnq x hx hty
      have hj' ''',1),
 ('''        exact ih j stj hj' hl x hx hty''','''        exact ih j stj hj' hl hnq x hx hty''',1),
 ('''      intro j stj hj hl x hx hty
      by_cases hjk : j = k''','''      intro j stj hj hl hnq x hx hty
      by_cases hjk : j = k''',1),
 ('''        exact ih j stj hj hl x hx hty''','''        exact ih j stj hj hl hnq x hx hty''',1),
 # leader_queueB
 ('''    (hx : x ∈ st.raft.msgs) (hty : x.msgType = .msgAppend) :
    x.term = st.raft.term ∧ x.frm = i ∧ st.raft.raftLog.term x.index = .ok x.logTerm ∧
    SubW x st.raft.raftLog.abs := by
  obtain ⟨e1, e2, e3⟩ := lq_all H n s hn i st hi hl x hx hty''','''    (hx : x ∈ st.raft.msgs) (hty : x.msgType = .msgAppend) (hnq : ¬ Raft.CP.QSnap st.raft.msgs) :
    x.term = st.raft.term ∧ x.frm = i ∧ st.raft.raftLog.term x.index = .ok x.logTerm ∧
    SubW x st.raft.raftLog.abs := by
  obtain ⟨e1, e2, e3⟩ := lq_all H n s hn i st hi hl hnq x hx hty''',1),
 ('''  have hc := I.wfq i st x hi hx hty
''','''  have hc := I.wfq i st x hi hx hty hnq
''',1),
 ('''⟨st, x, hi, hx, hty, rfl⟩ ⟨st, hi, rfl⟩''','''⟨st, x, hi, ⟨hx, hnq⟩, hty, rfl⟩ ⟨st, hi, rfl⟩''',1),
 ('''(H.sane s hm).notWeird hi hx hty)''','''(H.sane s hm).notWeird hi hx hty hnq)''',1),
]
P['5cU']=[
 ('''H.toHypB.batchOk l d n''','''H.toHypB.batchOk H.nosnap H.mono l d n''',1),
 ('''(hd.step H ha h1)''','''(Dead.step H ha h1 hd)''',1),
]
P['5c2X']=[
 ('''(by rw [hl1.snap H2]; exact hidx)''','''(by rw [LeaderLog.snap H2 hl1]; exact hidx)''',1),
]
P['5cV']=[
 ('''      (fun x hx hty => hsane.notWeird hself hx hty)⟩''','''      (fun x hx hty hnq => hsane.notWeird hself hx hty hnq) (H.mono n a _ ha hb k st st' hk hself)⟩''',1),
 ('''  | send i st st' h1 h2 h3 => exact ⟨i, st, st', _, _, trans_send I h1 h2 h3⟩''',
  '''  | send i st st' h1 h2 h3 =>
    exact ⟨i, st, st', _, _, trans_send I h1 h2 h3
      (fun ⟨y, hy, hty⟩ => H.nosnap _ (mem_of_get hb) y (List.mem_append_right _ hy) hty)⟩''',1),
]
P['5cY']=[
 ('''    (∀ i st, s.node i = some st → ∀ x ∈ st.raft.msgs, x.msgType = .msgAppend →
      Gen (AppGen h) n i x) ∧''','''    (∀ i st, s.node i = some st → ¬ Raft.CP.QSnap st.raft.msgs →
      ∀ x ∈ st.raft.msgs, x.msgType = .msgAppend → Gen (AppGen h) n i x) ∧''',1),
 ('''  refine provenance h H.hist H.steps (fun x => x.msgType = .msgAppend) (AppGen h) ?_
  intro n a b i st st' rnd op res ha hb hi hi' hcall hop hnc hnet x hx hty''',
  '''  refine provenanceM h H.hist H.steps H.nosnap H.mono (fun x => x.msgType = .msgAppend) (AppGen h) ?_
  intro n a b i st st' rnd op res ha hb hi hi' hcall hop hnc hnet hnq x hx hty''',1),
 ('''leader_queueB H hb hi' c.lead hx hty''','''leader_queueB H hb hi' c.lead hx hty hnq''',1),
 ('''leader_queueB H hb hi' c.1 hx hty''','''leader_queueB H hb hi' c.1 hx hty hnq''',1),
]
P['5c2F']=[
 ('''      rw [(CV.boot_booted cj _ rj stj hbj).msgs] at hx
      cases hx''','''      rw [(CV.boot_booted cj _ rj stj hbj).msgs] at hx
      cases hx.1''',1),
]
P['5c2Q']=[
 ('''  que : ∀ i st, s.node i = some st → ∀ x ∈ st.raft.msgs, x.msgType = .msgAppend →
    ∀ e ∈ x.entries, e.term ≤ x.term''','''  que : ∀ i st, s.node i = some st → ¬ Raft.CP.QSnap st.raft.msgs →
    ∀ x ∈ st.raft.msgs, x.msgType = .msgAppend → ∀ e ∈ x.entries, e.term ≤ x.term''',1),
 ('''    refine ⟨fun i st hi e he => ?_, fun i st hi e he => ?_, fun i st hi x hx => ?_,
      fun x hx => ?_⟩''','''    refine ⟨fun i st hi e he => ?_, fun i st hi e he => ?_, fun i st hi _ x hx => ?_,
      fun x hx => ?_⟩''',1),
 ('''        (∀ x ∈ net', x ∈ a.net ∨ ∃ st, a.node k = some st ∧ x ∈ st.raft.msgs) →''',
  '''        (∀ x ∈ net', x ∈ a.net ∨ ∃ st, a.node k = some st ∧ x ∈ st.raft.msgs ∧
          ¬ Raft.CP.QSnap st.raft.msgs) →''',1),
 ('''          (∀ x ∈ stk'.raft.msgs, x.msgType = .msgAppend → ∀ e ∈ x.entries, e.term ≤ x.term)) →''',
  '''          (¬ Raft.CP.QSnap stk'.raft.msgs →
            ∀ x ∈ stk'.raft.msgs, x.msgType = .msgAppend → ∀ e ∈ x.entries, e.term ≤ x.term)) →''',1),
 ('''      · rcases hnet x hx with c | ⟨st, c1, c2⟩
        · exact ih.net x c
        · exact ih.que k st c1 x c2''','''      · rcases hnet x hx with c | ⟨st, c1, c2, c3⟩
        · exact ih.net x c
        · exact ih.que k st c1 c3 x c2''',1),
 ('''      have hque : ∀ x ∈ st'.raft.msgs, x.msgType = .msgAppend → ∀ e ∈ x.entries, e.term ≤ x.term := by
        intro x hx hty e he''','''      have hque : ¬ Raft.CP.QSnap st'.raft.msgs →
          ∀ x ∈ st'.raft.msgs, x.msgType = .msgAppend → ∀ e ∈ x.entries, e.term ≤ x.term := by
        intro hnq' x hx hty e he
        have hnq : ¬ Raft.CP.QSnap st.raft.msgs := fun hq0 =>
          (H.mono n a b ha hb k st st' h1 hkb hq0).elim hnq' (fun he0 => by rw [he0] at hx; cases hx)''',1),
 ('''        · exact ih.que k st h1 x c hty e he''','''        · exact ih.que k st h1 hnq x c hty e he''',1),
 ('''leader_queueB H hb hkb c hx hty''','''leader_queueB H hb hkb c hx hty hnq\'''',1),
 ('''        · exact .inr ⟨st, h1, c⟩''','''        · exact .inr ⟨st, h1, c, fun ⟨y, hy, hyt⟩ =>
            H.nosnap _ (mem_of_get hb) y (List.mem_append_right _ hy) hyt⟩''',1),
 ('''        intro x hx; rw [f1] at hx; cases hx''','''        intro _ x hx; rw [f1] at hx; cases hx''',1),
 ('''      · intro x hx; rw [hbt.msgs] at hx; cases hx''','''      · intro _ x hx; rw [hbt.msgs] at hx; cases hx''',1),
]
P['5c3E']=[
 ('''    rw [init_queue hinit j stj h1] at hx; cases hx''','''    rw [init_queue hinit j stj h1] at hx; cases hx.1''',1),
]
P['6A']=[
 # no SaneQ any more
 ('''/-- **the mute nodes queue no append anchored in the void**: a node that has a `MsgSnapshot` in its
queue has no `MsgAppend` with `log_term = 0` at an anchor `≠ 0` in its queue.  (For the nodes *without* a
queued `MsgSnapshot` this is a theorem — `CI.qa`.) -/
def SaneQ (s : Sys) : Prop :=
  ∀ i st, s.node i = some st → QSnap st.raft.msgs →
    ∀ x ∈ st.raft.msgs, x.msgType = .msgAppend → x.logTerm = 0 → x.index = 0
''','''/-- C01m: **the cluster invariant `CI` together with the frame property of the step that led to the state**
(a queued `MsgSnapshot` stays queued or the queue is emptied; from `Raft.CP.PWb.sn` in `ci_callK`) -/
def CIM (h : List Sys) (c0 m : Nat) (s : Sys) : Prop :=
  CI h c0 m s ∧ ∀ m' a, m = m' + 1 → h[m']? = some a → MonoS a s
''',1),
 ('''    sti.raft.raftLog.abs.snapTerm = some t0 → ∀ j stj, s0.node j = some stj → t0 ≤ stj.raft.term
  saneq : ∀ s ∈ h, SaneQ s
''','''    sti.raft.raftLog.abs.snapTerm = some t0 → ∀ j stj, s0.node j = some stj → t0 ≤ stj.raft.term
''',1),
 ('''  intro i st hi x hx hty hz
  rcases hci.qa i st hi x hx hty with q | c | c
  · exact H.saneq s hs i st hi q x hx hty hz''','''  intro i st hi hnq x hx hty hz
  rcases hci.qa i st hi x hx hty with q | c | c
  · exact absurd q hnq''',1),
 # takeK
 ('''    (hci : ∀ m s, m < k → h[m]? = some s → CI h c0 m s) : Hyp2wB cfg c0 (h.take k) where''',
  '''    (hci : ∀ m s, m < k → h[m]? = some s → CIM h c0 m s) : Hyp2wB cfg c0 (h.take k) where''',1),
 ('''    exact sane_of_ciK H (mem_of_get hm') (hci m s hlt hm')
''','''    exact sane_of_ciK H (mem_of_get hm') (hci m s hlt hm').1
  mono := by
    intro n a b ha hb
    obtain ⟨ha', _⟩ := get_take ha
    obtain ⟨hb', hlt⟩ := get_take hb
    exact (hci (n + 1) b hlt hb').2 n a rfl ha'
''',1),
 ('''    (hci : ∀ m s, m < k → h[m]? = some s → CI h c0 m s) : Hyp3aB cfg c0 (h.take k) where''',
  '''    (hci : ∀ m s, m < k → h[m]? = some s → CIM h c0 m s) : Hyp3aB cfg c0 (h.take k) where''',1),
 ('''    exact (hci m s hlt hm').na x hx hty''','''    exact (hci m s hlt hm').1.na x hx hty''',1),
 ('''(hci n s hlt hn').nr x hx hty''','''(hci n s hlt hn').1.nr x hx hty''',1),
 # ci_callK
 ('''    (hb : h[n + 1]? = some (a.setNode k st')) : CI h c0 (n + 1) (a.setNode k st') := by''',
  '''    (hb : h[n + 1]? = some (a.setNode k st')) :
    CI h c0 (n + 1) (a.setNode k st') ∧ MonoS a (a.setNode k st') := by''',1),
 ('''      exact .inr ⟨hik, hi⟩
  refine ⟨fun i sti hi => ?_, fun i sti hi x hx hty => ?_, fun i sti hi x hx hty => ?_,
    ca.na, fun x hx hty => (ca.nr x hx hty).mono (Nat.le_succ n)⟩''','''      exact .inr ⟨hik, hi⟩
  refine ⟨⟨fun i sti hi => ?_, fun i sti hi x hx hty => ?_, fun i sti hi x hx hty => ?_,
    ca.na, fun x hx hty => (ca.nr x hx hty).mono (Nat.le_succ n)⟩, ?_⟩''',1),
 ('''/-- **one step of the history keeps the cluster invariant** -/''','''  · -- C01m: the frame property of the step
    intro i sti sti' hi hi' hq
    rcases hnode i sti' hi' with ⟨hik, hst⟩ | ⟨_, c⟩
    · subst hik; subst hst
      rw [h1] at hi; cases hi
      exact .inl (hsnq hq)
    · rw [c] at hi; cases hi
      exact .inl hq

/-- **one step of the history keeps the cluster invariant** -/''',1),
 ('''    exact ci_callK H ha H' ca h1 (.inl h2) h3 h4 hb''','''    exact (ci_callK H ha H' ca h1 (.inl h2) h3 h4 hb).1''',1),
 ('''    exact ci_callK H ha H' ca h1 (.inr ⟨m, rfl, h2, h3⟩) (fun j hc => by cases hc) h4 hb''',
  '''    exact (ci_callK H ha H' ca h1 (.inr ⟨m, rfl, h2, h3⟩) (fun j hc => by cases hc) h4 hb).1''',1),
 # ci_allK
 ('''/-- **the cluster invariant holds in every state of a history** -/
theorem ci_allK (H : Hyp3wQ cfg c0 h) : ∀ (n : Nat) (s : Sys), h[n]? = some s → CI h c0 n s := by''',
  '''/-- C01m: **the frame property of one step of the history** -/
theorem mono_stepK (H : Hyp3wQ cfg c0 h) {n : Nat} {a b : Sys} (ha : h[n]? = some a)
    (hb : h[n + 1]? = some b) (H' : Hyp3aB cfg c0 (h.take (n + 1))) (ca : CI h c0 n a) :
    MonoS a b := by
  cases H.steps n a b ha hb with
  | call k st st' rnd op res h1 h2 h3 _ h4 =>
    exact (ci_callK H ha H' ca h1 (.inl h2) h3 h4 hb).2
  | deliver k st st' rnd m res h1 h2 h3 h4 =>
    exact (ci_callK H ha H' ca h1 (.inr ⟨m, rfl, h2, h3⟩) (fun j hc => by cases hc) h4 hb).2
  | send k st st' h1 h2 _ h3 =>
    have f1 : st'.raft.msgs = [] := by
      unfold Node.call at h3
      simp only [applyOp] at h3
      cases h3; rfl
    intro i sti sti' hi hi' hq
    have hi'' : (a.setNode k st').node i = some sti' := hi'
    by_cases hik : i = k
    · subst hik
      rw [node_setNode_self] at hi''; cases hi''
      exact .inr f1
    · rw [node_setNode_ne a k i st' hik, hi] at hi''; cases hi''
      exact .inl hq
  | restart k st st' c rnd h1 h2 h3 =>
    obtain ⟨_, g2⟩ := NodeI.boot h3
    intro i sti sti' hi hi' hq
    by_cases hik : i = k
    · subst hik
      rw [node_setNode_self] at hi'; cases hi'
      exact .inr g2
    · rw [node_setNode_ne a k i st' hik, hi] at hi'; cases hi'
      exact .inl hq

/-- **the cluster invariant (and the frame property) holds in every state of a history** -/
theorem ci_allK (H : Hyp3wQ cfg c0 h) : ∀ (n : Nat) (s : Sys), h[n]? = some s → CIM h c0 n s := by''',1),
 ('''    | zero => exact ci_initK H hn''','''    | zero => exact ⟨ci_initK H hn, fun m' a hm => by omega⟩''',1),
 ('''      exact ci_stepK H ha hn H' (ih n (Nat.lt_succ_self n) _ ha)''','''      have ca := (ih n (Nat.lt_succ_self n) _ ha).1
      refine ⟨ci_stepK H ha hn H' ca, fun m' a' hm ha' => ?_⟩
      have hmn : m' = n := by omega
      subst hmn
      rw [ha] at ha'; cases ha'
      exact mono_stepK H ha hn H' ca''',1),
]

def apply(short):
    fn=ROOT+short+'.lean'
    s=open(fn).read()
    for old,new,cnt in P.get(short,[]):
        c=s.count(old)
        if c!=cnt:
            print('PATCH MISMATCH in',short,': expected',cnt,'found',c,'for:\n',old[:200]); continue
        s=s.replace(old,new)
    open(fn,'w').write(s)
if __name__=='__main__':
    for short in (sys.argv[1:] or list(P)):
        apply(short)
