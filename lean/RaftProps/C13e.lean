import RaftProofs.ClusterFlow3B
import RaftProofs.ClusterConfD
import RaftProofs.ClusterSnap2V

/-!
# C13e — flow control per STEP of a cluster history (partial)

C13: "Toward each follower the leader keeps at most `max_inflight_msgs` unacknowledged entry-carrying appends
while replicating, keeps at most one outstanding while probing, sends none while a snapshot is outstanding".

Here, for plain histories (`History h`, no bundle, no fixed configuration), per step `h[n] → h[n+1]`:

* `C13_cluster_no_append_while_snapshot_outstanding_partial`: if node `i` is leader before the step and its
  progress for `j` is in the `Snapshot` state, then the `MsgAppend`s addressed to `j` in the queue of `i`
  after the step are a **sublist of those before** (`apOf j` = the `to = j ∧ msgType = MsgAppend` projection
  of `raft.msgs`, in order): no append to `j` was queued, none was modified by batching.  The projection is
  in fact unchanged, except by the `send` step, which empties the queue.
* `C13_cluster_probe_sends_at_most_one_partial`: the same for a progress in the `Probe` state with
  `paused = true` (the one probe is outstanding), for `j ≠ i`.

**Partial**: the steps covered (`coveredLabel t l`, `t` = the term of the acting leader before the step) are
* the `send` steps and every step of another node;
* the `call` steps of every `NodeOp` the application may call except `apply_conf_change` (`tick`, `propose`,
  `propose_conf_change`, `read_index`, `transfer_leader`, `campaign`, `ping`, `request_snapshot`,
  `report_unreachable`, `report_snapshot`, `stabilize`, `on_persist_entries`, `persist_snap`, `commit_apply`,
  `compact`, the knobs, the group-commit calls, `on_entries_fetched`);
* the `deliver` steps of a message that carries no term or the leader's term and is neither a
  `MsgAppendResponse` nor a `MsgHeartbeatResponse` (forwarded proposals / read requests, vote requests of the
  same term, `MsgTransferLeader`, stray messages).
NOT covered: the delivery of `MsgAppendResponse` / `MsgHeartbeatResponse` (the handlers that legitimately leave
the `Snapshot` / paused state and then send), the delivery of a message of another term (`become_follower`,
then the follower / candidate handlers), the `restart` steps and the call `apply_conf_change`.  For the covered
steps the hypothesis "the progress is still held after the step" is not needed (none of them resolves the
snapshot and then sends an append: `report_snapshot` resolves it and sends nothing), so it is not assumed.

Two cautions for the uncovered steps, from reading the model (not machine-checked here).  (a) For `Probe` +
`paused`, the shape "held before and after ⇒ no new append" is FALSE at the delivery of a `MsgHeartbeatResponse`
from `j`: `handle_heartbeat_response` resumes the progress and `send_append` queues one `MsgAppend`, after which
the progress is `Probe` + `paused` again (that is raft-rs' behaviour: one probe per heartbeat round).  (b) At
the delivery of a message of a higher term the node can go leader → follower → candidate → leader within one call
(`MsgTimeoutNow`, a single voter with learners): `become_leader` + `bcast_append` queue appends to peers whose
progress was re-created; a full statement needs "same term after the step" or "the progress was never reset".

Non-vacuity: `C13_cluster_snapshot_nonvacuous` — the snapshot history `Snap2.sx_hist` (34 states) extended by
one `propose` at the leader (node 1) while its snapshot for node 3 is outstanding: the step queues a
`MsgAppend` for node 2 and none for node 3.
-/
namespace RaftProps.C13e
open RaftModel RaftModel.Cluster RaftModel.Node RaftModel.Raft RaftModel.Raft.F3

/-- the steps covered -/
def coveredLabel (t : Nat) : Label → Bool
  | .call _ _ op => covered t op
  | .send _ => true
  | .deliver _ _ m => covered t (.step m)
  | .restart _ _ _ => false

/-- one labelled step, any held kind (`pb = false`: `Snapshot` only; `pb = true`: also `Probe` + `paused`) -/
theorem lstep_na {pb : Bool} {s s' : Sys} {l : Label} (hs : LStep s l s')
    (i j : Nat) (st st' : NState) (pr : Progress)
    (hn : s.node i = some st) (hc : i = l.node → coveredLabel st.raft.term l = true) (hn' : s'.node i = some st') (hl : st.raft.state = .leader)
    (hj : pb = false ∨ j ≠ st.raft.id)
    (hg : st.raft.prs.get j = some pr) (hh : Held pb pr) :
    (apOf j st'.raft.msgs).Sublist (apOf j st.raft.msgs) := by
  by_cases hk : i = l.node
  · have hc := hc hk
    cases hs with
    | call k stx stx' rnd op res g1 g2 g3 =>
      have hk' : i = k := hk
      subst hk'
      rw [hn] at g1; cases g1
      rw [node_setNode_self] at hn'; cases hn'
      exact call_na_partial j st st' rnd op res g3 hc hl hj pr hg hh
    | deliver k stx stx' rnd m res g1 g2 g3 g4 =>
      have hk' : i = k := hk
      subst hk'
      rw [hn] at g1; cases g1
      rw [node_setNode_self] at hn'; cases hn'
      exact call_na_partial j st st' rnd (.step m) res g4 hc hl hj pr hg hh
    | send k stx stx' g1 g2 g3 =>
      have hk' : i = k := hk
      subst hk'
      rw [hn] at g1; cases g1
      have : ({ (s.setNode i stx') with net := s.net ++ st.raft.msgs } : Sys).node i = some stx' :=
        node_setNode_self s i stx'
      rw [this] at hn'; cases hn'
      exact call_na_partial j st st' none .drain .ok g3 rfl hl hj pr hg hh
    | restart k stx stx' c rnd => cases hc
  · have := lstep_other hs i hk
    rw [this, hn] at hn'
    cases hn'
    exact List.Sublist.refl _

/-- **C13, snapshot outstanding, per step (partial)**: at a covered step of a history, a node that is leader
before the step and whose progress for `j` is in the `Snapshot` state queues no `MsgAppend` for `j` -/
theorem C13_cluster_no_append_while_snapshot_outstanding_partial (h : List Sys) (hh : History h)
    (n : Nat) (s s' : Sys) (hs : h[n]? = some s) (hs' : h[n + 1]? = some s') :
    ∃ l, LStep s l s' ∧
      ∀ (i j : Nat) (st st' : NState) (pr : Progress),
        s.node i = some st → s'.node i = some st' → st.raft.state = .leader →
        (i = l.node → coveredLabel st.raft.term l = true) →
        st.raft.prs.get j = some pr → pr.state = .snapshot →
        (apOf j st'.raft.msgs).Sublist (apOf j st.raft.msgs) ∧
        ∀ m ∈ st'.raft.msgs, m.to = j → m.msgType = .msgAppend → m ∈ st.raft.msgs := by
  obtain ⟨l, hl⟩ := step_iff_lstep.1 (hist_step_at hh n s s' hs hs')
  refine ⟨l, hl, fun i j st st' pr hn hn' hlead hc hg hsnap => ?_⟩
  have hsub := lstep_na (pb := false) hl i j st st' pr hn hc hn' hlead (Or.inl rfl) hg (Or.inl hsnap)
  refine ⟨hsub, fun m hm h1 h2 => ?_⟩
  have hin : m ∈ apOf j st'.raft.msgs := by simp [apOf, hm, h1, h2]
  have := hsub.subset hin
  simp [apOf] at this
  exact this.1

/-- **C13, one probe outstanding, per step (partial)**: at a covered step of a history, a node that is leader
before the step and whose progress for `j ≠ i` is in the `Probe` state with `paused` queues no `MsgAppend`
for `j` -/
theorem C13_cluster_probe_sends_at_most_one_partial (h : List Sys) (hh : History h)
    (n : Nat) (s s' : Sys) (hs : h[n]? = some s) (hs' : h[n + 1]? = some s') :
    ∃ l, LStep s l s' ∧
      ∀ (i j : Nat) (st st' : NState) (pr : Progress),
        s.node i = some st → s'.node i = some st' → st.raft.state = .leader →
        (i = l.node → coveredLabel st.raft.term l = true) → j ≠ st.raft.id →
        st.raft.prs.get j = some pr → pr.state = .probe → pr.paused = true →
        (apOf j st'.raft.msgs).Sublist (apOf j st.raft.msgs) ∧
        ∀ m ∈ st'.raft.msgs, m.to = j → m.msgType = .msgAppend → m ∈ st.raft.msgs := by
  obtain ⟨l, hl⟩ := step_iff_lstep.1 (hist_step_at hh n s s' hs hs')
  refine ⟨l, hl, fun i j st st' pr hn hn' hlead hc hne hg hp1 hp2 => ?_⟩
  have hsub := lstep_na (pb := true) hl i j st st' pr hn hc hn' hlead (Or.inr hne) hg
    (Or.inr ⟨rfl, hp1, hp2⟩)
  refine ⟨hsub, fun m hm h1 h2 => ?_⟩
  have hin : m ∈ apOf j st'.raft.msgs := by simp [apOf, hm, h1, h2]
  have := hsub.subset hin
  simp [apOf] at this
  exact this.1

/-! ### non-vacuity -/

open RaftModel.Cluster.Snap2 RaftProps.C02

/-- the leader (node 1) of the snapshot history after one more proposal, made while its snapshot for node 3 is
outstanding -/
def ex_a19 : NState := c02x_st (Node.call sx_a18 none (.propose [] [7]))
def ex_t12 : Sys := sx_t11.setNode 1 ex_a19
def ex_hist : List Sys := sx_hist ++ [ex_t12]

set_option maxRecDepth 100000 in
theorem ex_lstep : LStep sx_t11 (.call 1 none (.propose [] [7])) ex_t12 :=
  LStep.call _ 1 sx_a18 ex_a19 none (.propose [] [7]) _ rfl rfl (c02x_out _ (by decide))

theorem ex_history : History ex_hist := by
  have h0 : sx_hist = sx_hist.dropLast ++ [sx_t11] := by rfl
  have h1 : History (sx_hist.dropLast ++ [sx_t11]) := h0 ▸ sx_history
  have h2 := History.step _ _ ex_t12 h1 (step_iff_lstep.2 ⟨_, ex_lstep⟩)
  have h3 : ex_hist = sx_hist.dropLast ++ [sx_t11, ex_t12] := by
    show sx_hist ++ [ex_t12] = _
    rw [h0]; simp
  rw [h3]; exact h2

set_option maxRecDepth 100000 in
/-- the step `ex_hist[33] → ex_hist[34]` is a covered step (a `propose` at node 1) at which node 1 is leader, its
progress for node 3 is in the `Snapshot` state with `pending_snapshot = 2` before and after; the step queues an
append for node 2 and — by the theorem — none for node 3 -/
theorem C13_cluster_snapshot_nonvacuous :
    History ex_hist ∧ ex_hist[33]? = some sx_t11 ∧ ex_hist[34]? = some ex_t12 ∧
    LStep sx_t11 (.call 1 none (.propose [] [7])) ex_t12 ∧
    coveredLabel sx_a18.raft.term (.call 1 none (.propose [] [7])) = true ∧
    sx_t11.node 1 = some sx_a18 ∧ ex_t12.node 1 = some ex_a19 ∧ sx_a18.raft.state = .leader ∧
    (∃ pr pr', sx_a18.raft.prs.get 3 = some pr ∧ pr.state = .snapshot ∧ pr.pendingSnapshot = 2 ∧
      ex_a19.raft.prs.get 3 = some pr' ∧ pr'.state = .snapshot ∧ pr'.pendingSnapshot = 2) ∧
    (∃ m ∈ ex_a19.raft.msgs, m.to = 2 ∧ m.msgType = .msgAppend) ∧
    apOf 3 ex_a19.raft.msgs = [] := by
  refine ⟨ex_history, rfl, rfl, ex_lstep, rfl, rfl, rfl, by decide, ?_, ?_, ?_⟩
  · have h1 : ((sx_a18.raft.prs.get 3).map (fun p => (p.state, p.pendingSnapshot))) =
        some (.snapshot, 2) := by decide
    have h2 : ((ex_a19.raft.prs.get 3).map (fun p => (p.state, p.pendingSnapshot))) =
        some (.snapshot, 2) := by decide
    cases ha : sx_a18.raft.prs.get 3 with
    | none => rw [ha] at h1; cases h1
    | some pr =>
      cases hb : ex_a19.raft.prs.get 3 with
      | none => rw [hb] at h2; cases h2
      | some pr' =>
        rw [ha] at h1; rw [hb] at h2
        simp only [Option.map_some, Option.some.injEq, Prod.mk.injEq] at h1 h2
        exact ⟨pr, pr', rfl, h1.1, h1.2, rfl, h2.1, h2.2⟩
  · have : (ex_a19.raft.msgs.any (fun m => decide (m.to = 2 ∧ m.msgType = .msgAppend))) = true := by decide
    rw [List.any_eq_true] at this
    obtain ⟨m, hm, hd⟩ := this
    exact ⟨m, hm, of_decide_eq_true hd⟩
  · -- by the theorem (`lstep_na`): the queue of `sx_a18` is empty
    have hq : sx_a18.raft.msgs = [] := by decide
    cases hx : apOf 3 ex_a19.raft.msgs with
    | nil => rfl
    | cons m t =>
      exfalso
      have hm : m ∈ apOf 3 ex_a19.raft.msgs := by rw [hx]; exact List.mem_cons_self
      simp [apOf] at hm
      have hsub := lstep_na (pb := false) ex_lstep 1 3 sx_a18 ex_a19
      have h1 : ((sx_a18.raft.prs.get 3).map (fun p => p.state)) = some .snapshot := by decide
      cases ha : sx_a18.raft.prs.get 3 with
      | none => rw [ha] at h1; cases h1
      | some pr =>
        rw [ha] at h1
        simp only [Option.map_some, Option.some.injEq] at h1
        have := hsub pr rfl (fun _ => rfl) rfl (by decide) (Or.inl rfl) ha (Or.inl h1)
        rw [hq, hx] at this
        simp [apOf] at this

end RaftProps.C13e

#print axioms RaftProps.C13e.lstep_na
#print axioms RaftProps.C13e.C13_cluster_no_append_while_snapshot_outstanding_partial
#print axioms RaftProps.C13e.C13_cluster_probe_sends_at_most_one_partial
#print axioms RaftProps.C13e.ex_lstep
#print axioms RaftProps.C13e.ex_history
#print axioms RaftProps.C13e.C13_cluster_snapshot_nonvacuous
