import RaftProofs.RawNodeC06

/-!
# C06 (continued) — "persist before send" as a theorem on the RawNode model

C06: *every message that carries a promise — … anything sent as leader of a term — is released for
sending only after the hard state it depends on has been reported persisted.*

At the `RawNode` level (`RaftModel/RawNode.lean`, model of `src/raw_node.rs`): `Ready.messages` are
released immediately, before the application persists the Ready; `Ready.persistedMessages` only
after it has; `advance_append` hands out a `LightReady` with messages.  Proved here, over every run
of the transition system `applyOp` below (the node, the Readies handed out, and the application's
stable storage as a ghost pair `(durTerm, durVote)`), under the application contract of the
documentation (`on_persist_ready(k)` only after everything up to Ready `k` is durable,
`advance_append` only after the Ready is durable) and Raft's term / vote discipline on `env` steps:

* `C06b_immediate_release` — `ready()` hands out immediate messages only on a leader whose current
  `(term, vote)` is the durable one;
* `C06b_light_release` — the same for the `LightReady` of `advance_append`;
* `C06b_non_leader_never_immediate`, `C06b_unpersisted_tv_never_immediate` (any state, no
  reachability): a non-leader, or a node whose `(term, vote)` differs from `prev_hs`, releases
  nothing immediately;
* `C06b_release_partition` — every message of a Ready is either immediate under the conditions
  above or a `persisted_message`;
* `C06b_store_tie` — the ghost pair is the `(term, vote)` of `n.log.store.hardState` along every
  run (with the proviso `SnapTermOk`, see there: `MemStorage::apply_snapshot` raises the stored term
  to the snapshot's, `C06b_snapshot_raises_stored_term`).

Steps of the system: `env` (under `EnvDiscipline`), `ready`, `write` (the oldest unwritten Ready,
in order of numbers), `persisted k` (only `k ≤ written`), `commitAsync` / `advanceAppend` (newest
Ready; `advanceAppend` only when it is written), `applyTo`, and two storage-side steps of the
application that cannot touch `(term, vote)`: `writeCommit`, `compact`.

The invariant is `RaftModel.C06.Inv` (`RaftProofs/RawNodeC06.lean`), `AInv` here (`init_inv`,
`step_inv`, `reach_inv`).  Non-vacuity: `C06b_example_immediate`, `C06b_example_F1`,
`C06b_example_async`, `C06b_example_light`.
`C06b_contract_needed` shows that without the contract on `on_persist_ready` the property fails.
-/
namespace RaftProps.C06b
open RaftModel RaftModel.RawNodeM RaftModel.C06

/-! ### the transition system -/

/-- the node, every Ready handed out so far (newest first), the number of the newest Ready the
application has written to stable storage, and the `(term, vote)` in that storage (ghost) -/
structure App where
  n : RawNodeM
  handed : List Ready := []
  written : Nat := 0
  durTerm : Nat
  durVote : Nat

inductive Op where
  /-- `Raft::step / tick / propose / campaign …` between RawNode calls -/
  | env (e : EnvEffect)
  /-- `ready()` -/
  | ready
  /-- the application writes the oldest not-yet-written Ready to stable storage -/
  | write
  /-- `on_persist_ready(k)` -/
  | persisted (k : Nat) (eff : Effect)
  /-- `advance_append_async(rd)`, `rd` the newest Ready -/
  | commitAsync
  /-- `advance_append(rd)`, `rd` the newest Ready -/
  | advanceAppend (eff : Effect)
  /-- `advance_apply_to(applied)` -/
  | applyTo (applied : Nat) (eff : Effect)
  /-- the application persists the commit index of a `LightReady` (hard-state-only write) -/
  | writeCommit (commit : Nat)
  /-- the application compacts its storage -/
  | compact (index : Nat)
  deriving DecidableEq

/-- Raft's term / vote discipline, the hypothesis on `env` steps: the term does not decrease, and
within a term a vote, once cast, stays.  The node model proves it for `Raft::step`:
`C02_term_monotone`, `C02_vote_changes_only_from_none` (`RaftProps/C02b.lean`). -/
def EnvDiscipline (n : RawNodeM) (e : EnvEffect) : Prop :=
  n.term ≤ e.term ∧ (e.term = n.term → n.vote ≠ 0 → e.vote = n.vote)

instance (n : RawNodeM) (e : EnvEffect) : Decidable (EnvDiscipline n e) := by
  unfold EnvDiscipline; infer_instance

/-- the Ready the application writes next: number `written + 1` -/
def nextToWrite (a : App) : Option Ready := a.handed.find? (fun rd => rd.number == a.written + 1)

/-- the durable `(term, vote)` after `rd` has been written: `set_hardstate(rd.hs)` if present -/
def durAfter (a : App) (rd : Ready) : Nat × Nat :=
  match rd.hs with
  | some hs => (hs.term, hs.vote)
  | none => (a.durTerm, a.durVote)

/-- one step; `none`: the call is not allowed by the contract in this state, or it does not return
`Ok`.  (`advance(rd)` is `advance_append(rd)` followed by `advance_apply_to`, `advance_apply` is
`advance_apply_to(commit_since_index)`: no separate steps.  The `write` step performs the model's
`storageWrite` on `n.log.store` as well, so that the ghost pair can be compared with the stored hard
state, `C06b_store_tie`; the invariant and the release theorems do not read the storage.) -/
def applyOp (a : App) : Op → Option App
  | .env e =>
    if EnvDiscipline a.n e then
      match a.n.env e with
      | .ok n' => some { a with n := n' }
      | .err _ => none
      | .panic _ => none
    else none
  | .ready =>
    match a.n.ready with
    | .ok (n', rd) => some { a with n := n', handed := rd :: a.handed }
    | .err _ => none
    | .panic _ => none
  | .write =>
    match nextToWrite a with
    | some rd =>
      match a.n.storageWrite rd with
      | .ok n' => some { n := n', handed := a.handed, written := a.written + 1,
                         durTerm := (durAfter a rd).1, durVote := (durAfter a rd).2 }
      | .err _ => none
      | .panic _ => none
    | none => none
  | .persisted k eff =>
    -- the contract: "call it after everything up to Ready k is durable"
    if k ≤ a.written then
      match a.n.onPersistReady k eff with
      | .ok n' => some { a with n := n' }
      | .err _ => none
      | .panic _ => none
    else none
  | .commitAsync =>
    match a.handed with
    | rd :: _ =>
      match a.n.advanceAppendAsync rd with
      | .ok n' => some { a with n := n' }
      | .err _ => none
      | .panic _ => none
    | [] => none
  | .advanceAppend eff =>
    match a.handed with
    | rd :: _ =>
      -- the contract of the synchronous API: the Ready has been written
      if a.written = rd.number then
        match a.n.advanceAppend rd eff with
        | .ok (n', _) => some { a with n := n' }
        | .err _ => none
        | .panic _ => none
      else none
    | [] => none
  | .applyTo k eff =>
    match a.n.advanceApplyTo k eff with
    | .ok n' => some { a with n := n' }
    | .err _ => none
    | .panic _ => none
  | .writeCommit c => some { a with n := a.n.storageCommit c }
  | .compact k =>
    match a.n.log.compactStore k with
    | .ok l => some { a with n := { a.n with log := l } }
    | .err _ => none
    | .panic _ => none

/-- initial states: nothing handed out, `prev_hs` and the storage agree with the node on
`(term, vote)` — what `RawNode::new` produces (`new_init`) -/
def Init (a : App) : Prop :=
  a.n.prevHs.term = a.n.term ∧ a.n.prevHs.vote = a.n.vote ∧ a.n.unpersistedHsNumber = 0 ∧
  a.n.maxNumber = 0 ∧ a.n.records = [] ∧ a.handed = [] ∧ a.written = 0 ∧
  a.durTerm = a.n.term ∧ a.durVote = a.n.vote

inductive Reach : App → Prop where
  | init {a : App} : Init a → Reach a
  | step {a b : App} {op : Op} : Reach a → applyOp a op = some b → Reach b

def run : App → List Op → Option App
  | a, [] => some a
  | a, op :: ops => match applyOp a op with
    | some b => run b ops
    | none => none

theorem reach_run {a b : App} {ops : List Op} (h : Reach a) (hr : run a ops = some b) :
    Reach b := by
  induction ops generalizing a with
  | nil => unfold run at hr; injection hr with hr; subst hr; exact h
  | cons op ops ih =>
    unfold run at hr
    cases ho : applyOp a op with
    | some c => rw [ho] at hr; exact ih (.step h ho) hr
    | none => rw [ho] at hr; cases hr

/-- the ghost pair is what the model's storage holds -/
def Tie (a : App) : Prop :=
  a.durTerm = a.n.log.store.hardState.term ∧ a.durVote = a.n.log.store.hardState.vote

/-- `RawNode::new` over a storage gives an initial state whose durable pair is the stored one -/
theorem new_init {store : MemStorage} {limit applied maxc : Nat} {n : RawNodeM}
    (h : RawNodeM.new store limit applied maxc = .ok n) :
    Init { n := n, durTerm := store.hardState.term, durVote := store.hardState.vote } ∧
    Tie { n := n, durTerm := store.hardState.term, durVote := store.hardState.vote } := by
  obtain ⟨h1, h2, h3, h4, h5, h6, h7, _, h9⟩ := new_shape h
  refine ⟨⟨h3, h4, h5, h6, h7, rfl, rfl, h1.symm, h2.symm⟩, ?_, ?_⟩
  · show store.hardState.term = n.log.store.hardState.term; rw [h9]
  · show store.hardState.vote = n.log.store.hardState.vote; rw [h9]

/-! ### the invariant -/

/-- `RaftModel.C06.Inv` on the state -/
def AInv (a : App) : Prop :=
  Inv a.n.term a.n.vote a.n.prevHs.term a.n.prevHs.vote a.n.unpersistedHsNumber a.n.maxNumber
    a.handed a.written a.durTerm a.durVote

theorem AInv.mk' {t v pt pv u m : Nat} {H : List Ready} {w dT dV : Nat}
    (i : Inv t v pt pv u m H w dT dV) {n' : RawNodeM} (h1 : n'.term = t) (h2 : n'.vote = v)
    (h3 : n'.prevHs.term = pt) (h4 : n'.prevHs.vote = pv) (h5 : n'.unpersistedHsNumber = u)
    (h6 : n'.maxNumber = m) :
    AInv { n := n', handed := H, written := w, durTerm := dT, durVote := dV } := by
  subst h1 h2 h3 h4 h5 h6; exact i

theorem AInv.frame {a : App} (i : AInv a) {n' : RawNodeM} (f : Fr a.n n') :
    AInv { a with n := n' } :=
  AInv.mk' i f.term f.vote f.pterm f.pvote f.uhn f.maxNumber

theorem init_inv {a : App} (h : Init a) : AInv a := by
  obtain ⟨h1, h2, h3, h4, _, h6, h7, h8, h9⟩ := h
  unfold AInv
  rw [h1, h2, h3, h4, h6, h7, h8, h9]
  exact Inv.init _ _

theorem ple_of_discipline {n : RawNodeM} {e : EnvEffect} (h : EnvDiscipline n e) :
    ple n.term n.vote e.term e.vote := by
  obtain ⟨h1, h2⟩ := h
  unfold ple
  by_cases h3 : e.term = n.term
  · by_cases h4 : n.vote = 0
    · omega
    · have := h2 h3 h4; omega
  · omega

theorem inv_env {a : App} (i : AInv a) {e : EnvEffect} {n' : RawNodeM}
    (hd : EnvDiscipline a.n e) (h : a.n.env e = .ok n') : AInv { a with n := n' } := by
  obtain ⟨h1, h2, _, h4, h5, h6, _⟩ := env_shape h
  exact AInv.mk' (Inv.env i (ple_of_discipline hd)) h1 h2 (by rw [h4]) (by rw [h4]) h5 h6

theorem inv_ready {a : App} (i : AInv a) {n' : RawNodeM} {rd : Ready}
    (h : a.n.ready = .ok (n', rd)) : AInv { a with n := n', handed := rd :: a.handed } := by
  obtain ⟨h1, h2, _, h4, _, h6, h7, h8, h9, _, _⟩ := ready_shape h
  obtain ⟨c1, c2⟩ := readyUhn_cases a.n
  refine AInv.mk' (Inv.ready i (u' := a.n.readyUhn) h8 ?_ ?_ c2) h1 h2 (by rw [h4]) (by rw [h4])
    h7 h6
  · intro hs hh
    rw [h9] at hh
    split at hh
    · injection hh with hh; subst hh; exact ⟨rfl, rfl⟩
    · cases hh
  · intro hc
    obtain ⟨e1, e2⟩ := c1 hc
    exact ⟨e1, a.n.hardState, by rw [h9, e2]; rfl⟩

theorem nextToWrite_spec {a : App} {rd : Ready} (h : nextToWrite a = some rd) :
    rd ∈ a.handed ∧ rd.number = a.written + 1 := by
  unfold nextToWrite at h
  have h1 := List.find?_some h
  exact ⟨List.mem_of_find?_eq_some h, by simpa using h1⟩

theorem inv_write {a : App} (i : AInv a) {rd : Ready} {n' : RawNodeM}
    (hn : nextToWrite a = some rd) (h : a.n.storageWrite rd = .ok n') :
    AInv { n := n', handed := a.handed, written := a.written + 1,
           durTerm := (durAfter a rd).1, durVote := (durAfter a rd).2 } := by
  obtain ⟨hm, hnum⟩ := nextToWrite_spec hn
  obtain ⟨f, _, _⟩ := storageWrite_shape h
  refine AInv.mk' (Inv.write i hm hnum (dT' := (durAfter a rd).1) (dV' := (durAfter a rd).2) ?_ ?_)
    f.term f.vote f.pterm f.pvote f.uhn f.maxNumber
  · intro hh; unfold durAfter; rw [hh]; exact ⟨rfl, rfl⟩
  · intro hs hh; unfold durAfter; rw [hh]; exact ⟨rfl, rfl⟩

theorem inv_persisted {a : App} (i : AInv a) {k : Nat} {eff : Effect} {n' : RawNodeM}
    (hk : k ≤ a.written) (h : a.n.onPersistReady k eff = .ok n') : AInv { a with n := n' } := by
  obtain ⟨h1, h2, _, h4, h5, h6, h7, _⟩ := onPersistReady_shape h
  exact AInv.mk' (Inv.persisted i hk) h1 h2 h4 h5 h6 h7

theorem inv_commit {a : App} (i : AInv a) {rd : Ready} {rest : List Ready} {n' : RawNodeM}
    (hH : a.handed = rd :: rest) (h : a.n.commitReady rd = .ok n') : AInv { a with n := n' } := by
  obtain ⟨h1, h2, _, h4, h5, h6, _⟩ := commitReady_shape h
  refine AInv.mk' (Inv.commit i hH (pt' := n'.prevHs.term) (pv' := n'.prevHs.vote) ?_ ?_)
    h1 h2 rfl rfl h5 h6
  · intro hh; rw [h4, hh]; exact ⟨rfl, rfl⟩
  · intro hs hh; rw [h4, hh]; exact ⟨rfl, rfl⟩

theorem inv_advanceAppend {a : App} (i : AInv a) {rd : Ready} {rest : List Ready} {eff : Effect}
    {n' : RawNodeM} {light : LightReady} (hH : a.handed = rd :: rest)
    (hw : a.written = rd.number) (h : a.n.advanceAppend rd eff = .ok (n', light)) :
    AInv { a with n := n' } ∧ n'.unpersistedHsNumber = 0 := by
  obtain ⟨n1, n2, n3, l3, h1, h2, h3, _, _, f, _, _⟩ := advanceAppend_shape h
  have i1 : AInv { a with n := n1 } := inv_commit i hH h1
  have hmax : n1.maxNumber = rd.number := by
    have := (hH ▸ i1.nums : NumsOk (rd :: rest) n1.maxNumber).head.1
    exact this.symm
  have i2 : AInv { a with n := n2 } :=
    inv_persisted (a := { a with n := n1 }) i1 (by show n1.maxNumber ≤ a.written; omega) h2
  have f3 := (genLightReady_fr h3).1
  have i3 : AInv { a with n := n' } := AInv.frame (a := { a with n := n2 }) i2 (f3.trans f)
  refine ⟨i3, ?_⟩
  obtain ⟨_, _, _, _, _, h6, _, _⟩ := onPersistReady_shape h2
  rw [f.uhn, f3.uhn, h6, if_pos i1.uhnLe]

/-- every step keeps the invariant -/
theorem step_inv {a b : App} {op : Op} (i : AInv a) (h : applyOp a op = some b) : AInv b := by
  cases op with
  | env e =>
    simp only [applyOp] at h
    split at h
    · rename_i hd
      cases he : a.n.env e with
      | ok n' => simp only [he] at h; injection h with h; subst h; exact inv_env i hd he
      | err e => simp only [he] at h; cases h
      | panic s => simp only [he] at h; cases h
    · cases h
  | ready =>
    simp only [applyOp] at h
    cases he : a.n.ready with
    | ok p =>
      obtain ⟨n', rd⟩ := p
      simp only [he] at h; injection h with h; subst h; exact inv_ready i he
    | err e => simp only [he] at h; cases h
    | panic s => simp only [he] at h; cases h
  | write =>
    simp only [applyOp] at h
    cases hn : nextToWrite a with
    | some rd =>
      simp only [hn] at h
      cases he : a.n.storageWrite rd with
      | ok n' => simp only [he] at h; injection h with h; subst h; exact inv_write i hn he
      | err e => simp only [he] at h; cases h
      | panic s => simp only [he] at h; cases h
    | none => simp only [hn] at h; cases h
  | persisted k eff =>
    simp only [applyOp] at h
    split at h
    · rename_i hk
      cases he : a.n.onPersistReady k eff with
      | ok n' => simp only [he] at h; injection h with h; subst h; exact inv_persisted i hk he
      | err e => simp only [he] at h; cases h
      | panic s => simp only [he] at h; cases h
    · cases h
  | commitAsync =>
    simp only [applyOp] at h
    cases hH : a.handed with
    | nil => simp only [hH] at h; cases h
    | cons rd rest =>
      simp only [hH] at h
      cases he : a.n.advanceAppendAsync rd with
      | ok n' =>
        simp only [he] at h; injection h with h; subst h
        have := inv_commit i hH he
        rw [hH] at this; exact this
      | err e => simp only [he] at h; cases h
      | panic s => simp only [he] at h; cases h
  | advanceAppend eff =>
    simp only [applyOp] at h
    cases hH : a.handed with
    | nil => simp only [hH] at h; cases h
    | cons rd rest =>
      simp only [hH] at h
      split at h
      · rename_i hw
        cases he : a.n.advanceAppend rd eff with
        | ok p =>
          obtain ⟨n', l⟩ := p
          simp only [he] at h; injection h with h; subst h
          have := (inv_advanceAppend i hH hw he).1
          rw [hH] at this; exact this
        | err e => simp only [he] at h; cases h
        | panic s => simp only [he] at h; cases h
      · cases h
  | applyTo k eff =>
    simp only [applyOp] at h
    cases he : a.n.advanceApplyTo k eff with
    | ok n' =>
      simp only [he] at h; injection h with h; subst h
      exact AInv.frame i (commitApply_fr he)
    | err e => simp only [he] at h; cases h
    | panic s => simp only [he] at h; cases h
  | writeCommit c =>
    simp only [applyOp] at h
    injection h with h; subst h
    exact AInv.mk' i rfl rfl rfl rfl rfl rfl
  | compact k =>
    simp only [applyOp] at h
    cases he : a.n.log.compactStore k with
    | ok l =>
      simp only [he] at h; injection h with h; subst h
      exact AInv.mk' i rfl rfl rfl rfl rfl rfl
    | err e => simp only [he] at h; cases h
    | panic s => simp only [he] at h; cases h

theorem reach_inv {a : App} (h : Reach a) : AInv a := by
  induction h with
  | init hi => exact init_inv hi
  | step _ hs ih => exact step_inv ih hs

/-! ### the theorems -/

theorem messages_ne_nil {rd : Ready} (h : rd.messages ≠ []) : rd.isPersistedMsg = false := by
  unfold Ready.messages at h
  cases hp : rd.isPersistedMsg with
  | false => rfl
  | true => rw [hp] at h; exact absurd rfl h

/-- when `ready()` marks the messages of a Ready as immediate (`is_persisted_msg = false`), the
node is leader, its `(term, vote)` is the one of `prev_hs` and no hard state is unpersisted -/
theorem immediate_flag {n n' : RawNodeM} {rd : Ready} (h : n.ready = .ok (n', rd))
    (hp : rd.isPersistedMsg = false) :
    n.role = ROLE_LEADER ∧ n.term = n.prevHs.term ∧ n.vote = n.prevHs.vote ∧
      n.unpersistedHsNumber = 0 := by
  obtain ⟨_, _, _, _, _, _, _, _, _, h10, _⟩ := ready_shape h
  rw [h10, Bool.or_eq_false_iff] at hp
  obtain ⟨hp1, hp2⟩ := hp
  have hrole : n.role = ROLE_LEADER := Classical.not_not.1 (of_decide_eq_false hp1)
  have hu : n.readyUhn = 0 := Classical.not_not.1 (of_decide_eq_false hp2)
  obtain ⟨c1, c2⟩ := readyUhn_cases n
  by_cases hc : n.vote ≠ n.prevHs.vote ∨ n.term ≠ n.prevHs.term
  · have := (c1 hc).1; omega
  · have := c2 hc
    refine ⟨hrole, ?_, ?_, by omega⟩
    · exact Classical.not_not.1 (fun h => hc (.inr h))
    · exact Classical.not_not.1 (fun h => hc (.inl h))

/-- **C06b, immediate release.**  In every reachable state: if `ready()` hands out immediate
messages, the node is leader and its current `(term, vote)` is the one in the application's stable
storage. -/
theorem C06b_immediate_release {a : App} (hr : Reach a) {n' : RawNodeM} {rd : Ready}
    (h : a.n.ready = .ok (n', rd)) (hm : rd.messages ≠ []) :
    a.n.role = ROLE_LEADER ∧ a.n.term = a.durTerm ∧ a.n.vote = a.durVote := by
  obtain ⟨h1, h2, h3, h4⟩ := immediate_flag h (messages_ne_nil hm)
  obtain ⟨e1, e2⟩ := (reach_inv hr).key h2 h3 h4
  exact ⟨h1, e1.symm, e2.symm⟩

/-- **C06b, release by `advance_append`.**  In every reachable state, for the newest Ready `rd`,
written (the contract of the synchronous API): after `advance_append(rd)` the node's `(term, vote)`
is the durable one (which the call does not change), and if the `LightReady` carries messages the
node is leader. -/
theorem C06b_light_release {a : App} (hr : Reach a) {rd : Ready} {rest : List Ready}
    {eff : Effect} {n' : RawNodeM} {light : LightReady} (hH : a.handed = rd :: rest)
    (hw : a.written = rd.number) (h : a.n.advanceAppend rd eff = .ok (n', light)) :
    (light.messages ≠ [] → n'.role = ROLE_LEADER) ∧ n'.term = a.durTerm ∧ n'.vote = a.durVote := by
  obtain ⟨i', hu⟩ := inv_advanceAppend (reach_inv hr) hH hw h
  obtain ⟨_, _, n3, l3, _, _, _, hl, hrole, f, ht, hv⟩ := advanceAppend_shape h
  obtain ⟨e1, e2⟩ := i'.key ht hv hu
  refine ⟨?_, e1.symm, e2.symm⟩
  intro hm
  rw [hl] at hm
  rcases hrole with h1 | h1
  · rw [f.role]; exact h1
  · exact absurd h1 hm

/-- the form of the brief -/
theorem C06b_light_release' {a : App} (hr : Reach a) {rd : Ready} {rest : List Ready}
    {eff : Effect} {n' : RawNodeM} {light : LightReady} (hH : a.handed = rd :: rest)
    (hw : a.written = rd.number) (h : a.n.advanceAppend rd eff = .ok (n', light))
    (hm : light.messages ≠ []) :
    n'.role = ROLE_LEADER ∧ n'.term = a.durTerm ∧ n'.vote = a.durVote :=
  let ⟨h1, h2, h3⟩ := C06b_light_release hr hH hw h
  ⟨h1 hm, h2, h3⟩

/-- **a non-leader never releases immediately** (any state) -/
theorem C06b_non_leader_never_immediate (n n' : RawNodeM) (rd : Ready)
    (h : n.ready = .ok (n', rd)) (hr : n.role ≠ ROLE_LEADER) : rd.messages = [] := by
  apply Classical.byContradiction
  intro hm
  exact hr (immediate_flag h (messages_ne_nil hm)).1

/-- **a term or vote not yet handed out for persistence blocks the immediate release** (any
state): the F1 situation — becoming leader in the step that changes the term -/
theorem C06b_unpersisted_tv_never_immediate (n n' : RawNodeM) (rd : Ready)
    (h : n.ready = .ok (n', rd)) (hc : n.term ≠ n.prevHs.term ∨ n.vote ≠ n.prevHs.vote) :
    rd.messages = [] := by
  apply Classical.byContradiction
  intro hm
  obtain ⟨_, h2, h3, _⟩ := immediate_flag h (messages_ne_nil hm)
  rcases hc with hc | hc
  · exact hc h2
  · exact hc h3

/-- … and so does a hard state handed out but not yet reported persisted (any state) -/
theorem C06b_unpersisted_number_never_immediate (n n' : RawNodeM) (rd : Ready)
    (h : n.ready = .ok (n', rd)) (hc : n.unpersistedHsNumber ≠ 0) : rd.messages = [] := by
  apply Classical.byContradiction
  intro hm
  exact hc (immediate_flag h (messages_ne_nil hm)).2.2.2

/-- **every message of a Ready is released in one of two ways**: all of them as
`persisted_messages` — which the application may send only after the `write` of that Ready, by the
documented contract — or all of them immediately, and then (reachable state) the node is leader
with a durable `(term, vote)`. -/
theorem C06b_release_partition {a : App} (hr : Reach a) {n' : RawNodeM} {rd : Ready}
    (h : a.n.ready = .ok (n', rd)) :
    rd.light.messages = a.n.msgs ∧
    ((rd.isPersistedMsg = true ∧ rd.messages = [] ∧ rd.persistedMessages = rd.light.messages) ∨
     (rd.isPersistedMsg = false ∧ rd.persistedMessages = [] ∧ rd.messages = rd.light.messages ∧
      a.n.role = ROLE_LEADER ∧ a.n.term = a.durTerm ∧ a.n.vote = a.durVote)) := by
  obtain ⟨_, _, _, _, _, _, _, _, _, _, h11⟩ := ready_shape h
  refine ⟨h11, ?_⟩
  cases hp : rd.isPersistedMsg with
  | true =>
    left
    refine ⟨rfl, ?_, ?_⟩
    · unfold Ready.messages; rw [hp]; rfl
    · unfold Ready.persistedMessages; rw [hp]; rfl
  | false =>
    right
    obtain ⟨h1, h2, h3, h4⟩ := immediate_flag h hp
    obtain ⟨e1, e2⟩ := (reach_inv hr).key h2 h3 h4
    refine ⟨rfl, ?_, ?_, h1, e1.symm, e2.symm⟩
    · unfold Ready.persistedMessages; rw [hp]; rfl
    · unfold Ready.messages; rw [hp]; rfl

/-! ### the ghost pair and the model's storage -/

/-- proviso for the storage tie.  `MemStorage::apply_snapshot` (storage.rs:250) sets the stored
term to `max(stored term, snapshot term)`.  A Ready that carries a snapshot but no hard state
therefore changes the stored term when the snapshot's term is larger — which Raft excludes (a node
restores a snapshot only at a term ≥ the snapshot's, and that term is handed out first), but the
`env` of this model does not. -/
def SnapTermOk (a : App) : Op → Prop
  | .write => ∀ rd, nextToWrite a = some rd → rd.hs = none → ∀ sn, rd.snapshot = some sn →
      sn.metadata.term ≤ a.n.log.store.hardState.term
  | _ => True

theorem Tie.frame {a : App} (t : Tie a) {n' : RawNodeM} (f : Fr a.n n') :
    Tie { a with n := n' } := by
  unfold Tie at *
  show a.durTerm = n'.log.store.hardState.term ∧ a.durVote = n'.log.store.hardState.vote
  rw [f.store]; exact t

/-- every step keeps the ghost pair equal to the stored `(term, vote)` -/
theorem step_tie {a b : App} {op : Op} (t : Tie a) (hs : SnapTermOk a op)
    (h : applyOp a op = some b) : Tie b := by
  have hstore : ∀ n' : RawNodeM, n'.log.store = a.n.log.store → Tie { a with n := n' } := by
    intro n' hn'
    unfold Tie at *
    show a.durTerm = n'.log.store.hardState.term ∧ a.durVote = n'.log.store.hardState.vote
    rw [hn']; exact t
  cases op with
  | env e =>
    simp only [applyOp] at h
    split at h
    · cases he : a.n.env e with
      | ok n' =>
        simp only [he] at h; injection h with h; subst h
        exact hstore _ (env_shape he).2.2.2.2.2.2
      | err e => simp only [he] at h; cases h
      | panic s => simp only [he] at h; cases h
    · cases h
  | ready =>
    simp only [applyOp] at h
    cases he : a.n.ready with
    | ok p =>
      obtain ⟨n', rd⟩ := p
      simp only [he] at h; injection h with h; subst h
      have hl := (ready_shape he).2.2.2.2.1
      unfold Tie at *
      show a.durTerm = n'.log.store.hardState.term ∧ a.durVote = n'.log.store.hardState.vote
      rw [hl]; exact t
    | err e => simp only [he] at h; cases h
    | panic s => simp only [he] at h; cases h
  | write =>
    simp only [applyOp] at h
    cases hn : nextToWrite a with
    | some rd =>
      simp only [hn] at h
      cases he : a.n.storageWrite rd with
      | ok n' =>
        simp only [he] at h; injection h with h; subst h
        obtain ⟨_, w1, w2⟩ := storageWrite_shape he
        unfold Tie at *
        show (durAfter a rd).1 = n'.log.store.hardState.term ∧
          (durAfter a rd).2 = n'.log.store.hardState.vote
        unfold durAfter
        cases hh : rd.hs with
        | some hs0 => rw [w1 hs0 hh]; exact ⟨rfl, rfl⟩
        | none =>
          obtain ⟨v1, v2⟩ := w2 hh
          refine ⟨?_, by rw [v1]; exact t.2⟩
          rcases v2 with ⟨_, v2⟩ | ⟨sn, hsn, v2⟩
          · rw [v2]; exact t.1
          · have := hs rd hn hh sn hsn
            rw [v2, Nat.max_eq_left this]; exact t.1
      | err e => simp only [he] at h; cases h
      | panic s => simp only [he] at h; cases h
    | none => simp only [hn] at h; cases h
  | persisted k eff =>
    simp only [applyOp] at h
    split at h
    · cases he : a.n.onPersistReady k eff with
      | ok n' =>
        simp only [he] at h; injection h with h; subst h
        exact hstore _ (onPersistReady_shape he).2.2.2.2.2.2.2
      | err e => simp only [he] at h; cases h
      | panic s => simp only [he] at h; cases h
    · cases h
  | commitAsync =>
    simp only [applyOp] at h
    cases hH : a.handed with
    | nil => simp only [hH] at h; cases h
    | cons rd rest =>
      simp only [hH] at h
      cases he : a.n.advanceAppendAsync rd with
      | ok n' =>
        simp only [he] at h; injection h with h; subst h
        exact hstore _ (commitReady_shape he).2.2.2.2.2.2
      | err e => simp only [he] at h; cases h
      | panic s => simp only [he] at h; cases h
  | advanceAppend eff =>
    simp only [applyOp] at h
    cases hH : a.handed with
    | nil => simp only [hH] at h; cases h
    | cons rd rest =>
      simp only [hH] at h
      split at h
      · cases he : a.n.advanceAppend rd eff with
        | ok p =>
          obtain ⟨n', l⟩ := p
          simp only [he] at h; injection h with h; subst h
          obtain ⟨n1, n2, n3, l3, h1, h2, h3, _, _, f, _, _⟩ := advanceAppend_shape he
          refine hstore _ ?_
          rw [f.store, (genLightReady_fr h3).1.store, (onPersistReady_shape h2).2.2.2.2.2.2.2,
            (commitReady_shape h1).2.2.2.2.2.2]
        | err e => simp only [he] at h; cases h
        | panic s => simp only [he] at h; cases h
      · cases h
  | applyTo k eff =>
    simp only [applyOp] at h
    cases he : a.n.advanceApplyTo k eff with
    | ok n' =>
      simp only [he] at h; injection h with h; subst h
      exact hstore _ (commitApply_fr he).store
    | err e => simp only [he] at h; cases h
    | panic s => simp only [he] at h; cases h
  | writeCommit c =>
    simp only [applyOp] at h
    injection h with h; subst h
    exact t
  | compact k =>
    simp only [applyOp] at h
    cases he : a.n.log.compactStore k with
    | ok l =>
      simp only [he] at h; injection h with h; subst h
      have := compactStore_shape he
      unfold Tie at *
      show a.durTerm = l.store.hardState.term ∧ a.durVote = l.store.hardState.vote
      rw [this]; exact t
    | err e => simp only [he] at h; cases h
    | panic s => simp only [he] at h; cases h

/-- a write of a Ready that carries a hard state establishes the tie, whatever was stored before -/
theorem write_hs_tie {a b : App} {rd : Ready} {hs0 : HardState} (h : applyOp a .write = some b)
    (hn : nextToWrite a = some rd) (hh : rd.hs = some hs0) :
    Tie b ∧ b.durTerm = hs0.term ∧ b.durVote = hs0.vote := by
  simp only [applyOp, hn] at h
  cases he : a.n.storageWrite rd with
  | ok n' =>
    simp only [he] at h; injection h with h; subst h
    obtain ⟨_, w1, _⟩ := storageWrite_shape he
    unfold Tie
    show ((durAfter a rd).1 = n'.log.store.hardState.term ∧
      (durAfter a rd).2 = n'.log.store.hardState.vote) ∧ (durAfter a rd).1 = hs0.term ∧
      (durAfter a rd).2 = hs0.vote
    unfold durAfter
    rw [hh, w1 hs0 hh]
    exact ⟨⟨rfl, rfl⟩, rfl, rfl⟩
  | err e => simp only [he] at h; cases h
  | panic s => simp only [he] at h; cases h

/-- runs in which every step satisfies the proviso, from a state where the tie holds -/
inductive ReachS : App → Prop where
  | init {a : App} : Init a → Tie a → ReachS a
  | step {a b : App} {op : Op} : ReachS a → SnapTermOk a op → applyOp a op = some b → ReachS b

theorem ReachS.reach {a : App} (h : ReachS a) : Reach a := by
  induction h with
  | init hi _ => exact .init hi
  | step _ _ hs ih => exact .step ih hs

/-- **the ghost pair is the stored pair**: from `RawNode::new` (`new_init`) on, the pair of the
theorems above is `(term, vote)` of `n.log.store.hardState` -/
theorem C06b_store_tie {a : App} (h : ReachS a) : Tie a := by
  induction h with
  | init _ ht => exact ht
  | step _ hs ho ih => exact step_tie ih hs ho

/-- the two together: immediate messages only when the node's `(term, vote)` is the one in the
model's `MemStorage` -/
theorem C06b_immediate_release_store {a : App} (hr : ReachS a) {n' : RawNodeM} {rd : Ready}
    (h : a.n.ready = .ok (n', rd)) (hm : rd.messages ≠ []) :
    a.n.role = ROLE_LEADER ∧ a.n.term = a.n.log.store.hardState.term ∧
      a.n.vote = a.n.log.store.hardState.vote := by
  obtain ⟨h1, h2, h3⟩ := C06b_immediate_release hr.reach h hm
  obtain ⟨t1, t2⟩ := C06b_store_tie hr
  exact ⟨h1, h2.trans t1, h3.trans t2⟩

/-! ### non-vacuity, and why the contract is needed -/

/-- the state right after `RawNode::new` over `st` -/
def appOfNew (st : MemStorage) (n : RawNodeM) : App :=
  { n := n, durTerm := st.hardState.term, durVote := st.hardState.vote }

/-- `on_persist_ready(k)` **without** the contract `k ≤ written` (everything else as `applyOp`) -/
def applyOpNoContract (a : App) : Op → Option App
  | .persisted k eff =>
    match a.n.onPersistReady k eff with
    | .ok n' => some { a with n := n' }
    | .err _ => none
    | .panic _ => none
  | op => applyOp a op

def runNoContract : App → List Op → Option App
  | a, [] => some a
  | a, op :: ops => match applyOpNoContract a op with
    | some b => runNoContract b ops
    | none => none

/-- executable check: create a node over `st`, run `ops`, test `P` on the state reached -/
def check (runner : App → List Op → Option App) (st : MemStorage) (ops : List Op)
    (P : App → Bool) : Bool :=
  match RawNodeM.new st 0 0 NO_LIMIT with
  | .ok n => match runner (appOfNew st n) ops with
    | some a => P a
    | none => false
  | .err _ => false
  | .panic _ => false

theorem check_sound {runner : App → List Op → Option App} {st : MemStorage} {ops : List Op}
    {P : App → Bool} (h : check runner st ops P = true) :
    ∃ n a, RawNodeM.new st 0 0 NO_LIMIT = .ok n ∧ runner (appOfNew st n) ops = some a ∧
      P a = true := by
  unfold check at h
  cases hn : RawNodeM.new st 0 0 NO_LIMIT with
  | ok n =>
    simp only [hn] at h
    cases hr : runner (appOfNew st n) ops with
    | some a => simp only [hr] at h; exact ⟨n, a, rfl, hr, h⟩
    | none => simp only [hr] at h; cases h
  | err e => simp only [hn] at h; cases h
  | panic s => simp only [hn] at h; cases h

theorem check_reach {st : MemStorage} {ops : List Op} {P : App → Bool}
    (h : check run st ops P = true) : ∃ a, Reach a ∧ P a = true := by
  obtain ⟨n, a, hn, hr, hp⟩ := check_sound h
  exact ⟨a, reach_run (.init (new_init hn).1) hr, hp⟩

/-- what `ready()` would return in state `a`, tested by `Q` -/
def readyIs (Q : App → Ready → Bool) (a : App) : Bool :=
  match a.n.ready with
  | .ok (_, rd) => Q a rd
  | .err _ => false
  | .panic _ => false

theorem readyIs_sound {Q : App → Ready → Bool} {a : App} (h : readyIs Q a = true) :
    ∃ n' rd, a.n.ready = .ok (n', rd) ∧ Q a rd = true := by
  unfold readyIs at h
  cases hr : a.n.ready with
  | ok p => obtain ⟨n', rd⟩ := p; simp only [hr] at h; exact ⟨n', rd, rfl, h⟩
  | err e => simp only [hr] at h; cases h
  | panic s => simp only [hr] at h; cases h

/-- storage of a node that voted for itself (id 1) in term 1 -/
def st1 : MemStorage := { hardState := { term := 1, vote := 1, commit := 0 } }

/-- `Raft` makes the node leader of `term` with vote 1, messages `msgs` queued, log ops `ops` -/
def becomeLeader (term : Nat) (msgs : List Nat) (ops : List LogOp := []) : Op :=
  .env { term := term, vote := 1, role := ROLE_LEADER, leaderId := 1, msgs := msgs,
         readStates := [], limit := 0, ops := ops }

/-- **the hypotheses of `C06b_immediate_release` are satisfiable**: the node wins the election of
term 1, for which its own vote is durable already; the next Ready releases its messages
immediately. -/
theorem C06b_example_immediate :
    ∃ a n' rd, Reach a ∧ a.n.ready = .ok (n', rd) ∧ rd.messages = [7] ∧
      a.n.role = ROLE_LEADER ∧ a.n.term = 1 ∧ a.durTerm = 1 := by
  have h : check run st1 [becomeLeader 1 [7]]
      (readyIs fun a rd => decide (rd.messages = [7] ∧ a.n.role = ROLE_LEADER ∧ a.n.term = 1 ∧
        a.durTerm = 1)) = true := by decide +kernel
  obtain ⟨a, hr, hp⟩ := check_reach h
  obtain ⟨n', rd, hrd, hq⟩ := readyIs_sound hp
  have := of_decide_eq_true hq
  exact ⟨a, n', rd, hr, hrd, this⟩

/-- **the F1 scenario** (single-voter group): the node becomes leader in the same `env` step that
moves it to term 2.  The next Ready releases nothing immediately; the messages are
`persisted_messages`, to be sent after the hard state (term 2) is durable.  After the write and
`advance_append` the following Ready releases immediately again — and then term 2 is durable. -/
theorem C06b_example_F1 :
    (∃ a n' rd, Reach a ∧ a.n.ready = .ok (n', rd) ∧ rd.messages = [] ∧
      rd.persistedMessages = [7] ∧ a.n.role = ROLE_LEADER ∧ a.n.term = 2 ∧ a.durTerm = 1) ∧
    (∃ a n' rd, Reach a ∧ a.n.ready = .ok (n', rd) ∧ rd.messages = [8] ∧
      a.n.role = ROLE_LEADER ∧ a.n.term = 2 ∧ a.durTerm = 2) := by
  have h1 : check run st1 [becomeLeader 2 [7]]
      (readyIs fun a rd => decide (rd.messages = [] ∧ rd.persistedMessages = [7] ∧
        a.n.role = ROLE_LEADER ∧ a.n.term = 2 ∧ a.durTerm = 1)) = true := by decide +kernel
  have h2 : check run st1
      [becomeLeader 2 [7], .ready, .write, .advanceAppend {}, becomeLeader 2 [8]]
      (readyIs fun a rd => decide (rd.messages = [8] ∧ a.n.role = ROLE_LEADER ∧ a.n.term = 2 ∧
        a.durTerm = 2)) = true := by decide +kernel
  constructor
  · obtain ⟨a, hr, hp⟩ := check_reach h1
    obtain ⟨n', rd, hrd, hq⟩ := readyIs_sound hp
    exact ⟨a, n', rd, hr, hrd, of_decide_eq_true hq⟩
  · obtain ⟨a, hr, hp⟩ := check_reach h2
    obtain ⟨n', rd, hrd, hq⟩ := readyIs_sound hp
    exact ⟨a, n', rd, hr, hrd, of_decide_eq_true hq⟩

/-- the same through the asynchronous API: `write`, `advance_append_async`,
`on_persist_ready(1)` -/
theorem C06b_example_async :
    ∃ a n' rd, Reach a ∧ a.n.ready = .ok (n', rd) ∧ rd.messages = [8] ∧ a.n.term = 2 ∧
      a.durTerm = 2 := by
  have h : check run st1
      [becomeLeader 2 [7], .ready, .commitAsync, .write, .persisted 1 {}, becomeLeader 2 [8]]
      (readyIs fun a rd => decide (rd.messages = [8] ∧ a.n.term = 2 ∧ a.durTerm = 2)) = true := by
    decide +kernel
  obtain ⟨a, hr, hp⟩ := check_reach h
  obtain ⟨n', rd, hrd, hq⟩ := readyIs_sound hp
  exact ⟨a, n', rd, hr, hrd, of_decide_eq_true hq⟩

/-- **the hypotheses of `C06b_light_release` are satisfiable** with a non-empty message list: the
new leader of term 2 appends its empty entry (index 1); Ready 1 carries it together with the hard
state; after the write, `advance_append` reports it persisted, the leader commits it and broadcasts
(the raft effect `commit := 1, msgs := [9]`): the `LightReady` carries `[9]`. -/
theorem C06b_example_light :
    ∃ a rd rest eff n' light, Reach a ∧ a.handed = rd :: rest ∧ a.written = rd.number ∧
      a.n.advanceAppend rd eff = .ok (n', light) ∧ light.messages = [9] ∧ n'.term = 2 ∧
      a.durTerm = 2 := by
  have h : check run st1
      [becomeLeader 2 [7] [.tappend [{ index := 1, term := 2 }]], .ready, .write]
      (fun a => match a.handed with
        | rd :: _ => decide (a.written = rd.number) &&
          (match a.n.advanceAppend rd { commit := 1, msgs := [9] } with
           | .ok (n', light) => decide (light.messages = [9] ∧ n'.term = 2 ∧ a.durTerm = 2)
           | .err _ => false
           | .panic _ => false)
        | [] => false) = true := by decide +kernel
  obtain ⟨a, hr, hp⟩ := check_reach h
  cases hH : a.handed with
  | nil => simp only [hH] at hp; cases hp
  | cons rd rest =>
    simp only [hH, Bool.and_eq_true] at hp
    obtain ⟨hw, hp⟩ := hp
    cases ha : a.n.advanceAppend rd { commit := 1, msgs := [9] } with
    | ok p =>
      obtain ⟨n', light⟩ := p
      simp only [ha] at hp
      exact ⟨a, rd, rest, _, n', light, hr, hH, of_decide_eq_true hw, ha, of_decide_eq_true hp⟩
    | err e => simp only [ha] at hp; cases hp
    | panic s => simp only [ha] at hp; cases hp

/-- **the contract is needed.**  If the application calls `on_persist_ready(1)` *before* it has
written Ready 1 (`written = 0`), the node forgets that its hard state (term 2) is unpersisted and
the next Ready releases leader messages of term 2 immediately — while the stable storage still
says term 1: the conclusion of `C06b_immediate_release` fails. -/
theorem C06b_contract_needed :
    ∃ n a n' rd, RawNodeM.new st1 0 0 NO_LIMIT = .ok n ∧ Init (appOfNew st1 n) ∧
      runNoContract (appOfNew st1 n)
        [becomeLeader 2 [7], .ready, .commitAsync, .persisted 1 {}, becomeLeader 2 [8]] = some a ∧
      a.written = 0 ∧ a.n.ready = .ok (n', rd) ∧ rd.messages = [8] ∧ a.n.term = 2 ∧
      a.durTerm = 1 := by
  have h : check runNoContract st1
      [becomeLeader 2 [7], .ready, .commitAsync, .persisted 1 {}, becomeLeader 2 [8]]
      (readyIs fun a rd => decide (a.written = 0 ∧ rd.messages = [8] ∧ a.n.term = 2 ∧
        a.durTerm = 1)) = true := by decide +kernel
  obtain ⟨n, a, hn, hr, hp⟩ := check_sound h
  obtain ⟨n', rd, hrd, hq⟩ := readyIs_sound hp
  obtain ⟨q1, q2⟩ := of_decide_eq_true hq
  exact ⟨n, a, n', rd, hn, (new_init hn).1, hr, q1, hrd, q2⟩

/-- … and with the contract that call sequence is not a run at all -/
theorem C06b_contract_blocks :
    check run st1 [becomeLeader 2 [7], .ready, .commitAsync, .persisted 1 {}] (fun _ => true) =
      false := by decide +kernel

/-- storage with one entry, committed -/
def st2 : MemStorage :=
  { entries := [{ index := 1, term := 1 }], hardState := { term := 1, vote := 1, commit := 1 } }

/-- **the proviso `SnapTermOk` of `C06b_store_tie` is needed on this model.**  A follower of term 1
restores a snapshot at its commit index (1) whose metadata says term 9: the Ready carries the
snapshot but no hard state (nothing of `(term, vote, commit)` changed);
`MemStorage::apply_snapshot` raises the stored term to 9.  The ghost pair — and the node — stay at
term 1.  (Not a defect of `RawNode`: Raft never restores a snapshot of a term above its own, and
the test storage's `max` is there for exactly the opposite case.) -/
theorem C06b_snapshot_raises_stored_term :
    ∃ a b, Reach a ∧ Tie a ∧ applyOp a .write = some b ∧ b.durTerm = 1 ∧ b.n.term = 1 ∧
      b.n.log.store.hardState.term = 9 := by
  have h : check run st2
      [.env { term := 1, vote := 1, role := ROLE_FOLLOWER, leaderId := 2, msgs := [],
              readStates := [], limit := 0,
              ops := [.restore { metadata := { index := 1, term := 9 } }] }, .ready]
      (fun a => decide (a.durTerm = a.n.log.store.hardState.term ∧
          a.durVote = a.n.log.store.hardState.vote) &&
        (match applyOp a .write with
         | some b => decide (b.durTerm = 1 ∧ b.n.term = 1 ∧ b.n.log.store.hardState.term = 9)
         | none => false)) = true := by decide +kernel
  obtain ⟨a, hr, hp⟩ := check_reach h
  simp only [Bool.and_eq_true] at hp
  obtain ⟨ht, hp⟩ := hp
  cases hb : applyOp a .write with
  | some b =>
    simp only [hb] at hp
    have ht := of_decide_eq_true ht
    exact ⟨a, b, hr, ht, hb, of_decide_eq_true hp⟩
  | none => simp only [hb] at hp; cases hp

end RaftProps.C06b
