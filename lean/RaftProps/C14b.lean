import RaftProps.C14
import RaftProofs.Storage

/-!
# C14, continued — size-limited reads and the storage-side steps

The four statements left unproved at the end of `RaftProps/C14.lean`:

* `C14_entries_spec : C14_entries_full_statement` and
  `C14_nextEntriesSince_spec : C14_nextEntriesSince_full_statement` — proved as written.
* `C14_slice_full_statement` is false as written only because a `Res.panic` carries the name of its
  site (`C14_slice_full_statement_false`); `C14_slice_spec` proves "same outcome", with plain
  equality whenever no panic is involved (the two-phase `limit_size` is one `limit_size` of the
  logical range), and `C14_slice_limit` what that means for the caller (non-empty gap-free prefix,
  within the limit unless a single entry, maximal).
* `C14_storage_steps_full_statement` is false in each of its three clauses
  (`stabilise_clause_false`, `persistSnapshot_clause_false`, `compactStore_clause_false`);
  `C14_storage_steps_spec` proves it with one added hypothesis per clause and
  `C14_storage_steps_outside` says what the code does outside them (panic / `SnapshotOutOfDate` /
  drained storage, finding F5 seen from `RaftLog`).
-/

namespace RaftProps.C14
open RaftModel

/-! ### `limit_size`: the two-phase argument -/

/-- if the `take_while` of `limit_size` stops inside `a`, what follows `a` is irrelevant -/
theorem limitCount_append_early (m : Nat) (a b : List Entry) :
    ∀ size, limitCount m size a < a.length → limitCount m size (a ++ b) = limitCount m size a := by
  induction a with
  | nil => intro size h; simp at h
  | cons e es ih =>
    intro size h
    simp only [List.cons_append, limitCount] at h ⊢
    by_cases h0 : size = 0
    · simp only [h0, if_true] at h ⊢
      rw [ih _ (by simp only [List.length_cons] at h; omega)]
    · simp only [h0, if_false] at h ⊢
      by_cases hle : size + e.computeSize ≤ m
      · simp only [hle, if_true] at h ⊢
        rw [ih _ (by simp only [List.length_cons] at h; omega)]
      · simp only [hle, if_false]

/-- phase one cut something off: phase two (on the concatenation) returns the same -/
theorem limitSize_append_early (a b : List Entry) (mx : Option Nat)
    (h : (limitSize a mx).length < a.length) : limitSize (a ++ b) mx = limitSize a mx := by
  unfold limitSize at h ⊢
  by_cases h1 : a.length ≤ 1
  · rw [if_pos h1] at h; omega
  · rw [if_neg h1] at h ⊢
    rw [if_neg (by rw [List.length_append]; omega)]
    cases mx with
    | none => simp at h
    | some m =>
      simp only [] at h ⊢
      by_cases hm : m = NO_LIMIT
      · rw [if_pos hm] at h; omega
      · rw [if_neg hm] at h
        rw [if_neg hm, if_neg hm]
        have hle := limitCount_le m 0 a
        rw [List.length_take] at h
        rw [limitCount_append_early m a b 0 (by omega), List.take_append_of_le_length hle]

/-- phase one cut nothing off -/
theorem limitSize_full (a : List Entry) (mx : Option Nat)
    (h : ¬ (limitSize a mx).length < a.length) : limitSize a mx = a := by
  obtain ⟨k, hk⟩ := (limitSize_spec a mx).1
  rw [hk] at h ⊢
  rw [List.length_take] at h
  exact List.take_of_length_le (by omega)

/-- storage part followed by unstable part of a range, as lists -/
theorem range_split (E U : List Entry) (d p n : Nat) (hd : d ≤ E.length) (hp : p ≤ d) :
    ((E.take d ++ U).drop p).take n =
      (E.drop p).take (min n (d - p)) ++ U.take (n - (d - p)) := by
  apply List.ext_getElem?
  intro i
  simp only [List.getElem?_take, List.getElem?_drop, List.getElem?_append, List.length_take,
    List.length_drop]
  have e1 : min d E.length = d := by omega
  rw [e1]
  by_cases hi : i < n
  · by_cases h2 : p + i < d
    · have h3 : i < min (min n (d - p)) (E.length - p) := by omega
      have h4 : i < min n (d - p) := by omega
      simp only [hi, h2, h3, h4, if_true]
    · have h3 : ¬ i < min (min n (d - p)) (E.length - p) := by omega
      have h5 : i - min (min n (d - p)) (E.length - p) < n - (d - p) := by omega
      simp only [hi, h2, h3, h5, if_true, if_false]
      congr 1; omega
  · have h3 : ¬ i < min (min n (d - p)) (E.length - p) := by omega
    have h5 : ¬ i - min (min n (d - p)) (E.length - p) < n - (d - p) := by omega
    simp only [hi, h3, h5, if_false]

/-- the unstable part of a range, as lists: dropping past the storage part -/
theorem range_unstable (S U : List Entry) (q n : Nat) (hq : S.length ≤ q) :
    ((S ++ U).drop q).take n = (U.drop (q - S.length)).take n := by
  rw [List.drop_append, List.drop_of_length_le hq, List.nil_append]

/-! ### `slice` -/

theorem first_le_last_succ {l : RaftLog} (h : l.Inv) : l.firstIndex ≤ l.lastIndex + 1 := by
  have := h.last_succ
  have := h.off_ge_first
  omega

theorem mustCheck_ok {l : RaftLog} (h : l.Inv) (lo hi : Nat) (h1 : l.firstIndex ≤ lo)
    (h2 : lo ≤ hi) (h3 : hi ≤ l.lastIndex + 1) : l.mustCheckOutOfBounds lo hi = .ok none := by
  have := first_le_last_succ h
  unfold RaftLog.mustCheckOutOfBounds
  rw [if_neg (by omega), if_neg (by omega), if_neg (by omega), if_neg (by omega)]

theorem unstable_slice_ok {l : RaftLog} (h : l.Inv) (a hi : Nat) (h1 : l.unstable.offset ≤ a)
    (h2 : a ≤ hi) (h3 : hi ≤ l.lastIndex + 1) :
    l.unstable.slice a hi =
      .ok ((l.unstable.entries.drop (a - l.unstable.offset)).take (hi - a)) := by
  have := h.last_succ
  unfold Unstable.slice Unstable.mustCheckOutOfBounds
  rw [if_neg (by omega), if_neg (by omega)]

/-- the logical range `[lo, hi)` split at `unstable.offset` (no pending snapshot, `lo` in storage) -/
theorem range_store {l : RaftLog} (h : l.Inv) (hs : l.unstable.snapshot = none) (lo hi : Nat)
    (h1 : l.store.firstIndex ≤ lo) (h2 : lo < l.unstable.offset) :
    l.abs.range lo hi =
      (l.store.entries.drop (lo - l.store.firstIndex)).take (min hi l.unstable.offset - lo) ++
        l.unstable.entries.take (hi - l.unstable.offset) := by
  have hp := h.storeWF.first_pos
  have hl := h.storeWF.last_succ
  have hol := h.off_le_last hs
  rw [RaftLog.abs_none hs]
  simp only [LLog.range, LLog.firstIndex]
  rw [show l.store.firstIndex - 1 + 1 = l.store.firstIndex by omega]
  rw [range_split _ _ _ _ _ (by omega) (by omega)]
  congr 2 <;> omega

/-- … and when `lo` is at or above `unstable.offset` -/
theorem range_unst {l : RaftLog} (h : l.Inv) (lo hi : Nat) (h1 : l.unstable.offset ≤ lo) :
    l.abs.range lo hi = (l.unstable.entries.drop (lo - l.unstable.offset)).take (hi - lo) := by
  cases hs : l.unstable.snapshot with
  | none =>
    have hp := h.storeWF.first_pos
    have hfo := h.first_le_off hs
    have htl := h.take_len hs
    rw [RaftLog.abs_none hs]
    simp only [LLog.range, LLog.firstIndex]
    rw [range_unstable _ _ _ _ (by omega)]
    congr 2; omega
  | some sn =>
    have ho := h.unstWF.snap sn hs
    rw [RaftLog.abs_some hs]
    simp only [LLog.range, LLog.firstIndex]
    congr 2; omega

/-- **`slice` inside the log**: the size-limited logical range -/
theorem slice_ok {l : RaftLog} (h : l.Inv) (lo hi : Nat) (mx : Option Nat) (ca : Bool)
    (hav : (l.store.triggerLogUnavailable && ca) = false)
    (h1 : l.firstIndex ≤ lo) (h2 : lo ≤ hi) (h3 : hi ≤ l.lastIndex + 1) :
    l.slice lo hi mx ca = .ok (limitSize (l.abs.range lo hi) mx) := by
  have hls := h.last_succ
  unfold RaftLog.slice
  rw [mustCheck_ok h lo hi h1 h2 h3]
  simp only []
  by_cases heq : lo = hi
  · rw [if_pos heq]; subst heq; simp [LLog.range, limitSize]
  · rw [if_neg heq]
    by_cases hlo : lo < l.unstable.offset
    · cases hs : l.unstable.snapshot with
      | some sn =>
        have := h.unstWF.snap sn hs
        have := RaftLog.firstIndex_some hs
        omega
      | none =>
        have hfn := RaftLog.firstIndex_none hs
        have hol := h.off_le_last hs
        have hl := h.storeWF.last_succ
        have hq := h.storeWF.entriesQ_in (low := lo) (high := min hi l.unstable.offset) mx ca
          (by omega) (by omega) (by omega) hav
        have hrange := range_store h hs lo hi (by omega) hlo
        have hlen : ((l.store.entries.drop (lo - l.store.firstIndex)).take
            (min hi l.unstable.offset - lo)).length = min hi l.unstable.offset - lo := by
          rw [List.length_take, List.length_drop]; omega
        unfold RaftLog.sliceStore
        rw [if_pos hlo]
        simp only []
        rw [hq]
        simp only []
        by_cases hearly : (limitSize ((l.store.entries.drop (lo - l.store.firstIndex)).take
            (min hi l.unstable.offset - lo)) mx).length < min hi l.unstable.offset - lo
        · rw [decide_eq_true hearly]
          simp only []
          rw [hrange, limitSize_append_early _ _ _ (by rw [hlen]; exact hearly)]
        · rw [decide_eq_false hearly]
          simp only []
          rw [limitSize_full _ _ (by rw [hlen]; exact hearly)]
          by_cases hoh : l.unstable.offset < hi
          · rw [if_pos hoh, Nat.max_eq_right (by omega),
              unstable_slice_ok h _ hi (Nat.le_refl _) (by omega) h3]
            simp only [Nat.sub_self, List.drop_zero]
            rw [hrange]
          · rw [if_neg hoh, hrange, show hi - l.unstable.offset = 0 by omega]
            simp
    · unfold RaftLog.sliceStore
      rw [if_neg hlo]
      simp only []
      rw [if_pos (by omega), Nat.max_eq_left (by omega),
        unstable_slice_ok h lo hi (by omega) h2 h3]
      simp only [List.nil_append]
      rw [range_unst h lo hi (by omega)]

theorem slice_order_panics (l : RaftLog) (lo hi : Nat) (mx : Option Nat) (ca : Bool)
    (h : hi < lo) : l.slice lo hi mx ca = .panic "raft_log.must_check_outofbounds.order" := by
  unfold RaftLog.slice RaftLog.mustCheckOutOfBounds
  rw [if_pos h]

theorem slice_compacted (l : RaftLog) (lo hi : Nat) (mx : Option Nat) (ca : Bool)
    (h1 : lo ≤ hi) (h2 : lo < l.firstIndex) : l.slice lo hi mx ca = .err .compacted := by
  unfold RaftLog.slice RaftLog.mustCheckOutOfBounds
  rw [if_neg (by omega), if_pos h2]

theorem slice_range_panics {l : RaftLog} (h : l.Inv) (lo hi : Nat) (mx : Option Nat) (ca : Bool)
    (h1 : lo ≤ hi) (h2 : l.firstIndex ≤ lo) (h3 : l.lastIndex + 1 < hi) :
    l.slice lo hi mx ca = .panic "raft_log.must_check_outofbounds.range" := by
  have := first_le_last_succ h
  unfold RaftLog.slice RaftLog.mustCheckOutOfBounds
  rw [if_neg (by omega), if_neg (by omega), if_neg (by omega), if_pos (by omega)]

/-- two results are the same outcome: equal, or both a panic (the model names the panic site of the
code, `raft_log.must_check_outofbounds.*`; the sequence model names its own) -/
def SameOutcome {α : Type} (a b : Res α) : Prop := a = b ∨ ∃ s s', a = .panic s ∧ b = .panic s'

/-- the state `RaftLog::new` builds over `st0` (snapshot point (2,1), entries 3 and 4) -/
def l0 : RaftLog :=
  { store := st0, unstable := Unstable.new 5, committed := 2, persisted := 4, applied := 2,
    maxApplyUnpersistedLogLimit := 0 }

theorem l0_inv : RaftLogInv l0 := by
  obtain ⟨l, e, hi, _, _⟩ := C14_new_inv st0 st0_wf 0
  have : RaftLog.new st0 0 = .ok l0 := rfl
  rw [this] at e; cases e; exact hi

/-- **`C14_slice_full_statement` is false as written**, but only because a panic carries the name of
its site: `slice(5, 3)` panics in both, at `raft_log.must_check_outofbounds.order` in the model of
the code and at `spec.slice.order` in the sequence model. -/
theorem C14_slice_full_statement_false : ¬ C14_slice_full_statement := by
  intro hall
  have h := hall l0 l0_inv 5 3 none false rfl
  have h1 : l0.slice 5 3 none false = .panic "raft_log.must_check_outofbounds.order" := rfl
  have h2 : l0.abs.slice 5 3 none = .panic "spec.slice.order" := rfl
  rw [h1, h2] at h
  exact absurd h (by decide)

/-- **`slice(lo, hi, max_size)` agrees with the sequence model** (corrected
`C14_slice_full_statement`: same outcome instead of equality, because panic sites are named
differently; plain equality wherever no panic is involved).  For every state satisfying the
invariant, all arguments, storage available (`MemStorage`'s test trigger for
`LogTemporarilyUnavailable` not armed for an async-capable caller):
* `hi < lo`, or `first ≤ lo` and `last + 1 < hi`: both panic;
* otherwise the results are equal: `Compacted` when `lo < first_index`, else
  `limit_size(log[lo, hi), max_size)` — the two-phase limit (storage part first, then the
  concatenation) is the single `limit_size` of the logical range. -/
theorem C14_slice_spec : ∀ (l : RaftLog), RaftLogInv l → ∀ lo hi mx ca,
    (l.store.triggerLogUnavailable && ca) = false →
    SameOutcome (l.slice lo hi mx ca) (l.abs.slice lo hi mx) ∧
    (lo ≤ hi → (hi ≤ l.lastIndex + 1 ∨ lo < l.firstIndex) →
      l.slice lo hi mx ca = l.abs.slice lo hi mx) ∧
    (lo ≤ hi → l.firstIndex ≤ lo → hi ≤ l.lastIndex + 1 →
      l.slice lo hi mx ca = .ok (limitSize (l.abs.range lo hi) mx)) ∧
    (hi < lo ∨ (l.firstIndex ≤ lo ∧ l.lastIndex + 1 < hi) →
      ∃ s, l.slice lo hi mx ca = .panic s) := by
  intro l h lo hi mx ca hav
  have hfi := h.firstIndex_abs
  have hla := h.lastIndex_abs
  have heq : lo ≤ hi → (hi ≤ l.lastIndex + 1 ∨ lo < l.firstIndex) →
      l.slice lo hi mx ca = l.abs.slice lo hi mx := by
    intro h1 h2
    unfold LLog.slice
    rw [if_neg (by omega), ← hfi, ← hla]
    by_cases hc : lo < l.firstIndex
    · rw [if_pos hc]; exact slice_compacted l lo hi mx ca h1 hc
    · rw [if_neg hc, if_neg (by omega)]
      exact slice_ok h lo hi mx ca hav (by omega) h1 (by omega)
  refine ⟨?_, heq, fun a b c => slice_ok h lo hi mx ca hav b a c, ?_⟩
  · by_cases h1 : hi < lo
    · right
      exact ⟨_, "spec.slice.order", slice_order_panics l lo hi mx ca h1, by
        unfold LLog.slice; rw [if_pos h1]⟩
    · by_cases h2 : hi ≤ l.lastIndex + 1 ∨ lo < l.firstIndex
      · left; exact heq (by omega) h2
      · right
        exact ⟨_, "spec.slice.range", slice_range_panics h lo hi mx ca (by omega) (by omega)
          (by omega), by
          unfold LLog.slice; rw [if_neg h1, ← hfi, ← hla, if_neg (by omega), if_pos (by omega)]⟩
  · intro hp
    rcases hp with hp | ⟨hp1, hp2⟩
    · exact ⟨_, slice_order_panics l lo hi mx ca hp⟩
    · by_cases h1 : hi < lo
      · exact ⟨_, slice_order_panics l lo hi mx ca h1⟩
      · exact ⟨_, slice_range_panics h lo hi mx ca (by omega) hp1 hp2⟩

/-! ### `entries`, `next_entries_since` -/

/-- **`entries(idx, max_size)` agrees with the sequence model** (`C14_entries_full_statement` as
written: `entries` never reaches a panic site of `slice`) -/
theorem C14_entries_spec : C14_entries_full_statement := by
  intro l h i mx ca hav
  unfold RaftLog.entries LLog.entries
  rw [← h.lastIndex_abs]
  by_cases hlt : l.lastIndex < i
  · rw [if_pos hlt, if_pos hlt]
  · rw [if_neg hlt, if_neg hlt]
    exact (C14_slice_spec l h i (l.lastIndex + 1) mx ca hav).2.1 (by omega) (.inl (Nat.le_refl _))

/-- `entries` spelled out: nothing above `last_index`, `Compacted` below `first_index`, otherwise
the size-limited suffix of the logical log from `idx` -/
theorem C14_entries_cases (l : RaftLog) (h : RaftLogInv l) (i : Nat) (mx : Option Nat) (ca : Bool)
    (hav : (l.store.triggerLogUnavailable && ca) = false) :
    (l.lastIndex < i → l.entries i mx ca = .ok []) ∧
    (i < l.firstIndex → l.entries i mx ca = .err .compacted) ∧
    (l.firstIndex ≤ i → i ≤ l.lastIndex →
      l.entries i mx ca = .ok (limitSize (l.abs.range i (l.lastIndex + 1)) mx)) := by
  have := first_le_last_succ h
  refine ⟨?_, ?_, ?_⟩
  · intro hlt; unfold RaftLog.entries; rw [if_pos hlt]
  · intro hlt; unfold RaftLog.entries; rw [if_neg (by omega)]
    exact slice_compacted l i _ mx ca (by omega) hlt
  · intro h1 h2; unfold RaftLog.entries; rw [if_neg (by omega)]
    exact slice_ok h i _ mx ca hav h1 (by omega) (Nat.le_refl _)

/-- **`next_entries_since(since, max_size)`** (`C14_nextEntriesSince_full_statement` as written):
the size-limited logical range from `max(since + 1, first_index)` up to and including
`min(committed, persisted + max_apply_unpersisted_log_limit)`, `None` when that range is empty;
never a panic, never `Compacted` -/
theorem C14_nextEntriesSince_spec : C14_nextEntriesSince_full_statement := by
  intro l h since mx hsince hub
  have hcl := h.committed_le_last
  unfold RaftLog.nextEntriesSince RaftLog.appliedIndexUpperBound
  rw [if_neg (by omega)]
  simp only []
  rw [Nat.min_eq_right hub, ← h.firstIndex_abs]
  by_cases hlt : max (since + 1) l.firstIndex <
      min l.committed (l.persisted + l.maxApplyUnpersistedLogLimit) + 1
  · rw [if_pos hlt, if_pos hlt]
    rw [slice_ok h _ _ mx false (by simp) (by omega) (by omega) (by omega)]
  · rw [if_neg hlt, if_neg hlt]

/-! ### the storage-side steps -/

/-- `MemStorage::append` of the unstable entries at `first ≤ offset ≤ last + 1` -/
theorem store_append_unstable {s : MemStorage} (hw : s.WF) (off : Nat) (u0 : Entry)
    (us : List Entry) (hc : ContigFrom off (u0 :: us)) (h1 : s.firstIndex ≤ off)
    (h2 : off ≤ s.lastIndex + 1) :
    ∃ s', s.append (u0 :: us) = .ok s' ∧ s'.WF ∧ s'.firstIndex = s.firstIndex ∧
      s'.lastIndex = off + us.length ∧ s'.snapshotMetadata = s.snapshotMetadata ∧
      s'.entries = s.entries.take (off - s.firstIndex) ++ u0 :: us := by
  have hsl := hw.last_succ
  have hu0 : u0.index = off := hc.head
  have hfirst : ({ s with entries := s.entries.take (off - s.firstIndex) ++ u0 :: us } :
      MemStorage).firstIndex = s.firstIndex := by
    cases hE : s.entries with
    | nil =>
      have hf : s.firstIndex = s.snapshotMetadata.index + 1 := by
        unfold MemStorage.firstIndex; rw [hE]; rfl
      have hlen : s.entries.length = 0 := by rw [hE]; rfl
      rw [hf, show off - (s.snapshotMetadata.index + 1) = 0 by omega]
      unfold MemStorage.firstIndex
      simp only [List.take_zero, List.nil_append, List.head?_cons]
      omega
    | cons a t =>
      have hf : s.firstIndex = a.index := by
        unfold MemStorage.firstIndex; rw [hE]; rfl
      rw [hf]
      by_cases hd : off - a.index = 0
      · rw [hd]
        unfold MemStorage.firstIndex
        simp only [List.take_zero, List.nil_append, List.head?_cons]
        omega
      · obtain ⟨n, hn⟩ : ∃ n, off - a.index = n + 1 := ⟨off - a.index - 1, by omega⟩
        rw [hn]
        unfold MemStorage.firstIndex
        simp only [List.take_succ_cons, List.cons_append, List.head?_cons]
  have hwf : ({ s with entries := s.entries.take (off - s.firstIndex) ++ u0 :: us } :
      MemStorage).WF := by
    refine ⟨?_, by rw [hfirst]; exact hw.snap_lt⟩
    rw [hfirst]
    show ContigFrom s.firstIndex (s.entries.take (off - s.firstIndex) ++ u0 :: us)
    apply ContigFrom.append (ContigFrom.take hw.contig _)
    rw [List.length_take, show s.firstIndex + min (off - s.firstIndex) s.entries.length = off by omega]
    exact hc
  refine ⟨_, ?_, hwf, hfirst, ?_, rfl, rfl⟩
  · unfold MemStorage.append
    simp only []
    rw [if_neg (by omega), if_neg (by omega), if_neg (by omega), hu0]
  · have := hwf.last_succ
    rw [hfirst] at this
    simp only [List.length_append, List.length_take, List.length_cons] at this
    omega

/-- **stabilise** (no pending snapshot): the unstable entries move to the storage, the logical log
and all cursors are unchanged, the invariant is kept, nothing is left unstable -/
theorem stabilise_ok {l : RaftLog} (h : l.Inv) (hs : l.unstable.snapshot = none) :
    ∃ l', l.stabilise = .ok l' ∧ l'.Inv ∧ l'.abs = l.abs ∧ l'.committed = l.committed ∧
      l'.persisted = l.persisted ∧ l'.applied = l.applied ∧ l'.unstable.entries = [] ∧
      l'.unstable.snapshot = none ∧ l'.store.lastIndex = l.lastIndex := by
  have hls := h.last_succ
  have hfo := h.first_le_off hs
  have hol := h.off_le_last hs
  cases hg : l.unstable.entries.getLast? with
  | none =>
    have hnil : l.unstable.entries = [] := List.getLast?_eq_none_iff.1 hg
    have := h.ents_empty hs hnil
    refine ⟨l, ?_, h, rfl, rfl, rfl, rfl, hnil, hs, ?_⟩
    · unfold RaftLog.stabilise; rw [hg]
    · rw [hnil] at hls; simp at hls; omega
  | some e =>
    obtain ⟨u0, us, hU⟩ : ∃ u0 us, l.unstable.entries = u0 :: us := by
      cases hU : l.unstable.entries with
      | nil => rw [hU] at hg; cases hg
      | cons a t => exact ⟨a, t, rfl⟩
    have hc : ContigFrom l.unstable.offset l.unstable.entries := h.unstWF.contig
    have he := ContigFrom.getLast hc hg
    obtain ⟨st, happ, hwf, hfirst, hlast, hsnap, hents⟩ :=
      store_append_unstable h.storeWF l.unstable.offset u0 us (hU ▸ hc) hfo hol
    have hlen : l.unstable.entries.length = us.length + 1 := by rw [hU]; rfl
    refine ⟨{ l with store := st, unstable := { l.unstable with
        offset := e.index + 1, entries := [], entriesSize := 0 } }, ?_, ?_, ?_,
      rfl, rfl, rfl, rfl, hs, by show st.lastIndex = _; omega⟩
    · unfold RaftLog.stabilise
      rw [hg]
      simp only []
      rw [hU, happ]
      simp only [RaftLog.stableEntries, Unstable.stableEntries, hs, hU]
      rw [hU] at hg
      rw [hg]
      simp
    · have hl' : RaftLog.lastIndex { l with store := st, unstable := { l.unstable with
          offset := e.index + 1, entries := [], entriesSize := 0 } } = st.lastIndex := by
        simp [RaftLog.lastIndex, Unstable.maybeLastIndex, hs]
      have hf' : RaftLog.firstIndex { l with store := st, unstable := { l.unstable with
          offset := e.index + 1, entries := [], entriesSize := 0 } } = l.firstIndex := by
        rw [RaftLog.firstIndex_none (l := l) hs, RaftLog.firstIndex_none (by exact hs)]
        exact hfirst
      have hpo := h.persisted_lt_off
      refine ⟨hwf, ⟨?_, rfl, ?_⟩, ?_, ?_, ?_, ?_, ?_, ?_, ?_⟩
      · intro k x hk; simp at hk
      · intro sn hsn; rw [hs] at hsn; cases hsn
      · intro _; show st.firstIndex ≤ e.index + 1; omega
      · intro _; show e.index + 1 ≤ st.lastIndex + 1; omega
      · intro _ _; show e.index + 1 = st.lastIndex + 1; omega
      · rw [hf']; exact h.dummy_le_committed
      · rw [hl']; have := h.committed_le_last; show l.committed ≤ _; omega
      · show l.persisted < e.index + 1; omega
      · show l.persisted ≤ st.lastIndex; omega
    · rw [RaftLog.abs_none (by exact hs), RaftLog.abs_none hs]
      simp only [hfirst, hsnap, List.append_nil, hents, ← hU]
      rw [List.take_of_length_le]
      rw [List.length_append, List.length_take]
      have := h.storeWF.last_succ
      omega

/-- **stabilise with a pending snapshot and unstable entries panics**: either `MemStorage::append`
refuses the batch (it starts at `snapshot.index + 1`, which may be below `first_index` or leave a
gap), or `stable_entries` hits `assert!(self.snapshot.is_none())` (log_unstable.rs:100, "The
snapshot must be stabled before entries") -/
theorem stabilise_pending_panics {l : RaftLog} (h : l.Inv) (sn : Snapshot)
    (hs : l.unstable.snapshot = some sn) (hne : l.unstable.entries ≠ []) :
    ∃ s, l.stabilise = .panic s := by
  obtain ⟨u0, us, hU⟩ : ∃ u0 us, l.unstable.entries = u0 :: us := by
    cases hU : l.unstable.entries with
    | nil => exact absurd hU hne
    | cons a t => exact ⟨a, t, rfl⟩
  obtain ⟨e, hg⟩ : ∃ e, l.unstable.entries.getLast? = some e := by
    rw [hU]; exact ⟨_, List.getLast?_eq_some_getLast (by simp)⟩
  have hsl := h.storeWF.last_succ
  unfold RaftLog.stabilise
  rw [hg]
  simp only []
  rw [hU]
  unfold MemStorage.append
  simp only []
  by_cases h1 : u0.index < l.store.firstIndex
  · rw [if_pos h1]; exact ⟨_, rfl⟩
  · rw [if_neg h1]
    by_cases h2 : l.store.lastIndex + 1 < u0.index
    · rw [if_pos h2]; exact ⟨_, rfl⟩
    · rw [if_neg h2, if_neg (by omega)]
      simp only [RaftLog.stableEntries, Unstable.stableEntries, hs, Option.isSome_some, if_true]
      exact ⟨_, rfl⟩

/-- **persist the pending snapshot** (`apply_snapshot`, `stable_snap`, `maybe_persist_snap`), for
a snapshot at or above the storage's `first_index`: the logical log is unchanged, `persisted`
becomes at least the snapshot index, no snapshot is pending afterwards, the invariant is kept -/
theorem persistSnapshot_ok {l : RaftLog} (h : l.Inv) (sn : Snapshot)
    (hs : l.unstable.snapshot = some sn) (hge : l.store.firstIndex ≤ sn.metadata.index) :
    ∃ l', l.persistSnapshot = .ok l' ∧ l'.Inv ∧ l'.abs = l.abs ∧ l'.committed = l.committed ∧
      l'.applied = l.applied ∧ l'.persisted = max l.persisted sn.metadata.index ∧
      l'.unstable.snapshot = none ∧ l'.unstable.entries = l.unstable.entries := by
  have ho := h.unstWF.snap sn hs
  have hf := RaftLog.firstIndex_some hs
  have hd := h.dummy_le_committed
  have hpo := h.persisted_lt_off
  have hls := h.last_succ
  have hcl := h.committed_le_last
  refine ⟨{ l with
      store := { l.store with
        snapshotMetadata := sn.metadata,
        hardState := { l.store.hardState with
          term := max l.store.hardState.term sn.metadata.term, commit := sn.metadata.index },
        entries := [],
        confState := sn.metadata.confState },
      unstable := { l.unstable with snapshot := none },
      persisted := max l.persisted sn.metadata.index }, ?_, ?_, ?_, rfl, rfl, rfl, rfl, rfl⟩
  · unfold RaftLog.persistSnapshot
    rw [hs]
    simp only [MemStorage.applySnapshot]
    rw [if_neg (by omega)]
    simp only [RaftLog.stableSnap, Unstable.stableSnap, hs, ne_eq, not_true_eq_false, if_false]
    unfold RaftLog.maybePersistSnap
    by_cases hp : l.persisted < sn.metadata.index
    · simp only []
      have hm : max l.persisted sn.metadata.index = sn.metadata.index :=
        Nat.max_eq_right (by omega)
      rw [if_pos hp, if_neg (by omega), if_neg (by omega), hm]
    · simp only []
      have hm : max l.persisted sn.metadata.index = l.persisted := Nat.max_eq_left (by omega)
      rw [if_neg hp, hm]
  · refine ⟨⟨?_, ?_⟩, ⟨h.unstWF.contig, h.unstWF.size, ?_⟩, ?_, ?_, ?_, ?_, ?_, ?_, ?_⟩
    · intro k e hk; simp at hk
    · simp [MemStorage.firstIndex]
    · intro sn' hsn; cases hsn
    · intro _; simp [MemStorage.firstIndex]; omega
    · intro _; simp [MemStorage.lastIndex]; omega
    · intro _ hnil; simp [MemStorage.lastIndex]; omega
    · simp only [RaftLog.firstIndex, Unstable.maybeFirstIndex, MemStorage.firstIndex,
        List.head?_nil]
      omega
    · simp only [RaftLog.lastIndex, Unstable.maybeLastIndex, MemStorage.lastIndex,
        List.getLast?_nil]
      by_cases he : l.unstable.entries.length = 0
      · rw [he] at hls; simp only [he, if_true]; omega
      · simp only [he, if_false]; omega
    · show max l.persisted sn.metadata.index < l.unstable.offset; omega
    · simp only [MemStorage.lastIndex, List.getLast?_nil]; omega
  · rw [RaftLog.abs_some hs, RaftLog.abs_none rfl]
    simp [MemStorage.firstIndex]

/-- a pending snapshot below the storage's `first_index` is refused by `MemStorage::apply_snapshot`
(`SnapshotOutOfDate`, storage.rs:246); nothing is written -/
theorem persistSnapshot_out_of_date (l : RaftLog) (sn : Snapshot)
    (hs : l.unstable.snapshot = some sn) (hlt : sn.metadata.index < l.store.firstIndex) :
    l.persistSnapshot = .err .snapshotOutOfDate := by
  unfold RaftLog.persistSnapshot
  rw [hs]
  simp only [MemStorage.applySnapshot]
  rw [if_pos hlt]

/-- `MemStorage::compact(ci)` for `ci ≤ last_index` (or a no-op `ci ≤ first_index`) -/
theorem store_compact_ok {s : MemStorage} (hw : s.WF) (ci : Nat)
    (hci : ci ≤ s.lastIndex ∨ ci ≤ s.firstIndex) :
    ∃ s', s.compact ci = .ok s' ∧ s'.WF ∧ s'.firstIndex = max s.firstIndex ci ∧
      s'.lastIndex = s.lastIndex ∧ s'.snapshotMetadata = s.snapshotMetadata ∧
      s'.entries = s.entries.drop (ci - s.firstIndex) := by
  have hsl := hw.last_succ
  by_cases hle : ci ≤ s.firstIndex
  · refine ⟨s, ?_, hw, by omega, rfl, rfl, ?_⟩
    · unfold MemStorage.compact; rw [if_pos hle]
    · rw [show ci - s.firstIndex = 0 by omega]; rfl
  · have hlast : ci ≤ s.lastIndex := by omega
    have hk : ci - s.firstIndex < s.entries.length := by omega
    obtain ⟨e0, he0, hi0⟩ := MemStorage.head?_of_lt hk
    have hget : s.entries[ci - s.firstIndex]? = some s.entries[ci - s.firstIndex] :=
      List.getElem?_eq_some_iff.2 ⟨hk, rfl⟩
    have hidx := hw.contig _ _ hget
    have hfirst : ({ s with entries := s.entries.drop (ci - s.firstIndex) } :
        MemStorage).firstIndex = ci := by
      show (match (s.entries.drop (ci - s.firstIndex)).head? with
        | some e => e.index
        | none => s.snapshotMetadata.index + 1) = ci
      rw [List.head?_drop, hget]
      simp only []
      omega
    have hwf : ({ s with entries := s.entries.drop (ci - s.firstIndex) } : MemStorage).WF := by
      refine ⟨?_, by rw [hfirst]; have := hw.snap_lt; show s.snapshotMetadata.index < ci; omega⟩
      rw [hfirst]
      have := ContigFrom.drop (s := s.firstIndex) hw.contig (ci - s.firstIndex)
      rw [show s.firstIndex + (ci - s.firstIndex) = ci by omega] at this
      exact this
    refine ⟨_, ?_, hwf, by rw [hfirst]; omega, ?_, rfl, rfl⟩
    · unfold MemStorage.compact
      rw [if_neg hle, if_neg (by omega), he0]
      simp only []
      rw [if_neg (by omega), if_neg (by omega), hi0]
    · have := hwf.last_succ
      rw [hfirst] at this
      simp only [List.length_drop] at this
      omega

/-- **compaction** of the storage up to `index` (`index ≤ committed`, `index ≤ persisted + 1`, and
`index ≤ storage.last_index` unless it is a no-op): the invariant is kept, cursors and the unstable
part are untouched, and without a pending snapshot the logical log is cut below `index` -/
theorem compactStore_ok {l : RaftLog} (h : l.Inv) (index : Nat) (h1 : index ≤ l.committed)
    (h2 : index ≤ l.persisted + 1)
    (h3 : index ≤ l.store.lastIndex ∨ index ≤ l.store.firstIndex) :
    ∃ l', l.compactStore index = .ok l' ∧ l'.Inv ∧
      (l.unstable.snapshot = none → l'.abs = l.abs.compactTo (index - 1)) ∧
      (∀ sn, l.unstable.snapshot = some sn → l'.abs = l.abs) ∧
      l'.unstable = l.unstable ∧ l'.committed = l.committed ∧ l'.persisted = l.persisted ∧
      l'.applied = l.applied ∧ l'.store.firstIndex = max l.store.firstIndex index ∧
      l'.store.lastIndex = l.store.lastIndex := by
  obtain ⟨st, hcomp, hwf, hfirst, hlast, hsnap, hents⟩ := store_compact_ok h.storeWF index h3
  have hpo := h.persisted_lt_off
  have hp := h.storeWF.first_pos
  have hl' : RaftLog.lastIndex { l with store := st } = l.lastIndex := by
    unfold RaftLog.lastIndex; simp only [hlast]
  refine ⟨{ l with store := st }, ?_, ?_, ?_, ?_, rfl, rfl, rfl, rfl, hfirst, hlast⟩
  · unfold RaftLog.compactStore; rw [hcomp]
  · refine ⟨hwf, h.unstWF, ?_, ?_, ?_, ?_, ?_, hpo, ?_⟩
    · intro hs; have := h.first_le_off hs; show st.firstIndex ≤ l.unstable.offset; omega
    · intro hs; have := h.off_le_last hs; show l.unstable.offset ≤ st.lastIndex + 1; omega
    · intro hs hn; have := h.ents_empty hs hn; show l.unstable.offset = st.lastIndex + 1; omega
    · have hd := h.dummy_le_committed
      cases hs : l.unstable.snapshot with
      | none =>
        rw [RaftLog.firstIndex_none hs] at hd
        rw [RaftLog.firstIndex_none (by exact hs)]
        show st.firstIndex ≤ l.committed + 1; omega
      | some sn =>
        rw [RaftLog.firstIndex_some hs] at hd
        rw [RaftLog.firstIndex_some (sn := sn) (by exact hs)]
        exact hd
    · rw [hl']; exact h.committed_le_last
    · have := h.persisted_le_store; show l.persisted ≤ st.lastIndex; omega
  · intro hs
    have hfo := h.first_le_off hs
    have htl := h.take_len hs
    rw [RaftLog.abs_none (by exact hs), RaftLog.abs_none hs]
    simp only [hfirst, hsnap, hents]
    unfold LLog.compactTo
    by_cases hle : index ≤ l.store.firstIndex
    · simp only []
      rw [if_pos (show index - 1 ≤ l.store.firstIndex - 1 by omega), Nat.max_eq_left hle,
        show index - l.store.firstIndex = 0 by omega]
      rfl
    · have hs2 := h.storeWF.snap_lt
      simp only []
      rw [if_neg (show ¬ index - 1 ≤ l.store.firstIndex - 1 by omega),
        Nat.max_eq_right (by omega),
        if_neg (show ¬ index - 1 = l.store.snapshotMetadata.index by omega)]
      simp only [LLog.mk.injEq, true_and]
      rw [show index - 1 - (l.store.firstIndex - 1) = index - l.store.firstIndex by omega,
        List.drop_append_of_le_length (by omega), List.drop_take]
      congr 2; omega
  · intro sn hs
    rw [RaftLog.abs_some (by exact hs), RaftLog.abs_some hs]

/-- **F5 at the `RaftLog` level**: compacting at `storage.last_index + 1` (which
`MemStorage::compact` accepts, and which `index ≤ applied ≤ committed`, `index ≤ persisted + 1`
allow when everything stored is applied) drains the storage; `first_index` / `last_index` fall back
to the old snapshot point, so `persisted` now points above the storage and the invariant is lost -/
theorem compactStore_drains {l : RaftLog} (h : l.Inv) (index : Nat)
    (h1 : index = l.store.lastIndex + 1) (h2 : l.store.firstIndex < index)
    (h3 : index ≤ l.persisted + 1) :
    ∃ l', l.compactStore index = .ok l' ∧ ¬ l'.Inv ∧ l'.store.entries = [] ∧
      l'.store.lastIndex = l.store.snapshotMetadata.index ∧
      l'.store.firstIndex = l.store.snapshotMetadata.index + 1 := by
  have hsl := h.storeWF.last_succ
  have hsn := h.storeWF.snap_lt
  obtain ⟨e0, he0, hi0⟩ := MemStorage.head?_of_lt (s := l.store) (k := 0) (by omega)
  have hdrop : l.store.entries.drop (index - l.store.firstIndex) = [] :=
    List.drop_eq_nil_iff.2 (by omega)
  refine ⟨{ l with store := { l.store with entries := [] } }, ?_, ?_, rfl, rfl, rfl⟩
  · unfold RaftLog.compactStore MemStorage.compact
    rw [if_neg (by omega), if_neg (by omega), he0]
    simp only []
    rw [if_neg (by omega), if_neg (by omega), hi0, hdrop]
  · intro hinv
    have := hinv.persisted_le_store
    have : l.persisted ≤ l.store.snapshotMetadata.index := this
    omega

/-! #### the statement as written is false, clause by clause -/

/-- pending snapshot (5, term 2) with an unstable entry 6 behind it, over the storage `st0` -/
def lA : RaftLog :=
  { store := st0,
    unstable := { snapshot := some { metadata := { index := 5, term := 2 } },
                  entries := [ent 6 2 1], entriesSize := 13, offset := 6 },
    committed := 5, persisted := 2, applied := 2, maxApplyUnpersistedLogLimit := 0 }

theorem lA_inv : RaftLogInv lA :=
  ⟨st0_wf, ⟨contigFrom_getElem? (by decide), by decide, by intro sn hs; cases hs; rfl⟩,
    by decide, by decide, by decide, by decide, by decide, by decide, by decide⟩

/-- pending snapshot at the storage's own snapshot point (index 2 = `first_index - 1`): what
`RaftLog::restore` builds from `l0` for a snapshot with index `committed = 2` -/
def lB : RaftLog :=
  { store := st0,
    unstable := { snapshot := some { metadata := { index := 2, term := 7 } },
                  entries := [], entriesSize := 0, offset := 3 },
    committed := 2, persisted := 2, applied := 2, maxApplyUnpersistedLogLimit := 0 }

theorem lB_inv : RaftLogInv lB := by
  obtain ⟨l', e, hi, _⟩ :=
    (C14_restore_spec l0 l0_inv { metadata := { index := 2, term := 7 } }).1 (by decide)
  have : l0.restore { metadata := { index := 2, term := 7 } } = .ok lB := rfl
  rw [this] at e; cases e; exact hi

/-- storage entries 3, 4 persisted, unstable entry 5 committed and applied (a follower that applies
unpersisted entries): `index = 5` satisfies `index ≤ applied ≤ committed`, `index ≤ persisted + 1` -/
def lC : RaftLog :=
  { store := st0,
    unstable := { snapshot := none, entries := [ent 5 2 1], entriesSize := 13, offset := 5 },
    committed := 5, persisted := 4, applied := 5, maxApplyUnpersistedLogLimit := 1 }

theorem lC_inv : RaftLogInv lC :=
  ⟨st0_wf, ⟨contigFrom_getElem? (by decide), by decide, by intro sn hs; cases hs⟩,
    by decide, by decide, by decide, by decide, by decide, by decide, by decide⟩

/-- clause 1 fails: stabilising behind a pending snapshot panics -/
theorem stabilise_clause_false :
    ¬ ∀ (l : RaftLog), RaftLogInv l → ∃ l', l.stabilise = .ok l' ∧ RaftLogInv l' ∧ l'.abs = l.abs := by
  intro hall
  obtain ⟨l', e, _⟩ := hall lA lA_inv
  have : lA.stabilise = .panic "storage.append.gap" := rfl
  rw [this] at e; cases e

/-- clause 2 fails: `apply_snapshot` refuses a snapshot at `first_index - 1` -/
theorem persistSnapshot_clause_false :
    ¬ ∀ (l : RaftLog), RaftLogInv l →
      ∃ l', l.persistSnapshot = .ok l' ∧ RaftLogInv l' ∧ l'.abs = l.abs := by
  intro hall
  obtain ⟨l', e, _⟩ := hall lB lB_inv
  have : lB.persistSnapshot = .err .snapshotOutOfDate := rfl
  rw [this] at e; cases e

/-- clause 3 fails: compaction at `storage.last_index + 1` is accepted and breaks the invariant -/
theorem compactStore_clause_false :
    ¬ ∀ (l : RaftLog), RaftLogInv l → ∀ index, index ≤ l.applied → l.applied ≤ l.committed →
      index ≤ l.persisted + 1 → ∃ l', l.compactStore index = .ok l' ∧ RaftLogInv l' ∧
        (l.unstable.snapshot = none → l'.abs = l.abs.compactTo (index - 1)) := by
  intro hall
  obtain ⟨l', e, hinv, _⟩ := hall lC lC_inv 5 (by decide) (by decide) (by decide)
  obtain ⟨l'', e', hbad, _⟩ := compactStore_drains lC_inv 5 (by decide) (by decide) (by decide)
  rw [e] at e'; cases e'
  exact hbad hinv

theorem C14_storage_steps_full_statement_false : ¬ C14_storage_steps_full_statement := by
  intro hall
  exact stabilise_clause_false (fun l h => (hall l h).1)

/-- **The storage-side steps keep the invariant and the logical log** (corrected
`C14_storage_steps_full_statement`; each clause of the original is false for some state satisfying
the invariant, see `stabilise_clause_false`, `persistSnapshot_clause_false`,
`compactStore_clause_false`).  Added hypotheses, each one a part of the Ready contract:
* stabilise: no snapshot is pending (or nothing is unstable) — "the snapshot must be stabled before
  entries"; otherwise it panics (`stabilise_pending_panics`);
* persist snapshot: the pending snapshot is not below the storage's `first_index` (raft.rs only
  restores snapshots above the commit index, or at it when the term there is unknown/different);
  otherwise `MemStorage::apply_snapshot` answers `SnapshotOutOfDate` (`persistSnapshot_out_of_date`);
* compaction: `index ≤ storage.last_index` (or `index ≤ storage.first_index`, a no-op) — the
  remaining case `index = storage.last_index + 1`, allowed by `index ≤ persisted + 1`, drains
  `MemStorage` and loses the invariant (finding F5, `compactStore_drains`). -/
theorem C14_storage_steps_spec : ∀ (l : RaftLog), RaftLogInv l →
    ((l.unstable.snapshot = none ∨ l.unstable.entries = []) →
      ∃ l', l.stabilise = .ok l' ∧ RaftLogInv l' ∧ l'.abs = l.abs) ∧
    ((∀ sn, l.unstable.snapshot = some sn → l.store.firstIndex ≤ sn.metadata.index) →
      ∃ l', l.persistSnapshot = .ok l' ∧ RaftLogInv l' ∧ l'.abs = l.abs) ∧
    (∀ index, index ≤ l.applied → l.applied ≤ l.committed → index ≤ l.persisted + 1 →
      (index ≤ l.store.lastIndex ∨ index ≤ l.store.firstIndex) →
      ∃ l', l.compactStore index = .ok l' ∧ RaftLogInv l' ∧
        (l.unstable.snapshot = none → l'.abs = l.abs.compactTo (index - 1))) := by
  intro l h
  refine ⟨?_, ?_, ?_⟩
  · intro hc
    cases hs : l.unstable.snapshot with
    | none =>
      obtain ⟨l', e, hi, ha, _⟩ := stabilise_ok h hs
      exact ⟨l', e, hi, ha⟩
    | some sn =>
      rcases hc with hc | hc
      · rw [hs] at hc; cases hc
      · refine ⟨l, ?_, h, rfl⟩
        unfold RaftLog.stabilise; rw [hc]; rfl
  · intro hc
    cases hs : l.unstable.snapshot with
    | none =>
      refine ⟨l, ?_, h, rfl⟩
      unfold RaftLog.persistSnapshot; rw [hs]
    | some sn =>
      obtain ⟨l', e, hi, ha, _⟩ := persistSnapshot_ok h sn hs (hc sn hs)
      exact ⟨l', e, hi, ha⟩
  · intro index h1 h2 h3 h4
    obtain ⟨l', e, hi, ha, _⟩ := compactStore_ok h index (by omega) h3 h4
    exact ⟨l', e, hi, ha⟩

/-- what the three steps do outside the added hypotheses -/
theorem C14_storage_steps_outside (l : RaftLog) (h : RaftLogInv l) :
    (∀ sn, l.unstable.snapshot = some sn → l.unstable.entries ≠ [] →
      ∃ s, l.stabilise = .panic s) ∧
    (∀ sn, l.unstable.snapshot = some sn → sn.metadata.index < l.store.firstIndex →
      l.persistSnapshot = .err .snapshotOutOfDate) ∧
    (∀ index, index = l.store.lastIndex + 1 → l.store.firstIndex < index →
      index ≤ l.persisted + 1 →
      ∃ l', l.compactStore index = .ok l' ∧ ¬ RaftLogInv l' ∧ l'.store.entries = [] ∧
        l'.store.lastIndex = l.store.snapshotMetadata.index) :=
  ⟨fun sn hs hne => stabilise_pending_panics h sn hs hne,
   fun sn hs hlt => persistSnapshot_out_of_date l sn hs hlt,
   fun index h1 h2 h3 => by
     obtain ⟨l', e, hb, hn, hl, _⟩ := compactStore_drains h index h1 h2 h3
     exact ⟨l', e, hb, hn, hl⟩⟩

/-! ### what a size-limited read returns: a gap-free, non-empty, maximal prefix within the limit -/

/-- the logical log is numbered consecutively from `first_index` -/
theorem abs_contig {l : RaftLog} (h : l.Inv) : ContigFrom l.abs.firstIndex l.abs.ents := by
  cases hs : l.unstable.snapshot with
  | none =>
    have hp := h.storeWF.first_pos
    have hfo := h.first_le_off hs
    have htl := h.take_len hs
    rw [RaftLog.abs_none hs]
    simp only [LLog.firstIndex]
    rw [show l.store.firstIndex - 1 + 1 = l.store.firstIndex by omega]
    apply ContigFrom.append (ContigFrom.take h.storeWF.contig _)
    rw [htl, show l.store.firstIndex + (l.unstable.offset - l.store.firstIndex) =
      l.unstable.offset by omega]
    exact h.unstWF.contig
  | some sn =>
    have ho := h.unstWF.snap sn hs
    rw [RaftLog.abs_some hs]
    simp only [LLog.firstIndex]
    rw [← ho]
    exact h.unstWF.contig

/-- the range `[lo, hi)` inside the log has exactly `hi - lo` entries, numbered `lo, lo+1, …` -/
theorem range_contig {l : RaftLog} (h : l.Inv) (lo hi : Nat) (h1 : l.firstIndex ≤ lo)
    (h2 : lo ≤ hi) (h3 : hi ≤ l.lastIndex + 1) :
    ContigFrom lo (l.abs.range lo hi) ∧ (l.abs.range lo hi).length = hi - lo := by
  have hfi := h.firstIndex_abs
  have hla := h.lastIndex_abs
  constructor
  · unfold LLog.range
    have := (ContigFrom.drop (abs_contig h) (lo - l.abs.firstIndex)).take (hi - lo)
    rw [show l.abs.firstIndex + (lo - l.abs.firstIndex) = lo by omega] at this
    exact this
  · unfold LLog.range
    simp only [LLog.lastIndex, LLog.firstIndex] at hla hfi ⊢
    rw [List.length_take, List.length_drop]
    omega

/-- **a size-limited `slice` honours the limit while returning at least one entry**: for a
non-empty range inside the log and a finite limit `m`, the answer is non-empty, a prefix of the
logical range (so consecutive indices starting at `lo`: no gap), within `m` bytes unless it is a
single entry, and maximal (the next entry of the range would exceed `m`) -/
theorem C14_slice_limit (l : RaftLog) (h : RaftLogInv l) (lo hi m : Nat) (ca : Bool)
    (hav : (l.store.triggerLogUnavailable && ca) = false)
    (h1 : l.firstIndex ≤ lo) (h2 : lo < hi) (h3 : hi ≤ l.lastIndex + 1) (hm : m ≠ NO_LIMIT) :
    ∃ r, l.slice lo hi (some m) ca = .ok r ∧ r ≠ [] ∧
      (∃ k, r = (l.abs.range lo hi).take k) ∧ ContigFrom lo r ∧
      (totalSize r ≤ m ∨ r.length = 1) ∧
      (∀ e rest, l.abs.range lo hi = r ++ e :: rest → m < totalSize r + e.computeSize) := by
  obtain ⟨hcon, hlen⟩ := range_contig h lo hi h1 (by omega) h3
  have hne : l.abs.range lo hi ≠ [] := by
    intro hn; rw [hn] at hlen; simp at hlen; omega
  obtain ⟨hpre, hnon, _, hwithin, hmaxi⟩ := limitSize_spec (l.abs.range lo hi) (some m)
  have hfp : 1 ≤ l.firstIndex := by rw [h.firstIndex_abs]; simp [LLog.firstIndex]
  have hpos : ∀ e ∈ limitSize (l.abs.range lo hi) (some m), 0 < e.computeSize := by
    intro e he
    obtain ⟨k, hk⟩ := hpre
    rw [hk] at he
    obtain ⟨i, hi', rfl⟩ := List.getElem_of_mem (List.mem_of_mem_take he)
    have := hcon i _ (List.getElem?_eq_some_iff.2 ⟨hi', rfl⟩)
    exact computeSize_pos _ (by omega)
  refine ⟨_, slice_ok h lo hi (some m) ca hav h1 (by omega) h3, hnon hne, hpre, ?_, ?_, ?_⟩
  · obtain ⟨k, hk⟩ := hpre
    rw [hk]; exact hcon.take k
  · rcases hwithin m rfl hm with hw | hw
    · exact Or.inl hw
    · right
      have hd := totalSize_eq_zero _ (fun e he => hpos e ((List.dropLast_sublist _).subset he)) hw
      have hl := congrArg List.length hd
      simp only [List.length_dropLast, List.length_nil] at hl
      have : (limitSize (l.abs.range lo hi) (some m)).length ≠ 0 := by
        intro h0; exact hnon hne (List.length_eq_zero_iff.1 h0)
      omega
  · intro e rest he
    exact (hmaxi m rfl e rest he).2

/-- `next_entries_since` without the no-overflow hypothesis: the hand-out bound saturates at
`u64::MAX` (finding F6, repaired) -/
theorem C14_nextEntriesSince_saturating (l : RaftLog) (h : RaftLogInv l) (since : Nat)
    (mx : Option Nat) (hsince : since < U64_MAX) :
    l.nextEntriesSince since mx =
      (let hi := min l.committed (min U64_MAX (l.persisted + l.maxApplyUnpersistedLogLimit)) + 1
       let lo := max (since + 1) l.abs.firstIndex
       if lo < hi then .ok (some (limitSize (l.abs.range lo hi) mx)) else .ok none) := by
  have hcl := h.committed_le_last
  unfold RaftLog.nextEntriesSince RaftLog.appliedIndexUpperBound
  rw [if_neg (by omega)]
  simp only []
  rw [← h.firstIndex_abs]
  by_cases hlt : max (since + 1) l.firstIndex <
      min l.committed (min U64_MAX (l.persisted + l.maxApplyUnpersistedLogLimit)) + 1
  · rw [if_pos hlt, if_pos hlt]
    rw [slice_ok h _ _ mx false (by simp) (by omega) (by omega) (by omega)]
  · rw [if_neg hlt, if_neg hlt]

/-! ### non-vacuity: concrete size-limited reads across the storage / unstable boundary -/

set_option maxRecDepth 20000 in
/-- `lC` holds 3, 4 in storage (sizes 11 and 207) and 5 unstable (size 7): a limit that cuts inside
the storage part returns early; one that admits the storage part goes on into the unstable part;
a limit of 0 still returns one entry -/
example : lC.slice 3 6 (some 100) false = .ok [ent 3 1 5] ∧
    lC.slice 3 6 (some 218) false = .ok [ent 3 1 5, ent 4 2 200] ∧
    lC.slice 3 6 (some 224) false = .ok [ent 3 1 5, ent 4 2 200] ∧
    lC.slice 3 6 (some 225) false = .ok [ent 3 1 5, ent 4 2 200, ent 5 2 1] ∧
    lC.slice 4 6 (some 0) false = .ok [ent 4 2 200] ∧
    lC.entries 4 none false = .ok [ent 4 2 200, ent 5 2 1] ∧
    lC.nextEntriesSince 2 (some 218) = .ok (some [ent 3 1 5, ent 4 2 200]) := by
  refine ⟨?_, ?_, ?_, ?_, ?_, ?_, ?_⟩ <;> rfl

end RaftProps.C14
