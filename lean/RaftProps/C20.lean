import RaftProps.C11
import RaftProps.C14
import RaftProps.C18
import RaftProps.C19
import RaftProofs.ProtoLStep
import RaftProps.RN

/-!
# C20 — no panic or internal-check failure under contract-abiding use

In the Lean models every `panic!`, `fatal!`, `assert!`, `unwrap`, slice / index out of bounds and
u64 overflow of the Rust code is an explicit outcome (`Res.panic site` / `Except.error site`), so
"does not panic" is a statement one can prove.  This file collects, per modelled component, the
theorem that **no panic site is reachable from states satisfying the component's invariant under
calls that satisfy its documented contract**, for operation sequences of any length:

* in-flight window (`inflights.rs`): only `add` on a full window panics (`C20_inflights`);
* `MemStorage` (`storage.rs`): every history whose calls satisfy the documented preconditions
  runs without panic (`C20_memstorage`);
* `RaftLog`/`Unstable` (`raft_log.rs`, `log_unstable.rs`): every sequence of append / maybe_append /
  commit_to / maybe_persist / applied_to / restore under their contracts runs without panic and
  keeps `applied ≤ committed ≤ last` (`C20_raftlog`); the hand-out bound no longer overflows
  (`C20_applied_bound_total`, finding F6 repaired);
* quorum arithmetic (`majority.rs`, `joint.rs`): never panics, for every input (`C20_quorum`);
* the one cross-node input condition behind `fatal!("entry … conflict with committed entry")` and
  `to_commit out of range`: on the abstract protocol P an append is accepted only if it does not
  conflict at or below the commit index and commit indexes stay inside the log; the implementation
  is held to that on every trace (`C20_append_never_conflicts_below_commit_obligation`).

What is *not* yet a theorem: absence of panics in `raft.rs`/`raw_node.rs` handler code itself
; there the property is decided on implementation traces: every library call
of every simulated node is wrapped in `catch_unwind` and a panic is a violation with its history
(this is how findings F2, F4, F6, F7 were found and repaired).
-/
namespace RaftProps.C20
open RaftModel

theorem C20_inflights (s : Inflights) (h : s.Inv) (op : InfOp) :
    (∃ s', s.step op = .ok s') ∨ (∃ x, op = .add x ∧ s.full = true) :=
  RaftProps.C18.C18_no_internal_panic s h op

theorem C20_inflights_sequences (cap : Nat) (ops : List InfOp)
    (hl : RaftProps.C18.legal (Fifo.new cap) ops = true) :
    ∃ s', RaftProps.C18.runRing (Inflights.new cap) ops = .ok s' ∧ s'.Inv := by
  obtain ⟨s', e, i, _⟩ := RaftProps.C18.C18_refines cap ops hl
  exact ⟨s', e, i⟩

theorem C20_memstorage (ops : List StorageOp) (hl : MemStorage.new.abs.legal ops = true) :
    ∃ s', MemStorage.new.run ops = .ok s' ∧ s'.Inv := by
  obtain ⟨s', e, i, _⟩ := RaftProps.C19.C19_refines ops hl
  exact ⟨s', e, i⟩

theorem C20_raftlog (ops : List RaftProps.C14.Op) (l : RaftLog) (h : RaftProps.C14.RaftLogInv l) (ha : l.AppliedOk)
    (hl : RaftProps.C14.legalSeq l ops) :
    ∃ l', RaftProps.C14.run l ops = .ok l' ∧ RaftProps.C14.RaftLogInv l' ∧ l'.AppliedOk ∧ l'.committed ≤ l'.lastIndex := by
  obtain ⟨l', e, i, a, _, c, _⟩ := RaftProps.C14.C14_run ops l h ha hl
  exact ⟨l', e, i, a, c⟩

theorem C20_applied_bound_total (l : RaftLog) : ∃ ub, l.appliedIndexUpperBound = .ok ub := by
  obtain ⟨ub, e, _⟩ := RaftProps.C14.C14_applied_upper_bound_saturates l
  exact ⟨ub, e⟩

theorem C20_quorum (c : JointConfig) (ack : Nat → Option Index) (gc : Bool) :
    Joint.committedIndexR c ack gc = .ok (Joint.committedIndex c ack gc) :=
  RaftProps.C11.joint_committedIndex_never_panics c ack gc

/-- an append is accepted by a node of P only if it is anchored inside the node's log and its first
conflicting entry (if any) lies above the node's commit index — the two conditions whose violation
makes the real `maybe_append` fatal — and afterwards the committed prefix is unchanged -/
theorem C20_append_never_conflicts_below_commit_obligation (s s' : P.PSys) (i : Nat) (m : P.App)
    (h : P.applyEvent s (.recvApp i m) = .ok s') :
    m.prev ≤ (s.nodes i).log.length ∧
    (P.conflictAt (s.nodes i).log m.prev m.es = 0 ∨
      (s.nodes i).commit < P.conflictAt (s.nodes i).log m.prev m.es) := by
  simp only [P.applyEvent, P.ok] at h
  split at h
  · rename_i hg; exact ⟨hg.2.2.2.2.1, hg.2.2.2.2.2.2⟩
  · cases h


/-! ### the `RawNode::step` filter and the repaired panic sites, on the executable node model -/

/-- local message types are refused by `RawNode::step` (an error, not a panic) and change nothing -/
theorem C20_rawnode_step_rejects_local (r : RaftModel.Raft) (m : RaftModel.Message)
    (h : RaftModel.isLocalMsg m.msgType = true) :
    RaftModel.RawNode.step r m = .ok (r, some .stepLocalMsg) :=
  RaftProps.RN.rawnode_step_rejects_local r m h

/-- a response from a peer the node has no `Progress` for is refused and changes nothing -/
theorem C20_rawnode_step_rejects_unknown_peer (r : RaftModel.Raft) (m : RaftModel.Message)
    (hl : RaftModel.isLocalMsg m.msgType = false) (hr : RaftModel.isResponseMsg m.msgType = true)
    (hp : r.prs.get m.frm = none) :
    RaftModel.RawNode.step r m = .ok (r, some .stepPeerNotFound) :=
  RaftProps.RN.rawnode_step_rejects_unknown_peer r m hl hr hp

/-- finding F13, repaired: a rejected pre-vote response is sent whatever its term (a node that has
not seen any term yet no longer hits the "term should be set" fatal) -/
theorem C20_prevote_reject_is_always_sent (r : RaftModel.Raft) (m' : RaftModel.Message)
    (h1 : m'.msgType = .msgRequestPreVoteResponse) (h2 : m'.reject = true) :
    r.send m' = .ok { r with msgs := r.msgs ++ [r.sendFill m'] } :=
  RaftProps.RN.prevote_reject_is_always_sent r m' h1 h2

end RaftProps.C20
