import RaftProofs.ClusterReadM
import RaftProofs.ClusterReadN
import RaftProofs.ClusterReadO

/-!
# C08, cluster level — ReadIndex (Safe mode) is linearizable for `ClusterSem`, for reads issued at the leader

`ClusterSem` (`RaftModel/Cluster.lean`) is the cluster built from the executable node model;
`RaftProps/C02c.lean`, `C05c.lean`, `C01c.lean` prove Election Safety, Log Matching and the commit layer
for it.  This file proves the read path on top of them: a `ReadState` handed out for a request carries an
index at least as large as the commit index **every** node had when the request was registered, and it
is handed out on the node where the request was issued.

## Hypotheses (`RdHyp cfg c0 h`, `RaftProofs/ClusterReadH.lean`)

* `Hyp3w cfg c0 h` — the hypotheses of the commit layer without proof gaps about the transport (C01d;
  `RaftProofs/ClusterCommit2P.lean`), i.e. `Hyp2w` and `snapt0`;
* `norir`: no `MsgReadIndexResp` is ever in the transport (the commit layer no longer needs it; the read
  layer uses it in `occ_issued` and `rd_produce`).  `Hyp3` of C01c gives both: `RdHyp.of_hyp3`;
* `safe`: every node runs with `ReadOnlyOption::Safe`;
* `nori`: no `MsgReadIndex` is ever in the transport — reads are issued at the leader.  **Without it the
  statement is false in the model** (and in raft-rs under a transport that may duplicate messages): a
  duplicated forwarded `MsgReadIndex` re-registers a context that was answered before, stale heartbeat
  responses for it are accepted again, and `ReadOnly::advance` releases every request queued before it —
  see the report / the docstring of `C08_cluster_read_index_safe`;
* `uniq`, `nonempty`: the contexts of the calls that register a request are unique and not empty
  (`C08_cluster_read_index_safe_calls` states the theorem with uniqueness over all `read_index` calls).
-/
namespace RaftProps.C08
open RaftModel RaftModel.Cluster RaftModel.Node RaftModel.Raft RaftModel.Raft.CC RaftModel.Raft.RD

/-- **C08 `cluster_read_index_safe`** — Safe ReadIndex is linearizable for reads issued at the leader.

Let the step `h[n] → h[n+1]` be a `read_index(ctx)` call on node `i` that registers the request
(`RegAt`).  If in any state `h[m]` of the history a `ReadState` with `request_ctx = ctx` and index
`x.index` sits in the read states of some node `j`, then `j = i`, and `x.index` is at least the commit
index of **every** node in `h[n]` — the highest commit index any node had reached when the request was
issued.

Counterexample without `nori` (voters 1, 2, 3): node 1 leads term 1 and has committed index 1.
Follower 2 calls `read_index(K)`; the forwarded `MsgReadIndex(K)` reaches node 1, which registers `K`,
broadcasts heartbeats with `K`, receives node 2's `MsgHeartbeatResponse(K, term 1)` and answers `K`
(a `MsgReadIndexResp` in its queue, never sent).  Node 3 is elected for term 2 by node 2 and commits
index 2 with node 2's acknowledgement; node 1 hears nothing of it.  Now `read_index(ctx)` is called on
node 1: still leader of term 1 in its own eyes, it registers `ctx` with read index 1.  The transport
delivers the old `MsgReadIndex(K)` a second time — `K` is no longer pending, so it is registered again,
*behind* `ctx` — and then the old `MsgHeartbeatResponse(K, term 1)` of node 2 a second time: the
acknowledgements `{1, 2}` of `K` are a quorum, `ReadOnly::advance(K)` releases `ctx` and `K`, and the
application of node 1 receives the read state `(ctx, 1)` although node 3 had commit index 2 when
`ctx` was issued.  Every context was used by one call only. -/
theorem C08_cluster_read_index_safe (cfg : JointConfig) (c0 : Nat) (h : List Sys)
    (H : RdHyp cfg c0 h) (n i : Nat) (ctx : Bytes) (hreg : RegAt h n i ctx)
    (sn : Sys) (hn : h[n]? = some sn)
    (m : Nat) (s : Sys) (hm : h[m]? = some s) (j : Nat) (stj : NState) (hj : s.node j = some stj)
    (x : ReadState) (hx : x ∈ stj.raft.readStates) (hctx : x.requestCtx = ctx) :
    j = i ∧ n < m ∧
    ∀ u stu, sn.node u = some stu → stu.raft.raftLog.committed ≤ x.index := by
  obtain ⟨h1, h2⟩ := read_state_ok H hreg hn m s hm j stj hj x hx hctx
  refine ⟨h1, ?_, h2⟩
  exact occ_after H hreg hm (.inl ⟨j, stj, hj, .inr (.inr (.inr ⟨x, hx, hctx⟩))⟩)

/-- **C08 `cluster_superseded_leader_does_not_answer`** — let the request `ctx` be registered by the
step `h[n] → h[n+1]`, and let some node lead term `t'` in a state `h[n1]`, `n1 ≤ n`.  Then whichever node
adds a read state for `ctx` to its read states, in whichever step `h[k] → h[k+1]`, has a term at least
`t'` when it does so (`st` is its state before that step): a leader of a term `t < t'` never produces a
read state for a request issued at or after `h[n1]`.  (The condition "has committed an entry of its own
term" of the abstract statement is not needed.) -/
theorem C08_cluster_superseded_leader_does_not_answer (cfg : JointConfig) (c0 : Nat) (h : List Sys)
    (H : RdHyp cfg c0 h) (n i : Nat) (ctx : Bytes) (hreg : RegAt h n i ctx)
    (n1 : Nat) (s1 : Sys) (hn1 : h[n1]? = some s1) (hle : n1 ≤ n) (l' t' : Nat)
    (hl' : leads s1 l' t')
    (k : Nat) (a b : Sys) (ha : h[k]? = some a) (hb : h[k + 1]? = some b) (j : Nat)
    (st st' : NState) (hja : a.node j = some st) (hjb : b.node j = some st')
    (x : ReadState) (hx : x ∈ st'.raft.readStates) (hnew : x ∉ st.raft.readStates)
    (hctx : x.requestCtx = ctx) :
    t' ≤ st.raft.term := by
  obtain ⟨sn, hn⟩ : ∃ sn, h[n]? = some sn := by
    obtain ⟨a0, _, _, _, _, _, q, _⟩ := hreg
    exact ⟨a0, q⟩
  obtain ⟨_, p2, _, Q, hQ, hQb⟩ := rd_produce H hreg ha hb hja hjb hx hnew hctx
  exact quorum_no_higher H hn ha (by omega) hja hQ hQb hn1 hle hl'

/-- uniqueness and non-emptiness of the contexts of **all** `read_index` calls (whether they register
the request, forward it or drop it) give the two hypotheses `uniq` / `nonempty` of `RdHyp` -/
theorem RdHyp.of_calls {cfg : JointConfig} {c0 : Nat} {h : List Sys} (H3 : Hyp3w cfg c0 h)
    (norir : ∀ s ∈ h, ∀ x ∈ s.net, x.msgType ≠ .msgReadIndexResp)
    (safe : ∀ s ∈ h, ∀ i st, s.node i = some st → st.raft.readOnly.option = .safe)
    (nori : ∀ s ∈ h, ∀ x ∈ s.net, x.msgType ≠ .msgReadIndex)
    (uniqc : ∀ n1 n2 i1 i2 K, ReadCallAt h n1 i1 K → ReadCallAt h n2 i2 K → n1 = n2)
    (nec : ∀ n i K, ReadCallAt h n i K → K ≠ []) : RdHyp cfg c0 h :=
  { toHyp3w := H3, norir := norir, safe := safe, nori := nori,
    uniq := fun n1 n2 i1 i2 K h1 h2 => uniqc n1 n2 i1 i2 K h1.call h2.call,
    nonempty := fun n i K hr => nec n i K hr.call }

/-- the hypotheses of the commit layer as first stated (`Hyp3`, C01c) give `Hyp3w` and `norir` -/
theorem RdHyp.of_hyp3 {cfg : JointConfig} {c0 : Nat} {h : List Sys} (H3 : Hyp3 cfg c0 h)
    (safe : ∀ s ∈ h, ∀ i st, s.node i = some st → st.raft.readOnly.option = .safe)
    (nori : ∀ s ∈ h, ∀ x ∈ s.net, x.msgType ≠ .msgReadIndex)
    (uniq : ∀ n1 n2 i1 i2 K, RegAt h n1 i1 K → RegAt h n2 i2 K → n1 = n2)
    (nonempty : ∀ n i K, RegAt h n i K → K ≠ []) : RdHyp cfg c0 h :=
  { toHyp3w := H3.toHyp3w, norir := H3.toHyp2.norir, safe := safe, nori := nori, uniq := uniq,
    nonempty := nonempty }

/-- **C08 `cluster_read_index_safe`, stated for `read_index` calls** (the form of the brief): no two
`read_index` calls of the history carry the same context, no context is empty; the step
`h[n] → h[n+1]` is a `read_index(ctx)` call on node `i`.  Then a read state for `ctx` only ever appears
on node `i`, after `h[n]`, with an index at least the commit index of every node in `h[n]`.  (If the call
did not register the request — the node was not a leader that has committed in its term — no read state
for `ctx` ever appears.) -/
theorem C08_cluster_read_index_safe_calls (cfg : JointConfig) (c0 : Nat) (h : List Sys)
    (H3 : Hyp3w cfg c0 h)
    (norir : ∀ s ∈ h, ∀ x ∈ s.net, x.msgType ≠ .msgReadIndexResp)
    (safe : ∀ s ∈ h, ∀ i st, s.node i = some st → st.raft.readOnly.option = .safe)
    (nori : ∀ s ∈ h, ∀ x ∈ s.net, x.msgType ≠ .msgReadIndex)
    (uniqc : ∀ n1 n2 i1 i2 K, ReadCallAt h n1 i1 K → ReadCallAt h n2 i2 K → n1 = n2)
    (nec : ∀ n i K, ReadCallAt h n i K → K ≠ [])
    (n i : Nat) (ctx : Bytes) (hcall : ReadCallAt h n i ctx) (sn : Sys) (hn : h[n]? = some sn)
    (m : Nat) (s : Sys) (hm : h[m]? = some s) (j : Nat) (stj : NState) (hj : s.node j = some stj)
    (x : ReadState) (hx : x ∈ stj.raft.readStates) (hctx : x.requestCtx = ctx) :
    j = i ∧ n < m ∧
    ∀ u stu, sn.node u = some stu → stu.raft.raftLog.committed ≤ x.index := by
  have H := RdHyp.of_calls H3 norir safe nori uniqc nec
  obtain ⟨n1, i1, _, hr⟩ := occ_issued H m s hm ctx (nec n i ctx hcall)
    (.inl ⟨j, stj, hj, .inr (.inr (.inr ⟨x, hx, hctx⟩))⟩)
  have e := uniqc n1 n i1 i ctx hr.call hcall
  subst e
  have ei : i1 = i := by
    obtain ⟨a, b, _, _, _, _, p1, p2, _, _, p5⟩ := hr.call
    obtain ⟨a', b', _, _, _, _, q1, q2, _, _, q5⟩ := hcall
    rw [p1] at q1; cases q1
    rw [p2] at q2; cases q2
    exact setNode_head_inj (p5.symm.trans q5)
  subst ei
  exact C08_cluster_read_index_safe cfg c0 h H n1 i1 ctx hr sn hn m s hm j stj hj x hx hctx

/-! ## Non-vacuity: a leader answers a `read_index` request after a heartbeat round (kernel-evaluated)

`RaftProofs/ClusterReadN.lean`: the history of `C01_cluster_nonvacuous` (node 1 leads term 1 and has
committed index 1) continued by `read_index([7])` on node 1, `send` at node 1, the delivery of the
heartbeat that carries the context to node 2, `send` at node 2, and the delivery of node 2's
`MsgHeartbeatResponse` to node 1, which produces the read state `([7], 1)`. -/

section Examples
open RaftProps.C02 RaftProps.C05

set_option maxRecDepth 100000 in
/-- **non-vacuity of the read layer**: there is a history of `ClusterSem` that satisfies every hypothesis
of the theorems above (`RdHyp`, voters `{1, 2, 3}`, `c0 = 0`), in which step 14 is a `read_index([7])`
call on node 1 that registers the request while every node's commit index is at most 1 and node 1's is
1, the transport of the last state holds node 2's `MsgHeartbeatResponse` with the context for term 1,
and node 1 ends with the read state `([7], 1)`. -/
theorem C08_cluster_nonvacuous :
    ∃ h : List Sys, RdHyp c02x_cfg 0 h ∧ RegAt h 14 1 [7] ∧
      ∃ (sn s : Sys) (st1 stj : NState) (y : Message),
        h[14]? = some sn ∧ sn.node 1 = some st1 ∧ st1.raft.state = .leader ∧ st1.raft.term = 1 ∧
        st1.raft.raftLog.committed = 1 ∧
        h[19]? = some s ∧ s.node 1 = some stj ∧
        stj.raft.readStates = [{ index := 1, requestCtx := [7] }] ∧
        y ∈ s.net ∧ y.msgType = .msgHeartbeatResponse ∧ y.frm = 2 ∧ y.context = [7] ∧ y.term = 1 :=
  ⟨c08x_hist, c08x_rdhyp, c08x_regAt, c01x_s14, c08x_s19, c01x_a8, c08x_a11, c08x_hbr,
    rfl, rfl, by decide, by decide, by decide, rfl, rfl, by decide,
    List.mem_append_right _ (c02x_head_mem _ (by decide)), by decide, by decide, by decide,
    by decide⟩

/-- … and the theorem applies to it: whatever read state for `[7]` any node holds in any state of that
history, it is node 1's, and its index covers the commit index of every node at step 14 -/
example (m : Nat) (s : Sys) (hm : c08x_hist[m]? = some s) (j : Nat) (stj : NState)
    (hj : s.node j = some stj) (x : ReadState) (hx : x ∈ stj.raft.readStates)
    (hctx : x.requestCtx = [7]) :
    j = 1 ∧ 14 < m ∧ ∀ u stu, c01x_s14.node u = some stu → stu.raft.raftLog.committed ≤ x.index :=
  C08_cluster_read_index_safe c02x_cfg 0 c08x_hist c08x_rdhyp 14 1 [7] c08x_regAt c01x_s14 rfl
    m s hm j stj hj x hx hctx

/-! ## The counterexample: without `nori` the statement is false (kernel-evaluated)

`RaftProofs/ClusterReadO.lean`: a 43-state history of `ClusterSem` that satisfies every hypothesis of
`C08_cluster_read_index_safe` except `nori` (the forwarded `MsgReadIndex([9])` of follower 2 is in the
transport, and is delivered twice), in which node 1 hands out the read state `([7], 1)` for a request
that was issued — and registered — when node 3, leader of term 2, had commit index 2. -/

set_option maxRecDepth 100000 in
/-- **`C08_cluster_read_index_safe` is false without `nori`**: a history that satisfies `Hyp3`
(which gives `Hyp3w` and `norir` of `RdHyp`: `RdHyp.of_hyp3`), `safe`, `uniq` and `nonempty`; step 39 is a `read_index([7])` call on node 1 that registers the request; in
`h[39]` node 3 leads term 2 with commit index 2; in `h[42]` node 1 holds the read state `([7], 1)`.  The
only `read_index` calls of the history are `read_index([9])` on node 2 (step 14, forwarded) and
`read_index([7])` on node 1 (step 39); the transport delivers node 2's forwarded `MsgReadIndex([9])`
at steps 16 and 40 and its `MsgHeartbeatResponse([9], term 1)` at steps 20 and 41. -/
theorem C08_cluster_forwarded_read_counterexample :
    ∃ h : List Sys, Hyp3 c02x_cfg 0 h ∧
      (∀ s ∈ h, ∀ i st, s.node i = some st → st.raft.readOnly.option = .safe) ∧
      (∀ n1 n2 i1 i2 K, RegAt h n1 i1 K → RegAt h n2 i2 K → n1 = n2) ∧
      (∀ n i K, RegAt h n i K → K ≠ []) ∧
      RegAt h 39 1 [7] ∧
      ∃ (sn s : Sys) (st3 stj : NState),
        h[39]? = some sn ∧ sn.node 3 = some st3 ∧ st3.raft.state = .leader ∧ st3.raft.term = 2 ∧
        st3.raft.raftLog.committed = 2 ∧
        h[42]? = some s ∧ s.node 1 = some stj ∧
        stj.raft.readStates = [{ index := 1, requestCtx := [7] }] :=
  ⟨c08y_hist, c08y_hyp3, c08y_safe,
    fun _ _ _ _ _ h1 h2 => by rw [(c08y_reg_only h1).1, (c08y_reg_only h2).1],
    fun _ _ _ h => by rw [(c08y_reg_only h).2]; decide,
    c08y_regAt, c08y_s39, c08y_s42, c08y_c12, c08y_a14, rfl, rfl, by decide, by decide, by decide,
    rfl, rfl, by decide⟩

/-- the same counterexample, with the hypotheses spelt as the fields of `RdHyp` other than `nori` -/
theorem C08_cluster_forwarded_read_counterexample_fields :
    ∃ h : List Sys, Hyp3w c02x_cfg 0 h ∧
      (∀ s ∈ h, ∀ x ∈ s.net, x.msgType ≠ .msgReadIndexResp) ∧
      (∀ s ∈ h, ∀ i st, s.node i = some st → st.raft.readOnly.option = .safe) ∧
      (∀ n1 n2 i1 i2 K, RegAt h n1 i1 K → RegAt h n2 i2 K → n1 = n2) ∧
      (∀ n i K, RegAt h n i K → K ≠ []) ∧
      RegAt h 39 1 [7] ∧
      ∃ (sn s : Sys) (st3 stj : NState),
        h[39]? = some sn ∧ sn.node 3 = some st3 ∧ st3.raft.state = .leader ∧ st3.raft.term = 2 ∧
        st3.raft.raftLog.committed = 2 ∧
        h[42]? = some s ∧ s.node 1 = some stj ∧
        stj.raft.readStates = [{ index := 1, requestCtx := [7] }] := by
  obtain ⟨h, H3, rest⟩ := C08_cluster_forwarded_read_counterexample
  exact ⟨h, H3.toHyp3w, H3.toHyp2.norir, rest⟩

end Examples

end RaftProps.C08
