import RaftProofs.ProtoDisc
import RaftProps.CfgLayer

/-!
# The discipline layer PD: the headline theorems from single-call facts

PC (`RaftModel/ProtoCfg.lean`) checks, at a `win`, a `commitLeader` and a read answer, *local*
conditions that mention the node's applied index.  PD (`RaftModel/ProtoDisc.lean`) tracks the applied
index and the leader's `pending_conf_index` and enforces only what single library calls of raft-rs
enforce (`advance_apply_to`, `Raft::new`, `hup`, the `pending_conf_index` gate of `step_leader`,
`become_leader`, the commit field of `MsgAppend`, `handle_append_entries`).
`RaftProofs/ProtoDisc.lean` proves that on every reachable state of PD the local conditions of PC —
all but the lookup of the configuration in the version table — are implied
(`win_local_redundant`, `commit_local_redundant`, `read_local_redundant`), so every PD history is a PC
history (`reach_pc`), hence a P history.

Here: the headline theorems (C01, C02, C03, C04, C08, C15) restated over PD — one-line corollaries
through `reach_pc` — and concrete PD histories: a membership change carried through with `apply`, a
later `campaign` / `win` / `commitLeader` under version 1, and the single-call guards refusing.
-/
namespace RaftProps.DiscLayer
open RaftModel.P RaftProps.CfgLayer
open RaftProps.C01 (Reports)

/-! ### PD histories are PC histories -/

/-- continuations of a PD history -/
inductive StepsD : DSys → DSys → Prop where
  | refl (D : DSys) : StepsD D D
  | tail {D D' D'' : DSys} (e : DEvent) : StepsD D D' → applyEventD D' e = .ok D'' → StepsD D D''

theorem reachPD_of_stepsD {D D' : DSys} (hr : ReachPD D) (h : StepsD D D') : ReachPD D' := by
  induction h with
  | refl => exact hr
  | tail e _ hs ih => exact .step e ih hs

theorem stepsD_pc {D D' : DSys} (h : StepsD D D') : StepsC D.pc D'.pc := by
  induction h with
  | refl => exact .refl _
  | tail e _ hs ih =>
    rcases stepD_steps hs with h1 | ⟨e', h1⟩ | ⟨e1, e2, S, h1, h2⟩
    · rw [h1]; exact ih
    · exact .tail e' ih h1
    · exact .tail e2 (.tail e1 ih h1) h2

/-- a run of PD projects to a run of PC -/
theorem runD_pc : ∀ (es : List DEvent) (D D' : DSys), runD D es = .ok D' →
    ∃ es', runC D.pc es' = .ok D'.pc := by
  intro es
  induction es with
  | nil => intro D D' h; simp only [runD] at h; cases h; exact ⟨[], rfl⟩
  | cons e es ih =>
    intro D D' h
    simp only [runD] at h
    split at h
    · rename_i D1 h1
      obtain ⟨es1, hes1⟩ := ih D1 D' h
      rcases stepD_steps h1 with hb | ⟨e', hb⟩ | ⟨e1, e2, S, hb1, hb2⟩
      · rw [hb] at hes1; exact ⟨es1, hes1⟩
      · refine ⟨e' :: es1, ?_⟩
        simp only [runC, hb]; exact hes1
      · refine ⟨e1 :: e2 :: es1, ?_⟩
        simp only [runC, hb1, hb2]; exact hes1
    · cases h

theorem reachPD_runD : ∀ (es : List DEvent) (D D' : DSys), ReachPD D → runD D es = .ok D' → ReachPD D' := by
  intro es
  induction es with
  | nil => intro D D' hr h; simp only [runD] at h; cases h; exact hr
  | cons e es ih =>
    intro D D' hr h
    simp only [runD] at h
    split at h
    · rename_i D1 h1; exact ih D1 D' (.step e hr h1) h
    · cases h

/-! ### PC's local conditions are implied -/

/-- the local condition of PC's `win`, for the tracked applied index: only the table lookup is left -/
theorem win_local (D : DSys) (hr : ReachPD D) (i : Nat) (cfg : Cfg) (q : List Nat)
    (hcore : winCore D.pc.base i cfg q = true)
    (htab : D.pc.vtab[confCount ((D.pc.base.nodes i).log.take (D.applied i))]? = some cfg) :
    winLocal D.pc i cfg (D.applied i) :=
  (winLocalB_iff _ _ _ _).1 (win_local_redundant D hr i cfg q hcore htab)

theorem commit_local (D : DSys) (hr : ReachPD D) (i c : Nat) (cfg : Cfg) (q : List Nat)
    (hcore : commitCore D.pc.base i c cfg q = true)
    (htab : D.pc.vtab[confCount ((D.pc.base.nodes i).log.take (D.applied i))]? = some cfg) :
    commitLocal D.pc i c cfg (D.applied i) :=
  (commitLocalB_iff _ _ _ _ _).1 (commit_local_redundant D hr i c cfg q hcore htab)

theorem read_local (D : DSys) (hr : ReachPD D) (i rid idx : Nat) (cfg : Cfg)
    (hcore : respCore D.pc.base i rid idx cfg = true)
    (htab : D.pc.vtab[confCount ((D.pc.base.nodes i).log.take (D.applied i))]? = some cfg) :
    readLocal D.pc i cfg (D.applied i) :=
  ⟨(read_local_redundant D hr i rid idx cfg hcore htab).1, htab,
    (read_local_redundant D hr i rid idx cfg hcore htab).2⟩

/-- PD refuses a `win` only for a wrong applied index, a wrong configuration, or P's own local guard -/
theorem win_accepts (D : DSys) (hr : ReachPD D) (i : Nat) (cfg : Cfg) (q : List Nat) (applied : Nat) :
    (∃ D', applyEventD D (.win i cfg q applied) = .ok D') ↔
      (applied = D.applied i ∧
       D.pc.vtab[confCount ((D.pc.base.nodes i).log.take (D.applied i))]? = some cfg ∧
       winCore D.pc.base i cfg q = true) :=
  winD_accepts_iff D hr i cfg q applied

theorem commit_accepts (D : DSys) (hr : ReachPD D) (i c : Nat) (cfg : Cfg) (q : List Nat) (applied : Nat) :
    (∃ D', applyEventD D (.commitLeader i c cfg q applied) = .ok D') ↔
      (applied = D.applied i ∧
       D.pc.vtab[confCount ((D.pc.base.nodes i).log.take (D.applied i))]? = some cfg ∧
       commitCore D.pc.base i c cfg q = true) :=
  commitD_accepts_iff D hr i c cfg q applied

theorem resp_accepts (D : DSys) (hr : ReachPD D) (i rid idx : Nat) (cfg : Cfg) (applied : Nat) :
    (∃ D', applyEventD D (.resp i rid idx cfg applied) = .ok D') ↔
      (applied = D.applied i ∧
       D.pc.vtab[confCount ((D.pc.base.nodes i).log.take (D.applied i))]? = some cfg ∧
       respCore D.pc.base i rid idx cfg = true) :=
  respD_accepts_iff D hr i rid idx cfg applied

/-! ### C01 — state-machine safety -/

theorem C01_state_machine_safety (D : DSys) (hr : ReachPD D) (i j k : Nat) (hk : 0 < k)
    (hi : k ≤ (D.pc.base.nodes i).commit) (hj : k ≤ (D.pc.base.nodes j).commit) :
    (D.pc.base.nodes i).log[k - 1]? = (D.pc.base.nodes j).log[k - 1]? :=
  CfgLayer.C01_state_machine_safety D.pc (reach_pc hr) i j k hk hi hj

theorem C01_committed_prefixes_agree (D : DSys) (hr : ReachPD D) (i j : Nat) :
    (D.pc.base.nodes i).log.take (min (D.pc.base.nodes i).commit (D.pc.base.nodes j).commit) =
      (D.pc.base.nodes j).log.take (min (D.pc.base.nodes i).commit (D.pc.base.nodes j).commit) :=
  CfgLayer.C01_committed_prefixes_agree D.pc (reach_pc hr) i j

theorem C01_agree_durable (D : DSys) (hr : ReachPD D) (i j k : Nat)
    (hi : k ≤ (D.pc.base.nodes i).commit) (hj : k ≤ (D.pc.base.nodes j).dcommit) :
    (D.pc.base.nodes i).log.take k = (D.pc.base.nodes j).dlog.take k :=
  CfgLayer.C01_agree_durable D.pc (reach_pc hr) i j k hi hj

/-- what the application has applied is committed, so any two nodes agree on every applied index -/
theorem C01_applied_agree (D : DSys) (hr : ReachPD D) (i j k : Nat) (hk : 0 < k)
    (hi : k ≤ D.applied i) (hj : k ≤ D.applied j) :
    (D.pc.base.nodes i).log[k - 1]? = (D.pc.base.nodes j).log[k - 1]? :=
  C01_state_machine_safety D hr i j k hk (Nat.le_trans hi (applied_le_commit D hr i))
    (Nat.le_trans hj (applied_le_commit D hr j))

theorem C01_never_reports_differently (D D' : DSys) (hr : ReachPD D) (hs : StepsD D D') (k : Nat)
    (e e' : LEntry) (h : Reports D.pc.base k e) (h' : Reports D'.pc.base k e') : e = e' :=
  CfgLayer.C01_never_reports_differently D.pc D'.pc (reach_pc hr) (stepsD_pc hs) k e e' h h'

theorem C01_full : ∀ (D D' : DSys), ReachPD D → (∃ es, runD D es = .ok D') → ∀ k e e',
    Reports D.pc.base k e → Reports D'.pc.base k e' → e = e' := by
  intro D D' hr ⟨es, hes⟩ k e e' h h'
  exact CfgLayer.C01_full D.pc D'.pc (reach_pc hr) (runD_pc es D D' hes) k e e' h h'

/-! ### C02 — election safety -/

theorem C02_election_safety (D : DSys) (hr : ReachPD D) (t a b : Nat)
    (ha : (t, a) ∈ D.pc.base.elected) (hb : (t, b) ∈ D.pc.base.elected) : a = b :=
  CfgLayer.C02_election_safety D.pc (reach_pc hr) t a b ha hb

theorem C02_one_leader_per_term (D : DSys) (hr : ReachPD D) (i j : Nat)
    (hi : (D.pc.base.nodes i).role = 2) (hj : (D.pc.base.nodes j).role = 2)
    (ht : (D.pc.base.nodes i).term = (D.pc.base.nodes j).term) : i = j :=
  CfgLayer.C02_one_leader_per_term D.pc (reach_pc hr) i j hi hj ht

theorem C02_one_vote_per_term_ever (D : DSys) (hr : ReachPD D) (g1 g2 : Grant) (h1 : g1 ∈ D.pc.base.grants)
    (h2 : g2 ∈ D.pc.base.grants) (ht : g1.term = g2.term) (hv : g1.voter = g2.voter) : g1.cand = g2.cand :=
  CfgLayer.C02_one_vote_per_term_ever D.pc (reach_pc hr) g1 g2 h1 h2 ht hv

theorem C02_full : ∀ (D : DSys), ReachPD D → ∀ t a b, (t, a) ∈ D.pc.base.elected → (t, b) ∈ D.pc.base.elected → a = b :=
  fun D hr => CfgLayer.C02_full D.pc (reach_pc hr)

/-! ### C03 — leader completeness -/

theorem C03_leader_completeness (D : DSys) (hr : ReachPD D) (p : Nat × Nat) (hp : p ∈ D.pc.base.cmts) (t' : Nat)
    (hlt : p.1 < t') (hel : ∃ j, (t', j) ∈ D.pc.base.elected) :
    (D.pc.base.llog t').take p.2 = (D.pc.base.llog p.1).take p.2 :=
  CfgLayer.C03_leader_completeness D.pc (reach_pc hr) p hp t' hlt hel

theorem C03_leader_holds_committed (D : DSys) (hr : ReachPD D) (i : Nat) (hi : (D.pc.base.nodes i).role = 2)
    (p : Nat × Nat) (hp : p ∈ D.pc.base.cmts) (ht : p.1 ≤ (D.pc.base.nodes i).term) :
    (D.pc.base.nodes i).log.take p.2 = (D.pc.base.llog p.1).take p.2 :=
  CfgLayer.C03_leader_holds_committed D.pc (reach_pc hr) i hi p hp ht

theorem C03_elected_with_committed (D : DSys) (hr : ReachPD D) (p : Nat × Nat) (hp : p ∈ D.pc.base.cmts) (t : Nat)
    (ht : p.1 < t) (hel : ∃ j, (t, j) ∈ D.pc.base.elected) :
    (D.pc.base.elog t).take p.2 = (D.pc.base.llog p.1).take p.2 :=
  CfgLayer.C03_elected_with_committed D.pc (reach_pc hr) p hp t ht hel

theorem C03_full : ∀ (D : DSys), ReachPD D → ∀ i, (D.pc.base.nodes i).role = 2 → ∀ p ∈ D.pc.base.cmts,
    p.1 ≤ (D.pc.base.nodes i).term → (D.pc.base.nodes i).log.take p.2 = (D.pc.base.llog p.1).take p.2 :=
  fun D hr => CfgLayer.C03_full D.pc (reach_pc hr)

theorem C03_commit_evidence_versioned (D : DSys) (hr : ReachPD D) (x : (Nat × Nat) × Nat) (hx : x ∈ D.pc.cvs) :
    x.1 ∈ D.pc.base.cmts ∧ ∃ cfg q, D.pc.vtab[x.2]? = some cfg ∧ cfg.isQuorum q = true ∧
      ∀ v ∈ q, ∃ a ∈ D.pc.base.acks, a.term = x.1.1 ∧ a.frm = v ∧ x.1.2 ≤ a.idx :=
  CfgLayer.C03_commit_evidence_versioned D.pc (reach_pc hr) x hx

/-! ### C04 — commit soundness and durability -/

theorem C04_commit_within_leader_commit (D : DSys) (hr : ReachPD D) (i : Nat) (h0 : 0 < (D.pc.base.nodes i).commit) :
    ∃ p ∈ D.pc.base.cmts, (D.pc.base.nodes i).commit ≤ p.2 ∧ p.1 ≤ (D.pc.base.nodes i).term ∧
      (D.pc.base.nodes i).log.take (D.pc.base.nodes i).commit = (D.pc.base.llog p.1).take (D.pc.base.nodes i).commit :=
  CfgLayer.C04_commit_within_leader_commit D.pc (reach_pc hr) i h0

theorem C04_committed_durable_on_quorum (D : DSys) (hr : ReachPD D) (p : Nat × Nat) (hp : p ∈ D.pc.base.cmts) :
    ∃ cfg q, (p, cfg) ∈ D.pc.base.ccfgs ∧ cfg.isQuorum q = true ∧
      ∀ v ∈ q, (D.pc.base.nodes v).dlog.take p.2 = (D.pc.base.llog p.1).take p.2 :=
  CfgLayer.C04_committed_durable_on_quorum D.pc (reach_pc hr) p hp

theorem C04_survives_minority_crash (D : DSys) (hr : ReachPD D) (p : Nat × Nat) (hp : p ∈ D.pc.base.cmts) :
    ∃ cfg, (p, cfg) ∈ D.pc.base.ccfgs ∧ ∀ (c' : Cfg) (alive : List Nat), adjOk c' cfg = true →
      c'.isQuorum alive = true → ∃ v ∈ alive, (D.pc.base.nodes v).dlog.take p.2 = (D.pc.base.llog p.1).take p.2 :=
  CfgLayer.C04_survives_minority_crash D.pc (reach_pc hr) p hp

theorem C04_full : ∀ (D : DSys), ReachPD D → ∀ i j k,
    k ≤ (D.pc.base.nodes i).commit → k ≤ (D.pc.base.nodes j).commit →
      (D.pc.base.nodes i).log.take k = (D.pc.base.nodes j).log.take k :=
  fun D hr => CfgLayer.C04_full D.pc (reach_pc hr)

/-! ### C08 — read index -/

theorem C08_read_state_safe (D : DSys) (hr : ReachPD D) (d : ReadResp) (hd : d ∈ D.pc.base.rd.done) :
    SafeAnswer D.pc.base d :=
  CfgLayer.C08_read_state_safe D.pc (reach_pc hr) d hd

theorem C08_response_safe (D : DSys) (hr : ReachPD D) (d : ReadResp) (hd : d ∈ D.pc.base.rd.resps) :
    SafeAnswer D.pc.base d :=
  CfgLayer.C08_response_safe D.pc (reach_pc hr) d hd

/-- linearizability of Safe ReadIndex over PD runs -/
theorem C08_full : ∀ (D0 D1 D2 : DSys), ReachPD D0 → ∀ i rid,
    applyEventD D0 (.pc (.base (.read (.issue i rid)))) = .ok D1 →
    ∀ es, runD D1 es = .ok D2 → ∀ d ∈ D2.pc.base.rd.done, d.rid = rid →
      d.to = i ∧ ∀ j, (D0.pc.base.nodes j).commit ≤ d.idx := by
  intro D0 D1 D2 hr i rid hissue es hrun d hd hrid
  obtain ⟨_, S, hS, hD1⟩ := stepD_pc hissue
  subst hD1
  obtain ⟨es', hes'⟩ := runD_pc es _ D2 hrun
  exact CfgLayer.C08_full D0.pc S D2.pc (reach_pc hr) i rid hS es' hes' d hd hrid

/-! ### C15 — snapshots -/

theorem C15_snapshot_is_committed_prefix (D : DSys) (hr : ReachPD D) (m : Snap) (hm : m ∈ D.pc.base.snaps) (i : Nat)
    (hi : m.idx ≤ (D.pc.base.nodes i).commit) : (D.pc.base.nodes i).log.take m.idx = m.pre :=
  CfgLayer.C15_snapshot_is_committed_prefix D.pc (reach_pc hr) m hm i hi

theorem C15_snapshot_entries_committed (D : DSys) (hr : ReachPD D) (m : Snap) (hm : m ∈ D.pc.base.snaps) (k : Nat)
    (hk : 0 < k) (hi : k ≤ m.idx) : ∃ e, m.pre[k - 1]? = some e ∧ Committed D.pc.base k e :=
  CfgLayer.C15_snapshot_entries_committed D.pc (reach_pc hr) m hm k hk hi

theorem C15_full : ∀ (D : DSys), ReachPD D → ∀ m ∈ D.pc.base.snaps, ∀ i,
    m.idx ≤ (D.pc.base.nodes i).commit → (D.pc.base.nodes i).log.take m.idx = m.pre :=
  fun D hr => CfgLayer.C15_full D.pc (reach_pc hr)

/-! ### the configuration table -/

theorem versions_adjacent (D : DSys) (hr : ReachPD D) (a b : Nat) (ca cb : Cfg) (ha : D.pc.vtab[a]? = some ca)
    (hb : D.pc.vtab[b]? = some cb) (h1 : a ≤ b + 1) (h2 : b ≤ a + 1) (qa qb : List Nat)
    (hqa : ca.isQuorum qa = true) (hqb : cb.isQuorum qb = true) : ∃ v, v ∈ qa ∧ v ∈ qb :=
  CfgLayer.versions_adjacent D.pc (reach_pc hr) a b ca cb ha hb h1 h2 qa qb hqa hqb

/-! ### non-vacuity: a three-voter group elects node 1, which appends and commits a membership-change
entry adding a fourth voter; nodes 1 and 2 apply it (`apply`, then `applyConf`: version 1); the leader
commits under version 1; node 2 campaigns (its committed membership change is applied), wins under
version 1 (three of four voters), appends an entry of term 2 and commits it under version 1 -/

def e3 : LEntry := ⟨2, 0, 8⟩

/-- an event of P that PD does not refine -/
def b (e : Event) : DEvent := .pc (.base e)

def histD : List DEvent :=
  [.pc (.cfgInit c3),
   b (.bump 1 1), .campaign 1, b (.rdy 1), b (.persist 1 1), b (.release 1 (.grant 1 1 1 {})),
   b (.release 1 (.voteReq 1 1 0 0)),
   b (.bump 2 1), b (.grant 2 1), b (.rdy 2), b (.persist 2 1), b (.release 2 (.grant 1 2 1 {})),
   .win 1 c3 [1, 2] 0,
   .leaderAppend 1 eC, b (.ackSelf 1 1), b (.rdy 1), b (.persist 1 1), b (.release 1 (.ack 1 1 1 [])),
   .sendApp 1 ⟨1, 1, 0, 0, [eC], 0⟩,
   .recvAppC 2 ⟨1, 1, 0, 0, [eC], 0⟩, b (.rdy 2), b (.persist 2 1), b (.release 2 (.ack 1 2 1 [])),
   .commitLeader 1 1 c3 [1, 2] 0,
   .apply 1 1, .pc (.applyConf 1 1 c4),
   .leaderAppend 1 e2, b (.ackSelf 1 2), b (.rdy 1), b (.persist 1 1), b (.release 1 (.ack 1 1 2 [])),
   .sendApp 1 ⟨1, 1, 1, 1, [e2], 1⟩,
   .recvAppC 2 ⟨1, 1, 1, 1, [e2], 1⟩,
   b (.rdy 2), b (.persist 2 1), b (.release 2 (.ack 1 2 2 [])),
   .apply 2 1, .pc (.applyConf 2 1 c4),
   .sendApp 1 ⟨1, 1, 0, 0, [eC, e2], 1⟩,
   b (.bump 3 1), .recvAppC 3 ⟨1, 1, 0, 0, [eC, e2], 1⟩, b (.rdy 3), b (.persist 3 1),
   b (.release 3 (.ack 1 3 2 [])),
   .commitLeader 1 2 c4 [1, 2, 3] 1,
   b (.bump 2 2), .campaign 2, b (.rdy 2), b (.persist 2 1), b (.release 2 (.grant 2 2 2 {})),
   b (.release 2 (.voteReq 2 2 0 0)),
   b (.bump 3 2), b (.grant 3 2), b (.rdy 3), b (.persist 3 1), b (.release 3 (.grant 2 3 2 {})),
   b (.bump 1 2), b (.grant 1 2), b (.rdy 1), b (.persist 1 1), b (.release 1 (.grant 2 1 2 {})),
   .win 2 c4 [2, 3, 1] 1,
   .leaderAppend 2 e3, b (.ackSelf 2 3), b (.rdy 2), b (.persist 2 1), b (.release 2 (.ack 2 2 3 [])),
   .sendApp 2 ⟨2, 2, 2, 1, [e3], 1⟩,
   .recvAppC 3 ⟨2, 2, 2, 1, [e3], 1⟩, b (.rdy 3), b (.persist 3 1), b (.release 3 (.ack 2 3 3 [])),
   .recvAppC 1 ⟨2, 2, 2, 1, [e3], 1⟩, b (.rdy 1), b (.persist 1 1), b (.release 1 (.ack 2 1 3 [])),
   .commitLeader 2 3 c4 [2, 3, 1] 1]

/-- the history is accepted: the table holds versions 0 and 1; the elections were decided under
versions 0 and 1, the commits under versions 0, 1 and 1; nodes 1 and 2 have applied index 1; the
`pending_conf_index` of node 1 is the index of its membership-change entry, that of node 2 its last
index when it won; `recvAppC` advanced the followers' commit indexes -/
example : (match runD dinit histD with
    | .ok D => decide (D.pc.vtab = [c3, c4]) && decide (D.pc.evs = [(2, 1), (1, 0)]) &&
        decide (D.pc.cvs = [((2, 3), 1), ((1, 2), 1), ((1, 1), 0)]) &&
        decide ((List.range 5).map D.applied = [0, 1, 1, 0, 0]) &&
        decide ((List.range 5).map D.pconf = [0, 1, 2, 0, 0]) &&
        decide ((List.range 5).map (fun i => (D.pc.base.nodes i).commit) = [0, 2, 3, 1, 0]) &&
        decide ((D.pc.base.nodes 2).role = 2) && decide (D.pc.base.elected = [(2, 2), (1, 1)]) &&
        decide (D.pc.base.ecfgs = [(2, c4), (1, c3)])
    | .error _ => false) = true := by decide

/-- so the final state is a reachable state of PD, and everything above applies to it -/
theorem histD_reach : ∀ D, runD dinit histD = .ok D → ReachPD D :=
  fun D h => reachPD_runD histD dinit D .init h

/-! ### the single-call guards bite -/

/-- (a) `Raft::hup`: node 2 holds the committed membership-change entry (commit index 1) but has not
applied it: `campaign` is refused — PC itself would let the node campaign — and accepted after `apply` -/
example : (match runD dinit (histD.take 33 ++ [b (.bump 2 2), .campaign 2]) with
    | .ok _ => "campaigns" | .error _ => "refused") = "refused" := by decide
example : (match runD dinit (histD.take 33 ++ [b (.bump 2 2)]) with
    | .ok D => (D.applied 2, (D.pc.base.nodes 2).commit, confCount ((D.pc.base.nodes 2).log.take 1),
                (match applyEventC D.pc (.base (.campaign 2)) with | .ok _ => true | .error _ => false))
    | .error _ => (9, 9, 9, false)) = (0, 1, 1, true) := by decide
example : (match runD dinit (histD.take 33 ++ [b (.bump 2 2), .apply 2 1, .campaign 2]) with
    | .ok _ => "campaigns" | .error _ => "refused") = "campaigns" := by decide

/-- (b) `pending_conf_index`: a second membership-change entry is refused while the first is not
applied — right after the first was appended, and still after it was committed — and accepted once
it is applied; PC itself would accept the second entry (cf. `histB` of `CfgLayer`) -/
example : (match runD dinit (histD.take 14 ++ [.leaderAppend 1 eC']) with
    | .ok _ => "appended" | .error _ => "refused") = "refused" := by decide
example : (match runD dinit (histD.take 24 ++ [.leaderAppend 1 eC']) with
    | .ok _ => "appended" | .error _ => "refused") = "refused" := by decide
example : (match runD dinit (histD.take 14) with
    | .ok D => (D.pconf 1, D.applied 1,
                (match applyEventC D.pc (.base (.leaderAppend 1 eC')) with | .ok _ => true | .error _ => false))
    | .error _ => (9, 9, false)) = (1, 0, true) := by decide
example : (match runD dinit (histD.take 25 ++ [.leaderAppend 1 eC']) with
    | .ok D => D.pconf 1 | .error _ => 99) = 2 := by decide
/-- an ordinary entry is not gated -/
example : (match runD dinit (histD.take 14 ++ [.leaderAppend 1 e2]) with
    | .ok D => D.pconf 1 | .error _ => 99) = 1 := by decide

/-- (c) `prepare_send_entries`: a `MsgAppend` with a stale commit field (0 while the leader's commit
index is 1) is refused; P and PC allow any commit field up to the leader's -/
example : (match runD dinit (histD.take 31 ++ [.sendApp 1 ⟨1, 1, 1, 1, [e2], 0⟩]) with
    | .ok _ => "sent" | .error _ => "refused") = "refused" := by decide
example : (match runD dinit (histD.take 31) with
    | .ok D => ((D.pc.base.nodes 1).commit,
                (match applyEventC D.pc (.base (.sendApp 1 ⟨1, 1, 1, 1, [e2], 0⟩)) with | .ok _ => true | .error _ => false))
    | .error _ => (9, false)) = (1, true) := by decide

/-- (d) `advance_apply_to`: the applied index cannot pass the commit index, nor go backwards -/
example : (match runD dinit (histD.take 24 ++ [.apply 1 2]) with
    | .ok _ => "applied" | .error _ => "refused") = "refused" := by decide
example : (match runD dinit (histD.take 14 ++ [.apply 1 1]) with
    | .ok _ => "applied" | .error _ => "refused") = "refused" := by decide
example : (match runD dinit (histD.take 25 ++ [.apply 1 0]) with
    | .ok _ => "applied" | .error _ => "refused") = "refused" := by decide

/-- `Raft::new`: a node is not restarted with an applied index beyond its durable commit index -/
example : (match runD dinit (histD.take 24 ++ [b (.crash 1), .restart 1 1]) with
    | .ok _ => "restarted" | .error _ => "refused") = "refused" := by decide
example : (match runD dinit (histD.take 24 ++ [b (.crash 1), .restart 1 0]) with
    | .ok D => (D.applied 1, (D.pc.base.nodes 1).commit) | .error _ => (9, 9)) = (0, 0) := by decide

/-- `win` must report the tracked applied index; the refined events of PC / P are not events of PD -/
example : (match runD dinit (histD.take 12 ++ [.win 1 c3 [1, 2] 1]) with
    | .ok _ => "elected" | .error _ => "refused") = "refused" := by decide
example : (match runD dinit (histD.take 12 ++ [.pc (.win 1 c3 [1, 2] 0)]) with
    | .ok _ => "elected" | .error _ => "refused") = "refused" := by decide
example : (match runD dinit (histD.take 19 ++ [b (.recvApp 2 ⟨1, 1, 0, 0, [eC], 0⟩)]) with
    | .ok _ => "received" | .error _ => "refused") = "refused" := by decide

/-- the configuration of the tracked version is still checked at run time: after `apply` the leader
commits under version 1, not under version 0 -/
example : (match runD dinit (histD.take 44 ++ [.commitLeader 1 2 c3 [1, 2] 1]) with
    | .ok _ => "committed" | .error _ => "refused") = "refused" := by decide

end RaftProps.DiscLayer
