import RaftProofs.ClusterCommit6C
import RaftProps.C01d
import RaftProps.C01f

/-!
# C01 / C03 / C04, cluster level, with `batch_append` allowed **and `MsgSnapshot`s queued** (`nosq` of C01f weakened)

`RaftProps/C01f.lean` proves the commit layer of `ClusterSem` with `batch_append` allowed under `Hyp3wB`,
which — compared with C01d's `Hyp3w` — adds `nosq` ("no `MsgSnapshot` is ever *queued*") and `c0 = 0`.
This file states **the same theorems under `Hyp3wK`** (`RaftProofs/ClusterCommit6B.lean`): the fields of
`Hyp3wB` without the redundant `mv`, and with `nosq` replaced by

    mute : (∀ s ∈ h, NoBatch s) ∨ (∀ s ∈ h, SaneQ s)

where `SaneQ s` says: a node of `s` **that has a `MsgSnapshot` in its queue** (a *mute* node: under `nosnap`
it cannot `send` before it restarts) has no `MsgAppend` with `log_term = 0` at an anchor `≠ 0` in its
queue.  `nosq` makes `SaneQ` vacuous (`C01k_subsumes_C01f`), and **every C01d history with `c0 = 0` is
covered, queued `MsgSnapshot`s or not** (`C01k_subsumes_C01d`, first alternative).

What was done about `nosq`.  Its only use in the C01f development is `sane_of_ci`
(`ClusterCommit5c4J.lean`): the cluster invariant `CI` of C01f already carries C01d's alternative
"… or a `MsgSnapshot` is queued next to it"; `nosq` removes it to hand C05d's `SaneAnchors` (which has no
such alternative) to the Log Matching layer with batching.  So C05d's hypothesis was only ever *assumed*
at the mute nodes, and is derived everywhere else (`ClusterCommit6A.lean`: `sane_of_ciK`, `ci_allK`,
`Hyp3wQ.toHyp3aB`).  What remains — `SaneQ` when somebody batches — is **not removable by carrying the
disjunction alone**: C05d's invariant `InvL` speaks about *every* queue, and at a mute leader whose
progress was taken beyond its log by `report_snapshot` (`C01d_progress_within_log`, first alternative) a
`MsgAppend` anchored in the void can be queued and glued by `try_batching`, which falsifies `InvL` at that
queue (harmlessly: the queue never reaches the transport).  Removing `SaneQ` needs a copy of the C05 / C05d
layer whose `InvL` skips the queues of mute nodes (or the `request_snapshot` invariant of C01i, which
bounds `pending_snapshot` by the log) — see `RaftProps/C01k.REPORT.md`.  `c0 = 0` is kept.
-/
namespace RaftProps.C01k
open RaftModel RaftModel.Cluster RaftModel.ClusterB RaftModel.Node RaftModel.Raft RaftModel.Raft.CC
  RaftModel.Raft.CP

/-- **C01f is a special case**: `nosq` makes `SaneQ` vacuous -/
theorem C01k_subsumes_C01f {cfg : JointConfig} {c0 : Nat} {h : List Sys} (H : Hyp3wB cfg c0 h) :
    Hyp3wK cfg c0 h := Hyp3wK.of_hyp3wB H

/-- **C01d with `c0 = 0` is a special case** — *every* history under C01d's `Hyp3w` whose nodes start
without a snapshot point, with no assumption about queued `MsgSnapshot`s (C01f's `Hyp3w.toHyp3wB` needed
`nosq`) -/
theorem C01k_subsumes_C01d {cfg : JointConfig} {h : List Sys} (H : Hyp3w cfg 0 h) :
    Hyp3wK cfg 0 h := Hyp3wK.of_hyp3w H

/-- … and with batching: C01d's bundle without `NoBatch` (`Hyp3wQ`: the fields of `Hyp3wB` with `nosq`
replaced by `SaneQ` in every state) -/
theorem C01k_of_saneQ {cfg : JointConfig} {c0 : Nat} {h : List Sys} (H : Hyp3wQ cfg c0 h) :
    Hyp3wK cfg c0 h := Hyp3wK.of_hyp3wQ H

/-- a history under `Hyp3wK` is a history of C01d (nobody batches) or one under `Hyp3wQ` -/
theorem C01k_cases {cfg : JointConfig} {c0 : Nat} {h : List Sys} (H : Hyp3wK cfg c0 h) :
    Hyp3w cfg c0 h ∨ Hyp3wQ cfg c0 h := H.cases

/-- **the former gap `anch`, with batching and queued `MsgSnapshot`s**: every `MsgAppend` in the transport
is anchored inside its sender's log — and so is every queued one unless a `MsgSnapshot` is queued with
it (the statement of `C01d_appends_anchored`). -/
theorem C01k_appends_anchored (cfg : JointConfig) (c0 : Nat) (h : List Sys) (H : Hyp3wK cfg c0 h)
    (n : Nat) (s : Sys) (hn : h[n]? = some s) :
    (∀ x ∈ s.net, x.msgType = .msgAppend → x.logTerm ≠ 0 ∨ x.index ≤ c0) ∧
    (∀ i st, s.node i = some st → ∀ x ∈ st.raft.msgs, x.msgType = .msgAppend →
      (∃ y ∈ st.raft.msgs, y.msgType = .msgSnapshot) ∨ x.logTerm ≠ 0 ∨ x.index ≤ c0) := by
  rcases H.cases with Hd | Hq
  · exact RaftProps.C01d.C01d_appends_anchored cfg c0 h Hd n s hn
  · exact ⟨(ci_allK Hq n s hn).na, (ci_allK Hq n s hn).qa⟩

/-- **C05d's `SaneAnchors`, derived wherever it is not assumed**: no `MsgAppend` in the transport is
anchored in the void, and none queued at a node that has no `MsgSnapshot` queued. -/
theorem C01k_sane_anchors (cfg : JointConfig) (c0 : Nat) (h : List Sys) (H : Hyp3wK cfg c0 h)
    (n : Nat) (s : Sys) (hn : h[n]? = some s) :
    (∀ x ∈ s.net, x.msgType = .msgAppend → x.logTerm = 0 → x.index = 0) ∧
    (∀ i st, s.node i = some st → (∀ y ∈ st.raft.msgs, y.msgType ≠ .msgSnapshot) →
      ∀ x ∈ st.raft.msgs, x.msgType = .msgAppend → x.logTerm = 0 → x.index = 0) := by
  obtain ⟨h1, h2⟩ := C01k_appends_anchored cfg c0 h H n s hn
  have hz := H.c0z
  refine ⟨fun x hx hty hz => ?_, fun i st hi hns x hx hty hz => ?_⟩
  · rcases h1 x hx hty with c | c
    · exact absurd hz c
    · omega
  · rcases h2 i st hi x hx hty with ⟨y, hy, hys⟩ | c | c
    · exact absurd hys (hns y hy)
    · exact absurd hz c
    · omega

/-- … hence every theorem of `RaftProps/C05d.lean` (Log Matching with batching) applies: `BatchOk`
(first alternative if nobody batches; otherwise `SaneAnchors` holds in every state — derived at the
nodes without a queued `MsgSnapshot`, `SaneQ` at the others). -/
theorem C01k_batchOk (cfg : JointConfig) (c0 : Nat) (h : List Sys) (H : Hyp3wK cfg c0 h) :
    RaftProps.C05.BatchOk cfg h := by
  rcases H.cases with Hd | Hq
  · exact .inl Hd.nb
  · exact Hq.toHyp3aB.toHypB.batchOk

/-- **the clean-queue invariant of the commit layer** (`C01f_leader_queue_clean`) under `Hyp3wQ` -/
theorem C01k_leader_queue_clean (cfg : JointConfig) (c0 : Nat) (h : List Sys) (H : Hyp3wQ cfg c0 h)
    (n : Nat) (s : Sys) (hn : h[n]? = some s) (i : Nat) (st : NState) (hi : s.node i = some st)
    (hl : st.raft.state = .leader) (x : Message) (hx : x ∈ st.raft.msgs)
    (hty : x.msgType = .msgAppend) :
    x.term = st.raft.term ∧ x.frm = i ∧ st.raft.raftLog.term x.index = .ok x.logTerm ∧
    ContigFrom (x.index + 1) x.entries ∧ Sub (msgLog x) st.raft.raftLog.abs :=
  leader_queueB H.toHyp3aB.toHyp2wB hn hi hl hx hty

end RaftProps.C01k

namespace RaftModel.ClusterB
open RaftModel RaftModel.Cluster RaftModel.Node RaftModel.Raft RaftModel.Raft.CC RaftProps.C01f

/-! ## the theorems of C01f under the bundle `Hyp3aB` of the main induction (proofs of `RaftProps/C01f.lean`) -/

/-- the logs of two commit events agree up to the smaller commit index (under `Hyp3aB`) -/
theorem _root_.RaftProps.C01k.ev_logs_agree_a {cfg : JointConfig} {c0 : Nat} {h : List Sys} (Ha : Hyp3aB cfg c0 h)
    {E1 E2 : Ev} (h1 : E1.ok h) (h2 : E2.ok h) (hle : E1.c ≤ E2.c) : EqUpTo E1.gE E2.gE E1.c := by
  have H2 := Ha.toHyp2wB
  obtain ⟨l1, hh1, _⟩ := Ev.leaderLog H2 h1
  obtain ⟨l2, _, _⟩ := Ev.leaderLog H2 h2
  have S := sall Ha (E1.nE + E2.nE + 2)
  have := ctf H2 S h2 h1 (by omega) hle (fun _ => ⟨E1.gE, l1.mono (by omega)⟩)
  exact ll_eq_below H2 l1 l2 hh1 this

/-- `C04_cluster_leader_commit_rule` under the bundle `Hyp3aB` of the main induction (the proof of `RaftProps/C01f.lean`) -/
theorem _root_.RaftProps.C01k.C04_cluster_leader_commit_rule_a (cfg : JointConfig) (c0 : Nat) (h : List Sys)
    (Ha : Hyp3aB cfg c0 h)
    (n : Nat) (a b : Sys) (ha : h[n]? = some a) (hb : h[n + 1]? = some b)
    (l : Nat) (sta stb : NState) (hla : a.node l = some sta) (hlb : b.node l = some stb)
    (t : Nat) (hs : stb.raft.state = .leader) (ht : stb.raft.term = t)
    (hc : sta.raft.raftLog.committed < stb.raft.raftLog.committed) :
    stb.raft.raftLog.term stb.raft.raftLog.committed = .ok t ∧
    ∃ Q, IsJointQuorum cfg Q ∧ ∀ j ∈ Q,
      (j = l ∧ stb.raft.raftLog.committed ≤ stb.raft.raftLog.persisted ∧
        ∀ k, k ≤ stb.raft.raftLog.committed →
          (storeLog stb.raft.raftLog.store).entryAt k = stb.raft.raftLog.abs.entryAt k) ∨
      ∃ x ∈ a.net, x.msgType = .msgAppendResponse ∧ x.reject = false ∧ x.frm = j ∧ x.term = t ∧
        stb.raft.raftLog.committed ≤ x.index ∧
        ∀ (m : Nat) (s : Sys) (stj : NState), h[m]? = some s → x ∈ s.net → s.node j = some stj →
          ∀ k, k ≤ stb.raft.raftLog.committed →
            (storeLog stj.raft.raftLog.store).entryAt k = stb.raft.raftLog.abs.entryAt k := by
  have H2 := Ha.toHyp2wB
  obtain ⟨h1, Q, hQ, hq⟩ := H2.toHypB.commit_step n a b ha hb l sta stb hla hlb hs hc
  subst ht
  have hE := ev_of_step ha hb hla hlb hs hc
  obtain ⟨_, hEh, hc0⟩ := Ev.leaderLog H2 hE
  have ob := node_okB H2 hb hlb
  refine ⟨h1, Q, hQ, fun j hj => ?_⟩
  rcases hq j hj with ⟨g1, g2⟩ | ⟨x, hx, hack, hfrm, hterm, hidx⟩
  · exact .inl ⟨g1, g2, fun k hk => (ob.inv.abs_store_persisted ob.snap (by omega)).symm⟩
  · right
    have hx0 : x.index ≠ 0 := by
      have : c0 < stb.raft.raftLog.committed := hc0
      omega
    have hterm' : x.term = stb.raft.term := by
      rcases hterm with d | d
      · exact d
      · exact absurd d ((ack_inv H2 n a ha).2 x hx hack hx0).2
    refine ⟨x, hx, hack.1, hack.2, hfrm, hterm', hidx, fun m s stj hm hxs hj k hk => ?_⟩
    have hh := (sm_all Ha hm).rets _ hE j stj hj (.inl ⟨x, hxs, hack, hfrm, hterm', hidx⟩)
    obtain ⟨e1, he1, ht1⟩ := hh
    obtain ⟨e2, he2, ht2⟩ := hEh
    have oj := node_okB H2 hm hj
    have hag := agree_all H2 m (n + 1) s b hm hb (.store j) (.log l) _ _ ⟨stj, hj, rfl⟩ (at_log hlb)
    exact eq_below hag (oj.ssnap.trans ob.snapIdx.symm) he1 he2 (ht1.trans ht2.symm) k hk

/-- `C03_cluster_leader_completeness` under the bundle `Hyp3aB` of the main induction (the proof of `RaftProps/C01f.lean`) -/
theorem _root_.RaftProps.C01k.C03_cluster_leader_completeness_a (cfg : JointConfig) (c0 : Nat) (h : List Sys)
    (Ha : Hyp3aB cfg c0 h)
    (n : Nat) (a b : Sys) (ha : h[n]? = some a) (hb : h[n + 1]? = some b)
    (l : Nat) (sta stb : NState) (hla : a.node l = some sta) (hlb : b.node l = some stb)
    (hs : stb.raft.state = .leader)
    (hc : sta.raft.raftLog.committed < stb.raft.raftLog.committed)
    (m : Nat) (s : Sys) (hm : h[m]? = some s) (l' : Nat) (st' : NState)
    (hl' : s.node l' = some st') (hs' : st'.raft.state = .leader)
    (ht : stb.raft.term < st'.raft.term) :
    ∀ k, k ≤ stb.raft.raftLog.committed →
      st'.raft.raftLog.abs.entryAt k = stb.raft.raftLog.abs.entryAt k := by
  have H2 := Ha.toHyp2wB
  have hE := ev_of_step ha hb hla hlb hs hc
  obtain ⟨hEl, hEh, _⟩ := Ev.leaderLog H2 hE
  have hh := (sm_all Ha hm).lc _ hE l' st' hl' hs' ht
  exact eq_ll H2 hm hl' hEl hh hEh

/-- `C04_cluster_follower_commit_sound` under the bundle `Hyp3aB` of the main induction (the proof of `RaftProps/C01f.lean`) -/
theorem _root_.RaftProps.C01k.C04_cluster_follower_commit_sound_a (cfg : JointConfig) (c0 : Nat) (h : List Sys)
    (Ha : Hyp3aB cfg c0 h) (m : Nat) (s : Sys) (hm : h[m]? = some s) (v : Nat) (st : NState)
    (hv : s.node v = some st) :
    st.raft.raftLog.committed ≤ c0 ∨
    ∃ (n : Nat) (a b : Sys) (l : Nat) (sta stb : NState), n < m ∧ h[n]? = some a ∧
      h[n + 1]? = some b ∧ a.node l = some sta ∧ b.node l = some stb ∧
      stb.raft.state = .leader ∧ sta.raft.raftLog.committed < stb.raft.raftLog.committed ∧
      st.raft.raftLog.committed ≤ stb.raft.raftLog.committed ∧ stb.raft.term ≤ st.raft.term ∧
      ∀ k, k ≤ st.raft.raftLog.committed →
        st.raft.raftLog.abs.entryAt k = stb.raft.raftLog.abs.entryAt k := by
  rcases (sm_all Ha hm).nctm v st hv with c | ⟨E, hE, h2, h3, h4, h5⟩
  · exact .inl c
  · right
    obtain ⟨a, b, sta, stb, ha, hb, hla, hlb, hs, ht, hc, e1, e2, _⟩ := hE
    exact ⟨E.nE, a, b, E.l, sta, stb, h2, ha, hb, hla, hlb, hs, hc, by rw [← e1]; exact h3,
      by rw [ht]; exact h4, by rw [← e2]; exact h5⟩

/-- `C04_cluster_stored_commit_sound` under the bundle `Hyp3aB` of the main induction (the proof of `RaftProps/C01f.lean`) -/
theorem _root_.RaftProps.C01k.C04_cluster_stored_commit_sound_a (cfg : JointConfig) (c0 : Nat) (h : List Sys)
    (Ha : Hyp3aB cfg c0 h) (m : Nat) (s : Sys) (hm : h[m]? = some s) (v : Nat) (st : NState)
    (hv : s.node v = some st) :
    st.raft.raftLog.store.hardState.commit ≤ st.raft.raftLog.committed ∧
    (st.raft.raftLog.store.hardState.commit ≤ c0 ∨
     ∃ (n : Nat) (a b : Sys) (l : Nat) (sta stb : NState), n < m ∧ h[n]? = some a ∧
      h[n + 1]? = some b ∧ a.node l = some sta ∧ b.node l = some stb ∧
      stb.raft.state = .leader ∧ sta.raft.raftLog.committed < stb.raft.raftLog.committed ∧
      st.raft.raftLog.store.hardState.commit ≤ stb.raft.raftLog.committed ∧
      stb.raft.term ≤ st.raft.raftLog.store.hardState.term ∧
      ∀ k, k ≤ st.raft.raftLog.store.hardState.commit →
        (storeLog st.raft.raftLog.store).entryAt k = stb.raft.raftLog.abs.entryAt k) := by
  refine ⟨(sm_all Ha hm).scm v st hv, ?_⟩
  rcases (sm_all Ha hm).ncts v st hv with c | ⟨E, hE, h2, h3, h4, h5⟩
  · exact .inl c
  · right
    obtain ⟨a, b, sta, stb, ha, hb, hla, hlb, hs, ht, hc, e1, e2, _⟩ := hE
    exact ⟨E.nE, a, b, E.l, sta, stb, h2, ha, hb, hla, hlb, hs, hc, by rw [← e1]; exact h3,
      by rw [ht]; exact h4, by rw [← e2]; exact h5⟩

/-- `C01_cluster_state_machine_safety` under the bundle `Hyp3aB` of the main induction (the proof of `RaftProps/C01f.lean`) -/
theorem _root_.RaftProps.C01k.C01_cluster_state_machine_safety_a (cfg : JointConfig) (c0 : Nat) (h : List Sys)
    (Ha : Hyp3aB cfg c0 h)
    (m1 : Nat) (s1 : Sys) (hm1 : h[m1]? = some s1) (v1 : Nat) (st1 : NState)
    (hv1 : s1.node v1 = some st1)
    (m2 : Nat) (s2 : Sys) (hm2 : h[m2]? = some s2) (v2 : Nat) (st2 : NState)
    (hv2 : s2.node v2 = some st2)
    (k : Nat) (hk1 : k ≤ st1.raft.raftLog.committed) (hk2 : k ≤ st2.raft.raftLog.committed) :
    st1.raft.raftLog.abs.entryAt k = st2.raft.raftLog.abs.entryAt k := by
  have H2 := Ha.toHyp2wB
  have o1 := node_okB H2 hm1 hv1
  have o2 := node_okB H2 hm2 hv2
  by_cases hk0 : k ≤ c0
  · unfold LLog.entryAt
    rw [if_pos (by rw [o1.snapIdx]; exact hk0), if_pos (by rw [o2.snapIdx]; exact hk0)]
  rcases (sm_all Ha hm1).nctm v1 st1 hv1 with c | ⟨E1, hE1, _, a3, _, a5⟩
  · omega
  rcases (sm_all Ha hm2).nctm v2 st2 hv2 with c | ⟨E2, hE2, _, b3, _, b5⟩
  · omega
  rw [a5 k hk1, b5 k hk2]
  rcases Nat.le_total E1.c E2.c with hle | hle
  · exact RaftProps.C01k.ev_logs_agree_a Ha hE1 hE2 hle k (by omega)
  · exact (RaftProps.C01k.ev_logs_agree_a Ha hE2 hE1 hle k (by omega)).symm

/-! ## the theorems under `Hyp3wK` -/

/-- **C04 `cluster_leader_commit_rule`** — the commit rule with **durable acknowledgements**: whenever
a step `h[n] → h[n+1]` takes the commit index of a node `l` that is leader of term `t` after the step
from `c` to `c' > c`, the entry at `c'` in its log carries term `t`, and there is a joint quorum `Q` of
`cfg` such that every `j ∈ Q` is

* `l` itself, with `persisted ≥ c'` — and its storage holds its log up to `c'`; or
* the sender of an accepting `MsgAppendResponse` `x` for term `t` with `index ≥ c'` that is in the
  transport before the step, **and in every state of the history whose transport holds `x` — from the
  moment `x` entered the transport on — the storage of `j` holds `l`'s log up to `c'`**. -/
theorem _root_.RaftProps.C01k.C04_cluster_leader_commit_rule (cfg : JointConfig) (c0 : Nat) (h : List Sys)
    (H : Hyp3wK cfg c0 h)
    (n : Nat) (a b : Sys) (ha : h[n]? = some a) (hb : h[n + 1]? = some b)
    (l : Nat) (sta stb : NState) (hla : a.node l = some sta) (hlb : b.node l = some stb)
    (t : Nat) (hs : stb.raft.state = .leader) (ht : stb.raft.term = t)
    (hc : sta.raft.raftLog.committed < stb.raft.raftLog.committed) :
    stb.raft.raftLog.term stb.raft.raftLog.committed = .ok t ∧
    ∃ Q, IsJointQuorum cfg Q ∧ ∀ j ∈ Q,
      (j = l ∧ stb.raft.raftLog.committed ≤ stb.raft.raftLog.persisted ∧
        ∀ k, k ≤ stb.raft.raftLog.committed →
          (storeLog stb.raft.raftLog.store).entryAt k = stb.raft.raftLog.abs.entryAt k) ∨
      ∃ x ∈ a.net, x.msgType = .msgAppendResponse ∧ x.reject = false ∧ x.frm = j ∧ x.term = t ∧
        stb.raft.raftLog.committed ≤ x.index ∧
        ∀ (m : Nat) (s : Sys) (stj : NState), h[m]? = some s → x ∈ s.net → s.node j = some stj →
          ∀ k, k ≤ stb.raft.raftLog.committed →
            (storeLog stj.raft.raftLog.store).entryAt k = stb.raft.raftLog.abs.entryAt k := by
  rcases H.cases with Hd | Hq
  · exact RaftProps.C01d.C04_cluster_leader_commit_rule cfg c0 h Hd n a b ha hb l sta stb hla hlb t hs ht hc
  · exact RaftProps.C01k.C04_cluster_leader_commit_rule_a cfg c0 h Hq.toHyp3aB n a b ha hb l sta stb hla hlb t hs ht hc

/-- **C03 `cluster_leader_completeness`** — every entry a leader has committed is in the log of every
leader of a later term: if a step `h[n] → h[n+1]` takes the commit index of `l`, leader of term `t`
after the step, to `c'`, then any node that leads a term `t' > t` in any state `h[m]` of the history
holds, at every index up to `c'`, the entry `l` held there. -/
theorem _root_.RaftProps.C01k.C03_cluster_leader_completeness (cfg : JointConfig) (c0 : Nat) (h : List Sys)
    (H : Hyp3wK cfg c0 h)
    (n : Nat) (a b : Sys) (ha : h[n]? = some a) (hb : h[n + 1]? = some b)
    (l : Nat) (sta stb : NState) (hla : a.node l = some sta) (hlb : b.node l = some stb)
    (hs : stb.raft.state = .leader)
    (hc : sta.raft.raftLog.committed < stb.raft.raftLog.committed)
    (m : Nat) (s : Sys) (hm : h[m]? = some s) (l' : Nat) (st' : NState)
    (hl' : s.node l' = some st') (hs' : st'.raft.state = .leader)
    (ht : stb.raft.term < st'.raft.term) :
    ∀ k, k ≤ stb.raft.raftLog.committed →
      st'.raft.raftLog.abs.entryAt k = stb.raft.raftLog.abs.entryAt k := by
  rcases H.cases with Hd | Hq
  · exact RaftProps.C01d.C03_cluster_leader_completeness cfg c0 h Hd n a b ha hb l sta stb hla hlb hs hc m s hm l' st' hl' hs' ht
  · exact RaftProps.C01k.C03_cluster_leader_completeness_a cfg c0 h Hq.toHyp3aB n a b ha hb l sta stb hla hlb hs hc m s hm l' st' hl' hs' ht

/-- **C04 `cluster_follower_commit_sound`** — *every* commit index is sound: in every state `h[m]`,
what a node `v` has marked committed is at most the common snapshot point `c0`, or it was committed by
a leader: there is an earlier step `h[n] → h[n+1]` (`n < m`) that took the commit index of a node `l`,
leader of a term `t ≤ term(v)` after the step, to some `c' ≥ committed(v)`, and the log of `v` equals
the log `l` had then up to `committed(v)`. -/
theorem _root_.RaftProps.C01k.C04_cluster_follower_commit_sound (cfg : JointConfig) (c0 : Nat) (h : List Sys)
    (H : Hyp3wK cfg c0 h) (m : Nat) (s : Sys) (hm : h[m]? = some s) (v : Nat) (st : NState)
    (hv : s.node v = some st) :
    st.raft.raftLog.committed ≤ c0 ∨
    ∃ (n : Nat) (a b : Sys) (l : Nat) (sta stb : NState), n < m ∧ h[n]? = some a ∧
      h[n + 1]? = some b ∧ a.node l = some sta ∧ b.node l = some stb ∧
      stb.raft.state = .leader ∧ sta.raft.raftLog.committed < stb.raft.raftLog.committed ∧
      st.raft.raftLog.committed ≤ stb.raft.raftLog.committed ∧ stb.raft.term ≤ st.raft.term ∧
      ∀ k, k ≤ st.raft.raftLog.committed →
        st.raft.raftLog.abs.entryAt k = stb.raft.raftLog.abs.entryAt k := by
  rcases H.cases with Hd | Hq
  · exact RaftProps.C01d.C04_cluster_follower_commit_sound cfg c0 h Hd m s hm v st hv
  · exact RaftProps.C01k.C04_cluster_follower_commit_sound_a cfg c0 h Hq.toHyp3aB m s hm v st hv

/-- … and so is every **stored** commit index (what a restarted node starts from): it is not ahead of
the commit index, and it is covered by a leader's commit of a term not above the stored term, with the
stored entries. -/
theorem _root_.RaftProps.C01k.C04_cluster_stored_commit_sound (cfg : JointConfig) (c0 : Nat) (h : List Sys)
    (H : Hyp3wK cfg c0 h) (m : Nat) (s : Sys) (hm : h[m]? = some s) (v : Nat) (st : NState)
    (hv : s.node v = some st) :
    st.raft.raftLog.store.hardState.commit ≤ st.raft.raftLog.committed ∧
    (st.raft.raftLog.store.hardState.commit ≤ c0 ∨
     ∃ (n : Nat) (a b : Sys) (l : Nat) (sta stb : NState), n < m ∧ h[n]? = some a ∧
      h[n + 1]? = some b ∧ a.node l = some sta ∧ b.node l = some stb ∧
      stb.raft.state = .leader ∧ sta.raft.raftLog.committed < stb.raft.raftLog.committed ∧
      st.raft.raftLog.store.hardState.commit ≤ stb.raft.raftLog.committed ∧
      stb.raft.term ≤ st.raft.raftLog.store.hardState.term ∧
      ∀ k, k ≤ st.raft.raftLog.store.hardState.commit →
        (storeLog st.raft.raftLog.store).entryAt k = stb.raft.raftLog.abs.entryAt k) := by
  rcases H.cases with Hd | Hq
  · exact RaftProps.C01d.C04_cluster_stored_commit_sound cfg c0 h Hd m s hm v st hv
  · exact RaftProps.C01k.C04_cluster_stored_commit_sound_a cfg c0 h Hq.toHyp3aB m s hm v st hv

/-- **C01 `cluster_state_machine_safety`** — any two nodes, in any two states of the history (the same
node before and after a restart included), hold the same entry at every index both have marked
committed. -/
theorem _root_.RaftProps.C01k.C01_cluster_state_machine_safety (cfg : JointConfig) (c0 : Nat) (h : List Sys)
    (H : Hyp3wK cfg c0 h)
    (m1 : Nat) (s1 : Sys) (hm1 : h[m1]? = some s1) (v1 : Nat) (st1 : NState)
    (hv1 : s1.node v1 = some st1)
    (m2 : Nat) (s2 : Sys) (hm2 : h[m2]? = some s2) (v2 : Nat) (st2 : NState)
    (hv2 : s2.node v2 = some st2)
    (k : Nat) (hk1 : k ≤ st1.raft.raftLog.committed) (hk2 : k ≤ st2.raft.raftLog.committed) :
    st1.raft.raftLog.abs.entryAt k = st2.raft.raftLog.abs.entryAt k := by
  rcases H.cases with Hd | Hq
  · exact RaftProps.C01d.C01_cluster_state_machine_safety cfg c0 h Hd m1 s1 hm1 v1 st1 hv1 m2 s2 hm2 v2 st2 hv2 k hk1 hk2
  · exact RaftProps.C01k.C01_cluster_state_machine_safety_a cfg c0 h Hq.toHyp3aB m1 s1 hm1 v1 st1 hv1 m2 s2 hm2 v2 st2 hv2 k hk1 hk2

/-- … in particular for the **applied** entries of two nodes whose applied index is within their
commit index (`AppliedOk`, which holds outside the restart window — `raft_log.rs:44-46`). -/
theorem _root_.RaftProps.C01k.C01_cluster_state_machine_safety_applied (cfg : JointConfig) (c0 : Nat)
    (h : List Sys) (H : Hyp3wK cfg c0 h)
    (m1 : Nat) (s1 : Sys) (hm1 : h[m1]? = some s1) (v1 : Nat) (st1 : NState)
    (hv1 : s1.node v1 = some st1) (ha1 : st1.raft.raftLog.AppliedOk)
    (m2 : Nat) (s2 : Sys) (hm2 : h[m2]? = some s2) (v2 : Nat) (st2 : NState)
    (hv2 : s2.node v2 = some st2) (ha2 : st2.raft.raftLog.AppliedOk)
    (k : Nat) (hk1 : k ≤ st1.raft.raftLog.applied) (hk2 : k ≤ st2.raft.raftLog.applied) :
    st1.raft.raftLog.abs.entryAt k = st2.raft.raftLog.abs.entryAt k :=
  RaftProps.C01k.C01_cluster_state_machine_safety cfg c0 h H m1 s1 hm1 v1 st1 hv1 m2 s2 hm2 v2 st2 hv2
    k (Nat.le_trans hk1 ha1) (Nat.le_trans hk2 ha2)

/-! ## Non-vacuity -/

section Examples
open RaftProps.C02 RaftProps.C05

/-- **non-vacuity with batching on** (the history of `C01f_cluster_batch_nonvacuous`, through
`C01k_subsumes_C01f`): a history under `Hyp3wK` and not `NoBatch` in which `try_batching` really merges and
the acknowledgement of the batched message takes the leader's commit index from 1 to 3. -/
theorem _root_.RaftProps.C01k.C01k_cluster_batch_nonvacuous :
    ∃ h : List Sys, Hyp3wK c02x_cfg 0 h ∧ ¬ (∀ s ∈ h, NoBatch s) ∧
      (∃ (n : Nat) (a b : Sys) (sta stb : NState) (y x : Message) (es : List Entry) (c : Nat),
        h[n]? = some a ∧ h[n + 1]? = some b ∧ a.node 1 = some sta ∧ b.node 1 = some stb ∧
        y ∈ sta.raft.msgs ∧ x ∈ stb.raft.msgs ∧ y.msgType = .msgAppend ∧ es ≠ [] ∧
        x = { y with entries := y.entries ++ es, commit := c }) ∧
      ∃ (n : Nat) (a b : Sys) (sta stb : NState),
        h[n]? = some a ∧ h[n + 1]? = some b ∧ a.node 1 = some sta ∧ b.node 1 = some stb ∧
        stb.raft.state = .leader ∧ stb.raft.batchAppend = true ∧
        sta.raft.raftLog.committed = 1 ∧ stb.raft.raftLog.committed = 3 := by
  obtain ⟨h, H, r⟩ := RaftProps.C01f.C01f_cluster_batch_nonvacuous
  exact ⟨h, RaftProps.C01k.C01k_subsumes_C01f H, r⟩

/-- **non-vacuity with a `MsgSnapshot` really queued** (the history of `C01d_snapshot_state_reachable`,
through `C01k_subsumes_C01d`): a history under `Hyp3wK` — and *not* under C01f's `Hyp3wB` — whose last state
has a leader with a progress in the `Snapshot` state and a `MsgSnapshot` in its queue. -/
theorem _root_.RaftProps.C01k.C01k_queued_snapshot_nonvacuous :
    ∃ h : List Sys, Hyp3wK c02x_cfg 0 h ∧ ¬ Hyp3wB c02x_cfg 0 h ∧
      ∃ (n : Nat) (s : Sys) (st : NState) (pr : Progress) (y : Message),
        h[n]? = some s ∧ s.node 1 = some st ∧ st.raft.state = .leader ∧
        st.raft.prs.get 2 = some pr ∧ pr.state = .snapshot ∧
        y ∈ st.raft.msgs ∧ y.msgType = .msgSnapshot := by
  obtain ⟨h, H, n, s, st, pr, y, hn, hi, hl, hp, hps, hy, hyt⟩ :=
    RaftProps.C01d.C01d_snapshot_state_reachable
  refine ⟨h, RaftProps.C01k.C01k_subsumes_C01d H, fun HB => ?_, n, s, st, pr, y, hn, hi, hl, hp, hps,
    hy, hyt⟩
  exact HB.nosq s (mem_of_get hn) 1 st hi y hy hyt

set_option maxRecDepth 100000 in
/-- **non-vacuity of the second alternative with a `MsgSnapshot` really queued**
(`RaftProofs/ClusterCommit6C.lean`, kernel-evaluated): a history under `Hyp3wQ` — hence `Hyp3wK` — that is
neither under C01f's `Hyp3wB` nor `NoBatch`: in its last state node 1 is leader with `batch_append = true`,
a progress in the `Snapshot` state and a `MsgSnapshot` in its queue. -/
theorem _root_.RaftProps.C01k.C01k_batching_queued_snapshot_nonvacuous :
    ∃ h : List Sys, Hyp3wQ c02x_cfg 0 h ∧ Hyp3wK c02x_cfg 0 h ∧ ¬ Hyp3wB c02x_cfg 0 h ∧
      ¬ (∀ s ∈ h, NoBatch s) ∧
      ∃ (n : Nat) (s : Sys) (st : NState) (pr : Progress) (y : Message),
        h[n]? = some s ∧ s.node 1 = some st ∧ st.raft.state = .leader ∧
        st.raft.batchAppend = true ∧ st.raft.prs.get 2 = some pr ∧ pr.state = .snapshot ∧
        y ∈ st.raft.msgs ∧ y.msgType = .msgSnapshot := by
  have hmem : c01k_s30 ∈ c01k_hist := by simp [c01k_hist, c01k_tail]
  have hy : c01k_a15.raft.msgs.head! ∈ c01k_a15.raft.msgs := c02x_head_mem _ (by decide)
  refine ⟨c01k_hist, c01k_hyp3wQ, RaftProps.C01k.C01k_of_saneQ c01k_hyp3wQ, fun HB => ?_, fun hnb => ?_,
    30, c01k_s30, c01k_a15, (c01k_a15.raft.prs.get 2).get!, c01k_a15.raft.msgs.head!, rfl, rfl,
    by decide, by decide, by decide, by decide, hy, by decide⟩
  · exact HB.nosq c01k_s30 hmem 1 c01k_a15 rfl _ hy (by decide)
  · have := hnb c01k_s30 hmem 1 c01k_a15 rfl
    revert this
    decide

/-- State-Machine Safety applies to that history -/
example (m1 : Nat) (s1 : Sys) (hm1 : c01k_hist[m1]? = some s1) (v1 : Nat) (st1 : NState)
    (hv1 : s1.node v1 = some st1) (m2 : Nat) (s2 : Sys) (hm2 : c01k_hist[m2]? = some s2) (v2 : Nat)
    (st2 : NState) (hv2 : s2.node v2 = some st2) (k : Nat)
    (hk1 : k ≤ st1.raft.raftLog.committed) (hk2 : k ≤ st2.raft.raftLog.committed) :
    st1.raft.raftLog.abs.entryAt k = st2.raft.raftLog.abs.entryAt k :=
  RaftProps.C01k.C01_cluster_state_machine_safety c02x_cfg 0 c01k_hist
    (RaftProps.C01k.C01k_of_saneQ c01k_hyp3wQ) m1 s1 hm1 v1 st1 hv1 m2 s2 hm2 v2 st2 hv2 k hk1 hk2

end Examples

end RaftModel.ClusterB
