import RaftProps.C05c
import RaftProofs.ClusterBatchK

/-!
# C05, cluster level — Log Matching and Leader Append-Only for `ClusterSem` **with `batch_append`**

`RaftProps/C05c.lean` proves the log layer of `ClusterSem` under the hypothesis `NoBatch`
(`batch_append = false` on every node).  This file removes that hypothesis as far as it can be
removed, and shows where it cannot.

## What is false (finding, kernel-checked below)

With `batch_append = true`, `ClusterSem` reaches a state in which a queued `MsgAppend` is **not** a
slice of its sender's log (`C05_batch_counterexample`, from an `InitOk` state, 16 steps;
`C05_batch_counterexample_fresh`, from three nodes with EMPTY storages, 43 steps):
`C05_cluster_append_matches` without `NoBatch` is false (`C05_append_matches_needs_a_hypothesis`), and
so is the invariant `InvL` (`cluster_inv`).  The mechanism is not the one the C05c report worried
about (a message of an earlier leadership): it is an **append anchored beyond the sender's log**.
`RaftLog::term` answers `0` for every index outside the log; when a follower's progress points beyond
the leader's last index (`next_idx > last_index + 1`), `prepare_send_entries` queues an *empty*
`MsgAppend` with anchor `(next_idx - 1, 0)`.  On its own it is harmless (no entries).  When the log
has grown past the anchor, `try_batching` glues the new entries onto it (`is_continuous_ents` checks
the index only): the message now carries real entries behind the anchor term `0`, while the sender
holds a real entry at the anchor.  `next_idx > last_index + 1` arises from an honest
`MsgAppendResponse` whose `index` is the follower's commit index (`handle_append_entries`:
`m.index < committed`) when that commit index lies beyond the new leader's log — i.e. when Leader
Completeness fails, which `ClusterSem` allows: `Step.send` releases acknowledgements of entries that are
not persisted (the observation at the end of C05c), so entries can be committed and then lost in two
crashes.  Under the real application contract (acknowledge only what is persisted) Leader
Completeness holds and the scenario is unreachable; moreover no receiver can ever *accept* such a
message (`match_term(index, 0)` succeeds only beyond the receiver's log, where a non-empty append runs
into the gap panic of `truncate_and_append`), so logs are not corrupted — but the statement about
queued / transported messages is false as it stands.

## What is true (the theorems `…_batch` below)

The same statements as in C05c with `NoBatch` replaced by `BatchOk cfg h`:

* `NoBatch` on every state (then this is C05c), **or**
* `MultiVoter cfg` (the configuration has two different voters) and `SaneAnchors` on every state
  (no queued `MsgAppend` carries `log_term = 0` at an anchor `index ≠ 0`) — and then `batch_append`
  may be on or off, and may be switched at any time.

`SaneAnchors` is exactly what the counterexample violates, so it cannot be dropped; it is a checkable
state predicate, implied by "every progress points into the log".  `MultiVoter` is a proof gap, not a
falsity: with two voters a node that wins an election has *sent* its vote request (`Inv1` / `Inv2` of
Election Safety), the `send` step drained its queue, and a candidate queues no `MsgAppend` — so a new
leader starts with a queue that holds no `MsgAppend` of an earlier leadership (`InvB.dq`), and a
leader's queue stays tail-compatible with its append-only log (`InvB.lc`).  A node whose own vote is a
quorum can win without sending; that its stale queue is still compatible with its log needs "a lone
voter is never sent an append", which is not proved here.

The proof: `RaftProofs/ClusterBatch{A,B,C,E,H,K}.lean`.
-/
namespace RaftProps.C05
open RaftModel RaftModel.Cluster RaftModel.Node RaftModel.Raft RaftModel.Raft.Bt RaftProps.C02

/-- **the hypothesis that replaces `NoBatch`**: nobody batches, or the configuration has two voters and
no queued `MsgAppend` is anchored in the void -/
def BatchOk (cfg : JointConfig) (h : List Sys) : Prop :=
  (∀ s ∈ h, NoBatch s) ∨ (MultiVoter cfg ∧ ∀ s ∈ h, SaneAnchors s)

/-- **the cluster invariants hold in every state of the history**, batching on or off: `InvL` (all
chains agree, entries come from the one leader of their term, …) and the queue invariants `InvB` -/
theorem cluster_invB_batch (cfg : JointConfig) (hne : cfg.incoming ≠ [])
    (hnd1 : cfg.incoming.Nodup) (hnd2 : cfg.outgoing.Nodup)
    (h : List Sys) (hh : History h) (hfix : ∀ s ∈ h, FixedCfg cfg s)
    (hinit : ∀ s : Sys, h[0]? = some s → InitOk s)
    (hcon : ∀ (n : Nat) (a b : Sys), h[n]? = some a → h[n + 1]? = some b → CStep a b)
    (hmv : MultiVoter cfg) (hsane : ∀ s ∈ h, SaneAnchors s) :
    ∃ s0, h[0]? = some s0 ∧ ∀ s ∈ h, InvL (Owner h) (EntriesOf s0) s ∧ InvB s := by
  obtain ⟨s0, h0⟩ := hist_head hh
  obtain ⟨all1, all2, _⟩ := hist_all hh
  refine ⟨s0, h0, fun s hs => ?_⟩
  obtain ⟨n, hn⟩ := List.mem_iff_getElem?.1 hs
  exact invLB_all hnd1 hnd2 hmv h (owner_unique cfg hne hnd1 hnd2 h hh hfix) hinit hcon all1
    (all2 cfg hfix) hsane s0 h0 n s hn

/-- **the cluster invariant `InvL` holds in every state of the history** (`cluster_inv` with
`BatchOk` in place of `NoBatch`) -/
theorem cluster_inv_batch (cfg : JointConfig) (hne : cfg.incoming ≠ [])
    (hnd1 : cfg.incoming.Nodup) (hnd2 : cfg.outgoing.Nodup)
    (h : List Sys) (hh : History h) (hfix : ∀ s ∈ h, FixedCfg cfg s)
    (hinit : ∀ s : Sys, h[0]? = some s → InitOk s)
    (hcon : ∀ (n : Nat) (a b : Sys), h[n]? = some a → h[n + 1]? = some b → CStep a b)
    (hb : BatchOk cfg h) :
    ∃ s0, h[0]? = some s0 ∧ ∀ s ∈ h, InvL (Owner h) (EntriesOf s0) s := by
  rcases hb with hnb | ⟨hmv, hsane⟩
  · exact cluster_inv cfg hne hnd1 hnd2 h hh hfix hinit hcon hnb
  · obtain ⟨s0, h0, hall⟩ := cluster_invB_batch cfg hne hnd1 hnd2 h hh hfix hinit hcon hmv hsane
    exact ⟨s0, h0, fun s hs => (hall s hs).1⟩

/-! ## 1. Log Matching -/

/-- **C05 `cluster_log_matching`, batching allowed** — in every state of a history of `ClusterSem`
(fixed voter configuration, `InitOk` start, contract-abiding steps, `BatchOk`) and for any two nodes
`i`, `j`: if their logical logs hold entries with the same term at index `k`, then at every index
`k' ≤ k` at which BOTH still hold an entry, the two entries are equal. -/
theorem C05_cluster_log_matching_batch (cfg : JointConfig) (hne : cfg.incoming ≠ [])
    (hnd1 : cfg.incoming.Nodup) (hnd2 : cfg.outgoing.Nodup)
    (h : List Sys) (hh : History h) (hfix : ∀ s ∈ h, FixedCfg cfg s)
    (hinit : ∀ s : Sys, h[0]? = some s → InitOk s)
    (hcon : ∀ (n : Nat) (a b : Sys), h[n]? = some a → h[n + 1]? = some b → CStep a b)
    (hb : BatchOk cfg h)
    (s : Sys) (hs : s ∈ h) (i j : Nat) (sti stj : NState)
    (hi : s.node i = some sti) (hj : s.node j = some stj)
    (k : Nat) (e e' : Entry) (he : sti.raft.raftLog.abs.entryAt k = some e)
    (he' : stj.raft.raftLog.abs.entryAt k = some e') (ht : e.term = e'.term)
    (k' : Nat) (hk : k' ≤ k) (a b : Entry) (ha : sti.raft.raftLog.abs.entryAt k' = some a)
    (hb' : stj.raft.raftLog.abs.entryAt k' = some b) : a = b := by
  obtain ⟨s0, _, hall⟩ := cluster_inv_batch cfg hne hnd1 hnd2 h hh hfix hinit hcon hb
  have I := hall s hs
  have hag := I.agree (.log i) _ (.log j) _ ⟨sti, hi, rfl⟩ ⟨stj, hj, rfl⟩
  exact agree_matching hag (k - k') k e e' he he' ht k' a b (by omega) ha hb'

/-- the snapshot point as an entry identity, batching allowed (`C05_cluster_snapshot_point_matches`) -/
theorem C05_cluster_snapshot_point_matches_batch (cfg : JointConfig) (hne : cfg.incoming ≠ [])
    (hnd1 : cfg.incoming.Nodup) (hnd2 : cfg.outgoing.Nodup)
    (h : List Sys) (hh : History h) (hfix : ∀ s ∈ h, FixedCfg cfg s)
    (hinit : ∀ s : Sys, h[0]? = some s → InitOk s)
    (hcon : ∀ (n : Nat) (a b : Sys), h[n]? = some a → h[n + 1]? = some b → CStep a b)
    (hb : BatchOk cfg h)
    (s : Sys) (hs : s ∈ h) (i j : Nat) (sti stj : NState)
    (hi : s.node i = some sti) (hj : s.node j = some stj) (t : Nat)
    (hsnap : sti.raft.raftLog.abs.snapTerm = some t) (e e' : Entry)
    (he : sti.raft.raftLog.abs.entryAt (sti.raft.raftLog.abs.snapIdx + 1) = some e)
    (he' : stj.raft.raftLog.abs.entryAt (sti.raft.raftLog.abs.snapIdx + 1) = some e')
    (ht : e.term = e'.term) :
    (∀ b, stj.raft.raftLog.abs.entryAt sti.raft.raftLog.abs.snapIdx = some b → b.term = t) ∧
    (stj.raft.raftLog.abs.snapIdx = sti.raft.raftLog.abs.snapIdx →
      ∀ t', stj.raft.raftLog.abs.snapTerm = some t' → t' = t) := by
  rcases hb with hnb | ⟨hmv, hsane⟩
  · exact C05_cluster_snapshot_point_matches cfg hne hnd1 hnd2 h hh hfix hinit hcon hnb s hs i j
      sti stj hi hj t hsnap e e' he he' ht
  · obtain ⟨s0, _, hall⟩ := cluster_inv_batch cfg hne hnd1 hnd2 h hh hfix hinit hcon
      (.inr ⟨hmv, hsane⟩)
    have I := hall s hs
    have hag := I.agree (.log i) _ (.log j) _ ⟨sti, hi, rfl⟩ ⟨stj, hj, rfl⟩
    obtain ⟨_, hp⟩ := hag _ e e' he he' ht
    have hpi : sti.raft.raftLog.abs.prevTerm (sti.raft.raftLog.abs.snapIdx + 1) = some t := by
      unfold LLog.prevTerm; rw [if_pos rfl]; exact hsnap
    refine ⟨fun b hb => ?_, fun hsi t' ht' => ?_⟩
    · have := stj.raft.raftLog.abs.prevTerm_of_entry (i := sti.raft.raftLog.abs.snapIdx + 1)
        (by simpa using hb) (by omega)
      exact (hp t b.term hpi this).symm
    · have : stj.raft.raftLog.abs.prevTerm (sti.raft.raftLog.abs.snapIdx + 1) = some t' := by
        unfold LLog.prevTerm; rw [if_pos (by rw [hsi]), ht']
      exact (hp t t' hpi this).symm

/-- **Log Matching for every list of entries of the state**, batching allowed
(`C05_cluster_matching_everywhere`): the logical log or the storage of a node, a queued or a
transported `MsgAppend` -/
theorem C05_cluster_matching_everywhere_batch (cfg : JointConfig) (hne : cfg.incoming ≠ [])
    (hnd1 : cfg.incoming.Nodup) (hnd2 : cfg.outgoing.Nodup)
    (h : List Sys) (hh : History h) (hfix : ∀ s ∈ h, FixedCfg cfg s)
    (hinit : ∀ s : Sys, h[0]? = some s → InitOk s)
    (hcon : ∀ (n : Nat) (a b : Sys), h[n]? = some a → h[n + 1]? = some b → CStep a b)
    (hb : BatchOk cfg h)
    (s : Sys) (hs : s ∈ h) (l1 l2 : Loc) (g1 g2 : LLog) (h1 : At s l1 g1) (h2 : At s l2 g2)
    (k : Nat) (e e' : Entry) (he : g1.entryAt k = some e) (he' : g2.entryAt k = some e')
    (ht : e.term = e'.term)
    (k' : Nat) (hk : k' ≤ k) (a b : Entry) (ha : g1.entryAt k' = some a)
    (hb' : g2.entryAt k' = some b) : a = b := by
  obtain ⟨s0, _, hall⟩ := cluster_inv_batch cfg hne hnd1 hnd2 h hh hfix hinit hcon hb
  exact agree_matching ((hall s hs).agree l1 g1 l2 g2 h1 h2) (k - k') k e e' he he' ht k' a b
    (by omega) ha hb'

/-- **C05 `cluster_append_matches`, batching allowed** — any `MsgAppend` that is in the transport or
in a queue, against any node's log: the message is well-numbered and carries no entry of term 0; if
the log holds an entry with the index and term of an entry `e` of the message, then every earlier
entry of the message equals the entry the log holds at its index, and what the log holds at the
anchor `x.index` has term `x.log_term`.  (False without `SaneAnchors`: `C05_batch_counterexample`.) -/
theorem C05_cluster_append_matches_batch (cfg : JointConfig) (hne : cfg.incoming ≠ [])
    (hnd1 : cfg.incoming.Nodup) (hnd2 : cfg.outgoing.Nodup)
    (h : List Sys) (hh : History h) (hfix : ∀ s ∈ h, FixedCfg cfg s)
    (hinit : ∀ s : Sys, h[0]? = some s → InitOk s)
    (hcon : ∀ (n : Nat) (a b : Sys), h[n]? = some a → h[n + 1]? = some b → CStep a b)
    (hb : BatchOk cfg h)
    (s : Sys) (hs : s ∈ h) (x : Message) (hx : InFlight s x) (j : Nat) (stj : NState)
    (hj : s.node j = some stj) :
    ContigFrom (x.index + 1) x.entries ∧ (∀ e ∈ x.entries, e.term ≠ 0) ∧
    ∀ e ∈ x.entries, ∀ e', stj.raft.raftLog.abs.entryAt e.index = some e' → e.term = e'.term →
      (∀ a ∈ x.entries, a.index ≤ e.index →
        ∀ b, stj.raft.raftLog.abs.entryAt a.index = some b → a = b) ∧
      (∀ b, stj.raft.raftLog.abs.entryAt x.index = some b → b.term = x.logTerm) := by
  rcases hb with hnb | ⟨hmv, hsane⟩
  · exact C05_cluster_append_matches cfg hne hnd1 hnd2 h hh hfix hinit hcon hnb s hs x hx j stj hj
  obtain ⟨s0, _, hall⟩ := cluster_inv_batch cfg hne hnd1 hnd2 h hh hfix hinit hcon
    (.inr ⟨hmv, hsane⟩)
  have I := hall s hs
  obtain ⟨hty, hloc⟩ := hx
  have hchain : ∃ loc, At s loc (msgLog x) := by
    rcases hloc with hn | ⟨i, st, hi, hq⟩
    · exact ⟨.net, x, hn, hty, rfl⟩
    · exact ⟨.queue i, st, x, hi, hq, hty, rfl⟩
  have hc : ContigFrom (x.index + 1) x.entries := by
    rcases hloc with hn | ⟨i, st, hi, hq⟩
    · exact I.wfn x hn hty
    · exact I.wfq i st x hi hq hty
  obtain ⟨loc, hat⟩ := hchain
  have hcg : (msgLog x).Contig := hc
  refine ⟨hc, fun e he => I.nz loc _ hat e.index e (hcg.entryAt_of_mem he), ?_⟩
  intro e he e' he' ht
  have hag := I.agree loc _ (.log j) _ hat ⟨stj, hj, rfl⟩
  have hme := hcg.entryAt_of_mem he
  refine ⟨fun a ha hle b hb => ?_, fun b hb => ?_⟩
  · exact agree_matching hag (e.index - a.index) e.index e e' hme he' ht a.index a b (by omega)
      (hcg.entryAt_of_mem ha) hb
  · have hxi : x.index < e.index := ((msgLog x).entryAt_lt hme).1
    obtain ⟨a, ha⟩ := (msgLog x).entryAt_exists (i := x.index + 1) (by show x.index < _; omega)
      (by have := ((msgLog x).entryAt_lt hme).2; omega)
    have hl1 := stj.raft.raftLog.abs.entryAt_lt hb
    have hl2 := stj.raft.raftLog.abs.entryAt_lt he'
    obtain ⟨c, hcj⟩ := stj.raft.raftLog.abs.entryAt_exists (i := x.index + 1) (by omega) (by omega)
    have hac : a = c := agree_matching hag (e.index - (x.index + 1)) e.index e e' hme he' ht
      (x.index + 1) a c (by omega) ha hcj
    subst hac
    obtain ⟨_, hp⟩ := hag (x.index + 1) a a ha hcj rfl
    have h1 : (msgLog x).prevTerm (x.index + 1) = some x.logTerm := by
      unfold LLog.prevTerm msgLog; rw [if_pos rfl]
    have h2 := stj.raft.raftLog.abs.prevTerm_of_entry (i := x.index + 1) (by simpa using hb)
      (by omega)
    exact (hp x.logTerm b.term h1 h2).symm

/-! ## 2. Leader Append-Only -/

theorem nodeRel_of_lstepb {a b : NState} {m : Message} (hinv : a.raft.raftLog.Inv)
    (h : LStepB a.raft b.raft m) : NodeRel a b := by
  have hla := hinv.lastIndex_abs
  have hlb := h.eff.inv.lastIndex_abs
  refine ⟨h.rt, fun h1 h2 h3 => ?_, fun h1 k e he hk => ?_⟩
  · obtain ⟨k1, k2⟩ := h.eff.keep h1 h2 h3
    refine ⟨by rw [← hla, ← hlb]; exact k1, fun k e' he hk => ?_, k2⟩
    rcases h.eff.log with c | ⟨es, c⟩ | ⟨_, c, _⟩
    · exact (c k e' he).1
    · rw [c.abs] at he
      rw [(LLog.append_old_link _ es k hk).1] at he
      exact he
    · exact absurd h2 c
  · rcases h.eff.log with c | ⟨es, c⟩ | ⟨_, c, _⟩
    · have := (a.raft.raftLog.abs.entryAt_lt (c k e he).1).2; omega
    · rw [c.abs, LLog.append_entryAt_new _ _ _ hk] at he
      exact c.terms e (List.mem_of_getElem? he)
    · exact absurd h1 c

/-- **one step, one node**, batching allowed: the node is restarted by the step, or `NodeRel` holds -/
theorem cstep_nodeRel_batch {cfg : JointConfig} (hnd1 : cfg.incoming.Nodup)
    (hnd2 : cfg.outgoing.Nodup) (hmv : MultiVoter cfg)
    {own : Nat → Nat → Prop} {ini : Entry → Prop} {a b : Sys}
    (I : InvL own ini a) (B : InvB a) (I1 : Inv1 a) (I1' : Inv1 b) (I2' : Inv2 cfg b)
    (hstep : CStep a b) (i : Nat) (sta stb : NState)
    (ha : a.node i = some sta) (hb : b.node i = some stb) :
    NodeRel sta stb ∨ IsRestart i a b := by
  have other : ∀ (k : Nat) (st' : NState), i ≠ k → (a.setNode k st').node i = some stb →
      NodeRel sta stb := by
    intro k st' hik hb'
    rw [node_setNode_ne a k i st' hik, ha] at hb'
    cases hb'
    exact NodeRel.rfl _
  have callCase : ∀ (st st' : NState) (rnd : Option Nat) (op : NodeOp) (res : OpRes),
      a.node i = some st → (appOp op = true ∨ ∃ m, op = .step m ∧ m ∈ a.net) →
      (∀ j, op = .compact j → CompactOk st.raft.raftLog j) →
      Node.call st rnd op = .ok (res, st') → b = a.setNode i st' → NodeRel st st' := by
    intro st st' rnd op res hk hop hc h hs'
    subst hs'
    have hop' : op ≠ .drain ∧ ∀ m, op ≠ .rstep m := by
      rcases hop with h1 | ⟨m, h1, _⟩
      · constructor
        · intro hc; rw [hc] at h1; cases h1
        · intro m hc; rw [hc] at h1; cases h1
      · rw [h1]
        exact ⟨(by intro hc; cases hc), (by intro m' hc; cases hc)⟩
    have hw : ∀ m, op = .step m → m.msgType = .msgAppend → MsgOk m := by
      intro m hm hty
      rcases hop with h1 | ⟨m', h1, h2⟩
      · rw [hm] at h1; cases h1
      · rw [hm] at h1; cases h1
        exact I.msgOk h2 hty
    have hinvk := I.inv i st hk
    have rt := call_rt st st' rnd op res hinvk hop' h
    obtain ⟨_, hcl⟩ := prov0_of_inv hnd1 hnd2 hmv B I1 I1' I2' hk (node_setNode_self a i st') rfl rt
    exact nodeRel_of_lstepb hinvk (call_lstep_b st st' rnd op res hinvk hcl hop' hw hc h)
  cases hstep with
  | call k st st' rnd op res h1 h2 h3 h4 =>
    by_cases hik : i = k
    · subst hik
      rw [node_setNode_self] at hb
      rw [h1] at ha
      cases ha; cases hb
      exact .inl (callCase sta stb rnd op res h1 (.inl h2) h3 h4 rfl)
    · exact .inl (other k st' hik hb)
  | deliver k st st' rnd m res h1 h2 _ h4 =>
    by_cases hik : i = k
    · subst hik
      rw [node_setNode_self] at hb
      rw [h1] at ha
      cases ha; cases hb
      exact .inl (callCase sta stb rnd (.step m) res h1 (.inr ⟨m, rfl, h2⟩)
        (fun j hc => by cases hc) h4 rfl)
    · exact .inl (other k st' hik hb)
  | send k st st' h1 h2 h3 =>
    by_cases hik : i = k
    · subst hik
      have hb' : (a.setNode i st').node i = some stb := hb
      rw [node_setNode_self] at hb'
      rw [h1] at ha
      cases ha; cases hb'
      have hl : stb.raft.raftLog = sta.raft.raftLog ∧ stb.raft.term = sta.raft.term ∧
          stb.raft.state = sta.raft.state := by
        unfold Node.call at h3
        simp only [applyOp] at h3
        cases h3
        exact ⟨rfl, rfl, rfl⟩
      obtain ⟨e1, e2, e3⟩ := hl
      refine .inl ⟨RT.rfl.ts e2 e3, fun _ _ _ => by rw [e1]; exact Extends.rfl _,
        fun _ k e he hk => ?_⟩
      rw [e1] at he
      have := (sta.raft.raftLog.abs.entryAt_lt he).2; omega
    · exact .inl (other k st' hik hb)
  | restart k st st' c rnd h1 h2 h3 =>
    by_cases hik : i = k
    · subst hik
      exact .inr ⟨st, st', c, rnd, h1, h2, h3, rfl⟩
    · exact .inl (other k st' hik hb)

/-- everything the path arguments need of a history with two voters and sane anchors -/
structure HistB (cfg : JointConfig) (h : List Sys) (own : Nat → Nat → Prop) (ini : Entry → Prop) :
    Prop where
  nd1 : cfg.incoming.Nodup
  nd2 : cfg.outgoing.Nodup
  mv : MultiVoter cfg
  inv : ∀ s ∈ h, InvL own ini s ∧ InvB s
  i1 : ∀ s ∈ h, Inv1 s
  i2 : ∀ s ∈ h, Inv2 cfg s
  con : ∀ (n : Nat) (a b : Sys), h[n]? = some a → h[n + 1]? = some b → CStep a b

theorem HistB.nodeRel {cfg : JointConfig} {h : List Sys} {own : Nat → Nat → Prop}
    {ini : Entry → Prop} (H : HistB cfg h own ini) (n : Nat) (a b : Sys) (ha : h[n]? = some a)
    (hb : h[n + 1]? = some b) (i : Nat) (sta stb : NState) (hia : a.node i = some sta)
    (hib : b.node i = some stb) : NodeRel sta stb ∨ IsRestart i a b := by
  have ham : a ∈ h := List.mem_iff_getElem?.2 ⟨n, ha⟩
  have hbm : b ∈ h := List.mem_iff_getElem?.2 ⟨n + 1, hb⟩
  exact cstep_nodeRel_batch H.nd1 H.nd2 H.mv (H.inv a ham).1 (H.inv a ham).2 (H.i1 a ham)
    (H.i1 b hbm) (H.i2 b hbm) (H.con n a b ha hb) i sta stb hia hib

/-- along a stretch of the history without a restart of node `i`, `RT` composes -/
theorem rt_path_batch {cfg : JointConfig} {own : Nat → Nat → Prop} {ini : Entry → Prop}
    (h : List Sys) (H : HistB cfg h own ini) (i : Nat) :
    ∀ (d n : Nat) (s s' : Sys) (st st' : NState), h[n]? = some s → h[n + d]? = some s' →
      (∀ m a b, n ≤ m → m < n + d → h[m]? = some a → h[m + 1]? = some b → ¬ IsRestart i a b) →
      s.node i = some st → s'.node i = some st' → RT st.raft st'.raft := by
  intro d
  induction d with
  | zero =>
    intro n s s' st st' hn hn' _ hi hi'
    rw [Nat.add_zero, hn] at hn'
    cases hn'
    rw [hi] at hi'
    cases hi'
    exact RT.rfl
  | succ d ih =>
    intro n s s' st st' hn hn' hnr hi hi'
    have hlt : n + 1 < h.length := by
      rcases Nat.lt_or_ge (n + 1) h.length with c | c
      · exact c
      · have : h.length ≤ n + (d + 1) := by omega
        rw [List.getElem?_eq_none this] at hn'; cases hn'
    have h1 : h[n + 1]? = some h[n + 1] := List.getElem?_eq_some_iff.2 ⟨hlt, rfl⟩
    have hstep := H.con n s _ hn h1
    obtain ⟨st1, hi1⟩ := step_node_some hstep.step i st hi
    rcases H.nodeRel n s _ hn h1 i st st1 hi hi1 with c | c
    · refine c.rt.trans (ih (n + 1) _ s' st1 st' h1 (by rw [← hn']; congr 1; omega) ?_ hi1 hi')
      intro m a b hm1 hm2 ha hb
      exact hnr m a b (by omega) (by omega) ha hb
    · exact absurd c (hnr n s _ (Nat.le_refl _) (by omega) hn h1)

/-- **C05 `cluster_leader_append_only`, batching allowed** — between two states `h[n]`, `h[n + d]` of
the history in which node `i` is leader of the same term, with no restart of `i` in between, the later
logical log extends the earlier one: `last_index` does not decrease, every entry the earlier log
holds at an index the later log still retains is unchanged, and the later log holds nothing else at
the old indexes. -/
theorem C05_cluster_leader_append_only_batch (cfg : JointConfig) (hne : cfg.incoming ≠ [])
    (hnd1 : cfg.incoming.Nodup) (hnd2 : cfg.outgoing.Nodup)
    (h : List Sys) (hh : History h) (hfix : ∀ s ∈ h, FixedCfg cfg s)
    (hinit : ∀ s : Sys, h[0]? = some s → InitOk s)
    (hcon : ∀ (n : Nat) (a b : Sys), h[n]? = some a → h[n + 1]? = some b → CStep a b)
    (hb : BatchOk cfg h) (i : Nat) :
    ∀ (d n : Nat) (s s' : Sys) (st st' : NState), h[n]? = some s → h[n + d]? = some s' →
      (∀ m a b, n ≤ m → m < n + d → h[m]? = some a → h[m + 1]? = some b → ¬ IsRestart i a b) →
      s.node i = some st → s'.node i = some st' →
      st.raft.state = .leader → st'.raft.state = .leader → st'.raft.term = st.raft.term →
      st.raft.raftLog.lastIndex ≤ st'.raft.raftLog.lastIndex ∧
      (∀ k e, st.raft.raftLog.abs.entryAt k = some e → st'.raft.raftLog.abs.snapIdx < k →
        st'.raft.raftLog.abs.entryAt k = some e) ∧
      (∀ k e', st'.raft.raftLog.abs.entryAt k = some e' → k ≤ st.raft.raftLog.lastIndex →
        st.raft.raftLog.abs.entryAt k = some e') := by
  rcases hb with hnb | ⟨hmv, hsane⟩
  · exact C05_cluster_leader_append_only cfg hne hnd1 hnd2 h hh hfix hinit hcon hnb i
  obtain ⟨s0, _, hall⟩ := cluster_invB_batch cfg hne hnd1 hnd2 h hh hfix hinit hcon hmv hsane
  obtain ⟨all1, all2, _⟩ := hist_all hh
  have H : HistB cfg h (Owner h) (EntriesOf s0) :=
    ⟨hnd1, hnd2, hmv, hall, all1, all2 cfg hfix, hcon⟩
  have key : ∀ (d n : Nat) (s s' : Sys) (st st' : NState), h[n]? = some s → h[n + d]? = some s' →
      (∀ m a b, n ≤ m → m < n + d → h[m]? = some a → h[m + 1]? = some b → ¬ IsRestart i a b) →
      s.node i = some st → s'.node i = some st' →
      st.raft.state = .leader → st'.raft.state = .leader → st'.raft.term = st.raft.term →
      Extends st.raft.raftLog.abs st'.raft.raftLog.abs := by
    intro d
    induction d with
    | zero =>
      intro n s s' st st' hn hn' _ hi hi' _ _ _
      rw [Nat.add_zero, hn] at hn'
      cases hn'
      rw [hi] at hi'
      cases hi'
      exact Extends.rfl _
    | succ d ih =>
      intro n s s' st st' hn hn' hnr hi hi' hl hl' ht
      have hlt : n + 1 < h.length := by
        rcases Nat.lt_or_ge (n + 1) h.length with c | c
        · exact c
        · have : h.length ≤ n + (d + 1) := by omega
          rw [List.getElem?_eq_none this] at hn'; cases hn'
      have h1 : h[n + 1]? = some h[n + 1] := List.getElem?_eq_some_iff.2 ⟨hlt, rfl⟩
      have hstep := hcon n s _ hn h1
      obtain ⟨st1, hi1⟩ := step_node_some hstep.step i st hi
      have hn1' : h[n + 1 + d]? = some s' := by rw [← hn']; congr 1; omega
      have hnr1 : ∀ m a b, n + 1 ≤ m → m < n + 1 + d → h[m]? = some a → h[m + 1]? = some b →
          ¬ IsRestart i a b := fun m a b hm1 hm2 ha hb => hnr m a b (by omega) (by omega) ha hb
      rcases H.nodeRel n s _ hn h1 i st st1 hi hi1 with c | c
      · have hrest := rt_path_batch h H i d (n + 1) _ s' st1 st' h1 hn1' hnr1 hi1 hi'
        have ht1 : st1.raft.term = st.raft.term := by
          have := c.rt.le; have := hrest.le; omega
        have hl1 : st1.raft.state = .leader := by
          rcases hrest.lead hl' with c1 | ⟨_, c2 | c2⟩
          · omega
          · rcases c.rt.cand c2 with c3 | ⟨_, c4⟩
            · omega
            · rw [hl] at c4; cases c4
          · exact c2
        exact (c.ext hl hl1 ht1).trans
          (ih (n + 1) _ s' st1 st' h1 hn1' hnr1 hi1 hi' hl1 hl' (ht.trans ht1.symm))
      · exact absurd c (hnr n s _ (Nat.le_refl _) (by omega) hn h1)
  intro d n s s' st st' hn hn' hnr hi hi' hl hl' ht
  have hx := key d n s s' st st' hn hn' hnr hi hi' hl hl' ht
  have hs : s ∈ h := List.mem_iff_getElem?.2 ⟨n, hn⟩
  have hs' : s' ∈ h := List.mem_iff_getElem?.2 ⟨n + d, hn'⟩
  have e1 := ((hall s hs).1.inv i st hi).lastIndex_abs
  have e2 := ((hall s' hs').1.inv i st' hi').lastIndex_abs
  exact ⟨by rw [e1, e2]; exact hx.last, hx.kept, fun k e' he hk => hx.old k e' he (by rw [← e1]; exact hk)⟩

/-! ## 3. a leader's entries carry its term; entries of a term come from its one leader -/

/-- **C05 `cluster_leader_entries_own_term`, batching allowed** — whatever a node that is leader after
a step holds beyond the last index it had before the step carries the leader's term -/
theorem C05_cluster_leader_entries_own_term_batch (cfg : JointConfig) (hne : cfg.incoming ≠ [])
    (hnd1 : cfg.incoming.Nodup) (hnd2 : cfg.outgoing.Nodup)
    (h : List Sys) (hh : History h) (hfix : ∀ s ∈ h, FixedCfg cfg s)
    (hinit : ∀ s : Sys, h[0]? = some s → InitOk s)
    (hcon : ∀ (n : Nat) (a b : Sys), h[n]? = some a → h[n + 1]? = some b → CStep a b)
    (hb : BatchOk cfg h)
    (n : Nat) (a b : Sys) (ha : h[n]? = some a) (hb' : h[n + 1]? = some b)
    (i : Nat) (sta stb : NState) (hia : a.node i = some sta) (hib : b.node i = some stb)
    (hl : stb.raft.state = .leader) (k : Nat) (e : Entry)
    (he : stb.raft.raftLog.abs.entryAt k = some e) (hk : sta.raft.raftLog.lastIndex < k) :
    e.term = stb.raft.term := by
  rcases hb with hnb | ⟨hmv, hsane⟩
  · exact C05_cluster_leader_entries_own_term cfg hne hnd1 hnd2 h hh hfix hinit hcon hnb n a b ha
      hb' i sta stb hia hib hl k e he hk
  obtain ⟨s0, _, hall⟩ := cluster_invB_batch cfg hne hnd1 hnd2 h hh hfix hinit hcon hmv hsane
  obtain ⟨all1, all2, _⟩ := hist_all hh
  have H : HistB cfg h (Owner h) (EntriesOf s0) :=
    ⟨hnd1, hnd2, hmv, hall, all1, all2 cfg hfix, hcon⟩
  have ham : a ∈ h := List.mem_iff_getElem?.2 ⟨n, ha⟩
  have e1 := ((hall a ham).1.inv i sta hia).lastIndex_abs
  rcases H.nodeRel n a b ha hb' i sta stb hia hib with c | c
  · exact c.own hl k e he (by rw [← e1]; exact hk)
  · obtain ⟨st, st', cfg', rnd, h1, _, h3, h4⟩ := c
    rw [h4, node_setNode_self] at hib
    cases hib
    rw [(CV.boot_booted cfg' _ rnd _ h3).state] at hl
    cases hl

/-- **all entries of a term come from the one leader of that term**, batching allowed
(`C05_cluster_entries_come_from_the_leader`) -/
theorem C05_cluster_entries_come_from_the_leader_batch (cfg : JointConfig) (hne : cfg.incoming ≠ [])
    (hnd1 : cfg.incoming.Nodup) (hnd2 : cfg.outgoing.Nodup)
    (h : List Sys) (hh : History h) (hfix : ∀ s ∈ h, FixedCfg cfg s)
    (hinit : ∀ s : Sys, h[0]? = some s → InitOk s)
    (hcon : ∀ (n : Nat) (a b : Sys), h[n]? = some a → h[n + 1]? = some b → CStep a b)
    (hb : BatchOk cfg h)
    (s : Sys) (hs : s ∈ h) (loc : Loc) (g : LLog) (hat : At s loc g) (i : Nat) (e : Entry)
    (hge : g.entryAt i = some e) :
    ((∃ s0, h[0]? = some s0 ∧ EntriesOf s0 e) ∨
      ∃ k, (∃ s1 ∈ h, leads s1 k e.term) ∧ ∀ k' s2, s2 ∈ h → leads s2 k' e.term → k' = k) ∧
    (∀ k st, s.node k = some st → st.raft.state = .leader → st.raft.term = e.term →
      i ≤ st.raft.raftLog.lastIndex) ∧
    e.term ≠ 0 := by
  obtain ⟨s0, h0, hall⟩ := cluster_inv_batch cfg hne hnd1 hnd2 h hh hfix hinit hcon hb
  have I := hall s hs
  refine ⟨?_, fun k st hk hl ht => I.lead k st hk hl loc g hat i e hge ht.symm,
    I.nz loc g hat i e hge⟩
  rcases I.orig loc g hat i e hge with c | ⟨k, c⟩
  · exact .inl ⟨s0, h0, c⟩
  · exact .inr ⟨k, c, fun k' s2 hs2 hl2 =>
      owner_unique cfg hne hnd1 hnd2 h hh hfix k' k e.term ⟨s2, hs2, hl2⟩ c⟩

/-! ## 4. The finding: with `batch_append` a queued `MsgAppend` need not be a slice of its sender's log

Three nodes, voters 1, 2, 3, every stored term 1.  Node 2 was booted from a storage that holds three
entries of term 1 with commit index 3; nodes 1 and 3 from empty storages (an `InitOk` state: the
stored logs agree, no entry of term 0, no entry above a stored term — `InitOk` does not speak about
commit indexes; the same situation arises from a fresh cluster when acknowledgements of unpersisted
entries are released and their senders crash, which `Cluster.Step.send` allows).

Node 3 is elected for term 2 by node 1 and switches `batch_append` on.  Its first `MsgAppend`
(anchor 0, the empty entry of term 2) reaches node 2, whose commit index 3 is above the anchor:
node 2 answers `MsgAppendResponse { index = 3 }` (`handle_append_entries`, `m.index < committed`).
Node 3 sets `next_idx = 4` for node 2 although its own last index is 1, and queues the append for
`next_idx - 1 = 3`: `term(3) = 0` (outside the log), `entries(4) = []` — an empty `MsgAppend` with
anchor `(3, 0)`.  Three proposals later its log holds entries 1 … 4 of term 2; the third `bcast_append`
reads `entries(4) = [entry 4]` and `try_batching` glues it onto the queued message, whose anchor stays
`(3, 0)`.  Node 3 holds entry 4 and, at index 3, an entry of term 2 ≠ 0.
-/

section Counterexample

def cx_ents : List Entry :=
  [{ term := 1, index := 1 }, { term := 1, index := 2 }, { term := 1, index := 3 }]
/-- storage of nodes 1 and 3: empty log, stored term 1 -/
def cx_store1 : MemStorage := { c02x_store with hardState := { term := 1, vote := 0, commit := 0 } }
/-- storage of node 2: three entries of term 1, commit index 3 -/
def cx_store2 : MemStorage :=
  { c02x_store with entries := cx_ents, hardState := { term := 1, vote := 0, commit := 3 } }
def cx_sto (i : Nat) : MemStorage := if i = 2 then cx_store2 else cx_store1
def cx_boot (i : Nat) : NState :=
  match Node.boot (c02x_config i) (cx_sto i) none with
  | .ok (.ok st) => st
  | _ => default

/-- node 3 campaigns for term 2, persists, sends its vote requests -/
def cx_a1 := c02x_st (Node.call (cx_boot 3) none .campaign)
def cx_a2 := c02x_st (Node.call cx_a1 none .stabilize)
def cx_a3 := c02x_st (Node.call cx_a2 none .drain)
def cx_req := cx_a2.raft.msgs.head!
/-- node 1 grants -/
def cx_b1 := c02x_st (Node.call (cx_boot 1) none (.step cx_req))
def cx_b2 := c02x_st (Node.call cx_b1 none .stabilize)
def cx_b3 := c02x_st (Node.call cx_b2 none .drain)
def cx_grant := cx_b2.raft.msgs.head!
/-- node 3 is leader of term 2, switches batching on, sends its two `MsgAppend`s -/
def cx_a4 := c02x_st (Node.call cx_a3 none (.step cx_grant))
def cx_a5 := c02x_st (Node.call cx_a4 none (.setBatchAppend true))
def cx_a6 := c02x_st (Node.call cx_a5 none .drain)
def cx_app := (cx_a5.raft.msgs.drop 1).head!
/-- node 2 answers with its commit index -/
def cx_c1 := c02x_st (Node.call (cx_boot 2) none (.step cx_app))
def cx_c2 := c02x_st (Node.call cx_c1 none .stabilize)
def cx_c3 := c02x_st (Node.call cx_c2 none .drain)
def cx_resp := cx_c2.raft.msgs.head!
/-- node 3: `next_idx = 4`, the empty append anchored at `(3, 0)`; then three proposals -/
def cx_a7 := c02x_st (Node.call cx_a6 none (.step cx_resp))
def cx_a8 := c02x_st (Node.call cx_a7 none (.propose [] [1]))
def cx_a9 := c02x_st (Node.call cx_a8 none (.propose [] [2]))
def cx_a10 := c02x_st (Node.call cx_a9 none (.propose [] [3]))

def cx_s0 : Sys := { nodes := [(1, cx_boot 1), (2, cx_boot 2), (3, cx_boot 3)], net := [] }
def cx_s1 : Sys := cx_s0.setNode 3 cx_a1
def cx_s2 : Sys := cx_s1.setNode 3 cx_a2
def cx_s3 : Sys := { (cx_s2.setNode 3 cx_a3) with net := cx_s2.net ++ cx_a2.raft.msgs }
def cx_s4 : Sys := cx_s3.setNode 1 cx_b1
def cx_s5 : Sys := cx_s4.setNode 1 cx_b2
def cx_s6 : Sys := { (cx_s5.setNode 1 cx_b3) with net := cx_s5.net ++ cx_b2.raft.msgs }
def cx_s7 : Sys := cx_s6.setNode 3 cx_a4
def cx_s8 : Sys := cx_s7.setNode 3 cx_a5
def cx_s9 : Sys := { (cx_s8.setNode 3 cx_a6) with net := cx_s8.net ++ cx_a5.raft.msgs }
def cx_s10 : Sys := cx_s9.setNode 2 cx_c1
def cx_s11 : Sys := cx_s10.setNode 2 cx_c2
def cx_s12 : Sys := { (cx_s11.setNode 2 cx_c3) with net := cx_s11.net ++ cx_c2.raft.msgs }
def cx_s13 : Sys := cx_s12.setNode 3 cx_a7
def cx_s14 : Sys := cx_s13.setNode 3 cx_a8
def cx_s15 : Sys := cx_s14.setNode 3 cx_a9
def cx_s16 : Sys := cx_s15.setNode 3 cx_a10

def cx_hist : List Sys :=
  [cx_s0, cx_s1, cx_s2, cx_s3, cx_s4, cx_s5, cx_s6, cx_s7, cx_s8, cx_s9, cx_s10, cx_s11, cx_s12,
    cx_s13, cx_s14, cx_s15, cx_s16]

theorem cx_drop_head_mem (l : List Message) (h : l.drop 1 ≠ []) : (l.drop 1).head! ∈ l :=
  List.mem_of_mem_drop (c02x_head_mem _ h)

set_option maxRecDepth 100000 in
theorem cx_csteps : Chained CStep cx_hist := by
  refine ⟨?_, ?_, ?_, ?_, ?_, ?_, ?_, ?_, ?_, ?_, ?_, ?_, ?_, ?_, ?_, ?_, trivial⟩
  · exact CStep.call _ 3 (cx_boot 3) cx_a1 none .campaign _ rfl rfl
      (fun k hc => by cases hc) (c02x_out _ (by decide))
  · exact CStep.call _ 3 cx_a1 cx_a2 none .stabilize _ rfl rfl
      (fun k hc => by cases hc) (c02x_out _ (by decide))
  · exact CStep.send _ 3 cx_a2 cx_a3 rfl ⟨by decide, by decide⟩ rfl
  · exact CStep.deliver _ 1 (cx_boot 1) cx_b1 none cx_req _ rfl
      (c02x_head_mem _ (by decide)) (by decide) (c02x_out _ (by decide))
  · exact CStep.call _ 1 cx_b1 cx_b2 none .stabilize _ rfl rfl
      (fun k hc => by cases hc) (c02x_out _ (by decide))
  · exact CStep.send _ 1 cx_b2 cx_b3 rfl ⟨by decide, by decide⟩ rfl
  · exact CStep.deliver _ 3 cx_a3 cx_a4 none cx_grant _ rfl
      (List.mem_append_right _ (c02x_head_mem _ (by decide))) (by decide) (c02x_out _ (by decide))
  · exact CStep.call _ 3 cx_a4 cx_a5 none (.setBatchAppend true) _ rfl rfl
      (fun k hc => by cases hc) (c02x_out _ (by decide))
  · exact CStep.send _ 3 cx_a5 cx_a6 rfl ⟨by decide, by decide⟩ rfl
  · exact CStep.deliver _ 2 (cx_boot 2) cx_c1 none cx_app _ rfl
      (List.mem_append_right _ (cx_drop_head_mem _ (by decide))) (by decide) (c02x_out _ (by decide))
  · exact CStep.call _ 2 cx_c1 cx_c2 none .stabilize _ rfl rfl
      (fun k hc => by cases hc) (c02x_out _ (by decide))
  · exact CStep.send _ 2 cx_c2 cx_c3 rfl ⟨by decide, by decide⟩ rfl
  · exact CStep.deliver _ 3 cx_a6 cx_a7 none cx_resp _ rfl
      (List.mem_append_right _ (c02x_head_mem _ (by decide))) (by decide) (c02x_out _ (by decide))
  · exact CStep.call _ 3 cx_a7 cx_a8 none (.propose [] [1]) _ rfl rfl
      (fun k hc => by cases hc) (c02x_out _ (by decide))
  · exact CStep.call _ 3 cx_a8 cx_a9 none (.propose [] [2]) _ rfl rfl
      (fun k hc => by cases hc) (c02x_out _ (by decide))
  · exact CStep.call _ 3 cx_a9 cx_a10 none (.propose [] [3]) _ rfl rfl
      (fun k hc => by cases hc) (c02x_out _ (by decide))

theorem cx_history : History cx_hist := by
  have := chained_history [] cx_s0 (History.init _ ?_) _
    (Chained.mono (fun _ _ hc => hc.step) _ cx_csteps)
  · simpa [cx_hist] using this
  · refine ⟨rfl, ?_⟩
    intro i st hn
    have hm := c02_lookup_mem _ i st hn
    simp only [cx_s0, List.mem_cons, Prod.mk.injEq, List.not_mem_nil, or_false] at hm
    have hb : ∀ k, c02x_ok (match Node.boot (c02x_config k) (cx_sto k) none with
        | .ok (.ok st) => (.ok (.ok, st) : Out) | _ => .panic "") = true →
        Node.boot (c02x_config k) (cx_sto k) none = .ok (.ok (cx_boot k)) := by
      intro k hk
      unfold cx_boot
      split at hk
      · rename_i st heq; rw [heq]
      · cases hk
    rcases hm with ⟨rfl, rfl⟩ | ⟨rfl, rfl⟩ | ⟨rfl, rfl⟩
    · exact ⟨c02x_config 1, cx_sto 1, none, rfl, hb 1 (by decide)⟩
    · exact ⟨c02x_config 2, cx_sto 2, none, rfl, hb 2 (by decide)⟩
    · exact ⟨c02x_config 3, cx_sto 3, none, rfl, hb 3 (by decide)⟩

set_option maxRecDepth 100000 in
theorem cx_fixed_all : ∀ s ∈ cx_hist, FixedCfg c02x_cfg s := by
  intro s hs
  simp only [cx_hist, List.mem_cons, List.not_mem_nil, or_false] at hs
  rcases hs with rfl | rfl | rfl | rfl | rfl | rfl | rfl | rfl | rfl | rfl | rfl | rfl | rfl | rfl |
    rfl | rfl | rfl <;> exact c02x_fixed_ok _ (by decide)

theorem agree_of_no_entries {g h : LLog} (hg : g.ents = []) : Agree g h := by
  intro i e e' h1
  have := g.entryAt_mem h1
  rw [hg] at this
  cases this

set_option maxRecDepth 100000 in
theorem cx_initOk : InitOk cx_s0 := by
  have hnode : ∀ i st, cx_s0.node i = some st → i = 1 ∨ i = 2 ∨ i = 3 := by
    intro i st hn
    have hm := c02_lookup_mem _ i st hn
    simp only [cx_s0, List.mem_cons, Prod.mk.injEq, List.not_mem_nil, or_false] at hm
    rcases hm with ⟨rfl, _⟩ | ⟨rfl, _⟩ | ⟨rfl, _⟩ <;> simp
  have hents : ∀ i, (cx_sto i).entries = [] ∨ cx_sto i = cx_store2 := by
    intro i
    unfold cx_sto
    split
    · exact .inr rfl
    · exact .inl rfl
  have hterm : ∀ i, (cx_sto i).hardState.term = 1 := by
    intro i
    unfold cx_sto
    split <;> rfl
  refine ⟨rfl, cx_sto, ?_, ?_, ?_, ?_⟩
  · intro i st hn
    have hm := c02_lookup_mem _ i st hn
    simp only [cx_s0, List.mem_cons, Prod.mk.injEq, List.not_mem_nil, or_false] at hm
    have hb : ∀ k, c02x_ok (match Node.boot (c02x_config k) (cx_sto k) none with
        | .ok (.ok st) => (.ok (.ok, st) : Out) | _ => .panic "") = true →
        Node.boot (c02x_config k) (cx_sto k) none = .ok (.ok (cx_boot k)) := by
      intro k hk
      unfold cx_boot
      split at hk
      · rename_i st heq; rw [heq]
      · cases hk
    rcases hm with ⟨rfl, rfl⟩ | ⟨rfl, rfl⟩ | ⟨rfl, rfl⟩
    · exact ⟨c02x_config 1, none, hb 1 (by decide)⟩
    · exact ⟨c02x_config 2, none, hb 2 (by decide)⟩
    · exact ⟨c02x_config 3, none, hb 3 (by decide)⟩
  · intro i st _
    rcases hents i with h0 | h0
    · refine ⟨⟨fun k e hk => by rw [h0] at hk; simp at hk, ?_⟩, fun e he => by rw [h0] at he; cases he⟩
      unfold cx_sto
      split <;> decide
    · rw [h0]
      refine ⟨⟨contigFrom_getElem? (by decide), by decide⟩, fun e he => ?_⟩
      simp only [cx_store2, cx_ents, List.mem_cons, List.not_mem_nil, or_false] at he
      rcases he with rfl | rfl | rfl <;> decide
  · intro i j _ _ _ _
    rcases hents i with h0 | h0
    · exact agree_of_no_entries h0
    · rcases hents j with h1 | h1
      · exact (agree_of_no_entries h1).symm
      · rw [h0, h1]; exact Agree.self _
  · intro i j _ _ _ _ e he
    rw [hterm j]
    rcases hents i with h0 | h0
    · rw [h0] at he; cases he
    · rw [h0] at he
      simp only [cx_store2, cx_ents, List.mem_cons, List.not_mem_nil, or_false] at he
      rcases he with rfl | rfl | rfl <;> decide

/-- the glued message in the queue of node 3 -/
def cx_bad : Message := cx_a10.raft.msgs.head!

set_option maxRecDepth 100000 in
/-- **with `batch_append`, a queued `MsgAppend` need not be a slice of its sender's log.**  There is a
history of `ClusterSem` over three nodes with voters `{1, 2, 3}` that satisfies every hypothesis of
`C05_cluster_append_matches` except `NoBatch` (`InitOk` start, contract-abiding steps; the
configuration has two voters) and in whose last state the queue of node 3 — leader of term 2, batching
on — holds a `MsgAppend` `x` from node 3 with anchor `(x.index, x.log_term) = (3, 0)` carrying the
entry `e` with index 4 that node 3's log holds, while node 3's log holds an entry of term 2 at the
anchor index 3.  The state before the first proposal (`cx_s13`) violates `SaneAnchors`. -/
theorem C05_batch_counterexample :
    ∃ h : List Sys, History h ∧ (∀ s ∈ h, FixedCfg c02x_cfg s) ∧
      c02x_cfg.incoming ≠ [] ∧ c02x_cfg.incoming.Nodup ∧ c02x_cfg.outgoing.Nodup ∧
      (∀ s : Sys, h[0]? = some s → InitOk s) ∧
      (∀ (n : Nat) (a b : Sys), h[n]? = some a → h[n + 1]? = some b → CStep a b) ∧
      MultiVoter c02x_cfg ∧
      (∃ s ∈ h, ¬ SaneAnchors s) ∧
      ∃ s ∈ h, ∃ x st e b, leads s 3 2 ∧ InFlight s x ∧ s.node 3 = some st ∧
        st.raft.batchAppend = true ∧ x.frm = 3 ∧ x.to = 2 ∧ x.index = 3 ∧ x.logTerm = 0 ∧
        x.entries = [e] ∧ e.index = 4 ∧ e.term = 2 ∧
        st.raft.raftLog.abs.entryAt e.index = some e ∧
        st.raft.raftLog.abs.entryAt x.index = some b ∧ b.term = 2 ∧ b.term ≠ x.logTerm := by
  refine ⟨cx_hist, cx_history, cx_fixed_all, by decide, by decide, by decide, ?_,
    chained_at _ cx_csteps, ⟨1, 2, by decide, by decide, by decide⟩, ?_, ?_⟩
  · intro s hs
    have : cx_hist[0]? = some cx_s0 := rfl
    rw [this] at hs
    cases hs
    exact cx_initOk
  · refine ⟨cx_s13, by simp [cx_hist], fun hsa => ?_⟩
    have := hsa 3 cx_a7 rfl cx_a7.raft.msgs.head! (c02x_head_mem _ (by decide)) (by decide)
      (by decide)
    revert this
    decide
  · refine ⟨cx_s16, by simp [cx_hist], cx_bad, cx_a10, cx_bad.entries.head!,
      (cx_a10.raft.raftLog.abs.ents.drop 2).head!,
      ⟨cx_a10, rfl, by decide, by decide⟩,
      ⟨by decide, .inr ⟨3, cx_a10, rfl, c02x_head_mem _ (by decide)⟩⟩, rfl,
      by decide, by decide, by decide, by decide, by decide, by decide, by decide, by decide,
      by decide, by decide, by decide, by decide⟩

set_option maxRecDepth 100000 in
/-- … hence **the statement of `C05_cluster_append_matches` with the hypothesis `NoBatch` deleted is
false** (and with it `cluster_inv` without `NoBatch`) -/
theorem C05_append_matches_needs_a_hypothesis :
    ¬ ∀ (cfg : JointConfig) (_ : cfg.incoming ≠ [])
      (_ : cfg.incoming.Nodup) (_ : cfg.outgoing.Nodup)
      (h : List Sys) (_ : History h) (_ : ∀ s ∈ h, FixedCfg cfg s)
      (_ : ∀ s : Sys, h[0]? = some s → InitOk s)
      (_ : ∀ (n : Nat) (a b : Sys), h[n]? = some a → h[n + 1]? = some b → CStep a b)
      (s : Sys) (_ : s ∈ h) (x : Message) (_ : InFlight s x) (j : Nat) (stj : NState)
      (_ : s.node j = some stj),
      ContigFrom (x.index + 1) x.entries ∧ (∀ e ∈ x.entries, e.term ≠ 0) ∧
      ∀ e ∈ x.entries, ∀ e', stj.raft.raftLog.abs.entryAt e.index = some e' → e.term = e'.term →
        (∀ a ∈ x.entries, a.index ≤ e.index →
          ∀ b, stj.raft.raftLog.abs.entryAt a.index = some b → a = b) ∧
        (∀ b, stj.raft.raftLog.abs.entryAt x.index = some b → b.term = x.logTerm) := by
  intro hall
  obtain ⟨h, hh, hfix, hne, hnd1, hnd2, hinit, hcon, _, _, s, hs, x, st, e, b, _, hx, hn, _, _, _,
    _, _, hxe, _, _, hee, hb, _, hbne⟩ := C05_batch_counterexample
  have := (hall c02x_cfg hne hnd1 hnd2 h hh hfix hinit hcon s hs x hx 3 st hn).2.2 e
    (by rw [hxe]; exact List.mem_singleton.2 rfl) e hee rfl
  exact hbne (this.2 b hb)

/-! ### the same from a fresh cluster (all storages empty), by acknowledging unpersisted entries

`InitOk` does not constrain commit indexes, so the start state above may look contrived.  The same
end is reached from the start state of `C02_cluster_nonvacuous` — three nodes booted from EMPTY
storages — because `Cluster.Step.send` releases a node's messages as soon as its term and vote are
persisted, entries or not (the observation at the end of C05c): node 1 is elected for term 1 and
replicates its empty entry and one proposal to nodes 2 and 3, which acknowledge without persisting;
node 1 commits index 2 and tells node 2; nodes 1 and 3 crash and restart with empty logs; node 3 is
elected for term 2 by node 1, and node 2 answers its first append with its commit index 2. -/

def cf_bootOf (i : Nat) (st : NState) : NState :=
  match Node.boot (c02x_config i) st.raft.raftLog.store none with
  | .ok (.ok x) => x
  | _ => default
def cf_bootOk (i : Nat) (st : NState) : Bool :=
  match Node.boot (c02x_config i) st.raft.raftLog.store none with
  | .ok (.ok _) => true
  | _ => false
theorem cf_bootOf_eq (i : Nat) (st : NState) (h : cf_bootOk i st = true) :
    Node.boot (c02x_config i) st.raft.raftLog.store none = .ok (.ok (cf_bootOf i st)) := by
  unfold cf_bootOf
  unfold cf_bootOk at h
  split at h
  · rename_i x heq; rw [heq]
  · cases h

def cf_vr3 := (c02x_a2.raft.msgs.drop 1).head!
def cf_d1 := c02x_st (Node.call (c02x_boot 3) none (.step cf_vr3))
def cf_d2 := c02x_st (Node.call cf_d1 none .stabilize)
def cf_p1 := c02x_st (Node.call c02x_a4 none (.propose [] [7]))
def cf_p2 := c02x_st (Node.call cf_p1 none .drain)
def cf_app12 := cf_p1.raft.msgs.head!
def cf_e1 := c02x_st (Node.call c02x_b3 none (.step cf_app12))
def cf_e2 := c02x_st (Node.call cf_e1 none .drain)
def cf_app13 := (cf_p1.raft.msgs.drop 1).head!
def cf_f1 := c02x_st (Node.call cf_d2 none (.step cf_app13))
def cf_f2 := c02x_st (Node.call cf_f1 none .drain)
def cf_r12 := cf_e1.raft.msgs.head!
def cf_p3 := c02x_st (Node.call cf_p2 none (.step cf_r12))
def cf_r13 := (cf_f1.raft.msgs.drop 1).head!
def cf_p4 := c02x_st (Node.call cf_p3 none (.step cf_r13))
def cf_p5 := c02x_st (Node.call cf_p4 none .drain)
def cf_app22 := cf_p4.raft.msgs.head!
def cf_e3 := c02x_st (Node.call cf_e2 none (.step cf_app22))
def cf_e4 := c02x_st (Node.call cf_e3 none .drain)
def cf_app23 := (cf_p4.raft.msgs.drop 2).head!
def cf_f3 := c02x_st (Node.call cf_f2 none (.step cf_app23))
def cf_f4 := c02x_st (Node.call cf_f3 none .drain)
def cf_r22 := cf_e3.raft.msgs.head!
def cf_p6 := c02x_st (Node.call cf_p5 none (.step cf_r22))
def cf_r23 := cf_f3.raft.msgs.head!
def cf_p7 := c02x_st (Node.call cf_p6 none (.step cf_r23))
def cf_p8 := c02x_st (Node.call cf_p7 none .drain)
def cf_app32 := cf_p7.raft.msgs.head!
def cf_e5 := c02x_st (Node.call cf_e4 none (.step cf_app32))
abbrev cf_q1 := cf_bootOf 1 cf_p8
abbrev cf_g1 := cf_bootOf 3 cf_f4
def cf_g2 := c02x_st (Node.call cf_g1 none .campaign)
def cf_g3 := c02x_st (Node.call cf_g2 none .stabilize)
def cf_g4 := c02x_st (Node.call cf_g3 none .drain)
def cf_vr1 := cf_g3.raft.msgs.head!
def cf_q2 := c02x_st (Node.call cf_q1 none (.step cf_vr1))
def cf_q3 := c02x_st (Node.call cf_q2 none .stabilize)
def cf_q4 := c02x_st (Node.call cf_q3 none .drain)
def cf_gr := cf_q3.raft.msgs.head!
def cf_g5 := c02x_st (Node.call cf_g4 none (.step cf_gr))
def cf_g6 := c02x_st (Node.call cf_g5 none (.setBatchAppend true))
def cf_g7 := c02x_st (Node.call cf_g6 none .drain)
def cf_napp := (cf_g6.raft.msgs.drop 1).head!
def cf_e6 := c02x_st (Node.call cf_e5 none (.step cf_napp))
def cf_e7 := c02x_st (Node.call cf_e6 none .stabilize)
def cf_e8 := c02x_st (Node.call cf_e7 none .drain)
def cf_nresp := (cf_e7.raft.msgs.drop 1).head!
def cf_g8 := c02x_st (Node.call cf_g7 none (.step cf_nresp))
def cf_g9 := c02x_st (Node.call cf_g8 none (.propose [] [1]))
def cf_g10 := c02x_st (Node.call cf_g9 none (.propose [] [2]))

def cf_s8 : Sys := c02x_s7.setNode 3 cf_d1
def cf_s9 : Sys := cf_s8.setNode 3 cf_d2
def cf_s10 : Sys := cf_s9.setNode 1 cf_p1
def cf_s11 : Sys :=
  { (cf_s10.setNode 1 cf_p2) with net := cf_s10.net ++ cf_p1.raft.msgs }
def cf_s12 : Sys := cf_s11.setNode 2 cf_e1
def cf_s13 : Sys :=
  { (cf_s12.setNode 2 cf_e2) with net := cf_s12.net ++ cf_e1.raft.msgs }
def cf_s14 : Sys := cf_s13.setNode 3 cf_f1
def cf_s15 : Sys :=
  { (cf_s14.setNode 3 cf_f2) with net := cf_s14.net ++ cf_f1.raft.msgs }
def cf_s16 : Sys := cf_s15.setNode 1 cf_p3
def cf_s17 : Sys := cf_s16.setNode 1 cf_p4
def cf_s18 : Sys :=
  { (cf_s17.setNode 1 cf_p5) with net := cf_s17.net ++ cf_p4.raft.msgs }
def cf_s19 : Sys := cf_s18.setNode 2 cf_e3
def cf_s20 : Sys :=
  { (cf_s19.setNode 2 cf_e4) with net := cf_s19.net ++ cf_e3.raft.msgs }
def cf_s21 : Sys := cf_s20.setNode 3 cf_f3
def cf_s22 : Sys :=
  { (cf_s21.setNode 3 cf_f4) with net := cf_s21.net ++ cf_f3.raft.msgs }
def cf_s23 : Sys := cf_s22.setNode 1 cf_p6
def cf_s24 : Sys := cf_s23.setNode 1 cf_p7
def cf_s25 : Sys :=
  { (cf_s24.setNode 1 cf_p8) with net := cf_s24.net ++ cf_p7.raft.msgs }
def cf_s26 : Sys := cf_s25.setNode 2 cf_e5
def cf_s27 : Sys := cf_s26.setNode 1 cf_q1
def cf_s28 : Sys := cf_s27.setNode 3 cf_g1
def cf_s29 : Sys := cf_s28.setNode 3 cf_g2
def cf_s30 : Sys := cf_s29.setNode 3 cf_g3
def cf_s31 : Sys :=
  { (cf_s30.setNode 3 cf_g4) with net := cf_s30.net ++ cf_g3.raft.msgs }
def cf_s32 : Sys := cf_s31.setNode 1 cf_q2
def cf_s33 : Sys := cf_s32.setNode 1 cf_q3
def cf_s34 : Sys :=
  { (cf_s33.setNode 1 cf_q4) with net := cf_s33.net ++ cf_q3.raft.msgs }
def cf_s35 : Sys := cf_s34.setNode 3 cf_g5
def cf_s36 : Sys := cf_s35.setNode 3 cf_g6
def cf_s37 : Sys :=
  { (cf_s36.setNode 3 cf_g7) with net := cf_s36.net ++ cf_g6.raft.msgs }
def cf_s38 : Sys := cf_s37.setNode 2 cf_e6
def cf_s39 : Sys := cf_s38.setNode 2 cf_e7
def cf_s40 : Sys :=
  { (cf_s39.setNode 2 cf_e8) with net := cf_s39.net ++ cf_e7.raft.msgs }
def cf_s41 : Sys := cf_s40.setNode 3 cf_g8
def cf_s42 : Sys := cf_s41.setNode 3 cf_g9
def cf_s43 : Sys := cf_s42.setNode 3 cf_g10

def cf_hist : List Sys :=
  c02x_hist ++ [cf_s8, cf_s9, cf_s10, cf_s11, cf_s12, cf_s13, cf_s14, cf_s15, cf_s16, cf_s17, cf_s18, cf_s19, cf_s20, cf_s21, cf_s22, cf_s23, cf_s24, cf_s25, cf_s26, cf_s27, cf_s28, cf_s29, cf_s30, cf_s31, cf_s32, cf_s33, cf_s34, cf_s35, cf_s36, cf_s37, cf_s38, cf_s39, cf_s40, cf_s41, cf_s42, cf_s43]

set_option maxRecDepth 100000 in
theorem cf_csteps : Chained CStep cf_hist := by
  refine ⟨?_, ?_, ?_, ?_, ?_, ?_, ?_, ?_, ?_, ?_, ?_, ?_, ?_, ?_, ?_, ?_, ?_, ?_, ?_, ?_, ?_, ?_, ?_, ?_, ?_, ?_, ?_, ?_, ?_, ?_, ?_, ?_, ?_, ?_, ?_, ?_, ?_, ?_, ?_, ?_, ?_, ?_, ?_, trivial⟩
  · exact CStep.call _ 1 (c02x_boot 1) c02x_a1 none .campaign _ rfl rfl
      (fun k hc => by cases hc) (c02x_out _ (by decide +kernel))
  · exact CStep.call _ 1 c02x_a1 c02x_a2 none .stabilize _ rfl rfl
      (fun k hc => by cases hc) (c02x_out _ (by decide +kernel))
  · exact CStep.send _ 1 c02x_a2 c02x_a3 rfl ⟨by decide +kernel, by decide +kernel⟩ rfl
  · exact CStep.deliver _ 2 (c02x_boot 2) c02x_b1 none c02x_req _ rfl
      (c02x_head_mem _ (by decide +kernel)) (by decide +kernel) (c02x_out _ (by decide +kernel))
  · exact CStep.call _ 2 c02x_b1 c02x_b2 none .stabilize _ rfl rfl
      (fun k hc => by cases hc) (c02x_out _ (by decide +kernel))
  · exact CStep.send _ 2 c02x_b2 c02x_b3 rfl ⟨by decide +kernel, by decide +kernel⟩ rfl
  · exact CStep.deliver _ 1 c02x_a3 c02x_a4 none c02x_resp _ rfl
      (List.mem_append_right _ (c02x_head_mem _ (by decide +kernel))) (by decide +kernel) (c02x_out _ (by decide +kernel))
  · exact CStep.deliver _ 3 (c02x_boot 3) cf_d1 none cf_vr3 _ rfl
      (by decide +kernel) (by decide +kernel) (c02x_out _ (by decide +kernel))
  · exact CStep.call _ 3 cf_d1 cf_d2 none .stabilize _ rfl rfl
      (fun k hc => by cases hc) (c02x_out _ (by decide +kernel))
  · exact CStep.call _ 1 c02x_a4 cf_p1 none (.propose [] [7]) _ rfl rfl
      (fun k hc => by cases hc) (c02x_out _ (by decide +kernel))
  · exact CStep.send _ 1 cf_p1 cf_p2 rfl ⟨by decide +kernel, by decide +kernel⟩ rfl
  · exact CStep.deliver _ 2 c02x_b3 cf_e1 none cf_app12 _ rfl
      (by decide +kernel) (by decide +kernel) (c02x_out _ (by decide +kernel))
  · exact CStep.send _ 2 cf_e1 cf_e2 rfl ⟨by decide +kernel, by decide +kernel⟩ rfl
  · exact CStep.deliver _ 3 cf_d2 cf_f1 none cf_app13 _ rfl
      (by decide +kernel) (by decide +kernel) (c02x_out _ (by decide +kernel))
  · exact CStep.send _ 3 cf_f1 cf_f2 rfl ⟨by decide +kernel, by decide +kernel⟩ rfl
  · exact CStep.deliver _ 1 cf_p2 cf_p3 none cf_r12 _ rfl
      (by decide +kernel) (by decide +kernel) (c02x_out _ (by decide +kernel))
  · exact CStep.deliver _ 1 cf_p3 cf_p4 none cf_r13 _ rfl
      (by decide +kernel) (by decide +kernel) (c02x_out _ (by decide +kernel))
  · exact CStep.send _ 1 cf_p4 cf_p5 rfl ⟨by decide +kernel, by decide +kernel⟩ rfl
  · exact CStep.deliver _ 2 cf_e2 cf_e3 none cf_app22 _ rfl
      (by decide +kernel) (by decide +kernel) (c02x_out _ (by decide +kernel))
  · exact CStep.send _ 2 cf_e3 cf_e4 rfl ⟨by decide +kernel, by decide +kernel⟩ rfl
  · exact CStep.deliver _ 3 cf_f2 cf_f3 none cf_app23 _ rfl
      (by decide +kernel) (by decide +kernel) (c02x_out _ (by decide +kernel))
  · exact CStep.send _ 3 cf_f3 cf_f4 rfl ⟨by decide +kernel, by decide +kernel⟩ rfl
  · exact CStep.deliver _ 1 cf_p5 cf_p6 none cf_r22 _ rfl
      (by decide +kernel) (by decide +kernel) (c02x_out _ (by decide +kernel))
  · exact CStep.deliver _ 1 cf_p6 cf_p7 none cf_r23 _ rfl
      (by decide +kernel) (by decide +kernel) (c02x_out _ (by decide +kernel))
  · exact CStep.send _ 1 cf_p7 cf_p8 rfl ⟨by decide +kernel, by decide +kernel⟩ rfl
  · exact CStep.deliver _ 2 cf_e4 cf_e5 none cf_app32 _ rfl
      (by decide +kernel) (by decide +kernel) (c02x_out _ (by decide +kernel))
  · have hb := cf_bootOf_eq 1 cf_p8 (by decide +kernel)
    exact CStep.restart _ 1 cf_p8 cf_q1 (c02x_config 1) none rfl rfl hb
  · have hb := cf_bootOf_eq 3 cf_f4 (by decide +kernel)
    exact CStep.restart _ 3 cf_f4 cf_g1 (c02x_config 3) none rfl rfl hb
  · exact CStep.call _ 3 cf_g1 cf_g2 none .campaign _ rfl rfl
      (fun k hc => by cases hc) (c02x_out _ (by decide +kernel))
  · exact CStep.call _ 3 cf_g2 cf_g3 none .stabilize _ rfl rfl
      (fun k hc => by cases hc) (c02x_out _ (by decide +kernel))
  · exact CStep.send _ 3 cf_g3 cf_g4 rfl ⟨by decide +kernel, by decide +kernel⟩ rfl
  · exact CStep.deliver _ 1 cf_q1 cf_q2 none cf_vr1 _ rfl
      (by decide +kernel) (by decide +kernel) (c02x_out _ (by decide +kernel))
  · exact CStep.call _ 1 cf_q2 cf_q3 none .stabilize _ rfl rfl
      (fun k hc => by cases hc) (c02x_out _ (by decide +kernel))
  · exact CStep.send _ 1 cf_q3 cf_q4 rfl ⟨by decide +kernel, by decide +kernel⟩ rfl
  · exact CStep.deliver _ 3 cf_g4 cf_g5 none cf_gr _ rfl
      (by decide +kernel) (by decide +kernel) (c02x_out _ (by decide +kernel))
  · exact CStep.call _ 3 cf_g5 cf_g6 none (.setBatchAppend true) _ rfl rfl
      (fun k hc => by cases hc) (c02x_out _ (by decide +kernel))
  · exact CStep.send _ 3 cf_g6 cf_g7 rfl ⟨by decide +kernel, by decide +kernel⟩ rfl
  · exact CStep.deliver _ 2 cf_e5 cf_e6 none cf_napp _ rfl
      (by decide +kernel) (by decide +kernel) (c02x_out _ (by decide +kernel))
  · exact CStep.call _ 2 cf_e6 cf_e7 none .stabilize _ rfl rfl
      (fun k hc => by cases hc) (c02x_out _ (by decide +kernel))
  · exact CStep.send _ 2 cf_e7 cf_e8 rfl ⟨by decide +kernel, by decide +kernel⟩ rfl
  · exact CStep.deliver _ 3 cf_g7 cf_g8 none cf_nresp _ rfl
      (by decide +kernel) (by decide +kernel) (c02x_out _ (by decide +kernel))
  · exact CStep.call _ 3 cf_g8 cf_g9 none (.propose [] [1]) _ rfl rfl
      (fun k hc => by cases hc) (c02x_out _ (by decide +kernel))
  · exact CStep.call _ 3 cf_g9 cf_g10 none (.propose [] [2]) _ rfl rfl
      (fun k hc => by cases hc) (c02x_out _ (by decide +kernel))

theorem cf_history : History cf_hist := by
  have := chained_history [] c02x_s0 (History.init _ c02x_init) _
    (Chained.mono (fun _ _ hc => hc.step) _ cf_csteps)
  simpa [cf_hist, c02x_hist] using this

set_option maxRecDepth 100000 in
theorem cf_fixed_all : ∀ s ∈ cf_hist, FixedCfg c02x_cfg s := by
  have h : cf_hist.all c02x_fixed = true := by decide +kernel
  intro s hs
  exact c02x_fixed_ok s (List.all_eq_true.1 h s hs)

/-- the glued message in the queue of node 3 -/
def cf_bad : Message := cf_g10.raft.msgs.head!

set_option maxRecDepth 100000 in
/-- **the same finding from a fresh cluster**: a history of `ClusterSem` that starts with three nodes
booted from EMPTY storages (`c02x_s0`, the start of `C02_cluster_nonvacuous`; voters `{1, 2, 3}`),
proceeds by 43 contract-abiding steps — among them two `restart`s, of nodes whose acknowledged entries
were never persisted — and ends with node 3 leader of term 2, batching on, holding in its queue a
`MsgAppend` for node 2 anchored at `(2, 0)` that carries its entry 3, while its log holds an entry of
term 2 at index 2. -/
theorem C05_batch_counterexample_fresh :
    ∃ h : List Sys, History h ∧ h[0]? = some c02x_s0 ∧ (∀ s ∈ h, FixedCfg c02x_cfg s) ∧
      InitOk c02x_s0 ∧
      (∀ (n : Nat) (a b : Sys), h[n]? = some a → h[n + 1]? = some b → CStep a b) ∧
      ∃ s ∈ h, ∃ x st e b, leads s 3 2 ∧ InFlight s x ∧ s.node 3 = some st ∧
        st.raft.batchAppend = true ∧ x.frm = 3 ∧ x.to = 2 ∧ x.index = 2 ∧ x.logTerm = 0 ∧
        x.entries = [e] ∧ e.index = 3 ∧ e.term = 2 ∧
        st.raft.raftLog.abs.entryAt e.index = some e ∧
        st.raft.raftLog.abs.entryAt x.index = some b ∧ b.term = 2 ∧ b.term ≠ x.logTerm := by
  refine ⟨cf_hist, cf_history, rfl, cf_fixed_all, c05x_initOk, chained_at _ cf_csteps, ?_⟩
  exact ⟨cf_s43, by simp [cf_hist], cf_bad, cf_g10, cf_bad.entries.head!,
    (cf_g10.raft.raftLog.abs.ents.drop 1).head!,
    ⟨cf_g10, rfl, by decide +kernel, by decide +kernel⟩,
    ⟨by decide +kernel, .inr ⟨3, cf_g10, rfl, c02x_head_mem _ (by decide +kernel)⟩⟩, rfl,
    by decide +kernel, by decide +kernel, by decide +kernel, by decide +kernel, by decide +kernel,
    by decide +kernel, by decide +kernel, by decide +kernel, by decide +kernel, by decide +kernel,
    by decide +kernel, by decide +kernel⟩

end Counterexample

/-! ## 5. Non-vacuity of the `…_batch` theorems: a leader that batches (kernel-evaluated)

The history of `C05_cluster_nonvacuous` (node 1 leader of term 1, node 2 has appended the empty entry
and queued its acknowledgement) continued by five steps: node 2 sends the acknowledgement, node 1 is
delivered it (the progress of node 2 becomes `Replicate`; an entry-less `MsgAppend` anchored at
`(1, 1)` is queued), node 1 switches `batch_append` on, and two proposals follow without a `send` in
between: `try_batching` glues entry 2 and then entry 3 onto the queued message. -/

section Examples

def c05y_b5 := c02x_st (Node.call c05x_b4 none .drain)
def c05y_resp := c05x_b4.raft.msgs.head!
def c05y_a7 := c02x_st (Node.call c05x_a6 none (.step c05y_resp))
def c05y_a8 := c02x_st (Node.call c05y_a7 none (.setBatchAppend true))
def c05y_a9 := c02x_st (Node.call c05y_a8 none (.propose [] [1]))
def c05y_a10 := c02x_st (Node.call c05y_a9 none (.propose [] [2]))
/-- the glued `MsgAppend` of node 1 for node 2 -/
def c05y_app := c05y_a10.raft.msgs.head!

def c05y_s11 : Sys :=
  { (c05x_s10.setNode 2 c05y_b5) with net := c05x_s10.net ++ c05x_b4.raft.msgs }
def c05y_s12 : Sys := c05y_s11.setNode 1 c05y_a7
def c05y_s13 : Sys := c05y_s12.setNode 1 c05y_a8
def c05y_s14 : Sys := c05y_s13.setNode 1 c05y_a9
def c05y_s15 : Sys := c05y_s14.setNode 1 c05y_a10

def c05y_hist : List Sys :=
  c02x_hist ++ [c05x_s8, c05x_s9, c05x_s10, c05y_s11, c05y_s12, c05y_s13, c05y_s14, c05y_s15]

set_option maxRecDepth 100000 in
theorem c05y_csteps : Chained CStep c05y_hist := by
  refine ⟨?_, ?_, ?_, ?_, ?_, ?_, ?_, ?_, ?_, ?_, ?_, ?_, ?_, ?_, ?_, trivial⟩
  · exact CStep.call _ 1 (c02x_boot 1) c02x_a1 none .campaign _ rfl rfl
      (fun k hc => by cases hc) (c02x_out _ (by decide))
  · exact CStep.call _ 1 c02x_a1 c02x_a2 none .stabilize _ rfl rfl
      (fun k hc => by cases hc) (c02x_out _ (by decide))
  · exact CStep.send _ 1 c02x_a2 c02x_a3 rfl ⟨by decide, by decide⟩ rfl
  · exact CStep.deliver _ 2 (c02x_boot 2) c02x_b1 none c02x_req _ rfl
      (c02x_head_mem _ (by decide)) (by decide) (c02x_out _ (by decide))
  · exact CStep.call _ 2 c02x_b1 c02x_b2 none .stabilize _ rfl rfl
      (fun k hc => by cases hc) (c02x_out _ (by decide))
  · exact CStep.send _ 2 c02x_b2 c02x_b3 rfl ⟨by decide, by decide⟩ rfl
  · exact CStep.deliver _ 1 c02x_a3 c02x_a4 none c02x_resp _ rfl
      (List.mem_append_right _ (c02x_head_mem _ (by decide))) (by decide) (c02x_out _ (by decide))
  · exact CStep.call _ 1 c02x_a4 c05x_a5 none .stabilize _ rfl rfl
      (fun k hc => by cases hc) (c02x_out _ (by decide))
  · exact CStep.send _ 1 c05x_a5 c05x_a6 rfl ⟨by decide, by decide⟩ rfl
  · exact CStep.deliver _ 2 c02x_b3 c05x_b4 none c05x_app _ rfl
      (List.mem_append_right _ (c02x_head_mem _ (by decide))) (by decide) (c02x_out _ (by decide))
  · exact CStep.send _ 2 c05x_b4 c05y_b5 rfl ⟨by decide, by decide⟩ rfl
  · exact CStep.deliver _ 1 c05x_a6 c05y_a7 none c05y_resp _ rfl
      (List.mem_append_right _ (c02x_head_mem _ (by decide))) (by decide) (c02x_out _ (by decide))
  · exact CStep.call _ 1 c05y_a7 c05y_a8 none (.setBatchAppend true) _ rfl rfl
      (fun k hc => by cases hc) (c02x_out _ (by decide))
  · exact CStep.call _ 1 c05y_a8 c05y_a9 none (.propose [] [1]) _ rfl rfl
      (fun k hc => by cases hc) (c02x_out _ (by decide))
  · exact CStep.call _ 1 c05y_a9 c05y_a10 none (.propose [] [2]) _ rfl rfl
      (fun k hc => by cases hc) (c02x_out _ (by decide))

theorem c05y_history : History c05y_hist := by
  have := chained_history [] c02x_s0 (History.init _ c02x_init) _
    (Chained.mono (fun _ _ hc => hc.step) _ c05y_csteps)
  simpa [c05y_hist, c02x_hist] using this

def c05y_sane (s : Sys) : Bool :=
  s.nodes.all (fun p => p.2.raft.msgs.all (fun x =>
    x.msgType != .msgAppend || x.logTerm != 0 || x.index == 0))

theorem c05y_sane_ok (s : Sys) (h : c05y_sane s = true) : SaneAnchors s := by
  intro i st hn x hx hty h0
  have hm := c02_lookup_mem s.nodes i st hn
  unfold c05y_sane at h
  rw [List.all_eq_true] at h
  have h1 := h _ hm
  rw [List.all_eq_true] at h1
  have h2 := h1 x hx
  simp only [hty, h0, bne_self_eq_false, Bool.false_or, beq_iff_eq] at h2
  exact h2

set_option maxRecDepth 100000 in
theorem c05y_fixed_all : ∀ s ∈ c05y_hist, FixedCfg c02x_cfg s ∧ SaneAnchors s := by
  intro s hs
  simp only [c05y_hist, c02x_hist, List.cons_append, List.nil_append, List.mem_cons,
    List.not_mem_nil, or_false] at hs
  rcases hs with rfl | rfl | rfl | rfl | rfl | rfl | rfl | rfl | rfl | rfl | rfl | rfl | rfl | rfl |
    rfl | rfl <;> exact ⟨c02x_fixed_ok _ (by decide), c05y_sane_ok _ (by decide)⟩

theorem c05y_batchOk : BatchOk c02x_cfg c05y_hist :=
  .inr ⟨⟨1, 2, by decide, by decide, by decide⟩, fun s hs => (c05y_fixed_all s hs).2⟩

set_option maxRecDepth 100000 in
/-- **non-vacuity of the `…_batch` theorems**: there is a history of `ClusterSem` that satisfies every
hypothesis of the theorems above through the second branch of `BatchOk` (two voters, sane anchors),
in which batching is on and effective: in the last state node 1 — leader of term 1 with
`batch_append = true` — has queued ONE `MsgAppend` for node 2 that carries the entries 2 and 3 of two
successive proposals, glued by `try_batching` onto an entry-less append anchored at `(1, 1)`, and its
log holds both entries. -/
theorem C05_cluster_batch_nonvacuous :
    ∃ h : List Sys, History h ∧ (∀ s ∈ h, FixedCfg c02x_cfg s) ∧
      c02x_cfg.incoming ≠ [] ∧ c02x_cfg.incoming.Nodup ∧ c02x_cfg.outgoing.Nodup ∧
      (∀ s : Sys, h[0]? = some s → InitOk s) ∧
      (∀ (n : Nat) (a b : Sys), h[n]? = some a → h[n + 1]? = some b → CStep a b) ∧
      MultiVoter c02x_cfg ∧ (∀ s ∈ h, SaneAnchors s) ∧ ¬ (∀ s ∈ h, NoBatch s) ∧
      ∃ s ∈ h, ∃ st1 x e2 e3, leads s 1 1 ∧ s.node 1 = some st1 ∧ st1.raft.batchAppend = true ∧
        x ∈ st1.raft.msgs ∧ x.msgType = .msgAppend ∧ x.frm = 1 ∧ x.to = 2 ∧
        x.index = 1 ∧ x.logTerm = 1 ∧ x.entries = [e2, e3] ∧ e2.index = 2 ∧ e3.index = 3 ∧
        st1.raft.raftLog.abs.entryAt 2 = some e2 ∧ st1.raft.raftLog.abs.entryAt 3 = some e3 := by
  refine ⟨c05y_hist, c05y_history, fun s hs => (c05y_fixed_all s hs).1, by decide, by decide,
    by decide, ?_, chained_at _ c05y_csteps, ⟨1, 2, by decide, by decide, by decide⟩,
    fun s hs => (c05y_fixed_all s hs).2, ?_, ?_⟩
  · intro s hs
    have : c05y_hist[0]? = some c02x_s0 := rfl
    rw [this] at hs
    cases hs
    exact c05x_initOk
  · intro hnb
    have := hnb c05y_s15 (by simp [c05y_hist]) 1 c05y_a10 rfl
    revert this
    decide
  · exact ⟨c05y_s15, by simp [c05y_hist], c05y_a10, c05y_app, c05y_app.entries.head!,
      (c05y_app.entries.drop 1).head!, ⟨c05y_a10, rfl, by decide, by decide⟩, rfl, by decide,
      c02x_head_mem _ (by decide), by decide, by decide, by decide, by decide, by decide,
      by decide, by decide, by decide, by decide, by decide⟩

/-- … and the batching theorem applies to it: whatever a node's log holds at the anchor of a queued
or transported `MsgAppend` one of whose entries it holds has the anchor's term -/
example (s : Sys) (hs : s ∈ c05y_hist) (x : Message) (hx : InFlight s x) (j : Nat) (stj : NState)
    (hj : s.node j = some stj) (e : Entry) (he : e ∈ x.entries)
    (hje : stj.raft.raftLog.abs.entryAt e.index = some e) (b : Entry)
    (hb : stj.raft.raftLog.abs.entryAt x.index = some b) : b.term = x.logTerm :=
  ((C05_cluster_append_matches_batch c02x_cfg (by decide) (by decide) (by decide) c05y_hist
    c05y_history (fun s hs => (c05y_fixed_all s hs).1)
    (fun s hs => by
      have : c05y_hist[0]? = some c02x_s0 := rfl
      rw [this] at hs
      cases hs
      exact c05x_initOk)
    (chained_at _ c05y_csteps) c05y_batchOk s hs x hx j stj hj).2.2 e he e hje rfl).2 b hb

end Examples

end RaftProps.C05
