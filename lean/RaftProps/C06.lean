import RaftProofs.ProtoR
import RaftProofs.ProtoQuorum

/-!
# C06 — promises survive crashes: persist-before-send, one vote per term

Theorems about the abstract protocol P for every reachable state of every history (any schedule,
any crash point — `crash` may occur between any two events, in particular between `rdy`
(`ready()`), `persist` (the application's fsync) and `release` (sending); `restart` reloads the
durable image).  The tie to the code: the harness emits `rdy`/`persist`/`release` exactly where
the real `RawNode` and the application do these things, P rejects a `release` whose promise is not
covered by the durable image and a leader message from a node whose self-vote is not durable, and
the durable image P tracks is compared with the application's after every persist.

The log part of "never behind what it told" (an acknowledged prefix stays in the durable log while
the durable term is the acknowledging term) is stated at release time here
(`C06_release_obligation`); its stability is part of the log-layer invariants (C05/C04).
-/
namespace RaftProps.C06
open RaftModel.P

/-- **Within one incarnation the term never decreases**: every event other than a restart leaves
every node's term at least where it was. -/
theorem C06_term_monotone (s s' : PSys) (e : Event) (h : applyEvent s e = .ok s')
    (hnr : ∀ i, e ≠ .restart i) (j : Nat) : (s.nodes j).term ≤ (s'.nodes j).term := by
  cases e with
  | read r => obtain ⟨rd, hs⟩ := read_frame h; subst hs; exact Nat.le_refl _
  | restart i => exact absurd rfl (hnr i)
  | bump i t =>
    simp only [applyEvent, ok] at h
    split at h
    · rename_i hg; cases h
      by_cases hj : j = i
      · subst hj; simp only [upd, if_true]; omega
      · simp [upd, hj]
    · cases h
  | bootstrap i donor idx =>
    simp only [applyEvent, ok] at h
    split at h
    · rename_i hg; cases h
      by_cases hj : j = i
      · subst hj; simp only [upd, if_true]; omega
      · simp [upd, hj]
    · cases h
  | release i key =>
    simp only [applyEvent, ok] at h
    split at h
    · split at h
      · split at h
        · rename_i m _ _
          cases m <;> simp only [addReleased] at h <;> cases h <;> (exact Nat.le_refl _)
        · cases h
      · cases h
    · split at h
      · split at h
        · split at h
          · rename_i m _ _
            cases m <;> simp only [addReleased] at h <;> cases h <;>
              (by_cases hj : j = i <;> simp [upd, hj])
          · cases h
        · cases h
      · cases h
  | persist i k =>
    simp only [applyEvent, ok] at h
    split at h
    · split at h
      · cases h; by_cases hj : j = i <;> simp [upd, hj]
      · cases h
    · cases h
  | installSnap i t idx sterm =>
    simp only [applyEvent, ok] at h
    split at h
    · split at h
      · cases h; by_cases hj : j = i <;> simp [upd, hj]
      · cases h
    · cases h
  | commitSnap i t idx sterm =>
    simp only [applyEvent, ok] at h
    split at h
    · split at h
      · cases h; by_cases hj : j = i <;> simp [upd, hj]
      · cases h
    · cases h
  | grant i c =>
    simp only [applyEvent, ok] at h
    split at h
    · split at h
      · cases h; by_cases hj : j = i <;> simp [upd, hj]
      · cases h
    · cases h
  | campaign i | rdy i | crash i | win i cfg q | stepDown i | leaderAppend i e
  | recvApp i m | ackCommitted i | ackSelf i idx | commitLeader i c cfg q | commitApp i c m | commitHB i c m
  | commitClaim i m =>
    simp only [applyEvent, ok] at h
    split at h
    · cases h; by_cases hj : j = i <;> simp [upd, hj]
    · cases h
  | sendApp i m | sendHB i to c | claim i idx | sendSnap i idx =>
    simp only [applyEvent, ok] at h
    split at h
    · cases h; exact Nat.le_refl _
    · cases h

/-- a restart resumes from exactly the durable image -/
theorem C06_restart_from_durable (s s' : PSys) (i : Nat) (h : applyEvent s (.restart i) = .ok s') :
    (s'.nodes i).term = (s.nodes i).dterm ∧ (s'.nodes i).vote = (s.nodes i).dvote ∧
    (s'.nodes i).log = (s.nodes i).dlog ∧ (s'.nodes i).commit = (s.nodes i).dcommit := by
  simp only [applyEvent, ok] at h
  split at h
  · cases h; simp [upd]
  · cases h

/-- **Persist before send**: a vote request or a vote grant is released only if the durable image
covers it — the durable term is beyond the message's term, or equals it with the durable vote being
the promised one; an append acknowledgement is released only if it is covered by the durable image,
i.e. it was generated before an image (the Ready's writes) that has since been made durable. -/
theorem C06_release_obligation (s s' : PSys) (i : Nat) (key : OMsg)
    (h : applyEvent s (.release i key) = .ok s') :
    (key.isAck = true ∧ ∃ m ∈ (s.nodes i).dacks, sameKey key m = true) ∨
    (key.isAck = false ∧ ∃ m ∈ (s.nodes i).outbox, sameKey key m = true ∧ releasable (s.nodes i) m = true) := by
  simp only [applyEvent, ok] at h
  split at h
  · rename_i hk
    split at h
    · rename_i m hm
      exact Or.inl ⟨hk, m, List.mem_of_find?_eq_some hm, List.find?_some hm⟩
    · cases h
  · rename_i hk
    split at h
    · rename_i k hfk
      split at h
      · rename_i m hm
        split at h
        · rename_i hg
          refine Or.inr ⟨by simpa using hk, m, List.mem_of_getElem? hm, ?_, hg.2.1⟩
          have := List.findIdx?_eq_some_iff_getElem.mp hfk
          obtain ⟨hlt, hp, _⟩ := this
          have : (s.nodes i).outbox[k] = m := by
            have := List.getElem?_eq_getElem hlt
            rw [this] at hm
            exact Option.some.inj hm
          rw [← this]; exact hp
        · cases h
      · cases h
    · cases h

/-- what "covered by the durable image" means: the acknowledgements of an image are those generated
before the image was taken, and they become `dacks` exactly when that image is persisted -/
theorem C06_image_covers_generated_acks (s s' : PSys) (i : Nat) (h : applyEvent s (.rdy i) = .ok s') :
    ∃ im, (s'.nodes i).pending = (s.nodes i).pending ++ [im] ∧ im.log = (s.nodes i).log ∧
      im.term = (s.nodes i).term ∧ im.vote = (s.nodes i).vote ∧
      ∀ m, m ∈ im.acks ↔ (m ∈ (s.nodes i).outbox ∧ m.isAck = true) := by
  simp only [applyEvent, ok] at h
  split at h
  · cases h
    refine ⟨image (s.nodes i), by simp [upd], rfl, rfl, rfl, ?_⟩
    intro m; simp [image, List.mem_filter]
  · cases h

/-- **A released vote stays covered by the durable state forever** (in particular after any crash
and restart): the voter's durable term is beyond the vote's term, or equals it with the durable
vote naming the same candidate. -/
theorem C06_vote_promise_durable (s : PSys) (hr : Reach s) (g : Grant)
    (hg : g ∈ s.grants) :
    g.term < (s.nodes g.voter).dterm ∨
      (g.term = (s.nodes g.voter).dterm ∧ (s.nodes g.voter).dvote = g.cand) :=
  ((invV_reachR s hr).g1 g hg).2

/-- **At most one candidate per term, ever**, per voter (across incarnations). -/
theorem C06_one_vote_per_term_ever (s : PSys) (hr : Reach s)
    (g1 g2 : Grant) (h1 : g1 ∈ s.grants) (h2 : g2 ∈ s.grants)
    (ht : g1.term = g2.term) (hv : g1.voter = g2.voter) : g1.cand = g2.cand := by
  have I := invV_reachR s hr
  exact I.gc g1.voter g1 g2 (Or.inr ⟨h1, rfl⟩) (Or.inr ⟨h2, hv.symm⟩) ht

/-- the durable term is never behind a released vote request or acknowledgement, at any later time -/
theorem C06_term_promise_durable (s : PSys) (hr : Reach s) :
    (∀ r ∈ s.reqs, r.term ≤ (s.nodes r.cand).dterm) ∧ (∀ a ∈ s.acks, a.term ≤ (s.nodes a.frm).dterm) :=
  ⟨(invR_reachR s hr).rq, (invR_reachR s hr).ak⟩

/-- the volatile state is never behind the durable one, and a node that restarts is therefore never
behind any vote it released: its term is at least the vote's term and, if equal, its vote is that
candidate -/
theorem C06_restart_not_behind_votes (s s' : PSys) (hr : Reach s) (i : Nat)
    (h : applyEvent s (.restart i) = .ok s') (g : Grant) (hg : g ∈ s.grants) (hv : g.voter = i) :
    g.term < (s'.nodes i).term ∨ (g.term = (s'.nodes i).term ∧ (s'.nodes i).vote = g.cand) := by
  have hd := C06_restart_from_durable s s' i h
  have := C06_vote_promise_durable s hr g hg
  rw [hv] at this
  rw [hd.1, hd.2.1]
  exact this

/-- **A leader's term and self-vote are durable**: whatever a node sends as leader of a term is
sent while `(term, vote = self)` is in its durable image. -/
theorem C06_leader_durable (s : PSys) (hr : Reach s) (i : Nat)
    (h : (s.nodes i).role = 2) :
    (s.nodes i).dterm = (s.nodes i).term ∧ (s.nodes i).dvote = i := by
  have := (invV_reachR s hr).ld i h
  exact ⟨this.2.1, this.2.2.1⟩

/-- leader traffic (append, heartbeat, snapshot) is released only by a node in the leader role -/
theorem C06_leader_traffic_obligation (s s' : PSys) (i : Nat) :
    (∀ m, applyEvent s (.sendApp i m) = .ok s' → (s.nodes i).role = 2 ∧ m.term = (s.nodes i).term) ∧
    (∀ to c, applyEvent s (.sendHB i to c) = .ok s' → (s.nodes i).role = 2) ∧
    (∀ idx, applyEvent s (.sendSnap i idx) = .ok s' → (s.nodes i).role = 2) := by
  refine ⟨?_, ?_, ?_⟩
  · intro m h
    simp only [applyEvent, ok] at h
    split at h
    · rename_i hg; exact ⟨hg.2.1, hg.2.2.1⟩
    · cases h
  · intro to c h
    simp only [applyEvent, ok] at h
    split at h
    · rename_i hg; exact hg.2.1
    · cases h
  · intro idx h
    simp only [applyEvent, ok] at h
    split at h
    · rename_i hg; exact hg.2.1
    · cases h

/-! ### non-vacuity: a grant is generated, refused release before the fsync, released after it,
and survives a crash -/

def h0 : List Event :=
  [.bump 1 1, .campaign 1, .rdy 1, .persist 1 1, .release 1 (.voteReq 1 1 0 0), .bump 2 1, .grant 2 1, .rdy 2]

example : (match run init (h0 ++ [.release 2 (.grant 1 2 1 {})]) with
    | .ok _ => "released" | .error _ => "refused") = "refused" := by decide

example : (match run init (h0 ++ [.persist 2 1, .release 2 (.grant 1 2 1 {}), .crash 2, .restart 2]) with
    | .ok s => ((s.nodes 2).term, (s.nodes 2).vote, s.grants.length) | .error _ => (0, 0, 0)) = (1, 1, 1) := by
  decide

/-- a crash before the fsync loses the vote: the node restarts at term 0 and never released it -/
example : (match run init (h0 ++ [.crash 2, .restart 2]) with
    | .ok s => ((s.nodes 2).term, (s.nodes 2).vote, s.grants.length) | .error _ => (9, 9, 9)) = (0, 0, 0) := by
  decide

end RaftProps.C06
