import RaftProofs.ProtoRead

/-!
# C08 — ReadIndex (Safe mode) is linearizable

Proved here on the abstract protocol P with its read-index layer (`RaftModel/Proto.lean`: the
application issues a request with a unique context on a node; a leader that has committed an entry of
its own term registers it with its commit index as read index; nodes confirm heartbeats sent
afterwards; the leader answers once a deciding quorum — itself included — has confirmed its
leadership since; the answer is handed out locally or travels back to the issuing node), for
**every history** (any interleaving, loss / duplication / reordering / delay of any message, stale
leaders, partitions, crash and restart, leader changes) under a fixed voter configuration with at
least one voter:

* `C08_linearizable`: every read state ever handed to the application for a request carries an index
  at least as large as the commit index **every** node had when the request was issued, and it is
  handed out on the node where the request was issued;
* `C08_read_state_safe` / `C08_response_safe`: the invariant form (the index covers every leader
  commit recorded when the request was issued), for read states and for responses still in flight;
* `C08_read_state_obligation`: what a read state needs, read off the step function.

Why a superseded leader cannot answer: every leader commit of a later term that existed when the
request was issued was acknowledged durably by a deciding quorum before that moment; the quorum
that confirms the stale leader's heartbeats after that moment shares a node with it, and that node's
term can no longer be the stale leader's (`InvRd.hb`, `read_confirmed` in `RaftProofs/ProtoRead.lean`).
A leader of the right term covers all earlier commits because it must have committed an entry of its
own term (Leader Completeness, C03) — dropping that condition is exactly finding F9.

The tie to the code: on every simulated history the harness reports each read_index call, each
registration in `ReadOnly` (with the index the real leader recorded), each heartbeat response that
carries a context, each `MsgReadIndexResp` and each `ReadState` to P, whose step function must accept
them; the C08 monitor compares every read state with the highest commit index of any node at the
time of the call.  Node-local parts (`readIndex_requires_own_term_commit`, queue handling) are
covered by the node model (`RaftProps/RN.lean`).  Histories with membership changes: trace validation
and monitor only (F9 was such a history).
-/
namespace RaftProps.C08
open RaftModel.P

/-- a read state is handed to the application only on the node where the request was issued, and
only if it is a released response for that node or the node is a leader that registered the request
with this index in its current term and whose leadership a deciding quorum has confirmed since -/
theorem C08_read_state_obligation (s s' : PSys) (j rid idx : Nat) (cfg : Cfg)
    (h : applyEvent s (.read (.rstate j rid idx cfg)) = .ok s') :
    ∃ r ∈ s.rd.issued, r.rid = rid ∧ r.node = j ∧
      (⟨rid, j, idx⟩ ∈ s.rd.resps ∨
        ((s.nodes j).role = 2 ∧ ⟨rid, j, (s.nodes j).term, idx⟩ ∈ s.rd.started ∧
          rdQuorum s cfg j (s.nodes j).term rid = true)) := by
  simp only [applyEvent, applyRead, ok] at h
  split at h
  · rename_i rd hrd
    split at hrd
    · rename_i r hr
      split at hrd
      · rename_i hg
        have hp := List.find?_some hr
        simp only [decide_eq_true_eq] at hp
        refine ⟨r, List.mem_of_find?_eq_some hr, hp, hg.2.1, ?_⟩
        rcases hg.2.2 with h1 | h1
        · left; simpa [List.contains_iff_mem] using h1
        · right; exact ⟨h1.1, by simpa [List.contains_iff_mem] using h1.2.1, h1.2.2.1⟩
      · cases hrd
    · cases hrd
  · cases h

/-- a request is registered only by a node in the leader role that has committed an entry of its own
term, with its commit index as read index -/
theorem C08_registration_obligation (s s' : PSys) (i rid : Nat)
    (h : applyEvent s (.read (.start i rid)) = .ok s') :
    (s.nodes i).role = 2 ∧ 0 < (s.nodes i).commit ∧
    termAt (s.nodes i).log (s.nodes i).commit = (s.nodes i).term ∧
    s'.rd.started = ⟨rid, i, (s.nodes i).term, (s.nodes i).commit⟩ :: s.rd.started := by
  simp only [applyEvent, applyRead, ok] at h
  split at h
  · rename_i rd hrd
    split at hrd
    · rename_i hg
      cases hrd; cases h
      exact ⟨hg.2.1, hg.2.2.2.1, hg.2.2.2.2, rfl⟩
    · cases hrd
  · cases h

/-- invariant form: every read state handed out goes to the issuing node and covers every leader
commit that existed when the request was issued -/
theorem C08_read_state_safe (s : PSys)
    (hr : Reach s) (d : ReadResp) (hd : d ∈ s.rd.done) : SafeAnswer s d :=
  read_done_safeR s hr d hd

/-- the same for responses still travelling to the issuing node -/
theorem C08_response_safe (s : PSys)
    (hr : Reach s) (d : ReadResp) (hd : d ∈ s.rd.resps) : SafeAnswer s d :=
  read_resp_safeR s hr d hd

theorem reach_run : ∀ (es : List Event) (s s' : PSys), Reach s → run s es = .ok s' → Reach s' := by
  intro es
  induction es with
  | nil => intro s s' hr h; simp only [run] at h; cases h; exact hr
  | cons e es ih =>
    intro s s' hr h
    simp only [run] at h
    split at h
    · rename_i s1 h1
      exact ih s1 s' (.step e hr h1) h
    · cases h

/-- **Linearizability of Safe ReadIndex.**  Take any reachable state `s0`, issue request `rid` on node
`i`, continue the history in any way; if a read state for `rid` is ever handed to the application, it
is handed out on node `i` and its index is at least the commit index that every node had in `s0`. -/
theorem C08_linearizable (s0 s1 s2 : PSys)
    (hr : Reach s0) (i rid : Nat) (hissue : applyEvent s0 (.read (.issue i rid)) = .ok s1)
    (es : List Event) (hrun : run s1 es = .ok s2)
    (d : ReadResp) (hd : d ∈ s2.rd.done) (hrid : d.rid = rid) :
    d.to = i ∧ ∀ j, (s0.nodes j).commit ≤ d.idx := by
  have hr1 : Reach s1 := Reach.step (.read (.issue i rid)) hr hissue
  have hr2 := reach_run es s1 s2 hr1 hrun
  have hRd := invRd_reachR s2 hr2
  obtain ⟨r', hr'mem, hr'rid, hr'node, hcover⟩ := read_done_safeR s2 hr2 d hd
  obtain ⟨r, _, hrrid, hrnode, hcm, _, huniq⟩ := issue_records_forever s0 s1 s2 i rid es hissue hrun hRd
  have he : r' = r := huniq r' hr'mem (hr'rid.trans hrid)
  subst he
  refine ⟨hr'node.symm.trans hrnode, ?_⟩
  intro j
  by_cases h0 : (s0.nodes j).commit = 0
  · omega
  · obtain ⟨p, hp, h1, _⟩ := commit_within_leader_commit (invAll_reachR s0 hr).c j (by omega)
    have := hcover p (by rw [hcm]; exact hp)
    omega

/-- the statement of the earlier rounds (`C08_full_statement`: the voter configuration changing along
the history; finding F9, repaired, was a violation of it) is now a theorem -/
theorem C08_full : ∀ (s0 s1 s2 : PSys), Reach s0 → ∀ i rid, applyEvent s0 (.read (.issue i rid)) = .ok s1 →
    ∀ es, run s1 es = .ok s2 → ∀ d ∈ s2.rd.done, d.rid = rid → d.to = i ∧ ∀ j, (s0.nodes j).commit ≤ d.idx :=
  fun s0 s1 s2 hr i rid hissue es hrun d hd hrid => C08_linearizable s0 s1 s2 hr i rid hissue es hrun d hd hrid

/-! ### non-vacuity: a follower's read is answered by the leader after a heartbeat round, with the
leader's commit index; a leader that has not committed in its term cannot register a request -/

def c3 : Cfg := ⟨[1, 2, 3], []⟩
def e1 : LEntry := ⟨1, 0, 7⟩

def hist : List Event :=
  [.bump 1 1, .campaign 1, .rdy 1, .persist 1 1, .release 1 (.grant 1 1 1 {}), .release 1 (.voteReq 1 1 0 0),
   .bump 2 1, .grant 2 1, .rdy 2, .persist 2 1, .release 2 (.grant 1 2 1 {}), .win 1 c3 [1, 2],
   .leaderAppend 1 e1, .ackSelf 1 1, .rdy 1, .persist 1 1, .release 1 (.ack 1 1 1 []), .sendApp 1 ⟨1, 1, 0, 0, [e1], 0⟩,
   .recvApp 2 ⟨1, 1, 0, 0, [e1], 0⟩, .rdy 2, .persist 2 1, .release 2 (.ack 1 2 1 []),
   .commitLeader 1 1 c3 [1, 2],
   .read (.issue 2 77), .read (.start 1 77), .read (.hback 2), .read (.resp 1 77 1 c3), .read (.rstate 2 77 1 c3)]

example : (match run init hist with | .ok s => s.rd.done | .error _ => []) = [⟨77, 2, 1⟩] := by decide

/-- before its first own-term commit the leader cannot register the request -/
example : (match run init (hist.take 22 ++ [.read (.issue 2 77), .read (.start 1 77)]) with
    | .ok _ => "registered" | .error _ => "refused") = "refused" := by decide

/-- without a confirmation from a second node the leader cannot answer -/
example : (match run init (hist.take 25 ++ [.read (.resp 1 77 1 c3)]) with
    | .ok _ => "answered" | .error _ => "refused") = "refused" := by decide

end RaftProps.C08
