import RaftProofs.ProtoReadDefs

/-!
# C08 — ReadIndex (Safe mode) is linearizable
(preliminary: the step obligations; the global theorem is added from RaftProofs/ProtoRead.lean)
-/
namespace RaftProps.C08
open RaftModel.P

/-- a read state is handed to the application only on the node where the request was issued, and
only if it is a released response for that node or the node is a leader that registered the request
with this index in its current term and whose leadership a deciding quorum has confirmed since -/
theorem C08_read_state_obligation (s s' : PSys) (j rid idx : Nat) (cfg : Cfg)
    (h : applyEvent s (.read (.rstate j rid idx cfg)) = .ok s') :
    ∃ r ∈ s.rd.issued, r.rid = rid ∧ r.node = j ∧
      (⟨rid, j, idx⟩ ∈ s.rd.resps ∨
        ((s.nodes j).role = 2 ∧ ⟨rid, j, (s.nodes j).term, idx⟩ ∈ s.rd.started ∧
          rdQuorum s cfg j (s.nodes j).term rid = true)) := by
  simp only [applyEvent, applyRead, ok] at h
  split at h
  · rename_i rd hrd
    split at hrd
    · rename_i r hr
      split at hrd
      · rename_i hg
        have hp := List.find?_some hr
        simp only [decide_eq_true_eq] at hp
        refine ⟨r, List.mem_of_find?_eq_some hr, hp, hg.2.1, ?_⟩
        rcases hg.2.2 with h1 | h1
        · left; simpa [List.contains_iff_mem] using h1
        · right; exact ⟨h1.1, by simpa [List.contains_iff_mem] using h1.2.1, h1.2.2⟩
      · cases hrd
    · cases hrd
  · cases h

end RaftProps.C08
