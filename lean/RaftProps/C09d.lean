import RaftProofs.ClusterConf2E
import RaftProps.C09c

/-!
# C09 at the cluster level: the log hypotheses of C09c, discharged along plain histories

`RaftProps/C09c.lean` left four theorems conditional (`…_partial`) on a per-state log invariant
(`RaftLogInv` of the node's log; `LogOk` = `RaftLogInv` + `applied ≤ last_index` of every node of
every state).  Here `LogOk` is PROVED along plain histories (`RaftProofs/ClusterConf2{A,B,C}.lean`):
no `FixedCfg`, no Election Safety, no commit-layer bundle, and of `InitOk` only the node-local clause.
Hypotheses, all of them:

* `hh : History h` — a plain history of `ClusterSem`;
* `hcon` — consecutive states are related by `CStep` (`compact k` only with `k ≤ committed`,
  `k ≤ persisted`: the storage contract of `RaftProps/C05c.lean`);
* `hnb : ∀ s ∈ h, NoBatch s` — no node batches appends.  NOT dropped: with `batch_append` a queued
  `MsgAppend` need not be numbered from its anchor (`try_batching` into an empty queued append), and
  the per-call lemma with batching (`call_lstep_b`) needs the proviso `Prov0` (clean leader queues),
  which the cluster layers derive from Election Safety of a fixed configuration;
* `hinit : ∀ s, h[0]? = some s → InitSto s` — every node of the initial state was booted from a
  well-formed storage (`MemStorage.WF`) without term-0 entries (the second clause of `InitOk`; nothing
  relates the storages of different nodes).  This is all `RaftLogInv` needs (`C09d_log_invariant`,
  `C09_cluster_campaign_guard_entries`);
* for the cursor half (`applied ≤ last_index`, needed by the three theorems about leaders) the
  **restart contract**: `hrs : RestartsOk h` (every `restart` step boots with `Config.applied ≤` the
  commit index of the stored hard state) and `InitSto2` instead of `InitSto` (the same for the initial
  boots).  Without it `applied ≤ last_index` is FALSE along plain histories
  (`C09d_logOk_not_invariant`): `Raft::new` takes `Config.applied` unchecked
  (`RaftProps.PDGuards.PD_restart_gap`).
-/
namespace RaftProps.C09d
open RaftModel RaftModel.Cluster RaftModel.Node RaftModel.Raft RaftProps.C09 RaftProps.C09c

/-- **the log invariant along plain histories**: in every state of a history (contract-abiding
`compact`, no batching, well-formed initial storages) every node's log satisfies the representation
invariant `RaftLogInv` — in particular its storage is well-formed (`MemStorage.WF`), which is what a
`restart` (`RawNode::new` from the node's own storage) needs —, every transported and every queued
`MsgAppend` is numbered from its anchor, no entry anywhere (logs, storages, queues, transport) has
term 0, and candidates and leaders have a non-zero term. -/
theorem C09d_log_invariant (h : List Sys) (hh : History h)
    (hcon : ∀ (n : Nat) (a b : Sys), h[n]? = some a → h[n + 1]? = some b → CStep a b)
    (hnb : ∀ s ∈ h, NoBatch s) (hinit : ∀ s, h[0]? = some s → InitSto s)
    (s : Sys) (hs : s ∈ h) :
    (∀ i st, s.node i = some st →
      RaftProps.C14.RaftLogInv st.raft.raftLog ∧ st.raft.raftLog.store.WF) ∧
    (∀ x, x ∈ s.net → x.msgType = .msgAppend → MsgOk x) ∧
    (∀ i st x, s.node i = some st → x ∈ st.raft.msgs → x.msgType = .msgAppend →
      ContigFrom (x.index + 1) x.entries) ∧
    (∀ loc g, At s loc g → ∀ i e, g.entryAt i = some e → e.term ≠ 0) ∧
    (∀ i st, s.node i = some st → (st.raft.state = .candidate ∨ st.raft.state = .leader) →
      st.raft.term ≠ 0) := by
  obtain ⟨n, hn⟩ := List.mem_iff_getElem?.1 hs
  have I := invS_hist hh hcon hnb hinit n s hn
  exact ⟨fun i st hi => ⟨I.inv i st hi, (I.inv i st hi).storeWF⟩, fun x hx hty => I.msgOk hx hty,
    I.wfq, I.nz, I.tz⟩

/-- **`LogOk` of every state**: representation invariant and apply cursor within the log -/
theorem C09d_logOk (h : List Sys) (hh : History h)
    (hcon : ∀ (n : Nat) (a b : Sys), h[n]? = some a → h[n + 1]? = some b → CStep a b)
    (hnb : ∀ s ∈ h, NoBatch s) (hrs : RestartsOk h)
    (hinit : ∀ s, h[0]? = some s → InitSto2 s) : ∀ s ∈ h, LogOk s :=
  logOk_hist_full hh hcon hnb hrs hinit

/-- `applied ≤ committed ≤ last_index` of every node of every state (the strengthening that makes the
cursor half inductive); needs the restart contract only -/
theorem C09d_applied_le_committed (h : List Sys) (hh : History h) (hrs : RestartsOk h)
    (hinit : ∀ s, h[0]? = some s → InitSto2 s) (s : Sys) (hs : s ∈ h) (i : Nat) (st : NState)
    (hi : s.node i = some st) : st.raft.raftLog.applied ≤ st.raft.raftLog.committed := by
  obtain ⟨n, hn⟩ := List.mem_iff_getElem?.1 hs
  exact appAll_hist hh hrs hinit n s hn i st hi

/-- **C09 `cluster_campaign_guard`, the entry-level reading** — no per-state log hypothesis: a node
that starts an election in a step `h[n] → h[n+1]` is promotable, and **no membership-change entry lies
at any index in `(applied, committed]` of its log** in `h[n]`. -/
theorem C09_cluster_campaign_guard_entries (h : List Sys) (hh : History h)
    (hcon : ∀ (n : Nat) (a b : Sys), h[n]? = some a → h[n + 1]? = some b → CStep a b)
    (hnb : ∀ s ∈ h, NoBatch s) (hinit : ∀ s, h[0]? = some s → InitSto s)
    (n : Nat) (s s' : Sys) (hn : h[n]? = some s) (hn' : h[n + 1]? = some s') (i : Nat)
    (st st' : NState) (h1 : s.node i = some st) (h2 : s'.node i = some st')
    (hel : Elected st.raft st'.raft) :
    st.raft.promotable = true ∧
    ∀ k e, st.raft.raftLog.applied < k → k ≤ st.raft.raftLog.committed →
      st.raft.raftLog.abs.entryAt k = some e → ¬ isConf e :=
  C09_cluster_campaign_guard_entries_partial h hh n s s' hn hn' i st st' h1 h2 hel
    (logInv_hist hh hcon hnb hinit s (List.mem_of_getElem? hn) i st h1)

/-- **C09 `cluster_one_pending_change`** — every leader of every state has `ConfBounded`; the
log invariant is no longer a hypothesis (the restart contract `hrs` / `InitSto2` replaces the cursor
half). -/
theorem C09_cluster_one_pending_change (h : List Sys) (hh : History h)
    (hcon : ∀ (n : Nat) (a b : Sys), h[n]? = some a → h[n + 1]? = some b → CStep a b)
    (hnb : ∀ s ∈ h, NoBatch s) (hrs : RestartsOk h)
    (hinit : ∀ s, h[0]? = some s → InitSto2 s)
    (s : Sys) (hs : s ∈ h) (i : Nat) (st : NState) (hi : s.node i = some st)
    (hl : st.raft.state = .leader) : ConfBounded st.raft :=
  C09_cluster_one_pending_change_partial h hh (logOk_hist_full hh hcon hnb hrs hinit) hcon s hs i st hi hl

theorem C09_cluster_no_unapplied_change_when_not_pending (h : List Sys) (hh : History h)
    (hcon : ∀ (n : Nat) (a b : Sys), h[n]? = some a → h[n + 1]? = some b → CStep a b)
    (hnb : ∀ s ∈ h, NoBatch s) (hrs : RestartsOk h)
    (hinit : ∀ s, h[0]? = some s → InitSto2 s)
    (s : Sys) (hs : s ∈ h) (i : Nat) (st : NState) (hi : s.node i = some st)
    (hl : st.raft.state = .leader) (hnp : ¬ st.raft.raftLog.applied < st.raft.pendingConfIndex) :
    ∀ k e, st.raft.raftLog.abs.entryAt k = some e → isConf e → k ≤ st.raft.raftLog.applied :=
  C09_cluster_no_unapplied_change_when_not_pending_partial h hh
    (logOk_hist_full hh hcon hnb hrs hinit) hcon s hs i st hi hl hnp

theorem C09_cluster_conf_proposal_only_when_none_pending (h : List Sys) (hh : History h)
    (hcon : ∀ (n : Nat) (a b : Sys), h[n]? = some a → h[n + 1]? = some b → CStep a b)
    (hnb : ∀ s ∈ h, NoBatch s) (hrs : RestartsOk h)
    (hinit : ∀ s, h[0]? = some s → InitSto2 s)
    (s s' : Sys) (hs : s ∈ h) (i : Nat) (rnd : Option Nat) (op : NodeOp)
    (hop : (∃ c d, op = .propose c d) ∨ (∃ t c d, op = .proposeCc t c d))
    (hstep : LStep s (.call i rnd op) s') (st st' : NState)
    (h1 : s.node i = some st) (h2 : s'.node i = some st') (hlead : st.raft.state = .leader)
    (x : Nat) (e' : Entry) (hx : st.raft.raftLog.lastIndex < x)
    (hx' : st'.raft.raftLog.abs.entryAt x = some e') (hc' : isConf e') :
    ∀ k e0, st.raft.raftLog.abs.entryAt k = some e0 → isConf e0 → k ≤ st.raft.raftLog.applied :=
  C09_cluster_conf_proposal_only_when_none_pending_partial h hh
    (logOk_hist_full hh hcon hnb hrs hinit) hcon s s' hs i rnd op hop hstep st st' h1 h2 hlead x e' hx hx'
    hc'

/-! ## "also after restart": the stored `ConfState` is the last recorded one

In the model the application records its configuration in the storage in two places: `commit_apply k`
writes `confState := appCs` (the `ConfState` returned by the node's last successful
`apply_conf_change`, or the snapshot's after `persist_snap`, or the stored one after a boot) when `k`
is within the stored range, and `persist_snap` writes the pending snapshot's `ConfState`
(`MemStorage::apply_snapshot`).  Nothing else touches `store.confState`: not `step` (any message), not
`tick`, not any other `NodeOp`, not `send`, not a `restart` (`RaftProofs/ClusterConf2{D,E}.lean`). -/

/-- **who writes the stored `ConfState`** — one labelled step, any node `k`: its stored `ConfState` is
unchanged, or the step is `k`'s `commit_apply` and the new value is the application's record `appCs`,
or the step is `k`'s `persist_snap` and the new value (and the new `appCs`) is the `ConfState` of the
pending snapshot. -/
theorem C09_cluster_stored_conf_state_written_only_by_records {s s' : Sys} {l : Label}
    (h : LStep s l s') (k : Nat) (st st' : NState) (h1 : s.node k = some st)
    (h2 : s'.node k = some st') :
    st'.raft.raftLog.store.confState = st.raft.raftLog.store.confState ∨
    (∃ rnd j, l = .call k rnd (.commitApply j) ∧ st'.raft.raftLog.store.confState = st.appCs) ∨
    (∃ rnd sn, l = .call k rnd .persistSnap ∧ st.raft.raftLog.unstable.snapshot = some sn ∧
      st'.raft.raftLog.store.confState = sn.metadata.confState ∧
      st'.appCs = sn.metadata.confState) := by
  by_cases hl : RecLabel k l
  · cases l with
    | call j rnd op =>
      cases op with
      | commitApply x =>
        have hj : j = k := hl
        subst hj
        rcases lstep_records h st st' h1 h2 with g | g
        · exact .inl g
        · exact .inr (.inl ⟨rnd, x, rfl, g⟩)
      | persistSnap =>
        have hj : j = k := hl
        subst hj
        rcases lstep_records h st st' h1 h2 with g | ⟨sn, g1, g2, g3⟩
        · exact .inl g
        · exact .inr (.inr ⟨rnd, sn, rfl, g1, g2, g3⟩)
      | _ => exact hl.elim
    | _ => exact hl.elim
  · exact .inl (lstep_storedCs h k st st' h1 h2 hl)

/-- **C09 `cluster_config_after_restart_is_last_recorded`** — take any state `s` (e.g. the one right
after node `i`'s last recording call: `commit_apply` / `persist_snap`, whose effect on the storage is
spelled out by the theorem above), a run `s → s1` without recording call of `i` (anything else may
happen, earlier restarts of `i` included), a `restart` of `i`, and a run `s2 → s'` on which `i` is
neither restarted nor delivered a snapshot.  Then node `i`'s tracker view in `s'` is the fold of the
changer over the changes it applied since the restart, starting from `confchange::restore` of **the
`ConfState` its storage held in `s`** — the last recorded one. -/
theorem C09_cluster_config_after_restart_is_last_recorded {s s1 s2 s' : Sys} {ls ls' : List Label}
    {c : Config} {rnd : Option Nat} (i : Nat) (ht : Trace s ls s1) (hfree : RecFree i ls)
    (hr : LStep s1 (.restart i c rnd) s2) (ht' : Trace s2 ls' s') (hfree' : ReconfFree i ls')
    (st st' : NState) (h1 : s.node i = some st) (h2 : s'.node i = some st') :
    ∃ t, RaftModel.restore Tracker.empty st.raft.raftLog.store.confState = .ok t ∧
      st'.raft.prs.toCC = configOf t ((appliedBy i ls').map opOf) := by
  have hs1 : ∃ st1, s1.node i = some st1 := by
    cases hr with
    | restart _ stx stx' _ _ g1 g2 g3 => exact ⟨stx, g1⟩
  obtain ⟨st1, hs1⟩ := hs1
  obtain ⟨t, ht1, ht2⟩ := C09_cluster_config_after_restart i hr ht' hfree' st1 st' hs1 h2
  rw [trace_storedCs ht i hfree st st1 h1 hs1] at ht1
  exact ⟨t, ht1, ht2⟩

/-- … in the state right after the restart: the view is `restore` of the last recorded `ConfState`,
which is also the restarted application's record `appCs` and still the stored one -/
theorem C09_cluster_restart_restores_last_recorded {s s1 s2 : Sys} {ls : List Label} {c : Config}
    {rnd : Option Nat} (i : Nat) (ht : Trace s ls s1) (hfree : RecFree i ls)
    (hr : LStep s1 (.restart i c rnd) s2) (st st2 : NState) (h1 : s.node i = some st)
    (h2 : s2.node i = some st2) :
    RaftModel.restore Tracker.empty st.raft.raftLog.store.confState = .ok st2.raft.prs.toCC ∧
    st2.appCs = st.raft.raftLog.store.confState ∧
    st2.raft.raftLog.store.confState = st.raft.raftLog.store.confState :=
  restart_restores_stored i ht hfree hr st st2 h1 h2

/-! ## why the restart contract: `applied ≤ last_index` is not an invariant of plain histories -/

open RaftProps.C02 RaftProps.C05 RaftProps.PDGuards

/-- `RawNode::new` with `Config.applied = 100` over `PDGuards.gapStore` (snapshot point 2, entries 3
and 4, commit index 2) -/
def c09d_gapBoot : NState :=
  match Node.boot { id := 1, applied := 100 } gapStore none with
  | .ok (.ok st) => st
  | _ => default

def c09d_gapSys : Sys := { nodes := [(1, c09d_gapBoot)], net := [] }

set_option maxRecDepth 100000 in
theorem c09d_gapBoot_eq :
    Node.boot { id := 1, applied := 100 } gapStore none = .ok (.ok c09d_gapBoot) := by
  have hk : c02x_ok (match Node.boot { id := 1, applied := 100 } gapStore none with
      | .ok (.ok st) => (.ok (.ok, st) : Out) | _ => .panic "") = true := by decide
  unfold c09d_gapBoot
  generalize Node.boot { id := 1, applied := 100 } gapStore none = x at hk ⊢
  match x, hk with
  | .ok (.ok st), _ => rfl

set_option maxRecDepth 100000 in
/-- **`LogOk` is not provable from the hypotheses of `C09d_log_invariant`**: the one-state history
whose only node was booted with `Config.applied = 100` over a well-formed storage with last index 4
satisfies every hypothesis (it is a history, it has no step, nobody batches, the storage is well-formed
with real terms), and the node's apply cursor (100) is beyond its log (4).  The missing hypothesis is the
restart contract (`InitSto2`, `RestartsOk`: `Config.applied ≤` the stored commit index, at the initial
boot and at every `restart`), which `Step` does not carry. -/
theorem C09d_logOk_not_invariant :
    History [c09d_gapSys] ∧
    (∀ (n : Nat) (a b : Sys), [c09d_gapSys][n]? = some a → [c09d_gapSys][n + 1]? = some b →
      CStep a b) ∧
    (∀ s ∈ [c09d_gapSys], NoBatch s) ∧ (∀ s, [c09d_gapSys][0]? = some s → InitSto s) ∧
    ¬ (∀ s ∈ [c09d_gapSys], LogOk s) := by
  have hnode : ∀ i st, c09d_gapSys.node i = some st → i = 1 ∧ st = c09d_gapBoot := by
    intro i st hn
    have hm := c02_lookup_mem _ i st hn
    simp only [c09d_gapSys, List.mem_cons, Prod.mk.injEq, List.not_mem_nil, or_false] at hm
    exact hm
  have hwf : gapStore.WF ∧ ∀ e ∈ gapStore.entries, e.term ≠ 0 := by
    refine ⟨⟨?_, by decide⟩, ?_⟩
    · intro k e hk
      match k, hk with
      | 0, hk => simp [gapStore] at hk; subst hk; rfl
      | 1, hk => simp [gapStore] at hk; subst hk; rfl
      | n + 2, hk => simp [gapStore] at hk
    intro e he
    simp only [gapStore, List.mem_cons, List.not_mem_nil, or_false] at he
    rcases he with rfl | rfl <;> decide
  refine ⟨History.init _ ⟨rfl, ?_⟩, ?_, ?_, ?_, ?_⟩
  · intro i st hn
    obtain ⟨rfl, rfl⟩ := hnode i st hn
    exact ⟨_, _, _, rfl, c09d_gapBoot_eq⟩
  · intro n a b _ hb
    simp at hb
  · intro s hs i st hn
    simp only [List.mem_cons, List.not_mem_nil, or_false] at hs
    subst hs
    obtain ⟨rfl, rfl⟩ := hnode i st hn
    decide
  · intro s hs
    simp only [List.getElem?_cons_zero, Option.some.injEq] at hs
    subst hs
    intro i st hn
    obtain ⟨rfl, rfl⟩ := hnode i st hn
    exact ⟨_, _, _, c09d_gapBoot_eq, hwf⟩
  · intro hall
    have := (hall c09d_gapSys (by simp) 1 c09d_gapBoot rfl).2
    revert this
    decide

/-! ## non-vacuity: the hypotheses hold on C09c's history, through the new route

`c09x_pre` (the prefix of `c09x_hist` up to the leader's `propose_conf_change`, nine states): C09c
obtained `LogOk` of its states from C05's `cluster_inv` (`FixedCfg`, `InitOk`, `NoBatch`, Election
Safety inside) and the cursors by kernel evaluation.  Here: the node-local initial clause with the
boot contract (`c09d_init2`: the nodes were booted with `Config.applied = 0`), `NoBatch` by kernel
evaluation, the restart contract from "every apply cursor is 0" (`restartsOk_of_cursor`), and
`logOk_hist_full`. -/

theorem c09d_init2 : InitSto2 c02x_s0 := by
  intro i st hn
  have hm := c02_lookup_mem _ i st hn
  simp only [c02x_s0, List.mem_cons, Prod.mk.injEq, List.not_mem_nil, or_false] at hm
  have hb : ∀ k, c02x_ok (match Node.boot (c02x_config k) c02x_store none with
      | .ok (.ok st) => (.ok (.ok, st) : Out) | _ => .panic "") = true →
      Node.boot (c02x_config k) c02x_store none = .ok (.ok (c02x_boot k)) := by
    intro k hk
    unfold c02x_boot
    split at hk
    · rename_i st heq; rw [heq]
    · cases hk
  have hw : c02x_store.WF ∧ ∀ e ∈ c02x_store.entries, e.term ≠ 0 :=
    ⟨⟨fun k e hk => by simp [c02x_store] at hk,
      (by show c02x_store.snapshotMetadata.index < c02x_store.firstIndex; decide)⟩,
      fun e he => by simp [c02x_store] at he⟩
  have hz : ∀ k, BootOk (c02x_config k) c02x_store := fun k => Nat.zero_le _
  rcases hm with ⟨rfl, rfl⟩ | ⟨rfl, rfl⟩ | ⟨rfl, rfl⟩
  · exact ⟨c02x_config 1, c02x_store, none, hb 1 (by decide), hw.1, hw.2, hz 1⟩
  · exact ⟨c02x_config 2, c02x_store, none, hb 2 (by decide), hw.1, hw.2, hz 2⟩
  · exact ⟨c02x_config 3, c02x_store, none, hb 3 (by decide), hw.1, hw.2, hz 3⟩

theorem c09d_pre_init : ∀ s, c09x_pre[0]? = some s → InitSto2 s := by
  intro s hs
  have : s = c02x_s0 := by
    simp only [c09x_pre, c02x_hist, List.cons_append, List.getElem?_cons_zero,
      Option.some.injEq] at hs
    exact hs.symm
  rw [this]; exact c09d_init2

def c09d_app0 (s : Sys) : Bool := s.nodes.all (fun p => decide (p.2.raft.raftLog.applied = 0))

theorem c09d_app0_ok (s : Sys) (h : c09d_app0 s = true) :
    ∀ i st, s.node i = some st → st.raft.raftLog.applied = 0 := by
  intro i st hn
  have hm := c02_lookup_mem s.nodes i st hn
  unfold c09d_app0 at h
  rw [List.all_eq_true] at h
  simpa using h _ hm

set_option maxRecDepth 100000 in
theorem c09d_pre_app0 : ∀ s ∈ c09x_pre, ∀ i st, s.node i = some st →
    st.raft.raftLog.applied = 0 := by
  intro s hs
  simp only [c09x_pre, c02x_hist, List.cons_append, List.nil_append, List.mem_cons,
    List.not_mem_nil, or_false] at hs
  rcases hs with rfl | rfl | rfl | rfl | rfl | rfl | rfl | rfl | rfl <;>
    exact c09d_app0_ok _ (by decide)

theorem c09d_pre_restarts : RestartsOk c09x_pre := by
  refine restartsOk_of_cursor ?_
  intro n a b i st st' _ hb _ hi'
  rw [c09d_pre_app0 b (List.mem_of_getElem? hb) i st' hi']
  exact Nat.zero_le _

theorem c09d_pre_logOk : ∀ s ∈ c09x_pre, LogOk s :=
  C09d_logOk c09x_pre c09x_pre_history (chained_at c09x_pre c09x_pre_csteps)
    (fun s hs => (c09x_pre_side s hs).2.1) c09d_pre_restarts c09d_pre_init

set_option maxRecDepth 100000 in
/-- the four theorems applied to the history: the leader's `propose_conf_change` `c02x_s7 → c09x_s8`
appends the membership entry at index 2, so its log held no unapplied membership entry before; after
the call it has `ConfBounded` with `pending_conf_index = 2`; node 1's campaign `c02x_s0 → c02x_s1` had
no membership entry in `(applied, committed]`; and the invariant itself holds in the last state. -/
example :
    (∀ k e0, c02x_a4.raft.raftLog.abs.entryAt k = some e0 → isConf e0 →
      k ≤ c02x_a4.raft.raftLog.applied) ∧
    ConfBounded c09x_a5.raft ∧ c09x_a5.raft.pendingConfIndex = 2 ∧
    ((c02x_boot 1).raft.promotable = true ∧
      ∀ k e, (c02x_boot 1).raft.raftLog.applied < k → k ≤ (c02x_boot 1).raft.raftLog.committed →
        (c02x_boot 1).raft.raftLog.abs.entryAt k = some e → ¬ isConf e) ∧
    RaftProps.C14.RaftLogInv c09x_a5.raft.raftLog := by
  have hcon := chained_at c09x_pre c09x_pre_csteps
  have hnb : ∀ s ∈ c09x_pre, NoBatch s := fun s hs => (c09x_pre_side s hs).2.1
  have hrs := c09d_pre_restarts
  have hi1 : ∀ s, c09x_pre[0]? = some s → InitSto s := fun s hs => (c09d_pre_init s hs).initSto
  have hs7 : c02x_s7 ∈ c09x_pre := by simp [c09x_pre, c02x_hist]
  have hs8 : c09x_s8 ∈ c09x_pre := by simp [c09x_pre, c02x_hist]
  have hel : Elected (c02x_boot 1).raft c02x_a1.raft :=
    C09_elected_of (.inl ⟨.inl (by decide), .inl (by decide)⟩)
  refine ⟨?_, ?_, by decide, ?_, ?_⟩
  · exact C09_cluster_conf_proposal_only_when_none_pending c09x_pre c09x_pre_history hcon hnb hrs
      c09d_pre_init c02x_s7 c09x_s8 hs7 1 none (.proposeCc 2 [] c09x_data)
      (.inr ⟨2, [], c09x_data, rfl⟩) c09x_lsteps.1 c02x_a4 c09x_a5 rfl rfl (by decide) 2
      { etype := 2, data := c09x_data, term := 1, index := 2 } (by decide) (by decide) (.inr rfl)
  · exact C09_cluster_one_pending_change c09x_pre c09x_pre_history hcon hnb hrs c09d_pre_init
      c09x_s8 hs8 1 c09x_a5 rfl (by decide)
  · exact C09_cluster_campaign_guard_entries c09x_pre c09x_pre_history hcon hnb hi1 0
      c02x_s0 c02x_s1 rfl rfl 1 (c02x_boot 1) c02x_a1 rfl rfl hel
  · exact ((C09d_log_invariant c09x_pre c09x_pre_history hcon hnb hi1 c09x_s8 hs8).1 1
      c09x_a5 rfl).1

/-! ### … and on all of `c09x_hist` (13 states, through `apply_conf_change` on the leader) -/

set_option maxRecDepth 100000 in
theorem c09d_hist_csteps : Chained CStep c09x_hist := by
  refine ⟨?_, ?_, ?_, ?_, ?_, ?_, ?_, ?_, ?_, ?_, ?_, ?_, trivial⟩
  · exact CStep.call _ 1 (c02x_boot 1) c02x_a1 none .campaign _ rfl rfl
      (fun k hc => by cases hc) (c02x_out _ (by decide))
  · exact CStep.call _ 1 c02x_a1 c02x_a2 none .stabilize _ rfl rfl
      (fun k hc => by cases hc) (c02x_out _ (by decide))
  · exact CStep.send _ 1 c02x_a2 c02x_a3 rfl ⟨by decide, by decide⟩ rfl
  · exact CStep.deliver _ 2 (c02x_boot 2) c02x_b1 none c02x_req _ rfl
      (c02x_head_mem _ (by decide)) (by decide) (c02x_out _ (by decide))
  · exact CStep.call _ 2 c02x_b1 c02x_b2 none .stabilize _ rfl rfl
      (fun k hc => by cases hc) (c02x_out _ (by decide))
  · exact CStep.send _ 2 c02x_b2 c02x_b3 rfl ⟨by decide, by decide⟩ rfl
  · exact CStep.deliver _ 1 c02x_a3 c02x_a4 none c02x_resp _ rfl
      (List.mem_append_right _ (c02x_head_mem _ (by decide))) (by decide) (c02x_out _ (by decide))
  · exact CStep.call _ 1 c02x_a4 c09x_a5 none (.proposeCc 2 [] c09x_data) _ rfl rfl
      (fun k hc => by cases hc) (c02x_out _ (by decide))
  · exact CStep.call _ 1 c09x_a5 c09x_a6 none .stabilize _ rfl rfl
      (fun k hc => by cases hc) (c02x_out _ (by decide))
  · exact CStep.send _ 1 c09x_a6 c09x_a7 rfl ⟨by decide, by decide⟩ rfl
  · exact CStep.deliver _ 2 c02x_b3 c09x_b4 none c09x_app _ rfl
      (List.mem_append_right _ (c02x_head_mem _ (by decide))) (by decide) (c02x_out _ (by decide))
  · exact CStep.call _ 1 c09x_a7 c09x_a8 none (.applyConfChange c09x_cc) _ rfl rfl
      (fun k hc => by cases hc) (c02x_out _ (by decide))

set_option maxRecDepth 100000 in
theorem c09d_hist_side : ∀ s ∈ c09x_hist, NoBatch s ∧
    ∀ i st, s.node i = some st → st.raft.raftLog.applied = 0 := by
  intro s hs
  simp only [c09x_hist, c02x_hist, List.cons_append, List.nil_append, List.mem_cons,
    List.not_mem_nil, or_false] at hs
  rcases hs with rfl | rfl | rfl | rfl | rfl | rfl | rfl | rfl | rfl | rfl | rfl | rfl | rfl <;>
    exact ⟨c05x_nobatch_ok _ (by decide), c09d_app0_ok _ (by decide)⟩

theorem c09d_hist_init : ∀ s, c09x_hist[0]? = some s → InitSto2 s := by
  intro s hs
  have : s = c02x_s0 := by
    simp only [c09x_hist, c02x_hist, List.cons_append, List.getElem?_cons_zero,
      Option.some.injEq] at hs
    exact hs.symm
  rw [this]; exact c09d_init2

theorem c09d_hist_restarts : RestartsOk c09x_hist := by
  refine restartsOk_of_cursor ?_
  intro n a b i st st' _ hb _ hi'
  rw [(c09d_hist_side b (List.mem_of_getElem? hb)).2 i st' hi']
  exact Nat.zero_le _

/-- every state of C09c's whole history satisfies `LogOk`, through the new route -/
theorem c09d_hist_logOk : ∀ s ∈ c09x_hist, LogOk s :=
  C09d_logOk c09x_hist c09x_history (chained_at c09x_hist c09d_hist_csteps)
    (fun s hs => (c09d_hist_side s hs).1) c09d_hist_restarts c09d_hist_init

set_option maxRecDepth 100000 in
/-- the leader of the last state — it has applied "add voter 4" and holds the membership entry at
index 2, unapplied by the cursor — has `ConfBounded` (`pending_conf_index = 2`) -/
example : ConfBounded c09x_a8.raft ∧ c09x_a8.raft.pendingConfIndex = 2 ∧
    RaftProps.C14.RaftLogInv c09x_b4.raft.raftLog := by
  have hcon := chained_at c09x_hist c09d_hist_csteps
  have hnb : ∀ s ∈ c09x_hist, NoBatch s := fun s hs => (c09d_hist_side s hs).1
  have hs12 : c09x_s12 ∈ c09x_hist := by simp [c09x_hist, c02x_hist]
  refine ⟨?_, by decide, ?_⟩
  · exact C09_cluster_one_pending_change c09x_hist c09x_history hcon hnb c09d_hist_restarts
      c09d_hist_init c09x_s12 hs12 1 c09x_a8 rfl (by decide)
  · exact ((C09d_log_invariant c09x_hist c09x_history hcon hnb
      (fun s hs => (c09d_hist_init s hs).initSto) c09x_s12 hs12).1 2 c09x_b4 rfl).1

/-! ### non-vacuity of the restart theorem: applied but not recorded

In the last state `c09x_s12` of C09c's history the leader (node 1) has applied "add voter 4"
(`apply_conf_change`: tracker and application record `appCs` say `{1, 2, 3, 4}`) but no `commit_apply`
has recorded it: the storage still says `{1, 2, 3}`.  A restart there restores `{1, 2, 3}` — the last
RECORDED configuration, not the last applied one. -/

def c09d_rb : NState :=
  match Node.boot (c02x_config 1) c09x_a8.raft.raftLog.store none with
  | .ok (.ok st) => st
  | _ => default

def c09d_sR : Sys := c09x_s12.setNode 1 c09d_rb

set_option maxRecDepth 100000 in
theorem c09d_rb_eq :
    Node.boot (c02x_config 1) c09x_a8.raft.raftLog.store none = .ok (.ok c09d_rb) := by
  have hk : c02x_ok (match Node.boot (c02x_config 1) c09x_a8.raft.raftLog.store none with
      | .ok (.ok st) => (.ok (.ok, st) : Out) | _ => .panic "") = true := by decide
  unfold c09d_rb
  generalize Node.boot (c02x_config 1) c09x_a8.raft.raftLog.store none = x at hk ⊢
  match x, hk with
  | .ok (.ok st), _ => rfl

theorem c09d_restart : LStep c09x_s12 (.restart 1 (c02x_config 1) none) c09d_sR :=
  LStep.restart _ 1 c09x_a8 c09d_rb (c02x_config 1) none rfl rfl c09d_rb_eq

set_option maxRecDepth 100000 in
example :
    RaftModel.restore Tracker.empty c09x_a8.raft.raftLog.store.confState
      = .ok c09d_rb.raft.prs.toCC ∧
    c09d_rb.appCs = c09x_a8.raft.raftLog.store.confState ∧
    c09x_a8.raft.prs.conf.incoming = [1, 2, 3, 4] ∧ c09x_a8.appCs.voters = [1, 2, 3, 4] ∧
    c09x_a8.raft.raftLog.store.confState.voters = [1, 2, 3] ∧
    c09d_rb.raft.prs.conf.incoming = [1, 2, 3] := by
  obtain ⟨g1, g2, _⟩ := C09_cluster_restart_restores_last_recorded 1 (Trace.refl c09x_s12)
    (fun _ h => by cases h) c09d_restart c09x_a8 c09d_rb rfl rfl
  exact ⟨g1, g2, by decide, by decide, by decide, by decide⟩

end RaftProps.C09d
