import RaftProofs.ClusterCommit7B
import RaftProps.C01k

/-!
# C01 / C03 / C04, cluster level, with `batch_append` allowed and **nothing assumed about queues**: `SaneQ` of C01k is **not derivable**

`RaftProps/C01k.lean` proves the commit layer of `ClusterSem` under `Hyp3wK`, whose field

    mute : (∀ s ∈ h, NoBatch s) ∨ (∀ s ∈ h, SaneQ s)

assumes, on histories in which somebody batches, that a *mute* node (a `MsgSnapshot` is queued; under
`nosnap` it never sends again before a restart) queues no `MsgAppend` anchored in the void (`log_term = 0`,
`index ≠ 0`).  The bundle of this file is **`Hyp3wL` = `Hyp3wK` without `mute`** (C01d's `Hyp3w` without
`NoBatch`, plus `c0 = 0`; `RaftProofs/ClusterCommit7A.lean`).

**Result: `Hyp3wL` does not imply `Hyp3wK`** (`C01l_saneQ_not_derivable`; `RaftProofs/ClusterCommit7B.lean`,
kernel-evaluated, 44 states, three voters, every step a `KStep`, `NoSnapNet` in every state).  The route
"bound `pending_snapshot` by the log" (`Raft.CS.PW`) is closed because the bound is false here:

* `Raft::request_snapshot` records `pending_request_snapshot = last_index` and demands that the last entry
  carries the follower's *current* term — but the request **survives a change of term**
  (`become_follower` restores it after `reset`), and the follower then answers every `MsgAppend` /
  `MsgHeartbeat` of the **new** leader with `send_request_snapshot` (`request_snapshot` = the old
  `last_index`);
* a leader may send entries it has not persisted (`KStep.send` asks non-leaders only for a stable log), so
  after a restart of the old leader the new leader's log can be **shorter** than the request;
* `MemStorage::snapshot(request_index)` relabels its snapshot to `request_index`; the leader goes to
  `Snapshot` with `pending_snapshot = 3 > last_index = 2` and queues the `MsgSnapshot` (mute from here on);
  `report_snapshot` → `become_probe`: `next_idx = 4`; a `MsgHeartbeatResponse` (the follower has restarted)
  → `send_append` queues `MsgAppend { index = 3, log_term = 0 }`; with `batch_append` on, two proposals
  later `try_batching` has glued entry 4 onto it while the log holds an entry of term 2 at index 3.

So the six theorems are stated here **conditionally** (`…_partial`, with `mute` as an explicit hypothesis —
they are C01k's).  That they hold under `Hyp3wL` alone is not contradicted by the history (no queue of a mute
node reaches the transport; commit indexes stay ≤ 1: `C01l_counterexample_commits`), but proving it needs
route (1) of `RaftProps/C01k.REPORT.md`: a copy of the C05 / C05d layer whose `At` skips the queues of mute
nodes — see `RaftProps/C01l.REPORT.md`.
-/
namespace RaftProps.C01l
open RaftModel RaftModel.Cluster RaftModel.ClusterB RaftModel.Node RaftModel.Raft RaftModel.Raft.CC
  RaftModel.Raft.CP RaftProps.C02 RaftProps.C05

/-- **C01k is a special case** (forget `mute`) -/
theorem C01l_subsumes_C01k {cfg : JointConfig} {c0 : Nat} {h : List Sys} (H : Hyp3wK cfg c0 h) :
    Hyp3wL cfg c0 h := H.toHyp3wL

/-- **C01d with `c0 = 0` is a special case** -/
theorem C01l_subsumes_C01d {cfg : JointConfig} {h : List Sys} (H : Hyp3w cfg 0 h) :
    Hyp3wL cfg 0 h := Hyp3wL.of_hyp3w H

/-- **conditional**: with `mute`, a history under `Hyp3wL` is one under C01k's `Hyp3wK` -/
theorem C01l_toHyp3wK_partial {cfg : JointConfig} {c0 : Nat} {h : List Sys} (H : Hyp3wL cfg c0 h)
    (hmute : (∀ s ∈ h, NoBatch s) ∨ (∀ s ∈ h, SaneQ s)) : Hyp3wK cfg c0 h :=
  H.toHyp3wK_partial hmute

/-- `Hyp3wK` is exactly `Hyp3wL` and `mute` -/
theorem C01l_hyp3wK_iff {cfg : JointConfig} {c0 : Nat} {h : List Sys} :
    Hyp3wK cfg c0 h ↔ Hyp3wL cfg c0 h ∧ ((∀ s ∈ h, NoBatch s) ∨ (∀ s ∈ h, SaneQ s)) :=
  ⟨fun H => ⟨H.toHyp3wL, H.mute⟩, fun H => H.1.toHyp3wK_partial H.2⟩

/-- the longest prefixes on which `mute` holds are covered: `Hyp3wL` is closed under prefixes -/
theorem C01l_prefix_partial {cfg : JointConfig} {c0 : Nat} {h : List Sys} (H : Hyp3wL cfg c0 h)
    {k : Nat} (hk : 0 < k)
    (hmute : (∀ s ∈ h.take k, NoBatch s) ∨ (∀ s ∈ h.take k, SaneQ s)) : Hyp3wK cfg c0 (h.take k) :=
  (H.take hk).toHyp3wK_partial hmute

/-- **`SaneQ` is not derivable**: a history under `Hyp3wL` that is not under `Hyp3wK` — a state violates
`SaneQ`, a state violates `NoBatch` — whose last state has node 1 leading term 2 with `batch_append` on, a
`MsgSnapshot` queued, and next to it a `MsgAppend` anchored at `(3, 0)` that **carries entry 4**, while the
log of node 1 holds an entry of term 2 at index 3 (the queue is not a slice of the log: the Log Matching
invariant of C05 / C05d, which speaks about every queue, fails there).  The request that took the progress
beyond the log is an honest `MsgAppendResponse` of node 2 for term 2 with `request_snapshot = 3`, delivered
when `last_index = 2`. -/
theorem C01l_saneQ_not_derivable :
    ∃ h : List Sys, Hyp3wL c02x_cfg 0 h ∧ ¬ Hyp3wK c02x_cfg 0 h ∧
      (∃ s ∈ h, ¬ SaneQ s) ∧ (∃ s ∈ h, ¬ NoBatch s) ∧
      (∃ (s : Sys) (st : NState) (rq : Message), s ∈ h ∧ s.node 1 = some st ∧
        st.raft.state = .leader ∧ st.raft.raftLog.lastIndex = 2 ∧
        (st.raft.prs.get 2).map (·.nextIdx) = some 4 ∧
        st.raft.msgs.map (·.msgType) = [.msgSnapshot] ∧
        rq.requestSnapshot = 3 ∧ rq.term = 2 ∧ rq.frm = 2) ∧
      ∃ (s : Sys) (st : NState) (x : Message), s ∈ h ∧ s.node 1 = some st ∧
        st.raft.state = .leader ∧ st.raft.term = 2 ∧ st.raft.batchAppend = true ∧
        st.raft.msgs.head!.msgType = .msgSnapshot ∧ x ∈ st.raft.msgs ∧
        x.msgType = .msgAppend ∧ x.index = 3 ∧ x.logTerm = 0 ∧ x.entries.map (·.index) = [4] ∧
        st.raft.raftLog.term 3 = .ok 2 ∧ st.raft.raftLog.lastIndex = 4 := by
  have h36 : c01l_s36 ∈ c01l_hist := List.mem_append_right _ (by simp [c01l_tail])
  refine ⟨c01l_hist, c01l_hyp3wL, c01l_not_hyp3wK, ⟨_, c01l_s40_mem, c01l_not_saneQ⟩,
    ⟨_, c01l_s43_mem, c01l_not_noBatch⟩, ⟨c01l_s36, c01l_a20, c01l_mRq, h36, ?_⟩,
    ⟨c01l_s43, c01l_a24, c01l_glued, c01l_s43_mem, c01l_glued_facts⟩⟩
  exact c01l_progress_beyond_log

/-- `Hyp3wL` is strictly weaker than `Hyp3wK` -/
theorem C01l_strictly_weaker :
    (∀ cfg c0 h, Hyp3wK cfg c0 h → Hyp3wL cfg c0 h) ∧
    ¬ (∀ cfg c0 h, Hyp3wL cfg c0 h → Hyp3wK cfg c0 h) :=
  ⟨fun _ _ _ H => H.toHyp3wL, fun hall => c01l_not_hyp3wK (hall _ _ _ c01l_hyp3wL)⟩

/-- the history does not contradict the conclusions: every commit index in it is at most 1 (and the
first 15 states are the history of `C01d` / `C01c`'s non-vacuity example) -/
theorem C01l_counterexample_commits :
    ∀ s ∈ c01l_tail, ∀ p ∈ s.nodes, p.2.raft.raftLog.committed ≤ 1 := c01l_commits

end RaftProps.C01l

namespace RaftModel.ClusterB
open RaftModel RaftModel.Cluster RaftModel.Node RaftModel.Raft RaftModel.Raft.CC

/-! ## the six theorems of C01f / C01k under `Hyp3wL`, **conditionally** (`mute` as an explicit hypothesis) -/

/-- **C04 `cluster_leader_commit_rule`** — the commit rule with **durable acknowledgements**: whenever
a step `h[n] → h[n+1]` takes the commit index of a node `l` that is leader of term `t` after the step
from `c` to `c' > c`, the entry at `c'` in its log carries term `t`, and there is a joint quorum `Q` of
`cfg` such that every `j ∈ Q` is

* `l` itself, with `persisted ≥ c'` — and its storage holds its log up to `c'`; or
* the sender of an accepting `MsgAppendResponse` `x` for term `t` with `index ≥ c'` that is in the
  transport before the step, **and in every state of the history whose transport holds `x` — from the
  moment `x` entered the transport on — the storage of `j` holds `l`'s log up to `c'`**. -/
theorem _root_.RaftProps.C01l.C04_cluster_leader_commit_rule_partial (cfg : JointConfig) (c0 : Nat) (h : List Sys)
    (H : Hyp3wL cfg c0 h)
    (hmute : (∀ s ∈ h, NoBatch s) ∨ (∀ s ∈ h, SaneQ s))
    (n : Nat) (a b : Sys) (ha : h[n]? = some a) (hb : h[n + 1]? = some b)
    (l : Nat) (sta stb : NState) (hla : a.node l = some sta) (hlb : b.node l = some stb)
    (t : Nat) (hs : stb.raft.state = .leader) (ht : stb.raft.term = t)
    (hc : sta.raft.raftLog.committed < stb.raft.raftLog.committed) :
    stb.raft.raftLog.term stb.raft.raftLog.committed = .ok t ∧
    ∃ Q, IsJointQuorum cfg Q ∧ ∀ j ∈ Q,
      (j = l ∧ stb.raft.raftLog.committed ≤ stb.raft.raftLog.persisted ∧
        ∀ k, k ≤ stb.raft.raftLog.committed →
          (storeLog stb.raft.raftLog.store).entryAt k = stb.raft.raftLog.abs.entryAt k) ∨
      ∃ x ∈ a.net, x.msgType = .msgAppendResponse ∧ x.reject = false ∧ x.frm = j ∧ x.term = t ∧
        stb.raft.raftLog.committed ≤ x.index ∧
        ∀ (m : Nat) (s : Sys) (stj : NState), h[m]? = some s → x ∈ s.net → s.node j = some stj →
          ∀ k, k ≤ stb.raft.raftLog.committed →
            (storeLog stj.raft.raftLog.store).entryAt k = stb.raft.raftLog.abs.entryAt k :=
  RaftProps.C01k.C04_cluster_leader_commit_rule cfg c0 h (H.toHyp3wK_partial hmute) n a b ha hb l sta stb hla hlb t hs ht hc

/-- **C03 `cluster_leader_completeness`** — every entry a leader has committed is in the log of every
leader of a later term: if a step `h[n] → h[n+1]` takes the commit index of `l`, leader of term `t`
after the step, to `c'`, then any node that leads a term `t' > t` in any state `h[m]` of the history
holds, at every index up to `c'`, the entry `l` held there. -/
theorem _root_.RaftProps.C01l.C03_cluster_leader_completeness_partial (cfg : JointConfig) (c0 : Nat) (h : List Sys)
    (H : Hyp3wL cfg c0 h)
    (hmute : (∀ s ∈ h, NoBatch s) ∨ (∀ s ∈ h, SaneQ s))
    (n : Nat) (a b : Sys) (ha : h[n]? = some a) (hb : h[n + 1]? = some b)
    (l : Nat) (sta stb : NState) (hla : a.node l = some sta) (hlb : b.node l = some stb)
    (hs : stb.raft.state = .leader)
    (hc : sta.raft.raftLog.committed < stb.raft.raftLog.committed)
    (m : Nat) (s : Sys) (hm : h[m]? = some s) (l' : Nat) (st' : NState)
    (hl' : s.node l' = some st') (hs' : st'.raft.state = .leader)
    (ht : stb.raft.term < st'.raft.term) :
    ∀ k, k ≤ stb.raft.raftLog.committed →
      st'.raft.raftLog.abs.entryAt k = stb.raft.raftLog.abs.entryAt k :=
  RaftProps.C01k.C03_cluster_leader_completeness cfg c0 h (H.toHyp3wK_partial hmute) n a b ha hb l sta stb hla hlb hs hc m s hm l' st' hl' hs' ht

/-- **C04 `cluster_follower_commit_sound`** — *every* commit index is sound: in every state `h[m]`,
what a node `v` has marked committed is at most the common snapshot point `c0`, or it was committed by
a leader: there is an earlier step `h[n] → h[n+1]` (`n < m`) that took the commit index of a node `l`,
leader of a term `t ≤ term(v)` after the step, to some `c' ≥ committed(v)`, and the log of `v` equals
the log `l` had then up to `committed(v)`. -/
theorem _root_.RaftProps.C01l.C04_cluster_follower_commit_sound_partial (cfg : JointConfig) (c0 : Nat) (h : List Sys)
    (H : Hyp3wL cfg c0 h)
    (hmute : (∀ s ∈ h, NoBatch s) ∨ (∀ s ∈ h, SaneQ s)) (m : Nat) (s : Sys) (hm : h[m]? = some s) (v : Nat) (st : NState)
    (hv : s.node v = some st) :
    st.raft.raftLog.committed ≤ c0 ∨
    ∃ (n : Nat) (a b : Sys) (l : Nat) (sta stb : NState), n < m ∧ h[n]? = some a ∧
      h[n + 1]? = some b ∧ a.node l = some sta ∧ b.node l = some stb ∧
      stb.raft.state = .leader ∧ sta.raft.raftLog.committed < stb.raft.raftLog.committed ∧
      st.raft.raftLog.committed ≤ stb.raft.raftLog.committed ∧ stb.raft.term ≤ st.raft.term ∧
      ∀ k, k ≤ st.raft.raftLog.committed →
        st.raft.raftLog.abs.entryAt k = stb.raft.raftLog.abs.entryAt k :=
  RaftProps.C01k.C04_cluster_follower_commit_sound cfg c0 h (H.toHyp3wK_partial hmute) m s hm v st hv

/-- … and so is every **stored** commit index (what a restarted node starts from): it is not ahead of
the commit index, and it is covered by a leader's commit of a term not above the stored term, with the
stored entries. -/
theorem _root_.RaftProps.C01l.C04_cluster_stored_commit_sound_partial (cfg : JointConfig) (c0 : Nat) (h : List Sys)
    (H : Hyp3wL cfg c0 h)
    (hmute : (∀ s ∈ h, NoBatch s) ∨ (∀ s ∈ h, SaneQ s)) (m : Nat) (s : Sys) (hm : h[m]? = some s) (v : Nat) (st : NState)
    (hv : s.node v = some st) :
    st.raft.raftLog.store.hardState.commit ≤ st.raft.raftLog.committed ∧
    (st.raft.raftLog.store.hardState.commit ≤ c0 ∨
     ∃ (n : Nat) (a b : Sys) (l : Nat) (sta stb : NState), n < m ∧ h[n]? = some a ∧
      h[n + 1]? = some b ∧ a.node l = some sta ∧ b.node l = some stb ∧
      stb.raft.state = .leader ∧ sta.raft.raftLog.committed < stb.raft.raftLog.committed ∧
      st.raft.raftLog.store.hardState.commit ≤ stb.raft.raftLog.committed ∧
      stb.raft.term ≤ st.raft.raftLog.store.hardState.term ∧
      ∀ k, k ≤ st.raft.raftLog.store.hardState.commit →
        (storeLog st.raft.raftLog.store).entryAt k = stb.raft.raftLog.abs.entryAt k) :=
  RaftProps.C01k.C04_cluster_stored_commit_sound cfg c0 h (H.toHyp3wK_partial hmute) m s hm v st hv

/-- **C01 `cluster_state_machine_safety`** — any two nodes, in any two states of the history (the same
node before and after a restart included), hold the same entry at every index both have marked
committed. -/
theorem _root_.RaftProps.C01l.C01_cluster_state_machine_safety_partial (cfg : JointConfig) (c0 : Nat) (h : List Sys)
    (H : Hyp3wL cfg c0 h)
    (hmute : (∀ s ∈ h, NoBatch s) ∨ (∀ s ∈ h, SaneQ s))
    (m1 : Nat) (s1 : Sys) (hm1 : h[m1]? = some s1) (v1 : Nat) (st1 : NState)
    (hv1 : s1.node v1 = some st1)
    (m2 : Nat) (s2 : Sys) (hm2 : h[m2]? = some s2) (v2 : Nat) (st2 : NState)
    (hv2 : s2.node v2 = some st2)
    (k : Nat) (hk1 : k ≤ st1.raft.raftLog.committed) (hk2 : k ≤ st2.raft.raftLog.committed) :
    st1.raft.raftLog.abs.entryAt k = st2.raft.raftLog.abs.entryAt k :=
  RaftProps.C01k.C01_cluster_state_machine_safety cfg c0 h (H.toHyp3wK_partial hmute) m1 s1 hm1 v1 st1 hv1 m2 s2 hm2 v2 st2 hv2 k hk1 hk2

/-- … in particular for the **applied** entries of two nodes whose applied index is within their
commit index (`AppliedOk`, which holds outside the restart window — `raft_log.rs:44-46`). -/
theorem _root_.RaftProps.C01l.C01_cluster_state_machine_safety_applied_partial (cfg : JointConfig) (c0 : Nat)
    (h : List Sys) (H : Hyp3wL cfg c0 h)
    (hmute : (∀ s ∈ h, NoBatch s) ∨ (∀ s ∈ h, SaneQ s))
    (m1 : Nat) (s1 : Sys) (hm1 : h[m1]? = some s1) (v1 : Nat) (st1 : NState)
    (hv1 : s1.node v1 = some st1) (ha1 : st1.raft.raftLog.AppliedOk)
    (m2 : Nat) (s2 : Sys) (hm2 : h[m2]? = some s2) (v2 : Nat) (st2 : NState)
    (hv2 : s2.node v2 = some st2) (ha2 : st2.raft.raftLog.AppliedOk)
    (k : Nat) (hk1 : k ≤ st1.raft.raftLog.applied) (hk2 : k ≤ st2.raft.raftLog.applied) :
    st1.raft.raftLog.abs.entryAt k = st2.raft.raftLog.abs.entryAt k :=
  RaftProps.C01k.C01_cluster_state_machine_safety_applied cfg c0 h (H.toHyp3wK_partial hmute) m1 s1 hm1 v1 st1 hv1 ha1 m2 s2 hm2 v2 st2 hv2 ha2 k hk1 hk2

end RaftModel.ClusterB
