import RaftProofs.RaftNodeC16

/-!
# C16 — PreVote + CheckQuorum: a node that cannot win does not disrupt the cluster

Node-local theorems on the executable model of `src/raft.rs` (`RaftModel.Raft*`, tied to the code by
the free-running correspondence `rvh raftnode` ⇄ `rvm`).  They hold for ALL states and ALL messages
unless a hypothesis is named.
-/
namespace RaftProps.C16
open RaftModel RaftModel.Raft

/-! ### role changes: what `reset`, `become_*` do to the frame -/

theorem reset_proj (r : Raft) (t : Nat) :
    (r.reset t).state = r.state ∧ (r.reset t).leaderId = 0 ∧ (r.reset t).id = r.id ∧
    (r.reset t).checkQuorum = r.checkQuorum ∧ (r.reset t).preVote = r.preVote := by
  unfold Raft.reset
  simp only [Raft.mapProgress, Raft.abortLeaderTransfer, Raft.resetRandomizedElectionTimeout]
  by_cases h : r.term ≠ t <;> simp [h]

theorem becomeFollower_proj (r : Raft) (t l : Nat) :
    (r.becomeFollower t l).state = .follower ∧ (r.becomeFollower t l).leaderId = l ∧
    (r.becomeFollower t l).id = r.id ∧ (r.becomeFollower t l).checkQuorum = r.checkQuorum ∧
    (r.becomeFollower t l).preVote = r.preVote := by
  obtain ⟨_, _, h3, h4, h5⟩ := reset_proj r t
  unfold Raft.becomeFollower
  exact ⟨rfl, rfl, h3, h4, h5⟩

/-- a (pre-)candidate gave up its campaign at the same term (`become_follower(self.term, INVALID_ID)`):
term and vote are kept -/
structure Stepdown (r r' : Raft) : Prop where
  role : r.state = .candidate ∨ r.state = .preCandidate
  term : r'.term = r.term
  vote : r'.vote = r.vote
  state : r'.state = .follower
  leaderId : r'.leaderId = 0
  id : r'.id = r.id
  checkQuorum : r'.checkQuorum = r.checkQuorum
  preVote : r'.preVote = r.preVote

theorem Stepdown.of_frame {a r r' : Raft} (h0 : Frame a r) (h : Stepdown r r') : Stepdown a r' :=
  ⟨by rw [← h0.state]; exact h.role, h.term.trans h0.term, h.vote.trans h0.vote, h.state, h.leaderId,
   h.id.trans h0.id, h.checkQuorum.trans h0.checkQuorum, h.preVote.trans h0.preVote⟩

theorem stepdown_becomeFollower (r : Raft) (hs : r.state = .candidate ∨ r.state = .preCandidate) :
    Stepdown r (r.becomeFollower r.term 0) := by
  obtain ⟨h1, h2, h3, h4, h5⟩ := becomeFollower_proj r r.term 0
  obtain ⟨h6, h7⟩ := becomeFollower_same_term r 0
  exact ⟨hs, h6, h7, h1, h2, h3, h4, h5⟩

/-- `maybe_commit_by_vote` (raft.rs:2248): either the frame is kept, or a (pre-)candidate that learnt
of a committed-but-unapplied configuration change steps down at the same term -/
theorem maybeCommitByVote_cases {a r r' : Raft} {m : Message} (h : r.maybeCommitByVote m = .ok r')
    (h0 : Frame a r) : Frame a r' ∨ Stepdown a r' := by
  unfold Raft.maybeCommitByVote at h
  split at h
  · cases h; exact Or.inl h0
  · simp only at h
    split at h
    · cases h; exact Or.inl h0
    · split at h
      · cases h
      · cases h
      · cases h; exact Or.inl h0
      · split at h
        · cases h; exact Or.inl (Frame.mk' h0)
        · rename_i log _ hst
          split at h
          · cases h
          · cases h
          · cases h
            refine Or.inr (Stepdown.of_frame (Frame.mk' h0) (stepdown_becomeFollower _ ?_))
            show r.state = .candidate ∨ r.state = .preCandidate
            cases hr : r.state <;> simp [hr] at hst ⊢
          · cases h; exact Or.inl (Frame.mk' h0)

/-- a leader is never touched by `maybe_commit_by_vote` -/
theorem maybeCommitByVote_leader {r r' : Raft} {m : Message} (hs : r.state = .leader)
    (h : r.maybeCommitByVote m = .ok r') : r' = r := by
  unfold Raft.maybeCommitByVote at h
  simp [hs] at h
  exact h.symm

/-! ### the term preamble of `step` -/

/-- The term preamble of `step` (raft.rs:1352-1482) changes the frame in exactly one way:
`become_follower(m.term, _)` on a higher-term message that is neither a vote request ignored under
the lease, nor a pre-vote request, nor a granted pre-vote response. -/
theorem stepTerm_cases {r r1 : Raft} {m : Message} {b : Bool} (h : r.stepTerm m = .ok (r1, b)) :
    Frame r r1 ∨
    (r.term < m.term ∧ m.msgType ≠ .msgRequestPreVote ∧
      ¬ (m.msgType = .msgRequestPreVoteResponse ∧ m.reject = false) ∧
      ¬ ((m.msgType = .msgRequestVote ∨ m.msgType = .msgRequestPreVote) ∧
          m.context ≠ campaignTransfer ∧
          (r.checkQuorum = true ∧ r.leaderId ≠ 0 ∧ r.electionElapsed < r.electionTimeout)) ∧
      b = true ∧ ∃ l, r1 = r.becomeFollower m.term l) := by
  unfold Raft.stepTerm at h
  split at h
  · cases h; exact Or.inl Frame.rfl
  · split at h
    · rename_i hgt
      simp only at h
      split at h
      · cases h; exact Or.inl Frame.rfl
      · rename_i hlease
        split at h
        · cases h; exact Or.inl Frame.rfl
        · rename_i hpv
          have hpv1 : m.msgType ≠ .msgRequestPreVote := fun e => hpv (Or.inl e)
          have hpv2 : ¬ (m.msgType = .msgRequestPreVoteResponse ∧ m.reject = false) :=
            fun e => hpv (Or.inr ⟨e.1, by simp [e.2]⟩)
          split at h
          · cases h; exact Or.inr ⟨hgt, hpv1, hpv2, hlease, rfl, _, rfl⟩
          · cases h; exact Or.inr ⟨hgt, hpv1, hpv2, hlease, rfl, _, rfl⟩
    · split at h
      · left; frame_auto h [send_frame]
      · cases h; exact Or.inl Frame.rfl

/-- a message that is not from a higher term never changes the frame in the preamble -/
theorem stepTerm_frame_of_not_higher {r r1 : Raft} {m : Message} {b : Bool}
    (hle : ¬ r.term < m.term) (h : r.stepTerm m = .ok (r1, b)) : Frame r r1 := by
  rcases stepTerm_cases h with h1 | h1
  · exact h1
  · exact absurd h1.1 hle

/-- a pre-vote request never changes the frame in the preamble, whatever its term -/
theorem stepTerm_frame_of_prevote {r r1 : Raft} {m : Message} {b : Bool}
    (hm : m.msgType = .msgRequestPreVote) (h : r.stepTerm m = .ok (r1, b)) : Frame r r1 := by
  rcases stepTerm_cases h with h1 | h1
  · exact h1
  · exact absurd hm h1.2.1

/-! ### the vote arm of `step` -/

/-- what handling a (pre-)vote request can do to term, role and known leader: nothing, or a
(pre-)candidate steps down at the same term (only through `maybe_commit_by_vote`) -/
structure VoteOutcome (r r' : Raft) : Prop where
  term : r'.term = r.term
  id : r'.id = r.id
  checkQuorum : r'.checkQuorum = r.checkQuorum
  preVote : r'.preVote = r.preVote
  role : (r'.state = r.state ∧ r'.leaderId = r.leaderId) ∨
    ((r.state = .candidate ∨ r.state = .preCandidate) ∧ r'.state = .follower ∧ r'.leaderId = 0)

theorem VoteOutcome.of_frame {r r' : Raft} (h : Frame r r') : VoteOutcome r r' :=
  ⟨h.term, h.id, h.checkQuorum, h.preVote, Or.inl ⟨h.state, h.leaderId⟩⟩

theorem VoteOutcome.of_stepdown {r r' : Raft} (h : Stepdown r r') : VoteOutcome r r' :=
  ⟨h.term, h.id, h.checkQuorum, h.preVote, Or.inr ⟨h.role, h.state, h.leaderId⟩⟩

theorem stepVoteReject_cases {r r' : Raft} {m : Message} {t : MsgType}
    (h : r.stepVoteReject m t = .ok r') : Frame r r' ∨ Stepdown r r' := by
  unfold Raft.stepVoteReject at h
  split at h
  · cases h
  · cases h
  · split at h
    · rename_i r1 hs
      have h1 : Frame r r1 := send_frame hs Frame.rfl
      split at h
      · exact maybeCommitByVote_cases h h1
      · cases h; exact Or.inl h1
    · cases h
    · cases h

theorem stepVoteGrant_outcome {r r' : Raft} {m : Message} {t : MsgType}
    (h : r.stepVoteGrant m t = .ok r') :
    VoteOutcome r r' ∧ (r'.vote = r.vote ∨ (m.msgType = .msgRequestVote ∧ r'.vote = m.frm)) := by
  unfold Raft.stepVoteGrant at h
  split at h
  · rename_i r1 hs
    have h1 : Frame r r1 := send_frame hs Frame.rfl
    split at h
    · rename_i hv
      cases h
      exact ⟨⟨h1.term, h1.id, h1.checkQuorum, h1.preVote, Or.inl ⟨h1.state, h1.leaderId⟩⟩,
        Or.inr ⟨hv, rfl⟩⟩
    · cases h; exact ⟨VoteOutcome.of_frame h1, Or.inl h1.vote⟩
  · cases h
  · cases h

/-- The `MsgRequestVote | MsgRequestPreVote` arm (raft.rs:1489-1533) never changes the term; the
role changes only when a (pre-)candidate steps down at the same term; the vote changes only by
granting a real vote. -/
theorem stepVote_outcome {r r' : Raft} {m : Message} (h : r.stepVote m = .ok r') :
    VoteOutcome r r' ∧ (r'.vote = r.vote ∨ (m.msgType = .msgRequestVote ∧ r'.vote = m.frm)) := by
  unfold Raft.stepVote at h
  split at h
  · cases h
  · split at h
    · exact stepVoteGrant_outcome h
    · rcases stepVoteReject_cases h with h1 | h1
      · exact ⟨VoteOutcome.of_frame h1, Or.inl h1.vote⟩
      · exact ⟨VoteOutcome.of_stepdown h1, Or.inl h1.vote⟩
    · cases h
    · cases h

/-- a leader handling a (pre-)vote request stays leader -/
theorem stepVote_leader {r r' : Raft} {m : Message} (hs : r.state = .leader)
    (h : r.stepVote m = .ok r') : r'.state = .leader ∧ r'.leaderId = r.leaderId ∧ r'.term = r.term := by
  obtain ⟨h1, _⟩ := stepVote_outcome h
  rcases h1.role with h2 | h2
  · exact ⟨h2.1.trans hs, h2.2, h1.term⟩
  · rw [hs] at h2; rcases h2.1 with h3 | h3 <;> cases h3

/-! ### 1. Handling a pre-vote request -/

/-- **C16 (1) `prevote_request_changes_nothing`.**  "Handling a pre-vote request never changes the
receiver's term or vote" — whatever the state and whatever the request (any term, sender, log
position, with or without the transfer context).  Moreover the role and the known leader do not
change either (in particular a higher-term pre-vote request never causes `become_follower`:
raft.rs:1386-1398), with ONE exception found on the model and confirmed in the code: a *candidate or
pre-candidate* that rejects the request runs `maybe_commit_by_vote` on the commit index carried by
the request (raft.rs:1522-1531, 2248-2278) and, if that fast-forwards its commit index over an
unapplied configuration change, gives up its own campaign (`become_follower(self.term,
INVALID_ID)`): same term, same vote, role `Follower`, no leader.  A leader or a follower never
changes role or leader. -/
theorem C16_prevote_request_changes_nothing (r r' : Raft) (m : Message) (res : Option RaftError)
    (hm : m.msgType = .msgRequestPreVote) (h : r.step m = .ok (r', res)) :
    r'.term = r.term ∧ r'.vote = r.vote ∧
    ((r'.state = r.state ∧ r'.leaderId = r.leaderId) ∨
     ((r.state = .candidate ∨ r.state = .preCandidate) ∧ r'.state = .follower ∧ r'.leaderId = 0)) := by
  unfold Raft.step at h
  split at h
  · cases h
  · cases h
  · rename_i r1 ht
    cases h
    have h1 := stepTerm_frame_of_prevote hm ht
    exact ⟨h1.term, h1.vote, Or.inl ⟨h1.state, h1.leaderId⟩⟩
  · rename_i r1 ht
    have h1 := stepTerm_frame_of_prevote hm ht
    simp only [hm] at h
    split at h
    · rename_i r2 hv
      cases h
      obtain ⟨h2, h3⟩ := stepVote_outcome hv
      have hvote : r'.vote = r.vote := by
        rcases h3 with h3 | h3
        · exact h3.trans h1.vote
        · rw [hm] at h3; cases h3.1
      refine ⟨h2.term.trans h1.term, hvote, ?_⟩
      rcases h2.role with h4 | h4
      · exact Or.inl ⟨h4.1.trans h1.state, h4.2.trans h1.leaderId⟩
      · exact Or.inr ⟨by rw [← h1.state]; exact h4.1, h4.2⟩
    · cases h
    · cases h

/-- **C16 (1), leader / follower form.**  A leader that handles any pre-vote request is still the
leader of the same term; a follower is still a follower of the same term with the same leader. -/
theorem C16_prevote_request_keeps_leader_and_follower (r r' : Raft) (m : Message)
    (res : Option RaftError) (hm : m.msgType = .msgRequestPreVote)
    (hs : r.state = .leader ∨ r.state = .follower) (h : r.step m = .ok (r', res)) :
    r'.term = r.term ∧ r'.vote = r.vote ∧ r'.state = r.state ∧ r'.leaderId = r.leaderId := by
  obtain ⟨h1, h2, h3⟩ := C16_prevote_request_changes_nothing r r' m res hm h
  rcases h3 with h3 | h3
  · exact ⟨h1, h2, h3.1, h3.2⟩
  · rcases hs with hs | hs <;> rw [hs] at h3 <;> rcases h3.1 with h4 | h4 <;> cases h4

/-! ### 5./6. The lease -/

/-- **C16 (5) `lease_ignores`.**  With `check_quorum`, a known leader and an unexpired lease
(`election_elapsed < election_timeout`), a higher-term vote or pre-vote request that is not a
leadership transfer leaves the node *exactly* as it was: no term change, no vote, no response
(raft.rs:1356-1384). -/
theorem C16_lease_ignores (r : Raft) (m : Message)
    (hty : m.msgType = .msgRequestVote ∨ m.msgType = .msgRequestPreVote)
    (hterm : r.term < m.term) (hcq : r.checkQuorum = true) (hl : r.leaderId ≠ 0)
    (he : r.electionElapsed < r.electionTimeout) (hctx : m.context ≠ campaignTransfer) :
    r.step m = .ok (r, none) := by
  have h0 : m.term ≠ 0 := by omega
  unfold Raft.step Raft.stepTerm
  simp [h0, hterm, hty, hcq, hl, he, hctx]

example : ∃ (r : Raft) (m : Message), (m.msgType = .msgRequestVote ∨ m.msgType = .msgRequestPreVote) ∧
    r.term < m.term ∧ r.checkQuorum = true ∧ r.leaderId ≠ 0 ∧
    r.electionElapsed < r.electionTimeout ∧ m.context ≠ campaignTransfer :=
  ⟨{ raftLog := default, checkQuorum := true, leaderId := 2, electionTimeout := 10, term := 3 },
   { msgType := .msgRequestVote, term := 4, frm := 3 }, by decide⟩

/-- **C16 (6) `leader_keeps_term_under_lease`.**  "No behaviour of the remaining nodes makes that
leader step down": a leader with `check_quorum` whose lease has not expired
(`election_elapsed < election_timeout`; a leader's `leader_id` is its own id, hypothesis
`r.leaderId ≠ 0`) stays leader of the same term whatever `MsgRequestVote` / `MsgRequestPreVote` it
is sent — any term, any sender, any log position — except an explicitly requested leadership
transfer (`context = CampaignTransfer`). -/
theorem C16_leader_keeps_term_under_lease (r r' : Raft) (m : Message) (res : Option RaftError)
    (hty : m.msgType = .msgRequestVote ∨ m.msgType = .msgRequestPreVote)
    (hs : r.state = .leader) (hcq : r.checkQuorum = true) (hl : r.leaderId ≠ 0)
    (he : r.electionElapsed < r.electionTimeout) (hctx : m.context ≠ campaignTransfer)
    (h : r.step m = .ok (r', res)) :
    r'.term = r.term ∧ r'.state = .leader ∧ r'.leaderId = r.leaderId := by
  by_cases hterm : r.term < m.term
  · rw [C16_lease_ignores r m hty hterm hcq hl he hctx] at h
    cases h; exact ⟨rfl, hs, rfl⟩
  · unfold Raft.step at h
    split at h
    · cases h
    · cases h
    · rename_i r1 ht
      cases h
      have h1 := stepTerm_frame_of_not_higher hterm ht
      exact ⟨h1.term, h1.state.trans hs, h1.leaderId⟩
    · rename_i r1 ht
      have h1 := stepTerm_frame_of_not_higher hterm ht
      have hv : ∃ r2, r1.stepVote m = .ok r2 ∧ r' = r2 := by
        rcases hty with hty | hty <;> simp only [hty] at h <;> split at h <;> cases h <;>
          exact ⟨_, ‹_›, rfl⟩
      obtain ⟨r2, hv, rfl⟩ := hv
      obtain ⟨h2, h3, h4⟩ := stepVote_leader (h1.state.trans hs) hv
      exact ⟨h4.trans h1.term, h2, h3.trans h1.leaderId⟩

/-- **C16 (6), member of the majority.**  A follower that heard from its leader within
`election_timeout` (same lease) keeps its term, its vote and its leader whatever higher-term
non-transfer vote or pre-vote request it is sent: this is `C16_lease_ignores`; and a request that is
*not* from a higher term never changes a node's term at all. -/
theorem C16_vote_request_not_higher_keeps_term (r r' : Raft) (m : Message) (res : Option RaftError)
    (hty : m.msgType = .msgRequestVote ∨ m.msgType = .msgRequestPreVote)
    (hterm : ¬ r.term < m.term) (h : r.step m = .ok (r', res)) : r'.term = r.term := by
  unfold Raft.step at h
  split at h
  · cases h
  · cases h
  · rename_i r1 ht
    cases h
    exact (stepTerm_frame_of_not_higher hterm ht).term
  · rename_i r1 ht
    have h1 := stepTerm_frame_of_not_higher hterm ht
    have hv : ∃ r2, r1.stepVote m = .ok r2 ∧ r' = r2 := by
      rcases hty with hty | hty <;> simp only [hty] at h <;> split at h <;> cases h <;>
        exact ⟨_, ‹_›, rfl⟩
    obtain ⟨r2, hv, rfl⟩ := hv
    exact (stepVote_outcome hv).1.term.trans h1.term

/-! ### 7. Check-quorum step-down -/

/-- the local `MsgCheckQuorum` stepped by a leader (raft.rs:2052-2062) -/
theorem step_checkQuorum_leader {r r' : Raft} {frm : Option Nat} (hs : r.state = .leader)
    (h : r.stepIgnore (newMessage 0 .msgCheckQuorum frm) = .ok r') :
    ((r.prs.quorumRecentlyActive r.id).2 = true ∧ Frame r r') ∨
    ((r.prs.quorumRecentlyActive r.id).2 = false ∧ r'.term = r.term ∧ r'.vote = r.vote ∧
      r'.state = .follower ∧ r'.leaderId = 0) := by
  unfold Raft.stepIgnore Raft.step Raft.stepTerm at h
  simp only [newMessage, if_true, hs] at h
  unfold Raft.stepLeader at h
  simp only [Raft.checkQuorumActive] at h
  cases hq : (r.prs.quorumRecentlyActive r.id).2
  · right
    simp only [hq, Bool.not_false, if_true, Res.bind] at h
    cases h
    obtain ⟨h1, h2, _⟩ := becomeFollower_proj
      ({ r with prs := (r.prs.quorumRecentlyActive r.id).1 } : Raft) r.term 0
    obtain ⟨h3, h4⟩ := becomeFollower_same_term
      ({ r with prs := (r.prs.quorumRecentlyActive r.id).1 } : Raft) 0
    exact ⟨rfl, h3, h4, h1, h2⟩
  · left
    simp only [hq, Bool.not_true, Bool.false_eq_true, if_false, Res.bind] at h
    cases h
    exact ⟨rfl, Frame.mk' Frame.rfl⟩

/-- the local `MsgBeat` stepped by a leader only broadcasts heartbeats -/
theorem step_beat_leader {r r' : Raft} {frm : Option Nat} (hs : r.state = .leader)
    (h : r.stepIgnore (newMessage 0 .msgBeat frm) = .ok r') : Frame r r' := by
  unfold Raft.stepIgnore Raft.step Raft.stepTerm at h
  simp only [newMessage, if_true, hs] at h
  unfold Raft.stepLeader at h
  simp only at h
  frame_auto h [bcastHeartbeat_frame]

/-- **C16 (7) `check_quorum_step_down_only_without_quorum`.**  One leader tick (`tick_heartbeat`,
raft.rs:1121-1149) never changes term or vote, and the leader is still leader with the same
`leader_id` afterwards — "while a leader and a majority exchange heartbeats on schedule … [nothing]
makes that leader step down" — unless ALL of the following hold at that tick: `check_quorum` is on,
the election timeout elapsed (`election_elapsed + 1 ≥ election_timeout`), and
`quorum_recently_active` (tracker.rs:336, evaluated by `check_quorum_active` raft.rs:2902 inside the
`MsgCheckQuorum` arm of `step_leader`, raft.rs:2052-2062) is false, i.e. the leader has NOT heard from
a quorum during the last election timeout; then it becomes a follower of the same term without a
leader. -/
theorem C16_check_quorum_step_down_only_without_quorum (r r' : Raft) (b : Bool) (hs : r.state = .leader)
    (h : r.tickHeartbeat = .ok (r', b)) :
    r'.term = r.term ∧ r'.vote = r.vote ∧
    ((r'.state = .leader ∧ r'.leaderId = r.leaderId) ∨
     (r.checkQuorum = true ∧ r.electionTimeout ≤ r.electionElapsed + 1 ∧
      (r.prs.quorumRecentlyActive r.id).2 = false ∧ r'.state = .follower ∧ r'.leaderId = 0)) := by
  unfold Raft.tickHeartbeat at h
  simp only [Raft.abortLeaderTransfer] at h
  rw [Res.bind_eq_ok_iff] at h
  obtain ⟨⟨ra, hr⟩, h1, h2⟩ := h
  -- phase 1: the election-timeout block (check quorum, abort a stalled transfer)
  have p1 : ra.term = r.term ∧ ra.vote = r.vote ∧
      ((ra.state = .leader ∧ ra.leaderId = r.leaderId) ∨
       (r.checkQuorum = true ∧ r.electionTimeout ≤ r.electionElapsed + 1 ∧
        (r.prs.quorumRecentlyActive r.id).2 = false ∧ ra.state = .follower ∧ ra.leaderId = 0)) := by
    split at h1
    · rename_i hto
      rw [Res.bind_eq_ok_iff] at h1
      obtain ⟨⟨rb, hb⟩, h3, h4⟩ := h1
      have p0 : rb.term = r.term ∧ rb.vote = r.vote ∧
          ((rb.state = .leader ∧ rb.leaderId = r.leaderId) ∨
           (r.checkQuorum = true ∧ r.electionTimeout ≤ r.electionElapsed + 1 ∧
            (r.prs.quorumRecentlyActive r.id).2 = false ∧ rb.state = .follower ∧ rb.leaderId = 0)) := by
        split at h3
        · rename_i hcq
          rw [Res.bind_eq_ok_iff] at h3
          obtain ⟨rc, h5, h6⟩ := h3
          cases h6
          rcases step_checkQuorum_leader (by exact hs) h5 with ⟨_, hf⟩ | ⟨hq, e1, e2, e3, e4⟩
          · exact ⟨hf.term, hf.vote, Or.inl ⟨hf.state.trans hs, hf.leaderId⟩⟩
          · exact ⟨e1, e2, Or.inr ⟨hcq, hto, hq, e3, e4⟩⟩
        · cases h3; exact ⟨rfl, rfl, Or.inl ⟨hs, rfl⟩⟩
      simp only at h4
      split at h4
      · cases h4; exact p0
      · cases h4; exact p0
    · cases h1; exact ⟨rfl, rfl, Or.inl ⟨hs, rfl⟩⟩
  -- phase 2: the heartbeat block
  simp only at h2
  split at h2
  · cases h2; exact p1
  · rename_i hl
    have hl' : ra.state = .leader := by
      cases hst : ra.state <;> simp [hst] at hl ⊢
    have hld : ra.leaderId = r.leaderId := by
      rcases p1.2.2 with p | p
      · exact p.2
      · rw [hl'] at p; cases p.2.2.2.1
    split at h2
    · rw [Res.bind_eq_ok_iff] at h2
      obtain ⟨rc, h5, h6⟩ := h2
      cases h6
      have hf := step_beat_leader (by exact hl') h5
      exact ⟨hf.term.trans p1.1, hf.vote.trans p1.2.1, Or.inl ⟨hf.state.trans hl', hf.leaderId.trans hld⟩⟩
    · cases h2; exact ⟨p1.1, p1.2.1, Or.inl ⟨hl', hld⟩⟩

/-- **C16 (7), positive form.**  A leader that heard from a quorum (`quorum_recently_active`), or
without `check_quorum`, or before the election timeout, is still the leader of the same term after
its tick. -/
theorem C16_leader_with_active_quorum_survives_tick (r r' : Raft) (b : Bool) (hs : r.state = .leader)
    (hq : r.checkQuorum = false ∨ r.electionElapsed + 1 < r.electionTimeout ∨
          (r.prs.quorumRecentlyActive r.id).2 = true)
    (h : r.tickHeartbeat = .ok (r', b)) :
    r'.term = r.term ∧ r'.vote = r.vote ∧ r'.state = .leader ∧ r'.leaderId = r.leaderId := by
  obtain ⟨h1, h2, h3⟩ := C16_check_quorum_step_down_only_without_quorum r r' b hs h
  rcases h3 with h3 | ⟨c1, c2, c3, _⟩
  · exact ⟨h1, h2, h3.1, h3.2⟩
  · rcases hq with hq | hq | hq
    · rw [c1] at hq; cases hq
    · omega
    · rw [c3] at hq; cases hq

/-! ### campaigns: `become_candidate`, `become_pre_candidate`, `become_leader`, `poll`, `campaign`, `hup` -/

theorem sendVoteRequests_frame {a r r' : Raft} {ct : CampaignType} {vm : MsgType} {t : Nat}
    (h : r.sendVoteRequests ct vm t = .ok r') (h0 : Frame a r) : Frame a r' := by
  unfold Raft.sendVoteRequests at h
  split at h
  · cases h
  · cases h
  · split at h
    · cases h
    · cases h
    · refine foldl_frame _ ?_ _ _ h (by intro r1 e; cases e; exact h0)
      intro acc id r1 h1
      cases acc with
      | err e => cases h1
      | panic s => cases h1
      | ok r0 =>
        refine ⟨r0, rfl, fun h0 => ?_⟩
        change (if id = r0.id then Res.ok r0 else _) = _ at h1
        split at h1
        · cases h1; exact h0
        · exact send_frame h1 h0

theorem becomeCandidate_proj {r r' : Raft} (h : r.becomeCandidate = .ok r') :
    r'.term = r.term + 1 ∧ r'.state = .candidate ∧ r'.id = r.id := by
  unfold Raft.becomeCandidate at h
  split at h
  · cases h
  · split at h
    · cases h
    · cases h
      exact ⟨(reset_term_vote r (r.term + 1)).1, rfl, (reset_proj r (r.term + 1)).2.2.1⟩

/-- `become_pre_candidate` (raft.rs:1203-1218) keeps term and vote: only the role, the vote tally and
the known leader change -/
theorem becomePreCandidate_proj {r r' : Raft} (h : r.becomePreCandidate = .ok r') :
    r' = { r with state := .preCandidate, prs := r.prs.resetVotes, leaderId := 0 } := by
  unfold Raft.becomePreCandidate at h
  split at h
  · cases h
  · cases h; rfl

theorem becomeLeader_term {r r' : Raft} (h : r.becomeLeader = .ok r') :
    r'.term = r.term ∧ r'.state = .leader := by
  unfold Raft.becomeLeader at h
  split at h
  · cases h
  · simp only at h
    split at h
    · cases h
    · split at h
      · cases h
      · split at h
        · rename_i r1 ha
          cases h
          have hf := appendEntry_frame ha Frame.rfl
          exact ⟨hf.term.trans (reset_term_vote r r.term).1, hf.state⟩
        · cases h
        · cases h
        · cases h

/-- `poll` (raft.rs:2281): the tally after recording the vote decides; the term moves only when a
*pre-candidate wins* (then by exactly what `onPreWin`, the real campaign, does) -/
theorem pollWith_cases {onPreWin : Raft → Res Raft} {r r' : Raft} {frm : Nat} {t : MsgType}
    {v : Bool} {res : VoteResult} (h : pollWith onPreWin r frm t v = .ok (r', res)) :
    res = (r.prs.recordVote frm v).tallyVotes.2.2 ∧
    ((res = .won ∧ r.state = .preCandidate ∧
        onPreWin { r with prs := r.prs.recordVote frm v } = .ok r') ∨
     (r'.term = r.term ∧ (res ≠ .won ∨ r.state ≠ .preCandidate))) := by
  unfold Raft.pollWith at h
  simp only at h
  generalize hres : (r.prs.recordVote frm v).tallyVotes.2.2 = res0 at h
  cases res0 with
  | won =>
    simp only at h
    split at h
    · rename_i hpc
      rw [Res.bind_eq_ok_iff] at h
      obtain ⟨r2, h1, h2⟩ := h
      cases h2
      exact ⟨rfl, Or.inl ⟨rfl, hpc, h1⟩⟩
    · rename_i hpc
      rw [Res.bind_eq_ok_iff] at h
      obtain ⟨r2, h1, h2⟩ := h
      cases h2
      rw [Res.bind_eq_ok_iff] at h1
      obtain ⟨r3, h3, h4⟩ := h1
      have h5 := becomeLeader_term h3
      have h6 := bcastAppend_frame h4 Frame.rfl
      exact ⟨rfl, Or.inr ⟨h6.term.trans h5.1, Or.inr hpc⟩⟩
  | lost =>
    simp only at h
    cases h
    exact ⟨rfl, Or.inr ⟨(becomeFollower_same_term _ 0).1, Or.inl (by simp)⟩⟩
  | pending =>
    simp only at h
    cases h
    exact ⟨rfl, Or.inr ⟨rfl, Or.inl (by simp)⟩⟩

/-- a real campaign (`campaign(CAMPAIGN_ELECTION | CAMPAIGN_TRANSFER)`, raft.rs:1287) raises the term
by exactly one -/
theorem campaignWith_election_term {poll : Raft → Nat → MsgType → Bool → Res (Raft × VoteResult)}
    (hpoll : ∀ r frm t v r' res, r.state = .candidate → poll r frm t v = .ok (r', res) →
      r'.term = r.term)
    {r r' : Raft} {ct : CampaignType} (hct : ct ≠ .preElection)
    (h : campaignWith poll r ct = .ok r') : r'.term = r.term + 1 := by
  unfold Raft.campaignWith at h
  simp only [hct, if_false] at h
  rw [Res.bind_eq_ok_iff] at h
  obtain ⟨⟨r1, vm, t⟩, h1, h2⟩ := h
  rw [Res.bind_eq_ok_iff] at h1
  obtain ⟨r0, h3, h4⟩ := h1
  cases h4
  obtain ⟨e1, e2, _⟩ := becomeCandidate_proj h3
  simp only at h2
  rw [Res.bind_eq_ok_iff] at h2
  obtain ⟨⟨r2, res⟩, h5, h6⟩ := h2
  have e3 := hpoll _ _ _ _ _ _ e2 h5
  simp only at h6
  split at h6
  · cases h6; exact e3.trans e1
  · exact ((sendVoteRequests_frame h6 Frame.rfl).term.trans e3).trans e1

theorem campaignAfterPreVote_term {r r' : Raft} (h : r.campaignAfterPreVote = .ok r') :
    r'.term = r.term + 1 := by
  unfold Raft.campaignAfterPreVote at h
  refine campaignWith_election_term ?_ (by decide) h
  intro r frm t v r' res hs hp
  rcases (pollWith_cases hp).2 with ⟨_, hpc, _⟩ | ⟨ht, _⟩
  · rw [hs] at hpc; cases hpc
  · exact ht

/-- **`poll`** (raft.rs:2281): the term moves only when a *pre-candidate* records a vote that makes
the pre-vote tally `Won`; then the real campaign starts and the term is raised by exactly one. -/
theorem poll_term {r r' : Raft} {frm : Nat} {t : MsgType} {v : Bool} {res : VoteResult}
    (h : r.poll frm t v = .ok (r', res)) :
    res = (r.prs.recordVote frm v).tallyVotes.2.2 ∧
    ((res = .won ∧ r.state = .preCandidate ∧ r'.term = r.term + 1) ∨
     (r'.term = r.term ∧ (res ≠ .won ∨ r.state ≠ .preCandidate))) := by
  unfold Raft.poll at h
  obtain ⟨h1, h2⟩ := pollWith_cases h
  refine ⟨h1, ?_⟩
  rcases h2 with ⟨a, b, c⟩ | h2
  · exact Or.inl ⟨a, b, (campaignAfterPreVote_term c).trans rfl⟩
  · exact Or.inr h2

/-- `campaign` (raft.rs:1287).  A pre-election keeps the term unless the node's own pre-vote is
already a quorum (single-voter configuration); an election or a transfer raises it by one. -/
theorem campaign_term {r r' : Raft} {ct : CampaignType} (h : r.campaign ct = .ok r') :
    (ct = .preElection ∧
      (r'.term = r.term ∨
       (r'.term = r.term + 1 ∧ (r.prs.resetVotes.recordVote r.id true).tallyVotes.2.2 = .won))) ∨
    (ct ≠ .preElection ∧ r'.term = r.term + 1) := by
  by_cases hct : ct = .preElection
  · left
    refine ⟨hct, ?_⟩
    unfold Raft.campaign Raft.campaignWith at h
    simp only [hct, if_true] at h
    rw [Res.bind_eq_ok_iff] at h
    obtain ⟨⟨r1, vm, t⟩, h1, h2⟩ := h
    rw [Res.bind_eq_ok_iff] at h1
    obtain ⟨r0, h3, h4⟩ := h1
    have e0 := becomePreCandidate_proj h3
    subst e0
    split at h4
    · cases h4
    · cases h4
      simp only at h2
      rw [Res.bind_eq_ok_iff] at h2
      obtain ⟨⟨r2, res⟩, h5, h6⟩ := h2
      obtain ⟨p1, p2⟩ := poll_term h5
      simp only at h6
      have hfin : r'.term = r2.term := by
        split at h6
        · cases h6; rfl
        · exact (sendVoteRequests_frame h6 Frame.rfl).term
      rcases p2 with ⟨a, _, c⟩ | ⟨c, _⟩
      · right
        refine ⟨hfin.trans c, ?_⟩
        rw [← a]; exact p1.symm
      · left; exact hfin.trans c
  · right
    exact ⟨hct, campaignWith_election_term
      (fun r frm t v r' res hs hp => by
        rcases (poll_term hp).2 with ⟨_, hpc, _⟩ | ⟨ht, _⟩
        · rw [hs] at hpc; cases hpc
        · exact ht) hct h⟩

/-- **`hup`** (raft.rs:1543): the term is raised (by one) only by a promotable non-leader, and with
`pre_vote` only for a transfer or when its own pre-vote is already a quorum. -/
theorem hup_term {r r' : Raft} {transfer : Bool} (h : r.hup transfer = .ok r') :
    r'.term = r.term ∨
    (r'.term = r.term + 1 ∧ r.state ≠ .leader ∧ r.promotable = true ∧
      (transfer = true ∨ r.preVote = false ∨
       (r.prs.resetVotes.recordVote r.id true).tallyVotes.2.2 = .won)) := by
  unfold Raft.hup at h
  split at h
  · cases h; exact Or.inl rfl
  · rename_i hl
    split at h
    · cases h; exact Or.inl rfl
    · rename_i hp
      have hp' : r.promotable = true := by simpa using hp
      split at h
      · cases h
      · cases h
      · cases h; exact Or.inl rfl
      · split at h
        · cases h; exact Or.inl rfl
        · split at h
          · rename_i ht
            rcases campaign_term h with ⟨c, _⟩ | ⟨_, c⟩
            · cases c
            · exact Or.inr ⟨c, hl, hp', Or.inl ht⟩
          · split at h
            · rcases campaign_term h with ⟨_, c⟩ | ⟨c, _⟩
              · rcases c with c | c
                · exact Or.inl c
                · exact Or.inr ⟨c.1, hl, hp', Or.inr (Or.inr c.2)⟩
              · exact absurd rfl c
            · rename_i hpv
              rcases campaign_term h with ⟨c, _⟩ | ⟨_, c⟩
              · cases c
              · exact Or.inr ⟨c, hl, hp', Or.inr (Or.inl (by simpa using hpv))⟩

/-! ### the role arms of `step` never change the term, except by a campaign -/

theorem stepLeader_term {r r' : Raft} {m : Message} {e : Option RaftError}
    (h : r.stepLeader m = .ok (r', e)) : r'.term = r.term := by
  unfold Raft.stepLeader at h
  split at h
  · frame_dec h; exact (bcastHeartbeat_frame ‹_› Frame.rfl).term
  · simp only [Raft.checkQuorumActive] at h
    cases hq : (r.prs.quorumRecentlyActive r.id).2
    · simp only [hq, Bool.not_false, if_true] at h
      cases h; exact (becomeFollower_same_term _ 0).1
    · simp only [hq, Bool.not_true, Bool.false_eq_true, if_false] at h
      cases h; rfl
  · suffices Frame r r' from this.term
    frame_auto h [appendEntry_frame, bcastAppend_frame, filterProposal_frame]
  · suffices Frame r r' from this.term
    frame_auto h [handleReadyReadIndex_frame, send_frame, bcastHeartbeatWithCtx_frame]
  · suffices Frame r r' from this.term
    frame_auto h [handleAppendResponse_frame]
  · suffices Frame r r' from this.term
    frame_auto h [handleHeartbeatResponse_frame]
  · cases h; exact (handleSnapshotStatus_frame Frame.rfl).term
  · cases h; exact (handleUnreachable_frame Frame.rfl).term
  · suffices Frame r r' from this.term
    frame_auto h [handleTransferLeader_frame]
  · cases h; rfl

/-- `step_follower` (raft.rs:2377): the term moves only through `MsgTimeoutNow` → `hup(true)` -/
theorem stepFollower_term {r r' : Raft} {m : Message} {e : Option RaftError}
    (hs : r.state = .follower) (h : r.stepFollower m = .ok (r', e)) :
    r'.term = r.term ∨
    (m.msgType = .msgTimeoutNow ∧ r.promotable = true ∧ r.hup true = .ok r') := by
  unfold Raft.stepFollower at h
  split at h
  · left; suffices Frame r r' from this.term
    frame_auto h [send_frame]
  · left
    rw [Res.bind_eq_ok_iff] at h
    obtain ⟨r1, h1, h2⟩ := h
    cases h2
    exact (handleAppendEntries_frame h1 Frame.rfl).term
  · left
    rw [Res.bind_eq_ok_iff] at h
    obtain ⟨r1, h1, h2⟩ := h
    cases h2
    exact (handleHeartbeat_frame h1 Frame.rfl).term
  · left
    rw [Res.bind_eq_ok_iff] at h
    obtain ⟨r1, h1, h2⟩ := h
    cases h2
    exact (handleSnapshot_frame (by exact hs) h1 Frame.rfl).term
  · left; suffices Frame r r' from this.term
    frame_auto h [send_frame]
  · rename_i hm
    split at h
    · rename_i hp
      rw [Res.bind_eq_ok_iff] at h
      obtain ⟨r1, h1, h2⟩ := h
      cases h2
      exact Or.inr ⟨hm, hp, h1⟩
    · cases h; exact Or.inl rfl
  · left; suffices Frame r r' from this.term
    frame_auto h [send_frame]
  · left; suffices Frame r r' from this.term
    frame_auto h [send_frame]
  · cases h; exact Or.inl rfl

/-- `step_candidate` (raft.rs:2320): the term moves only when a pre-candidate polls a pre-vote
response that makes the tally `Won`; since fix F16 a *granted* response is polled only if it carries
the term of this pre-campaign, `m.term = r.term + 1` (any other grant is ignored) -/
theorem stepCandidate_term {r r' : Raft} {m : Message} {e : Option RaftError}
    (h : r.stepCandidate m = .ok (r', e)) :
    r'.term = r.term ∨
    (r.state = .preCandidate ∧ m.msgType = .msgRequestPreVoteResponse ∧ r'.term = r.term + 1 ∧
      (r.prs.recordVote m.frm (!m.reject)).tallyVotes.2.2 = .won ∧
      (m.reject = true ∨ m.term = r.term + 1)) := by
  have hbf : ∀ l, (r.becomeFollower m.term l).state = .follower := fun l =>
    (becomeFollower_proj r m.term l).1
  unfold Raft.stepCandidate at h
  split at h
  · cases h; exact Or.inl rfl
  · left
    split at h
    · cases h
    · rename_i ht
      rw [Res.bind_eq_ok_iff] at h
      obtain ⟨r1, h1, h2⟩ := h
      cases h2
      have := (handleAppendEntries_frame h1 Frame.rfl).term
      rw [this, (becomeFollower_term_vote r m.term m.frm).1]; exact (Decidable.not_not.mp ht).symm
  · left
    split at h
    · cases h
    · rename_i ht
      rw [Res.bind_eq_ok_iff] at h
      obtain ⟨r1, h1, h2⟩ := h
      cases h2
      have := (handleHeartbeat_frame h1 Frame.rfl).term
      rw [this, (becomeFollower_term_vote r m.term m.frm).1]; exact (Decidable.not_not.mp ht).symm
  · left
    split at h
    · cases h
    · rename_i ht
      rw [Res.bind_eq_ok_iff] at h
      obtain ⟨r1, h1, h2⟩ := h
      cases h2
      have := (handleSnapshot_frame (hbf _) h1 Frame.rfl).term
      rw [this, (becomeFollower_term_vote r m.term m.frm).1]; exact (Decidable.not_not.mp ht).symm
  · rename_i hty0
    have hty : m.msgType = .msgRequestPreVoteResponse ∨ m.msgType = .msgRequestVoteResponse := Or.inl hty0
    split at h
    · cases h; exact Or.inl rfl
    · rename_i hc
      split at h
      · cases h; exact Or.inl rfl
      · rename_i hf
        rw [Res.bind_eq_ok_iff] at h
        obtain ⟨⟨r1, res⟩, h1, h2⟩ := h
        simp only at h2
        rw [Res.bind_eq_ok_iff] at h2
        obtain ⟨r2, h3, h4⟩ := h2
        cases h4
        have e2 : r'.term = r1.term := (maybeCommitByVote_term_vote r1 r' m h3).1
        obtain ⟨p1, p2⟩ := poll_term h1
        rcases p2 with ⟨a, b, c⟩ | ⟨c, _⟩
        · right
          have hm : m.msgType = .msgRequestPreVoteResponse := by
            rcases hty with hty | hty
            · exact hty
            · exfalso; apply hc; left; exact ⟨b, by rw [hty]; decide⟩
          refine ⟨b, hm, e2.trans c, by rw [← a]; exact p1.symm, ?_⟩
          cases hrj : m.reject
          · right
            apply Decidable.byContradiction
            intro hne
            exact hf ⟨b, hrj, fun hh => hne hh.2⟩
          · exact Or.inl rfl
        · exact Or.inl (e2.trans c)
  · rename_i hty0
    have hty : m.msgType = .msgRequestPreVoteResponse ∨ m.msgType = .msgRequestVoteResponse := Or.inr hty0
    split at h
    · cases h; exact Or.inl rfl
    · rename_i hc
      split at h
      · cases h; exact Or.inl rfl
      · rename_i hf
        rw [Res.bind_eq_ok_iff] at h
        obtain ⟨⟨r1, res⟩, h1, h2⟩ := h
        simp only at h2
        rw [Res.bind_eq_ok_iff] at h2
        obtain ⟨r2, h3, h4⟩ := h2
        cases h4
        have e2 : r'.term = r1.term := (maybeCommitByVote_term_vote r1 r' m h3).1
        obtain ⟨p1, p2⟩ := poll_term h1
        rcases p2 with ⟨a, b, c⟩ | ⟨c, _⟩
        · right
          have hm : m.msgType = .msgRequestPreVoteResponse := by
            rcases hty with hty | hty
            · exact hty
            · exfalso; apply hc; left; exact ⟨b, by rw [hty]; decide⟩
          refine ⟨b, hm, e2.trans c, by rw [← a]; exact p1.symm, ?_⟩
          cases hrj : m.reject
          · right
            apply Decidable.byContradiction
            intro hne
            exact hf ⟨b, hrj, fun hh => hne hh.2⟩
          · exact Or.inl rfl
        · exact Or.inl (e2.trans c)
  · cases h; exact Or.inl rfl

/-- the preamble lets the dispatch run either on the unchanged state or on
`become_follower(m.term, _)` of it -/
theorem stepTerm_true {r r1 : Raft} {m : Message} (h : r.stepTerm m = .ok (r1, true)) :
    r1 = r ∨
    (r.term < m.term ∧ m.msgType ≠ .msgRequestPreVote ∧
      ¬ (m.msgType = .msgRequestPreVoteResponse ∧ m.reject = false) ∧
      ∃ l, r1 = r.becomeFollower m.term l) := by
  unfold Raft.stepTerm at h
  split at h
  · cases h; exact Or.inl rfl
  · split at h
    · rename_i hgt
      simp only at h
      split at h
      · cases h
      · split at h
        · cases h; exact Or.inl rfl
        · rename_i hpv
          have hpv1 : m.msgType ≠ .msgRequestPreVote := fun e => hpv (Or.inl e)
          have hpv2 : ¬ (m.msgType = .msgRequestPreVoteResponse ∧ m.reject = false) :=
            fun e => hpv (Or.inr ⟨e.1, by simp [e.2]⟩)
          split at h
          · cases h; exact Or.inr ⟨hgt, hpv1, hpv2, _, rfl⟩
          · cases h; exact Or.inr ⟨hgt, hpv1, hpv2, _, rfl⟩
    · split at h
      · frame_dec h
      · cases h; exact Or.inl rfl

/-- the node's own pre-vote is already a quorum (single-voter configuration) -/
def selfQuorum (r : Raft) : Prop :=
  (r.prs.resetVotes.recordVote r.id true).tallyVotes.2.2 = .won

/-- the ways the dispatch part of `step` (everything after the term preamble) can move the term -/
def Campaigned (r r' : Raft) (m : Message) : Prop :=
  (r.state = .preCandidate ∧ m.msgType = .msgRequestPreVoteResponse ∧ r'.term = r.term + 1 ∧
    (r.prs.recordVote m.frm (!m.reject)).tallyVotes.2.2 = .won ∧
    (m.reject = true ∨ m.term = r.term + 1)) ∨
  ((m.msgType = .msgHup ∨ (m.msgType = .msgTimeoutNow ∧ r.state = .follower)) ∧
    r'.term = r.term + 1 ∧ r.state ≠ .leader ∧ r.promotable = true ∧
    (m.msgType = .msgTimeoutNow ∨ r.preVote = false ∨ selfQuorum r))

theorem hup_campaigned {r r' : Raft} {m : Message} {tr : Bool}
    (hm : (m.msgType = .msgHup ∧ tr = false) ∨
          (m.msgType = .msgTimeoutNow ∧ tr = true ∧ r.state = .follower))
    (h : r.hup tr = .ok r') : r'.term = r.term ∨ Campaigned r r' m := by
  rcases hup_term h with c | ⟨c1, c2, c3, c4⟩
  · exact Or.inl c
  · refine Or.inr (Or.inr ⟨?_, c1, c2, c3, ?_⟩)
    · rcases hm with hm | hm
      · exact Or.inl hm.1
      · exact Or.inr ⟨hm.1, hm.2.2⟩
    · rcases c4 with c4 | c4 | c4
      · rcases hm with hm | hm
        · rw [hm.2] at c4; cases c4
        · exact Or.inl hm.1
      · exact Or.inr (Or.inl c4)
      · exact Or.inr (Or.inr c4)

/-- everything `step` does after the term preamble keeps the term, except a campaign -/
theorem step_after_preamble {r r1 r' : Raft} {m : Message} {res : Option RaftError}
    (ht : r.stepTerm m = .ok (r1, true)) (h : r.step m = .ok (r', res)) :
    r'.term = r1.term ∨ Campaigned r1 r' m := by
  unfold Raft.step at h
  rw [ht] at h
  simp only at h
  split at h
  · rename_i hm
    rw [Res.bind_eq_ok_iff] at h
    obtain ⟨r2, h1, h2⟩ := h
    cases h2
    exact hup_campaigned (Or.inl ⟨hm, rfl⟩) h1
  · split at h
    · cases h; exact Or.inl (stepVote_outcome ‹_›).1.term
    · cases h
    · cases h
  · split at h
    · cases h; exact Or.inl (stepVote_outcome ‹_›).1.term
    · cases h
    · cases h
  · split at h
    · rcases stepCandidate_term h with c | c
      · exact Or.inl c
      · exact Or.inr (Or.inl c)
    · rcases stepCandidate_term h with c | c
      · exact Or.inl c
      · exact Or.inr (Or.inl c)
    · rename_i hs
      rcases stepFollower_term hs h with c | ⟨c1, c2, c3⟩
      · exact Or.inl c
      · exact hup_campaigned (Or.inr ⟨c1, rfl, hs⟩) c3
    · exact Or.inl (stepLeader_term h)

/-! ### 3. Every way `step` can raise the term -/

/-- **C16 (3) `term_raised_only_by_higher_term_message_or_won_prevote`.**  "A node … does not raise
its own term unless a peer tells it of a higher one" — the complete list of the ways `Raft::step`
can raise the term, for every state and every message.  If `r.step m = Ok` and the term grew, then

* (a) **a peer told it**: `m.term > r.term`, `m` is neither a pre-vote request nor a granted pre-vote
  response (raft.rs:1386-1398), and the new term is `m.term` (or `m.term + 1` when the message is itself
  a campaign trigger, `MsgTimeoutNow` / `MsgHup`, stepped after `become_follower(m.term)`); or
* (b) **it won the pre-vote**: it was a `PreCandidate`, `m` is a pre-vote response whose recording
  makes the tally `Won`, and the new term is `r.term + 1` (the real campaign, raft.rs:2281-2318);
  since fix F16 the response, if it is a grant, carries exactly `m.term = r.term + 1` — a grant of
  any other term (left over from an earlier pre-campaign) is not counted
  (`C16_stale_prevote_grant_ignored`); or
* (c) **it was asked to campaign**: `m` is `MsgHup` or `MsgTimeoutNow`, the node is a promotable
  non-leader, the new term is `r.term + 1`, and — this is the pre-vote guarantee — for `MsgHup` either
  `pre_vote` is off or the node's own pre-vote is already a quorum (single-voter configuration);
  `MsgTimeoutNow` is the explicitly requested leadership transfer, which skips the pre-vote. -/
theorem C16_term_raised_only_by_higher_term_message_or_won_prevote (r r' : Raft) (m : Message)
    (res : Option RaftError) (h : r.step m = .ok (r', res)) (hlt : r.term < r'.term) :
    (r.term < m.term ∧ m.msgType ≠ .msgRequestPreVote ∧
      ¬ (m.msgType = .msgRequestPreVoteResponse ∧ m.reject = false) ∧
      (r'.term = m.term ∨
       ((m.msgType = .msgHup ∨ m.msgType = .msgTimeoutNow) ∧ r'.term = m.term + 1))) ∨
    Campaigned r r' m := by
  have h' := h
  unfold Raft.step at h'
  split at h'
  · cases h'
  · cases h'
  · rename_i r1 ht
    cases h'
    rcases stepTerm_cases ht with c | ⟨_, _, _, _, c, _⟩
    · rw [c.term] at hlt; omega
    · cases c
  · rename_i r1 ht
    clear h'
    have hd := step_after_preamble ht h
    rcases stepTerm_true ht with c | ⟨c1, c2, c3, l, c4⟩
    · subst c
      rcases hd with hd | hd
      · omega
      · exact Or.inr hd
    · left
      have e1 : r1.term = m.term := by rw [c4]; exact (becomeFollower_term_vote r m.term l).1
      have e2 : r1.state = .follower := by rw [c4]; exact (becomeFollower_proj r m.term l).1
      refine ⟨c1, c2, c3, ?_⟩
      rcases hd with hd | hd | hd
      · exact Or.inl (hd.trans e1)
      · rw [e2] at hd; cases hd.1
      · exact Or.inr ⟨hd.1.imp id (·.1), by rw [hd.2.1, e1]⟩

/-! ### 2. A granted pre-vote response -/

/-- **C16 (2) `granted_prevote_response_keeps_term`.**  A granted (`reject = false`) pre-vote
response carries the *future* term `m.term = r.term + 1` of the campaign it answers; `step` never
adopts it (raft.rs:1386-1398).  Whatever the role, the term either stays, or the node is a
`PreCandidate`, the grant completes the pre-vote quorum (`tally_votes` = `Won` after recording it),
and the real campaign starts at exactly `r.term + 1`.  Since fix F16 the grant that is counted is
the answer to *this* pre-campaign, `m.term = r.term + 1` (before the fix the statement had no such
conjunct: a grant of any term `≥ r.term` was counted). -/
theorem C16_granted_prevote_response_keeps_term (r r' : Raft) (m : Message) (res : Option RaftError)
    (hm : m.msgType = .msgRequestPreVoteResponse) (hg : m.reject = false)
    (h : r.step m = .ok (r', res)) :
    r'.term = r.term ∨
    (r.state = .preCandidate ∧ r'.term = r.term + 1 ∧ m.term = r.term + 1 ∧
      (r.prs.recordVote m.frm true).tallyVotes.2.2 = .won) := by
  by_cases hlt : r.term < r'.term
  · rcases C16_term_raised_only_by_higher_term_message_or_won_prevote r r' m res h hlt with
      ⟨_, _, c, _⟩ | ⟨c1, _, c3, c4, c5⟩ | ⟨c, _⟩
    · exact absurd ⟨hm, hg⟩ c
    · right; rw [hg] at c4 c5
      exact ⟨c1, c3, c5.resolve_left (by decide), c4⟩
    · rw [hm] at c; rcases c with c | ⟨c, _⟩ <;> cases c
  · left
    -- the term never decreases here: the preamble keeps `r` (no `become_follower` for a grant)
    have h' := h
    unfold Raft.step at h'
    split at h'
    · cases h'
    · cases h'
    · rename_i r1 ht
      cases h'
      rcases stepTerm_cases ht with c | ⟨_, _, c, _⟩
      · exact c.term
      · exact absurd ⟨hm, hg⟩ c
    · rename_i r1 ht
      clear h'
      rcases stepTerm_true ht with c | ⟨_, _, c, _⟩
      · subst c
        rcases step_after_preamble ht h with hd | hd | hd
        · exact hd
        · omega
        · omega
      · exact absurd ⟨hm, hg⟩ c

/-- **C16 (2), non-pre-candidates.**  A follower, candidate or leader ignores a granted pre-vote
response altogether, whatever its term. -/
theorem C16_granted_prevote_response_ignored (r : Raft) (m : Message)
    (hm : m.msgType = .msgRequestPreVoteResponse) (hg : m.reject = false)
    (hs : r.state ≠ .preCandidate) (h0 : m.term ≠ 0) (hge : r.term ≤ m.term) :
    r.step m = .ok (r, none) := by
  unfold Raft.step Raft.stepTerm
  by_cases hlt : r.term < m.term
  · cases hst : r.state <;>
      simp [h0, hlt, hm, hg, hst, Raft.stepFollower, Raft.stepCandidate, Raft.stepLeader] at hs ⊢
  · have : ¬ m.term < r.term := by omega
    cases hst : r.state <;>
      simp [h0, hlt, this, hm, hst, Raft.stepFollower, Raft.stepCandidate, Raft.stepLeader] at hs ⊢

/-- **C16 (2), pre-candidates: `stale_prevote_grant_ignored`** (fix F16).  A granted pre-vote
response answers the pre-campaign of a `PreCandidate` only if it carries that campaign's term,
`m.term = r.term + 1` (`checked_add`: and `r.term + 1` does not overflow).  A pre-candidate IGNORES
every other granted pre-vote response — `step` returns `Ok`, the state (votes, term, role, queue) is
unchanged, no message is sent — whatever the term of the grant: `0`; below `r.term` (dropped by the
term preamble, raft.rs:1416-1478); equal to `r.term` (the grant left over from the pre-campaign of
the previous term, the case of F16); or above `r.term + 1` (the preamble passes a granted pre-vote
response on without `become_follower`, raft.rs:1386-1398, and `step_candidate` drops it).  No
hypothesis on `m.term` other than `hne` is needed. -/
theorem C16_stale_prevote_grant_ignored (r : Raft) (m : Message)
    (hs : r.state = .preCandidate) (hm : m.msgType = .msgRequestPreVoteResponse)
    (hg : m.reject = false) (hne : ¬ (r.term < U64_MAX ∧ m.term = r.term + 1)) :
    r.step m = .ok (r, none) := by
  have hc : r.stepCandidate m = .ok (r, none) := by
    unfold Raft.stepCandidate
    simp only [hm, hs, hg]
    simp [hne]
  unfold Raft.step Raft.stepTerm
  by_cases h0 : m.term = 0
  · simp [h0, hm, hs, hc]
  · by_cases hlt : r.term < m.term
    · simp [h0, hlt, hm, hg, hs, hc]
    · by_cases hgt : m.term < r.term
      · simp [h0, hlt, hgt, hm]
      · simp [h0, hlt, hgt, hm, hs, hc]

/-- … the instance of F16: a grant of the pre-candidate's *own* term (sent in answer to the
pre-campaign it ran one term earlier) is ignored -/
theorem C16_stale_prevote_grant_ignored_same_term (r : Raft) (m : Message)
    (hs : r.state = .preCandidate) (hm : m.msgType = .msgRequestPreVoteResponse)
    (hg : m.reject = false) (ht : m.term = r.term) : r.step m = .ok (r, none) :=
  C16_stale_prevote_grant_ignored r m hs hm hg (fun h => by omega)

/-- … and any grant whose term is not `r.term + 1` -/
theorem C16_stale_prevote_grant_ignored_of_ne (r : Raft) (m : Message)
    (hs : r.state = .preCandidate) (hm : m.msgType = .msgRequestPreVoteResponse)
    (hg : m.reject = false) (ht : m.term ≠ r.term + 1) : r.step m = .ok (r, none) :=
  C16_stale_prevote_grant_ignored r m hs hm hg (fun h => ht h.2)

/-- … conversely the grant of this pre-campaign, `m.term = r.term + 1`, is the one that is polled:
`step` is `poll(m.from, MsgRequestPreVoteResponse, true)` followed by `maybe_commit_by_vote` -/
theorem C16_fresh_prevote_grant_polled (r : Raft) (m : Message)
    (hs : r.state = .preCandidate) (hm : m.msgType = .msgRequestPreVoteResponse)
    (hg : m.reject = false) (hov : r.term < U64_MAX) (ht : m.term = r.term + 1) :
    r.step m = (r.poll m.frm .msgRequestPreVoteResponse true).bind (fun (r, _) =>
      (r.maybeCommitByVote m).bind (fun r => .ok (r, none))) := by
  have hc : r.stepCandidate m = (r.poll m.frm .msgRequestPreVoteResponse true).bind (fun (r, _) =>
      (r.maybeCommitByVote m).bind (fun r => .ok (r, none))) := by
    unfold Raft.stepCandidate
    simp only [hm, hs, hg]
    simp [hov, ht]
  unfold Raft.step Raft.stepTerm
  simp [ht, hm, hg, hs, hc]

/-! ### 4. A node that fails to gather a pre-vote quorum -/

/-- a message that is not from a higher term (local messages have term 0) moves the term only by a
campaign -/
theorem step_not_higher {r r' : Raft} {m : Message} {res : Option RaftError}
    (hle : ¬ r.term < m.term) (h : r.step m = .ok (r', res)) :
    r'.term = r.term ∨ Campaigned r r' m := by
  have h' := h
  unfold Raft.step at h'
  split at h'
  · cases h'
  · cases h'
  · rename_i r1 ht
    cases h'
    exact Or.inl (stepTerm_frame_of_not_higher hle ht).term
  · rename_i r1 ht
    clear h'
    rcases stepTerm_true ht with c | ⟨c, _⟩
    · subst c; exact step_after_preamble ht h
    · exact absurd c hle

/-- **C16 (4) `failed_precandidate_keeps_term`.**  "A node that fails to gather a pre-vote quorum
does not raise its own term unless a peer tells it of a higher one": a `PreCandidate` with `pre_vote`
on (`become_pre_candidate` kept its term and vote, raft.rs:1199-1218) that steps ANY message not
from a higher term — rejected or granted pre-vote responses, vote requests, appends and heartbeats
of its own term, stale messages (raft.rs:1416-1478), local messages, even another `MsgHup` — keeps
its term exactly, as long as the pre-vote tally after the message is not `Won` (and its own
pre-vote alone is not a quorum).  Since fix F16 the tally hypothesis is needed for *rejected*
responses only (`hfail` now has the conjunct `m.reject = true`): a granted pre-vote response that
is not from a higher term is never counted, whatever the tally would be
(`C16_stale_prevote_grant_ignored`). -/
theorem C16_failed_precandidate_keeps_term (r r' : Raft) (m : Message) (res : Option RaftError)
    (hs : r.state = .preCandidate) (hpv : r.preVote = true) (hle : ¬ r.term < m.term)
    (hself : ¬ selfQuorum r)
    (hfail : ¬ (m.msgType = .msgRequestPreVoteResponse ∧ m.reject = true ∧
                (r.prs.recordVote m.frm false).tallyVotes.2.2 = .won))
    (h : r.step m = .ok (r', res)) : r'.term = r.term := by
  rcases step_not_higher hle h with c | ⟨_, c2, _, c4, c6⟩ | ⟨c1, _, _, _, c5⟩
  · exact c
  · rcases c6 with c6 | c6
    · rw [c6] at c4; exact absurd ⟨c2, c6, c4⟩ hfail
    · omega
  · rcases c1 with c1 | ⟨_, c1⟩
    · rcases c5 with c5 | c5 | c5
      · rw [c1] at c5; cases c5
      · rw [hpv] at c5; cases c5
      · exact absurd c5 hself
    · rw [hs] at c1; cases c1

/-- **C16 (4), rejected response.**  (Any role.)  A rejected pre-vote response of a term not above
the node's own can only make the tally `Lost` or leave it pending, unless the votes recorded
before already were a quorum; in every case the term is unchanged when the tally is not `Won`.
A rejected response from a *higher* term is "a peer telling it of a higher one": case (a) of
`C16_term_raised_only_by_higher_term_message_or_won_prevote`. -/
theorem C16_rejected_prevote_response_keeps_term (r r' : Raft) (m : Message) (res : Option RaftError)
    (hm : m.msgType = .msgRequestPreVoteResponse)
    (hrej : m.reject = true) (hle : ¬ r.term < m.term)
    (hfail : (r.prs.recordVote m.frm false).tallyVotes.2.2 ≠ .won)
    (h : r.step m = .ok (r', res)) : r'.term = r.term := by
  rcases step_not_higher hle h with c | ⟨_, _, _, c4, _⟩ | ⟨c1, _⟩
  · exact c
  · rw [hrej] at c4; exact absurd c4 hfail
  · rw [hm] at c1; rcases c1 with c1 | ⟨c1, _⟩ <;> cases c1

/-- **C16 (4), election timeout.**  With `pre_vote`, `tick` on a node that is not the leader never
changes the term: an election timeout only makes it a `PreCandidate` *at the same term*
(`tick_election` → `MsgHup` → `hup` → `campaign(CAMPAIGN_PRE_ELECTION)` → `become_pre_candidate`,
raft.rs:1107-1118, 1543-1607, 1199-1218).  The one exception, found on the model and confirmed in
the code, is a node whose own pre-vote is already a quorum (single-voter configuration): it wins the
pre-vote inside `campaign` and goes on to the real election at `term + 1` in the same tick — which
disrupts nobody.  Hence the hypothesis `¬ selfQuorum r`. -/
theorem C16_tick_prevote_never_raises_term (r r' : Raft) (b : Bool) (hs : r.state ≠ .leader)
    (hpv : r.preVote = true) (hself : ¬ selfQuorum r) (h : r.tick = .ok (r', b)) :
    r'.term = r.term := by
  have key : r.tickElection = .ok (r', b) := by
    unfold Raft.tick at h
    cases hst : r.state <;> simp only [hst] at h hs <;> first | exact h | exact absurd rfl hs
  unfold Raft.tickElection at key
  simp only at key
  split at key
  · cases key; rfl
  · rw [Res.bind_eq_ok_iff] at key
    obtain ⟨r1, h1, h2⟩ := key
    cases h2
    unfold Raft.stepIgnore at h1
    rw [Res.bind_eq_ok_iff] at h1
    obtain ⟨⟨r2, e⟩, h3, h4⟩ := h1
    cases h4
    rcases step_not_higher (by simp [newMessage]) h3 with c | ⟨_, c2, _⟩ | ⟨_, _, _, _, c5⟩
    · exact c
    · cases c2
    · rcases c5 with c5 | c5 | c5
      · cases c5
      · exact absurd (c5 : r.preVote = false) (by rw [hpv]; decide)
      · exact absurd c5 hself

/-! ### 8. Non-vacuity: concrete states and messages satisfying the hypotheses (evaluated by `rfl`) -/

/-- a three-voter configuration {1, 2, 3} with a progress entry per voter -/
def prs3 : ProgressTracker :=
  { conf := { incoming := [1, 2, 3] },
    progress := [(1, Progress.new 1 8), (2, Progress.new 1 8), (3, Progress.new 1 8)] }

def follower1 : Raft :=
  { raftLog := default, id := 1, term := 3, state := .follower, promotable := true, preVote := true,
    checkQuorum := true, electionTimeout := 10, randomizedElectionTimeout := 1, prs := prs3 }

def preCand1 : Raft :=
  { follower1 with state := .preCandidate, prs := { prs3 with votes := [(1, true)] } }

def leader1 : Raft :=
  { follower1 with state := .leader, leaderId := 1, electionTimeout := 1, heartbeatTimeout := 1 }

example : ¬ selfQuorum follower1 := by unfold selfQuorum; decide
example : ∃ r' b, follower1.tick = .ok (r', b) ∧ r'.state = .preCandidate ∧ r'.term = follower1.term :=
  ⟨_, _, by rfl, by rfl, by rfl⟩

-- (1) a pre-vote request from a lower, equal and higher term is handled (and changes nothing)
example : ∃ r' res, follower1.step { msgType := .msgRequestPreVote, term := 2, frm := 2 } = .ok (r', res) :=
  ⟨_, _, by rfl⟩
example : ∃ r' res, { follower1 with checkQuorum := false }.step
    { msgType := .msgRequestPreVote, term := 9, frm := 2, index := 5, logTerm := 5 } = .ok (r', res) ∧
    r'.term = 3 ∧ r'.msgs ≠ [] :=
  ⟨_, _, by rfl, by rfl, by decide⟩
-- (2)/(3b) a pre-candidate that receives the grant completing the quorum starts the real campaign
example : ∃ r' res, preCand1.step
    { msgType := .msgRequestPreVoteResponse, term := 4, frm := 2, reject := false } = .ok (r', res) ∧
    r'.term = preCand1.term + 1 ∧ r'.state = .candidate :=
  ⟨_, _, by rfl, by rfl, by rfl⟩
-- (2) fix F16: the same pre-candidate (term 3, one grant short of the quorum) ignores a stale grant —
-- of its own term 3 (left over from the pre-campaign of term 2), or of term 9 — state unchanged, no
-- message; the grant of term 4 = term + 1 from the same peer completes the quorum: candidate at term 4
example :
    preCand1.step { msgType := .msgRequestPreVoteResponse, term := 3, frm := 2, reject := false }
      = .ok (preCand1, none) ∧
    preCand1.step { msgType := .msgRequestPreVoteResponse, term := 9, frm := 2, reject := false }
      = .ok (preCand1, none) ∧
    (preCand1.step { msgType := .msgRequestPreVoteResponse, term := 4, frm := 2, reject := false }).bind
      (fun (r', res) => .ok (r'.state, r'.term, res))
      = .ok (StateRole.candidate, preCand1.term + 1, none) := by decide
-- (4) a rejection keeps it where it is
example : ∃ r' res, preCand1.step
    { msgType := .msgRequestPreVoteResponse, term := 3, frm := 2, reject := true } = .ok (r', res) ∧
    r'.term = preCand1.term ∧ r'.state = .preCandidate :=
  ⟨_, _, by rfl, by rfl, by rfl⟩
-- (6) hypotheses of the lease theorem
example : leader1.state = .leader ∧ leader1.checkQuorum = true ∧ leader1.leaderId ≠ 0 ∧
    leader1.electionElapsed < leader1.electionTimeout := by decide
-- (7) a leader that heard from nobody steps down at its check-quorum tick; one that heard from a
-- quorum does not
example : ∃ r' b, leader1.tickHeartbeat = .ok (r', b) ∧ r'.state = .follower ∧ r'.term = leader1.term :=
  ⟨_, _, by rfl, by rfl, by rfl⟩
example : ∃ r' b, ({ leader1 with prs := { prs3 with progress :=
      [(1, Progress.new 1 8), (2, { Progress.new 1 8 with recentActive := true }), (3, Progress.new 1 8)] } } : Raft).tickHeartbeat
      = .ok (r', b) ∧ r'.state = .leader :=
  ⟨_, _, by rfl, by rfl⟩
end RaftProps.C16
