import RaftProofs.ProtoC

/-!
# C15 — snapshot install and log compaction preserve state and safety

Proved here on the abstract protocol P: the **decision and effect obligations** of snapshot traffic,
for every state — a snapshot is produced only by a leader from the prefix of its own log up to an
index it has committed; it is installed only if it was released for the receiver's current term and
is not behind the receiver's commit index, and then log and commit index are exactly the snapshot's;
a snapshot whose (index, term) matches the local log only advances the commit index and changes
nothing else (`C15_fastforward_discards_nothing`) — and, for every reachable state of every history
(membership changes included), that **every released snapshot prefix is consistent with every log in the system**
(Log Matching extends to snapshots, `C15_snapshot_consistent`), so an installed snapshot is the log a
node would have had by replication.

Node-local decisions of the real code that P abstracts (membership test in `restore`, the
`pending_request_snapshot` override, when the leader chooses a snapshot over entries, resuming at
`max(matched+1, pending+1)`) and the storage-level effect of compaction are covered by the component
theorems C14 (`C14_restore_spec`, `commit_prefix_immutable`) and C19 (`C19_compact_spec`,
`C19_applySnapshot_spec`) and by the cluster monitors: the application state and configuration
carried by every installed snapshot are compared with those of a node that applied the log up to
that index.
-/
namespace RaftProps.C15
open RaftModel.P

/-- a snapshot is sent only by a leader, for an index it has committed, and carries exactly the
prefix of the leader's log up to that index with that index's term -/
theorem C15_send_obligation (s s' : PSys) (i idx : Nat) (h : applyEvent s (.sendSnap i idx) = .ok s') :
    (s.nodes i).role = 2 ∧ idx ≤ (s.nodes i).commit ∧ idx ≤ (s.nodes i).log.length ∧
    s'.snaps = ⟨(s.nodes i).term, idx, termAt (s.nodes i).log idx, (s.nodes i).log.take idx⟩ :: s.snaps := by
  simp only [applyEvent, ok] at h
  split at h
  · rename_i hg; cases h; exact ⟨hg.2.1, hg.2.2.1, hg.2.2.2, rfl⟩
  · cases h

/-- **Install decision and effect**: only a released snapshot of the receiver's current term that is
not behind its commit index is installed; afterwards the log is the snapshot's prefix, the commit
index and the last index are the snapshot index, and an acknowledgement for it is generated. -/
theorem C15_install_obligation (s s' : PSys) (i t idx sterm : Nat)
    (h : applyEvent s (.installSnap i t idx sterm) = .ok s') :
    ∃ m ∈ s.snaps, m.term = t ∧ m.idx = idx ∧ m.sterm = sterm ∧ t = (s.nodes i).term ∧
      (s.nodes i).role ≠ 2 ∧ (s.nodes i).commit ≤ idx ∧
      (s'.nodes i).log = m.pre ∧ (s'.nodes i).log.length = idx ∧ (s'.nodes i).commit = idx ∧
      (s'.nodes i).term = (s.nodes i).term := by
  simp only [applyEvent, ok] at h
  split at h
  · rename_i m hm
    split at h
    · rename_i hg; cases h
      have hmem : m ∈ s.snaps := List.mem_of_find?_eq_some hm
      have hp := List.find?_some hm
      simp only [decide_eq_true_eq] at hp
      refine ⟨m, hmem, hp.1, hp.2.1, hp.2.2, ?_, hg.2.2.1, ?_, ?_, ?_, ?_, ?_⟩
      · rw [← hp.1]; exact hg.2.1
      · rw [← hp.2.1]; exact hg.2.2.2.1
      · simp [upd]
      · simp only [upd, if_true]; rw [hg.2.2.2.2.1, hp.2.1]
      · simp only [upd, if_true]; exact hp.2.1
      · simp [upd]
    · cases h
  · cases h

/-- **A matching snapshot discards nothing**: when the snapshot's (index, term) matches the local
log, only the commit index moves (to the snapshot index); log, term, vote and durable state are
untouched. -/
theorem C15_fastforward_discards_nothing (s s' : PSys) (i t idx sterm : Nat)
    (h : applyEvent s (.commitSnap i t idx sterm) = .ok s') :
    (s'.nodes i).log = (s.nodes i).log ∧ (s'.nodes i).commit = idx ∧
    termAt (s.nodes i).log idx = sterm ∧ idx ≤ (s.nodes i).log.length ∧
    (s'.nodes i).term = (s.nodes i).term ∧ (s'.nodes i).vote = (s.nodes i).vote ∧
    (s'.nodes i).dlog = (s.nodes i).dlog := by
  simp only [applyEvent, ok] at h
  split at h
  · rename_i m hm
    split at h
    · rename_i hg; cases h
      have hp := List.find?_some hm
      simp only [decide_eq_true_eq] at hp
      refine ⟨by simp [upd], ?_, ?_, ?_, by simp [upd], by simp [upd], by simp [upd]⟩
      · simp only [upd, if_true]; exact hp.2.1
      · rw [← hp.2.2, ← hp.2.1]; exact hg.2.2.2.2
      · rw [← hp.2.1]; exact hg.2.2.2.1
    · cases h
  · cases h

/-- **Snapshots are consistent with every log**: in every reachable state, if a released snapshot
prefix and any list of entries in the system (a node's volatile or durable log, another snapshot,
an acknowledged prefix, a leader's log) hold an entry with the same index and term, they agree up
to that index. -/
theorem C15_snapshot_consistent (s : PSys)
    (hr : Reach s) (m : Snap) (hm : m ∈ s.snaps) (l : List LEntry) (hl : listsOf s l) (k : Nat)
    (x y : LEntry) (hx : m.pre[k]? = some x) (hy : l[k]? = some y) (ht : x.term = y.term) :
    m.pre.take (k + 1) = l.take (k + 1) :=
  logMatching_of_invL (invL_reachR s hr) m.pre l
    (listsOf_snap s m hm) hl k x y hx hy ht

/-- a released snapshot is a prefix of the ghost log of its term: the state it carries is the state
of a node that applied the log of that term's leader up to the snapshot index -/
theorem C15_snapshot_entries_bounded (s : PSys)
    (hr : Reach s) (m : Snap) (hm : m ∈ s.snaps) : ∀ e ∈ m.pre, 1 ≤ e.term ∧ e.term ≤ m.term := by
  have I := invL_reachR s hr
  intro e he
  have hp : PFL s.llog m.pre := I.pfl _ (listsOf_snap s m hm)
  exact ⟨pfl_term_pos I hp he, I.stle m hm e he⟩

/-- **A released snapshot is the committed log**: every node that has committed as far as the
snapshot index holds exactly the snapshot's prefix — so installing it gives a node the log (hence,
for a deterministic application, the state and the configuration) it would have reached by
replication -/
theorem C15_snapshot_is_committed_prefix (s : PSys)
    (hr : Reach s) (m : Snap) (hm : m ∈ s.snaps) (i : Nat) (hi : m.idx ≤ (s.nodes i).commit) :
    (s.nodes i).log.take m.idx = m.pre := by
  have I := invAll_reachR s hr
  exact snapshot_committed I.b I.c m hm i hi

/-- every entry inside a released snapshot is a committed entry (C01's committed log) -/
theorem C15_snapshot_entries_committed (s : PSys)
    (hr : Reach s) (m : Snap) (hm : m ∈ s.snaps) (k : Nat) (hk : 0 < k) (hi : k ≤ m.idx) :
    ∃ e, m.pre[k - 1]? = some e ∧ Committed s k e := by
  have I := invAll_reachR s hr
  exact snapshot_is_committed I.b I.c m hm k hk hi

/-- the statement of the earlier rounds (`C15_full_statement`) is now a theorem -/
theorem C15_full : ∀ (s : PSys), Reach s → ∀ m ∈ s.snaps, ∀ i,
    m.idx ≤ (s.nodes i).commit → (s.nodes i).log.take m.idx = m.pre :=
  fun s hr m hm i hi => C15_snapshot_is_committed_prefix s hr m hm i hi

/-! ### non-vacuity: a lagging follower installs a snapshot of the leader's committed prefix -/

def c3 : Cfg := ⟨[1, 2, 3], []⟩
def e1 : LEntry := ⟨1, 0, 7⟩

def hist : List Event :=
  [.bump 1 1, .campaign 1, .rdy 1, .persist 1 1, .release 1 (.grant 1 1 1 {}), .release 1 (.voteReq 1 1 0 0),
   .bump 2 1, .grant 2 1, .rdy 2, .persist 2 1, .release 2 (.grant 1 2 1 {}), .win 1 c3 [1, 2],
   .leaderAppend 1 e1, .ackSelf 1 1, .rdy 1, .persist 1 1, .release 1 (.ack 1 1 1 []), .sendApp 1 ⟨1, 1, 0, 0, [e1], 0⟩,
   .recvApp 2 ⟨1, 1, 0, 0, [e1], 0⟩, .rdy 2, .persist 2 1, .release 2 (.ack 1 2 1 []),
   .commitLeader 1 1 c3 [1, 2], .sendSnap 1 1, .bump 3 1, .installSnap 3 1 1 1]

example : (match run init hist with
    | .ok s => ((s.nodes 3).log, (s.nodes 3).commit) | .error _ => ([], 99)) = ([e1], 1) := by decide

/-- a snapshot beyond the leader's commit index cannot be produced -/
example : (match run init (hist.take 23 ++ [.leaderAppend 1 ⟨1, 0, 8⟩, .sendSnap 1 2]) with
    | .ok _ => "sent" | .error _ => "refused") = "refused" := by decide

end RaftProps.C15
