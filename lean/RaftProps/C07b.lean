import RaftProps.C07

/-!
# C07 (continued) — the trace-level statements

* `C07_records_ordered : C07_records_ordered_full_statement` — proved as stated.
* `C07_handout_exact_full_statement` and `C07_no_panic_full_statement` are **false on the model as
  written** (and the real code behaves the same): `Sys.step` / `EnvOk` leave out four obligations
  of the documented contract.  Counterexample runs: `C07_handout_exact_needs_write`,
  `C07_no_panic_needs_order`, `C07_no_panic_needs_monotone_apply`.  The obligations are stated as
  `AppOk`; `ContractTrace2` = `ContractTrace` + `AppOk` on every call.
* `C07_handout_exact` — the statement of `C07_handout_exact_full_statement` over `ContractTrace2`,
  proved from the explicit trace invariant `TraceInv` (`init_inv`, `step_inv`).  The storage-side
  steps (`write`, `compact`) and the callbacks are carried through the `RaftLog` invariant here
  (`write_log`, `stable_log`, `compact_log`, `onPersistReady_log`, `commitApply_log`).
* `C07_no_panic_quiet` — no panic, over `ContractTrace2`, for every call except the three that
  hand entries out.  `C07_no_panic_handout_statement` (those three, under the named environment
  hypothesis `ReadyEnvOk`) is kept as an unproved definition.
-/
namespace RaftProps.C07
open RaftModel RaftModel.RawNodeM

/-! ### shapes of the results of the calls (no assumption) -/

theorem env_ok {n n' : RawNodeM} {e : EnvEffect} (h : n.env e = .ok n') :
    ∃ l, applyLogOps n.log e.ops = .ok l ∧
      n' = { n with log := { l with maxApplyUnpersistedLogLimit := e.limit },
                    term := e.term, vote := e.vote, role := e.role, leaderId := e.leaderId,
                    msgs := e.msgs, readStates := e.readStates } := by
  unfold RawNodeM.env at h
  cases ha : applyLogOps n.log e.ops with
  | ok l => simp only [ha] at h; injection h with h; exact ⟨l, rfl, h.symm⟩
  | err e => simp only [ha] at h; cases h
  | panic s => simp only [ha] at h; cases h

theorem commitReady_ok {n n' : RawNodeM} {rd : Ready} (h : n.commitReady rd = .ok n') :
    ∃ l2, n' = { n with prevSs := rd.ss.getD n.prevSs, prevHs := rd.hs.getD n.prevHs,
                        log := l2 } := by
  unfold commitReady at h
  simp only [] at h
  repeat' (split at h)
  all_goals first | (injection h with h; exact ⟨_, h.symm⟩) | cases h

theorem commitApply_ok {n n' : RawNodeM} {a : Nat} {eff : Effect}
    (h : n.commitApply a eff = .ok n') : ∃ l2, n' = { n with log := l2 } := by
  unfold commitApply at h
  repeat' (split at h)
  all_goals first | (injection h with h; exact ⟨_, h.symm⟩) | cases h

/-- `advance_append` in pieces -/
theorem advanceAppend_ok {n n' : RawNodeM} {rd : Ready} {eff : Effect} {light : LightReady}
    (h : n.advanceAppend rd eff = .ok (n', light)) :
    ∃ n1 n2 n3 l3, n.commitReady rd = .ok n1 ∧ n1.onPersistReady n1.maxNumber eff = .ok n2 ∧
      n2.genLightReady = .ok (n3, l3) ∧ light.committedEntries = l3.committedEntries ∧
      (n' = n3 ∨ n' = { n3 with prevHs := { n3.prevHs with commit := n3.hardState.commit } }) := by
  unfold advanceAppend at h
  cases h1 : n.commitReady rd with
  | ok n1 =>
    simp only [h1] at h
    cases h2 : n1.onPersistReady n1.maxNumber eff with
    | ok n2 =>
      simp only [h2] at h
      cases h3 : n2.genLightReady with
      | ok p =>
        obtain ⟨n3, l3⟩ := p
        simp only [h3] at h
        refine ⟨n1, n2, n3, l3, by first | rfl | exact h1, by first | rfl | exact h2,
          by first | rfl | exact h3, ?_⟩
        repeat' (split at h)
        all_goals first
          | (injection h with h; injection h with ha hb; subst ha hb; exact ⟨rfl, .inl rfl⟩)
          | (injection h with h; injection h with ha hb; subst ha hb; exact ⟨rfl, .inr rfl⟩)
          | (exfalso; cases h)
      | err e => simp only [h3] at h; cases h
      | panic s => simp only [h3] at h; cases h
    | err e => simp only [h2] at h; cases h
    | panic s => simp only [h2] at h; cases h
  | err e => simp only [h1] at h; cases h
  | panic s => simp only [h1] at h; cases h

theorem advance_ok {n n' : RawNodeM} {rd : Ready} {eff1 eff2 : Effect} {light : LightReady}
    (h : n.advance rd eff1 eff2 = .ok (n', light)) :
    ∃ n1, n.advanceAppend rd eff1 = .ok (n1, light) ∧
      n1.commitApply n.commitSinceIndex eff2 = .ok n' := by
  unfold advance at h
  simp only [] at h
  cases h1 : n.advanceAppend rd eff1 with
  | ok p =>
    obtain ⟨n1, l1⟩ := p
    simp only [h1] at h
    unfold advanceApplyTo at h
    cases h2 : n1.commitApply n.commitSinceIndex eff2 with
    | ok n2 =>
      simp only [h2] at h
      injection h with h; injection h with ha hb; subst ha hb
      exact ⟨n1, rfl, h2⟩
    | err e => simp only [h2] at h; cases h
    | panic s => simp only [h2] at h; cases h
  | err e => simp only [h1] at h; cases h
  | panic s => simp only [h1] at h; cases h

/-! ### records_ordered -/

/-- `records` and `max_number` untouched -/
def RFrame (n n' : RawNodeM) : Prop := n'.records = n.records ∧ n'.maxNumber = n.maxNumber

theorem recOk_of_frame {n n' : RawNodeM} (h : RecOk n) (f : RFrame n n') : RecOk n' := by
  unfold RecOk at *
  rw [f.1, f.2]; exact h

theorem genLightReady_rframe {n n' : RawNodeM} {l : LightReady}
    (h : n.genLightReady = .ok (n', l)) : RFrame n n' := by
  obtain ⟨_, _, _, hn, _⟩ := genLightReady_ok h
  subst hn; exact ⟨rfl, rfl⟩

theorem advanceAppend_recOk {n n' : RawNodeM} {rd : Ready} {eff : Effect} {light : LightReady}
    (hok : RecOk n) (h : n.advanceAppend rd eff = .ok (n', light)) : RecOk n' := by
  obtain ⟨n1, n2, n3, l3, h1, h2, h3, _, hn'⟩ := advanceAppend_ok h
  obtain ⟨l2, hn1⟩ := commitReady_ok h1
  have r1 : RecOk n1 := recOk_of_frame hok (by subst hn1; exact ⟨rfl, rfl⟩)
  have r2 : RecOk n2 := (C07_on_persist_ready_pops n1 n2 _ eff r1 h2).1
  have r3 : RecOk n3 := recOk_of_frame r2 (genLightReady_rframe h3)
  rcases hn' with hn' | hn'
  · subst hn'; exact r3
  · subst hn'; exact recOk_of_frame r3 ⟨rfl, rfl⟩

/-- one call keeps the queue ordered -/
theorem step_recOk {s s' : Sys} {c : Call} (hok : RecOk s.n) (h : s.step c = some (.ok s')) :
    RecOk s'.n := by
  cases c with
  | env e =>
    simp only [Sys.step] at h
    split at h
    · injection h with h
      cases he : s.n.env e with
      | ok n =>
        simp only [he] at h; injection h with h; subst h
        obtain ⟨l, _, hn⟩ := env_ok he
        subst hn; exact recOk_of_frame hok ⟨rfl, rfl⟩
      | err e => simp only [he] at h; cases h
      | panic p => simp only [he] at h; cases h
    · cases h
  | ready =>
    simp only [Sys.step] at h
    split at h
    · injection h with h
      cases he : s.n.ready with
      | ok p =>
        obtain ⟨n, rd⟩ := p
        simp only [he] at h; injection h with h; subst h
        exact (C07_records_ordered_ready s.n n rd hok he).1
      | err e => simp only [he] at h; cases h
      | panic p => simp only [he] at h; cases h
    · cases h
  | write =>
    simp only [Sys.step] at h
    split at h
    · rename_i rd _
      injection h with h
      cases he : s.n.storageWrite rd with
      | ok n =>
        simp only [he] at h; injection h with h; subst h
        obtain ⟨st, hn⟩ := storageWrite_ok he
        subst hn; exact recOk_of_frame hok ⟨rfl, rfl⟩
      | err e => simp only [he] at h; cases h
      | panic p => simp only [he] at h; cases h
    · cases h
  | advanceAppendAsync =>
    simp only [Sys.step] at h
    split at h
    · rename_i rd _
      injection h with h
      cases he : s.n.advanceAppendAsync rd with
      | ok n =>
        simp only [he] at h; injection h with h; subst h
        obtain ⟨l2, hn⟩ := commitReady_ok he
        subst hn; exact recOk_of_frame hok ⟨rfl, rfl⟩
      | err e => simp only [he] at h; cases h
      | panic p => simp only [he] at h; cases h
    · cases h
  | advanceAppend eff =>
    simp only [Sys.step] at h
    split at h
    · rename_i rd _
      injection h with h
      cases he : s.n.advanceAppend rd eff with
      | ok p =>
        obtain ⟨n, l⟩ := p
        simp only [he] at h; injection h with h; subst h
        exact advanceAppend_recOk hok he
      | err e => simp only [he] at h; cases h
      | panic p => simp only [he] at h; cases h
    · cases h
  | advance eff1 eff2 =>
    simp only [Sys.step] at h
    split at h
    · rename_i rd _
      injection h with h
      cases he : s.n.advance rd eff1 eff2 with
      | ok p =>
        obtain ⟨n, l⟩ := p
        simp only [he] at h; injection h with h; subst h
        obtain ⟨n1, h1, h2⟩ := advance_ok he
        obtain ⟨l2, hn⟩ := commitApply_ok h2
        have := advanceAppend_recOk hok h1
        subst hn; exact recOk_of_frame this ⟨rfl, rfl⟩
      | err e => simp only [he] at h; cases h
      | panic p => simp only [he] at h; cases h
    · cases h
  | onPersistReady number eff =>
    simp only [Sys.step] at h
    split at h
    · injection h with h
      cases he : s.n.onPersistReady number eff with
      | ok n =>
        simp only [he] at h; injection h with h; subst h
        exact (C07_on_persist_ready_pops s.n n number eff hok he).1
      | err e => simp only [he] at h; cases h
      | panic p => simp only [he] at h; cases h
    · cases h
  | advanceApply eff =>
    simp only [Sys.step] at h
    injection h with h
    cases he : s.n.advanceApply eff with
    | ok n =>
      simp only [he] at h; injection h with h; subst h
      obtain ⟨l2, hn⟩ := commitApply_ok he
      subst hn; exact recOk_of_frame hok ⟨rfl, rfl⟩
    | err e => simp only [he] at h; cases h
    | panic p => simp only [he] at h; cases h
  | advanceApplyTo k eff =>
    simp only [Sys.step] at h
    split at h
    · injection h with h
      cases he : s.n.advanceApplyTo k eff with
      | ok n =>
        simp only [he] at h; injection h with h; subst h
        obtain ⟨l2, hn⟩ := commitApply_ok he
        subst hn; exact recOk_of_frame hok ⟨rfl, rfl⟩
      | err e => simp only [he] at h; cases h
      | panic p => simp only [he] at h; cases h
    · cases h
  | compact k =>
    simp only [Sys.step] at h
    injection h with h
    cases he : s.n.log.compactStore k with
    | ok l =>
      simp only [he] at h; injection h with h; subst h
      exact recOk_of_frame hok ⟨rfl, rfl⟩
    | err e => simp only [he] at h; cases h
    | panic p => simp only [he] at h; cases h

theorem new_records {st : MemStorage} {limit applied maxc : Nat} {n : RawNodeM}
    (h : RawNodeM.new st limit applied maxc = .ok n) : n.records = [] ∧ n.maxNumber = 0 := by
  unfold RawNodeM.new at h
  cases hl : RaftLog.new st limit with
  | ok log =>
    simp only [hl] at h
    split at h
    · injection h with h; subst h; exact ⟨rfl, rfl⟩
    · cases h
    · cases h
  | err e => simp only [hl] at h; cases h
  | panic s => simp only [hl] at h; cases h

theorem init_recOk {s : Sys} (h : Init s) : RecOk s.n := by
  obtain ⟨st, limit, applied, maxc, n, _, hn, _, _, hs⟩ := h
  subst hs
  obtain ⟨hr, _⟩ := new_records hn
  unfold RecOk
  show (n.records.map (·.number)).Pairwise (· < ·) ∧ ∀ r ∈ n.records, r.number ≤ n.maxNumber
  rw [hr]; simp

/-- **records_ordered**, trace level: over every contract trace from a fresh node the queue of
`ReadyRecord`s is strictly increasing in `number` and bounded by `max_number`. -/
theorem C07_records_ordered : C07_records_ordered_full_statement := by
  intro s0 calls s hi ht
  have h0 := init_recOk hi
  clear hi
  induction ht with
  | nil s => exact h0
  | cons _ hstep _ ih => exact ih (step_recOk h0 hstep)

/-! ### the log across one call -/

/-- one step of the log as the hand-out sees it: the invariant is kept, the commit index does not
decrease, an entry at or below the commit index is unaltered or covered by the snapshot point -/
structure LogStep (l l' : RaftLog) : Prop where
  inv : l'.Inv
  comm : l.committed ≤ l'.committed
  pre : ∀ i, i ≤ l.committed → l'.abs.entryAt i = l.abs.entryAt i ∨ i ≤ l'.abs.snapIdx

/-- an entry handed out stays what it was (or is compacted away) -/
theorem LogStep.keeps {l l' : RaftLog} (h : LogStep l l') {j : Nat} {e : Entry}
    (hj : j ≤ l.committed) (hold : l.abs.entryAt j = some e ∨ j ≤ l.abs.snapIdx) :
    l'.abs.entryAt j = some e ∨ j ≤ l'.abs.snapIdx := by
  rcases h.pre j hj with h1 | h1
  · rcases hold with h2 | h2
    · left; rw [h1, h2]
    · have hn : l.abs.entryAt j = none := by simp [LLog.entryAt, h2]
      rw [hn] at h1
      by_cases hcov : j ≤ l'.abs.snapIdx
      · right; exact hcov
      · exfalso
        have hl := h.inv.lastIndex_abs
        have hc := h.inv.committed_le_last
        have hcm := h.comm
        simp only [LLog.entryAt, hcov, if_false] at h1
        have := List.getElem?_eq_none_iff.1 h1
        simp only [LLog.lastIndex] at hl
        omega
  · right; exact h1

theorem abs_congr {l l' : RaftLog} (h1 : l'.store = l.store) (h2 : l'.unstable = l.unstable) :
    l'.abs = l.abs := by
  unfold RaftLog.abs; rw [h1, h2]

theorem firstIndex_congr {l l' : RaftLog} (h1 : l'.store = l.store)
    (h2 : l'.unstable = l.unstable) : l'.firstIndex = l.firstIndex := by
  unfold RaftLog.firstIndex; rw [h1, h2]

theorem lastIndex_congr {l l' : RaftLog} (h1 : l'.store = l.store)
    (h2 : l'.unstable = l.unstable) : l'.lastIndex = l.lastIndex := by
  unfold RaftLog.lastIndex; rw [h1, h2]

/-- only the cursors / the apply limit differ -/
theorem inv_cursors {l l' : RaftLog} (h : l.Inv) (h1 : l'.store = l.store)
    (h2 : l'.unstable = l.unstable) (hc1 : l.firstIndex ≤ l'.committed + 1)
    (hc2 : l'.committed ≤ l.lastIndex) (hp1 : l'.persisted < l.unstable.offset)
    (hp2 : l'.persisted ≤ l.store.lastIndex) : l'.Inv := by
  have hf := firstIndex_congr h1 h2
  have hl := lastIndex_congr h1 h2
  refine ⟨h1 ▸ h.storeWF, h2 ▸ h.unstWF, ?_, ?_, ?_, ?_, ?_, ?_, ?_⟩
  · rw [h1, h2]; exact h.first_le_off
  · rw [h1, h2]; exact h.off_le_last
  · rw [h1, h2]; exact h.ents_empty
  · rw [hf]; exact hc1
  · rw [hl]; exact hc2
  · rw [h2]; exact hp1
  · rw [h1]; exact hp2

theorem logStep_of_cursors {l l' : RaftLog} (hinv : l'.Inv) (h1 : l'.store = l.store)
    (h2 : l'.unstable = l.unstable) (hc : l.committed ≤ l'.committed) : LogStep l l' :=
  ⟨hinv, hc, fun i _ => .inl (by rw [abs_congr h1 h2])⟩

theorem LogStep.refl {l : RaftLog} (h : l.Inv) : LogStep l l :=
  ⟨h, Nat.le_refl _, fun _ _ => .inl rfl⟩

/-! ### the storage write -/

/-- the storage facts used here depend on the entries and the snapshot point only -/
theorem store_congr {s s' : MemStorage} (he : s'.entries = s.entries)
    (hm : s'.snapshotMetadata = s.snapshotMetadata) :
    s'.firstIndex = s.firstIndex ∧ s'.lastIndex = s.lastIndex ∧ (s.WF → s'.WF) := by
  have hf : s'.firstIndex = s.firstIndex := by unfold MemStorage.firstIndex; rw [he, hm]
  have hl : s'.lastIndex = s.lastIndex := by unfold MemStorage.lastIndex; rw [he, hm]
  refine ⟨hf, hl, fun h => ⟨?_, ?_⟩⟩
  · rw [he, hf]; exact h.contig
  · rw [hm, hf]; exact h.snap_lt

theorem firstIndex_take_append (s : MemStorage) (d : Nat) (e0 : Entry) (es : List Entry)
    (hd0 : d = 0 → e0.index = s.firstIndex) (hdl : d ≤ s.entries.length) :
    ({ s with entries := s.entries.take d ++ e0 :: es } : MemStorage).firstIndex =
      s.firstIndex := by
  cases d with
  | zero =>
    have := hd0 rfl
    rw [← this]
    simp [MemStorage.firstIndex]
  | succ k =>
    cases hent : s.entries with
    | nil => rw [hent] at hdl; simp at hdl
    | cons a t => simp [MemStorage.firstIndex, hent]

theorem storeAppend_spec {s : MemStorage} (h : s.WF) (e0 : Entry) (es : List Entry)
    (hc : ContigFrom e0.index (e0 :: es)) (h1 : s.firstIndex ≤ e0.index)
    (h2 : e0.index ≤ s.lastIndex + 1) :
    ∃ s', s.append (e0 :: es) = .ok s' ∧ s'.WF ∧ s'.firstIndex = s.firstIndex ∧
      s'.lastIndex = e0.index + es.length ∧ s'.snapshotMetadata = s.snapshotMetadata ∧
      s'.entries = s.entries.take (e0.index - s.firstIndex) ++ e0 :: es := by
  have hl := h.last_succ
  have hlen : (s.entries.take (e0.index - s.firstIndex)).length = e0.index - s.firstIndex := by
    rw [List.length_take]; omega
  refine ⟨{ s with entries := s.entries.take (e0.index - s.firstIndex) ++ e0 :: es }, ?_, ?_⟩
  · unfold MemStorage.append
    simp only []
    rw [if_neg (by omega), if_neg (by omega), if_neg (by omega)]
  · have hf : ({ s with entries := s.entries.take (e0.index - s.firstIndex) ++ e0 :: es } :
        MemStorage).firstIndex = s.firstIndex :=
      firstIndex_take_append s _ e0 es (by omega) (by omega)
    have hwf : ({ s with entries := s.entries.take (e0.index - s.firstIndex) ++ e0 :: es } :
        MemStorage).WF := by
      refine ⟨?_, ?_⟩
      · intro k e hk
        rw [hf]
        simp only [] at hk
        rcases Nat.lt_or_ge k (e0.index - s.firstIndex) with hlt | hge
        · rw [List.getElem?_append_left (by omega), List.getElem?_take, if_pos hlt] at hk
          exact h.contig k e hk
        · rw [List.getElem?_append_right (by omega), hlen] at hk
          have := hc _ _ hk
          omega
      · rw [hf]; exact h.snap_lt
    refine ⟨hwf, hf, ?_, rfl, rfl⟩
    have := hwf.last_succ
    rw [hf] at this
    simp only [List.length_append, hlen, List.length_cons] at this
    omega

theorem applySnapshot_spec {s s' : MemStorage} {sn : Snapshot} (h : s.applySnapshot sn = .ok s') :
    s'.entries = [] ∧ s'.snapshotMetadata = sn.metadata ∧ s.firstIndex ≤ sn.metadata.index := by
  unfold MemStorage.applySnapshot at h
  simp only [] at h
  split at h
  · cases h
  · injection h with h; subst h; exact ⟨rfl, rfl, by omega⟩

/-- "the updates of the Ready can be read by raft from the `Storage`" — what the documentation of
`advance_append_async` (raw_node.rs:708-714) requires before any of `advance*` is called: the
storage ends where the log ends, holds the unstable entries at their positions, and starts right
after the pending snapshot -/
structure Written (l : RaftLog) : Prop where
  first : l.store.firstIndex ≤ l.unstable.offset
  last : l.store.lastIndex = l.lastIndex
  ents : ∀ k e, l.unstable.entries[k]? = some e →
    l.store.entries[l.unstable.offset + k - l.store.firstIndex]? = some e
  snap : ∀ sn, l.unstable.snapshot = some sn →
    l.store.firstIndex = sn.metadata.index + 1 ∧
    l.store.snapshotMetadata.index = sn.metadata.index ∧
    l.store.snapshotMetadata.term = sn.metadata.term

theorem lastIndex_new_store {l : RaftLog} (st : MemStorage) (hl : st.lastIndex = l.lastIndex) :
    ({ l with store := st } : RaftLog).lastIndex = l.lastIndex := by
  unfold RaftLog.lastIndex at *
  simp only [] at *
  cases hm : l.unstable.maybeLastIndex with
  | some i => rfl
  | none => rw [hm] at hl; exact hl

/-- replacing the storage by one that ends where the log ends (and starts where the old one did,
when no snapshot is pending) keeps the invariant -/
theorem inv_new_store {l : RaftLog} (h : l.Inv) (st : MemStorage) (hwf : st.WF)
    (hf : l.unstable.snapshot = none → st.firstIndex = l.store.firstIndex)
    (hl : st.lastIndex = l.lastIndex) : RaftLog.Inv { l with store := st } := by
  have hls := h.last_succ
  have hli := lastIndex_new_store st hl
  have hfi : ({ l with store := st } : RaftLog).firstIndex = l.firstIndex := by
    cases hs : l.unstable.snapshot with
    | none =>
      rw [RaftLog.firstIndex_none hs, RaftLog.firstIndex_none (l := { l with store := st }) hs]
      exact hf hs
    | some sn =>
      rw [RaftLog.firstIndex_some hs, RaftLog.firstIndex_some (l := { l with store := st }) hs]
  have hpo := h.persisted_lt_off
  refine ⟨hwf, h.unstWF, ?_, ?_, ?_, ?_, ?_, h.persisted_lt_off, ?_⟩
  · intro hs; show st.firstIndex ≤ l.unstable.offset; rw [hf hs]; exact h.first_le_off hs
  · intro hs; show l.unstable.offset ≤ st.lastIndex + 1; omega
  · intro hs he
    show l.unstable.offset = st.lastIndex + 1
    have : l.unstable.entries.length = 0 := by rw [he]; rfl
    omega
  · rw [hfi]; exact h.dummy_le_committed
  · rw [hli]; exact h.committed_le_last
  · show l.persisted ≤ st.lastIndex; omega

theorem applyHs_congr (st2 : MemStorage) (o : Option HardState) :
    (match o with | some hs => st2.setHardState hs | none => st2).entries = st2.entries ∧
    (match o with | some hs => st2.setHardState hs | none => st2).snapshotMetadata =
      st2.snapshotMetadata := by
  cases o <;> exact ⟨rfl, rfl⟩

/-- the storage write of the pending Ready (its entries and snapshot are the current unstable
part): the invariant and the logical log are kept, the first index of the storage does not
decrease, and afterwards the Ready is `Written` -/
theorem write_log {l : RaftLog} {st1 st2 st3 : MemStorage} (h : l.Inv)
    (h1 : (l.unstable.snapshot = none ∧ st1 = l.store) ∨
      ∃ sn, l.unstable.snapshot = some sn ∧ l.store.applySnapshot sn = .ok st1)
    (h2 : st1.append l.unstable.entries = .ok st2)
    (he3 : st3.entries = st2.entries) (hm3 : st3.snapshotMetadata = st2.snapshotMetadata) :
    RaftLog.Inv { l with store := st3 } ∧ ({ l with store := st3 } : RaftLog).abs = l.abs ∧
    Written { l with store := st3 } ∧ l.store.firstIndex ≤ st3.firstIndex ∧
    (l.unstable.snapshot = none → st3.firstIndex = l.store.firstIndex) ∧
    (∀ sn, l.unstable.snapshot = some sn → st3.firstIndex = sn.metadata.index + 1) := by
  obtain ⟨hf3, hl3, hw3⟩ := store_congr he3 hm3
  have hls := h.last_succ
  -- the storage after `apply_snapshot`
  have key : st1.WF ∧ st1.firstIndex ≤ l.unstable.offset ∧ l.unstable.offset ≤ st1.lastIndex + 1 ∧
      (l.unstable.entries = [] → st1.lastIndex = l.lastIndex) ∧
      l.store.firstIndex ≤ st1.firstIndex ∧
      (l.unstable.snapshot = none → st1 = l.store) ∧
      (∀ sn, l.unstable.snapshot = some sn → st1.firstIndex = sn.metadata.index + 1 ∧
        st1.snapshotMetadata = sn.metadata ∧ st1.entries = []) := by
    cases hs : l.unstable.snapshot with
    | none =>
      have h1 : st1 = l.store := by
        rcases h1 with ⟨_, h1⟩ | ⟨sn, h1, _⟩
        · exact h1
        · rw [hs] at h1; cases h1
      subst h1
      refine ⟨h.storeWF, h.first_le_off hs, h.off_le_last hs, ?_, Nat.le_refl _, fun _ => rfl,
        fun sn hsn => by cases hsn⟩
      intro he
      have := h.ents_empty hs he
      have : l.unstable.entries.length = 0 := by rw [he]; rfl
      omega
    | some sn =>
      have h1 : l.store.applySnapshot sn = .ok st1 := by
        rcases h1 with ⟨h1, _⟩ | ⟨sn', h1, h1'⟩
        · rw [hs] at h1; cases h1
        · rw [hs] at h1; injection h1 with h1; subst h1; exact h1'
      obtain ⟨e1, m1, hle⟩ := applySnapshot_spec h1
      have ho := h.unstWF.snap sn hs
      have hfi : st1.firstIndex = sn.metadata.index + 1 := by
        simp [MemStorage.firstIndex, e1, m1]
      have hli : st1.lastIndex = sn.metadata.index := by
        simp [MemStorage.lastIndex, e1, m1]
      refine ⟨⟨?_, ?_⟩, by omega, by omega, ?_, by omega, fun hn => (by cases hn), ?_⟩
      · intro k e hk; rw [e1] at hk; simp at hk
      · rw [hfi, m1]; exact Nat.lt_succ_self _
      · intro he
        have : l.unstable.entries.length = 0 := by rw [he]; rfl
        omega
      · intro sn' hsn'
        injection hsn' with hsn'
        subst hsn'
        exact ⟨hfi, m1, e1⟩
  obtain ⟨hwf1, hfo1, hol1, hle1, hff1, hn1, hs1⟩ := key
  -- the storage after `append`
  have key2 : st2.WF ∧ st2.firstIndex = st1.firstIndex ∧ st2.lastIndex = l.lastIndex ∧
      st2.snapshotMetadata = st1.snapshotMetadata ∧
      st2.entries = st1.entries.take (l.unstable.offset - st1.firstIndex) ++ l.unstable.entries ∧
      (l.unstable.offset - st1.firstIndex) ≤ st1.entries.length := by
    have hl1 := hwf1.last_succ
    cases he : l.unstable.entries with
    | nil =>
      rw [he] at h2
      injection h2 with h2
      subst h2
      have hlen : l.unstable.entries.length = 0 := by rw [he]; rfl
      have := hle1 he
      refine ⟨hwf1, rfl, this, rfl, ?_, by omega⟩
      rw [List.append_nil, List.take_of_length_le (by omega)]
    | cons e0 es =>
      rw [he] at h2
      have hc : ContigFrom l.unstable.offset (e0 :: es) := he ▸ h.unstWF.contig
      have h0 : e0.index = l.unstable.offset := hc.head
      obtain ⟨s', hs', hwf', hf', hl', hm', hent'⟩ := storeAppend_spec hwf1 e0 es
        (h0 ▸ hc) (by omega) (by omega)
      rw [hs'] at h2
      injection h2 with h2
      subst h2
      have hlen : l.unstable.entries.length = es.length + 1 := by rw [he]; rfl
      refine ⟨hwf', hf', by omega, hm', by rw [hent', h0], by omega⟩
  obtain ⟨hwf2, hf2, hl2, hm2, hent2, hdl⟩ := key2
  have hwf := hw3 hwf2
  have hfn : l.unstable.snapshot = none → st3.firstIndex = l.store.firstIndex := by
    intro hs; rw [hf3, hf2, hn1 hs]
  have hinv := inv_new_store h st3 hwf hfn (by rw [hl3, hl2])
  have htake : (st1.entries.take (l.unstable.offset - st1.firstIndex)).length =
      l.unstable.offset - st1.firstIndex := by rw [List.length_take]; omega
  refine ⟨hinv, ?_, ⟨?_, ?_, ?_, ?_⟩, by omega, hfn, ?_⟩
  · cases hs : l.unstable.snapshot with
    | none =>
      have e1 := hn1 hs
      rw [RaftLog.abs_none hs, RaftLog.abs_none (l := { l with store := st3 }) hs]
      show LLog.mk _ _ _ = _
      rw [hf3, hf2, hm3, hm2, he3, hent2, e1,
        List.take_append_of_le_length (by rw [← e1, htake]; exact Nat.le_refl _), List.take_take,
        Nat.min_self]
    | some sn =>
      rw [RaftLog.abs_some hs, RaftLog.abs_some (l := { l with store := st3 }) hs]
  · show st3.firstIndex ≤ l.unstable.offset
    omega
  · show st3.lastIndex = ({ l with store := st3 } : RaftLog).lastIndex
    rw [lastIndex_new_store st3 (by rw [hl3, hl2]), hl3, hl2]
  · intro k e hk
    show st3.entries[l.unstable.offset + k - st3.firstIndex]? = some e
    rw [he3, hent2, hf3, hf2, List.getElem?_append_right (by omega), htake]
    rw [show l.unstable.offset + k - st1.firstIndex - (l.unstable.offset - st1.firstIndex) = k by
      omega]
    exact hk
  · intro sn hsn
    obtain ⟨a, b, _⟩ := hs1 sn hsn
    show st3.firstIndex = _ ∧ st3.snapshotMetadata.index = _ ∧ st3.snapshotMetadata.term = _
    rw [hf3, hf2, hm3, hm2, b]
    exact ⟨a, rfl, rfl⟩
  · intro sn hsn
    rw [hf3, hf2]; exact (hs1 sn hsn).1

theorem storageWrite_parts {n n' : RawNodeM} {rd : Ready} (h : n.storageWrite rd = .ok n') :
    ∃ st1 st2 st3, ((rd.snapshot = none ∧ st1 = n.log.store) ∨
        ∃ sn, rd.snapshot = some sn ∧ n.log.store.applySnapshot sn = .ok st1) ∧
      st1.append rd.entries = .ok st2 ∧ st3.entries = st2.entries ∧
      st3.snapshotMetadata = st2.snapshotMetadata ∧
      n' = { n with log := { n.log with store := st3 } } := by
  unfold storageWrite at h
  simp only [] at h
  cases hs : rd.snapshot with
  | none =>
    simp only [hs] at h
    cases h2 : n.log.store.append rd.entries with
    | ok st2 =>
      simp only [h2] at h
      injection h with h
      obtain ⟨e3, m3⟩ := applyHs_congr st2 rd.hs
      exact ⟨_, st2, _, .inl ⟨rfl, rfl⟩, h2, e3, m3, h.symm⟩
    | err e => simp only [h2] at h; cases h
    | panic p => simp only [h2] at h; cases h
  | some sn =>
    simp only [hs] at h
    cases h1 : n.log.store.applySnapshot sn with
    | ok st1 =>
      simp only [h1] at h
      cases h2 : st1.append rd.entries with
      | ok st2 =>
        simp only [h2] at h
        injection h with h
        obtain ⟨e3, m3⟩ := applyHs_congr st2 rd.hs
        exact ⟨st1, st2, _, .inr ⟨sn, rfl, h1⟩, h2, e3, m3, h.symm⟩
      | err e => simp only [h2] at h; cases h
      | panic p => simp only [h2] at h; cases h
    | err e => simp only [h1] at h; cases h
    | panic p => simp only [h1] at h; cases h

/-! ### `commit_ready` -/

theorem getLast?_none_nil {α : Type} {l : List α} (h : l.getLast? = none) : l = [] := by
  cases l with
  | nil => rfl
  | cons a t => simp [List.getLast?_cons] at h

/-- `commitReady_spec` with the two facts it leaves out (they need the `RaftLog` invariant): the
size counter is reset and the new offset is `last_index + 1` -/
theorem commitReady_spec2 (n : RawNodeM) (rd : Ready) (rec : ReadyRecord) (hinv : n.log.Inv)
    (hlast : n.records.getLast? = some rec) (hnum : rec.number = rd.number)
    (hsnap : rec.snapshot =
      n.log.unstable.snapshot.map (fun sn => (sn.metadata.index, sn.metadata.term)))
    (hent : rec.lastEntry = n.log.unstable.entries.getLast?.map (fun e => (e.index, e.term))) :
    ∃ l2, n.commitReady rd = .ok { n with prevSs := rd.ss.getD n.prevSs,
                                          prevHs := rd.hs.getD n.prevHs, log := l2 } ∧
      l2.unstable.entries = [] ∧ l2.unstable.entriesSize = 0 ∧ l2.unstable.snapshot = none ∧
      l2.store = n.log.store ∧ l2.committed = n.log.committed ∧ l2.persisted = n.log.persisted ∧
      l2.applied = n.log.applied ∧
      l2.maxApplyUnpersistedLogLimit = n.log.maxApplyUnpersistedLogLimit ∧
      l2.unstable.offset = n.log.lastIndex + 1 := by
  have hls := hinv.last_succ
  have hsz := hinv.unstWF.size
  unfold commitReady
  simp only [hlast, hnum, ne_eq, not_true_eq_false, if_false, hsnap, hent]
  cases hs : n.log.unstable.snapshot with
  | none =>
    cases he : n.log.unstable.entries.getLast? with
    | none =>
      have hnil := getLast?_none_nil he
      simp only [Option.map_none]
      refine ⟨n.log, rfl, hnil, ?_, hs, rfl, rfl, rfl, rfl, rfl, ?_⟩
      · rw [hsz, hnil]; rfl
      · rw [hnil] at hls; simp at hls; omega
    | some e =>
      have := ContigFrom.getLast hinv.unstWF.contig he
      simp only [Option.map_none, Option.map_some, RaftLog.stableEntries,
        Unstable.stableEntries, hs, Option.isSome_none, Bool.false_eq_true, if_false, he,
        ne_eq, not_true_eq_false, or_self]
      exact ⟨_, rfl, rfl, rfl, rfl, rfl, rfl, rfl, rfl, rfl, by show e.index + 1 = _; omega⟩
  | some sn =>
    cases he : n.log.unstable.entries.getLast? with
    | none =>
      have hnil := getLast?_none_nil he
      simp only [Option.map_none, Option.map_some, RaftLog.stableSnap, Unstable.stableSnap, hs,
        ne_eq, not_true_eq_false, if_false]
      refine ⟨_, rfl, hnil, ?_, rfl, rfl, rfl, rfl, rfl, rfl, ?_⟩
      · show n.log.unstable.entriesSize = 0
        rw [hsz, hnil]; rfl
      · show n.log.unstable.offset = _
        rw [hnil] at hls; simp at hls; omega
    | some e =>
      have := ContigFrom.getLast hinv.unstWF.contig he
      simp only [Option.map_some, RaftLog.stableSnap, Unstable.stableSnap, hs,
        ne_eq, not_true_eq_false, if_false, RaftLog.stableEntries, Unstable.stableEntries,
        Option.isSome_none, Bool.false_eq_true, he, or_self]
      exact ⟨_, rfl, rfl, rfl, rfl, rfl, rfl, rfl, rfl, rfl, by show e.index + 1 = _; omega⟩

/-- moving a `Written` unstable part into the stable part keeps the invariant and the logical log -/
theorem stable_log {l l2 : RaftLog} (h : l.Inv) (w : Written l)
    (he : l2.unstable.entries = []) (hz : l2.unstable.entriesSize = 0)
    (hs : l2.unstable.snapshot = none) (hst : l2.store = l.store)
    (hc : l2.committed = l.committed) (hp : l2.persisted = l.persisted)
    (ho : l2.unstable.offset = l.lastIndex + 1) :
    l2.Inv ∧ l2.abs.snapIdx = l.abs.snapIdx ∧ (∀ i, l2.abs.entryAt i = l.abs.entryAt i) ∧
    l2.firstIndex = l.firstIndex ∧ l2.lastIndex = l.lastIndex ∧
    l.firstIndex = l.store.firstIndex := by
  have hls := h.last_succ
  have hpo := h.persisted_lt_off
  have hfp := h.storeWF.first_pos
  have hF : l.firstIndex = l.store.firstIndex := by
    cases hsn : l.unstable.snapshot with
    | none => exact RaftLog.firstIndex_none hsn
    | some sn => rw [RaftLog.firstIndex_some hsn, (w.snap sn hsn).1]
  have hfi : l2.firstIndex = l.firstIndex := by
    rw [RaftLog.firstIndex_none hs, hst, hF]
  have hli : l2.lastIndex = l.lastIndex := by
    have : l2.unstable.entries.length = 0 := by rw [he]; rfl
    simp only [RaftLog.lastIndex, Unstable.maybeLastIndex, this, if_true, hs, hst]
    exact w.last
  have hinv : l2.Inv := by
    refine ⟨hst ▸ h.storeWF, ⟨?_, ?_, ?_⟩, ?_, ?_, ?_, ?_, ?_, ?_, ?_⟩
    · intro k e hk; rw [he] at hk; simp at hk
    · rw [hz, he]; rfl
    · intro sn hsn; rw [hs] at hsn; cases hsn
    · intro _; rw [hst, ho]; have := w.first; omega
    · intro _; rw [hst, ho, w.last]; exact Nat.le_refl _
    · intro _ _; rw [hst, ho, w.last]
    · rw [hfi, hc]; exact h.dummy_le_committed
    · rw [hli, hc]; exact h.committed_le_last
    · rw [hp, ho]; omega
    · rw [hp, hst]; exact h.persisted_le_store
  have hsi2 : l2.abs.snapIdx = l.store.firstIndex - 1 := by
    rw [RaftLog.abs_none hs, hst]
  have hsi : l.abs.snapIdx = l.store.firstIndex - 1 := by
    cases hsn : l.unstable.snapshot with
    | none => rw [RaftLog.abs_none hsn]
    | some sn => rw [RaftLog.abs_some hsn, (w.snap sn hsn).1]; rfl
  refine ⟨hinv, by rw [hsi2, hsi], ?_, hfi, hli, hF⟩
  intro i
  rcases Nat.lt_or_ge i l.store.firstIndex with hlt | hge
  · -- below the first index: covered on both sides
    have h1 : i ≤ l2.abs.snapIdx := by omega
    have h2 : i ≤ l.abs.snapIdx := by omega
    simp [LLog.entryAt, h1, h2]
  · rcases Nat.lt_or_ge i l.unstable.offset with hlo | hgo
    · -- in the part that was stable already
      have hsn : l.unstable.snapshot = none := by
        cases hsn : l.unstable.snapshot with
        | none => rfl
        | some sn =>
          have := h.unstWF.snap sn hsn
          have := (w.snap sn hsn).1
          omega
      rw [h.entryAt_store hsn hge hlo, hinv.entryAt_store hs (by rw [hst]; exact hge) (by omega),
        hst]
    · rcases Nat.lt_or_ge i (l.lastIndex + 1) with hll | hgl
      · -- in the part that was unstable
        have hk : i - l.unstable.offset < l.unstable.entries.length := by omega
        have hget := List.getElem?_eq_some_iff.2
          ⟨hk, (rfl : l.unstable.entries[i - l.unstable.offset] = _)⟩
        have hw := w.ents _ _ hget
        rw [h.entryAt_unstable hgo, hget,
          hinv.entryAt_store hs (by rw [hst]; exact hge) (by omega), hst]
        rw [show l.unstable.offset + (i - l.unstable.offset) - l.store.firstIndex =
          i - l.store.firstIndex by omega] at hw
        exact hw
      · -- beyond the last index
        rw [h.entryAt_unstable hgo, hinv.entryAt_unstable (by omega), he]
        simp only [List.getElem?_nil]
        exact (List.getElem?_eq_none (by omega)).symm

/-! ### persistence notices -/

/-- only the cursors changed, the invariant is kept, the commit index did not decrease -/
structure CursorStep (l l' : RaftLog) : Prop where
  inv : l'.Inv
  store : l'.store = l.store
  unst : l'.unstable = l.unstable
  applied : l'.applied = l.applied
  limit : l'.maxApplyUnpersistedLogLimit = l.maxApplyUnpersistedLogLimit
  comm : l.committed ≤ l'.committed
  pers : l.persisted ≤ l'.persisted

theorem CursorStep.refl {l : RaftLog} (h : l.Inv) : CursorStep l l :=
  ⟨h, rfl, rfl, rfl, rfl, Nat.le_refl _, Nat.le_refl _⟩

theorem CursorStep.trans {a b c : RaftLog} (h1 : CursorStep a b) (h2 : CursorStep b c) :
    CursorStep a c :=
  ⟨h2.inv, h2.store.trans h1.store, h2.unst.trans h1.unst, h2.applied.trans h1.applied,
    h2.limit.trans h1.limit, Nat.le_trans h1.comm h2.comm, Nat.le_trans h1.pers h2.pers⟩

theorem CursorStep.logStep {l l' : RaftLog} (h : CursorStep l l') : LogStep l l' :=
  logStep_of_cursors h.inv h.store h.unst h.comm

theorem CursorStep.lastIndex {l l' : RaftLog} (h : CursorStep l l') : l'.lastIndex = l.lastIndex :=
  lastIndex_congr h.store h.unst

theorem CursorStep.firstIndex {l l' : RaftLog} (h : CursorStep l l') :
    l'.firstIndex = l.firstIndex := firstIndex_congr h.store h.unst

theorem CursorStep.abs {l l' : RaftLog} (h : CursorStep l l') : l'.abs = l.abs :=
  abs_congr h.store h.unst

theorem maybePersistSnap_step {l l' : RaftLog} {b : Bool} {i : Nat} (h : l.Inv)
    (hi : i ≤ l.store.lastIndex) (hm : l.maybePersistSnap i = .ok (l', b)) : CursorStep l l' := by
  unfold RaftLog.maybePersistSnap at hm
  by_cases h1 : l.persisted < i
  · rw [if_pos h1] at hm
    by_cases h2 : l.committed < i
    · rw [if_pos h2] at hm; cases hm
    · rw [if_neg h2] at hm
      by_cases h3 : l.unstable.offset ≤ i
      · rw [if_pos h3] at hm; cases hm
      · rw [if_neg h3] at hm
        injection hm with hm; injection hm with hm _
        subst hm
        refine ⟨?_, rfl, rfl, rfl, rfl, Nat.le_refl _, by show l.persisted ≤ i; omega⟩
        exact inv_cursors h rfl rfl h.dummy_le_committed h.committed_le_last
          (by show i < _; omega) hi
  · rw [if_neg h1] at hm
    injection hm with hm; injection hm with hm _
    subst hm
    exact CursorStep.refl h

theorem maybePersist_shape {l l' : RaftLog} {b : Bool} {i t : Nat}
    (hm : l.maybePersist i t = .ok (l', b)) : l' = l ∨ l' = { l with persisted := i } := by
  unfold RaftLog.maybePersist at hm
  simp only [] at hm
  repeat' (split at hm)
  all_goals first
    | (injection hm with hm; injection hm with hm _; subst hm; exact .inl rfl)
    | (injection hm with hm; injection hm with hm _; subst hm; exact .inr rfl)
    | (exfalso; cases hm)

theorem maybePersist_step {l l' : RaftLog} {b : Bool} {i t : Nat} (h : l.Inv)
    (hm : l.maybePersist i t = .ok (l', b)) : CursorStep l l' := by
  obtain ⟨l'', b'', e, hinv, _, hcm, hap, hpers, _⟩ := h.maybePersist i t
  rw [hm] at e
  injection e with e; injection e with e1 e2
  subst e1
  rcases maybePersist_shape hm with hs | hs
  · rw [hs]; exact CursorStep.refl h
  · refine ⟨hinv, ?_, ?_, hap, ?_, by omega, hpers⟩ <;> rw [hs]

theorem onPersistSnap_log {n n' : RawNodeM} {i : Nat} (hinv : n.log.Inv)
    (hi : i ≤ n.log.store.lastIndex) (h : n.onPersistSnap i = .ok n') :
    CursorStep n.log n'.log := by
  unfold onPersistSnap at h
  cases hm : n.log.maybePersistSnap i with
  | ok p =>
    obtain ⟨l, b⟩ := p
    simp only [hm] at h
    injection h with h; subst h
    exact maybePersistSnap_step hinv hi hm
  | err e => simp only [hm] at h; cases h
  | panic s => simp only [hm] at h; cases h

theorem onPersistEntries_log {n n' : RawNodeM} {i t : Nat} {eff : Effect} (hinv : n.log.Inv)
    (hc : eff.commit ≤ n.log.lastIndex) (h : n.onPersistEntries i t eff = .ok n') :
    CursorStep n.log n'.log := by
  unfold onPersistEntries at h
  cases hm : n.log.maybePersist i t with
  | ok p =>
    obtain ⟨l, b⟩ := p
    simp only [hm] at h
    have s1 := maybePersist_step hinv hm
    by_cases hb : (b && n.isLeader) = true
    · rw [if_pos hb] at h
      obtain ⟨hct, hci⟩ := s1.inv.commitTo eff.commit (by rw [s1.lastIndex]; exact hc)
      rw [hct] at h
      simp only [] at h
      injection h with h; subst h
      refine s1.trans ⟨hci, rfl, rfl, rfl, rfl, ?_, Nat.le_refl _⟩
      show l.committed ≤ max l.committed eff.commit
      omega
    · rw [if_neg hb] at h
      injection h with h; subst h
      exact s1
  | err e => simp only [hm] at h; cases h
  | panic s => simp only [hm] at h; cases h

theorem mem_takeWhile {α : Type} {p : α → Bool} {l : List α} {a : α}
    (h : a ∈ l.takeWhile p) : a ∈ l ∧ p a = true := by
  induction l with
  | nil => simp at h
  | cons x xs ih =>
    rw [List.takeWhile_cons] at h
    by_cases hp : p x = true
    · rw [if_pos hp] at h
      rcases List.mem_cons.1 h with rfl | h
      · exact ⟨List.mem_cons_self, hp⟩
      · exact ⟨List.mem_cons_of_mem _ (ih h).1, (ih h).2⟩
    · rw [if_neg hp] at h; simp at h

theorem recStep_snap (acc : Nat × Nat × Nat) (r : ReadyRecord) :
    ((recStep acc r).2.2 = acc.2.2 ∧ r.snapshot = none) ∨
      ∃ t, r.snapshot = some ((recStep acc r).2.2, t) := by
  unfold recStep
  cases hs : r.snapshot with
  | none => cases hl : r.lastEntry with
    | none => exact .inl ⟨rfl, rfl⟩
    | some q => exact .inl ⟨rfl, rfl⟩
  | some p =>
    obtain ⟨i, t⟩ := p
    cases hl : r.lastEntry with
    | none => exact .inr ⟨t, rfl⟩
    | some q => exact .inr ⟨t, rfl⟩

/-- the snapshot index forwarded by `on_persist_ready` is the one of a popped record -/
theorem persistTarget_snap (l : List ReadyRecord) (acc : Nat × Nat × Nat) :
    (persistTarget l acc).2.2 = acc.2.2 ∨
      ∃ r ∈ l, ∃ t, r.snapshot = some ((persistTarget l acc).2.2, t) := by
  induction l generalizing acc with
  | nil => exact .inl rfl
  | cons r rs ih =>
    show (persistTarget rs (recStep acc r)).2.2 = _ ∨ _
    rcases ih (recStep acc r) with h | ⟨r', hr', t, ht⟩
    · rcases recStep_snap acc r with ⟨h2, _⟩ | ⟨t, ht⟩
      · left; rw [h, h2]
      · right
        refine ⟨r, List.mem_cons_self, t, ?_⟩
        show r.snapshot = some ((persistTarget rs (recStep acc r)).2.2, t)
        rw [h]; exact ht
    · exact .inr ⟨r', List.mem_cons_of_mem _ hr', t, ht⟩

/-- `on_persist_ready`: only cursors of the log change, under the `RaftLog` invariant, when the
snapshot of every record it pops has been applied to the storage, and for a raft effect within
the log -/
theorem onPersistReady_log {n n' : RawNodeM} {number : Nat} {eff : Effect} (hinv : n.log.Inv)
    (hrs : ∀ r ∈ n.records, r.number ≤ number → ∀ i t, r.snapshot = some (i, t) →
      i < n.log.store.firstIndex)
    (hc : eff.commit ≤ n.log.lastIndex) (h : n.onPersistReady number eff = .ok n') :
    CursorStep n.log n'.log := by
  unfold onPersistReady at h
  rw [popRecords_eq] at h
  simp only [] at h
  generalize hn1 : ({ n with
      unpersistedHsNumber := if n.unpersistedHsNumber ≤ number then 0 else n.unpersistedHsNumber,
      records := n.records.dropWhile (fun r => decide (r.number ≤ number)) } : RawNodeM) = n1 at h
  have f1 : n1.log = n.log := by rw [← hn1]
  have htgt := persistTarget_snap (n.records.takeWhile (fun r => decide (r.number ≤ number)))
    (0, 0, 0)
  generalize persistTarget (n.records.takeWhile (fun r => decide (r.number ≤ number))) (0, 0, 0)
    = tgt at h htgt
  obtain ⟨idx, tm, sidx⟩ := tgt
  simp only [] at h htgt
  have step2 : ∀ n2 : RawNodeM, CursorStep n.log n2.log →
      (if idx ≠ 0 then n2.onPersistEntries idx tm eff else Res.ok n2) = .ok n' →
      CursorStep n.log n'.log := by
    intro n2 s2 h2
    by_cases hi : idx ≠ 0
    · rw [if_pos hi] at h2
      exact s2.trans (onPersistEntries_log s2.inv (by rw [s2.lastIndex]; exact hc) h2)
    · rw [if_neg hi] at h2
      injection h2 with h2; subst h2
      exact s2
  by_cases hsn : sidx ≠ 0
  · rw [if_pos hsn] at h
    have hle : sidx ≤ n.log.store.lastIndex := by
      rcases htgt with h0 | ⟨r, hr, t, ht⟩
      · exact absurd h0 hsn
      · obtain ⟨hm, hp⟩ := mem_takeWhile hr
        have := hrs r hm (of_decide_eq_true hp) _ _ ht
        have := hinv.storeWF.last_succ
        omega
    cases hp : n1.onPersistSnap sidx with
    | ok n2 =>
      rw [hp] at h
      have := onPersistSnap_log (n := n1) (by rw [f1]; exact hinv) (by rw [f1]; exact hle) hp
      rw [f1] at this
      exact step2 n2 this h
    | err e => rw [hp] at h; cases h
    | panic s => rw [hp] at h; cases h
  · rw [if_neg hsn] at h
    exact step2 n1 (by rw [f1]; exact CursorStep.refl hinv) h

/-! ### apply notices, compaction, the environment -/

/-- the auto-leave entry a leader may append inside `commit_apply` goes right after the last index
(`Raft::append_entry` raft.rs:1046 numbers it `last_index + 1`) -/
def AppendedOk (l : RaftLog) (eff : Effect) : Prop :=
  ∀ e0 es, eff.appended = e0 :: es → ContigFrom e0.index (e0 :: es) ∧ e0.index = l.lastIndex + 1

theorem commitApply_log {n n' : RawNodeM} {a : Nat} {eff : Effect} (hinv : n.log.Inv)
    (hap : AppendedOk n.log eff) (h : n.commitApply a eff = .ok n') :
    LogStep n.log n'.log ∧ n'.log.store = n.log.store ∧ n'.log.committed = n.log.committed ∧
    n'.log.unstable.snapshot = n.log.unstable.snapshot ∧
    (n'.log.applied = n.log.applied ∨ (n'.log.applied = a ∧ a ≤ n.log.committed)) ∧
    ((n.isLeader && !eff.appended.isEmpty) = false → n'.log.unstable = n.log.unstable) := by
  unfold commitApply at h
  cases h1 : n.log.appliedTo a with
  | ok l1 =>
    simp only [h1] at h
    -- the log after `applied_to`
    have k1 : l1.store = n.log.store ∧ l1.unstable = n.log.unstable ∧
        l1.committed = n.log.committed ∧ l1.persisted = n.log.persisted ∧
        (l1.applied = n.log.applied ∨ (l1.applied = a ∧ a ≤ n.log.committed)) := by
      unfold RaftLog.appliedTo at h1
      by_cases h0 : a = 0
      · rw [if_pos h0] at h1; injection h1 with h1; subst h1
        exact ⟨rfl, rfl, rfl, rfl, .inl rfl⟩
      · rw [if_neg h0] at h1
        by_cases hp : n.log.committed < a ∨ a < n.log.applied
        · rw [if_pos hp] at h1; cases h1
        · rw [if_neg hp] at h1; injection h1 with h1; subst h1
          exact ⟨rfl, rfl, rfl, rfl, .inr ⟨rfl, by omega⟩⟩
    obtain ⟨hs1, hu1, hc1, hp1, ha1⟩ := k1
    have hinv1 : l1.Inv := inv_cursors hinv hs1 hu1 (by rw [hc1]; exact hinv.dummy_le_committed)
      (by rw [hc1]; exact hinv.committed_le_last) (by rw [hp1]; exact hinv.persisted_lt_off)
      (by rw [hp1]; exact hinv.persisted_le_store)
    have hl1 : l1.lastIndex = n.log.lastIndex := lastIndex_congr hs1 hu1
    by_cases hb : (n.isLeader && !eff.appended.isEmpty) = true
    · rw [if_pos hb] at h
      cases hents : eff.appended with
      | nil => rw [hents] at hb; simp at hb
      | cons e0 es =>
        obtain ⟨hc, h0⟩ := hap e0 es hents
        have hcl := hinv1.committed_le_last
        obtain ⟨l', happ, _, habs, hst, hcm, hper, happl, _, hsn, hi⟩ :=
          hinv1.append e0 es hc (by omega) (by omega)
        rw [hents, happ] at h
        simp only [] at h
        injection h with h; subst h
        have hpo := hinv1.persisted_lt_off
        have hls := hinv1.last_succ
        have hinv' := hi l1.persisted (Nat.le_refl _) (by omega)
        rw [← hper] at hinv'
        refine ⟨⟨hinv', by show n.log.committed ≤ l'.committed; omega, ?_⟩,
          hst.trans hs1, hcm.trans hc1, by show l'.unstable.snapshot = _; rw [hsn, hu1],
          by show l'.applied = _ ∨ l'.applied = a ∧ _; rw [happl]; exact ha1,
          fun hf => by rw [hents] at hb; rw [hf] at hb; cases hb⟩
        intro i hi'
        left
        show l'.abs.entryAt i = _
        rw [habs, ← abs_congr hs1 hu1]
        exact l1.abs.truncateAppend_entryAt _ _ i (by omega)
          (by rw [← hinv1.lastIndex_abs]; omega)
    · rw [if_neg hb] at h
      injection h with h; subst h
      exact ⟨logStep_of_cursors hinv1 hs1 hu1 (by show n.log.committed ≤ l1.committed; omega), hs1, hc1, by show l1.unstable.snapshot = _; rw [hu1],
        ha1, fun _ => hu1⟩
  | err e => simp only [h1] at h; cases h
  | panic s => simp only [h1] at h; cases h

/-- `MemStorage::compact(k)` strictly inside the stored range -/
theorem storeCompact_spec {s s' : MemStorage} {k : Nat} (h : s.WF) (hk : k ≤ s.lastIndex)
    (hc : s.compact k = .ok s') :
    s' = s ∨ (s.firstIndex < k ∧ s'.WF ∧ s'.firstIndex = k ∧ s'.lastIndex = s.lastIndex ∧
      s'.snapshotMetadata = s.snapshotMetadata ∧ s'.entries = s.entries.drop (k - s.firstIndex)) := by
  have hl := h.last_succ
  unfold MemStorage.compact at hc
  by_cases h1 : k ≤ s.firstIndex
  · rw [if_pos h1] at hc; injection hc with hc; exact .inl hc.symm
  · rw [if_neg h1, if_neg (by omega)] at hc
    cases hh : s.entries with
    | nil => rw [hh] at hl; simp at hl; omega
    | cons a t =>
      have hf : a.index = s.firstIndex := by simp [MemStorage.firstIndex, hh]
      rw [hh] at hc
      simp only [List.head?_cons] at hc
      rw [hf, if_neg (by omega), if_neg (by rw [hh] at hl; simp only [List.length_cons] at hl ⊢; omega)]
        at hc
      injection hc with hc
      right
      have hdlt : k - s.firstIndex < s.entries.length := by omega
      have hdrop : s.entries.drop (k - s.firstIndex) =
          s.entries[k - s.firstIndex] :: s.entries.drop (k - s.firstIndex + 1) :=
        List.drop_eq_getElem_cons hdlt
      have hidx : (s.entries[k - s.firstIndex]).index = k := by
        have := h.contig _ _ (List.getElem?_eq_some_iff.2 ⟨hdlt, rfl⟩)
        omega
      have hent : s'.entries = s.entries.drop (k - s.firstIndex) := by rw [← hc, hh]
      have hsm : s'.snapshotMetadata = s.snapshotMetadata := by rw [← hc]
      have hf' : s'.firstIndex = k := by
        unfold MemStorage.firstIndex
        rw [hent, hdrop]
        exact hidx
      have hwf : s'.WF := by
        refine ⟨?_, ?_⟩
        · intro j e hj
          rw [hent, List.getElem?_drop] at hj
          have := h.contig _ _ hj
          omega
        · rw [hsm, hf']; have := h.snap_lt; omega
      refine ⟨by omega, hwf, hf', ?_, hsm, by rw [← hh]; exact hent⟩
      have := hwf.last_succ
      rw [hf', hent, List.length_drop] at this
      omega

/-- compaction at or below the applied index, below `persisted + 1`, inside the storage -/
theorem compact_log {l l' : RaftLog} {k : Nat} (hinv : l.Inv) (ha : l.applied ≤ l.committed)
    (hk1 : k ≤ l.applied) (hk2 : k ≤ l.persisted + 1) (hk3 : k ≤ l.store.lastIndex)
    (h : l.compactStore k = .ok l') :
    LogStep l l' ∧ l'.unstable = l.unstable ∧ l'.committed = l.committed ∧
    l'.applied = l.applied ∧ l.store.firstIndex ≤ l'.store.firstIndex ∧
    l'.store.firstIndex ≤ max l.store.firstIndex k := by
  unfold RaftLog.compactStore at h
  cases hc : l.store.compact k with
  | ok st =>
    simp only [hc] at h
    injection h with h; subst h
    rcases storeCompact_spec hinv.storeWF hk3 hc with hs | ⟨hlt, hwf, hf, hl, hsm, hent⟩
    · subst hs
      exact ⟨LogStep.refl hinv, rfl, rfl, rfl, Nat.le_refl _, Nat.le_max_left _ _⟩
    · have hpo := hinv.persisted_lt_off
      have hfp := hinv.storeWF.first_pos
      have hli : ({ l with store := st } : RaftLog).lastIndex = l.lastIndex := by
        unfold RaftLog.lastIndex
        show (match l.unstable.maybeLastIndex with | some i => i | none => st.lastIndex) = _
        rw [hl]; rfl
      have hli' : st.lastIndex = l.store.lastIndex := hl
      have hinv' : RaftLog.Inv { l with store := st } := by
        refine ⟨hwf, hinv.unstWF, ?_, ?_, ?_, ?_, ?_, hinv.persisted_lt_off, ?_⟩
        · intro hs; show st.firstIndex ≤ l.unstable.offset; omega
        · intro hs; show l.unstable.offset ≤ st.lastIndex + 1
          rw [hli']; exact hinv.off_le_last hs
        · intro hs he; show l.unstable.offset = st.lastIndex + 1
          rw [hli']; exact hinv.ents_empty hs he
        · cases hs : l.unstable.snapshot with
          | none =>
            rw [RaftLog.firstIndex_none (l := { l with store := st }) hs]
            show st.firstIndex ≤ l.committed + 1; omega
          | some sn =>
            have := hinv.dummy_le_committed
            rw [RaftLog.firstIndex_some hs] at this
            rw [RaftLog.firstIndex_some (l := { l with store := st }) hs]
            exact this
        · rw [hli]; exact hinv.committed_le_last
        · show l.persisted ≤ st.lastIndex; rw [hli']; exact hinv.persisted_le_store
      refine ⟨⟨hinv', Nat.le_refl _, ?_⟩, rfl, rfl, rfl, by show l.store.firstIndex ≤ st.firstIndex; omega,
        by show st.firstIndex ≤ _; rw [hf]; exact Nat.le_max_right _ _⟩
      intro i _
      cases hs : l.unstable.snapshot with
      | some sn =>
        left
        rw [RaftLog.abs_some hs, RaftLog.abs_some (l := { l with store := st }) hs]
      | none =>
        rcases Nat.lt_or_ge i k with hik | hik
        · right
          rw [RaftLog.abs_none (l := { l with store := st }) hs]
          show i ≤ st.firstIndex - 1
          omega
        · left
          rcases Nat.lt_or_ge i l.unstable.offset with hlo | hgo
          · rw [hinv.entryAt_store hs (by omega) hlo,
              hinv'.entryAt_store hs (by show st.firstIndex ≤ i; omega) hlo]
            show st.entries[i - st.firstIndex]? = _
            rw [hent, List.getElem?_drop, hf]
            congr 1; omega
          · rw [hinv.entryAt_unstable hgo, hinv'.entryAt_unstable hgo]
  | err e => simp only [hc] at h; cases h
  | panic s => simp only [hc] at h; cases h

/-- what the `RaftLog` operations of an environment step never do: touch the storage or the
applied index, lower the commit index, install a snapshot below the commit index -/
structure OpsFrame (l l' : RaftLog) : Prop where
  store : l'.store = l.store
  applied : l'.applied = l.applied
  comm : l.committed ≤ l'.committed
  snap : ∀ sn, l'.unstable.snapshot = some sn →
    l.unstable.snapshot = some sn ∨ l.committed ≤ sn.metadata.index

theorem OpsFrame.refl (l : RaftLog) : OpsFrame l l :=
  ⟨rfl, rfl, Nat.le_refl _, fun _ h => .inl h⟩

theorem OpsFrame.trans {a b c : RaftLog} (h1 : OpsFrame a b) (h2 : OpsFrame b c) : OpsFrame a c := by
  refine ⟨h2.store.trans h1.store, h2.applied.trans h1.applied, Nat.le_trans h1.comm h2.comm, ?_⟩
  intro sn hsn
  rcases h2.snap sn hsn with h | h
  · exact h1.snap sn h
  · right; have := h1.comm; omega

theorem truncateAndAppend_snapshot {u u' : Unstable} {ents : List Entry}
    (h : u.truncateAndAppend ents = .ok u') : u'.snapshot = u.snapshot := by
  unfold Unstable.truncateAndAppend at h
  cases ents with
  | nil => cases h
  | cons e0 es =>
    simp only [] at h
    by_cases h1 : e0.index = u.offset + u.entries.length
    · rw [if_pos h1] at h; injection h with h; subst h; rfl
    · rw [if_neg h1] at h
      by_cases h2 : e0.index ≤ u.offset
      · rw [if_pos h2] at h; injection h with h; subst h; rfl
      · rw [if_neg h2] at h
        cases hm : u.mustCheckOutOfBounds u.offset e0.index with
        | ok x =>
          rw [hm] at h
          simp only [] at h
          split at h
          · cases h
          · injection h with h; subst h; rfl
        | err e => rw [hm] at h; cases h
        | panic s => rw [hm] at h; cases h

theorem append_frame {l l' : RaftLog} {ents : List Entry} {x : Nat}
    (h : l.append ents = .ok (l', x)) : OpsFrame l l' ∧ l'.committed = l.committed := by
  unfold RaftLog.append at h
  cases ents with
  | nil =>
    injection h with h; injection h with h _; subst h
    exact ⟨OpsFrame.refl _, rfl⟩
  | cons e0 es =>
    simp only [] at h
    split at h
    · cases h
    · split at h
      · cases h
      · cases ht : l.unstable.truncateAndAppend (e0 :: es) with
        | ok u =>
          rw [ht] at h
          simp only [] at h
          injection h with h; injection h with h _; subst h
          have := truncateAndAppend_snapshot ht
          exact ⟨⟨rfl, rfl, Nat.le_refl _, fun sn hsn => .inl (by rw [← this]; exact hsn)⟩, rfl⟩
        | err e => rw [ht] at h; cases h
        | panic s => rw [ht] at h; cases h

theorem applyLogOp_frame {l l' : RaftLog} {op : LogOp} (h : applyLogOp l op = .ok l') :
    OpsFrame l l' := by
  cases op with
  | restore sn =>
    simp only [applyLogOp, RaftLog.restore] at h
    split at h
    · cases h
    · injection h with h; subst h
      refine ⟨rfl, rfl, by show l.committed ≤ sn.metadata.index; omega, ?_⟩
      intro sn' hsn'
      simp only [Unstable.restore, Option.some.injEq] at hsn'
      subst hsn'
      right; omega
  | tappend ents =>
    simp only [applyLogOp] at h
    cases ents with
    | nil => simp only [] at h; injection h with h; subst h; exact OpsFrame.refl _
    | cons e0 es =>
      simp only [] at h
      cases ha : l.append (e0 :: es) with
      | ok p =>
        obtain ⟨l1, x⟩ := p
        rw [ha] at h
        simp only [] at h
        injection h with h
        obtain ⟨f, _⟩ := append_frame ha
        subst h
        split
        · exact ⟨f.store, f.applied, f.comm, f.snap⟩
        · exact f
      | err e => rw [ha] at h; cases h
      | panic s => rw [ha] at h; cases h
  | commitTo i =>
    simp only [applyLogOp, RaftLog.commitTo] at h
    split at h
    · injection h with h; subst h; exact OpsFrame.refl _
    · split at h
      · cases h
      · injection h with h; subst h
        exact ⟨rfl, rfl, by show l.committed ≤ i; omega, fun _ hs => .inl hs⟩

theorem applyLogOps_frame {ops : List LogOp} : ∀ {l l' : RaftLog},
    applyLogOps l ops = .ok l' → OpsFrame l l' := by
  induction ops with
  | nil => intro l l' h; simp only [applyLogOps] at h; injection h with h; subst h; exact OpsFrame.refl _
  | cons op ops ih =>
    intro l l' h
    simp only [applyLogOps] at h
    cases h1 : applyLogOp l op with
    | ok l1 => rw [h1] at h; exact (applyLogOp_frame h1).trans (ih h)
    | err e => rw [h1] at h; cases h
    | panic s => rw [h1] at h; cases h

/-! ### the corrected contract, and the trace invariant -/

/-- the record `ready()` queues for a Ready numbered `num` computed from the log `l` -/
def recordOf (num : Nat) (l : RaftLog) : ReadyRecord :=
  { number := num,
    snapshot := l.unstable.snapshot.map (fun sn => (sn.metadata.index, sn.metadata.term)),
    lastEntry := l.unstable.entries.getLast?.map (fun e => (e.index, e.term)) }

/-- **What `Sys.step` / `EnvOk` leave out of the documented contract** (each clause is needed:
`C07_handout_exact_needs_write`, `C07_no_panic_needs_order` below are runs of the model, inside
`ContractTrace`, that violate the unproved `…_full_statement`s without it):

* `advance*` only after the storage write of the Ready (`Written`, raw_node.rs:708-714: "it's still
  required that the updates can be read by raft from the `Storage` trait before calling
  `advance_append_async`");
* `on_persist_ready(number)` only for a Ready that has been passed to `advance_append_async`
  already, i.e. not for the one still held;
* `compact(k)` inside the storage (`k ≤ last_index`; `MemStorage::compact(last_index + 1)` drains
  every entry and `first_index` falls back to the old snapshot point, storage.rs:294);
* `advance_apply_to(k)` does not go backwards (`applied ≤ k`, or `k = 0` which is ignored):
  `RaftLog::applied_to` is `fatal!` otherwise (raft_log.rs:322);
* raft effect: the auto-leave entry of `commit_apply` is numbered `last_index + 1`
  (`Raft::append_entry`), and `advance_apply*` does not append it while a Ready is held (if it
  did, the held Ready's record no longer matches the unstable tail and `commit_ready` hits
  `fatal!` in `Unstable::stable_entries`, log_unstable.rs:98 — see the report). -/
def AppOk (s : Sys) : Call → Prop
  | .advanceAppendAsync => Written s.n.log
  | .advanceAppend _ => Written s.n.log
  | .advance _ eff2 => Written s.n.log ∧ AppendedOk s.n.log eff2
  | .onPersistReady number _ => ∀ rd, s.pending = some rd → number < rd.number
  | .advanceApply eff => AppendedOk s.n.log eff ∧
      (s.pending ≠ none → (s.n.isLeader && !eff.appended.isEmpty) = false)
  | .advanceApplyTo k eff => (k = 0 ∨ s.n.log.applied ≤ k) ∧ AppendedOk s.n.log eff ∧
      (s.pending ≠ none → (s.n.isLeader && !eff.appended.isEmpty) = false)
  | .compact k => k ≤ s.n.log.store.lastIndex
  | _ => True

/-- `ContractTrace` with the application-side obligations `AppOk` on every call -/
inductive ContractTrace2 : Sys → List Call → Sys → Prop where
  | nil (s : Sys) : ContractTrace2 s [] s
  | cons {s s1 s2 : Sys} {c : Call} {cs : List Call} :
      EnvOk s c → AppOk s c → s.step c = some (.ok s1) → ContractTrace2 s1 cs s2 →
      ContractTrace2 s (c :: cs) s2

theorem ContractTrace2.toContractTrace {s s' : Sys} {cs : List Call} (h : ContractTrace2 s cs s') :
    ContractTrace s cs s' := by
  induction h with
  | nil s => exact .nil s
  | cons he _ hs _ ih => exact .cons he hs ih

/-- **The trace invariant.** -/
structure TraceInv (s : Sys) : Prop where
  inv : s.n.log.Inv
  applied_comm : s.n.log.applied ≤ s.n.log.committed
  applied_csi : s.n.log.applied ≤ s.n.commitSinceIndex
  csi_comm : s.n.commitSinceIndex ≤ s.n.log.committed
  first_csi : s.n.log.store.firstIndex ≤ s.n.commitSinceIndex + 1
  snap_csi : ∀ sn, s.n.log.unstable.snapshot = some sn →
    (s.pending = none → s.n.commitSinceIndex ≤ sn.metadata.index) ∧
    (s.pending ≠ none → sn.metadata.index = s.n.commitSinceIndex)
  recOk : RecOk s.n
  recSnap : ∀ r ∈ s.n.records, ∀ i t, r.snapshot = some (i, t) →
    i < s.n.log.store.firstIndex ∨
    (s.pending ≠ none ∧ r.number = s.n.maxNumber ∧
      ∃ sn, s.n.log.unstable.snapshot = some sn ∧ sn.metadata.index = i)
  pend : ∀ rd, s.pending = some rd → rd.number = s.n.maxNumber ∧
    rd.entries = s.n.log.unstable.entries ∧ rd.snapshot = s.n.log.unstable.snapshot ∧
    s.n.records.getLast? = some (recordOf rd.number s.n.log)
  contig : ContigFrom (s.start + 1) s.handed
  len : s.n.commitSinceIndex = s.start + s.handed.length
  handedOk : ∀ k e, s.handed[k]? = some e →
    s.n.log.abs.entryAt (s.start + 1 + k) = some e ∨ s.start + 1 + k ≤ s.n.log.abs.snapIdx

/-- a call that hands nothing out -/
theorem TraceInv.quiet {s s' : Sys} (h : TraceInv s) (hh : s'.handed = s.handed)
    (hs : s'.start = s.start) (hcsi : s'.n.commitSinceIndex = s.n.commitSinceIndex)
    (st : LogStep s.n.log s'.n.log)
    (ha1 : s'.n.log.applied ≤ s'.n.log.committed)
    (ha2 : s'.n.log.applied ≤ s'.n.commitSinceIndex)
    (hf : s'.n.log.store.firstIndex ≤ s'.n.commitSinceIndex + 1)
    (hsn : ∀ sn, s'.n.log.unstable.snapshot = some sn →
      (s'.pending = none → s'.n.commitSinceIndex ≤ sn.metadata.index) ∧
      (s'.pending ≠ none → sn.metadata.index = s'.n.commitSinceIndex))
    (hr : RecOk s'.n)
    (hrs : ∀ r ∈ s'.n.records, ∀ i t, r.snapshot = some (i, t) →
      i < s'.n.log.store.firstIndex ∨
      (s'.pending ≠ none ∧ r.number = s'.n.maxNumber ∧
        ∃ sn, s'.n.log.unstable.snapshot = some sn ∧ sn.metadata.index = i))
    (hp : ∀ rd, s'.pending = some rd → rd.number = s'.n.maxNumber ∧
      rd.entries = s'.n.log.unstable.entries ∧ rd.snapshot = s'.n.log.unstable.snapshot ∧
      s'.n.records.getLast? = some (recordOf rd.number s'.n.log)) : TraceInv s' := by
  have hc := h.csi_comm
  have hcm := st.comm
  refine ⟨st.inv, ha1, ha2, by omega, hf, hsn, hr, hrs, hp, ?_, ?_, ?_⟩
  · rw [hh, hs]; exact h.contig
  · rw [hh, hs, hcsi]; exact h.len
  · intro k e hk
    rw [hh] at hk
    rw [hs]
    have hlt : k < s.handed.length := (List.getElem?_eq_some_iff.1 hk).1
    have hl := h.len
    exact st.keeps (by omega) (h.handedOk k e hk)

theorem getLast?_dropWhile {α : Type} (p : α → Bool) {l : List α} {a : α}
    (h : l.getLast? = some a) (hp : p a = false) : (l.dropWhile p).getLast? = some a := by
  induction l with
  | nil => simp at h
  | cons x xs ih =>
    rw [List.dropWhile_cons]
    by_cases hx : p x = true
    · rw [if_pos hx]
      cases xs with
      | nil =>
        simp only [List.getLast?_singleton, Option.some.injEq] at h
        subst h; rw [hp] at hx; cases hx
      | cons y ys =>
        rw [List.getLast?_cons_cons] at h
        exact ih h
    · rw [if_neg hx]; exact h

/-! ### preservation, call by call -/

theorem inv_env {s : Sys} {e : EnvEffect} {n' : RawNodeM} (h : TraceInv s)
    (hp : s.pending = none) (hok : EnvOk s (.env e)) (he : s.n.env e = .ok n') :
    TraceInv { s with n := n' } := by
  obtain ⟨l, hl, hn⟩ := env_ok he
  obtain ⟨l', hl', hinv', happ', hcm', hpre', _, _⟩ := hok
  rw [hl] at hl'
  injection hl' with hl'
  subst hl'
  have fr := applyLogOps_frame hl
  subst hn
  have hinv2 : RaftLog.Inv { l with maxApplyUnpersistedLogLimit := e.limit } :=
    inv_cursors hinv' rfl rfl hinv'.dummy_le_committed hinv'.committed_le_last
      hinv'.persisted_lt_off hinv'.persisted_le_store
  refine h.quiet rfl rfl rfl ⟨hinv2, hcm', fun i hi => hpre' i hi⟩ happ' ?_ ?_ ?_
    (recOk_of_frame h.recOk ⟨rfl, rfl⟩) ?_ ?_
  · show l.applied ≤ s.n.commitSinceIndex
    rw [fr.applied]; exact h.applied_csi
  · show l.store.firstIndex ≤ _
    rw [fr.store]; exact h.first_csi
  · intro sn hsn
    refine ⟨fun _ => ?_, fun hne => absurd hp hne⟩
    rcases fr.snap sn hsn with h1 | h1
    · exact (h.snap_csi sn h1).1 hp
    · have := h.csi_comm
      show s.n.commitSinceIndex ≤ _
      omega
  · intro r hr i t hs
    rcases h.recSnap r hr i t hs with h1 | ⟨h1, _⟩
    · left; show i < l.store.firstIndex; rw [fr.store]; exact h1
    · exact absurd hp h1
  · intro rd hrd
    rw [hp] at hrd; cases hrd

theorem inv_write {s : Sys} {rd : Ready} {n' : RawNodeM} (h : TraceInv s)
    (hp : s.pending = some rd) (he : s.n.storageWrite rd = .ok n') :
    TraceInv { s with n := n' } ∧ Written n'.log := by
  obtain ⟨hnum, hre, hrs, hlast⟩ := h.pend rd hp
  obtain ⟨st1, st2, st3, h1, h2, e3, m3, he⟩ := storageWrite_parts he
  rw [hrs] at h1
  rw [hre] at h2
  obtain ⟨hinv', habs, hw, hfle, hfn, hfs⟩ := write_log h.inv h1 h2 e3 m3
  subst he
  refine ⟨?_, hw⟩
  have hne : s.pending ≠ none := by rw [hp]; exact fun hc => by cases hc
  refine h.quiet rfl rfl rfl ⟨hinv', Nat.le_refl _, fun i _ => .inl (by rw [habs])⟩
    h.applied_comm h.applied_csi ?_ h.snap_csi (recOk_of_frame h.recOk ⟨rfl, rfl⟩) ?_ ?_
  · cases hs : s.n.log.unstable.snapshot with
    | none =>
      have := hfn hs
      have := h.first_csi
      simp only [] at *
      omega
    | some sn =>
      have := hfs sn hs
      have := (h.snap_csi sn hs).2 hne
      simp only [] at *
      omega
  · intro r hr i t hs
    rcases h.recSnap r hr i t hs with h1 | h1
    · left; simp only [] at *; omega
    · exact .inr h1
  · intro rd' hrd'
    exact h.pend rd' hrd'

theorem inv_onPersistReady {s : Sys} {number : Nat} {eff : Effect} {n' : RawNodeM}
    (h : TraceInv s) (hc : eff.commit ≤ s.n.log.lastIndex)
    (ha : ∀ rd, s.pending = some rd → number < rd.number)
    (he : s.n.onPersistReady number eff = .ok n') :
    TraceInv { s with n := n' } ∧ CursorStep s.n.log n'.log := by
  obtain ⟨hrec, hmax, hcsi⟩ := onPersistReady_records he
  have hpops := C07_on_persist_ready_pops s.n n' number eff h.recOk he
  have hrs : ∀ r ∈ s.n.records, r.number ≤ number → ∀ i t, r.snapshot = some (i, t) →
      i < s.n.log.store.firstIndex := by
    intro r hr hle i t hs
    rcases h.recSnap r hr i t hs with h1 | ⟨h1, h2, _⟩
    · exact h1
    · exfalso
      cases hp : s.pending with
      | none => exact h1 hp
      | some rd =>
        have := ha rd hp
        have := (h.pend rd hp).1
        omega
  have cs := onPersistReady_log h.inv hrs hc he
  have hcm := cs.comm
  have hac := h.applied_comm
  refine ⟨?_, cs⟩
  refine h.quiet rfl rfl hcsi cs.logStep ?_ ?_ ?_ ?_ hpops.1 ?_ ?_
  · show n'.log.applied ≤ n'.log.committed
    rw [cs.applied]; omega
  · show n'.log.applied ≤ n'.commitSinceIndex
    rw [cs.applied, hcsi]; exact h.applied_csi
  · show n'.log.store.firstIndex ≤ n'.commitSinceIndex + 1
    rw [cs.store, hcsi]; exact h.first_csi
  · intro sn hsn
    have hsn' : s.n.log.unstable.snapshot = some sn := by rw [← cs.unst]; exact hsn
    show (s.pending = none → n'.commitSinceIndex ≤ _) ∧ (s.pending ≠ none → _ = n'.commitSinceIndex)
    rw [hcsi]; exact h.snap_csi sn hsn'
  · intro r hr i t hs
    have hr' := ((hpops.2.1 r).1 hr).1
    show i < n'.log.store.firstIndex ∨ (s.pending ≠ none ∧ r.number = n'.maxNumber ∧
      ∃ sn, n'.log.unstable.snapshot = some sn ∧ _)
    rw [cs.store, cs.unst, hmax]
    exact h.recSnap r hr' i t hs
  · intro rd hrd
    obtain ⟨p1, p2, p3, p4⟩ := h.pend rd hrd
    show rd.number = n'.maxNumber ∧ rd.entries = n'.log.unstable.entries ∧
      rd.snapshot = n'.log.unstable.snapshot ∧ n'.records.getLast? = some (recordOf rd.number n'.log)
    rw [cs.unst, hmax, hrec]
    refine ⟨p1, p2, p3, ?_⟩
    have : recordOf rd.number n'.log = recordOf rd.number s.n.log := by
      unfold recordOf; rw [cs.unst]
    rw [this]
    apply getLast?_dropWhile _ p4
    have := ha rd hrd
    show decide ((recordOf rd.number s.n.log).number ≤ number) = false
    exact decide_eq_false (by show ¬ rd.number ≤ number; omega)

theorem inv_commitApply {s : Sys} {a : Nat} {eff : Effect} {n' : RawNodeM} (h : TraceInv s)
    (hle : a ≤ s.n.commitSinceIndex) (hap : AppendedOk s.n.log eff)
    (hpe : s.pending ≠ none → (s.n.isLeader && !eff.appended.isEmpty) = false)
    (he : s.n.commitApply a eff = .ok n') : TraceInv { s with n := n' } := by
  obtain ⟨l2, hn⟩ := commitApply_ok he
  obtain ⟨st, hst, hcm, hsn, happ, hun⟩ := commitApply_log h.inv hap he
  subst hn
  simp only [] at st hst hcm hsn happ hun
  have hac := h.applied_comm
  have hacs := h.applied_csi
  refine h.quiet rfl rfl rfl st ?_ ?_ ?_ ?_ (recOk_of_frame h.recOk ⟨rfl, rfl⟩) ?_ ?_
  · show l2.applied ≤ l2.committed
    rcases happ with h1 | ⟨h1, h2⟩ <;> omega
  · show l2.applied ≤ s.n.commitSinceIndex
    rcases happ with h1 | ⟨h1, h2⟩ <;> omega
  · show l2.store.firstIndex ≤ _
    rw [hst]; exact h.first_csi
  · intro sn hs
    exact h.snap_csi sn (by rw [← hsn]; exact hs)
  · intro r hr i t hs
    show i < l2.store.firstIndex ∨ (s.pending ≠ none ∧ r.number = s.n.maxNumber ∧
      ∃ sn, l2.unstable.snapshot = some sn ∧ _)
    rw [hst, hsn]
    exact h.recSnap r hr i t hs
  · intro rd hrd
    have hne : s.pending ≠ none := by rw [hrd]; exact fun hc => by cases hc
    have hu := hun (hpe hne)
    obtain ⟨p1, p2, p3, p4⟩ := h.pend rd hrd
    show rd.number = s.n.maxNumber ∧ rd.entries = l2.unstable.entries ∧
      rd.snapshot = l2.unstable.snapshot ∧ s.n.records.getLast? = some (recordOf rd.number l2)
    have : recordOf rd.number l2 = recordOf rd.number s.n.log := by
      unfold recordOf; rw [hu]
    rw [this, hu]
    exact ⟨p1, p2, p3, p4⟩

theorem inv_compact {s : Sys} {k : Nat} {l' : RaftLog} (h : TraceInv s)
    (hok : EnvOk s (.compact k)) (ha : k ≤ s.n.log.store.lastIndex)
    (he : s.n.log.compactStore k = .ok l') : TraceInv { s with n := { s.n with log := l' } } := by
  obtain ⟨hk1, hk2⟩ := hok
  obtain ⟨st, hu, hcm, hap, hf1, hf2⟩ := compact_log h.inv h.applied_comm hk1 hk2 ha he
  have hac := h.applied_comm
  have hacs := h.applied_csi
  have hfc := h.first_csi
  refine h.quiet rfl rfl rfl st ?_ ?_ ?_ ?_ (recOk_of_frame h.recOk ⟨rfl, rfl⟩) ?_ ?_
  · show l'.applied ≤ l'.committed; omega
  · show l'.applied ≤ s.n.commitSinceIndex; omega
  · show l'.store.firstIndex ≤ s.n.commitSinceIndex + 1; omega
  · intro sn hs
    exact h.snap_csi sn (by rw [← hu]; exact hs)
  · intro r hr i t hs
    show i < l'.store.firstIndex ∨ (s.pending ≠ none ∧ r.number = s.n.maxNumber ∧
      ∃ sn, l'.unstable.snapshot = some sn ∧ _)
    rw [hu]
    rcases h.recSnap r hr i t hs with h1 | h1
    · left; omega
    · exact .inr h1
  · intro rd hrd
    obtain ⟨p1, p2, p3, p4⟩ := h.pend rd hrd
    show rd.number = s.n.maxNumber ∧ rd.entries = l'.unstable.entries ∧
      rd.snapshot = l'.unstable.snapshot ∧ s.n.records.getLast? = some (recordOf rd.number l')
    have : recordOf rd.number l' = recordOf rd.number s.n.log := by
      unfold recordOf; rw [hu]
    rw [this, hu]
    exact ⟨p1, p2, p3, p4⟩

/-- a node that differs outside the fields the invariant talks about -/
theorem TraceInv.congr_node {s : Sys} {n' : RawNodeM} (h : TraceInv s) (hl : n'.log = s.n.log)
    (hc : n'.commitSinceIndex = s.n.commitSinceIndex) (hr : n'.records = s.n.records)
    (hm : n'.maxNumber = s.n.maxNumber) : TraceInv { s with n := n' } := by
  refine h.quiet rfl rfl hc (by rw [hl]; exact LogStep.refl h.inv) ?_ ?_ ?_ ?_
    (recOk_of_frame h.recOk ⟨hr, hm⟩) ?_ ?_
  · show n'.log.applied ≤ n'.log.committed; rw [hl]; exact h.applied_comm
  · show n'.log.applied ≤ n'.commitSinceIndex; rw [hl, hc]; exact h.applied_csi
  · show n'.log.store.firstIndex ≤ n'.commitSinceIndex + 1; rw [hl, hc]; exact h.first_csi
  · show ∀ sn, n'.log.unstable.snapshot = some sn →
      (s.pending = none → n'.commitSinceIndex ≤ _) ∧ (s.pending ≠ none → _ = n'.commitSinceIndex)
    rw [hl, hc]; exact h.snap_csi
  · show ∀ r ∈ n'.records, ∀ i t, r.snapshot = some (i, t) → i < n'.log.store.firstIndex ∨
      (s.pending ≠ none ∧ r.number = n'.maxNumber ∧ ∃ sn, n'.log.unstable.snapshot = some sn ∧ _)
    rw [hl, hr, hm]; exact h.recSnap
  · show ∀ rd, s.pending = some rd → rd.number = n'.maxNumber ∧
      rd.entries = n'.log.unstable.entries ∧ rd.snapshot = n'.log.unstable.snapshot ∧
      n'.records.getLast? = some (recordOf rd.number n'.log)
    rw [hl, hr, hm]; exact h.pend

/-- `commit_ready` (= `advance_append_async`) of the held, written Ready -/
theorem inv_commitReady {s : Sys} {rd : Ready} {n1 : RawNodeM} (h : TraceInv s)
    (hp : s.pending = some rd) (hw : Written s.n.log) (he : s.n.commitReady rd = .ok n1) :
    TraceInv { s with n := n1, pending := none } ∧ n1.log.unstable.snapshot = none ∧
    n1.log.lastIndex = s.n.log.lastIndex ∧ n1.commitSinceIndex = s.n.commitSinceIndex ∧
    n1.maxNumber = s.n.maxNumber := by
  obtain ⟨hnum, hre, hrs, hlast⟩ := h.pend rd hp
  obtain ⟨l2, hc, he2, hz2, hs2, hst2, hcm2, hp2, ha2, _, ho2⟩ :=
    commitReady_spec2 s.n rd (recordOf rd.number s.n.log) h.inv hlast rfl rfl rfl
  rw [he] at hc
  injection hc with hc
  obtain ⟨hinv2, hsi, hea, hfi, hli, hF⟩ := stable_log h.inv hw he2 hz2 hs2 hst2 hcm2 hp2 ho2
  subst hc
  refine ⟨?_, hs2, hli, rfl, rfl⟩
  refine h.quiet rfl rfl rfl ⟨hinv2, by show s.n.log.committed ≤ l2.committed; omega,
    fun i _ => .inl (hea i)⟩ ?_ ?_ ?_ ?_ (recOk_of_frame h.recOk ⟨rfl, rfl⟩) ?_ ?_
  · show l2.applied ≤ l2.committed; rw [ha2, hcm2]; exact h.applied_comm
  · show l2.applied ≤ s.n.commitSinceIndex; rw [ha2]; exact h.applied_csi
  · show l2.store.firstIndex ≤ _; rw [hst2]; exact h.first_csi
  · intro sn hsn
    have : l2.unstable.snapshot = some sn := hsn
    rw [hs2] at this; cases this
  · intro r hr i t hs
    left
    show i < l2.store.firstIndex
    rw [hst2]
    rcases h.recSnap r hr i t hs with h1 | ⟨_, _, sn, hsn, hi⟩
    · exact h1
    · have := (hw.snap sn hsn).1; omega
  · intro rd' hrd'
    cases hrd'

theorem handed_append {l : RaftLog} {start csi : Nat} {handed ces : List Entry}
    (hc : ContigFrom (start + 1) handed) (hl : csi = start + handed.length)
    (ho : ∀ k e, handed[k]? = some e →
      l.abs.entryAt (start + 1 + k) = some e ∨ start + 1 + k ≤ l.abs.snapIdx)
    (hc2 : ContigFrom (csi + 1) ces)
    (hm : ∀ k e, ces[k]? = some e → l.abs.entryAt (csi + 1 + k) = some e) :
    ContigFrom (start + 1) (handed ++ ces) ∧
    csi + ces.length = start + (handed ++ ces).length ∧
    ∀ k e, (handed ++ ces)[k]? = some e →
      l.abs.entryAt (start + 1 + k) = some e ∨ start + 1 + k ≤ l.abs.snapIdx := by
  refine ⟨hc.append (by rw [show start + 1 + handed.length = csi + 1 by omega]; exact hc2),
    by rw [List.length_append]; omega, ?_⟩
  intro k e hk
  rcases Nat.lt_or_ge k handed.length with hlt | hge
  · rw [List.getElem?_append_left hlt] at hk; exact ho k e hk
  · rw [List.getElem?_append_right hge] at hk
    left
    have := hm _ e hk
    rw [show csi + 1 + (k - handed.length) = start + 1 + k by omega] at this
    exact this

/-- one hand-out outside `ready()` (the `gen_light_ready` of `advance_append`) -/
theorem inv_genLightReady {s : Sys} {n3 : RawNodeM} {l3 : LightReady} (h : TraceInv s)
    (hp : s.pending = none) (hsn : s.n.log.unstable.snapshot = none)
    (he : s.n.genLightReady = .ok (n3, l3)) :
    TraceInv { s with n := n3, handed := s.handed ++ l3.committedEntries } ∧
    s.n.commitSinceIndex ≤ n3.commitSinceIndex ∧ n3.log = s.n.log := by
  obtain ⟨o, _, _, hn3, _⟩ := genLightReady_ok he
  have hfirst : s.n.log.firstIndex ≤ s.n.commitSinceIndex + 1 := by
    rw [RaftLog.firstIndex_none hsn]; exact h.first_csi
  obtain ⟨hc, hm, hlen, hb, _⟩ := C07_handout_step s.n n3 l3 h.inv hfirst he
  have hlog : n3.log = s.n.log := by rw [hn3]
  have hrec : n3.records = s.n.records := by rw [hn3]
  have hmax : n3.maxNumber = s.n.maxNumber := by rw [hn3]
  obtain ⟨a1, a2, a3⟩ := handed_append h.contig h.len h.handedOk hc hm
  have hcc := h.csi_comm
  have hacs := h.applied_csi
  have hfc := h.first_csi
  refine ⟨⟨?_, ?_, ?_, ?_, ?_, ?_, recOk_of_frame h.recOk ⟨hrec, hmax⟩, ?_, ?_, a1, ?_, ?_⟩,
    by omega, hlog⟩
  · show n3.log.Inv; rw [hlog]; exact h.inv
  · show n3.log.applied ≤ n3.log.committed; rw [hlog]; exact h.applied_comm
  · show n3.log.applied ≤ n3.commitSinceIndex; rw [hlog]; omega
  · show n3.commitSinceIndex ≤ n3.log.committed
    rw [hlog]
    by_cases hne : l3.committedEntries = []
    · rw [hne] at hlen; simp at hlen; omega
    · exact (hb hne).1
  · show n3.log.store.firstIndex ≤ n3.commitSinceIndex + 1; rw [hlog]; omega
  · intro sn hs
    have : n3.log.unstable.snapshot = some sn := hs
    rw [hlog, hsn] at this; cases this
  · show ∀ r ∈ n3.records, ∀ i t, r.snapshot = some (i, t) → i < n3.log.store.firstIndex ∨
      (s.pending ≠ none ∧ r.number = n3.maxNumber ∧ ∃ sn, n3.log.unstable.snapshot = some sn ∧ _)
    rw [hlog, hrec, hmax]; exact h.recSnap
  · intro rd hrd
    have : s.pending = some rd := hrd
    rw [hp] at this; cases this
  · show n3.commitSinceIndex = s.start + (s.handed ++ l3.committedEntries).length
    omega
  · show ∀ k e, (s.handed ++ l3.committedEntries)[k]? = some e →
      n3.log.abs.entryAt (s.start + 1 + k) = some e ∨ s.start + 1 + k ≤ n3.log.abs.snapIdx
    rw [hlog]; exact a3

/-- `advance_append` of the held, written Ready -/
theorem inv_advanceAppend {s : Sys} {rd : Ready} {eff : Effect} {n' : RawNodeM} {l : LightReady}
    (h : TraceInv s) (hp : s.pending = some rd) (hw : Written s.n.log)
    (hc : eff.commit ≤ s.n.log.lastIndex) (he : s.n.advanceAppend rd eff = .ok (n', l)) :
    TraceInv { s with n := n', pending := none, handed := s.handed ++ l.committedEntries } ∧
    n'.log.lastIndex = s.n.log.lastIndex ∧ s.n.commitSinceIndex ≤ n'.commitSinceIndex := by
  obtain ⟨n1, n2, n3, l3, h1, h2, h3, hl, hn'⟩ := advanceAppend_ok he
  obtain ⟨t1, hs1, hli1, hcsi1, _⟩ := inv_commitReady h hp hw h1
  obtain ⟨t2, cs2⟩ := inv_onPersistReady (s := { s with n := n1, pending := none }) t1
    (by show eff.commit ≤ n1.log.lastIndex; rw [hli1]; exact hc)
    (fun rd' hrd' => by cases hrd') h2
  have hs2 : n2.log.unstable.snapshot = none := by rw [cs2.unst]; exact hs1
  obtain ⟨t3, hcsi3, hlog3⟩ := inv_genLightReady (s := { s with n := n2, pending := none }) t2 rfl
    hs2 h3
  have hcsi2 : n2.commitSinceIndex = n1.commitSinceIndex := (onPersistReady_records h2).2.2
  have hli : n3.log.lastIndex = s.n.log.lastIndex := by
    rw [hlog3]; show n2.log.lastIndex = _; rw [cs2.lastIndex]; exact hli1
  rw [hl]
  rcases hn' with hn' | hn'
  · subst hn'
    exact ⟨t3, hli, by simp only [] at hcsi3; omega⟩
  · subst hn'
    refine ⟨t3.congr_node rfl rfl rfl rfl, hli, by simp only [] at hcsi3; show _ ≤ n3.commitSinceIndex; omega⟩

/-- `ready()` -/
theorem inv_ready {s : Sys} {n' : RawNodeM} {rd : Ready} (h : TraceInv s) (hp : s.pending = none)
    (he : s.n.ready = .ok (n', rd)) : TraceInv (s.afterReady n' rd) := by
  obtain ⟨hlog, _, _, _, _, _, _, hmax, hnum, hlast, _, _, _⟩ := ready_state he
  obtain ⟨hrec', _, _, recs, hrecs, hrc⟩ := C07_records_ordered_ready s.n n' rd h.recOk he
  have hre : rd.entries = s.n.log.unstable.entries ∧ rd.snapshot = s.n.log.unstable.snapshot := by
    obtain ⟨_, _, _, light, _, _, _, _, hrd⟩ := ready_ok he
    subst hrd; exact ⟨rfl, rfl⟩
  obtain ⟨hre1, hre2⟩ := hre
  have hrsnap : ∀ r ∈ n'.records, ∀ i t, r.snapshot = some (i, t) →
      i < n'.log.store.firstIndex ∨ ((some rd : Option Ready) ≠ none ∧ r.number = n'.maxNumber ∧
        ∃ sn, n'.log.unstable.snapshot = some sn ∧ sn.metadata.index = i) := by
    intro r hr i t hs
    rw [hrecs] at hr
    rw [hlog]
    rcases List.mem_append.1 hr with hr | hr
    · rcases hrc with hrc | hrc
      · rw [hrc] at hr
        rcases h.recSnap r hr i t hs with h1 | ⟨h1, _⟩
        · exact .inl h1
        · exact absurd hp h1
      · rw [hrc] at hr; cases hr
    · simp only [List.mem_singleton] at hr
      subst hr
      right
      refine ⟨(fun hc => by cases hc), by rw [hmax]; rfl, ?_⟩
      simp only [readyRecord, Option.map_eq_some_iff] at hs
      obtain ⟨sn, hsn, hq⟩ := hs
      injection hq with hq1 _
      exact ⟨sn, hsn, hq1⟩
  have hpend : ∀ rd', (some rd : Option Ready) = some rd' → rd'.number = n'.maxNumber ∧
      rd'.entries = n'.log.unstable.entries ∧ rd'.snapshot = n'.log.unstable.snapshot ∧
      n'.records.getLast? = some (recordOf rd'.number n'.log) := by
    intro rd' hrd'
    injection hrd' with hrd'
    subst hrd'
    rw [hlog, hmax, hnum]
    exact ⟨rfl, hre1, hre2, hlast⟩
  have hinv : n'.log.Inv := by rw [hlog]; exact h.inv
  have hac : n'.log.applied ≤ n'.log.committed := by rw [hlog]; exact h.applied_comm
  have hacs := h.applied_csi
  have hfc := h.first_csi
  have hcc := h.csi_comm
  cases hs : s.n.log.unstable.snapshot with
  | some sn =>
    have hrs : rd.snapshot = some sn := by rw [hre2, hs]
    obtain ⟨hces, hcsi, hle⟩ := C07_snapshot_ready_no_entries s.n n' rd sn he hrs
    have hdc := h.inv.dummy_le_committed
    rw [RaftLog.firstIndex_some hs] at hdc
    have hhanded : (s.afterReady n' rd).handed = [] := by
      simp only [Sys.afterReady, hrs, hces, Option.isSome_some, if_true, List.append_nil]
    have hstart : (s.afterReady n' rd).start = sn.metadata.index := by
      simp only [Sys.afterReady, hrs]
    refine ⟨hinv, hac, ?_, ?_, ?_, ?_, hrec', hrsnap, hpend, ?_, ?_, ?_⟩
    · show n'.log.applied ≤ n'.commitSinceIndex; rw [hlog]; omega
    · show n'.commitSinceIndex ≤ n'.log.committed; rw [hlog]; omega
    · show n'.log.store.firstIndex ≤ n'.commitSinceIndex + 1; rw [hlog]; omega
    · intro sn' hsn'
      have : n'.log.unstable.snapshot = some sn' := hsn'
      rw [hlog, hs] at this
      injection this with this
      subst this
      refine ⟨(fun hc => by cases hc), fun _ => ?_⟩
      show sn.metadata.index = n'.commitSinceIndex
      omega
    · rw [hhanded]; intro k e hk; simp at hk
    · rw [hhanded, hstart]; show n'.commitSinceIndex = _; simp only [List.length_nil]; omega
    · rw [hhanded]; intro k e hk; simp at hk
  | none =>
    have hrs : rd.snapshot = none := by rw [hre2, hs]
    have hfirst : s.n.log.firstIndex ≤ s.n.commitSinceIndex + 1 := by
      rw [RaftLog.firstIndex_none hs]; exact hfc
    obtain ⟨hc, hlen, hb, hm⟩ := C07_handout_persisted s.n n' rd h.inv hfirst hs he
    have hhanded : (s.afterReady n' rd).handed = s.handed ++ rd.committedEntries := by
      simp only [Sys.afterReady, hrs, Option.isSome_none, Bool.false_eq_true, if_false]
    have hstart : (s.afterReady n' rd).start = s.start := by
      simp only [Sys.afterReady, hrs]
    obtain ⟨a1, a2, a3⟩ := handed_append h.contig h.len h.handedOk hc hm
    refine ⟨hinv, hac, ?_, ?_, ?_, ?_, hrec', hrsnap, hpend, ?_, ?_, ?_⟩
    · show n'.log.applied ≤ n'.commitSinceIndex; rw [hlog]; omega
    · show n'.commitSinceIndex ≤ n'.log.committed
      rw [hlog]
      by_cases hne : rd.committedEntries.length = 0
      · omega
      · have hlt : rd.committedEntries.length - 1 < rd.committedEntries.length := by omega
        have hget := List.getElem?_eq_some_iff.2
          ⟨hlt, (rfl : rd.committedEntries[rd.committedEntries.length - 1] = _)⟩
        have h1 := hc _ _ hget
        have h2 := (hb _ (List.getElem_mem hlt)).1
        omega
    · show n'.log.store.firstIndex ≤ n'.commitSinceIndex + 1; rw [hlog]; omega
    · intro sn' hsn'
      have : n'.log.unstable.snapshot = some sn' := hsn'
      rw [hlog, hs] at this; cases this
    · rw [hhanded, hstart]; exact a1
    · rw [hhanded, hstart]; show n'.commitSinceIndex = _; omega
    · rw [hhanded, hstart]; show ∀ k e, _ → n'.log.abs.entryAt _ = _ ∨ _ ≤ n'.log.abs.snapIdx
      rw [hlog]; exact a3

/-! ### a fresh node -/

theorem new_spec {st : MemStorage} {limit applied maxc : Nat} {n : RawNodeM} (hwf : st.WF)
    (h : RawNodeM.new st limit applied maxc = .ok n) :
    n.log.Inv ∧ n.log.store = st ∧ n.log.unstable.snapshot = none ∧
    n.commitSinceIndex = applied ∧ n.records = [] ∧ n.maxNumber = 0 ∧
    (n.log.applied = applied ∨ (applied = 0 ∧ n.log.applied = st.firstIndex - 1)) := by
  obtain ⟨l, hl, hinv, _, hst⟩ := RaftLog.Inv.new hwf limit
  have hl2 : l.applied = st.firstIndex - 1 ∧ l.unstable.snapshot = none := by
    unfold RaftLog.new at hl
    split at hl
    · cases hl
    · injection hl with hl; subst hl; exact ⟨rfl, rfl⟩
  obtain ⟨hr, hm⟩ := new_records h
  -- the log after `load_state`
  have key : ∀ lc : RaftLog, lc.Inv → lc.store = st → lc.unstable.snapshot = none →
      lc.applied = st.firstIndex - 1 → ∀ term vote,
      Res.ok ({ log := { (if 0 < applied then { lc with applied := applied } else lc) with
                    maxApplyUnpersistedLogLimit := 0 },
                term := term, vote := vote, leaderId := 0, role := ROLE_FOLLOWER,
                maxCommittedSizePerReady := maxc,
                prevSs := { leaderId := 0, role := ROLE_FOLLOWER },
                prevHs := { term := term, vote := vote,
                            commit := ({ (if 0 < applied then { lc with applied := applied } else lc) with
                              maxApplyUnpersistedLogLimit := 0 } : RaftLog).committed },
                commitSinceIndex := applied } : RawNodeM) = Res.ok n →
      n.log.Inv ∧ n.log.store = st ∧ n.log.unstable.snapshot = none ∧
      n.commitSinceIndex = applied ∧
      (n.log.applied = applied ∨ (applied = 0 ∧ n.log.applied = st.firstIndex - 1)) := by
    intro lc hi hs hsn hap term vote hn
    by_cases h0 : 0 < applied
    · simp only [h0, if_true] at hn
      injection hn with hn
      subst hn
      exact ⟨inv_cursors hi rfl rfl hi.dummy_le_committed hi.committed_le_last
        hi.persisted_lt_off hi.persisted_le_store, hs, hsn, rfl, .inl rfl⟩
    · simp only [h0, if_false] at hn
      injection hn with hn
      subst hn
      exact ⟨inv_cursors hi rfl rfl hi.dummy_le_committed hi.committed_le_last
        hi.persisted_lt_off hi.persisted_le_store, hs, hsn, rfl, .inr ⟨by omega, hap⟩⟩
  unfold RawNodeM.new at h
  rw [hl] at h
  simp only [] at h
  by_cases hhs : st.hardState ≠ {}
  · rw [if_pos hhs] at h
    by_cases hrange : st.hardState.commit < l.committed ∨ l.lastIndex < st.hardState.commit
    · rw [if_pos hrange] at h; cases h
    · rw [if_neg hrange] at h
      have hdc := hinv.dummy_le_committed
      obtain ⟨a, b, c, d, e⟩ := key { l with committed := st.hardState.commit }
        (inv_cursors hinv rfl rfl (by show _ ≤ st.hardState.commit + 1; omega)
          (by show st.hardState.commit ≤ _; omega) hinv.persisted_lt_off hinv.persisted_le_store)
        hst hl2.2 hl2.1 _ _ h
      exact ⟨a, b, c, d, hr, hm, e⟩
  · rw [if_neg hhs] at h
    obtain ⟨a, b, c, d, e⟩ := key l hinv hst hl2.2 hl2.1 _ _ h
    exact ⟨a, b, c, d, hr, hm, e⟩

theorem init_inv {s : Sys} (h : Init s) : TraceInv s := by
  obtain ⟨st, limit, applied, maxc, n, hwf, hn, hfa, hac, hs⟩ := h
  subst hs
  obtain ⟨hinv, hst, hsn, hcsi, hrec, hmax, happ⟩ := new_spec hwf hn
  have hfp := hwf.first_pos
  refine ⟨hinv, ?_, ?_, ?_, ?_, ?_, init_recOk ⟨st, limit, applied, maxc, n, hwf, hn, hfa, hac, rfl⟩,
    ?_, ?_, ?_, ?_, ?_⟩
  · show n.log.applied ≤ n.log.committed
    rcases happ with h1 | ⟨h1, h2⟩ <;> omega
  · show n.log.applied ≤ n.commitSinceIndex
    rcases happ with h1 | ⟨h1, h2⟩ <;> omega
  · show n.commitSinceIndex ≤ n.log.committed; omega
  · show n.log.store.firstIndex ≤ n.commitSinceIndex + 1; rw [hst]; omega
  · intro sn hs
    have : n.log.unstable.snapshot = some sn := hs
    rw [hsn] at this; cases this
  · intro r hr
    have : r ∈ n.records := hr
    rw [hrec] at this; cases this
  · intro rd hrd; cases hrd
  · intro k e hk; simp at hk
  · show n.commitSinceIndex = applied + 0; omega
  · intro k e hk; simp at hk

/-! ### every call keeps the invariant -/

theorem step_inv {s s' : Sys} {c : Call} (hinv : TraceInv s) (hok : EnvOk s c) (hap : AppOk s c)
    (h : s.step c = some (.ok s')) : TraceInv s' := by
  cases c with
  | env e =>
    simp only [Sys.step] at h
    split at h
    · rename_i hp
      injection h with h
      cases he : s.n.env e with
      | ok n =>
        simp only [he] at h; injection h with h; subst h
        exact inv_env hinv hp hok he
      | err e => simp only [he] at h; cases h
      | panic p => simp only [he] at h; cases h
    · cases h
  | ready =>
    simp only [Sys.step] at h
    split at h
    · rename_i hp
      injection h with h
      cases he : s.n.ready with
      | ok p =>
        obtain ⟨n, rd⟩ := p
        simp only [he] at h; injection h with h; subst h
        exact inv_ready hinv hp he
      | err e => simp only [he] at h; cases h
      | panic p => simp only [he] at h; cases h
    · cases h
  | write =>
    simp only [Sys.step] at h
    split at h
    · rename_i rd hp
      injection h with h
      cases he : s.n.storageWrite rd with
      | ok n =>
        simp only [he] at h; injection h with h; subst h
        exact (inv_write hinv hp he).1
      | err e => simp only [he] at h; cases h
      | panic p => simp only [he] at h; cases h
    · cases h
  | advanceAppendAsync =>
    simp only [Sys.step] at h
    split at h
    · rename_i rd hp
      injection h with h
      cases he : s.n.advanceAppendAsync rd with
      | ok n =>
        simp only [he] at h; injection h with h; subst h
        exact (inv_commitReady hinv hp hap he).1
      | err e => simp only [he] at h; cases h
      | panic p => simp only [he] at h; cases h
    · cases h
  | advanceAppend eff =>
    simp only [Sys.step] at h
    split at h
    · rename_i rd hp
      injection h with h
      cases he : s.n.advanceAppend rd eff with
      | ok p =>
        obtain ⟨n, l⟩ := p
        simp only [he] at h; injection h with h; subst h
        exact (inv_advanceAppend hinv hp hap hok he).1
      | err e => simp only [he] at h; cases h
      | panic p => simp only [he] at h; cases h
    · cases h
  | advance eff1 eff2 =>
    simp only [Sys.step] at h
    split at h
    · rename_i rd hp
      injection h with h
      cases he : s.n.advance rd eff1 eff2 with
      | ok p =>
        obtain ⟨n, l⟩ := p
        simp only [he] at h; injection h with h; subst h
        obtain ⟨n1, h1, h2⟩ := advance_ok he
        obtain ⟨t1, hli, hcsi⟩ := inv_advanceAppend hinv hp hap.1 hok h1
        have hap2 : AppendedOk n1.log eff2 := by
          intro e0 es hes
          rw [hli]; exact hap.2 e0 es hes
        exact inv_commitApply t1 hcsi hap2 (fun hne => absurd rfl hne) h2
      | err e => simp only [he] at h; cases h
      | panic p => simp only [he] at h; cases h
    · cases h
  | onPersistReady number eff =>
    simp only [Sys.step] at h
    split at h
    · injection h with h
      cases he : s.n.onPersistReady number eff with
      | ok n =>
        simp only [he] at h; injection h with h; subst h
        exact (inv_onPersistReady hinv hok hap he).1
      | err e => simp only [he] at h; cases h
      | panic p => simp only [he] at h; cases h
    · cases h
  | advanceApply eff =>
    simp only [Sys.step] at h
    injection h with h
    cases he : s.n.advanceApply eff with
    | ok n =>
      simp only [he] at h; injection h with h; subst h
      exact inv_commitApply hinv (Nat.le_refl _) hap.1 hap.2 he
    | err e => simp only [he] at h; cases h
    | panic p => simp only [he] at h; cases h
  | advanceApplyTo k eff =>
    simp only [Sys.step] at h
    split at h
    · rename_i hk
      injection h with h
      cases he : s.n.advanceApplyTo k eff with
      | ok n =>
        simp only [he] at h; injection h with h; subst h
        exact inv_commitApply hinv hk hap.2.1 hap.2.2 he
      | err e => simp only [he] at h; cases h
      | panic p => simp only [he] at h; cases h
    · cases h
  | compact k =>
    simp only [Sys.step] at h
    injection h with h
    cases he : s.n.log.compactStore k with
    | ok l =>
      simp only [he] at h; injection h with h; subst h
      exact inv_compact hinv hok hap he
    | err e => simp only [he] at h; cases h
    | panic p => simp only [he] at h; cases h

theorem trace_inv {s0 s : Sys} {calls : List Call} (h0 : TraceInv s0)
    (ht : ContractTrace2 s0 calls s) : TraceInv s := by
  induction ht with
  | nil s => exact h0
  | cons he ha hs _ ih => exact ih (step_inv h0 he ha hs)

/-- **handout_exact**, trace level, for an application that follows the whole documented contract
(`ContractTrace2` = `ContractTrace` + `AppOk`): over the lifetime of a node, the entries handed
out since the start / the last snapshot Ready are consecutively numbered from `start + 1`, end at
`commit_since_index`, never run past the commit index, and each is the entry of the logical log
at its index (or has been compacted away since) — no entry is handed out twice, skipped or
altered.  The statement without `AppOk` (`C07_handout_exact_full_statement`) is false on the
model, see `C07_handout_exact_needs_write`. -/
theorem C07_handout_exact :
    ∀ s0 calls s, Init s0 → ContractTrace2 s0 calls s →
      ContigFrom (s.start + 1) s.handed ∧
      s.n.commitSinceIndex = s.start + s.handed.length ∧
      s.n.commitSinceIndex ≤ s.n.log.committed ∧
      ∀ k e, s.handed[k]? = some e →
        s.n.log.abs.entryAt (s.start + 1 + k) = some e ∨
          s.start + 1 + k ≤ s.n.log.abs.snapIdx := by
  intro s0 calls s hi ht
  have t := trace_inv (init_inv hi) ht
  exact ⟨t.contig, t.len, t.csi_comm, t.handedOk⟩

/-- the write establishes what `advance*` requires: right after the storage write of the held
Ready, `AppOk` holds for `advance_append_async` / `advance_append` -/
theorem C07_write_establishes_written {s s' : Sys} (hinv : TraceInv s)
    (h : s.step .write = some (.ok s')) :
    AppOk s' .advanceAppendAsync ∧ ∀ eff, AppOk s' (.advanceAppend eff) := by
  simp only [Sys.step] at h
  split at h
  · rename_i rd hp
    injection h with h
    cases he : s.n.storageWrite rd with
    | ok n =>
      simp only [he] at h; injection h with h; subst h
      have := (inv_write hinv hp he).2
      exact ⟨this, fun _ => this⟩
    | err e => simp only [he] at h; cases h
    | panic p => simp only [he] at h; cases h
  · cases h

/-! ### why `AppOk` is needed: runs of the model inside `ContractTrace`'s step function -/

/-- environment step of a leader with apply-before-persist switched on -/
def envLeader (commit : Nat) (ents : List Entry) : Call :=
  .env { term := 1, vote := 1, role := ROLE_LEADER, leaderId := 1, msgs := [], readStates := [],
         limit := U64_MAX, ops := [.tappend ents, .commitTo commit] }

/-- **`C07_handout_exact_full_statement` is false on the model without the storage write.**
A leader with `max_apply_unpersisted_log_limit = u64::MAX` appends entries 3, 4 and commits them;
`ready()` hands out 1..4 (3, 4 are still unstable); the application calls `advance_append_async`
*without* writing the Ready to the storage: `commit_ready` drops the unstable entries, the log
now ends at 2 while `commit_since_index = committed = 4` and entries 3, 4 — handed out — are in
no log.  `Sys.step` allows this call sequence (it never forces `.write`), every step is `.ok`.
The real code behaves the same (raw_node.rs:613-616 only moves `unstable.offset`); the
documentation makes the write the application's duty, `AppOk` states it. -/
theorem C07_handout_exact_needs_write :
    (match RawNodeM.new st0 0 0 NO_LIMIT with
     | .ok n =>
       (run { n := n } [envLeader 4 [ent 3 1 1, ent 4 1 1], .ready, .advanceAppendAsync]).map
        (fun s => s.handed.map (·.index) == [1, 2, 3, 4] && s.n.commitSinceIndex == 4 &&
          s.n.log.committed == 4 && s.n.log.abs.snapIdx == 0 &&
          s.n.log.abs.ents.map (·.index) == [1, 2] && (s.n.log.abs.entryAt 3).isNone)
     | _ => none) = some true := by decide +kernel

/-- **`C07_no_panic_full_statement` is false on the model**: `Sys.step` allows
`on_persist_ready(number)` for the Ready that is still held (`number ≤ max_number` is its only
guard); that pops the Ready's record, and the following `advance_append_async` panics at
`self.records.back().unwrap()` (raw_node.rs:611; with an older record left in the queue it is the
`assert!(rd_record.number == rd.number)` of the next line).  Same in the real code; an
application must report a Ready persisted only after it passed it to `advance_append_async`. -/
theorem C07_no_panic_needs_order :
    (match RawNodeM.new st0 0 0 NO_LIMIT with
     | .ok n =>
       (run { n := n } [envE 1 2 [ent 3 1 1, ent 4 1 1], .ready, .onPersistReady 1 {}]).map
        (fun s => (s.n.records.length, match s.step .advanceAppendAsync with
          | some (.panic p) => p
          | _ => ""))
     | _ => none) = some (0, "raw_node.commit_ready.unwrap") := by decide +kernel

/-- a second way to break `C07_no_panic_full_statement`: `advance_apply_to` with an index below the
applied index (`Sys.step` only asks `k ≤ commit_since_index`) is `fatal!` in
`RaftLog::applied_to` (raft_log.rs:322) -/
theorem C07_no_panic_needs_monotone_apply :
    (match RawNodeM.new st0 0 0 NO_LIMIT with
     | .ok n =>
       (run { n := n } [envE 1 2 [], .ready, .write, .advance {} {}]).map
        (fun s => (s.n.log.applied, s.n.commitSinceIndex, match s.step (.advanceApplyTo 1 {}) with
          | some (.panic p) => p
          | _ => ""))
     | _ => none) = some (2, 2, "raft_log.applied_to.out_of_range") := by decide +kernel

/-! ### no_panic: the calls that hand nothing out -/

theorem np_env {s : Sys} {e : EnvEffect} (hok : EnvOk s (.env e)) : ∃ n', s.n.env e = .ok n' := by
  obtain ⟨l', hl', _⟩ := hok
  unfold RawNodeM.env
  rw [hl']
  exact ⟨_, rfl⟩

theorem np_commitReady {s : Sys} {rd : Ready} (h : TraceInv s) (hp : s.pending = some rd) :
    ∃ n', s.n.commitReady rd = .ok n' := by
  obtain ⟨_, _, _, hlast⟩ := h.pend rd hp
  obtain ⟨l2, hc, _⟩ :=
    commitReady_spec2 s.n rd (recordOf rd.number s.n.log) h.inv hlast rfl rfl rfl
  exact ⟨_, hc⟩

theorem storeCompact_ok {s : MemStorage} {k : Nat} (h : s.WF) (hk : k ≤ s.lastIndex) :
    ∃ s', s.compact k = .ok s' := by
  have hl := h.last_succ
  unfold MemStorage.compact
  by_cases h1 : k ≤ s.firstIndex
  · rw [if_pos h1]; exact ⟨_, rfl⟩
  · rw [if_neg h1, if_neg (by omega)]
    cases hh : s.entries with
    | nil => exact ⟨_, rfl⟩
    | cons a t =>
      have hf : a.index = s.firstIndex := by simp [MemStorage.firstIndex, hh]
      simp only [List.head?_cons]
      rw [hf, if_neg (by omega),
        if_neg (by rw [hh] at hl; simp only [List.length_cons] at hl ⊢; omega)]
      exact ⟨_, rfl⟩

theorem np_compact {s : Sys} {k : Nat} (h : TraceInv s) (ha : k ≤ s.n.log.store.lastIndex) :
    ∃ l', s.n.log.compactStore k = .ok l' := by
  obtain ⟨s', hs'⟩ := storeCompact_ok h.inv.storeWF ha
  unfold RaftLog.compactStore
  rw [hs']
  exact ⟨_, rfl⟩

theorem np_commitApply {n : RawNodeM} {a : Nat} {eff : Effect} (hinv : n.log.Inv)
    (ha : a = 0 ∨ (n.log.applied ≤ a ∧ a ≤ n.log.committed)) (hap : AppendedOk n.log eff) :
    ∃ n', n.commitApply a eff = .ok n' := by
  have k1 : ∃ l1, n.log.appliedTo a = .ok l1 ∧ l1.Inv ∧ l1.lastIndex = n.log.lastIndex := by
    by_cases h0 : a = 0
    · refine ⟨n.log, ?_, hinv, rfl⟩
      unfold RaftLog.appliedTo; rw [if_pos h0]
    · rcases ha with ha | ⟨h1, h2⟩
      · exact absurd ha h0
      · refine ⟨{ n.log with applied := a }, ?_, ?_, ?_⟩
        · unfold RaftLog.appliedTo; rw [if_neg h0, if_neg (by omega)]
        · exact inv_cursors hinv rfl rfl hinv.dummy_le_committed hinv.committed_le_last
            hinv.persisted_lt_off hinv.persisted_le_store
        · exact lastIndex_congr rfl rfl
  obtain ⟨l1, h1, hinv1, hl1⟩ := k1
  unfold commitApply
  rw [h1]
  simp only []
  by_cases hb : (n.isLeader && !eff.appended.isEmpty) = true
  · rw [if_pos hb]
    cases hents : eff.appended with
    | nil => rw [hents] at hb; simp at hb
    | cons e0 es =>
      obtain ⟨hc, h0⟩ := hap e0 es hents
      have hcl := hinv1.committed_le_last
      obtain ⟨l', happ, _⟩ := hinv1.append e0 es hc (by omega) (by omega)
      rw [happ]
      exact ⟨_, rfl⟩
  · rw [if_neg hb]; exact ⟨_, rfl⟩

theorem np_write {s : Sys} {rd : Ready} (h : TraceInv s) (hp : s.pending = some rd) :
    ∀ p, s.n.storageWrite rd ≠ .panic p := by
  obtain ⟨_, hre, hrs, _⟩ := h.pend rd hp
  intro p hpanic
  have hinv := h.inv
  have hls := hinv.last_succ
  -- the append after the (possible) snapshot never panics
  have happ : ∀ st1 : MemStorage, st1.WF → st1.firstIndex ≤ s.n.log.unstable.offset →
      s.n.log.unstable.offset ≤ st1.lastIndex + 1 →
      ∃ st2, st1.append s.n.log.unstable.entries = .ok st2 := by
    intro st1 hwf1 h1 h2
    cases he : s.n.log.unstable.entries with
    | nil => exact ⟨_, rfl⟩
    | cons e0 es =>
      have hc : ContigFrom s.n.log.unstable.offset (e0 :: es) := he ▸ hinv.unstWF.contig
      have h0 : e0.index = s.n.log.unstable.offset := hc.head
      obtain ⟨s', hs', _⟩ := storeAppend_spec hwf1 e0 es (h0 ▸ hc) (by omega) (by omega)
      exact ⟨s', hs'⟩
  unfold storageWrite at hpanic
  simp only [] at hpanic
  rw [hre] at hpanic
  cases hs : s.n.log.unstable.snapshot with
  | none =>
    rw [hrs, hs] at hpanic
    simp only [] at hpanic
    obtain ⟨st2, h2⟩ := happ s.n.log.store hinv.storeWF (hinv.first_le_off hs) (hinv.off_le_last hs)
    rw [h2] at hpanic
    cases hpanic
  | some sn =>
    rw [hrs, hs] at hpanic
    simp only [] at hpanic
    cases h1 : s.n.log.store.applySnapshot sn with
    | ok st1 =>
      rw [h1] at hpanic
      simp only [] at hpanic
      obtain ⟨e1, m1, _⟩ := applySnapshot_spec h1
      have ho := hinv.unstWF.snap sn hs
      have hfi : st1.firstIndex = sn.metadata.index + 1 := by
        simp [MemStorage.firstIndex, e1, m1]
      have hli : st1.lastIndex = sn.metadata.index := by
        simp [MemStorage.lastIndex, e1, m1]
      have hwf1 : st1.WF := by
        refine ⟨?_, ?_⟩
        · intro k e hk; rw [e1] at hk; simp at hk
        · rw [hfi, m1]; exact Nat.lt_succ_self _
      obtain ⟨st2, h2⟩ := happ st1 hwf1 (by omega) (by omega)
      rw [h2] at hpanic
      cases hpanic
    | err e => rw [h1] at hpanic; cases hpanic
    | panic q =>
      unfold MemStorage.applySnapshot at h1
      simp only [] at h1
      split at h1 <;> cases h1

theorem np_onPersistSnap {n : RawNodeM} {i : Nat} (h1 : i ≤ n.log.committed)
    (h2 : i < n.log.unstable.offset) : ∃ n', n.onPersistSnap i = .ok n' := by
  unfold onPersistSnap RaftLog.maybePersistSnap
  by_cases hp : n.log.persisted < i
  · rw [if_pos hp, if_neg (by omega), if_neg (by omega)]; exact ⟨_, rfl⟩
  · rw [if_neg hp]; exact ⟨_, rfl⟩

theorem np_onPersistEntries {n : RawNodeM} {i t : Nat} {eff : Effect} (hinv : n.log.Inv)
    (hc : eff.commit ≤ n.log.lastIndex) : ∃ n', n.onPersistEntries i t eff = .ok n' := by
  obtain ⟨l', b, e, _⟩ := hinv.maybePersist i t
  have s1 := maybePersist_step hinv e
  unfold onPersistEntries
  rw [e]
  simp only []
  by_cases hb : (b && n.isLeader) = true
  · rw [if_pos hb]
    obtain ⟨hct, _⟩ := s1.inv.commitTo eff.commit (by rw [s1.lastIndex]; exact hc)
    rw [hct]
    exact ⟨_, rfl⟩
  · rw [if_neg hb]; exact ⟨_, rfl⟩

theorem np_onPersistReady {n : RawNodeM} {number : Nat} {eff : Effect} (hinv : n.log.Inv)
    (hrs : ∀ r ∈ n.records, r.number ≤ number → ∀ i t, r.snapshot = some (i, t) →
      i < n.log.store.firstIndex ∧ i ≤ n.log.committed ∧ i < n.log.unstable.offset)
    (hc : eff.commit ≤ n.log.lastIndex) : ∃ n', n.onPersistReady number eff = .ok n' := by
  unfold onPersistReady
  rw [popRecords_eq]
  simp only []
  generalize hn1 : ({ n with
      unpersistedHsNumber := if n.unpersistedHsNumber ≤ number then 0 else n.unpersistedHsNumber,
      records := n.records.dropWhile (fun r => decide (r.number ≤ number)) } : RawNodeM) = n1
  have f1 : n1.log = n.log := by rw [← hn1]
  have htgt := persistTarget_snap (n.records.takeWhile (fun r => decide (r.number ≤ number)))
    (0, 0, 0)
  generalize persistTarget (n.records.takeWhile (fun r => decide (r.number ≤ number))) (0, 0, 0)
    = tgt at htgt
  obtain ⟨idx, tm, sidx⟩ := tgt
  simp only [] at htgt ⊢
  have step2 : ∀ n2 : RawNodeM, CursorStep n.log n2.log →
      ∃ n', (if idx ≠ 0 then n2.onPersistEntries idx tm eff else Res.ok n2) = .ok n' := by
    intro n2 s2
    by_cases hi : idx ≠ 0
    · rw [if_pos hi]
      exact np_onPersistEntries s2.inv (by rw [s2.lastIndex]; exact hc)
    · rw [if_neg hi]; exact ⟨_, rfl⟩
  by_cases hsn : sidx ≠ 0
  · rw [if_pos hsn]
    have hfacts : sidx < n.log.store.firstIndex ∧ sidx ≤ n.log.committed ∧
        sidx < n.log.unstable.offset := by
      rcases htgt with h0 | ⟨r, hr, t, ht⟩
      · exact absurd h0 hsn
      · obtain ⟨hm, hp⟩ := mem_takeWhile hr
        exact hrs r hm (of_decide_eq_true hp) _ _ ht
    obtain ⟨n2, hp⟩ := np_onPersistSnap (n := n1) (i := sidx) (by rw [f1]; exact hfacts.2.1)
      (by rw [f1]; exact hfacts.2.2)
    rw [hp]
    simp only []
    have hls := hinv.storeWF.last_succ
    have := onPersistSnap_log (n := n1) (by rw [f1]; exact hinv)
      (by rw [f1]; have := hfacts.1; omega) hp
    rw [f1] at this
    exact step2 n2 this
  · rw [if_neg hsn]
    simp only []
    exact step2 n1 (by rw [f1]; exact CursorStep.refl hinv)

theorem np_onPersistReady_sys {s : Sys} {number : Nat} {eff : Effect} (h : TraceInv s)
    (hc : eff.commit ≤ s.n.log.lastIndex)
    (ha : ∀ rd, s.pending = some rd → number < rd.number) :
    ∃ n', s.n.onPersistReady number eff = .ok n' := by
  refine np_onPersistReady h.inv ?_ hc
  intro r hr hle i t hs
  have hfc := h.first_csi
  have hcc := h.csi_comm
  have h1 : i < s.n.log.store.firstIndex := by
    rcases h.recSnap r hr i t hs with h1 | ⟨h1, h2, _⟩
    · exact h1
    · exfalso
      cases hp : s.pending with
      | none => exact h1 hp
      | some rd =>
        have := ha rd hp
        have := (h.pend rd hp).1
        omega
  refine ⟨h1, by omega, ?_⟩
  cases hsn : s.n.log.unstable.snapshot with
  | none => have := h.inv.first_le_off hsn; omega
  | some sn =>
    have ho := h.inv.unstWF.snap sn hsn
    obtain ⟨a, b⟩ := h.snap_csi sn hsn
    cases hp : s.pending with
    | none => have := a hp; omega
    | some rd => have := b (by rw [hp]; exact fun hc => by cases hc); omega

/-- the calls covered by `C07_no_panic_quiet`: every call except the three that hand entries out -/
def QuietCall : Call → Prop
  | .ready => False
  | .advanceAppend _ => False
  | .advance _ _ => False
  | _ => True

/-- **no_panic**, trace level, for the calls that hand nothing out: in every state reached by an
application that follows the whole documented contract (`ContractTrace2`), none of `step & co.`
(`env`), the storage write, `advance_append_async`, `on_persist_ready`, `advance_apply`,
`advance_apply_to`, `compact` panics, whatever the environment within `EnvOk` / `AppOk` does.
(The statement without `AppOk`, `C07_no_panic_full_statement`, is false on the model:
`C07_no_panic_needs_order`, `C07_no_panic_needs_monotone_apply`.) -/
theorem C07_no_panic_quiet :
    ∀ s0 calls s c, Init s0 → ContractTrace2 s0 calls s → EnvOk s c → AppOk s c → QuietCall c →
      ∀ p, s.step c ≠ some (.panic p) := by
  intro s0 calls s c hi ht hok hap hq p hstep
  have t := trace_inv (init_inv hi) ht
  cases c with
  | env e =>
    obtain ⟨n', hn'⟩ := np_env hok
    simp only [Sys.step] at hstep
    split at hstep
    · rw [hn'] at hstep; cases hstep
    · cases hstep
  | ready => exact hq
  | write =>
    simp only [Sys.step] at hstep
    split at hstep
    · rename_i rd hp
      injection hstep with hstep
      cases he : s.n.storageWrite rd with
      | ok n => rw [he] at hstep; cases hstep
      | err e => rw [he] at hstep; cases hstep
      | panic q => exact np_write t hp q he
    · cases hstep
  | advanceAppendAsync =>
    simp only [Sys.step] at hstep
    split at hstep
    · rename_i rd hp
      obtain ⟨n', hn'⟩ := np_commitReady t hp
      unfold advanceAppendAsync at hstep
      rw [hn'] at hstep; cases hstep
    · cases hstep
  | advanceAppend eff => exact hq
  | advance eff1 eff2 => exact hq
  | onPersistReady number eff =>
    obtain ⟨n', hn'⟩ := np_onPersistReady_sys t hok hap
    simp only [Sys.step] at hstep
    split at hstep
    · rw [hn'] at hstep; cases hstep
    · cases hstep
  | advanceApply eff =>
    have hcc := t.csi_comm
    have hac := t.applied_csi
    obtain ⟨n', hn'⟩ := np_commitApply (a := s.n.commitSinceIndex) t.inv (.inr ⟨hac, hcc⟩) hap.1
    simp only [Sys.step] at hstep
    unfold advanceApply at hstep
    rw [hn'] at hstep; cases hstep
  | advanceApplyTo k eff =>
    simp only [Sys.step] at hstep
    split at hstep
    · rename_i hk
      have hcc := t.csi_comm
      obtain ⟨n', hn'⟩ := np_commitApply (a := k) t.inv
        (by rcases hap.1 with h0 | h0
            · exact .inl h0
            · exact .inr ⟨h0, by omega⟩) hap.2.1
      unfold advanceApplyTo at hstep
      rw [hn'] at hstep; cases hstep
    · cases hstep
  | compact k =>
    obtain ⟨l', hl'⟩ := np_compact t hap
    simp only [Sys.step] at hstep
    rw [hl'] at hstep; cases hstep

/-! ### what remains open -/

/-- what `ready()` / the hand-out inside `advance_append` need from `Raft` beyond `EnvOk` — facts
about the protocol that this model (which abstracts `Raft` to the fields `RawNode` touches) cannot
derive:
* the drain assertion of `ready()` (raw_node.rs:504-512): when the node became leader since the
  last Ready, the records still queued carry neither entries nor a snapshot (they were generated
  while it was a candidate);
* a node holding a not-yet-handed-out snapshot does not apply before persist (a leader never
  restores a snapshot, and `EnvOk` already puts `limit = 0` on non-leaders): otherwise
  raw_node.rs:537 fires, `C07_follower_limit_panics`;
* indexes stay below `u64::MAX` (`since_idx + 1` in `next_entries_since`). -/
def ReadyEnvOk (s : Sys) : Prop :=
  (s.n.prevSs.role ≠ ROLE_LEADER ∧ s.n.role = ROLE_LEADER →
    ∀ r ∈ s.n.records, r.lastEntry = none ∧ r.snapshot = none) ∧
  (∀ sn, s.n.log.unstable.snapshot = some sn → s.n.log.maxApplyUnpersistedLogLimit = 0) ∧
  s.n.log.lastIndex < U64_MAX

/-- **no_panic** for the three calls that hand entries out (`ready`, `advance_append`, `advance`)
— NOT proved.  Under `ReadyEnvOk` the assertions of `ready()` and of `gen_light_ready` follow from
`TraceInv` (`slice` succeeds by `RaftLog.Inv.slicePrefix`, `commit_since_index < e.index` by
`C07_handout_step`); what is missing for `advance_append` is a further invariant on the hard-state
bookkeeping while a Ready is held (`term`, `vote` unchanged, `prev_hs` = the hard state the Ready
carried, commit index monotone, `msgs` empty on a non-leader) for its three closing assertions
(raw_node.rs:692-705). -/
def C07_no_panic_handout_statement : Prop :=
  ∀ s0 calls s c, Init s0 → ContractTrace2 s0 calls s → EnvOk s c → AppOk s c → ReadyEnvOk s →
    ∀ p, s.step c ≠ some (.panic p)

end RaftProps.C07
