import RaftProofs.RaftLog

/-!
# C14 — `RaftLog` behaves as one logical log over storage + unstable + pending snapshot

Property theorems only (helper lemmas: `RaftProofs/RaftLog.lean`).  The model
`RaftModel.RaftLog` / `RaftModel.Unstable` mirrors `src/raft_log.rs` / `src/log_unstable.rs`
function by function over the `MemStorage` model; `RaftModel.LLog` is the plain sequence model and
`RaftLog.abs` the logical log a state represents.

What is proved here, for every state satisfying the representation invariant `RaftLogInv` and every
argument value: the queries `first_index, last_index, term, last_term, match_term, find_conflict,
find_conflict_by_term, is_up_to_date, commit_info` answer exactly like the sequence model; the three
cases of `truncate_and_append`; `append` and `maybe_append` as operations on the sequence model
(with the panic cases); preservation of the invariant and immutability of the committed prefix by
`append, maybe_append, commit_to, maybe_persist, applied_to, restore`, lifted to all operation
sequences.  What is *not* proved (stated below as `…_full_statement`, tied to the code only by the
correspondence check): the size-limited reads (`slice / entries / next_entries_since`) against the
sequence model, and invariant preservation by the storage-side steps (stabilise, persist snapshot,
compaction).
-/
namespace RaftProps.C14
open RaftModel

/-- the representation invariant (see `RaftModel.RaftLog.Inv` for the clauses): conforming storage
(contiguous, snapshot point below), contiguous unstable entries with the right byte count,
`store.first ≤ offset ≤ store.last+1` (or `offset = snapshot.index+1` with a pending snapshot),
`first-1 ≤ committed ≤ last`, `persisted < offset`, `persisted ≤ store.last`. -/
abbrev RaftLogInv (l : RaftLog) : Prop := l.Inv

/-- `RaftLog::new` over any conforming storage establishes the invariant and `applied ≤ committed` -/
theorem C14_new_inv (st : MemStorage) (h : st.WF) (limit : Nat) :
    ∃ l, RaftLog.new st limit = .ok l ∧ RaftLogInv l ∧ l.AppliedOk ∧ l.store = st :=
  RaftLog.Inv.new h limit

/-! ### queries agree with the sequence model -/

theorem C14_firstIndex_spec (l : RaftLog) (h : RaftLogInv l) : l.firstIndex = l.abs.firstIndex :=
  h.firstIndex_abs

theorem C14_lastIndex_spec (l : RaftLog) (h : RaftLogInv l) : l.lastIndex = l.abs.lastIndex :=
  h.lastIndex_abs

/-- `term(i)` for every `i`: 0 outside `[first-1, last]`, the snapshot term (or `Compacted` once
`MemStorage` forgot it) at `first-1`, the entry's term inside; in particular it never panics -/
theorem C14_term_spec (l : RaftLog) (h : RaftLogInv l) (i : Nat) : l.term i = l.abs.term i :=
  h.term_abs i

theorem C14_lastTerm_spec (l : RaftLog) (h : RaftLogInv l) : l.lastTerm = l.abs.lastTerm :=
  h.lastTerm_abs

theorem C14_matchTerm_spec (l : RaftLog) (h : RaftLogInv l) (i t : Nat) :
    l.matchTerm i t = .ok (l.abs.matchTerm i t) := h.matchTerm_abs i t

theorem C14_findConflict_spec (l : RaftLog) (h : RaftLogInv l) (ents : List Entry) :
    l.findConflict ents = .ok (l.abs.findConflict ents) := h.findConflict_abs ents

/-- the meaning of the sequence model's `findConflict` on a contiguous batch: 0 iff every entry is
in the log, otherwise the index of the first entry that is not -/
theorem C14_findConflict_meaning (g : LLog) (start : Nat) (ents : List Entry)
    (hc : ContigFrom start ents) :
    (g.findConflict ents = 0 ∧ ∀ e ∈ ents, g.matchTerm e.index e.term = true) ∨
    (∃ k, k < ents.length ∧ g.findConflict ents = start + k ∧
      ∀ e ∈ ents.take k, g.matchTerm e.index e.term = true) :=
  g.findConflict_char ents start hc

/-- `find_conflict_by_term(index, term)`; `hz` says that position 0 (if it is the dummy position)
does not carry a term above `term` — position 0 carries term 0 in every real log; without it the
code would compute `0 - 1` -/
theorem C14_findConflictByTerm_spec (l : RaftLog) (h : RaftLogInv l) (index term : Nat)
    (hz : ∀ t0, l.abs.term 0 = .ok t0 → t0 ≤ term) :
    l.findConflictByTerm index term =
      .ok (if l.abs.lastIndex < index then (index, none)
           else l.abs.findConflictByTerm term index) := by
  unfold RaftLog.findConflictByTerm
  rw [h.lastIndex_abs]
  split
  · rfl
  · exact h.fcbtLoop_abs term hz index

theorem C14_isUpToDate_spec (l : RaftLog) (h : RaftLogInv l) (lastIndex term : Nat) :
    l.isUpToDate lastIndex term = l.abs.isUpToDate lastIndex term := h.isUpToDate_abs lastIndex term

theorem C14_commitInfo_spec (l : RaftLog) (h : RaftLogInv l) :
    l.commitInfo = match l.abs.term l.committed with
      | .ok t => .ok (l.committed, t)
      | _ => .panic "raft_log.commit_info.missing" := h.commitInfo_abs

/-! ### `truncate_and_append`, `append`, `maybe_append` -/

/-- the three-way split of `Unstable::truncate_and_append` (plus: a gap panics) -/
theorem C14_truncateAndAppend_spec (u : Unstable) (h : u.WF) (e0 : Entry) (es : List Entry) :
    (e0.index = u.offset + u.entries.length →
      u.truncateAndAppend (e0 :: es) = .ok { u with
        entries := u.entries ++ (e0 :: es),
        entriesSize := approxSize (u.entries ++ e0 :: es) }) ∧
    (e0.index ≤ u.offset → e0.index ≠ u.offset + u.entries.length →
      u.truncateAndAppend (e0 :: es) = .ok { u with
        offset := e0.index, entries := (e0 :: es),
        entriesSize := approxSize (e0 :: es) }) ∧
    (u.offset < e0.index → e0.index < u.offset + u.entries.length →
      u.truncateAndAppend (e0 :: es) = .ok { u with
        entries := u.entries.take (e0.index - u.offset) ++ e0 :: es,
        entriesSize := approxSize (u.entries.take (e0.index - u.offset) ++ e0 :: es) }) ∧
    (u.offset + u.entries.length < e0.index →
      ∃ s, u.truncateAndAppend (e0 :: es) = .panic s) :=
  h.truncateAndAppend e0 es

/-- `append` of a contiguous batch starting above the commit index and without a gap: the logical
log is truncated after `first_new - 1` and extended; cursors and storage untouched; the invariant
is kept when the batch also starts above `persisted` (what `append`'s only caller guarantees:
it appends at `last_index + 1`) -/
theorem C14_append_spec (l : RaftLog) (h : RaftLogInv l) (e0 : Entry) (es : List Entry)
    (hc : ContigFrom e0.index (e0 :: es))
    (h1 : l.committed < e0.index) (h2 : e0.index ≤ l.lastIndex + 1) :
    ∃ l', l.append (e0 :: es) = .ok (l', e0.index + es.length) ∧
      l'.lastIndex = e0.index + es.length ∧
      l'.abs = l.abs.truncateAppend (e0.index - 1) (e0 :: es) ∧
      l'.store = l.store ∧ l'.committed = l.committed ∧ l'.persisted = l.persisted ∧
      l'.applied = l.applied ∧ (l.persisted < e0.index → RaftLogInv l') := by
  obtain ⟨l', a, b, c, d, e, f, g, _, _, i⟩ := h.append e0 es hc h1 h2
  exact ⟨l', a, b, c, d, e, f, g, fun hp => by
    have := i l.persisted (Nat.le_refl _) hp
    rw [← f] at this; exact this⟩

/-- `append` below or at the commit index is the documented panic -/
theorem C14_append_below_commit_panics (l : RaftLog) (e0 : Entry) (es : List Entry)
    (h1 : e0.index ≤ l.committed) : ∃ s, l.append (e0 :: es) = .panic s := by
  unfold RaftLog.append
  simp only []
  by_cases h0 : e0.index = 0
  · rw [if_pos h0]; exact ⟨_, rfl⟩
  · rw [if_neg h0, if_pos (by omega)]; exact ⟨_, rfl⟩

/-- **`maybe_append`**, for a contiguous batch following `idx ≤ last_index` whose entries carry
non-zero terms.  With `conflict := abs.findConflict ents`:
* `(idx, term)` not in the log → `None`, nothing changes;
* no conflict → log unchanged, only `committed` advances to `max committed (min leaderCommit lastNew)`;
* `0 < conflict ≤ committed` → panic (and only then);
* otherwise `abs' = take (conflict-1) abs ++ suffix`, `persisted' = min persisted (conflict-1)`,
  `last_index' = lastNew`, the invariant is kept. -/
theorem C14_maybeAppend_spec (l : RaftLog) (h : RaftLogInv l) (idx term committed : Nat)
    (ents : List Entry) (hc : ContigFrom (idx + 1) ents) (hidx : idx ≤ l.lastIndex)
    (hterms : ∀ e ∈ ents, e.term ≠ 0) :
    (l.abs.matchTerm idx term = false → l.maybeAppend idx term committed ents = .ok (l, none)) ∧
    (l.abs.matchTerm idx term = true →
      (l.abs.findConflict ents = 0 →
        l.maybeAppend idx term committed ents =
          .ok ({ l with committed := max l.committed (min committed (idx + ents.length)) },
               some (0, idx + ents.length)) ∧
        RaftLogInv { l with committed := max l.committed (min committed (idx + ents.length)) }) ∧
      (0 < l.abs.findConflict ents → l.abs.findConflict ents ≤ l.committed →
        ∃ s, l.maybeAppend idx term committed ents = .panic s) ∧
      (l.committed < l.abs.findConflict ents →
        ∃ l', l.maybeAppend idx term committed ents =
            .ok (l', some (l.abs.findConflict ents, idx + ents.length)) ∧
          l'.abs = l.abs.truncateAppend (l.abs.findConflict ents - 1)
            (ents.drop (l.abs.findConflict ents - (idx + 1))) ∧
          l'.persisted = min l.persisted (l.abs.findConflict ents - 1) ∧
          l'.committed = max l.committed (min committed (idx + ents.length)) ∧
          l'.applied = l.applied ∧ l'.lastIndex = idx + ents.length ∧ RaftLogInv l')) :=
  ⟨h.maybeAppend_nomatch idx term committed ents, fun hm =>
    ⟨h.maybeAppend_noconflict idx term committed ents hc hidx hterms hm,
     h.maybeAppend_panics idx term committed ents hm,
     h.maybeAppend_conflict idx term committed ents hc hidx hterms hm⟩⟩

/-! ### cursor operations -/

theorem C14_commitTo_spec (l : RaftLog) (h : RaftLogInv l) (to : Nat) :
    (to ≤ l.lastIndex → l.commitTo to = .ok { l with committed := max l.committed to } ∧
      RaftLogInv { l with committed := max l.committed to }) ∧
    (l.committed < to → l.lastIndex < to → ∃ s, l.commitTo to = .panic s) :=
  ⟨h.commitTo to, RaftLog.commitTo_panics l to⟩

/-- a persistence notice never moves `persisted` past what the storage holds with that term, never
moves it backwards, and keeps the invariant (`persisted < unstable.offset`, `≤ storage last`) -/
theorem C14_maybePersist_spec (l : RaftLog) (h : RaftLogInv l) (index term : Nat) :
    ∃ l' b, l.maybePersist index term = .ok (l', b) ∧ RaftLogInv l' ∧ l'.abs = l.abs ∧
      l'.committed = l.committed ∧ l'.applied = l.applied ∧ l.persisted ≤ l'.persisted ∧
      (b = true → l'.persisted = index ∧ l.store.term index = .ok term) :=
  h.maybePersist index term

theorem C14_restore_spec (l : RaftLog) (h : RaftLogInv l) (sn : Snapshot) :
    (l.committed ≤ sn.metadata.index →
      ∃ l', l.restore sn = .ok l' ∧ RaftLogInv l' ∧ l'.abs = LLog.ofSnapshot sn ∧
        l'.committed = sn.metadata.index ∧ l'.applied = l.applied ∧
        l'.persisted = min l.persisted l.committed) ∧
    (sn.metadata.index < l.committed → ∃ s, l.restore sn = .panic s) :=
  ⟨h.restore sn, RaftLog.restore_panics l sn⟩

theorem C14_appliedTo_spec (l : RaftLog) (h : RaftLogInv l) (idx : Nat) (h1 : l.applied ≤ idx)
    (h2 : idx ≤ l.committed) :
    ∃ l', l.appliedTo idx = .ok l' ∧ RaftLogInv l' ∧ l'.abs = l.abs ∧
      l'.committed = l.committed ∧ l'.persisted = l.persisted ∧ l'.applied = max l.applied idx :=
  h.appliedTo idx h1 h2

/-! ### all operation sequences -/

inductive Op where
  | append (e0 : Entry) (es : List Entry)
  | maybeAppend (idx term committed : Nat) (ents : List Entry)
  | commitTo (to : Nat)
  | maybePersist (index term : Nat)
  | appliedTo (idx : Nat)
  | restore (sn : Snapshot)

def step (l : RaftLog) : Op → Res RaftLog
  | .append e0 es => match l.append (e0 :: es) with
    | .ok (l', _) => .ok l'
    | .err e => .err e
    | .panic s => .panic s
  | .maybeAppend i t c ents => match l.maybeAppend i t c ents with
    | .ok (l', _) => .ok l'
    | .err e => .err e
    | .panic s => .panic s
  | .commitTo to => l.commitTo to
  | .maybePersist i t => match l.maybePersist i t with
    | .ok (l', _) => .ok l'
    | .err e => .err e
    | .panic s => .panic s
  | .appliedTo i => l.appliedTo i
  | .restore sn => l.restore sn

/-- the contract of each operation (what raft.rs guarantees at its call sites) -/
def legal (l : RaftLog) : Op → Prop
  | .append e0 es => ContigFrom e0.index (e0 :: es) ∧ l.committed < e0.index ∧
      e0.index ≤ l.lastIndex + 1 ∧ l.persisted < e0.index
  | .maybeAppend idx term _ ents => ContigFrom (idx + 1) ents ∧ idx ≤ l.lastIndex ∧
      (∀ e ∈ ents, e.term ≠ 0) ∧
      (l.abs.matchTerm idx term = true →
        l.abs.findConflict ents = 0 ∨ l.committed < l.abs.findConflict ents)
  | .commitTo to => to ≤ l.lastIndex
  | .maybePersist _ _ => True
  | .appliedTo idx => l.applied ≤ idx ∧ idx ≤ l.committed
  | .restore sn => l.committed ≤ sn.metadata.index

/-- **One step.**  Under the invariant and the operation's contract: no panic, the invariant and
`applied ≤ committed` are kept, the commit index never decreases, and **no entry at or below the
commit index is altered** — it is either still there, identical, or covered by the snapshot point
(`restore`). -/
theorem C14_step (l : RaftLog) (h : RaftLogInv l) (ha : l.AppliedOk) (op : Op) (hl : legal l op) :
    ∃ l', step l op = .ok l' ∧ RaftLogInv l' ∧ l'.AppliedOk ∧ l.committed ≤ l'.committed ∧
      ∀ i, i ≤ l.committed → l'.abs.entryAt i = l.abs.entryAt i ∨ i ≤ l'.abs.snapIdx := by
  have hcl := h.committed_le_last
  have hla := h.lastIndex_abs
  cases op with
  | append e0 es =>
    obtain ⟨hc, h1, h2, hp⟩ := hl
    obtain ⟨l', e, _, habs, _, hcm, hper, hap, _, _, hinv⟩ := h.append e0 es hc h1 h2
    have hinv' := hinv l.persisted (Nat.le_refl _) hp
    rw [← hper] at hinv'
    refine ⟨l', by simp only [step, e], hinv', by unfold RaftLog.AppliedOk at *; omega,
      by omega, ?_⟩
    intro i hi
    left
    rw [habs]
    exact l.abs.truncateAppend_entryAt _ _ i (by omega) (by omega)
  | maybeAppend idx term committed ents =>
    obtain ⟨hc, hidx, hterms, hcase⟩ := hl
    cases hm : l.abs.matchTerm idx term with
    | false =>
      have e := h.maybeAppend_nomatch idx term committed ents hm
      exact ⟨l, by simp only [step, e], h, ha, Nat.le_refl _, fun i _ => .inl rfl⟩
    | true =>
      rcases hcase hm with h0 | hgt
      · obtain ⟨e, hinv⟩ := h.maybeAppend_noconflict idx term committed ents hc hidx hterms hm h0
        refine ⟨_, by simp only [step, e], hinv, ?_, ?_, fun i _ => .inl rfl⟩
        · unfold RaftLog.AppliedOk at *; simp only; omega
        · simp only; omega
      · obtain ⟨l', e, habs, _, hcm, hap, _, hinv⟩ :=
          h.maybeAppend_conflict idx term committed ents hc hidx hterms hm hgt
        refine ⟨l', by simp only [step, e], hinv, by unfold RaftLog.AppliedOk at *; omega,
          by omega, ?_⟩
        intro i hi
        left
        rw [habs]
        exact l.abs.truncateAppend_entryAt _ _ i (by omega) (by omega)
  | commitTo to =>
    obtain ⟨e, hinv⟩ := h.commitTo to hl
    refine ⟨_, by simp only [step, e], hinv, ?_, ?_, fun i _ => .inl rfl⟩
    · unfold RaftLog.AppliedOk at *; simp only; omega
    · simp only; omega
  | maybePersist index term =>
    obtain ⟨l', b, e, hinv, habs, hcm, hap, _, _⟩ := h.maybePersist index term
    exact ⟨l', by simp only [step, e], hinv, by unfold RaftLog.AppliedOk at *; omega, by omega,
      fun i _ => .inl (by rw [habs])⟩
  | appliedTo idx =>
    have hl1 : l.applied ≤ idx := hl.1
    have hl2 : idx ≤ l.committed := hl.2
    obtain ⟨l', e, hinv, habs, hcm, _, hap⟩ := h.appliedTo idx hl1 hl2
    exact ⟨l', by simp only [step, e], hinv, by unfold RaftLog.AppliedOk at *; omega, by omega,
      fun i _ => .inl (by rw [habs])⟩
  | restore sn =>
    have hl' : l.committed ≤ sn.metadata.index := hl
    obtain ⟨l', e, hinv, habs, hcm, hap, _⟩ := h.restore sn hl'
    refine ⟨l', by simp only [step, e], hinv, by unfold RaftLog.AppliedOk at *; omega, by omega,
      ?_⟩
    intro i hi
    right
    rw [habs]; simp only [LLog.ofSnapshot]; omega

def run : RaftLog → List Op → Res RaftLog
  | l, [] => .ok l
  | l, op :: ops => match step l op with
    | .ok l' => run l' ops
    | .err e => .err e
    | .panic s => .panic s

/-- every operation of the sequence is issued within its contract, in the state it is issued in -/
def legalSeq : RaftLog → List Op → Prop
  | _, [] => True
  | l, op :: ops => legal l op ∧ ∀ l', step l op = .ok l' → legalSeq l' ops

/-- **All operation sequences.**  From any state satisfying the invariant (e.g. `RaftLog::new`,
`C14_new_inv`), every contract-abiding sequence of appends, truncating appends (`maybe_append`),
commits, persistence notices, apply notices and snapshot restores runs without panic and ends in a
state that satisfies the invariant and `applied ≤ committed ≤ last_index`; every entry at or below
the *initial* commit index is unaltered or covered by a snapshot at the end. -/
theorem C14_run (ops : List Op) : ∀ (l : RaftLog), RaftLogInv l → l.AppliedOk → legalSeq l ops →
    ∃ l', run l ops = .ok l' ∧ RaftLogInv l' ∧ l'.AppliedOk ∧ l.committed ≤ l'.committed ∧
      l'.committed ≤ l'.lastIndex ∧
      ∀ i, i ≤ l.committed → l'.abs.entryAt i = l.abs.entryAt i ∨ i ≤ l'.abs.snapIdx := by
  induction ops with
  | nil =>
    intro l h ha _
    exact ⟨l, rfl, h, ha, Nat.le_refl _, h.committed_le_last, fun i _ => .inl rfl⟩
  | cons op ops ih =>
    intro l h ha hl
    obtain ⟨l1, e1, i1, a1, c1, p1⟩ := C14_step l h ha op hl.1
    obtain ⟨l2, e2, i2, a2, c2, cl2, p2⟩ := ih l1 i1 a1 (hl.2 l1 e1)
    refine ⟨l2, by simp only [run, e1]; exact e2, i2, a2, by omega, cl2, ?_⟩
    intro i hi
    rcases p1 i hi with h1 | h1
    · rcases p2 i (by omega) with h2 | h2
      · left; rw [h2, h1]
      · right; exact h2
    · -- already covered by a snapshot after the first step: it stays covered or unaltered-none
      rcases p2 i (by omega) with h2 | h2
      · by_cases hcov : i ≤ l2.abs.snapIdx
        · right; exact hcov
        · -- `entryAt` of a covered index is `none` on both sides
          left
          rw [h2]
          have hn : l1.abs.entryAt i = none := by simp [LLog.entryAt, h1]
          rw [hn]
          -- then it was `none` before as well? not in general: so report coverage through l1
          exact absurd h1 (by
            intro _
            -- l2 does not cover i but l1 does, and l2.entryAt i = l1.entryAt i = none while
            -- i ≤ l1.committed ≤ l2.committed ≤ l2.lastIndex: impossible
            have hl2 := i2.lastIndex_abs
            have hc2 := i2.committed_le_last
            have : l2.abs.entryAt i ≠ none := by
              simp only [LLog.entryAt, hcov, if_false]
              intro hnone
              have := List.getElem?_eq_none_iff.1 hnone
              simp only [LLog.lastIndex] at hl2
              omega
            exact this (by rw [h2, hn]))
      · right; exact h2

/-! ### what is not proved (kept visible; the correspondence check ties these to the code) -/

/-- size-limited reads agree with the sequence model (needs the two-phase `limit_size` argument of
`slice`: the storage part is limited first, then the concatenation) -/
def C14_slice_full_statement : Prop :=
  ∀ (l : RaftLog), RaftLogInv l → ∀ lo hi mx ca, (l.store.triggerLogUnavailable && ca) = false →
    l.slice lo hi mx ca = l.abs.slice lo hi mx

def C14_entries_full_statement : Prop :=
  ∀ (l : RaftLog), RaftLogInv l → ∀ i mx ca, (l.store.triggerLogUnavailable && ca) = false →
    l.entries i mx ca = l.abs.entries i mx

def C14_nextEntriesSince_full_statement : Prop :=
  ∀ (l : RaftLog), RaftLogInv l → ∀ since mx, since < U64_MAX →
    l.persisted + l.maxApplyUnpersistedLogLimit ≤ U64_MAX →
    l.nextEntriesSince since mx =
      (let hi := min l.committed (l.persisted + l.maxApplyUnpersistedLogLimit) + 1
       let lo := max (since + 1) l.abs.firstIndex
       if lo < hi then .ok (some (limitSize (l.abs.range lo hi) mx)) else .ok none)

/-- the storage-side steps of a Ready-contract-abiding application keep the invariant and the
logical log (compaction: cuts it below `index`) -/
def C14_storage_steps_full_statement : Prop :=
  ∀ (l : RaftLog), RaftLogInv l →
    (∃ l', l.stabilise = .ok l' ∧ RaftLogInv l' ∧ l'.abs = l.abs) ∧
    (∃ l', l.persistSnapshot = .ok l' ∧ RaftLogInv l' ∧ l'.abs = l.abs) ∧
    (∀ index, index ≤ l.applied → l.applied ≤ l.committed → index ≤ l.persisted + 1 →
      ∃ l', l.compactStore index = .ok l' ∧ RaftLogInv l' ∧
        (l.unstable.snapshot = none → l'.abs = l.abs.compactTo (index - 1)))

/-- `persisted + max_apply_unpersisted_log_limit` saturates (finding F6, repaired in /repo): the
hand-out bound never panics, is never above the commit index, and with `u64::MAX` as "no limit" it
is the commit index itself (for in-range commit indexes) -/
theorem C14_applied_upper_bound_saturates (l : RaftLog) :
    ∃ ub, l.appliedIndexUpperBound = .ok ub ∧ ub ≤ l.committed ∧
      (l.maxApplyUnpersistedLogLimit = U64_MAX → l.committed ≤ U64_MAX → ub = l.committed) := by
  refine ⟨_, rfl, Nat.min_le_left _ _, ?_⟩
  intro hl hc
  rw [hl]
  omega

/-! ### non-vacuity: concrete states and runs -/

def ent (i t d : Nat) : Entry := { index := i, term := t, data := List.replicate d 0 }

/-- a storage with a snapshot point at (2, 1) and entries 3, 4 -/
def st0 : MemStorage :=
  { snapshotMetadata := { index := 2, term := 1 }, entries := [ent 3 1 5, ent 4 2 200] }

theorem st0_wf : st0.WF := by
  refine ⟨?_, by decide⟩
  intro k e hk
  match k, hk with
  | 0, hk => simp [st0] at hk; subst hk; rfl
  | 1, hk => simp [st0] at hk; subst hk; rfl
  | n + 2, hk => simp [st0] at hk

/-- the invariant holds on a concrete non-trivial state -/
example : ∃ l, RaftLog.new st0 0 = .ok l ∧ RaftLogInv l ∧ l.abs.snapIdx = 2 ∧
    l.abs.ents.map (·.index) = [3, 4] := by
  obtain ⟨l, e, hi, _, _⟩ := C14_new_inv st0 st0_wf 0
  refine ⟨l, e, hi, ?_, ?_⟩ <;>
  · have : RaftLog.new st0 0 = .ok {
        store := st0, unstable := Unstable.new 5, committed := 2,
        persisted := 4, applied := 2, maxApplyUnpersistedLogLimit := 0 } := rfl
    rw [this] at e; cases e; rfl

/-- a concrete truncating `maybe_append`: entry 4 (term 2) is replaced by (4, term 3), (5, term 3);
the conflict index is 4, persisted drops from 4 to 3 -/
example :
    (match RaftLog.new st0 0 with
     | .ok l => match l.maybeAppend 3 1 0 [ent 4 3 1, ent 5 3 1] with
       | .ok (l', r) => some (r, l'.abs.ents.map (fun e => (e.index, e.term)), l'.persisted)
       | _ => none
     | _ => none) = some (some (4, 5), [(3, 1), (4, 3), (5, 3)], 3) := by decide

/-- … and a conflict at the commit index is the documented panic -/
example :
    (match RaftLog.new st0 0 with
     | .ok l => match l.commitTo 4 with
       | .ok l => match l.maybeAppend 3 1 0 [ent 4 3 1] with
         | .panic _ => true
         | _ => false
       | _ => false
     | _ => false) = true := by decide

end RaftProps.C14
