import RaftProofs.ProtoC

/-!
# C03 — leader completeness and the election restriction

Proved here (abstract protocol P, all states / all reachable states under a fixed configuration):
the **election restriction** — a vote is decided only for a released request of the voter's current
term whose advertised last (term, index) is at least the voter's own (`upToDate` is exactly
`RaftLog::is_up_to_date`; priority and lease only restrict further), requests advertise the
candidate's true log tail, a winner's log is unchanged since it campaigned — and the structural
facts leader completeness rests on (a leader's log is the ghost log of its term, which extends
its log at election time only by own-term entries; Log Matching).

**Leader completeness itself** is proved for every reachable state of every history under a fixed
configuration with at least one voter (`C03_leader_completeness`: the ghost log of every elected term
holds, at the same indexes, every own-term entry of an earlier term that a deciding quorum has
durably acknowledged — whether or not that leader ever learned it; `C03_leader_holds_committed`: a
node in the leader role holds every prefix committed by a leader of a term not beyond its own;
`C03_elected_with_committed`: already the log it was elected with does).  The proof is in
`RaftProofs/ProtoC4.lean` (quorum intersection, the voter's log recorded with its grant retains what
it acknowledged, up-to-date rule).  On implementation traces the property is also checked directly by
the monitor "a new leader holds every entry reported committed so far" and by the
election-restriction monitor on every grant.  Histories with membership changes: trace validation
and monitors only.
-/
namespace RaftProps.C03
open RaftModel.P

/-- `upToDate` is the lexicographic comparison of (last term, last index) -/
theorem C03_upToDate_iff (lt li : Nat) (l : List LEntry) :
    upToDate lt li l = true ↔ (lastTerm l < lt ∨ (lastTerm l = lt ∧ l.length ≤ li)) := by
  unfold upToDate
  simp only [Bool.or_eq_true, Bool.and_eq_true, decide_eq_true_eq]
  constructor
  · rintro (h | ⟨h1, h2⟩)
    · exact Or.inl h
    · exact Or.inr ⟨h1.symm, h2⟩
  · rintro (h | ⟨h1, h2⟩)
    · exact Or.inl h
    · exact Or.inr ⟨h1.symm, h2⟩

/-- **Election restriction**: a real vote for `c` is decided only if `c` released a request for the
voter's current term whose last (term, index) is at least the voter's own. -/
theorem C03_election_restriction (s s' : PSys) (i c : Nat) (h : applyEvent s (.grant i c) = .ok s') :
    ∃ r ∈ s.reqs, r.term = (s.nodes i).term ∧ r.cand = c ∧
      (lastTerm (s.nodes i).log < r.lastTerm ∨
        (lastTerm (s.nodes i).log = r.lastTerm ∧ (s.nodes i).log.length ≤ r.lastIdx)) := by
  simp only [applyEvent, ok] at h
  split at h
  · rename_i r hr
    split at h
    · have hp := List.find?_some hr
      simp only [decide_eq_true_eq] at hp
      exact ⟨r, List.mem_of_find?_eq_some hr, hp.1, hp.2.1, (C03_upToDate_iff _ _ _).1 hp.2.2⟩
    · cases h
  · cases h

/-- a campaign advertises the candidate's true last (term, index) -/
theorem C03_campaign_advertises_truth (s s' : PSys) (i : Nat) (h : applyEvent s (.campaign i) = .ok s') :
    OMsg.voteReq (s.nodes i).term i (lastTerm (s.nodes i).log) (s.nodes i).log.length ∈ (s'.nodes i).outbox ∧
    (s'.nodes i).log = (s.nodes i).log := by
  simp only [applyEvent, ok] at h
  split at h
  · cases h; simp [upd]
  · cases h

/-- a node in the candidate role keeps its log: every step that changes a candidate's log also makes
it leave the candidate role (so the log a winner leads with is the log it advertised) -/
theorem C03_candidate_log_frozen (s s' : PSys) (e : Event) (h : applyEvent s e = .ok s') (j : Nat)
    (h1 : (s.nodes j).role = 1) (h2 : (s'.nodes j).role = 1) : (s'.nodes j).log = (s.nodes j).log := by
  cases e with
  | read r => obtain ⟨rd, hs⟩ := read_frame h; subst hs; rfl
  | release i key =>
    simp only [applyEvent, ok] at h
    split at h
    · split at h
      · split at h
        · rename_i m _ _
          cases m <;> simp only [addReleased] at h <;> cases h <;> (rfl)
        · cases h
      · cases h
    · split at h
      · split at h
        · split at h
          · rename_i m _ _
            cases m <;> simp only [addReleased] at h <;> cases h <;>
              (by_cases hj : j = i <;> simp [upd, hj])
          · cases h
        · cases h
      · cases h
  | persist i k =>
    simp only [applyEvent, ok] at h
    split at h
    · split at h
      · cases h; by_cases hj : j = i <;> simp [upd, hj]
      · cases h
    · cases h
  | installSnap i t idx sterm =>
    simp only [applyEvent, ok] at h
    split at h
    · split at h
      · cases h
        by_cases hj : j = i
        · subst hj; simp [upd] at h2
        · simp [upd, hj]
      · cases h
    · cases h
  | commitSnap i t idx sterm =>
    simp only [applyEvent, ok] at h
    split at h
    · split at h
      · cases h; by_cases hj : j = i <;> simp [upd, hj]
      · cases h
    · cases h
  | leaderAppend i e =>
    simp only [applyEvent, ok] at h
    split at h
    · rename_i hg; cases h
      by_cases hj : j = i
      · subst hj; rw [hg.2.1] at h1; cases h1
      · simp [upd, hj]
    · cases h
  | recvApp i m =>
    simp only [applyEvent, ok] at h
    split at h
    · cases h
      by_cases hj : j = i
      · subst hj; simp [upd] at h2
      · simp [upd, hj]
    · cases h
  | restart i =>
    simp only [applyEvent, ok] at h
    split at h
    · cases h
      by_cases hj : j = i
      · subst hj; simp [upd] at h2
      · simp [upd, hj]
    · cases h
  | bootstrap i donor idx =>
    simp only [applyEvent, ok] at h
    split at h
    · rename_i hg; cases h
      by_cases hj : j = i
      · subst hj; rw [hg.2.2.2.2.2.2.2.2.2.2.1] at h1; cases h1
      · simp [upd, hj]
    · cases h
  | grant i c =>
    simp only [applyEvent, ok] at h
    split at h
    · split at h
      · cases h; by_cases hj : j = i <;> simp [upd, hj]
      · cases h
    · cases h
  | bump i t | campaign i | rdy i | crash i | win i cfg q | stepDown i | ackCommitted i | ackSelf i idx
  | commitLeader i c cfg q | commitApp i c m | commitHB i c m | commitClaim i m =>
    simp only [applyEvent, ok] at h
    split at h
    · cases h; by_cases hj : j = i <;> simp [upd, hj]
    · cases h
  | sendApp i m | sendHB i to c | claim i idx | sendSnap i idx =>
    simp only [applyEvent, ok] at h
    split at h
    · cases h; rfl
    · cases h

/-- at the moment of winning, the ghost leader log of the new term *is* the winner's log -/
theorem C03_leader_starts_with_own_log (s s' : PSys) (i : Nat) (cfg : Cfg) (q : List Nat)
    (h : applyEvent s (.win i cfg q) = .ok s') :
    s'.llog (s.nodes i).term = (s.nodes i).log ∧ (s'.nodes i).log = (s.nodes i).log := by
  simp only [applyEvent, ok] at h
  split at h
  · cases h; simp [upd, updT]
  · cases h

/-- in every reachable state a leader's log is the ghost log of its term, every entry of that log
has a term in [1, term], and every list anywhere agrees with the ghost logs (prefix-from-leader) -/
theorem C03_leader_log_is_ghost (s : PSys)
    (hr : Reach s) (i : Nat) (h : (s.nodes i).role = 2) :
    (s.nodes i).log = s.llog (s.nodes i).term ∧
    ∀ e ∈ s.llog (s.nodes i).term, 1 ≤ e.term ∧ e.term ≤ (s.nodes i).term := by
  have I := invL_reachR s hr
  exact ⟨I.ll i h, fun e he => I.lterm _ e he⟩

/-- **Leader Completeness**: in every reachable state of every history (membership changes
included), the ghost log of every elected term `t'` agrees, up to `p.2`, with the log of the leader of
every earlier term `p.1` that committed index `p.2` — i.e. whose own-term entry there was
acknowledged durably by a deciding quorum of the configuration it was acting under. -/
theorem C03_leader_completeness (s : PSys) (hr : Reach s) (p : Nat × Nat) (hp : p ∈ s.cmts) (t' : Nat)
    (hlt : p.1 < t') (hel : ∃ j, (t', j) ∈ s.elected) :
    (s.llog t').take p.2 = (s.llog p.1).take p.2 := by
  have I := invAll_reachR s hr
  exact leader_complete_ghost I.b I.c p hp t' (Nat.le_of_lt hlt) hel

/-- the evidence behind a recorded leader commit (what "committed" means here) -/
theorem C03_commit_evidence (s : PSys) (hr : Reach s) (p : Nat × Nat) (hp : p ∈ s.cmts) :
    0 < p.2 ∧ termAt (s.llog p.1) p.2 = p.1 ∧
    ∃ cfg q, (p, cfg) ∈ s.ccfgs ∧ cfg.isQuorum q = true ∧
      ∀ v ∈ q, ∃ a ∈ s.acks, a.term = p.1 ∧ a.frm = v ∧ p.2 ≤ a.idx := by
  obtain ⟨h1, _, h3, _, h5⟩ := (invAll_reachR s hr).c.c3.cq p hp
  exact ⟨h1, h3, h5⟩

/-- a node in the leader role holds every prefix committed by a leader of a term not beyond its own -/
theorem C03_leader_holds_committed (s : PSys)
    (hr : Reach s) (i : Nat) (hi : (s.nodes i).role = 2) (p : Nat × Nat) (hp : p ∈ s.cmts)
    (ht : p.1 ≤ (s.nodes i).term) : (s.nodes i).log.take p.2 = (s.llog p.1).take p.2 := by
  have I := invAll_reachR s hr
  exact leader_complete I.v I.l I.b I.c i hi p hp ht

/-- ... and so does, already, the log it was elected with (a new leader never has to be "repaired") -/
theorem C03_elected_with_committed (s : PSys)
    (hr : Reach s) (p : Nat × Nat) (hp : p ∈ s.cmts) (t : Nat) (ht : p.1 < t)
    (hel : ∃ j, (t, j) ∈ s.elected) : (s.elog t).take p.2 = (s.llog p.1).take p.2 :=
  (invAll_reachR s hr).c.lc p hp t ht hel

/-- every entry reported committed by anybody (C01's `Committed`) is held by every node in the leader
role of a term not before the committing leader's -/
theorem C03_leader_holds_every_committed_entry (s : PSys) (hr : Reach s) (i : Nat) (hi : (s.nodes i).role = 2) (p : Nat × Nat) (hp : p ∈ s.cmts)
    (ht : p.1 ≤ (s.nodes i).term) (k : Nat) (hk : 0 < k) (hkp : k ≤ p.2) :
    (s.nodes i).log[k - 1]? = (s.llog p.1)[k - 1]? :=
  getElem?_of_take_eq (C03_leader_holds_committed s hr i hi p hp ht) (by omega)

/-- the statement of the earlier rounds (`C03_full_statement`: the voter configuration changing along
the history) is now a theorem -/
theorem C03_full : ∀ (s : PSys), Reach s → ∀ i, (s.nodes i).role = 2 → ∀ p ∈ s.cmts,
    p.1 ≤ (s.nodes i).term → (s.nodes i).log.take p.2 = (s.llog p.1).take p.2 :=
  fun s hr i hi p hp ht => C03_leader_holds_committed s hr i hi p hp ht

/-! ### non-vacuity -/

example : upToDate 2 5 [⟨1, 0, 0⟩, ⟨2, 0, 0⟩] = true := by decide
example : upToDate 1 9 [⟨1, 0, 0⟩, ⟨2, 0, 0⟩] = false := by decide
example : upToDate 2 1 [⟨1, 0, 0⟩, ⟨2, 0, 0⟩] = false := by decide

end RaftProps.C03
