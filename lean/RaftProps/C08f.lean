import RaftProofs.ClusterRead4R

/-!
# C08, cluster level — Safe ReadIndex for FORWARDED reads (`ClusterSem`): the end-to-end theorem

`RaftProps/C08c.lean` proves Safe-ReadIndex linearizability for reads issued AT THE LEADER (bundle `RdHyp`,
whose fields `nori` / `norir` exclude forwarded reads); `RaftProps/C08e.lean` states the bundle for forwarded
reads, `RdHypF cfg c0 h` (`Hyp3w`, `safe`, `once`: one `MsgReadIndex` value is delivered at most once,
`uniqc` / `nonempty`: unique non-empty contexts over ALL `read_index` calls) and proves two halves.

This file proves the end-to-end statement **under `RdHypF` itself — no hypothesis is added**:

* `C08_cluster_forwarded_read_index_safe`: if the step `h[n] → h[n+1]` is a `read_index(ctx)` call on
  follower `f` that forwards the request (`FwdAt h n f ctx`) and a `ReadState` with `request_ctx = ctx`
  sits in the read states of any node `j` in any state `h[m]`, then `j = f`, `n < m`, and the index of the
  read state is at least the commit index of EVERY node in `h[n]`.

The proof (helpers `RaftProofs/ClusterRead4A–4O.lean`; see `C08f.REPORT.md`):
1. copies of the per-call read layer (`ClusterReadA–G` → `ClusterRead4A–4G`, namespace `RD.R4`) in which
   the projection `rdT` also covers `MsgReadIndex` / `MsgReadIndexResp` and `RInv` / `ROut` carry a clause
   `RirOk` for every queued `MsgReadIndexResp` (`index` / `entries` / `to` of a request that was pending,
   released by a joint quorum of acknowledgements for a request not before it in the queue);
2. generalised registration `R4.Reg` (= `RegAt ∨ FwdRegAt`) and the cluster invariants `pend_ok`,
   `occ_issued`, `hbr_floor`, `tgt_inv`, `quorum_no_higher` re-proved over it (`4I–4M`);
3. provenance of `MsgReadIndex` (`ri_prov`: context of a `FwdAt` call of the node named in `from`) and of
   `MsgReadIndexResp` (`rir_prov`: queued by a call that released a pending request), and of pending
   requests (`pend_src`);
4. **`once` + `uniqc` ⇒ a context is registered at most once in the whole cluster**
   (`C08_cluster_forwarded_unique_registration`, `4O`: the `MsgReadIndex` values carrying one context form
   a chain in which at most one value is undelivered, and none once the context has been registered);
5. the assembly (`4N`).

**Non-vacuity** (`C08_cluster_forwarded_nonvacuous`, `4P–4R`): a 24-state kernel-evaluated history that
satisfies the WHOLE bundle `RdHypF` — `once` / `uniqc` / `nonempty` included — in which follower 2
forwards `read_index([9])` (step 14), leader 1 registers it (step 16), answers it, and node 2 ends with the
read state `([9], 1)`; the theorem applies to it.
-/
namespace RaftProps.C08
open RaftModel RaftModel.Cluster RaftModel.Node RaftModel.Raft RaftModel.Raft.CC
open RaftProps.C02 RaftProps.C05

/-- **C08 `cluster_forwarded_read_index_safe`** — Safe ReadIndex is linearizable for reads forwarded by a
follower.

Let the step `h[n] → h[n+1]` be a `read_index(ctx)` call on node `f`, a follower with a known leader,
which queues a `MsgReadIndex` carrying `ctx` (`FwdAt`).  If in any state `h[m]` of the history a
`ReadState` with `request_ctx = ctx` sits in the read states of some node `j`, then `j = f`, `n < m`, and
`x.index` is at least the commit index of **every** node in `h[n]` — the highest commit index any node
had reached when the request was issued.  Hypotheses: `RdHypF` only. -/
theorem C08_cluster_forwarded_read_index_safe (cfg : JointConfig) (c0 : Nat) (h : List Sys)
    (H : RdHypF cfg c0 h) (n f : Nat) (ctx : Bytes) (hfwd : FwdAt h n f ctx)
    (sn : Sys) (hn : h[n]? = some sn)
    (m : Nat) (s : Sys) (hm : h[m]? = some s) (j : Nat) (stj : NState) (hj : s.node j = some stj)
    (x : ReadState) (hx : x ∈ stj.raft.readStates) (hctx : x.requestCtx = ctx) :
    j = f ∧ n < m ∧
    ∀ u stu, sn.node u = some stu → stu.raft.raftLog.committed ≤ x.index :=
  R4.fwd_read_ok (R4.RdHypF.toF2 H) hfwd hn m s hm j stj hj x hx hctx

/-- **`once` + `uniqc` give unique registration**: under `RdHypF` a context is made pending (by a local
`read_index` call, `RegAt`, or by a delivered `MsgReadIndex`, `FwdRegAt`) by at most one step of the
history, on one node.  (F17 is exactly a second registration, by a second delivery.) -/
theorem C08_cluster_forwarded_unique_registration (cfg : JointConfig) (c0 : Nat) (h : List Sys)
    (H : RdHypF cfg c0 h) (n1 n2 i1 i2 : Nat) (K : Bytes)
    (h1 : R4.Reg h n1 i1 K) (h2 : R4.Reg h n2 i2 K) : n1 = n2 ∧ i1 = i2 :=
  (R4.RdHypF.toF2 H).uniq_node h1 h2

/-- **provenance of the forwarded request**: a `MsgReadIndex` found in the transport (or in a queue) of
`h[k]` carries the context of a forwarding `read_index` call that the node named in `from` made at an
earlier step. -/
theorem C08_cluster_forwarded_msg_provenance (cfg : JointConfig) (c0 : Nat) (h : List Sys)
    (H : RdHypF cfg c0 h) (k : Nat) (s : Sys) (hk : h[k]? = some s) (x : Message)
    (hx : x ∈ s.net ∨ ∃ v st, s.node v = some st ∧ x ∈ st.raft.msgs)
    (hty : x.msgType = .msgReadIndex) :
    ∃ n ctx, n < k ∧ FwdAt h n x.frm ctx ∧ Raft.RD.reqCtx x = some ctx := by
  have P := R4.ri_prov H k s hk
  have : R4.RiSrc h k x := by
    rcases hx with c | ⟨v, st, hv, c⟩
    · exact P.net x c hty
    · exact P.q v st hv x c hty
  obtain ⟨n, f, ctx, g1, g2, g3, g4⟩ := this
  subst g4
  exact ⟨n, ctx, g1, g2, g3⟩

/-- **the registration behind a forwarded read, and its bound**: a delivered `MsgReadIndex` that
registers its context `K` at step `k` on node `l` (`FwdRegAt`) was forwarded by a `read_index(K)` call of
node `m.from` at an earlier step `n`, and whenever node `l` later releases the request (a joint quorum has
acknowledged a request not before `K` in its queue) the recorded read index is at least every commit
index of every state up to `h[k]` — this discharges the proviso of C08e's leader-side half. -/
theorem C08_cluster_forwarded_registration_bound (cfg : JointConfig) (c0 : Nat) (h : List Sys)
    (H : RdHypF cfg c0 h) (k l : Nat) (m : Message) (K : Bytes) (idx : Nat)
    (hreg : FwdRegAt h k l m K idx) :
    (∃ n, n < k ∧ FwdAt h n m.frm K) ∧
    ∀ (n' : Nat) (a : Sys) (v : Nat) (st : NState) (m' : Message) (rs0 : ReadIndexStatus)
      (Kack : Bytes) (acks : List Nat) (p i : Nat),
      h[n']? = some a → a.node v = some st →
      (m'.msgType = .msgHup ∨ (m' ∈ a.net ∧ m'.to = v)) →
      (K, rs0) ∈ st.raft.readOnly.pendingReadIndex →
      st.raft.readOnly.readIndexQueue[p]? = some K →
      st.raft.readOnly.readIndexQueue[i]? = some Kack → p ≤ i →
      Tracker.hasQuorum cfg acks = true → (∀ u ∈ acks, Raft.RD.R4.AckOk st.raft m' Kack u) →
      v = l ∧ k < n' ∧ ∀ nf sf, nf ≤ k → h[nf]? = some sf →
        ∀ u stu, sf.node u = some stu → stu.raft.raftLog.committed ≤ rs0.index :=
  ⟨R4.fwdReg_src H hreg, fun _ _ _ _ _ _ _ _ _ _ ha hva hm' c1 c5 c6 c7 c8 c9 =>
    R4.rel_bound (R4.RdHypF.toF2 H) (.inr ⟨m, idx, hreg⟩) ha hva hm' c1 c5 c6 c7 c8 c9⟩

set_option maxRecDepth 100000 in
/-- **non-vacuity** (kernel-evaluated): the history `c08z_hist` (24 states; voters 1, 2, 3) satisfies the
whole bundle `RdHypF`; step 14 is a forwarding `read_index([9])` call on follower 2; step 16 delivers the
forwarded `MsgReadIndex` to leader 1, which registers `[9]` with read index 1; in the last state node 2
holds the read state `([9], 1)`; and (the theorem applied) every node's commit index in `h[14]` is `≤ 1`. -/
theorem C08_cluster_forwarded_nonvacuous :
    RdHypF c02x_cfg 0 c08z_hist ∧ FwdAt c08z_hist 14 2 [9] ∧
    (∃ m, FwdRegAt c08z_hist 16 1 m [9] 1 ∧ m.frm = 2) ∧
    (∃ s st, c08z_hist[23]? = some s ∧ s.node 2 = some st ∧
      ({ index := 1, requestCtx := [9] } : ReadState) ∈ st.raft.readStates) ∧
    (∀ sn, c08z_hist[14]? = some sn → ∀ u stu, sn.node u = some stu →
      stu.raft.raftLog.committed ≤ 1) := by
  refine ⟨c08z_rdHypF, c08z_fwdAt, ⟨c08y_fwd, c08z_fwdRegAt, by decide⟩, c08z_read_state, ?_⟩
  intro sn hsn u stu hu
  obtain ⟨s, st, h1, h2, h3⟩ := c08z_read_state
  exact (C08_cluster_forwarded_read_index_safe c02x_cfg 0 c08z_hist c08z_rdHypF 14 2 [9] c08z_fwdAt
    sn hsn 23 s h1 2 st h2 _ h3 rfl).2.2 u stu hu

end RaftProps.C08
