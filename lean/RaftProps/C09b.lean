import RaftProps.C09
import RaftProps.C13b
import RaftProps.C05b
import RaftProofs.RaftNode
import RaftProofs.RaftNodeC09

/-!
# C09b — membership discipline on the executable node model

Node-level part of C09 (the algebraic part — `configOf`, restore ∘ toConfState = id — is
`RaftProps/C09.lean` over `RaftProps/C12.lean`).  Everything is proved on `RaftModel.Raft*` for all
states and messages unless a hypothesis is named.

1. `C09_proposal_filter_entry` / `_cons` / `_while_pending` / `_accept` / `_refuse` / `_normal` /
   `_malformed` / `_shape`: the proposal filter of `step_leader`, exactly.
2. `C09_become_leader_blocks_changes`.
3. `PendingOk` = `ConfBounded` ∧ `AtMostOneUnapplied`; established by `become_leader`
   (`C09_one_pending_change_become_leader`), preserved by `MsgPropose` (`…_propose`), by every
   `step_leader` / `step` on a leader (`…_step_leader`, `…_step`) and by `commit_apply` including the
   auto-leave append (`…_commit_apply`).
4. `C09_apply_conf_change_is_changer`, `C09_apply_conf_change_step`, `C09_node_config_is_configOf`,
   `C09_same_changes_same_config_node`, `C09_restore_is_restore`, `C09_node_config_after_restore`,
   `C09_promotable_is_voter_after_change`.
5. `C09_no_campaign_with_unapplied_change_node`, `C09_non_voter_never_campaigns_node` (restated).
6. examples.

Deviations from the informal statement, all explained at the theorems:
* a membership entry whose payload does not decode is **not** replaced by an empty entry: the whole
  proposal is dropped (`C09_malformed_proposal_dropped`);
* while joint, **every** non-empty change is refused (not only "enter joint"); "leave" means
  "`changes` is empty", whatever the transition;
* "at most one membership entry beyond applied" is an invariant of what a leader *appends*; a new
  leader can inherit two (last example), hence the hypothesis of
  `C09_one_pending_change_become_leader`; `ConfBounded` needs no hypothesis.
-/
namespace RaftProps.C09
open RaftModel RaftModel.Raft

/-! ## 1. the proposal filter -/

/-- what the filter reads in a proposed entry (raft.rs:2119-2136) -/
inductive Payload where
  /-- neither `EntryConfChange` (1) nor `EntryConfChangeV2` (2) -/
  | normal
  /-- a membership entry whose `data` does not decode -/
  | malformed
  /-- a membership entry; a legacy `ConfChange` is converted by `into_v2` -/
  | change (cc : ConfChangeV2)
  deriving DecidableEq, Repr

/-- the decoding step of the filter, with the model's decoders -/
def payload (e : Entry) : Payload :=
  if e.etype = 1 then
    (match decodeConfChange e.data with
      | none => .malformed
      | some c => .change c.intoV2)
  else if e.etype = 2 then
    (match decodeConfChangeV2 e.data with
      | none => .malformed
      | some c => .change c)
  else .normal

/-- a membership entry (`EntryConfChange` or `EntryConfChangeV2`) -/
def isConf (e : Entry) : Prop := e.etype = 1 ∨ e.etype = 2

instance (e : Entry) : Decidable (isConf e) := by unfold isConf; infer_instance

/-- `*e = Entry::default(); e.set_entry_type(EntryNormal)`: every field at its default -/
def emptyNormal : Entry := { etype := 0 }

/-- the three reasons of raft.rs:2138-2149 -/
def Refused (r : Raft) (cc : ConfChangeV2) : Prop :=
  r.raftLog.applied < r.pendingConfIndex ∨
  (joint r.prs.conf = true ∧ cc.changes ≠ []) ∨
  (joint r.prs.conf = false ∧ cc.changes = [])

instance (r : Raft) (cc : ConfChangeV2) : Decidable (Refused r cc) := by
  unfold Refused; infer_instance

theorem c09_refuse_iff (r : Raft) (cc : ConfChangeV2) :
    (if r.hasPendingConf = true then true
      else (joint r.prs.conf && !cc.changes.isEmpty) || (!joint r.prs.conf && cc.changes.isEmpty)) = true ↔
    Refused r cc := by
  unfold Refused Raft.hasPendingConf
  by_cases hp : r.raftLog.applied < r.pendingConfIndex
  · simp [hp]
  · cases hj : joint r.prs.conf <;> cases hc : cc.changes <;> simp [hp]

/-- **C09 (1) `proposal_filter`, one entry.**  The per-entry body of the filter, for every state,
position `i` in the batch and entry: a normal entry passes unchanged; a membership entry whose
payload does not decode aborts the filter (the whole proposal is dropped, see
`C09_proposal_filter_malformed`); a membership entry is **replaced by the empty normal entry** iff
`pending_conf_index > applied`, or the tracker is joint and the change is not empty, or the tracker
is not joint and the change is empty; otherwise it is kept and `pending_conf_index` becomes its
future index `last_index + i + 1`.  Nothing else of the node is written. -/
theorem C09_proposal_filter_entry (r : Raft) (i : Nat) (e : Entry) :
    r.filterProposalEntry i e =
      match payload e with
      | .normal => some (r, e)
      | .malformed => none
      | .change cc =>
        if Refused r cc then some (r, emptyNormal)
        else some ({ r with pendingConfIndex := r.raftLog.lastIndex + i + 1 }, e) := by
  unfold Raft.filterProposalEntry payload
  by_cases h1 : e.etype = 1
  · simp only [h1, if_true]
    cases hd : decodeConfChange e.data with
    | none => rfl
    | some c =>
      simp only
      by_cases hr : Refused r c.intoV2
      · have := (c09_refuse_iff r c.intoV2).2 hr
        simp only [this, hr, if_true, Bool.not_true, Bool.false_eq_true, if_false]; rfl
      · have : _ = false := Bool.eq_false_iff.2 (fun h => hr ((c09_refuse_iff r c.intoV2).1 h))
        simp only [this, hr, if_false, Bool.not_false, if_true]
  · by_cases h2 : e.etype = 2
    · simp only [if_neg h1, if_pos h2]
      cases hd : decodeConfChangeV2 e.data with
      | none => rfl
      | some c =>
        simp only
        by_cases hr : Refused r c
        · have := (c09_refuse_iff r c).2 hr
          simp only [this, hr, if_true, Bool.not_true, Bool.false_eq_true, if_false]; rfl
        · have : _ = false := Bool.eq_false_iff.2 (fun h => hr ((c09_refuse_iff r c).1 h))
          simp only [this, hr, if_false, Bool.not_false, if_true]
    · simp only [if_neg h1, if_neg h2]

/-- put the (possibly replaced) entry in front of the filtered rest; an aborted rest stays aborted -/
def keep (e : Entry) (p : Raft × Option (List Entry)) : Raft × Option (List Entry) :=
  (p.1, p.2.map (e :: ·))

/-- **C09 (1) `proposal_filter`, the batch loop**, unfolded once: the rest of the batch is filtered
in the state the first entry left — in particular with the `pending_conf_index` an accepted
membership entry has just set. -/
theorem C09_proposal_filter_cons (r : Raft) (i : Nat) (e : Entry) (es : List Entry) :
    r.filterProposal i (e :: es) =
      match payload e with
      | .normal => keep e (r.filterProposal (i + 1) es)
      | .malformed => (r, none)
      | .change cc =>
        if Refused r cc then keep emptyNormal (r.filterProposal (i + 1) es)
        else keep e (({ r with pendingConfIndex := r.raftLog.lastIndex + i + 1 } : Raft).filterProposal
          (i + 1) es) := by
  have hk : ∀ (e' : Entry) (p : Raft × Option (List Entry)),
      (match p with
        | (r, some es') => (r, some (e' :: es'))
        | (r, none) => (r, none)) = keep e' p := by
    intro e' p
    obtain ⟨r2, o⟩ := p
    cases o <;> rfl
  rw [Raft.filterProposal, C09_proposal_filter_entry]
  cases hp : payload e with
  | normal => simp only; exact hk _ _
  | malformed => rfl
  | change cc =>
    simp only
    by_cases hr : Refused r cc
    · simp only [hr, if_true]; exact hk _ _
    · simp only [hr, if_false]; exact hk _ _

theorem c09_payload_normal_iff (e : Entry) : payload e = .normal ↔ ¬ isConf e := by
  unfold payload isConf
  by_cases h1 : e.etype = 1
  · simp only [h1, true_or, not_true, iff_false]
    cases decodeConfChange e.data <;> simp
  · by_cases h2 : e.etype = 2
    · simp only [h2, or_true, not_true, iff_false]
      cases decodeConfChangeV2 e.data <;> simp
    · simp [h1, h2]

theorem c09_emptyNormal_not_conf : ¬ isConf emptyNormal := by decide

/-- what the filter makes of an entry while a change is pending -/
def blank (e : Entry) : Entry := if isConf e then emptyNormal else e

theorem c09_blank_not_conf (e : Entry) : ¬ isConf (blank e) := by
  unfold blank
  by_cases h : isConf e
  · rw [if_pos h]; exact c09_emptyNormal_not_conf
  · rw [if_neg h]; exact h

/-- **while a change is pending** (`pending_conf_index > applied`), every membership entry of a
batch (all of whose payloads decode) is replaced by the empty normal entry, normal entries pass, and
the node is not written -/
theorem C09_proposal_filter_while_pending (es : List Entry) : ∀ (r : Raft) (i : Nat),
    r.raftLog.applied < r.pendingConfIndex → (∀ e ∈ es, payload e ≠ .malformed) →
    r.filterProposal i es = (r, some (es.map blank)) := by
  induction es with
  | nil => intro r i _ _; rfl
  | cons e es ih =>
    intro r i hp hd
    have ih' := ih r (i + 1) hp (fun x hx => hd x (List.mem_cons_of_mem _ hx))
    rw [C09_proposal_filter_cons]
    cases hpe : payload e with
    | normal =>
      have : blank e = e := by
        unfold blank; rw [if_neg ((c09_payload_normal_iff e).1 hpe)]
      simp only [ih', keep, Option.map_some, List.map_cons, this]
    | malformed => exact absurd hpe (hd e (List.mem_cons_self))
    | change cc =>
      have hc : isConf e := by
        apply Classical.byContradiction
        intro hn
        rw [(c09_payload_normal_iff e).2 hn] at hpe
        cases hpe
      have : blank e = emptyNormal := by unfold blank; rw [if_pos hc]
      have hr : Refused r cc := Or.inl hp
      simp only [hr, if_true, ih', keep, Option.map_some, List.map_cons, this]

/-- **an accepted membership entry blocks the rest of its batch**: if the entry at position `i` is
accepted (no reason to refuse it) on a node whose apply cursor is within its log, then
`pending_conf_index` is its future index and every later membership entry of the same batch is
replaced by the empty normal entry -/
theorem C09_proposal_filter_accept (r : Raft) (i : Nat) (e : Entry) (es : List Entry)
    (cc : ConfChangeV2) (hpay : payload e = .change cc) (hr : ¬ Refused r cc)
    (hle : r.raftLog.applied ≤ r.raftLog.lastIndex + i)
    (hd : ∀ x ∈ es, payload x ≠ .malformed) :
    r.filterProposal i (e :: es) =
      ({ r with pendingConfIndex := r.raftLog.lastIndex + i + 1 }, some (e :: es.map blank)) := by
  rw [C09_proposal_filter_cons, hpay]
  simp only [hr, if_false]
  rw [C09_proposal_filter_while_pending es _ (i + 1) (by show r.raftLog.applied < r.raftLog.lastIndex + i + 1; omega) hd]
  rfl

/-- a refused membership entry (any of the three reasons) is replaced and the rest of the batch is
filtered in the unchanged state -/
theorem C09_proposal_filter_refuse (r : Raft) (i : Nat) (e : Entry) (es : List Entry)
    (cc : ConfChangeV2) (hpay : payload e = .change cc) (hr : Refused r cc) :
    r.filterProposal i (e :: es) = keep emptyNormal (r.filterProposal (i + 1) es) := by
  rw [C09_proposal_filter_cons, hpay]
  simp only [hr, if_true]

/-- a normal entry passes unchanged -/
theorem C09_proposal_filter_normal (r : Raft) (i : Nat) (e : Entry) (es : List Entry)
    (hn : ¬ isConf e) :
    r.filterProposal i (e :: es) = keep e (r.filterProposal (i + 1) es) := by
  rw [C09_proposal_filter_cons, (c09_payload_normal_iff e).2 hn]

/-- **a payload that does not decode aborts the filter** — the proposal is not appended at all
(`ProposalDropped`, see `C09_malformed_proposal_dropped`); it is *not* replaced by an empty entry -/
theorem C09_proposal_filter_malformed (es : List Entry) : ∀ (r : Raft) (i : Nat),
    (r.filterProposal i es).2 = none ↔ ∃ e ∈ es, payload e = .malformed := by
  induction es with
  | nil => intro r i; simp [Raft.filterProposal]
  | cons e es ih =>
    intro r i
    rw [C09_proposal_filter_cons]
    cases hpe : payload e with
    | normal =>
      simp only [keep, Option.map_eq_none_iff, ih, List.mem_cons, exists_eq_or_imp, hpe, reduceCtorEq,
        false_or]
    | malformed => simp [hpe]
    | change cc =>
      by_cases hr : Refused r cc
      · simp only [hr, if_true, keep, Option.map_eq_none_iff, ih, List.mem_cons, exists_eq_or_imp, hpe,
          reduceCtorEq, false_or]
      · simp only [hr, if_false, keep, Option.map_eq_none_iff, ih, List.mem_cons, exists_eq_or_imp, hpe,
          reduceCtorEq, false_or]

theorem c09_keep_eq {e : Entry} {p : Raft × Option (List Entry)} {r' : Raft}
    {oes : Option (List Entry)} (h : keep e p = (r', oes)) :
    ∃ o, p = (r', o) ∧ oes = o.map (e :: ·) := by
  obtain ⟨r2, o⟩ := p
  simp only [keep, Prod.mk.injEq] at h
  exact ⟨o, by rw [h.1], h.2.symm⟩

/-- **at most one membership entry survives the filter**, and it sits where `pending_conf_index`
points.  For a node whose apply cursor is within its log: either `pending_conf_index` is unchanged
and no membership entry is left in the batch, or no change was pending before, exactly one
membership entry (position `k`) is left and `pending_conf_index = last_index + i + k + 1`. -/
theorem C09_proposal_filter_shape (es : List Entry) : ∀ (r : Raft) (i : Nat) (r' : Raft)
    (oes : Option (List Entry)), r.raftLog.applied ≤ r.raftLog.lastIndex + i →
    r.filterProposal i es = (r', oes) →
    (r'.pendingConfIndex = r.pendingConfIndex ∧ ∀ es', oes = some es' → ∀ e ∈ es', ¬ isConf e) ∨
    (¬ r.raftLog.applied < r.pendingConfIndex ∧ ∃ k, k < es.length ∧
      r'.pendingConfIndex = r.raftLog.lastIndex + i + k + 1 ∧
      ∀ es', oes = some es' → ∀ j e, es'[j]? = some e → isConf e → j = k) := by
  induction es with
  | nil =>
    intro r i r' oes _ h
    simp only [Raft.filterProposal, Prod.mk.injEq] at h
    refine .inl ⟨by rw [← h.1], ?_⟩
    intro es' he e hx
    rw [← h.2] at he; cases he; cases hx
  | cons e es ih =>
    intro r i r' oes hle h
    rw [C09_proposal_filter_cons] at h
    -- an entry `e'` that is not a membership entry in front of the filtered rest
    have front : ∀ (e' : Entry), ¬ isConf e' → keep e' (r.filterProposal (i + 1) es) = (r', oes) →
        (r'.pendingConfIndex = r.pendingConfIndex ∧ ∀ es', oes = some es' → ∀ e ∈ es', ¬ isConf e) ∨
        (¬ r.raftLog.applied < r.pendingConfIndex ∧ ∃ k, k < (e :: es).length ∧
          r'.pendingConfIndex = r.raftLog.lastIndex + i + k + 1 ∧
          ∀ es', oes = some es' → ∀ j e, es'[j]? = some e → isConf e → j = k) := by
      intro e' hn hk
      obtain ⟨o, hf, ho⟩ := c09_keep_eq hk
      rcases ih r (i + 1) r' o (by omega) hf with ⟨h1, h2⟩ | ⟨h0, k, hk1, hk2, hk3⟩
      · refine .inl ⟨h1, ?_⟩
        intro es' he x hx
        rw [ho] at he
        cases o with
        | none => cases he
        | some es0 =>
          simp only [Option.map_some, Option.some.injEq] at he
          rw [← he] at hx
          rcases List.mem_cons.1 hx with hx | hx
          · rw [hx]; exact hn
          · exact h2 es0 rfl x hx
      · refine .inr ⟨h0, k + 1, by simp only [List.length_cons]; omega, by omega, ?_⟩
        intro es' he j x hj hc
        rw [ho] at he
        cases o with
        | none => cases he
        | some es0 =>
          simp only [Option.map_some, Option.some.injEq] at he
          rw [← he] at hj
          cases j with
          | zero =>
            simp only [List.getElem?_cons_zero, Option.some.injEq] at hj
            rw [← hj] at hc; exact absurd hc hn
          | succ j =>
            simp only [List.getElem?_cons_succ] at hj
            rw [hk3 es0 rfl j x hj hc]
    cases hpe : payload e with
    | normal =>
      rw [hpe] at h
      exact front e ((c09_payload_normal_iff e).1 hpe) h
    | malformed =>
      rw [hpe] at h
      simp only [Prod.mk.injEq] at h
      refine .inl ⟨by rw [← h.1], ?_⟩
      intro es' he
      rw [← h.2] at he; cases he
    | change cc =>
      rw [hpe] at h
      simp only at h
      by_cases hr : Refused r cc
      · simp only [hr, if_true] at h
        exact front emptyNormal c09_emptyNormal_not_conf h
      · simp only [hr, if_false] at h
        have hnp : ¬ r.raftLog.applied < r.pendingConfIndex := fun hp => hr (Or.inl hp)
        obtain ⟨o, hf, ho⟩ := c09_keep_eq h
        rcases ih _ (i + 1) r' o (by show r.raftLog.applied ≤ r.raftLog.lastIndex + (i + 1); omega) hf with
          ⟨h1, h2⟩ | ⟨h0, _⟩
        · refine .inr ⟨hnp, 0, by simp, by rw [h1], ?_⟩
          intro es' he j x hj hc
          rw [ho] at he
          cases o with
          | none => cases he
          | some es0 =>
            simp only [Option.map_some, Option.some.injEq] at he
            rw [← he] at hj
            cases j with
            | zero => rfl
            | succ j =>
              simp only [List.getElem?_cons_succ] at hj
              exact absurd hc (h2 es0 rfl x (List.mem_of_getElem? hj))
        · exact absurd (by show r.raftLog.applied < r.raftLog.lastIndex + i + 1; omega) h0

/-! ## 2. `become_leader` -/

/-- **C09 (2) `become_leader_blocks_changes`.**  A new leader sets `pending_conf_index` to the last
index of the log it *inherited* (before it appends its own empty entry), and does not move its apply
cursor.  Hence, as long as it has not applied everything it inherited, **every** membership proposal
is refused (replaced by the empty normal entry), whatever the change and whatever the tracker. -/
theorem C09_become_leader_blocks_changes (r r' : Raft) (h : r.becomeLeader = .ok r') :
    r'.pendingConfIndex = r.raftLog.lastIndex ∧ r'.raftLog.applied = r.raftLog.applied ∧
    r'.state = .leader ∧
    (r.raftLog.applied < r.raftLog.lastIndex → ∀ cc, Refused r' cc) := by
  have key : r'.pendingConfIndex = r.raftLog.lastIndex ∧ r'.raftLog.applied = r.raftLog.applied ∧
      r'.state = .leader := by
    unfold Raft.becomeLeader at h
    split at h
    · cases h
    · simp only [] at h
      split at h
      · cases h
      · split at h
        · cases h
        · rename_i pr hpr
          split at h
          · rename_i r2 happ
            cases h
            have hcf := appendEntry_cf happ CF.rfl
            have hfr := appendEntry_frame happ Frame.rfl
            refine ⟨?_, ?_, ?_⟩
            · rw [hcf.1]
              show (r.reset r.term).raftLog.lastIndex = _
              rw [reset_raftLog]
            · rw [hcf.2]
              show (r.reset r.term).raftLog.applied = _
              rw [reset_raftLog]
            · rw [hfr.state]
          · cases h
          · cases h
          · cases h
  refine ⟨key.1, key.2.1, key.2.2, ?_⟩
  intro hlt cc
  exact Or.inl (by rw [key.1, key.2.1]; exact hlt)

/-! ## 3. at most one pending membership change in a leader's log -/

/-- every membership entry of the log beyond the apply cursor is at or below `pending_conf_index`
("no membership entry above `max applied pending_conf_index`") -/
def ConfBounded (r : Raft) : Prop :=
  ∀ i e, r.raftLog.abs.entryAt i = some e → isConf e → r.raftLog.applied < i →
    i ≤ r.pendingConfIndex

/-- the log holds at most one membership entry beyond the apply cursor -/
def AtMostOneUnapplied (r : Raft) : Prop :=
  ∀ i j ei ej, r.raftLog.abs.entryAt i = some ei → isConf ei → r.raftLog.applied < i →
    r.raftLog.abs.entryAt j = some ej → isConf ej → r.raftLog.applied < j → i = j

/-- the membership discipline of a leader's log -/
structure PendingOk (r : Raft) : Prop where
  bounded : ConfBounded r
  one : AtMostOneUnapplied r

/-- when no change is pending (`pending_conf_index ≤ applied`, the only situation in which the
filter lets a membership entry through), the log holds **no** unapplied membership entry -/
theorem C09_no_unapplied_change_when_not_pending (r : Raft) (hb : ConfBounded r)
    (hnp : ¬ r.raftLog.applied < r.pendingConfIndex) :
    ∀ i e, r.raftLog.abs.entryAt i = some e → isConf e → i ≤ r.raftLog.applied := by
  intro i e he hc
  apply Classical.byContradiction
  intro hgt
  have := hb i e he hc (by omega)
  omega

/-- where the entries of a log that grew by `es` come from -/
theorem c09_appended_entryAt {a r : Raft} {es : List Entry} (hinv : a.raftLog.Inv)
    (h : Appended a r es) (x : Nat) (e : Entry) (hx : r.raftLog.abs.entryAt x = some e) :
    (x ≤ a.raftLog.lastIndex ∧ a.raftLog.abs.entryAt x = some e) ∨
    (a.raftLog.lastIndex < x ∧ es[x - a.raftLog.lastIndex - 1]? = some e) := by
  have hla := hinv.lastIndex_abs
  simp only [LLog.lastIndex] at hla
  rw [h.abs] at hx
  by_cases hle : x ≤ a.raftLog.lastIndex
  · rw [RaftProps.C05.c05_append_entryAt _ _ _ (by simp only [LLog.lastIndex]; omega)] at hx
    exact .inl ⟨hle, hx⟩
  · refine .inr ⟨by omega, ?_⟩
    unfold LLog.entryAt at hx
    dsimp only at hx
    rw [if_neg (by omega), List.getElem?_append_right (by omega)] at hx
    rw [← hx]
    congr 1
    omega

theorem c09_stamp_conf {t s : Nat} {es : List Entry} {k : Nat} {e : Entry}
    (h : (stampFrom t s es)[k]? = some e) (hc : isConf e) :
    ∃ e0, es[k]? = some e0 ∧ isConf e0 := by
  rw [stampFrom_getElem?] at h
  cases h0 : es[k]? with
  | none => rw [h0] at h; cases h
  | some e0 =>
    rw [h0] at h
    simp only [Option.map_some, Option.some.injEq] at h
    refine ⟨e0, rfl, ?_⟩
    rw [← h] at hc
    exact hc

/-- the conclusion of `C09_proposal_filter_shape` at position 0, as a relation between the node
before the filter (`pci`, its log) and the filter's output -/
def FilterOut (a : Raft) (pci' : Nat) (oes : Option (List Entry)) : Prop :=
  (pci' = a.pendingConfIndex ∧ ∀ es', oes = some es' → ∀ e ∈ es', ¬ isConf e) ∨
  (¬ a.raftLog.applied < a.pendingConfIndex ∧ ∃ k,
    pci' = a.raftLog.lastIndex + k + 1 ∧
    ∀ es', oes = some es' → ∀ j e, es'[j]? = some e → isConf e → j = k)

/-- the invariant survives a filter run after which nothing is appended (malformed payload, size
limit): `pending_conf_index` may have moved beyond the log, which only weakens what it promises -/
theorem c09_pending_after_drop {a r' : Raft} {oes : Option (List Entry)} (hok : PendingOk a)
    (hf : FilterOut a r'.pendingConfIndex oes) (habs : r'.raftLog.abs = a.raftLog.abs)
    (happ : r'.raftLog.applied = a.raftLog.applied) : PendingOk r' := by
  constructor
  · intro i e he hc hi
    rw [habs] at he
    rw [happ] at hi
    rcases hf with ⟨h1, _⟩ | ⟨h0, _⟩
    · rw [h1]; exact hok.bounded i e he hc hi
    · have := C09_no_unapplied_change_when_not_pending a hok.bounded h0 i e he hc
      omega
  · intro i j ei ej hi1 hi2 hi3 hj1 hj2 hj3
    rw [habs] at hi1 hj1
    rw [happ] at hi3 hj3
    exact hok.one i j ei ej hi1 hi2 hi3 hj1 hj2 hj3

/-- the invariant survives the append of a filtered batch -/
theorem c09_pending_after_append {a r1 r' : Raft} {es : List Entry}
    (hok : PendingOk a) (hf : FilterOut a r'.pendingConfIndex (some es))
    (hl1 : r1.raftLog.abs = a.raftLog.abs) (hli : r1.raftLog.lastIndex = a.raftLog.lastIndex)
    (hinv1 : r1.raftLog.Inv) {t : Nat}
    (hA : Appended r1 r' (stampFrom t (r1.raftLog.lastIndex + 1) es))
    (happ : r'.raftLog.applied = a.raftLog.applied) : PendingOk r' := by
  -- classification of the membership entries of the new log
  have cls : ∀ x e, r'.raftLog.abs.entryAt x = some e → isConf e →
      (a.raftLog.abs.entryAt x = some e) ∨
      (a.raftLog.lastIndex < x ∧ ∃ e0, es[x - a.raftLog.lastIndex - 1]? = some e0 ∧ isConf e0) := by
    intro x e hx hc
    rcases c09_appended_entryAt hinv1 hA x e hx with ⟨_, h2⟩ | ⟨h1, h2⟩
    · rw [hl1] at h2; exact .inl h2
    · rw [hli] at h1 h2
      exact .inr ⟨h1, c09_stamp_conf h2 hc⟩
  rcases hf with ⟨h1, h2⟩ | ⟨h0, k, hk1, hk2⟩
  · -- nothing accepted: all membership entries are old ones
    have old : ∀ x e, r'.raftLog.abs.entryAt x = some e → isConf e →
        a.raftLog.abs.entryAt x = some e := by
      intro x e hx hc
      rcases cls x e hx hc with h | ⟨_, e0, he0, hc0⟩
      · exact h
      · exact absurd hc0 (h2 es rfl e0 (List.mem_of_getElem? he0))
    constructor
    · intro i e he hc hi
      rw [happ] at hi
      rw [h1]; exact hok.bounded i e (old i e he hc) hc hi
    · intro i j ei ej hi1 hi2 hi3 hj1 hj2 hj3
      rw [happ] at hi3 hj3
      exact hok.one i j ei ej (old i ei hi1 hi2) hi2 hi3 (old j ej hj1 hj2) hj2 hj3
  · -- one accepted at position `k`: there was no unapplied membership entry before
    have new : ∀ x e, r'.raftLog.abs.entryAt x = some e → isConf e → a.raftLog.applied < x →
        x = a.raftLog.lastIndex + k + 1 := by
      intro x e hx hc hgt
      rcases cls x e hx hc with h | ⟨hlt, e0, he0, hc0⟩
      · have := C09_no_unapplied_change_when_not_pending a hok.bounded h0 x e h hc
        omega
      · have := hk2 es rfl _ e0 he0 hc0
        omega
    constructor
    · intro i e he hc hi
      rw [happ] at hi
      rw [hk1, new i e he hc hi]
      exact Nat.le_refl _
    · intro i j ei ej hi1 hi2 hi3 hj1 hj2 hj3
      rw [happ] at hi3 hj3
      rw [new i ei hi1 hi2 hi3, new j ej hj1 hj2 hj3]

/-- what `step_leader` does with a `MsgPropose` (raft.rs:2097-2170): dropped before the filter
(leader not in its own configuration, transfer in progress); dropped by the filter (malformed
payload) or by the uncommitted-size limit — the node is then the filter's output state, i.e. the old
one up to `pending_conf_index`; or the filtered entries are appended and broadcast -/
theorem c09_stepLeader_propose {r r' : Raft} {m : Message} {e : Option RaftError}
    (hinv : r.raftLog.Inv) (hs : r.state = .leader) (hm : m.msgType = .msgPropose)
    (h : r.stepLeader m = .ok (r', e)) :
    (r' = r ∧ e = some .proposalDropped) ∨
    ∃ r1 oes, r.filterProposal 0 m.entries = (r1, oes) ∧
      ((r' = r1 ∧ e = some .proposalDropped) ∨
       ∃ es, oes = some es ∧ e = none ∧ CF r1 r' ∧
         (LS r1 r' ∨ Appended r1 r' (stampFrom r1.term (r1.raftLog.lastIndex + 1) es))) := by
  unfold Raft.stepLeader at h
  split at h
  · rename_i hx; rw [hm] at hx; cases hx
  · rename_i hx; rw [hm] at hx; cases hx
  · split at h
    · cases h
    · split at h
      · cases h; exact .inl ⟨rfl, rfl⟩
      · split at h
        · cases h; exact .inl ⟨rfl, rfl⟩
        · split at h
          · rename_i r1 hf
            cases h
            exact .inr ⟨_, _, hf, .inl ⟨rfl, rfl⟩⟩
          · rename_i r1 es hf
            have hl1 : LS r r1 := filterProposal_ls _ _ _ _ _ hf LS.rfl
            have hf1 : Frame r r1 := RaftModel.Raft.filterProposal_frame _ _ _ _ _ hf Frame.rfl
            refine .inr ⟨_, _, hf, ?_⟩
            split at h
            · rename_i r2 happ
              cases h
              rcases appendEntry_cases (hl1.inv hinv) (hf1.state.trans hs) happ with
                ⟨_, he⟩ | ⟨hb, _⟩ | ⟨hb, _⟩
              · exact .inl ⟨he, rfl⟩
              · cases hb
              · cases hb
            · rename_i r2 happ
              rw [Res.bind_eq_ok_iff] at h
              obtain ⟨r3, hb, h3⟩ := h
              cases h3
              have hcf : CF r1 r' := bcastAppend_cf hb (appendEntry_cf happ CF.rfl)
              rcases appendEntry_cases (hl1.inv hinv) (hf1.state.trans hs) happ with
                ⟨hb', _⟩ | ⟨_, _, hl2, _⟩ | ⟨_, hA, hf2⟩
              · cases hb'
              · exact .inr ⟨es, rfl, rfl, hcf, .inl (bcastAppend_ls hb hl2)⟩
              · exact .inr ⟨es, rfl, rfl, hcf, .inr
                  (hA.right (bcastAppend_ls hb LS.rfl) (bcastAppend_frame hb Frame.rfl))⟩
            · cases h
            · cases h
  all_goals (rename_i hx; rw [hm] at hx; first | cases hx | contradiction)

/-- `step_leader` on anything but a proposal keeps `pending_conf_index` and the apply cursor — or
the leader stepped down (`MsgCheckQuorum` without an active quorum; `become_follower` resets
`pending_conf_index`) -/
theorem c09_stepLeader_other {r r' : Raft} {m : Message} {e : Option RaftError}
    (hm : m.msgType ≠ .msgPropose) (h : r.stepLeader m = .ok (r', e)) :
    CF r r' ∨ r'.state = .follower := by
  unfold Raft.stepLeader at h
  split at h
  · refine .inl ?_
    cf_auto h [bcastHeartbeat_cf]
  · split at h
    rename_i r1 active hq
    have h1 : CF r r1 := checkQuorumActive_cf hq CF.rfl
    split at h
    · cases h; exact .inr rfl
    · cases h; exact .inl h1
  · rename_i hx; exact absurd hx hm
  · refine .inl ?_
    cf_auto h [handleReadyReadIndex_cf, send_cf, bcastHeartbeatWithCtx_cf]
  · refine .inl ?_
    cf_auto h [handleAppendResponse_cf]
  · refine .inl ?_
    cf_auto h [handleHeartbeatResponse_cf]
  · cases h; exact .inl (handleSnapshotStatus_cf CF.rfl)
  · cases h; exact .inl (handleUnreachable_cf CF.rfl)
  · refine .inl ?_
    cf_auto h [handleTransferLeader_cf]
  · cases h; exact .inl CF.rfl

/-- the invariant only reads the logical log, the apply cursor and `pending_conf_index` -/
theorem c09_pending_of_same {a r : Raft} (hok : PendingOk a) (habs : r.raftLog.abs = a.raftLog.abs)
    (hcf : CF a r) : PendingOk r := by
  obtain ⟨hp, ha⟩ := hcf
  constructor
  · intro i e he hc hi
    rw [habs] at he; rw [ha] at hi; rw [hp]
    exact hok.bounded i e he hc hi
  · intro i j ei ej hi1 hi2 hi3 hj1 hj2 hj3
    rw [habs] at hi1 hj1; rw [ha] at hi3 hj3
    exact hok.one i j ei ej hi1 hi2 hi3 hj1 hj2 hj3

theorem c09_filterOut {r r1 : Raft} {m : Message} {oes : Option (List Entry)}
    (hap : r.raftLog.applied ≤ r.raftLog.lastIndex)
    (hf : r.filterProposal 0 m.entries = (r1, oes)) :
    FilterOut r r1.pendingConfIndex oes ∧ r1.raftLog = r.raftLog := by
  constructor
  · rcases C09_proposal_filter_shape m.entries r 0 r1 oes (by omega) hf with h | ⟨h0, k, _, hk1, hk2⟩
    · exact .inl h
    · exact .inr ⟨h0, k, by omega, hk2⟩
  · have := RaftProps.C13.filterProposal_frame m.entries r 0
    rw [hf] at this
    simp only at this
    rw [this]

/-- **C09 (3) `one_pending_change`, preservation by a proposal.**  On a leader whose log satisfies
the representation invariant and whose apply cursor is within the log, `MsgPropose` keeps
`PendingOk` — whatever the batch (several membership entries, malformed payloads) and whatever the
outcome: appended, dropped before the filter, dropped by the filter (malformed payload) or dropped
by the uncommitted-size limit.  In the last two cases `pending_conf_index` may already have moved to
an index at which no membership entry was appended; this does not break the invariant (it only
makes `pending_conf_index` an over-approximation: see the example "dropped proposal" in section 6
and the last example of `RaftProps/C13b.lean`). -/
theorem C09_one_pending_change_propose (r r' : Raft) (m : Message) (e : Option RaftError)
    (hinv : RaftProps.C14.RaftLogInv r.raftLog) (hap : r.raftLog.applied ≤ r.raftLog.lastIndex)
    (hs : r.state = .leader) (hm : m.msgType = .msgPropose) (hok : PendingOk r)
    (h : r.stepLeader m = .ok (r', e)) : PendingOk r' := by
  rcases c09_stepLeader_propose hinv hs hm h with ⟨h1, _⟩ | ⟨r1, oes, hf, hc⟩
  · rw [h1]; exact hok
  · obtain ⟨hF, hlog⟩ := c09_filterOut hap hf
    rcases hc with ⟨h1, _⟩ | ⟨es, ho, _, hcf, hl | hA⟩
    · rw [h1]
      exact c09_pending_after_drop hok hF (by rw [hlog]) (by rw [hlog])
    · refine c09_pending_after_drop (oes := oes) hok (by rw [hcf.1]; exact hF) ?_ ?_
      · rw [hl.abs, hlog]
      · rw [hcf.2, hlog]
    · subst ho
      refine c09_pending_after_append (r1 := r1) hok (by rw [hcf.1]; exact hF) (by rw [hlog])
        (by rw [hlog]) (by rw [hlog]; exact hinv) hA ?_
      rw [hcf.2, hlog]

/-- **C09 (3), every message**: `step_leader` keeps `PendingOk` as long as the node stays leader
(it changes the log only by `MsgPropose`, `C05_log_changes_only_by`, and `pending_conf_index` only
in the proposal filter) -/
theorem C09_one_pending_change_step_leader (r r' : Raft) (m : Message) (e : Option RaftError)
    (hinv : RaftProps.C14.RaftLogInv r.raftLog) (hap : r.raftLog.applied ≤ r.raftLog.lastIndex)
    (hs : r.state = .leader) (hok : PendingOk r) (h : r.stepLeader m = .ok (r', e))
    (hs' : r'.state = .leader) : PendingOk r' := by
  by_cases hm : m.msgType = .msgPropose
  · exact C09_one_pending_change_propose r r' m e hinv hap hs hm hok h
  · rcases stepLeader_log hinv LS.rfl hs h with hl | ⟨hm', _⟩
    · rcases c09_stepLeader_other hm h with hcf | hf
      · exact c09_pending_of_same hok hl.abs hcf
      · rw [hf] at hs'; cases hs'
    · exact absurd hm' hm

/-- **C09 (3) `one_pending_change`, establishment.**  `become_leader` on a log satisfying the
representation invariant yields `ConfBounded` **unconditionally** (every inherited entry is at or
below `pending_conf_index = ` the inherited last index, and the appended empty entry is not a
membership entry), and `AtMostOneUnapplied` if the inherited log had at most one unapplied
membership entry. -/
theorem C09_one_pending_change_become_leader (r r' : Raft)
    (hinv : RaftProps.C14.RaftLogInv r.raftLog) (h : r.becomeLeader = .ok r') :
    ConfBounded r' ∧ (AtMostOneUnapplied r → PendingOk r') := by
  obtain ⟨hp, ha, _, _⟩ := C09_become_leader_blocks_changes r r' h
  have hw : Won r r' := becomeLeader_won hinv LS.rfl h
  have old : ∀ x e, r'.raftLog.abs.entryAt x = some e → isConf e →
      x ≤ r.raftLog.lastIndex ∧ r.raftLog.abs.entryAt x = some e := by
    intro x e hx hc
    rcases c09_appended_entryAt hinv hw x e hx with h1 | ⟨h1, h2⟩
    · exact h1
    · have : x - r.raftLog.lastIndex - 1 = 0 := by
        cases hk : x - r.raftLog.lastIndex - 1 with
        | zero => rfl
        | succ n => rw [hk] at h2; simp at h2
      rw [this] at h2
      simp only [List.getElem?_cons_zero, Option.some.injEq] at h2
      rw [← h2] at hc
      exact absurd hc (by unfold isConf leaderNoop; simp)
  have hb : ConfBounded r' := by
    intro i e he hc _
    rw [hp]; exact (old i e he hc).1
  refine ⟨hb, fun h1 => ⟨hb, ?_⟩⟩
  intro i j ei ej hi1 hi2 hi3 hj1 hj2 hj3
  rw [ha] at hi3 hj3
  exact h1 i j ei ej (old i ei hi1 hi2).2 hi2 hi3 (old j ej hj1 hj2).2 hj2 hj3

/-! ### through `Raft::step` -/

/-- the term preamble of `step` on a message whose term is not above the node's: nothing the
invariant reads is touched, and the dispatch (if any) runs on the unchanged node -/
theorem c09_stepTerm_low {r r1 : Raft} {m : Message} {b : Bool} (ht : m.term ≤ r.term)
    (h : r.stepTerm m = .ok (r1, b)) :
    CF r r1 ∧ LS r r1 ∧ (b = true → r1 = r) := by
  refine ⟨?_, stepTerm_ls h LS.rfl, ?_⟩
  · unfold Raft.stepTerm at h
    split at h
    · cases h; exact CF.rfl
    · split at h
      · omega
      · cf_auto h [send_cf]
  · intro hb
    subst hb
    unfold Raft.stepTerm at h
    split at h
    · cases h; rfl
    · split at h
      · omega
      · split at h
        · split at h
          · split at h <;> cases h
          · split at h
            · split at h <;> cases h
            · cases h
        · cases h; rfl

/-- a leader answering a vote request keeps `pending_conf_index`, the apply cursor and the log -/
theorem c09_stepVote_leader {r r' : Raft} {m : Message} (hs : r.state = .leader)
    (h : r.stepVote m = .ok r') : CF r r' := by
  unfold Raft.stepVote at h
  split at h
  · cases h
  · split at h
    · unfold Raft.stepVoteGrant at h
      cf_auto h [send_cf]
    · unfold Raft.stepVoteReject at h
      split at h
      · cases h
      · cases h
      · split at h
        · rename_i r2 hsend
          have hst : r2.state = .leader := by rw [send_eq _ _ _ hsend]; exact hs
          have h2 : CF r r2 := send_cf hsend CF.rfl
          split at h
          · unfold Raft.maybeCommitByVote at h
            split at h
            · cases h; exact h2
            · simp only [hst, or_true, if_true] at h
              cases h; exact h2
          · cases h; exact h2
        · cases h
        · cases h
    · cases h
    · cases h

/-- **C09 (3) through `Raft::step`**: on a leader, any message whose term is not above the leader's
(messages of a higher term depose it) keeps `PendingOk` as long as the node is still leader
afterwards -/
theorem C09_one_pending_change_step (r r' : Raft) (m : Message) (e : Option RaftError)
    (hinv : RaftProps.C14.RaftLogInv r.raftLog) (hap : r.raftLog.applied ≤ r.raftLog.lastIndex)
    (hs : r.state = .leader) (hterm : m.term ≤ r.term) (hok : PendingOk r)
    (h : r.step m = .ok (r', e)) (hs' : r'.state = .leader) : PendingOk r' := by
  unfold Raft.step at h
  split at h
  · cases h
  · cases h
  · rename_i r1 ht
    cases h
    obtain ⟨hcf, hls, _⟩ := c09_stepTerm_low hterm ht
    exact c09_pending_of_same hok hls.abs hcf
  · rename_i r1 ht
    have h1 : r1 = r := (c09_stepTerm_low hterm ht).2.2 rfl
    subst h1
    split at h
    · unfold Raft.hup at h
      rw [if_pos hs] at h
      cases h; exact hok
    · split at h
      · rename_i r2 hv
        cases h
        exact c09_pending_of_same hok (stepVote_ls hv LS.rfl).abs (c09_stepVote_leader hs hv)
      · cases h
      · cases h
    · split at h
      · rename_i r2 hv
        cases h
        exact c09_pending_of_same hok (stepVote_ls hv LS.rfl).abs (c09_stepVote_leader hs hv)
      · cases h
      · cases h
    · rw [hs] at h
      exact C09_one_pending_change_step_leader r1 r' m e hinv hap hs hok h hs'

/-! ### the other writer: `commit_apply` (auto-leave) -/

theorem c09_applyCursor (l l' : RaftLog) (applied : Nat) (skip : Bool)
    (hsk : skip = true → l.applied ≤ applied)
    (h : (if (!skip) = true then l.appliedTo applied
          else if applied = 0 then Res.panic "raft.commit_apply_internal.assert"
          else Res.ok { l with applied := applied }) = .ok l') :
    ∃ a', l.applied ≤ a' ∧ l' = { l with applied := a' } ∧ (applied ≠ 0 → a' = applied) := by
  cases skip with
  | false =>
    simp only [Bool.not_false, if_true] at h
    unfold RaftLog.appliedTo at h
    split at h
    · rename_i h0
      cases h
      exact ⟨l.applied, Nat.le_refl _, rfl, fun hne => absurd h0 hne⟩
    · split at h
      · cases h
      · rename_i hc
        cases h
        exact ⟨applied, by omega, rfl, fun _ => rfl⟩
  | true =>
    simp only [Bool.not_true, Bool.false_eq_true, if_false] at h
    split at h
    · cases h
    · cases h
      exact ⟨applied, hsk rfl, rfl, fun _ => rfl⟩

/-- **C09 (3), the second writer of a leader's log.**  `commit_apply` (the application reports the
new apply index; with `skip_check` the index must not go backwards) keeps `PendingOk` — including
the *auto-leave* case, in which the leader itself appends the empty `ConfChangeV2` that leaves the
joint configuration and sets `pending_conf_index` to its index: this happens only when the apply
cursor has reached the old `pending_conf_index`, i.e. when no unapplied membership entry is left.
(`C05_log_changes_only_by` is about `step`; this append happens outside `step`.) -/
theorem C09_one_pending_change_commit_apply (r r' : Raft) (applied : Nat) (skip : Bool)
    (hinv : RaftProps.C14.RaftLogInv r.raftLog)
    (hsk : skip = true → r.raftLog.applied ≤ applied) (hok : PendingOk r)
    (h : r.commitApplyInternal applied skip = .ok r') : PendingOk r' := by
  unfold Raft.commitApplyInternal at h
  simp only [] at h
  split at h
  · cases h
  · cases h
  · rename_i log hlog
    obtain ⟨a', hge, hl, ha0⟩ := c09_applyCursor _ _ _ _ hsk hlog
    have habs : log.abs = r.raftLog.abs := by rw [hl]; rfl
    have hinv1 : log.Inv := by
      rw [hl]
      exact hinv.set_cursors r.raftLog.committed r.raftLog.persisted a' hinv.dummy_le_committed
        hinv.committed_le_last hinv.persisted_lt_off hinv.persisted_le_store
    have hli : log.lastIndex = r.raftLog.lastIndex := by rw [hl]; rfl
    have happ : log.applied = a' := by rw [hl]
    -- the node with the moved apply cursor
    have hok1 : PendingOk { r with raftLog := log } := by
      constructor
      · intro i e he hc hi
        exact hok.bounded i e (by rw [← habs]; exact he) hc
          (by have : a' < i := by rw [← happ]; exact hi
              omega)
      · intro i j ei ej hi1 hi2 hi3 hj1 hj2 hj3
        have h1 : a' < i := by rw [← happ]; exact hi3
        have h2 : a' < j := by rw [← happ]; exact hj3
        exact hok.one i j ei ej (by rw [← habs]; exact hi1) hi2 (by omega)
          (by rw [← habs]; exact hj1) hj2 (by omega)
    split at h
    · rename_i hcond
      obtain ⟨_, hc1, hc2, hc3⟩ := hcond
      have hpa : r.pendingConfIndex ≤ a' := by
        by_cases h0 : applied = 0
        · have : r.pendingConfIndex ≤ applied := hc2
          omega
        · rw [ha0 h0]; exact hc2
      split at h
      · rename_i r2 happe
        cases h
        have hcf : CF _ r2 := appendEntry_cf happe CF.rfl
        rcases appendEntry_cases (r := { r with raftLog := log }) hinv1 hc3 happe with
          ⟨hb, _⟩ | ⟨_, he, _⟩ | ⟨_, hA, _⟩
        · cases hb
        · cases he
        · have hlast : r2.raftLog.lastIndex = r.raftLog.lastIndex + 1 := by
            rw [hA.last]; simp only [stampFrom, List.length_cons, List.length_nil]
            show log.lastIndex + _ = _
            rw [hli]
          have hap2 : r2.raftLog.applied = a' := by rw [hcf.2]; exact happ
          have new : ∀ x e, r2.raftLog.abs.entryAt x = some e → isConf e → a' < x →
              x = r.raftLog.lastIndex + 1 := by
            intro x e hx hc hgt
            rcases c09_appended_entryAt (a := { r with raftLog := log }) hinv1 hA x e hx with
              ⟨_, h2⟩ | ⟨h1, h2⟩
            · have h2' : r.raftLog.abs.entryAt x = some e := by rw [← habs]; exact h2
              have := hok.bounded x e h2' hc (by omega)
              omega
            · have h1' : r.raftLog.lastIndex < x := by rw [← hli]; exact h1
              cases hk : x - log.lastIndex - 1 with
              | zero => rw [hli] at hk; omega
              | succ n =>
                have h2' := h2
                change (stampFrom _ _ _)[x - log.lastIndex - 1]? = some e at h2'
                rw [hk] at h2'
                simp [stampFrom] at h2'
          constructor
          · intro i e he hc hi
            show i ≤ r2.raftLog.lastIndex
            have : a' < i := by rw [← hap2]; exact hi
            rw [hlast, new i e he hc this]
            exact Nat.le_refl _
          · intro i j ei ej hi1 hi2 hi3 hj1 hj2 hj3
            have h1 : a' < i := by rw [← hap2]; exact hi3
            have h2 : a' < j := by rw [← hap2]; exact hj3
            rw [new i ei hi1 hi2 h1, new j ej hj1 hj2 h2]
      · cases h
      · cases h
      · cases h
    · cases h
      exact hok1

/-! ## 4. `apply_conf_change` is the changer of C12 -/

open RaftProps.C12 in
/-- the changer method `Raft::apply_conf_change` picks for a change (raft.rs:2863-2869) -/
def opOf (cc : ConfChangeV2) : Op :=
  match cc.classify with
  | .leave => .leaveJoint
  | .enter al => .enterJoint al cc.changes
  | .simple => .simple cc.changes

theorem c09_opOf_run (t : Tracker) (cc : ConfChangeV2) :
    (opOf cc).run t =
      (match cc.classify with
        | .leave => leaveJoint t
        | .enter al => enterJoint t al cc.changes
        | .simple => simple t cc.changes) := by
  unfold opOf
  cases cc.classify <;> rfl

theorem c09_applyConfChange_eq (r : Raft) (cc : ConfChangeV2) :
    r.applyConfChange cc =
      match (opOf cc).run r.prs.toCC with
      | .error e => .ok (r, .error e)
      | .ok (cfg, changes) =>
        ({ r with prs := r.prs.applyConf cfg changes r.raftLog.lastIndex } : Raft).postConfChange.bind
          (fun (r, cs) => .ok (r, .ok cs)) := by
  unfold Raft.applyConfChange opOf
  cases cc.classify <;> rfl

/-- **C09 (4) `apply_conf_change_is_changer`.**  On the node, `apply_conf_change` runs exactly the
changer method of the classification (`leave_joint` / `enter_joint(auto_leave)` / `simple`) on the
changer's view of its tracker (`toCC`: configuration + key set of the progress map):
* if the changer rejects the change, the node is returned **untouched** with the error;
* otherwise, whatever `post_conf_change` then does (step down, commit, send, answer reads), the
  node's configuration and progress key set are exactly `Tracker.applyConf` of the changer's result,
  and the returned `ConfState` is `to_conf_state` of the new configuration. -/
theorem C09_apply_conf_change_is_changer (r : Raft) (cc : ConfChangeV2) :
    (∀ e, (opOf cc).run r.prs.toCC = .error e → r.applyConfChange cc = .ok (r, .error e)) ∧
    (∀ cfg changes, (opOf cc).run r.prs.toCC = .ok (cfg, changes) →
      ∀ r' res, r.applyConfChange cc = .ok (r', res) →
        r'.prs.toCC = r.prs.toCC.applyConf cfg changes ∧ res = .ok cfg.toConfState) := by
  have heq := c09_applyConfChange_eq r cc
  constructor
  · intro e he
    rw [heq, he]
  · intro cfg changes hok r' res h
    rw [heq, hok] at h
    simp only [] at h
    rw [Res.bind_eq_ok_iff] at h
    obtain ⟨⟨r2, cs⟩, hp, h2⟩ := h
    cases h2
    obtain ⟨htc, hcs⟩ := postConfChange_tc hp TC.rfl
    refine ⟨?_, by rw [hcs]; rfl⟩
    rw [htc]
    exact c09_applyConf_toCC _ _ _ _

/-- in one equation: the node's configuration after `apply_conf_change` is `C12.step` (run the
changer; on success `apply_conf`, on error nothing) of the one before -/
theorem C09_apply_conf_change_step (r r' : Raft) (cc : ConfChangeV2)
    (res : Except ErrKind ConfState) (h : r.applyConfChange cc = .ok (r', res)) :
    r'.prs.toCC = RaftProps.C12.step r.prs.toCC (opOf cc) := by
  obtain ⟨h1, h2⟩ := C09_apply_conf_change_is_changer r cc
  unfold RaftProps.C12.step
  cases hr : (opOf cc).run r.prs.toCC with
  | error e =>
    rw [h1 e hr] at h
    cases h
    rfl
  | ok p =>
    obtain ⟨cfg, changes⟩ := p
    exact (h2 cfg changes hr r' res h).1

/-- apply the membership changes of the applied entries one after the other (the application calls
`RawNode::apply_conf_change` for each; a rejected change is reported and skipped); `none` if a call
panics -/
def applyChangesNode (r : Raft) : List ConfChangeV2 → Option Raft
  | [] => some r
  | cc :: ccs =>
    match r.applyConfChange cc with
    | .ok (r', _) => applyChangesNode r' ccs
    | _ => none

/-- **the node's configuration is `configOf` of the changes it applied** (C09/C12 `configOf` = the
fold of the changer over the changes) -/
theorem C09_node_config_is_configOf (ccs : List ConfChangeV2) : ∀ (r r' : Raft),
    applyChangesNode r ccs = some r' → r'.prs.toCC = configOf r.prs.toCC (ccs.map opOf) := by
  induction ccs with
  | nil => intro r r' h; cases h; rfl
  | cons cc ccs ih =>
    intro r r' h
    unfold applyChangesNode at h
    split at h
    · rename_i r1 res hr
      rw [ih r1 r' h, C09_apply_conf_change_step r r1 cc res hr]
      rfl
    · cases h

/-- **nodes that applied the same changes from the same configuration hold the same
configuration** -/
theorem C09_same_changes_same_config_node (r1 r2 r1' r2' : Raft) (ccs : List ConfChangeV2)
    (h0 : r1.prs.toCC = r2.prs.toCC) (h1 : applyChangesNode r1 ccs = some r1')
    (h2 : applyChangesNode r2 ccs = some r2') : r1'.prs.toCC = r2'.prs.toCC := by
  rw [C09_node_config_is_configOf ccs r1 r1' h1, C09_node_config_is_configOf ccs r2 r2' h2, h0]

theorem c09_restoreLoop_toCC (n : Nat) (l : List ConfChangeSingle) : ∀ (t : ProgressTracker),
    (match t.restoreLoop n l with
      | .ok t' => Except.ok t'.toCC
      | .error e => .error e) = restoreLoop t.toCC l := by
  induction l with
  | nil => intro t; rfl
  | cons c rest ih =>
    intro t
    unfold ProgressTracker.restoreLoop RaftModel.restoreLoop
    cases hs : simple t.toCC [c] with
    | error e => rfl
    | ok p =>
      obtain ⟨cfg, changes⟩ := p
      simp only
      rw [ih, c09_applyConf_toCC]

/-- **`confchange::restore` on the node's tracker is `restore` of C12** on the changer's view -/
theorem C09_restore_is_restore (t : ProgressTracker) (n : Nat) (cs : ConfState) :
    (match t.restore n cs with
      | .ok t' => Except.ok t'.toCC
      | .error e => .error e) = restore t.toCC cs := by
  unfold ProgressTracker.restore RaftModel.restore
  simp only []
  by_cases hE : (toConfChangeSingle cs).1.isEmpty = true
  · rw [if_pos hE, if_pos hE]; exact c09_restoreLoop_toCC _ _ _
  · rw [if_neg hE, if_neg hE]
    have h1 := c09_restoreLoop_toCC n (toConfChangeSingle cs).1 t
    cases hl : t.restoreLoop n (toConfChangeSingle cs).1 with
    | error e => rw [hl] at h1; simp only at h1; rw [← h1]
    | ok t1 =>
      rw [hl] at h1
      simp only at h1
      rw [← h1]
      simp only
      cases he : enterJoint t1.toCC cs.autoLeave (toConfChangeSingle cs).2 with
      | error e => rfl
      | ok p =>
        obtain ⟨cfg, changes⟩ := p
        simp only
        rw [c09_applyConf_toCC]

/-- **also after restart / snapshot**: a node whose tracker was restored (on an empty tracker, as
`Raft::new` and `Raft::restore` do) from the `ConfState` of the configuration reached by the changes
`ops`, and which then applies the changes `ccs`, holds the configuration `configOf` of all of them —
the same as a node that applied `ops` and `ccs` without ever restarting. -/
theorem C09_node_config_after_restore (ops : List RaftProps.C12.Op) (k n : Nat)
    (pt : ProgressTracker) (r r' : Raft) (ccs : List ConfChangeV2)
    (hr : (ProgressTracker.new k).restore n (configOf Tracker.empty ops).conf.toConfState = .ok pt)
    (hprs : r.prs = pt) (h : applyChangesNode r ccs = some r') :
    r'.prs.toCC = configOf Tracker.empty (ops ++ ccs.map opOf) := by
  have h1 := C09_restore_is_restore (ProgressTracker.new k) n
    (configOf Tracker.empty ops).conf.toConfState
  rw [hr] at h1
  simp only at h1
  have h2 : (ProgressTracker.new k).toCC = Tracker.empty := rfl
  rw [h2, C09_restore_reproduces_config ops] at h1
  injection h1 with h1
  rw [C09_node_config_is_configOf ccs r r' h, hprs, h1]
  unfold configOf RaftProps.C12.runOps
  rw [List.foldl_append]

/-- the link between "voter of its own active configuration" and `promotable`: on a node that is not
leader, a successful `apply_conf_change` sets `promotable` to "`id` is a voter (either half) of the
new configuration" — the flag the two theorems of section 5 read.  (On a leader that removed itself
`post_conf_change` steps down first: fix F14.) -/
theorem C09_promotable_is_voter_after_change (r r' : Raft) (cc : ConfChangeV2) (cs : ConfState)
    (hs : r.state ≠ .leader) (h : r.applyConfChange cc = .ok (r', .ok cs)) :
    r'.promotable = Joint.contains r'.prs.voters r'.id := by
  rw [c09_applyConfChange_eq] at h
  cases hr : (opOf cc).run r.prs.toCC with
  | error e => rw [hr] at h; cases h
  | ok p =>
    obtain ⟨cfg, changes⟩ := p
    rw [hr] at h
    simp only [] at h
    rw [Res.bind_eq_ok_iff] at h
    obtain ⟨⟨r2, cs2⟩, hp, h2⟩ := h
    cases h2
    unfold Raft.postConfChange at hp
    have hne : (r.state == StateRole.leader) = false := by
      cases hst : r.state <;> first | rfl | exact absurd hst hs
    simp only [hne, Bool.and_false, Bool.false_eq_true, if_false, ne_eq, hs, not_false_eq_true,
      true_or, if_true] at hp
    cases hp
    rfl

/-! ## 5. elections (restated from `RaftProps.RN` / `RaftProps.C09` for completeness) -/

/-- no campaign — by timeout, by `campaign()`, on a transfer request — while a committed membership
change is unapplied locally: `hup` returns the node untouched -/
theorem C09_no_campaign_with_unapplied_change_node (r : Raft) (transfer : Bool)
    (h : r.hasUnappliedConfChanges r.hupScanLow (r.raftLog.committed + 1) = .ok true) :
    r.hup transfer = .ok r :=
  RaftProps.RN.hup_blocked_by_unapplied_conf r transfer h

/-- a node that is not a voter of its own configuration (`promotable = false`) never starts an
election on its own: a tick only counts, and a leader's `MsgTimeoutNow` (transfer) is ignored -/
theorem C09_non_voter_never_campaigns_node (r : Raft) (hp : r.promotable = false) :
    (r.state ≠ .leader →
      r.tick = .ok ({ r with electionElapsed := r.electionElapsed + 1 }, false)) ∧
    (∀ m : Message, m.msgType = .msgTimeoutNow → r.stepFollower m = .ok (r, none)) :=
  ⟨fun hs => RaftProps.RN.non_promotable_never_campaigns_on_tick r hs hp,
   fun m hm => RaftProps.RN.non_promotable_ignores_timeout_now r m hm hp⟩

/-! ## the malformed payload and the dropped proposal -/

/-- **a proposal with a membership entry that does not decode is dropped as a whole**
(`ProposalDropped`; raft.rs:2122, 2129) — it is not replaced by an empty entry.  The node is the
filter's output state: the old one, except that an acceptable membership entry *earlier in the same
batch* has already moved `pending_conf_index`. -/
theorem C09_malformed_proposal_dropped (r : Raft) (m : Message) (hm : m.msgType = .msgPropose)
    (hself : (r.prs.get r.id).isSome) (ht : r.leadTransferee = none)
    (hbad : ∃ e ∈ m.entries, payload e = .malformed) :
    r.stepLeader m = .ok ((r.filterProposal 0 m.entries).1, some .proposalDropped) := by
  have hnone := (C09_proposal_filter_malformed m.entries r 0).2 hbad
  have h1 : m.entries.isEmpty = false := by
    obtain ⟨e, he, _⟩ := hbad
    cases hme : m.entries with
    | nil => rw [hme] at he; cases he
    | cons _ _ => rfl
  have h2 : (r.prs.get r.id).isNone = false := by
    cases hg : r.prs.get r.id with
    | none => rw [hg] at hself; cases hself
    | some _ => rfl
  cases hf : r.filterProposal 0 m.entries with
  | mk r1 o =>
    rw [hf] at hnone
    simp only at hnone
    subst hnone
    unfold Raft.stepLeader
    simp [hm, h1, h2, ht, hf]

/-! ## 6. non-vacuity: concrete proposals -/

/-- the C13b witness leader (log 3..4 after a snapshot at 2, applied 2, `pending_conf_index` 0, a
non-joint one-voter configuration), without the uncommitted-size limit -/
def leaderC : Raft := { RaftProps.C13.leader1 with uncommittedState := {} }

/-- the same leader in a joint configuration -/
def leaderJ : Raft :=
  { leaderC with prs := { leaderC.prs with conf := { incoming := [1, 2], outgoing := [1] } } }

/-- `ConfChangeV2 { changes: [AddNode 2] }` (simple) -/
def ccAdd : Entry := { etype := 2, data := [0x12, 0x02, 0x10, 0x02] }
/-- `ConfChangeV2 { transition: Explicit, changes: [AddNode 2] }` (enters a joint configuration) -/
def ccEnter : Entry := { etype := 2, data := [0x08, 0x02, 0x12, 0x02, 0x10, 0x02] }
/-- the empty `ConfChangeV2` (leaves a joint configuration) -/
def ccLeave : Entry := { etype := 2 }
/-- a legacy `ConfChange { change_type: RemoveNode, node_id: 3 }` -/
def ccV1 : Entry := { etype := 1, data := [0x10, 0x01, 0x18, 0x03] }
/-- a `ConfChangeV2` entry whose payload is truncated -/
def ccBad : Entry := { etype := 2, data := [0x12] }
def plain : Entry := { data := [7] }

/-- what the examples look at: `pending_conf_index` after the filter and the filtered batch -/
def fview (p : Raft × Option (List Entry)) : Nat × Option (List Entry) := (p.1.pendingConfIndex, p.2)

example : payload ccAdd = .change { changes := [{ ctype := .addNode, nodeId := 2 }] } ∧
    payload ccEnter = .change { transition := .explicit, changes := [{ ctype := .addNode, nodeId := 2 }] } ∧
    payload ccLeave = .change {} ∧
    payload ccV1 = .change { changes := [{ ctype := .removeNode, nodeId := 3 }] } ∧
    payload ccBad = .malformed ∧ payload plain = .normal := by decide

/-- **accepted**: one membership entry, nothing pending (`pending_conf_index = 0 ≤ applied = 2`), not
joint, non-empty change: kept, and `pending_conf_index` becomes its future index 5 -/
example : fview (leaderC.filterProposal 0 [ccAdd]) = (5, some [ccAdd]) := by decide

/-- **a second membership entry is replaced by the empty normal entry** — in the same batch (the
second one sees `pending_conf_index = 6 > applied`; the normal entries pass) … -/
example : fview (leaderC.filterProposal 0 [plain, ccAdd, plain, ccV1, ccEnter]) =
    (6, some [plain, ccAdd, plain, emptyNormal, emptyNormal]) := by decide

/-- … and in a later proposal, as long as the first one is not applied -/
example : fview (({ leaderC with pendingConfIndex := 5 } : Raft).filterProposal 0 [ccAdd]) =
    (5, some [emptyNormal]) := by decide

/-- **entering a joint configuration (or any non-empty change) while joint: replaced** -/
example : fview (leaderJ.filterProposal 0 [ccEnter]) = (0, some [emptyNormal]) ∧
    fview (leaderJ.filterProposal 0 [ccAdd]) = (0, some [emptyNormal]) := by decide

/-- **leaving a joint configuration while not joint: replaced**; while joint: accepted -/
example : fview (leaderC.filterProposal 0 [ccLeave]) = (0, some [emptyNormal]) ∧
    fview (leaderJ.filterProposal 0 [ccLeave]) = (5, some [ccLeave]) := by decide

/-- a malformed payload aborts the filter — after the acceptable entry before it has moved
`pending_conf_index` -/
example : fview (leaderC.filterProposal 0 [ccAdd, ccBad]) = (5, none) := by decide

/-- end to end through `step_leader`: the log grows by the filtered batch (entry types 2, 0 at
indexes 5, 6), and the invariant's hypotheses hold on the witness -/
example :
    (match leaderC.stepLeader { msgType := .msgPropose, entries := [ccAdd, ccV1] } with
     | .ok (r, e) => some (e, r.pendingConfIndex, r.raftLog.lastIndex,
         (r.raftLog.abs.ents.map (fun e => (e.index, e.etype))))
     | _ => none) = some (none, 5, 6, [(3, 0), (4, 0), (5, 2), (6, 0)]) ∧
    leaderC.raftLog.applied ≤ leaderC.raftLog.lastIndex ∧ leaderC.state = .leader := by
  refine ⟨by rfl, by decide, rfl⟩

/-- the witness satisfies `PendingOk` (its log holds no membership entry at all) -/
example : PendingOk leaderC := by
  have h : ∀ i e, leaderC.raftLog.abs.entryAt i = some e → ¬ isConf e := by
    intro i e he
    have habs : leaderC.raftLog.abs =
        (⟨2, some 1, [RaftProps.C14.ent 3 1 5, RaftProps.C14.ent 4 2 20]⟩ : LLog) := by rfl
    rw [habs] at he
    unfold LLog.entryAt at he
    dsimp only at he
    split at he
    · cases he
    · have hm := List.mem_of_getElem? he
      simp only [List.mem_cons, List.not_mem_nil, or_false] at hm
      rcases hm with hm | hm <;> (rw [hm]; decide)
  exact ⟨fun i e he hc => absurd hc (h i e he), fun i j ei ej hi hc => absurd hc (h i ei hi)⟩

/-- **dropped proposal**: with the size limit of the C13b witness (10 bytes, 8 used) the 4-byte
membership proposal is dropped by `append_entry` *after* the filter has set `pending_conf_index = 5`;
nothing is appended (last index still 4), `PendingOk` is untouched
(`C09_one_pending_change_propose`), but the next membership proposal is refused although the log
holds no membership entry — until index 5, which the next accepted proposal of any kind will occupy,
is applied.  Liveness only. -/
example :
    (match RaftProps.C13.leader1.stepLeader { msgType := .msgPropose, entries := [ccAdd] } with
     | .ok (r, e) => some (e, r.pendingConfIndex, r.raftLog.lastIndex,
         fview (r.filterProposal 0 [ccAdd]))
     | _ => none) = some (some .proposalDropped, 5, 4, (5, some [emptyNormal])) := by rfl

/-- **observation** (harmless, same test as etcd/raft): the filter's "wants to leave" test is
`changes.is_empty()`, coarser than `ConfChangeV2::leave_joint()` (which also requires
`transition == Auto`).  An *explicit*-transition change without changes proposed while joint passes
the filter as a "leave" (and takes the pending slot), but `apply_conf_change` classifies it as
`enter_joint(false)`, the changer rejects it ("config is already joint") and the configuration stays
joint. -/
example :
    payload { etype := 2, data := [0x08, 0x02] } = .change { transition := .explicit } ∧
    fview (leaderJ.filterProposal 0 [{ etype := 2, data := [0x08, 0x02] }]) =
      (5, some [{ etype := 2, data := [0x08, 0x02] }]) ∧
    (opOf { transition := .explicit }).run leaderJ.prs.toCC = .error .alreadyJoint :=
  ⟨by decide, by decide, by rfl⟩

/-! ### the hypothesis of `C09_one_pending_change_become_leader` is needed

A node may win an election with **two** membership entries beyond its apply cursor in its log: the
check in `hup` only looks at `(applied, committed]`.  Here a candidate (applied = committed = 2) holds
the uncommitted membership entries 3 and 4 (both received from an earlier leader, which appended the
second after it had applied the first).  `become_leader` succeeds; `pending_conf_index = 4` blocks
every new membership proposal until index 4 is applied, so `ConfBounded` holds, but
`AtMostOneUnapplied` does not: the literal sentence "a leader's log never holds more than one
membership-change entry beyond its applied index" is true of the entries the leader *appends*, not of
those it inherits. -/

def stCC : MemStorage :=
  { snapshotMetadata := { index := 2, term := 1 }, hardState := { commit := 2 },
    entries := [{ ccAdd with term := 1, index := 3 }, { ccV1 with term := 1, index := 4 }] }

def candCC : Raft :=
  { raftLog := { store := stCC, unstable := Unstable.new 5, committed := 2, persisted := 4,
                 applied := 2, maxApplyUnpersistedLogLimit := 0 },
    id := 1, term := 2, state := .candidate,
    prs := { conf := { incoming := [1] }, progress := [(1, Progress.new 5 8)] } }

example : ∃ r', candCC.becomeLeader = .ok r' ∧ r'.pendingConfIndex = 4 ∧ r'.raftLog.applied = 2 ∧
    r'.raftLog.abs.entryAt 3 = some { ccAdd with term := 1, index := 3 } ∧
    r'.raftLog.abs.entryAt 4 = some { ccV1 with term := 1, index := 4 } ∧
    ¬ AtMostOneUnapplied r' := by
  refine ⟨_, rfl, rfl, rfl, rfl, rfl, ?_⟩
  intro h
  have := h 3 4 _ _ (by rfl) (by decide) (by decide) (by rfl) (by decide) (by decide)
  cases this

end RaftProps.C09
