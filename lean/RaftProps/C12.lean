import RaftProofs.ConfChange

/-!
# C12 — the configuration-change algebra keeps its invariants and quorum overlap

Property theorems only (helper lemmas live in `RaftProofs/ConfChange.lean`).  The model
`RaftModel.{simple, enterJoint, leaveJoint, restore, Tracker.applyConf, Configuration.toConfState}`
mirrors `src/confchange/{changer,restore}.rs` and `src/tracker.rs` function by function; a `Tracker`
is the configuration plus the key set of the progress map.

All theorems quantify over every tracker satisfying the invariant `CfgInv` (and `CfgInv` is proved
for every tracker reachable from the empty one / from `restore` by operation sequences of any
length), every change list (any ids, including 0, unknown ids, duplicates, the empty list) and every
`auto_leave` flag.
-/
namespace RaftProps.C12
open RaftModel RaftProofs.ConfChange

/-! ## the invariant, spelled out -/

/-- `CfgInv t` (defined in RaftProofs/ConfChange.lean as `LI t.conf t.progress ∧ …`) says exactly
this: the five sets are sorted duplicate-free lists; **progress is tracked for exactly the
members**; learners are disjoint from both voter halves; staged learners are outgoing voters, are
not incoming voters and (hence) not learners; id 0 is never a member; a non-joint configuration has
no staged learners and no auto-leave flag. -/
theorem C12_CfgInv_iff (t : Tracker) :
    CfgInv t ↔
      (Sorted t.conf.incoming ∧ Sorted t.conf.outgoing ∧ Sorted t.conf.learners ∧
        Sorted t.conf.learnersNext ∧ Sorted t.progress) ∧
      (∀ x, x ∈ t.progress ↔
        x ∈ t.conf.incoming ∨ x ∈ t.conf.outgoing ∨ x ∈ t.conf.learners ∨ x ∈ t.conf.learnersNext) ∧
      (∀ x, x ∈ t.conf.learners → x ∉ t.conf.incoming ∧ x ∉ t.conf.outgoing) ∧
      (∀ x, x ∈ t.conf.learnersNext →
        x ∈ t.conf.outgoing ∧ x ∉ t.conf.incoming ∧ x ∉ t.conf.learners) ∧
      0 ∉ t.progress ∧
      (t.conf.outgoing = [] → t.conf.learnersNext = [] ∧ t.conf.autoLeave = false) := by
  constructor
  · rintro ⟨⟨h1, h2, h3, h4, h5, h6, h7, h8, h9, h10, h11⟩, hj⟩
    exact ⟨⟨h1, h2, h3, h4, h5⟩, h6, fun x hx => ⟨h7 x hx, h8 x hx⟩,
      fun x hx => ⟨h9 x hx, h10 x hx, fun hl => h8 x hl (h9 x hx)⟩, h11, hj⟩
  · rintro ⟨⟨h1, h2, h3, h4, h5⟩, h6, h7, h8, h11, hj⟩
    exact ⟨⟨h1, h2, h3, h4, h5, h6, fun x hx => (h7 x hx).1, fun x hx => (h7 x hx).2,
      fun x hx => (h8 x hx).1, fun x hx => (h8 x hx).2.1, h11⟩, hj⟩

/-- a sorted list has no duplicates -/
theorem C12_sorted_nodup {s : List Nat} (h : Sorted s) : s.Nodup := h.nodup

/-- boolean form of `Sorted` -/
def sortedB : List Nat → Bool
  | [] => true
  | [_] => true
  | a :: b :: l => decide (a < b) && sortedB (b :: l)

theorem sorted_of_sortedB : ∀ {l : List Nat}, sortedB l = true → Sorted l
  | [], _ => List.Pairwise.nil
  | [a], _ => by simp [Sorted]
  | a :: b :: l, h => by
    simp only [sortedB, Bool.and_eq_true, decide_eq_true_eq] at h
    have ih := sorted_of_sortedB h.2
    have ih' := List.pairwise_cons.mp ih
    refine List.pairwise_cons.mpr ⟨?_, ih⟩
    intro c hc
    rcases List.mem_cons.mp hc with hc | hc
    · subst hc; exact h.1
    · exact Nat.lt_trans h.1 (ih'.1 c hc)

/-- decidable form of `CfgInv` (sufficient), used for the non-vacuity examples and usable as a
run-time check -/
def cfgInvB (t : Tracker) : Bool :=
  let c := t.conf
  sortedB c.incoming && sortedB c.outgoing && sortedB c.learners && sortedB c.learnersNext &&
  sortedB t.progress &&
  t.progress.all (fun x => decide (x ∈ c.incoming) || decide (x ∈ c.outgoing) ||
    decide (x ∈ c.learners) || decide (x ∈ c.learnersNext)) &&
  c.incoming.all (fun x => decide (x ∈ t.progress)) &&
  c.outgoing.all (fun x => decide (x ∈ t.progress)) &&
  c.learners.all (fun x => decide (x ∈ t.progress) && !decide (x ∈ c.incoming) && !decide (x ∈ c.outgoing)) &&
  c.learnersNext.all (fun x => decide (x ∈ t.progress) && decide (x ∈ c.outgoing) && !decide (x ∈ c.incoming)) &&
  !decide (0 ∈ t.progress) &&
  (!c.outgoing.isEmpty || (c.learnersNext.isEmpty && !c.autoLeave))

theorem cfgInv_of_cfgInvB {t : Tracker} (h : cfgInvB t = true) : CfgInv t := by
  simp only [cfgInvB, Bool.and_eq_true, List.all_eq_true, Bool.or_eq_true, decide_eq_true_eq,
    Bool.not_eq_true', decide_eq_false_iff_not, List.isEmpty_iff] at h
  obtain ⟨⟨⟨⟨⟨⟨⟨⟨⟨⟨⟨s1, s2⟩, s3⟩, s4⟩, s5⟩, e1⟩, e2⟩, e3⟩, e4⟩, e5⟩, z⟩, j⟩ := h
  refine ⟨⟨sorted_of_sortedB s1, sorted_of_sortedB s2, sorted_of_sortedB s3, sorted_of_sortedB s4,
    sorted_of_sortedB s5, ?_, ?_, ?_, ?_, ?_, z⟩, ?_⟩
  · intro x
    constructor
    · intro hx
      rcases e1 x hx with ((h | h) | h) | h
      · exact Or.inl h
      · exact Or.inr (Or.inl h)
      · exact Or.inr (Or.inr (Or.inl h))
      · exact Or.inr (Or.inr (Or.inr h))
    · rintro (h | h | h | h)
      · exact e2 x h
      · exact e3 x h
      · exact (e4 x h).1.1
      · exact (e5 x h).1.1
  · exact fun x hx => (e4 x hx).1.2
  · exact fun x hx => (e4 x hx).2
  · exact fun x hx => (e5 x hx).1.2
  · exact fun x hx => (e5 x hx).2
  · intro ho
    rcases j with j | j
    · exact absurd ho (by simpa using j)
    · simpa using j

/-! ## operations and reachability -/

/-- the three changer methods -/
inductive Op where
  | simple (ccs : List ConfChangeSingle)
  | enterJoint (autoLeave : Bool) (ccs : List ConfChangeSingle)
  | leaveJoint
  deriving Repr

/-- run a changer method on (a borrow of) the tracker -/
def Op.run (t : Tracker) : Op → Except ErrKind (Configuration × MapChange)
  | .simple ccs => RaftModel.simple t ccs
  | .enterJoint al ccs => RaftModel.enterJoint t al ccs
  | .leaveJoint => RaftModel.leaveJoint t

/-- what the callers do (`Raft::apply_conf_change`, `restore`, the data-driven test): on success
`apply_conf`, on error nothing -/
def step (t : Tracker) (op : Op) : Tracker :=
  match op.run t with
  | .ok (cfg, changes) => t.applyConf cfg changes
  | .error _ => t

def runOps (t : Tracker) (ops : List Op) : Tracker := ops.foldl step t

/-- the empty tracker (`ProgressTracker::new`) satisfies the invariant -/
theorem C12_inv_empty : CfgInv Tracker.empty := cfgInv_of_cfgInvB rfl

/-! ## preservation -/

/-- **`simple` preserves the invariant**, and what it returns has at least one voter and differs
from the old incoming voters by at most one member. -/
theorem C12_inv_simple {t : Tracker} (h : CfgInv t) {ccs : List ConfChangeSingle}
    {cfg : Configuration} {ch : MapChange} (hr : simple t ccs = .ok (cfg, ch)) :
    CfgInv (t.applyConf cfg ch) ∧ cfg.incoming ≠ [] ∧
    NatSet.symmDiffCount cfg.incoming t.conf.incoming ≤ 1 ∧ cfg.outgoing = [] :=
  simple_inv h hr

/-- **`enter_joint` preserves the invariant**; the result has at least one incoming voter, its
outgoing half is the old incoming half, and `auto_leave` is as requested. -/
theorem C12_inv_enterJoint {t : Tracker} (h : CfgInv t) {al : Bool} {ccs : List ConfChangeSingle}
    {cfg : Configuration} {ch : MapChange} (hr : enterJoint t al ccs = .ok (cfg, ch)) :
    CfgInv (t.applyConf cfg ch) ∧ cfg.incoming ≠ [] ∧ cfg.outgoing = t.conf.incoming ∧
    t.conf.incoming ≠ [] ∧ t.conf.outgoing = [] ∧ cfg.autoLeave = al :=
  enterJoint_inv h hr

/-- **`leave_joint` preserves the invariant**; the incoming voters are untouched, the outgoing half
is dropped, the staged learners become learners. -/
theorem C12_inv_leaveJoint {t : Tracker} (h : CfgInv t)
    {cfg : Configuration} {ch : MapChange} (hr : leaveJoint t = .ok (cfg, ch)) :
    CfgInv (t.applyConf cfg ch) ∧ cfg.incoming = t.conf.incoming ∧ cfg.outgoing = [] ∧
    t.conf.outgoing ≠ [] ∧ cfg.learnersNext = [] ∧ cfg.autoLeave = false ∧
    (∀ x, x ∈ cfg.learners ↔ x ∈ t.conf.learners ∨ x ∈ t.conf.learnersNext) :=
  leaveJoint_inv h hr

/-- every operation, accepted or rejected, preserves the invariant -/
theorem C12_inv_step {t : Tracker} (h : CfgInv t) (op : Op) : CfgInv (step t op) := by
  unfold step
  cases hr : op.run t with
  | error e => exact h
  | ok r =>
    obtain ⟨cfg, ch⟩ := r
    cases op with
    | simple ccs => exact (C12_inv_simple h hr).1
    | enterJoint al ccs => exact (C12_inv_enterJoint h hr).1
    | leaveJoint => exact (C12_inv_leaveJoint h hr).1

/-- **the invariant holds in every reachable tracker**: from any consistent tracker (in particular
the empty one), after any sequence of changer operations of any length -/
theorem C12_inv_reachable {t : Tracker} (h : CfgInv t) (ops : List Op) : CfgInv (runOps t ops) := by
  induction ops generalizing t with
  | nil => exact h
  | cons op ops ih => exact ih (C12_inv_step h op)

/-- a configuration with no voter is only ever the untouched empty start: once an operation has
been accepted there is at least one (incoming) voter, forever -/
theorem C12_voters_nonempty_step {t : Tracker} (h : CfgInv t) (op : Op)
    (hv : t.conf.incoming ≠ [] ∨ t = Tracker.empty) :
    (step t op).conf.incoming ≠ [] ∨ step t op = Tracker.empty := by
  unfold step
  cases hr : op.run t with
  | error e => exact hv
  | ok r =>
    obtain ⟨cfg, ch⟩ := r
    left
    cases op with
    | simple ccs => exact (C12_inv_simple h hr).2.1
    | enterJoint al ccs => exact (C12_inv_enterJoint h hr).2.1
    | leaveJoint =>
      have := C12_inv_leaveJoint h hr
      rcases hv with hv | hv
      · show cfg.incoming ≠ []
        rw [this.2.1]; exact hv
      · subst hv; exact absurd rfl this.2.2.2.1

theorem C12_voters_nonempty_reachable (ops : List Op) :
    (runOps Tracker.empty ops).conf.incoming ≠ [] ∨ runOps Tracker.empty ops = Tracker.empty := by
  suffices ∀ t, CfgInv t → (t.conf.incoming ≠ [] ∨ t = Tracker.empty) →
      (runOps t ops).conf.incoming ≠ [] ∨ runOps t ops = Tracker.empty from
    this _ C12_inv_empty (Or.inr rfl)
  induction ops with
  | nil => exact fun t _ hv => hv
  | cons op ops ih =>
    exact fun t h hv => ih (step t op) (C12_inv_step h op) (C12_voters_nonempty_step h op hv)

/-- **a simple change alters the voter set by at most one member** (no invariant needed: this is the
check in `simple` itself) -/
theorem C12_simple_symmdiff_le_one {t : Tracker} {ccs : List ConfChangeSingle}
    {cfg : Configuration} {ch : MapChange} (hr : simple t ccs = .ok (cfg, ch)) :
    NatSet.symmDiffCount cfg.incoming t.conf.incoming ≤ 1 := by
  unfold simple at hr
  split at hr
  · simp at hr
  · split at hr
    · simp at hr
    · split at hr
      · simp at hr
      · split at hr
        · simp at hr
        · split at hr
          · simp at hr
          · simp only [Except.ok.injEq, Prod.mk.injEq] at hr
            obtain ⟨rfl, _⟩ := hr
            omega

/-- **a rejected change leaves everything untouched**: the changer methods only borrow the tracker
and return the new configuration and the progress changes; on an error nothing is returned and the
caller's tracker is the one it had (the Rust side of this is compared by the tie: after an `err`
the whole observable state is re-read and must be unchanged) -/
theorem C12_error_no_change (t : Tracker) (op : Op) (e : ErrKind) (hr : op.run t = .error e) :
    step t op = t := by
  simp [step, hr]

/-- from a consistent tracker the changer never reports a broken internal invariant: the only
rejections are the documented ones (wrong mode, no voter left, more than one voter changed) -/
theorem C12_no_invariant_error {t : Tracker} (h : CfgInv t) (op : Op) :
    op.run t ≠ .error .invariant ∧ op.run t ≠ .error .notJointCopy := by
  cases op with
  | simple ccs =>
    simp only [Op.run, simple_eq h]
    constructor <;> (repeat' split) <;> simp
  | enterJoint al ccs =>
    simp only [Op.run, enterJoint_eq h]
    constructor <;> (repeat' split) <;> simp
  | leaveJoint =>
    simp only [Op.run, leaveJoint_eq h]
    constructor <;> (repeat' split) <;> simp

/-! ## quorum overlap across a change -/

/-- `q` is a *deciding quorum* of `c`: it contains a majority (`n/2+1` of `n`) of the incoming voters
and, if the configuration is joint, also a majority of the outgoing voters.  (A configuration
without voters has no deciding quorum under this definition; the code's convention that an empty
majority config "wins" only concerns bootstrap from the empty tracker.) -/
def Deciding (c : Configuration) (q : List Nat) : Prop :=
  HasMajority q c.incoming ∧ (c.outgoing ≠ [] → HasMajority q c.outgoing)

instance (c : Configuration) (q : List Nat) : Decidable (Deciding c q) := by
  unfold Deciding; exact inferInstance

/-- two majorities of one duplicate-free voter list share a voter (pigeonhole) -/
theorem C12_majorities_intersect {v q₁ q₂ : List Nat}
    (h₁ : HasMajority q₁ v) (h₂ : HasMajority q₂ v) : ∃ x ∈ v, x ∈ q₁ ∧ x ∈ q₂ :=
  majorities_intersect h₁ h₂

/-- **simple change**: any deciding quorum before intersects any deciding quorum after (in a voter
of the old configuration) -/
theorem C12_quorums_overlap_simple {t : Tracker} (h : CfgInv t) {ccs : List ConfChangeSingle}
    {cfg : Configuration} {ch : MapChange} (hr : simple t ccs = .ok (cfg, ch))
    {q₁ q₂ : List Nat} (hq₁ : Deciding t.conf q₁) (hq₂ : Deciding cfg q₂) :
    ∃ x ∈ t.conf.incoming, x ∈ q₁ ∧ x ∈ q₂ := by
  obtain ⟨hi, _, hd, _⟩ := C12_inv_simple h hr
  exact majorities_intersect_symmdiff h.1.sInc.nodup hi.1.sInc.nodup hd hq₁.1 hq₂.1

/-- **entering a joint configuration**: the new configuration still needs a majority of the old
voters, so any deciding quorum before intersects any after -/
theorem C12_quorums_overlap_enterJoint {t : Tracker} (h : CfgInv t) {al : Bool}
    {ccs : List ConfChangeSingle} {cfg : Configuration} {ch : MapChange}
    (hr : enterJoint t al ccs = .ok (cfg, ch))
    {q₁ q₂ : List Nat} (hq₁ : Deciding t.conf q₁) (hq₂ : Deciding cfg q₂) :
    ∃ x ∈ t.conf.incoming, x ∈ q₁ ∧ x ∈ q₂ := by
  obtain ⟨_, _, ho, hne, _, _⟩ := C12_inv_enterJoint h hr
  have := hq₂.2 (by rw [ho]; exact hne)
  rw [ho] at this
  exact majorities_intersect hq₁.1 this

/-- **leaving a joint configuration**: the incoming voters, a majority of which was already needed,
stay; any deciding quorum before intersects any after -/
theorem C12_quorums_overlap_leaveJoint {t : Tracker} (h : CfgInv t)
    {cfg : Configuration} {ch : MapChange} (hr : leaveJoint t = .ok (cfg, ch))
    {q₁ q₂ : List Nat} (hq₁ : Deciding t.conf q₁) (hq₂ : Deciding cfg q₂) :
    ∃ x ∈ t.conf.incoming, x ∈ q₁ ∧ x ∈ q₂ := by
  obtain ⟨_, hi, _⟩ := C12_inv_leaveJoint h hr
  have := hq₂.1
  rw [hi] at this
  exact majorities_intersect hq₁.1 this

/-- all three at once, along any operation sequence: consecutive configurations of a reachable
history have intersecting deciding quorums -/
theorem C12_quorums_overlap_step {t : Tracker} (h : CfgInv t) (op : Op)
    {q₁ q₂ : List Nat} (hq₁ : Deciding t.conf q₁) (hq₂ : Deciding (step t op).conf q₂) :
    ∃ x, x ∈ q₁ ∧ x ∈ q₂ := by
  unfold step at hq₂
  cases hr : op.run t with
  | error e =>
    rw [hr] at hq₂
    obtain ⟨x, _, hx⟩ := majorities_intersect hq₁.1 hq₂.1
    exact ⟨x, hx⟩
  | ok r =>
    obtain ⟨cfg, ch⟩ := r
    rw [hr] at hq₂
    have hq₂' : Deciding cfg q₂ := hq₂
    cases op with
    | simple ccs => obtain ⟨x, _, hx⟩ := C12_quorums_overlap_simple h hr hq₁ hq₂'; exact ⟨x, hx⟩
    | enterJoint al ccs => obtain ⟨x, _, hx⟩ := C12_quorums_overlap_enterJoint h hr hq₁ hq₂'; exact ⟨x, hx⟩
    | leaveJoint => obtain ⟨x, _, hx⟩ := C12_quorums_overlap_leaveJoint h hr hq₁ hq₂'; exact ⟨x, hx⟩

/-! ## classification of a `ConfChangeV2` -/

/-- **`classification_total`**: the two predicates `Raft::apply_conf_change` consults are mutually
exclusive, and a `ConfChangeV2` is exactly one of: *leave* (transition Auto, no changes), *enter
joint with auto-leave* (Implicit, or Auto with more than one change), *enter joint, explicit leave*
(Explicit), *simple* (Auto with exactly one change). -/
theorem C12_classification_total (cc : ConfChangeV2) :
    (cc.leaveJoint = true → cc.enterJoint = none) ∧
    (cc.classify = .leave ↔ cc.transition = .auto ∧ cc.changes = []) ∧
    (cc.classify = .enter true ↔
      cc.transition = .implicit ∨ (cc.transition = .auto ∧ cc.changes.length > 1)) ∧
    (cc.classify = .enter false ↔ cc.transition = .explicit) ∧
    (cc.classify = .simple ↔ cc.transition = .auto ∧ cc.changes.length = 1) := by
  obtain ⟨tr, changes, ctx⟩ := cc
  cases tr <;> cases changes with
  | nil => simp [ConfChangeV2.classify, ConfChangeV2.leaveJoint, ConfChangeV2.enterJoint]
  | cons a l =>
    cases l <;> simp [ConfChangeV2.classify, ConfChangeV2.leaveJoint, ConfChangeV2.enterJoint]

/-- a legacy `ConfChange` always converts to a *simple* V2 change with the same single change -/
theorem C12_v1_is_simple (c : ConfChange) :
    c.intoV2.classify = .simple ∧ c.intoV2.changes = [⟨c.ctype, c.nodeId⟩] ∧
    c.intoV2.context = c.context := by
  simp [ConfChange.intoV2, ConfChangeV2.classify, ConfChangeV2.leaveJoint, ConfChangeV2.enterJoint]

/-! ## restoring a `ConfState` -/

/-- **`restore` establishes the invariant** from any `ConfState` it accepts (whatever the lists
contain: overlaps, id 0, duplicates), and the result has at least one voter unless the `ConfState`
was empty -/
theorem C12_restore_inv {cs : ConfState} {t : Tracker} (hr : restore Tracker.empty cs = .ok t) :
    CfgInv t ∧ (t.conf.incoming ≠ [] ∨ t = Tracker.empty) :=
  restore_inv C12_inv_empty hr

/-- **`restore (to_conf_state c) = c`**, order-insensitive: restoring any `ConfState` that
`conf_state_eq` identifies with the `ConfState` of a consistent tracker (any permutation of the id
lists, even with repetitions) reproduces that tracker — configuration *and* progress key set. -/
theorem C12_restore_toConfState {t : Tracker} (h : CfgInv t)
    (hv : t.conf.incoming ≠ [] ∨ t = Tracker.empty)
    (cs : ConfState) (hcs : confStateEq cs t.conf.toConfState = true) :
    restore Tracker.empty cs = .ok t :=
  restore_roundtrip h hv cs hcs

/-- …in particular for every reachable tracker and its own `ConfState` -/
theorem C12_restore_toConfState_reachable (ops : List Op) :
    restore Tracker.empty (runOps Tracker.empty ops).conf.toConfState = .ok (runOps Tracker.empty ops) := by
  apply C12_restore_toConfState (C12_inv_reachable C12_inv_empty ops) (C12_voters_nonempty_reachable ops)
  simp [confStateEq]

/-- …and for every tracker built by `restore` followed by any operation sequence -/
theorem C12_restore_toConfState_restored {cs : ConfState} {t : Tracker}
    (hr : restore Tracker.empty cs = .ok t) (ops : List Op) :
    CfgInv (runOps t ops) ∧
    restore Tracker.empty (runOps t ops).conf.toConfState = .ok (runOps t ops) := by
  obtain ⟨hi, hv⟩ := C12_restore_inv hr
  have hi' := C12_inv_reachable hi ops
  refine ⟨hi', ?_⟩
  have hv' : (runOps t ops).conf.incoming ≠ [] ∨ runOps t ops = Tracker.empty := by
    clear hr
    induction ops generalizing t with
    | nil => exact hv
    | cons op ops ih =>
      exact ih (C12_inv_step hi op) (C12_voters_nonempty_step hi op hv) (C12_inv_reachable (C12_inv_step hi op) ops)
  apply C12_restore_toConfState hi' hv'
  simp [confStateEq]

/-! ## non-vacuity: concrete states meeting the hypotheses -/

/-- a joint configuration `(1 2 3)&&(1 2 4 6)`, learner 5, staged learner 4, auto-leave (the example
of restore.rs) -/
def exJoint : Tracker :=
  { conf := { incoming := [1, 2, 3], outgoing := [1, 2, 4, 6], learners := [5], learnersNext := [4],
              autoLeave := true },
    progress := [1, 2, 3, 4, 5, 6] }

example : CfgInv exJoint := cfgInv_of_cfgInvB rfl
example : exJoint.conf.incoming ≠ [] := by decide

/-- it is reachable from the empty tracker … -/
example : runOps Tracker.empty
    [.simple [⟨.addNode, 1⟩], .simple [⟨.addNode, 2⟩], .simple [⟨.addNode, 4⟩], .simple [⟨.addNode, 6⟩],
     .enterJoint true [⟨.removeNode, 6⟩, ⟨.addLearnerNode, 4⟩, ⟨.addNode, 3⟩, ⟨.addLearnerNode, 5⟩]] = exJoint := by
  decide

/-- … `restore` rebuilds it from a shuffled `ConfState` with a repeated id … -/
example : restore Tracker.empty
    { voters := [3, 1, 2, 3], votersOutgoing := [6, 4, 2, 1], learners := [5], learnersNext := [4],
      autoLeave := true } = .ok exJoint := rfl

/-- … a simple change on a 3-voter configuration, a quorum before and a quorum after -/
def exThree : Tracker := { conf := { incoming := [1, 2, 3] }, progress := [1, 2, 3] }
example : CfgInv exThree := cfgInv_of_cfgInvB rfl
example : simple exThree [⟨.addNode, 4⟩] = .ok ({ incoming := [1, 2, 3, 4] }, [(4, .add)]) := rfl
example : Deciding exThree.conf [2, 3] := by decide
example : Deciding { incoming := [1, 2, 3, 4] } [1, 2, 4] := by decide
example : Deciding exJoint.conf [1, 2, 4] := by decide
example : ¬ Deciding exJoint.conf [1, 2, 3] := by decide
/-- leaving the joint configuration of `exJoint` -/
example : leaveJoint exJoint =
    .ok ({ incoming := [1, 2, 3], learners := [4, 5] }, [(6, .remove)]) := rfl
/-- rejected changes -/
example : simple exThree [⟨.addNode, 4⟩, ⟨.addNode, 5⟩] = .error .multiVoter := rfl
example : simple exJoint [⟨.addNode, 7⟩] = .error .simpleInJoint := rfl
example : enterJoint exThree false [⟨.removeNode, 1⟩, ⟨.removeNode, 2⟩, ⟨.removeNode, 3⟩] = .error .removedAll := rfl

end RaftProps.C12
